/-
Helper lemmas for `Props/C02Horz.lean`: the heap of `Model/HorzJoins.lean` read as a link structure (`nextOf`, `prevOf`), the
decomposition of a heap into rings (`Rings`), and what `DuplicateOp`, the `while` walks, the surgery of `ProcessHorzJoins`
and `FixOutRecPts` do to it.  Core Lean only.
-/
import ClipperVerif.Model.HorzJoins
import ClipperVerif.Lemmas.HorzJoinsRing
namespace Clipper.Model.HorzJoins
open Clipper

/-! ## the heap as partial functions -/

def nextOf (H : Heap) : PF := fun i => (H.ops[i]?).map (·.next)
def prevOf (H : Heap) : PF := fun i => (H.ops[i]?).map (·.prev)
def orecOf (H : Heap) : PF := fun i => (H.ops[i]?).map (·.orec)
def ptOf (H : Heap) (i : Nat) : Option Pt := (H.ops[i]?).map (·.pt)

theorem node_ok {H : Heap} {i : Nat} {n : Node} : H.node i = .ok n ↔ H.ops[i]? = some n := by
  unfold Heap.node; cases H.ops[i]? <;> simp

theorem node_of_lt {H : Heap} {i : Nat} (h : i < H.ops.size) : ∃ n, H.ops[i]? = some n :=
  ⟨H.ops[i], by simp [h]⟩

theorem lt_of_node {H : Heap} {i : Nat} {n : Node} (h : H.ops[i]? = some n) : i < H.ops.size := by
  by_cases hi : i < H.ops.size
  · exact hi
  · simp [Array.getElem?_eq_none (Nat.le_of_not_lt hi)] at h

theorem nextOf_some {H : Heap} {i b : Nat} : nextOf H i = some b ↔ ∃ n, H.ops[i]? = some n ∧ n.next = b := by
  unfold nextOf; cases H.ops[i]? <;> simp

theorem prevOf_some {H : Heap} {i b : Nat} : prevOf H i = some b ↔ ∃ n, H.ops[i]? = some n ∧ n.prev = b := by
  unfold prevOf; cases H.ops[i]? <;> simp

theorem ptOf_some {H : Heap} {i : Nat} {p : Pt} : ptOf H i = some p ↔ ∃ n, H.ops[i]? = some n ∧ n.pt = p := by
  unfold ptOf; cases H.ops[i]? <;> simp

theorem orecOf_some {H : Heap} {i b : Nat} : orecOf H i = some b ↔ ∃ n, H.ops[i]? = some n ∧ n.orec = b := by
  unfold orecOf; cases H.ops[i]? <;> simp

/-- a successful write through an `OutPt*` -/
theorem updNode_ok {H H' : Heap} {i : Nat} {f : Node → Node} (h : H.updNode i f = .ok H') :
    i < H.ops.size ∧ H'.recs = H.recs ∧ H'.ops.size = H.ops.size ∧
    ∀ j, H'.ops[j]? = if j = i then (H.ops[j]?).map f else H.ops[j]? := by
  unfold Heap.updNode at h
  split at h
  · rename_i hi
    cases h
    refine ⟨hi, rfl, by simp, ?_⟩
    intro j
    simp only [Array.getElem?_modify]
    by_cases hj : j = i
    · subst hj; simp
    · simp [hj, Ne.symm hj]
  · cases h

theorem updNode_of_lt (H : Heap) {i : Nat} (f : Node → Node) (hi : i < H.ops.size) :
    ∃ H', H.updNode i f = .ok H' := by
  unfold Heap.updNode; simp [hi]

/-- a successful write through an `OutRec*` -/
theorem updRec_ok {H H' : Heap} {i : Nat} {f : ORec → ORec} (h : H.updRec i f = .ok H') :
    i < H.recs.size ∧ H'.ops = H.ops ∧ H'.recs.size = H.recs.size ∧
    ∀ j, H'.recs[j]? = if j = i then (H.recs[j]?).map f else H.recs[j]? := by
  unfold Heap.updRec at h
  split at h
  · rename_i hi
    cases h
    refine ⟨hi, rfl, by simp, ?_⟩
    intro j
    simp only [Array.getElem?_modify]
    by_cases hj : j = i
    · subst hj; simp
    · simp [hj, Ne.symm hj]
  · cases h

theorem updRec_of_lt (H : Heap) {i : Nat} (f : ORec → ORec) (hi : i < H.recs.size) :
    ∃ H', H.updRec i f = .ok H' := by
  unfold Heap.updRec; simp [hi]

/-! ### the four kinds of node writes -/

theorem upd_next_eqs {H H' : Heap} {i v : Nat} (h : H.updNode i (fun x => { x with next := v }) = .ok H') :
    nextOf H' = upd (nextOf H) i v ∧ prevOf H' = prevOf H ∧ orecOf H' = orecOf H ∧ ptOf H' = ptOf H ∧
    H'.recs = H.recs ∧ H'.ops.size = H.ops.size := by
  obtain ⟨hi, hr, hs, hg⟩ := updNode_ok h
  obtain ⟨n, hn⟩ := node_of_lt hi
  refine ⟨?_, ?_, ?_, ?_, hr, hs⟩ <;> funext j <;> simp only [nextOf, prevOf, orecOf, ptOf, upd, hg j] <;>
    by_cases hj : j = i <;> simp [hj, hn] <;> cases H.ops[j]? <;> simp

theorem upd_prev_eqs {H H' : Heap} {i v : Nat} (h : H.updNode i (fun x => { x with prev := v }) = .ok H') :
    nextOf H' = nextOf H ∧ prevOf H' = upd (prevOf H) i v ∧ orecOf H' = orecOf H ∧ ptOf H' = ptOf H ∧
    H'.recs = H.recs ∧ H'.ops.size = H.ops.size := by
  obtain ⟨hi, hr, hs, hg⟩ := updNode_ok h
  obtain ⟨n, hn⟩ := node_of_lt hi
  refine ⟨?_, ?_, ?_, ?_, hr, hs⟩ <;> funext j <;> simp only [nextOf, prevOf, orecOf, ptOf, upd, hg j] <;>
    by_cases hj : j = i <;> simp [hj, hn] <;> cases H.ops[j]? <;> simp

theorem upd_orec_eqs {H H' : Heap} {i v : Nat} (h : H.updNode i (fun x => { x with orec := v }) = .ok H') :
    nextOf H' = nextOf H ∧ prevOf H' = prevOf H ∧ orecOf H' = upd (orecOf H) i v ∧ ptOf H' = ptOf H ∧
    H'.recs = H.recs ∧ H'.ops.size = H.ops.size := by
  obtain ⟨hi, hr, hs, hg⟩ := updNode_ok h
  obtain ⟨n, hn⟩ := node_of_lt hi
  refine ⟨?_, ?_, ?_, ?_, hr, hs⟩ <;> funext j <;> simp only [nextOf, prevOf, orecOf, ptOf, upd, hg j] <;>
    by_cases hj : j = i <;> simp [hj, hn] <;> cases H.ops[j]? <;> simp

theorem upd_horz_eqs {H H' : Heap} {i : Nat} {v : Bool} (h : H.updNode i (fun x => { x with horz := v }) = .ok H') :
    nextOf H' = nextOf H ∧ prevOf H' = prevOf H ∧ orecOf H' = orecOf H ∧ ptOf H' = ptOf H ∧
    H'.recs = H.recs ∧ H'.ops.size = H.ops.size := by
  obtain ⟨hi, hr, hs, hg⟩ := updNode_ok h
  obtain ⟨n, hn⟩ := node_of_lt hi
  refine ⟨?_, ?_, ?_, ?_, hr, hs⟩ <;> funext j <;> simp only [nextOf, prevOf, orecOf, ptOf, hg j] <;>
    by_cases hj : j = i <;> simp [hj, hn] <;> cases H.ops[j]? <;> simp

/-! ## rings of a heap -/

/-- `rs` lists the rings of the heap: every `OutPt` is on exactly one of them -/
structure Rings (H : Heap) (rs : List (List Nat)) : Prop where
  ring : ∀ c ∈ rs, IsRingF (nextOf H) (prevOf H) c
  perm : rs.flatten.Perm (List.range H.ops.size)

theorem Rings.mem_lt {H : Heap} {rs : List (List Nat)} (R : Rings H rs) {c : List Nat} (hc : c ∈ rs) {i : Nat} (hi : i ∈ c) :
    i < H.ops.size := by
  have : i ∈ rs.flatten := List.mem_flatten.2 ⟨c, hc, hi⟩
  exact List.mem_range.1 (R.perm.mem_iff.1 this)

theorem Rings.exists_ring {H : Heap} {rs : List (List Nat)} (R : Rings H rs) {i : Nat} (hi : i < H.ops.size) :
    ∃ c ∈ rs, i ∈ c := by
  have : i ∈ rs.flatten := R.perm.mem_iff.2 (List.mem_range.2 hi)
  obtain ⟨c, hc, hic⟩ := List.mem_flatten.1 this
  exact ⟨c, hc, hic⟩

theorem Rings.nodup {H : Heap} {rs : List (List Nat)} (R : Rings H rs) : rs.flatten.Nodup :=
  (R.perm.nodup_iff).2 List.nodup_range

/-- a ring is unchanged by writes that do not touch its elements -/
theorem isRingF_congr {nx pv nx' pv' : PF} {c : List Nat} (h : IsRingF nx pv c)
    (hn : ∀ a ∈ c, nx' a = nx a) (hp : ∀ a ∈ c, pv' a = pv a) : IsRingF nx' pv' c := by
  cases c with
  | nil => exact h.elim
  | cons a t =>
    refine ⟨h.1, chainF_frame _ h.2 ?_ ?_⟩
    · intro x hx
      have : x ∈ a :: t := by
        have : (a :: t ++ [a]).dropLast = a :: t := by rw [List.dropLast_concat]
        rw [this] at hx; exact hx
      exact hn x this
    · intro x hx
      have : x ∈ t ++ [a] := by simpa using hx
      apply hp
      rcases List.mem_append.1 this with h1 | h1
      · exact List.mem_cons_of_mem _ h1
      · simp at h1; subst h1; simp

/-! ### lists of rings -/

theorem flatten_mid (A B : List (List Nat)) (c : List Nat) : (A ++ c :: B).flatten = A.flatten ++ (c ++ B.flatten) := by simp

theorem perm_replace_cons {A B : List (List Nat)} {c c' : List Nat} {x : Nat} (h : c'.Perm (x :: c)) :
    (A ++ c' :: B).flatten.Perm (x :: (A ++ c :: B).flatten) := by
  rw [flatten_mid, flatten_mid]
  have h1 : (c' ++ B.flatten).Perm (x :: (c ++ B.flatten)) := by
    have := List.Perm.append_right B.flatten h
    simpa using this
  exact (List.Perm.append_left A.flatten h1).trans List.perm_middle

theorem perm_replace {A B : List (List Nat)} {c c' : List Nat} (h : c'.Perm c) :
    (A ++ c' :: B).flatten.Perm (A ++ c :: B).flatten := by
  rw [flatten_mid, flatten_mid]
  exact List.Perm.append_left _ (List.Perm.append_right _ h)

/-- rings of one heap are pairwise disjoint -/
theorem other_ring_disjoint {A B : List (List Nat)} {c c' : List Nat} (hnd : (A ++ c :: B).flatten.Nodup)
    (hc' : c' ∈ A ++ B) {a : Nat} (ha : a ∈ c') : a ∉ c := by
  rw [flatten_mid] at hnd
  rcases List.mem_append.1 hc' with h | h
  · have : a ∈ A.flatten := List.mem_flatten.2 ⟨c', h, ha⟩
    grind [List.nodup_append]
  · have : a ∈ B.flatten := List.mem_flatten.2 ⟨c', h, ha⟩
    grind [List.nodup_append]

theorem mem_mid {A B : List (List Nat)} {c x : List Nat} : x ∈ A ++ c :: B ↔ x = c ∨ x ∈ A ++ B := by
  simp only [List.mem_append, List.mem_cons]; grind

theorem range_succ_perm (n : Nat) : (n :: List.range n).Perm (List.range (n + 1)) := by
  rw [List.range_succ]
  exact (List.perm_append_singleton n (List.range n)).symm

/-- the successor of an element of a ring is on the ring -/
theorem IsRingF.next_mem {nx pv : PF} {c : List Nat} (h : IsRingF nx pv c) {a : Nat} (ha : a ∈ c) :
    ∃ b ∈ c, LinkF nx pv a b := by
  obtain ⟨pre, post, rfl, hr⟩ := h.rotate_to ha
  have hr : IsRingF nx pv (a :: (post ++ pre)) := by simpa using hr
  cases hpp : post ++ pre with
  | nil =>
    rw [hpp] at hr
    exact ⟨a, ha, hr.single⟩
  | cons b t =>
    rw [hpp] at hr
    refine ⟨b, ?_, hr.next_head⟩
    have : b ∈ post ++ pre := by rw [hpp]; simp
    grind

/-- the predecessor of an element of a ring is on the ring -/
theorem IsRingF.prev_mem {nx pv : PF} {c : List Nat} (h : IsRingF nx pv c) {a : Nat} (ha : a ∈ c) :
    ∃ b ∈ c, LinkF nx pv b a := by
  cases c with
  | nil => exact h.elim
  | cons x t =>
    have hr := isRingF_reverse h
    have ha' : a ∈ x :: t.reverse := by simpa using ha
    obtain ⟨b, hb, hl⟩ := hr.next_mem ha'
    exact ⟨b, by simpa using hb, ⟨hl.2, hl.1⟩⟩

/-! ## `DuplicateOp` -/

/-- `new OutPt(pt, outrec)` with its links already set -/
theorem push_eqs (H : Heap) (nd : Node) :
    let H1 : Heap := { H with ops := H.ops.push nd }
    nextOf H1 = upd (nextOf H) H.ops.size nd.next ∧ prevOf H1 = upd (prevOf H) H.ops.size nd.prev ∧
    orecOf H1 = upd (orecOf H) H.ops.size nd.orec ∧ ptOf H1 = (fun j => if j = H.ops.size then some nd.pt else ptOf H j) ∧
    H1.ops.size = H.ops.size + 1 := by
  refine ⟨?_, ?_, ?_, ?_, by simp⟩ <;> funext j <;> simp only [nextOf, prevOf, orecOf, ptOf, upd, Array.getElem?_push] <;>
    by_cases hj : j = H.ops.size <;> simp [hj]

/-- the effect of `DuplicateOp(op, true)` on the link structure -/
theorem duplicateOp_after_eqs {H : Heap} {op : Nat} {n : Node} (hn : H.ops[op]? = some n) (hs : n.next < H.ops.size) :
    ∃ H', duplicateOp H op true = .ok (H', H.ops.size) ∧
      nextOf H' = upd (upd (nextOf H) H.ops.size n.next) op H.ops.size ∧
      prevOf H' = upd (upd (prevOf H) H.ops.size op) n.next H.ops.size ∧
      orecOf H' = upd (orecOf H) H.ops.size n.orec ∧
      ptOf H' = (fun j => if j = H.ops.size then some n.pt else ptOf H j) ∧
      H'.recs = H.recs ∧ H'.ops.size = H.ops.size + 1 := by
  have hop := lt_of_node hn
  obtain ⟨e1, e2, e3, e4, e5⟩ := push_eqs H { pt := n.pt, next := n.next, prev := op, orec := n.orec, horz := false }
  generalize hH1 : ({ H with ops := H.ops.push { pt := n.pt, next := n.next, prev := op, orec := n.orec, horz := false } } : Heap) = H1 at e1 e2 e3 e4 e5
  have hr1 : H1.recs = H.recs := by subst hH1; rfl
  obtain ⟨H2, h2⟩ := updNode_of_lt H1 (fun x => { x with prev := H.ops.size }) (i := n.next) (by omega)
  obtain ⟨f1, f2, f3, f4, f5, f6⟩ := upd_prev_eqs h2
  obtain ⟨H3, h3⟩ := updNode_of_lt H2 (fun x => { x with next := H.ops.size }) (i := op) (by omega)
  obtain ⟨g1, g2, g3, g4, g5, g6⟩ := upd_next_eqs h3
  refine ⟨H3, ?_, ?_, ?_, ?_, ?_, ?_, ?_⟩
  · unfold duplicateOp
    rw [node_ok.2 hn]
    simp only [if_true]
    rw [hH1, h2]
    simp only [h3]
  · rw [g1, f1, e1]
  · rw [g2, f2, e2]
  · rw [g3, f3, e3]
  · rw [g4, f4, e4]
  · rw [g5, f5, hr1]
  · rw [g6, f6, e5]

/-- the effect of `DuplicateOp(op, false)` on the link structure -/
theorem duplicateOp_before_eqs {H : Heap} {op : Nat} {n : Node} (hn : H.ops[op]? = some n) (hs : n.prev < H.ops.size) :
    ∃ H', duplicateOp H op false = .ok (H', H.ops.size) ∧
      nextOf H' = upd (upd (nextOf H) H.ops.size op) n.prev H.ops.size ∧
      prevOf H' = upd (upd (prevOf H) H.ops.size n.prev) op H.ops.size ∧
      orecOf H' = upd (orecOf H) H.ops.size n.orec ∧
      ptOf H' = (fun j => if j = H.ops.size then some n.pt else ptOf H j) ∧
      H'.recs = H.recs ∧ H'.ops.size = H.ops.size + 1 := by
  have hop := lt_of_node hn
  obtain ⟨e1, e2, e3, e4, e5⟩ := push_eqs H { pt := n.pt, next := op, prev := n.prev, orec := n.orec, horz := false }
  generalize hH1 : ({ H with ops := H.ops.push { pt := n.pt, next := op, prev := n.prev, orec := n.orec, horz := false } } : Heap) = H1 at e1 e2 e3 e4 e5
  have hr1 : H1.recs = H.recs := by subst hH1; rfl
  obtain ⟨H2, h2⟩ := updNode_of_lt H1 (fun x => { x with next := H.ops.size }) (i := n.prev) (by omega)
  obtain ⟨f1, f2, f3, f4, f5, f6⟩ := upd_next_eqs h2
  obtain ⟨H3, h3⟩ := updNode_of_lt H2 (fun x => { x with prev := H.ops.size }) (i := op) (by omega)
  obtain ⟨g1, g2, g3, g4, g5, g6⟩ := upd_prev_eqs h3
  refine ⟨H3, ?_, ?_, ?_, ?_, ?_, ?_, ?_⟩
  · unfold duplicateOp
    rw [node_ok.2 hn]
    simp only [Bool.false_eq_true, if_false]
    rw [hH1, h2]
    simp only [h3]
  · rw [g1, f1, e1]
  · rw [g2, f2, e2]
  · rw [g3, f3, e3]
  · rw [g4, f4, e4]
  · rw [g5, f5, hr1]
  · rw [g6, f6, e5]

/-- **`DuplicateOp(op, true)` on a heap of rings**: it succeeds, the new `OutPt` is the next free index, the ring of `op`
gains the new node right behind `op`, every other ring is untouched, and the new node carries `op`'s point and record. -/
theorem duplicateOp_after_rings {H : Heap} {A B : List (List Nat)} {pre post : List Nat} {op : Nat}
    (R : Rings H (A ++ (pre ++ op :: post) :: B)) :
    ∃ H' n, H.ops[op]? = some n ∧ duplicateOp H op true = .ok (H', H.ops.size) ∧
      Rings H' (A ++ (pre ++ op :: H.ops.size :: post) :: B) ∧
      ptOf H' = (fun j => if j = H.ops.size then some n.pt else ptOf H j) ∧
      orecOf H' = upd (orecOf H) H.ops.size n.orec ∧ H'.recs = H.recs ∧ H'.ops.size = H.ops.size + 1 ∧
      nextOf H' = upd (upd (nextOf H) H.ops.size n.next) op H.ops.size ∧ n.next < H.ops.size := by
  have hc : (pre ++ op :: post) ∈ A ++ (pre ++ op :: post) :: B := by simp
  have hopc : op ∈ pre ++ op :: post := by simp
  have hop := R.mem_lt hc hopc
  obtain ⟨n, hn⟩ := node_of_lt hop
  have hring := R.ring _ hc
  have hrot : IsRingF (nextOf H) (prevOf H) (op :: (post ++ pre)) := by
    have := isRingF_rot pre (op :: post) hring; simpa using this
  -- s = op->next
  obtain ⟨s, hs⟩ : ∃ s, ((post ++ pre) ++ [op]).head? = some s := by
    cases h : (post ++ pre) ++ [op] with
    | nil => simp at h
    | cons a t => exact ⟨a, rfl⟩
  have hlink : LinkF (nextOf H) (prevOf H) op s := by
    have := hrot.2
    rw [List.cons_append, chainF_cons_head hs] at this; exact this.1
  have hns : n.next = s := by
    obtain ⟨n', hn', e⟩ := nextOf_some.1 hlink.1
    rw [hn] at hn'; cases hn'; exact e
  have hsc : s ∈ pre ++ op :: post := by
    have := mem_of_head? hs
    grind
  have hslt : n.next < H.ops.size := by rw [hns]; exact R.mem_lt hc hsc
  obtain ⟨H', hd, e1, e2, e3, e4, e5, e6⟩ := duplicateOp_after_eqs hn hslt
  refine ⟨H', n, hn, hd, ⟨?_, ?_⟩, e4, e3, e5, e6, e1, hslt⟩
  · intro c' hc'
    rcases mem_mid.1 hc' with rfl | hc'
    · -- the ring of op
      have hnew : H.ops.size ∉ op :: (post ++ pre) := by
        intro hm
        have : H.ops.size ∈ pre ++ op :: post := by grind
        exact Nat.lt_irrefl _ (R.mem_lt hc this)
      have := ring_insert_after hrot hs hnew
      rw [← hns] at this
      rw [e1, e2]
      have := isRingF_rot (op :: H.ops.size :: post) pre (by simpa using this)
      simpa using this
    · have hold := R.ring c' (mem_mid.2 (Or.inr hc'))
      have hdis : ∀ a ∈ c', a ∉ pre ++ op :: post := fun a ha => other_ring_disjoint R.nodup hc' ha
      have hlt : ∀ a ∈ c', a < H.ops.size := fun a ha => R.mem_lt (mem_mid.2 (Or.inr hc')) ha
      apply isRingF_congr hold
      · intro a ha
        have h1 : a ≠ op := fun e => hdis a ha (by subst e; exact hopc)
        have h2 : a ≠ H.ops.size := Nat.ne_of_lt (hlt a ha)
        rw [e1, upd_ne _ _ h1, upd_ne _ _ h2]
      · intro a ha
        have h1 : a ≠ n.next := fun e => hdis a ha (by rw [e, hns]; exact hsc)
        have h2 : a ≠ H.ops.size := Nat.ne_of_lt (hlt a ha)
        rw [e2, upd_ne _ _ h1, upd_ne _ _ h2]
  · rw [e6]
    have h1 : (pre ++ op :: H.ops.size :: post).Perm (H.ops.size :: (pre ++ op :: post)) := by
      have : pre ++ op :: H.ops.size :: post = (pre ++ [op]) ++ H.ops.size :: post := by simp
      rw [this]
      exact List.perm_middle.trans (by simp)
    exact (perm_replace_cons h1).trans ((List.Perm.cons _ R.perm).trans (range_succ_perm _))

/-- **`DuplicateOp(op, false)` on a heap of rings**: the new node sits right in front of `op`. -/
theorem duplicateOp_before_rings {H : Heap} {A B : List (List Nat)} {pre post : List Nat} {op : Nat}
    (R : Rings H (A ++ (pre ++ op :: post) :: B)) :
    ∃ H' n, H.ops[op]? = some n ∧ duplicateOp H op false = .ok (H', H.ops.size) ∧
      Rings H' (A ++ (pre ++ H.ops.size :: op :: post) :: B) ∧
      ptOf H' = (fun j => if j = H.ops.size then some n.pt else ptOf H j) ∧
      orecOf H' = upd (orecOf H) H.ops.size n.orec ∧ H'.recs = H.recs ∧ H'.ops.size = H.ops.size + 1 ∧
      nextOf H' = upd (upd (nextOf H) H.ops.size op) n.prev H.ops.size ∧ n.prev < H.ops.size ∧ nextOf H n.prev = some op := by
  have hc : (pre ++ op :: post) ∈ A ++ (pre ++ op :: post) :: B := by simp
  have hopc : op ∈ pre ++ op :: post := by simp
  have hop := R.mem_lt hc hopc
  obtain ⟨n, hn⟩ := node_of_lt hop
  have hring := R.ring _ hc
  have hrot : IsRingF (nextOf H) (prevOf H) (op :: (post ++ pre)) := by
    have := isRingF_rot pre (op :: post) hring; simpa using this
  -- p = op->prev
  obtain ⟨p, hp⟩ : ∃ p, (op :: (post ++ pre)).getLast? = some p := by
    rw [List.getLast?_eq_some_getLast (by simp)]; exact ⟨_, rfl⟩
  have hlink : LinkF (nextOf H) (prevOf H) p op := by
    have := hrot.2
    rw [chainF_snoc_last hp] at this; exact this.2
  have hnp : n.prev = p := by
    obtain ⟨n', hn', e⟩ := prevOf_some.1 hlink.2
    rw [hn] at hn'; cases hn'; exact e
  have hpc : p ∈ pre ++ op :: post := by
    have := mem_of_getLast? hp
    grind
  have hplt : n.prev < H.ops.size := by rw [hnp]; exact R.mem_lt hc hpc
  obtain ⟨H', hd, e1, e2, e3, e4, e5, e6⟩ := duplicateOp_before_eqs hn hplt
  refine ⟨H', n, hn, hd, ⟨?_, ?_⟩, e4, e3, e5, e6, e1, hplt, by rw [hnp]; exact hlink.1⟩
  · intro c' hc'
    rcases mem_mid.1 hc' with rfl | hc'
    · have hnew : H.ops.size ∉ op :: (post ++ pre) := by
        intro hm
        have : H.ops.size ∈ pre ++ op :: post := by grind
        exact Nat.lt_irrefl _ (R.mem_lt hc this)
      have := ring_insert_before hrot hp hnew
      rw [← hnp] at this
      rw [e1, e2]
      -- op :: (post ++ pre) ++ [new]  ↦  pre ++ new :: op :: post
      have := isRingF_rot (op :: post) (pre ++ [H.ops.size]) (by simpa using this)
      simpa using this
    · have hold := R.ring c' (mem_mid.2 (Or.inr hc'))
      have hdis : ∀ a ∈ c', a ∉ pre ++ op :: post := fun a ha => other_ring_disjoint R.nodup hc' ha
      have hlt : ∀ a ∈ c', a < H.ops.size := fun a ha => R.mem_lt (mem_mid.2 (Or.inr hc')) ha
      apply isRingF_congr hold
      · intro a ha
        have h1 : a ≠ n.prev := fun e => hdis a ha (by rw [e, hnp]; exact hpc)
        have h2 : a ≠ H.ops.size := Nat.ne_of_lt (hlt a ha)
        rw [e1, upd_ne _ _ h1, upd_ne _ _ h2]
      · intro a ha
        have h1 : a ≠ op := fun e => hdis a ha (by subst e; exact hopc)
        have h2 : a ≠ H.ops.size := Nat.ne_of_lt (hlt a ha)
        rw [e2, upd_ne _ _ h1, upd_ne _ _ h2]
  · rw [e6]
    have h1 : (pre ++ H.ops.size :: op :: post).Perm (H.ops.size :: (pre ++ op :: post)) := List.perm_middle
    exact (perm_replace_cons h1).trans ((List.Perm.cons _ R.perm).trans (range_succ_perm _))

/-! ## the `while` walks -/

theorem stepOp_fwd {H : Heap} {a b : Nat} : stepOp H true a = .ok b ↔ nextOf H a = some b := by
  unfold stepOp Heap.node nextOf; cases H.ops[a]? <;> simp

theorem stepOp_bwd {H : Heap} {a b : Nat} : stepOp H false a = .ok b ↔ prevOf H a = some b := by
  unfold stepOp Heap.node prevOf; cases H.ops[a]? <;> simp

/-- the list is a path of `->next` (`fwd`) resp. `->prev` steps -/
def Steps (H : Heap) (fwd : Bool) : List Nat → Prop
  | [] => True
  | [_] => True
  | a :: b :: r => stepOp H fwd a = .ok b ∧ Steps H fwd (b :: r)

theorem steps_of_chain_fwd {H : Heap} : ∀ (l : List Nat), ChainF (nextOf H) (prevOf H) l → Steps H true l
  | [], _ => trivial
  | [_], _ => trivial
  | a :: b :: r, h => by
    simp only [chainF_cons2] at h
    exact ⟨stepOp_fwd.2 h.1.1, steps_of_chain_fwd (b :: r) h.2⟩

theorem steps_of_chain_bwd' {H : Heap} : ∀ (l : List Nat), ChainF (prevOf H) (nextOf H) l → Steps H false l
  | [], _ => trivial
  | [_], _ => trivial
  | a :: b :: r, h => by
    simp only [chainF_cons2] at h
    exact ⟨stepOp_bwd.2 h.1.1, steps_of_chain_bwd' (b :: r) h.2⟩

theorem steps_of_chain_bwd {H : Heap} (l : List Nat) (h : ChainF (nextOf H) (prevOf H) l) : Steps H false l.reverse :=
  steps_of_chain_bwd' _ (chainF_reverse _ h)

theorem steps_prefix {H : Heap} {fwd : Bool} : ∀ (l1 l2 : List Nat), Steps H fwd (l1 ++ l2) → Steps H fwd l1
  | [], _, _ => trivial
  | [_], _, _ => trivial
  | a :: b :: r, l2, h => by
    have h' : Steps H fwd (a :: b :: (r ++ l2)) := h
    exact ⟨h'.1, steps_prefix (b :: r) l2 h'.2⟩

/-- the loop goes on from `u` to `v` -/
def Go (H : Heap) (pre : Nat → Bool) (cond : Nat → Node → Bool) (u v : Nat) : Prop :=
  pre u = false ∧ ∃ nv, H.ops[v]? = some nv ∧ cond v nv = true

/-- the loop stops at `u` (whose neighbour is `v`) -/
def Stop (H : Heap) (pre : Nat → Bool) (cond : Nat → Node → Bool) (u v : Nat) : Prop :=
  pre u = true ∨ ∃ nv, H.ops[v]? = some nv ∧ cond v nv = false

def Goes (H : Heap) (pre : Nat → Bool) (cond : Nat → Node → Bool) : List Nat → Prop
  | [] => True
  | [_] => True
  | a :: b :: r => Go H pre cond a b ∧ Goes H pre cond (b :: r)

theorem getLastD_cons' (t cur : Nat) (T : List Nat) : (t :: T).getLastD cur = T.getLastD t := by
  simp [List.getLastD_eq_getLast?, List.getLast?_cons]

/-- **the walk lemma**: along a path `cur :: T ++ [s]` on which the loop condition holds up to the last element of `cur :: T`
and fails there, `walk` returns that element (`T.getLastD cur`), given fuel for `|T| + 1` iterations. -/
theorem walk_spec {H : Heap} {fwd : Bool} {pre : Nat → Bool} {cond : Nat → Node → Bool} :
    ∀ (T : List Nat) (cur s fuel : Nat), Steps H fwd (cur :: T ++ [s]) → Goes H pre cond (cur :: T) →
      Stop H pre cond (T.getLastD cur) s → T.length + 1 ≤ fuel →
      walk H fwd pre cond fuel cur = .ok (T.getLastD cur)
  | [], cur, s, fuel, hst, _, hstop, hf => by
    obtain ⟨f, rfl⟩ : ∃ f, fuel = f + 1 := ⟨fuel - 1, by simp at hf; omega⟩
    have hstep : stepOp H fwd cur = .ok s := hst.1
    simp only [List.getLastD_nil] at hstop ⊢
    unfold walk
    rcases hstop with hp | ⟨nv, hnv, hc⟩
    · simp [hp]
    · by_cases hp : pre cur = true
      · simp [hp]
      · simp [hp, hstep, node_ok.2 hnv, hc]
  | t :: T', cur, s, fuel, hst, hgo, hstop, hf => by
    obtain ⟨f, rfl⟩ : ∃ f, fuel = f + 1 := ⟨fuel - 1, by simp at hf; omega⟩
    have hst' : Steps H fwd (cur :: t :: (T' ++ [s])) := hst
    obtain ⟨hstep, hrest⟩ := hst'
    obtain ⟨⟨hp, nv, hnv, hc⟩, hgo'⟩ := hgo
    rw [getLastD_cons'] at hstop ⊢
    have ih := walk_spec T' t s f hrest hgo' hstop (by simp at hf ⊢; omega)
    unfold walk
    simp [hp, hstep, node_ok.2 hnv, hc, ih]

/-! ### `takeWhile` -/

theorem takeWhile_cases (q : Nat → Bool) : ∀ (l : List Nat),
    l.takeWhile q = l ∨ ∃ s D, l = l.takeWhile q ++ s :: D ∧ q s = false
  | [] => Or.inl rfl
  | a :: r => by
    by_cases ha : q a = true
    · rcases takeWhile_cases q r with h | ⟨s, D, h, hs⟩
      · left; simp [ha, h]
      · right; refine ⟨s, D, ?_, hs⟩
        simp only [List.takeWhile_cons, ha, if_true, List.cons_append]
        exact congrArg _ h
    · right; exact ⟨a, r, by simp [ha], by simpa using ha⟩

theorem takeWhile_all (q : Nat → Bool) : ∀ (l : List Nat), ∀ v ∈ l.takeWhile q, q v = true ∧ v ∈ l
  | [], v, hv => by simp at hv
  | a :: r, v, hv => by
    by_cases ha : q a = true
    · simp only [List.takeWhile_cons, ha, if_true, List.mem_cons] at hv
      rcases hv with rfl | hv
      · exact ⟨ha, by simp⟩
      · have := takeWhile_all q r v hv; exact ⟨this.1, List.mem_cons_of_mem _ this.2⟩
    · simp [ha] at hv

theorem takeWhile_ne_self (q : Nat → Bool) {l : List Nat} {x : Nat} (hx : x ∈ l) (hq : q x = false) : l.takeWhile q ≠ l := by
  intro h
  have := takeWhile_all q l x (by rw [h]; exact hx)
  rw [hq] at this; exact Bool.false_ne_true this.1

theorem goes_of {H : Heap} {pre : Nat → Bool} {cond : Nat → Node → Bool} : ∀ (L : List Nat),
    (∀ u ∈ L.dropLast, pre u = false) → (∀ v ∈ L.tail, ∃ nv, H.ops[v]? = some nv ∧ cond v nv = true) → Goes H pre cond L
  | [], _, _ => trivial
  | [_], _, _ => trivial
  | a :: b :: r, h1, h2 => by
    refine ⟨⟨h1 a (by simp), h2 b (by simp)⟩, goes_of (b :: r) ?_ ?_⟩
    · intro u hu; exact h1 u (by simp only [List.dropLast_cons_cons]; exact List.mem_cons_of_mem _ hu)
    · intro v hv; exact h2 v (by simp only [List.tail_cons] at hv ⊢; exact List.mem_cons_of_mem _ hv)

/-- a walk without a test on the current node stops at the first neighbour failing the condition -/
theorem walk_takeWhile {H : Heap} {fwd : Bool} {cond : Nat → Node → Bool} (q : Nat → Bool) (l : List Nat) (cur fuel : Nat)
    (hst : Steps H fwd (cur :: l)) (hvalid : ∀ v ∈ l, ∃ nv, H.ops[v]? = some nv ∧ cond v nv = q v)
    (hstop : ∃ x ∈ l, q x = false) (hf : l.length ≤ fuel) :
    walk H fwd (fun _ => false) cond fuel cur = .ok ((l.takeWhile q).getLastD cur) := by
  obtain ⟨x, hx, hqx⟩ := hstop
  rcases takeWhile_cases q l with h | ⟨s, D, h, hs⟩
  · exact absurd h (takeWhile_ne_self q hx hqx)
  · have hlen : (l.takeWhile q).length + 1 ≤ fuel := by
      have := congrArg List.length h; simp at this; omega
    have hsm : s ∈ l := by rw [h]; simp
    apply walk_spec (l.takeWhile q) cur s fuel
    · have : cur :: l = (cur :: l.takeWhile q ++ [s]) ++ D := by simpa using h
      rw [this] at hst; exact steps_prefix _ _ hst
    · apply goes_of
      · intro u _; rfl
      · intro v hv
        have hv' : v ∈ l.takeWhile q := by simpa using hv
        obtain ⟨hq, hvl⟩ := takeWhile_all q l v hv'
        obtain ⟨nv, hnv, hc⟩ := hvalid v hvl
        exact ⟨nv, hnv, by rw [hc, hq]⟩
    · right
      obtain ⟨nv, hnv, hc⟩ := hvalid s hsm
      exact ⟨nv, hnv, by rw [hc, hs]⟩
    · exact hlen

/-- a walk that also stops on reaching `z`, the last node of the stretch `cur :: l` it may cover -/
theorem walk_takeWhile_pre {H : Heap} {fwd : Bool} {cond : Nat → Node → Bool} (q : Nat → Bool) (l : List Nat) (cur z w fuel : Nat)
    (hst : Steps H fwd (cur :: l ++ [w])) (hz : (cur :: l).getLast? = some z) (hnd : (cur :: l).Nodup)
    (hvalid : ∀ v ∈ l ++ [w], ∃ nv, H.ops[v]? = some nv ∧ cond v nv = q v) (hf : l.length + 1 ≤ fuel) :
    walk H fwd (fun c => c == z) cond fuel cur = .ok ((l.takeWhile q).getLastD cur) := by
  have hpre : ∀ u ∈ (cur :: l).dropLast, (fun c => c == z) u = false := by
    intro u hu
    have := dropLast_nodup_ne_last hnd hz hu
    simpa using this
  rcases takeWhile_cases q l with h | ⟨s, D, h, hs⟩
  · rw [h]
    apply walk_spec l cur w fuel hst
    · apply goes_of _ hpre
      intro v hv
      have hv' : v ∈ l := by simpa using hv
      have hq : q v = true := (takeWhile_all q l v (by rw [h]; exact hv')).1
      obtain ⟨nv, hnv, hc⟩ := hvalid v (List.mem_append_left _ hv')
      exact ⟨nv, hnv, by rw [hc, hq]⟩
    · left
      have : l.getLastD cur = z := by
        rw [List.getLast?_cons] at hz
        simp only [Option.some.injEq] at hz
        rw [← hz, List.getLastD_eq_getLast?]
      show (l.getLastD cur == z) = true
      rw [this]; simp
    · exact hf
  · have hlen : (l.takeWhile q).length + 1 ≤ fuel := by
      have := congrArg List.length h; simp at this; omega
    have hsm : s ∈ l := by rw [h]; simp
    apply walk_spec (l.takeWhile q) cur s fuel
    · have : cur :: l ++ [w] = (cur :: l.takeWhile q ++ [s]) ++ (D ++ [w]) := by
        have : l ++ [w] = (l.takeWhile q ++ s :: D) ++ [w] := by rw [← h]
        simpa using this
      rw [this] at hst; exact steps_prefix _ _ hst
    · apply goes_of
      · intro u hu
        apply hpre
        -- u is a non-final element of cur :: l
        have hu' : u ∈ cur :: l.takeWhile q := mem_of_mem_dropLast hu
        have : (cur :: l).dropLast = cur :: (l.takeWhile q ++ (s :: D).dropLast) := by
          have : cur :: l = (cur :: l.takeWhile q) ++ (s :: D) := by rw [List.cons_append]; exact congrArg _ h
          rw [this, List.dropLast_append_of_ne_nil (by simp)]; simp
        rw [this]
        rcases List.mem_cons.1 hu' with rfl | hu'
        · simp
        · exact List.mem_cons_of_mem _ (List.mem_append_left _ hu')
      · intro v hv
        have hv' : v ∈ l.takeWhile q := by simpa using hv
        obtain ⟨hq, hvl⟩ := takeWhile_all q l v hv'
        obtain ⟨nv, hnv, hc⟩ := hvalid v (List.mem_append_left _ hvl)
        exact ⟨nv, hnv, by rw [hc, hq]⟩
    · right
      obtain ⟨nv, hnv, hc⟩ := hvalid s (List.mem_append_left _ hsm)
      exact ⟨nv, hnv, by rw [hc, hs]⟩
    · exact hlen

/-- pigeonhole: a list of distinct numbers below `n` has at most `n` elements -/
theorem nodup_length_le : ∀ (n : Nat) (l : List Nat), l.Nodup → (∀ x ∈ l, x < n) → l.length ≤ n
  | 0, l, _, h => by
    cases l with
    | nil => simp
    | cons a r => exact absurd (h a (by simp)) (by omega)
  | n + 1, l, hnd, h => by
    by_cases hn : n ∈ l
    · have h1 := nodup_length_le n (l.erase n) (hnd.erase n) (by
        intro x hx
        have := (hnd.mem_erase_iff).1 hx
        have := h x this.2
        omega)
      rw [List.length_erase_of_mem hn] at h1
      omega
    · have h1 := nodup_length_le n l hnd (by
        intro x hx
        have := h x hx
        have : x ≠ n := fun e => hn (e ▸ hx)
        omega)
      omega

theorem Rings.ring_length_le {H : Heap} {rs : List (List Nat)} (R : Rings H rs) {c : List Nat} (hc : c ∈ rs) :
    c.length ≤ H.ops.size :=
  nodup_length_le _ c (R.ring c hc).nodup (fun _ hx => R.mem_lt hc hx)

end Clipper.Model.HorzJoins
