/-
Helper lemmas for Props/C08Tidy.lean, part 6: the heap that `RectClip64::Add` builds during `ExecuteInternal` (`rawHeap`) is
well-formed: one ring with the nodes in creation order, `owner_idx = 0`, `results_ = {last node}`.
Core Lean only.
-/
import ClipperVerif.Lemmas.RectClipTidyPath
namespace Clipper.Lemmas.RCT
open Clipper Clipper.Model.RC Clipper.Model.RCT

/-- invariant of the heap while `ExecuteInternal` runs: the nodes `0 … n-1` form one ring in creation order -/
structure RawInv (h : Heap) : Prop where
  res : h.results = if h.n = 0 then [] else [some (h.n - 1)]
  link : h.n ≠ 0 → Linked h.next h.prev (List.range h.n ++ [0])
  owner : ∀ k, k < h.n → h.owner k = 0
  entries : ∀ e k, some k ∈ h.edges e → k < h.n

theorem rawInv_empty : RawInv Heap.empty :=
  ⟨rfl, fun h => absurd rfl h, fun k hk => absurd hk (Nat.not_lt_zero k), fun e k hk => by simp [Heap.empty] at hk⟩

/-- the ring of slot 0 of a heap built by `Add` -/
def rawRing (h : Heap) : Nat → List Nat := fun s => if s = 0 then List.range h.n else []

theorem RawInv.wf {h : Heap} (inv : RawInv h) : RingsWF h (rawRing h) := by
  refine ⟨?_, ?_, ?_, ?_, ?_, ?_⟩
  · intro s k hk
    rw [inv.res] at hk
    split at hk
    · simp at hk
    · rename_i hn
      cases s with
      | zero =>
        simp only [List.getElem?_cons_zero, Option.some.injEq] at hk
        subst hk
        simp only [rawRing, if_true, List.mem_range]; omega
      | succ s => simp at hk
  · intro s hs
    by_cases e : s = 0
    · subst e
      rw [inv.res] at hs
      split at hs
      · rename_i hn; simp [rawRing, hn]
      · exact absurd (by simp) (hs (h.n - 1))
    · simp [rawRing, e]
  · intro s hs
    by_cases e : s = 0
    · subst e
      simp only [rawRing, if_true] at hs ⊢
      have hn : h.n ≠ 0 := by intro e; rw [e] at hs; simp at hs
      have hl := inv.link hn
      obtain ⟨m, hm⟩ : ∃ m, h.n = m + 1 := ⟨h.n - 1, by omega⟩
      rw [hm, List.range_succ_eq_map] at hl ⊢
      exact hl
    · simp [rawRing, e] at hs
  · intro s
    by_cases e : s = 0
    · subst e; simp only [rawRing, if_true]; exact List.nodup_range
    · simp [rawRing, e]
  · intro s k hk
    by_cases e : s = 0
    · subst e
      simp only [rawRing, if_true, List.mem_range] at hk
      exact inv.owner k hk
    · simp [rawRing, e] at hk
  · intro s k hk
    by_cases e : s = 0
    · subst e
      simpa only [rawRing, if_true, List.mem_range] using hk
    · simp [rawRing, e] at hk

/-- `Add(pt)` keeps the invariant, never faults, creates at most one node (with point `pt`) and leaves all old points -/
theorem add_rawInv (h : Heap) (p : Pt) (inv : RawInv h) :
    ∃ h', h.add p = .ok h' ∧ RawInv h' ∧ h'.edges = h.edges ∧ h.n ≤ h'.n ∧ h'.n ≤ h.n + 1 ∧
      (∀ k, k < h.n → h'.pt k = h.pt k) ∧ (∀ k, h.n ≤ k → k < h'.n → h'.pt k = p) ∧
      (((h.n = 0 ∨ h.pt (h.n - 1) ≠ p) → h'.n = h.n + 1) ∧ (∀ x, x < h.n → h'.edge x = h.edge x)) := by
  unfold Heap.add
  by_cases hn : h.n = 0
  · -- first node
    have hr : h.results = [] := by rw [inv.res]; simp [hn]
    simp only [hr, List.getLast?_nil]
    refine ⟨_, rfl, ⟨?_, ?_, ?_, ?_⟩, rfl, by simp, by simp, ?_, ?_⟩
    · simp [hn]
    · intro _
      simp only [hn, Nat.zero_add, List.range_one, List.cons_append, List.nil_append, linked_cons2]
      exact ⟨by simp, by simp, trivial⟩
    · intro k hk
      have : k = 0 := by simp only [hn] at hk; omega
      subst this
      simp [hn]
    · intro e k hk
      have := inv.entries e k hk
      simp only; omega
    · intro k hk; omega
    · refine ⟨?_, fun _ => rfl, ?_⟩
      · intro k h1 h2
        have : k = h.n := by simp only at h2; omega
        subst this; simp
      · intro x hx; omega
  · obtain ⟨m, hm⟩ : ∃ m, h.n = m + 1 := ⟨h.n - 1, by omega⟩
    have hr : h.results = [some m] := by rw [inv.res]; simp [hm]
    simp only [hr, List.getLast?_singleton]
    split
    · -- duplicate of the previous point: nothing happens
      rename_i hdup
      refine ⟨h, rfl, inv, rfl, Nat.le_refl _, by omega, fun _ _ => rfl, fun k h1 h2 => by omega, ?_, fun _ _ => rfl⟩
      intro hnew
      rcases hnew with e | e
      · exact absurd e hn
      · rw [hm] at e; simp only [Nat.add_sub_cancel] at e; exact absurd hdup e
    · have hl := inv.link hn
      rw [hm, List.range_succ] at hl
      have hl' : Linked h.next h.prev (List.range m ++ [m, 0]) := by simpa using hl
      have hnm : h.next m = 0 := ((linked_snoc2 _ _ _).mp hl').2.1
      refine ⟨_, rfl, ⟨?_, ?_, ?_, ?_⟩, rfl, by simp, by simp, ?_, ?_⟩
      · simp [hm]
      · intro _
        simp only [hm, hnm]
        have e1 : List.range (m + 1 + 1) ++ [0] = (List.range m ++ [m]) ++ [m + 1, 0] := by
          rw [List.range_succ, List.range_succ]; simp
        rw [e1, linked_snoc2]
        refine ⟨?_, ?_, ?_⟩
        · have e2 : List.range m ++ [m] ++ [m + 1] = List.range m ++ [m, m + 1] := by simp
          rw [e2]
          apply seg_relink (List.range m) m 0 (m + 1) hl'
          · intro k hk
            have := List.mem_range.mp hk
            have n1 : k ≠ m := by omega
            have n2 : k ≠ m + 1 := by omega
            simp only [upd_ne _ _ n1, upd_ne _ _ n2]
          · intro k hk
            rw [← List.range_succ, List.range_succ_eq_map] at hk
            simp only [List.tail_cons, List.mem_map, List.mem_range] at hk
            obtain ⟨a, ha, rfl⟩ := hk
            have n1 : a.succ ≠ m + 1 := by omega
            have n2 : a.succ ≠ 0 := by omega
            simp only [upd_ne _ _ n1, upd_ne _ _ n2]
          · simp
          · simp
        · have n1 : m + 1 ≠ m := by omega
          simp [upd_ne _ _ n1]
        · have n1 : 0 ≠ m + 1 := by omega
          simp [upd_ne _ _ n1]
      · intro k hk
        simp only [hm] at hk ⊢
        by_cases e : k = m + 1
        · subst e; simp
        · rw [upd_ne _ _ e]; exact inv.owner k (by omega)
      · intro e k hk
        have := inv.entries e k hk
        simp only; omega
      · intro k hk
        have : k ≠ h.n := by omega
        simp only [upd_ne _ _ this]
      · refine ⟨?_, fun _ => rfl, ?_⟩
        · intro k h1 h2
          have : k = h.n := by simp only at h2; omega
          subst this; simp
        · intro x hx
          have : x ≠ h.n := by omega
          simp only [upd_ne _ _ this]

theorem addAll_rawInv : ∀ (ps : List Pt) (h : Heap), RawInv h →
    ∃ h', h.addAll ps = .ok h' ∧ RawInv h' ∧ h'.edges = h.edges ∧ h.n ≤ h'.n ∧
      (∀ k, k < h.n → h'.pt k = h.pt k) ∧ (∀ k, h.n ≤ k → k < h'.n → h'.pt k ∈ ps)
  | [], h, inv => ⟨h, rfl, inv, rfl, Nat.le_refl _, fun _ _ => rfl, fun k h1 h2 => by omega⟩
  | p :: ps, h, inv => by
    obtain ⟨h1, e1, inv1, ed1, n1, n1', o1, p1, _⟩ := add_rawInv h p inv
    obtain ⟨h2, e2, inv2, ed2, n2, o2, p2⟩ := addAll_rawInv ps h1 inv1
    refine ⟨h2, by simp [Heap.addAll, e1, e2], inv2, ed2.trans ed1, by omega, ?_, ?_⟩
    · intro k hk; rw [o2 k (by omega), o1 k hk]
    · intro k h3 h4
      by_cases hk : k < h1.n
      · rw [o2 k hk, p1 k h3 hk]; simp
      · exact List.mem_cons_of_mem _ (p2 k (by omega) h4)

/-- `AddToEdge` on a node of the ring -/
theorem addToEdge_rawInv (h : Heap) (e op : Nat) (inv : RawInv h) (hop : op < h.n) : RawInv (h.addToEdge e op) := by
  have sr := sameRings_addToEdge h e op
  obtain ⟨s1, s2, s3, s4, s5, s6⟩ := sr
  refine ⟨by rw [s6, s1]; exact inv.res, by rw [s1, s3, s4]; exact inv.link, by rw [s1, s5]; exact inv.owner, ?_⟩
  intro e' k hk
  rw [s1]
  rcases entriesSub_addToEdge h e op [op] (by simp) e' k hk with m | m
  · exact inv.entries e' k m
  · simp only [List.mem_singleton] at m; subst m; exact hop

theorem addCorners_rawInv : ∀ (cs : List (Pt × Nat)) (h : Heap), RawInv h →
    ∃ h', addCorners h cs = .ok h' ∧ RawInv h' ∧ h.n ≤ h'.n ∧
      (∀ k, k < h.n → h'.pt k = h.pt k) ∧ (∀ k, h.n ≤ k → k < h'.n → h'.pt k ∈ cs.map (·.1))
  | [], h, inv => ⟨h, rfl, inv, Nat.le_refl _, fun _ _ => rfl, fun k h1 h2 => by omega⟩
  | (p, c) :: cs, h, inv => by
    obtain ⟨h1, e1, inv1, ed1, n1, n1', o1, p1, _⟩ := add_rawInv h p inv
    -- results_[0] after an Add is the last node
    by_cases hn : h1.n = 0
    · -- impossible: Add always leaves at least one node
      exfalso
      unfold Heap.add at e1
      by_cases hn0 : h.n = 0
      · have hr : h.results = [] := by rw [inv.res]; simp [hn0]
        simp only [hr, List.getLast?_nil, Except.ok.injEq] at e1
        rw [← e1] at hn; simp at hn
      · omega
    · have hr : h1.results = [some (h1.n - 1)] := by rw [inv1.res]; simp [hn]
      have inv1' := addToEdge_rawInv h1 (c * 2) (h1.n - 1) inv1 (by omega)
      obtain ⟨h2, e2, inv2, n2, o2, p2⟩ := addCorners_rawInv cs (h1.addToEdge (c * 2) (h1.n - 1)) inv1'
      have sr := sameRings_addToEdge h1 (c * 2) (h1.n - 1)
      refine ⟨h2, by simp [addCorners, e1, hr, e2], inv2, by rw [sr.1] at n2; omega, ?_, ?_⟩
      · intro k hk
        rw [o2 k (by rw [sr.1]; omega), sr.2.1, o1 k hk]
      · intro k h3 h4
        by_cases hk : k < h1.n
        · rw [o2 k (by rw [sr.1]; exact hk), sr.2.1, p1 k h3 hk]; simp
        · have := p2 k (by rw [sr.1]; omega) h4
          simp only [List.map_cons, List.mem_cons]
          exact Or.inr this

/-- **The heap after `ExecuteInternal`** is well-formed (one ring in slot 0, or nothing), every entry of an edge list is a node,
and every node carries a point that was passed to `Add`. -/
theorem rawHeap_inv (pip : Pt → Path → Option PipResult) (r : Rect) (path : Path) (res : AResult) :
    ∃ h, rawHeap pip r path res = .ok h ∧ RawInv h ∧ (∀ k, k < h.n → ∃ e ∈ res.es, e.pt = h.pt k) ∧
      (enclosing pip r path res = false → ∀ e k, some k ∉ h.edges e) := by
  unfold rawHeap
  simp only
  split
  · rename_i henc
    obtain ⟨h1, e1, inv1, ed1, n1, o1, p1⟩ := addAll_rawInv ((res.es.map (·.pt)).take ((res.es.map (·.pt)).length - 4)) Heap.empty rawInv_empty
    rw [e1]
    simp only
    obtain ⟨h2, e2, inv2, n2, o2, p2⟩ := addCorners_rawInv
      (((res.es.map (·.pt)).drop ((res.es.map (·.pt)).length - 4)).zip
        (if startLocsAreClockwise res.startLocs = true then [0, 1, 2, 3] else [3, 2, 1, 0])) h1 inv1
    refine ⟨h2, e2, inv2, ?_, by intro hf; rw [hf] at henc; cases henc⟩
    intro k hk
    have mem_es : ∀ q, q ∈ res.es.map (·.pt) → ∃ e ∈ res.es, e.pt = q := by
      intro q hq; simpa using hq
    by_cases hk1 : k < h1.n
    · rw [o2 k hk1]
      have := p1 k (Nat.zero_le _) hk1
      obtain ⟨e, he, hq⟩ := mem_es _ (List.mem_of_mem_take this)
      exact ⟨e, he, hq⟩
    · have := p2 k (by omega) hk
      have hm : h2.pt k ∈ (res.es.map (·.pt)).drop ((res.es.map (·.pt)).length - 4) := by
        obtain ⟨⟨a, b⟩, hab, ea⟩ := List.mem_map.mp this
        simp only at ea
        rw [← ea]
        exact (List.of_mem_zip hab).1
      obtain ⟨e, he, hq⟩ := mem_es _ (List.mem_of_mem_drop hm)
      exact ⟨e, he, hq⟩
  · rename_i henc
    obtain ⟨h1, e1, inv1, ed1, n1, o1, p1⟩ := addAll_rawInv (res.es.map (·.pt)) Heap.empty rawInv_empty
    refine ⟨h1, e1, inv1, ?_, ?_⟩
    · intro k hk
      have := p1 k (Nat.zero_le _) hk
      simpa using this
    · intro _ e k hk
      rw [ed1] at hk
      simp [Heap.empty] at hk

end Clipper.Lemmas.RCT
