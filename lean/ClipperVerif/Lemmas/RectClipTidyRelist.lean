/-
Helper lemmas for Props/C08Tidy.lean, part 10: what the relisting part of a `TidyEdges` iteration ("lots of work to get ready for
the next loop") does to the two edge lists of the side, in a form that is uniform over its eight arms.
Core Lean only.
-/
import ClipperVerif.Lemmas.RectClipTidyMeasure
namespace Clipper.Lemmas.RCT
open Clipper Clipper.Model.RC Clipper.Model.RCT

theorem edges_setEdge (h : Heap) (e k : Nat) (v : Option Nat) (e' : Nat) :
    (h.setEdge e k v).edges e' = if e' = e then (h.edges e).set k v else h.edges e' := by
  simp only [Heap.setEdge, upd_apply]

theorem wsum_set_none (f : Option Nat → Nat) (hf : f none = 0) (l : List (Option Nat)) (k : Nat) (v : Option Nat)
    (hk : k < l.length) : wsum f (l.set k v) = wsum f (l.set k none) + f v := by
  have e1 := wsum_set f l k v l[k] (List.getElem?_eq_getElem hk)
  have e2 := wsum_set f l k none l[k] (List.getElem?_eq_getElem hk)
  rw [hf] at e2; omega

theorem mem_set_none {l : List (Option Nat)} {k : Nat} {v : Option Nat} {x : Nat} (hm : some x ∈ l.set k v) :
    v = some x ∨ some x ∈ l.set k none := by
  rcases List.mem_iff_getElem?.mp hm with ⟨m, hm'⟩
  rw [List.getElem?_set] at hm'
  split at hm'
  · rename_i e
    split at hm'
    · left; simpa using hm'
    · cases hm'
  · rename_i e
    right
    apply List.mem_iff_getElem?.mpr
    refine ⟨m, ?_⟩
    rw [List.getElem?_set]; simp only [e, if_false]; exact hm'

/-! ### `l'` is `l` with some entries replaced by `nullptr` -/

def Below (l' l : List (Option Nat)) : Prop := l'.length = l.length ∧ ∀ m : Nat, l'[m]? = l[m]? ∨ l'[m]? = some none

theorem Below.refl (l : List (Option Nat)) : Below l l := ⟨rfl, fun _ => Or.inl rfl⟩

theorem below_nullFirst (op : Nat) : ∀ (l : List (Option Nat)), Below (nullFirst op l) l
  | [] => Below.refl _
  | x :: l => by
    simp only [nullFirst]
    split
    · refine ⟨rfl, ?_⟩
      intro m
      cases m with
      | zero => right; rfl
      | succ m => left; rfl
    · have ih := below_nullFirst op l
      refine ⟨by simp [ih.1], ?_⟩
      intro m
      cases m with
      | zero => left; rfl
      | succ m => simpa using ih.2 m

theorem Below.set {l' l : List (Option Nat)} (hb : Below l' l) (j : Nat) (v : Option Nat) : Below (l'.set j v) (l.set j v) := by
  refine ⟨by simp [hb.1], ?_⟩
  intro m
  rw [List.getElem?_set, List.getElem?_set, hb.1]
  split
  · left; rfl
  · exact hb.2 m

theorem Below.mem {l' l : List (Option Nat)} (hb : Below l' l) {k : Nat} (hk : some k ∈ l') : some k ∈ l := by
  rcases List.mem_iff_getElem?.mp hk with ⟨m, hm⟩
  rcases hb.2 m with e | e
  · exact List.mem_iff_getElem?.mpr ⟨m, by rw [← e]; exact hm⟩
  · rw [e] at hm; cases hm

theorem Below.wsum_le (f : Option Nat → Nat) (hf : f none = 0) : ∀ {l' l : List (Option Nat)}, Below l' l → wsum f l' ≤ wsum f l
  | [], [], _ => Nat.le_refl _
  | [], _ :: _, hb => by have := hb.1; simp at this
  | _ :: _, [], hb => by have := hb.1; simp at this
  | a :: l', b :: l, hb => by
    have hb' : Below l' l := ⟨by simpa using hb.1, fun m => by simpa using hb.2 (m + 1)⟩
    have ih := Below.wsum_le f hf hb'
    have h0 := hb.2 0
    simp only [List.getElem?_cons_zero, Option.some.injEq] at h0
    simp only [wsum_cons]
    rcases h0 with e | e
    · rw [e]; omega
    · rw [e, hf]; omega

/-- `UncoupleEdge(X)`: `X->edge` is null afterwards and every list only has entries nulled -/
theorem uncouple_facts (h : Heap) (X : Nat) :
    (h.uncoupleEdge X).edge X = none ∧ ∀ e, Below ((h.uncoupleEdge X).edges e) (h.edges e) := by
  unfold Heap.uncoupleEdge
  split
  · rename_i hn; exact ⟨hn, fun e => Below.refl _⟩
  · refine ⟨by simp, ?_⟩
    intro e
    simp only [upd_apply]
    split
    · rename_i he; subst he; exact below_nullFirst _ _
    · exact Below.refl _

theorem addToEdge_of_none (h : Heap) (e X : Nat) (hn : h.edge X = none) (e' : Nat) :
    (h.addToEdge e X).edges e' = if e' = e then h.edges e ++ [some X] else h.edges e' := by
  unfold Heap.addToEdge
  rw [hn]
  simp only [upd_apply]

/-- sum of a weight over the placed nodes -/
def psum (f : Option Nat → Nat) (l : List Nat) : Nat := (l.map (fun k => f (some k))).sum

/-- what an arm of the relisting step leaves: `pcw` / `pccw` are the nodes written into the `cw` / `ccw` list (at `cw[i]`,
`ccw[j]` or appended); everything else in the two lists is an old entry at a position other than `i` resp. `j` -/
structure RelistOut (cwE ccwE : Nat) (cwTL isHorz : Bool) (h5 : Heap) (i j op op2 : Nat) (s' : TState) (pcw pccw : List Nat) :
    Prop where
  same : SameRings h5 s'.h
  memcw : ∀ k, some k ∈ s'.h.edges cwE → some k ∈ (h5.edges cwE).set i none ∨ k ∈ pcw
  memccw : ∀ k, some k ∈ s'.h.edges ccwE → some k ∈ (h5.edges ccwE).set j none ∨ k ∈ pccw
  sums : ∀ f : Option Nat → Nat, f none = 0 → wsum f (s'.h.edges cwE) + wsum f (s'.h.edges ccwE) ≤
    wsum f ((h5.edges cwE).set i none) + wsum f ((h5.edges ccwE).set j none) + psum f pcw + psum f pccw
  lens : (s'.h.edges cwE).length + (s'.h.edges ccwE).length + 1 ≤
    (h5.edges cwE).length + (h5.edges ccwE).length + (pcw ++ pccw).length
  dcw : ∀ k ∈ pcw, isLarger isHorz h5 k = cwTL
  dccw : ∀ k ∈ pccw, isLarger isHorz h5 k ≠ cwTL
  placed : (pcw ++ pccw = [op]) ∨ (pcw ++ pccw = [op2]) ∨
    (((pcw ++ pccw = [op, op2]) ∨ (pcw ++ pccw = [op2, op])) ∧
      h5.pt op ≠ h5.pt (h5.prev op) ∧ h5.pt op2 ≠ h5.pt (h5.prev op2))
  ile : s'.i ≤ (s'.h.edges cwE).length
  jle : s'.j ≤ (s'.h.edges ccwE).length
  others : ∀ e, e ≠ cwE → e ≠ ccwE → Below (s'.h.edges e) (h5.edges e)

section arms
variable (cwE ccwE : Nat) (hne : cwE ≠ ccwE) (cwTL isHorz : Bool) (h5 : Heap) (i j op op2 : Nat)
  (hi : i < (h5.edges cwE).length) (hj : j < (h5.edges ccwE).length)
include hne hi hj

/-- `cw[i] = X; ccw[j++] = nullptr;` -/
theorem arm_one_cw (X : Nat) (hX : isLarger isHorz h5 X = cwTL) (hXo : X = op ∨ X = op2) :
    RelistOut cwE ccwE cwTL isHorz h5 i j op op2 ⟨(h5.setEdge cwE i (some X)).setEdge ccwE j none, i, j + 1⟩ [X] [] := by
  have hne' : ccwE ≠ cwE := fun e => hne e.symm
  have ecw : ((h5.setEdge cwE i (some X)).setEdge ccwE j none).edges cwE = (h5.edges cwE).set i (some X) := by
    rw [edges_setEdge, if_neg hne, edges_setEdge, if_pos rfl]
  have eccw : ((h5.setEdge cwE i (some X)).setEdge ccwE j none).edges ccwE = (h5.edges ccwE).set j none := by
    rw [edges_setEdge, if_pos rfl, edges_setEdge, if_neg hne']
  refine ⟨(sameRings_setEdge _ _ _ _).trans (sameRings_setEdge _ _ _ _), ?_, ?_, ?_, ?_, ?_, ?_, ?_, ?_, ?_, ?_⟩
  · intro k hk; simp only at hk; rw [ecw] at hk
    rcases mem_set_none hk with m | m
    · right; simp only [Option.some.injEq] at m; simp [m]
    · exact Or.inl m
  · intro k hk; simp only at hk; rw [eccw] at hk; exact Or.inl hk
  · intro f hf; simp only; rw [ecw, eccw, wsum_set_none f hf _ _ _ hi]; simp [psum]; omega
  · simp only; rw [ecw, eccw]; simp
  · intro k hk; simp only [List.mem_singleton] at hk; rw [hk]; exact hX
  · intro k hk; cases hk
  · rcases hXo with rfl | rfl
    · exact Or.inl rfl
    · exact Or.inr (Or.inl rfl)
  · simp only; rw [ecw]; simp; omega
  · simp only; rw [eccw]; simp; omega
  · intro e h1 h2; simp only; rw [edges_setEdge, if_neg h2, edges_setEdge, if_neg h1]; exact Below.refl _

/-- `ccw[j] = X; cw[i++] = nullptr;` -/
theorem arm_one_ccw (X : Nat) (hX : isLarger isHorz h5 X ≠ cwTL) (hXo : X = op ∨ X = op2) :
    RelistOut cwE ccwE cwTL isHorz h5 i j op op2 ⟨(h5.setEdge ccwE j (some X)).setEdge cwE i none, i + 1, j⟩ [] [X] := by
  have hne' : ccwE ≠ cwE := fun e => hne e.symm
  have ecw : ((h5.setEdge ccwE j (some X)).setEdge cwE i none).edges cwE = (h5.edges cwE).set i none := by
    rw [edges_setEdge, if_pos rfl, edges_setEdge, if_neg hne]
  have eccw : ((h5.setEdge ccwE j (some X)).setEdge cwE i none).edges ccwE = (h5.edges ccwE).set j (some X) := by
    rw [edges_setEdge, if_neg hne', edges_setEdge, if_pos rfl]
  refine ⟨(sameRings_setEdge _ _ _ _).trans (sameRings_setEdge _ _ _ _), ?_, ?_, ?_, ?_, ?_, ?_, ?_, ?_, ?_, ?_⟩
  · intro k hk; simp only at hk; rw [ecw] at hk; exact Or.inl hk
  · intro k hk; simp only at hk; rw [eccw] at hk
    rcases mem_set_none hk with m | m
    · right; simp only [Option.some.injEq] at m; simp [m]
    · exact Or.inl m
  · intro f hf; simp only; rw [ecw, eccw, wsum_set_none f hf _ _ _ hj]; simp [psum]; omega
  · simp only; rw [ecw, eccw]; simp
  · intro k hk; cases hk
  · intro k hk; simp only [List.mem_singleton] at hk; rw [hk]; exact hX
  · rcases hXo with rfl | rfl
    · exact Or.inl rfl
    · exact Or.inr (Or.inl rfl)
  · simp only; rw [ecw]; simp; omega
  · simp only; rw [eccw]; simp; omega
  · intro e h1 h2; simp only; rw [edges_setEdge, if_neg h1, edges_setEdge, if_neg h2]; exact Below.refl _

/-- `cw[i] = op; UncoupleEdge(op2); AddToEdge(cw, op2); ccw[j++] = nullptr;` -/
theorem arm_two_cw (h1 : isLarger isHorz h5 op = cwTL) (h2 : isLarger isHorz h5 op2 = cwTL)
    (hp1 : h5.pt op ≠ h5.pt (h5.prev op)) (hp2 : h5.pt op2 ≠ h5.pt (h5.prev op2)) :
    RelistOut cwE ccwE cwTL isHorz h5 i j op op2
      ⟨((((h5.setEdge cwE i (some op)).uncoupleEdge op2).addToEdge cwE op2).setEdge ccwE j none), i, j + 1⟩ [op, op2] [] := by
  have hne' : ccwE ≠ cwE := fun e => hne e.symm
  have uf := uncouple_facts (h5.setEdge cwE i (some op)) op2
  have ea := addToEdge_of_none ((h5.setEdge cwE i (some op)).uncoupleEdge op2) cwE op2 uf.1
  have ecw : (((((h5.setEdge cwE i (some op)).uncoupleEdge op2).addToEdge cwE op2).setEdge ccwE j none)).edges cwE =
      ((h5.setEdge cwE i (some op)).uncoupleEdge op2).edges cwE ++ [some op2] := by
    rw [edges_setEdge, if_neg hne, ea, if_pos rfl]
  have eccw : (((((h5.setEdge cwE i (some op)).uncoupleEdge op2).addToEdge cwE op2).setEdge ccwE j none)).edges ccwE =
      (((h5.setEdge cwE i (some op)).uncoupleEdge op2).edges ccwE).set j none := by
    rw [edges_setEdge, if_pos rfl, ea, if_neg hne']
  have b1 : Below (((h5.setEdge cwE i (some op)).uncoupleEdge op2).edges cwE) ((h5.edges cwE).set i (some op)) := by
    have := uf.2 cwE; rw [edges_setEdge, if_pos rfl] at this; exact this
  have b2 : Below ((((h5.setEdge cwE i (some op)).uncoupleEdge op2).edges ccwE).set j none) ((h5.edges ccwE).set j none) := by
    have := uf.2 ccwE; rw [edges_setEdge, if_neg hne'] at this; exact this.set j none
  refine ⟨(((sameRings_setEdge _ _ _ _).trans (sameRings_uncouple _ _)).trans (sameRings_addToEdge _ _ _)).trans
    (sameRings_setEdge _ _ _ _), ?_, ?_, ?_, ?_, ?_, ?_, ?_, ?_, ?_, ?_⟩
  · intro k hk; simp only at hk; rw [ecw] at hk
    rcases List.mem_append.mp hk with m | m
    · rcases mem_set_none (b1.mem m) with m' | m'
      · right; simp only [Option.some.injEq] at m'; simp [m']
      · exact Or.inl m'
    · right; simp only [List.mem_singleton, Option.some.injEq] at m; simp [m]
  · intro k hk; simp only at hk; rw [eccw] at hk; exact Or.inl (b2.mem hk)
  · intro f hf; simp only; rw [ecw, eccw, wsum_append]
    have := b1.wsum_le f hf
    have := b2.wsum_le f hf
    rw [wsum_set_none f hf _ _ _ hi] at *
    simp [psum, wsum_cons, wsum_nil]; omega
  · simp only; rw [ecw, eccw]; simp [b1.1, (uf.2 ccwE).1, edges_setEdge, hne']; omega
  · intro k hk
    simp only [List.mem_cons, List.not_mem_nil, or_false] at hk
    rcases hk with rfl | rfl
    · exact h1
    · exact h2
  · intro k hk; cases hk
  · exact Or.inr (Or.inr ⟨Or.inl rfl, hp1, hp2⟩)
  · simp only; rw [ecw]; simp [b1.1]; omega
  · simp only; rw [eccw]; simp [(uf.2 ccwE).1, edges_setEdge, hne']; omega
  · intro e h1' h2'; simp only
    rw [edges_setEdge, if_neg h2', ea, if_neg h1']
    have := uf.2 e
    rw [edges_setEdge, if_neg h1'] at this; exact this

/-- `cw[i++] = nullptr; ccw[j] = op2; UncoupleEdge(op); AddToEdge(ccw, op); j = 0;` -/
theorem arm_two_ccw (h1 : isLarger isHorz h5 op ≠ cwTL) (h2 : isLarger isHorz h5 op2 ≠ cwTL)
    (hp1 : h5.pt op ≠ h5.pt (h5.prev op)) (hp2 : h5.pt op2 ≠ h5.pt (h5.prev op2)) :
    RelistOut cwE ccwE cwTL isHorz h5 i j op op2
      ⟨((((h5.setEdge cwE i none).setEdge ccwE j (some op2)).uncoupleEdge op).addToEdge ccwE op), i + 1, 0⟩ [] [op2, op] := by
  have hne' : ccwE ≠ cwE := fun e => hne e.symm
  have uf := uncouple_facts ((h5.setEdge cwE i none).setEdge ccwE j (some op2)) op
  have ea := addToEdge_of_none (((h5.setEdge cwE i none).setEdge ccwE j (some op2)).uncoupleEdge op) ccwE op uf.1
  have ecw : ((((h5.setEdge cwE i none).setEdge ccwE j (some op2)).uncoupleEdge op).addToEdge ccwE op).edges cwE =
      (((h5.setEdge cwE i none).setEdge ccwE j (some op2)).uncoupleEdge op).edges cwE := by
    rw [ea, if_neg hne]
  have eccw : ((((h5.setEdge cwE i none).setEdge ccwE j (some op2)).uncoupleEdge op).addToEdge ccwE op).edges ccwE =
      (((h5.setEdge cwE i none).setEdge ccwE j (some op2)).uncoupleEdge op).edges ccwE ++ [some op] := by
    rw [ea, if_pos rfl]
  have b1 : Below ((((h5.setEdge cwE i none).setEdge ccwE j (some op2)).uncoupleEdge op).edges cwE) ((h5.edges cwE).set i none) := by
    have := uf.2 cwE; rw [edges_setEdge, if_neg hne, edges_setEdge, if_pos rfl] at this; exact this
  have b2 : Below ((((h5.setEdge cwE i none).setEdge ccwE j (some op2)).uncoupleEdge op).edges ccwE)
      ((h5.edges ccwE).set j (some op2)) := by
    have := uf.2 ccwE; rw [edges_setEdge, if_pos rfl, edges_setEdge, if_neg hne'] at this; exact this
  refine ⟨(((sameRings_setEdge _ _ _ _).trans (sameRings_setEdge _ _ _ _)).trans (sameRings_uncouple _ _)).trans
    (sameRings_addToEdge _ _ _), ?_, ?_, ?_, ?_, ?_, ?_, ?_, ?_, ?_, ?_⟩
  · intro k hk; simp only at hk; rw [ecw] at hk; exact Or.inl (b1.mem hk)
  · intro k hk; simp only at hk; rw [eccw] at hk
    rcases List.mem_append.mp hk with m | m
    · rcases mem_set_none (b2.mem m) with m' | m'
      · right; simp only [Option.some.injEq] at m'; simp [m']
      · exact Or.inl m'
    · right; simp only [List.mem_singleton, Option.some.injEq] at m; simp [m]
  · intro f hf; simp only; rw [ecw, eccw, wsum_append]
    have := b1.wsum_le f hf
    have := b2.wsum_le f hf
    rw [wsum_set_none f hf _ _ _ hj] at *
    simp [psum, wsum_cons, wsum_nil]; omega
  · simp only; rw [ecw, eccw]; simp [b1.1, b2.1]; omega
  · intro k hk; cases hk
  · intro k hk
    simp only [List.mem_cons, List.not_mem_nil, or_false] at hk
    rcases hk with rfl | rfl
    · exact h2
    · exact h1
  · exact Or.inr (Or.inr ⟨Or.inr rfl, hp1, hp2⟩)
  · simp only; rw [ecw]; simp [b1.1]; omega
  · simp only; omega
  · intro e h1' h2'; simp only
    rw [ea, if_neg h2']
    have := uf.2 e
    rw [edges_setEdge, if_neg h2', edges_setEdge, if_neg h1'] at this; exact this

/-- arm 3: `cw[i] = X; ccw[j] = Y;` -/
theorem arm_three (X Y : Nat) (hX : isLarger isHorz h5 X = cwTL) (hY : isLarger isHorz h5 Y ≠ cwTL)
    (hXY : (X = op ∧ Y = op2) ∨ (X = op2 ∧ Y = op))
    (hp1 : h5.pt op ≠ h5.pt (h5.prev op)) (hp2 : h5.pt op2 ≠ h5.pt (h5.prev op2)) (hh : Heap)
    (ecw : hh.edges cwE = (h5.edges cwE).set i (some X)) (eccw : hh.edges ccwE = (h5.edges ccwE).set j (some Y))
    (eoth : ∀ e, e ≠ cwE → e ≠ ccwE → hh.edges e = h5.edges e) (sr : SameRings h5 hh) :
    RelistOut cwE ccwE cwTL isHorz h5 i j op op2 ⟨hh, i, j⟩ [X] [Y] := by
  refine ⟨sr, ?_, ?_, ?_, ?_, ?_, ?_, ?_, ?_, ?_, ?_⟩
  · intro k hk; simp only at hk; rw [ecw] at hk
    rcases mem_set_none hk with m | m
    · right; simp only [Option.some.injEq] at m; simp [m]
    · exact Or.inl m
  · intro k hk; simp only at hk; rw [eccw] at hk
    rcases mem_set_none hk with m | m
    · right; simp only [Option.some.injEq] at m; simp [m]
    · exact Or.inl m
  · intro f hf; simp only; rw [ecw, eccw, wsum_set_none f hf _ _ _ hi, wsum_set_none f hf _ _ _ hj]; simp [psum]; omega
  · simp only; rw [ecw, eccw]; simp
  · intro k hk; simp only [List.mem_singleton] at hk; rw [hk]; exact hX
  · intro k hk; simp only [List.mem_singleton] at hk; rw [hk]; exact hY
  · rcases hXY with ⟨rfl, rfl⟩ | ⟨rfl, rfl⟩
    · exact Or.inr (Or.inr ⟨Or.inl rfl, hp1, hp2⟩)
    · exact Or.inr (Or.inr ⟨Or.inr rfl, hp1, hp2⟩)
  · simp only; rw [ecw]; simp; omega
  · simp only; rw [eccw]; simp; omega
  · intro e h1 h2; simp only; rw [eoth e h1 h2]; exact Below.refl _

end arms

/-- **The relisting step, uniformly over its arms** -/
theorem tidyRelist_out (cwE ccwE : Nat) (hne : cwE ≠ ccwE) (cwTL isHorz : Bool) (h5 : Heap) (i j op op2 : Nat) (rj : Bool)
    (hi : i < (h5.edges cwE).length) (hj : j < (h5.edges ccwE).length) :
    ∃ b s' pcw pccw, tidyRelist cwE ccwE cwTL isHorz h5 i j op op2 rj = .next b s' ∧
      RelistOut cwE ccwE cwTL isHorz h5 i j op op2 s' pcw pccw := by
  have hne' : ccwE ≠ cwE := fun e => hne e.symm
  unfold tidyRelist
  simp only
  split
  · split
    · rename_i hl; exact ⟨_, _, _, _, rfl, arm_one_cw cwE ccwE hne cwTL isHorz h5 i j op op2 hi hj op2 hl (Or.inr rfl)⟩
    · rename_i hl; exact ⟨_, _, _, _, rfl, arm_one_ccw cwE ccwE hne cwTL isHorz h5 i j op op2 hi hj op2 hl (Or.inr rfl)⟩
  · rename_i hd1
    split
    · split
      · rename_i hl; exact ⟨_, _, _, _, rfl, arm_one_cw cwE ccwE hne cwTL isHorz h5 i j op op2 hi hj op hl (Or.inl rfl)⟩
      · rename_i hl; exact ⟨_, _, _, _, rfl, arm_one_ccw cwE ccwE hne cwTL isHorz h5 i j op op2 hi hj op hl (Or.inl rfl)⟩
    · rename_i hd2
      have hp1 : h5.pt op ≠ h5.pt (h5.prev op) := fun e => hd1 (Or.inr e)
      have hp2 : h5.pt op2 ≠ h5.pt (h5.prev op2) := fun e => hd2 (Or.inr e)
      split
      · rename_i hsame
        split
        · rename_i hl
          exact ⟨_, _, _, _, rfl, arm_two_cw cwE ccwE hne cwTL isHorz h5 i j op op2 hi hj hl (by rw [← hsame]; exact hl) hp1 hp2⟩
        · rename_i hl
          exact ⟨_, _, _, _, rfl, arm_two_ccw cwE ccwE hne cwTL isHorz h5 i j op op2 hi hj hl (by rw [← hsame]; exact hl) hp1 hp2⟩
      · rename_i hdiff
        by_cases hl : isLarger isHorz h5 op = cwTL
        · have hl2 : isLarger isHorz h5 op2 ≠ cwTL := fun e => hdiff (hl.trans e.symm)
          refine ⟨_, _, [op], [op2], rfl, ?_⟩
          simp only [hl, if_true, hl2, if_false]
          apply arm_three cwE ccwE hne cwTL isHorz h5 i j op op2 hi hj op op2 hl hl2 (Or.inl ⟨rfl, rfl⟩) hp1 hp2
          · rw [edges_setEdge, if_neg hne, edges_setEdge, if_pos rfl]
          · rw [edges_setEdge, if_pos rfl, edges_setEdge, if_neg hne']
          · intro e h1 h2; rw [edges_setEdge, if_neg h2, edges_setEdge, if_neg h1]
          · exact (sameRings_setEdge _ _ _ _).trans (sameRings_setEdge _ _ _ _)
        · have hl2 : isLarger isHorz h5 op2 = cwTL := by
            cases h1 : isLarger isHorz h5 op <;> cases h2 : isLarger isHorz h5 op2 <;> cases cwTL <;> simp_all
          refine ⟨_, _, [op2], [op], rfl, ?_⟩
          simp only [hl, if_false, hl2, if_true]
          apply arm_three cwE ccwE hne cwTL isHorz h5 i j op op2 hi hj op2 op hl2 hl (Or.inr ⟨rfl, rfl⟩) hp1 hp2
          · rw [edges_setEdge, if_pos rfl, edges_setEdge, if_neg hne]
          · rw [edges_setEdge, if_neg hne', edges_setEdge, if_pos rfl]
          · intro e h1 h2; rw [edges_setEdge, if_neg h1, edges_setEdge, if_neg h2]
          · exact (sameRings_setEdge _ _ _ _).trans (sameRings_setEdge _ _ _ _)

end Clipper.Lemmas.RCT
