/-
Termination (fuel sufficiency) of `skipDeadOwners`, `checkSplitOwner`, `ownerLoop`: measures and invariants.

Measure of a call `CheckSplitOwner(outrec, L)`: the lexicographic triple
  ( U = number of outrecs that have points and are not marked `recursive_split == outrec`,
    ρ = 1 + the largest rank of an entry of `L` in the well-founded order on `splits` of point-less outrecs,
    ℓ = length of `L` ),
turned into the single number `U·(R+1)·(M+1) + ρ·(M+1) + ℓ + 1` (`R` bounds the ranks, `M` the lengths of `splits`).
Measure of the `while (outrec->owner)` loop: the rank of `outrec->owner` in the (acyclic) owner graph.
-/
import ClipperVerif.Lemmas.OwnerClosed
namespace Clipper.Model.Owner
open Clipper

/-! ### counting -/

theorem countP_le_countP {α : Type} {p q : α → Bool} {l : List α} (h : ∀ x ∈ l, p x = true → q x = true) :
    l.countP p ≤ l.countP q := by
  induction l with
  | nil => simp
  | cons a l ih =>
    have ih' := ih (fun x hx => h x (List.mem_cons_of_mem _ hx))
    have ha := h a (List.mem_cons_self ..)
    simp only [List.countP_cons]
    cases hp : p a with
    | false => cases hq : q a <;> simp <;> omega
    | true => simp [ha hp]; omega

theorem countP_lt_countP {α : Type} {p q : α → Bool} {l : List α} (h : ∀ x ∈ l, p x = true → q x = true)
    {w : α} (hw : w ∈ l) (hq : q w = true) (hp : p w = false) : l.countP p < l.countP q := by
  induction l with
  | nil => simp at hw
  | cons a l ih =>
    have hle := countP_le_countP (fun x hx => h x (List.mem_cons_of_mem _ hx))
    simp only [List.countP_cons]
    rcases List.mem_cons.mp hw with e | hm
    · subst e
      simp [hq, hp]; omega
    · have := ih (fun x hx => h x (List.mem_cons_of_mem _ hx)) hm
      have ha := h a (List.mem_cons_self ..)
      cases hpa : p a with
      | false => cases hqa : q a <;> simp <;> omega
      | true => simp [ha hpa]; omega

/-- a rank with values `≤ n` that is still strictly monotone wherever the smaller index is `< n` -/
def normRank (n : Nat) (rk : Nat → Nat) (j : Nat) : Nat := (List.range n).countP (fun k => decide (rk k < rk j))

theorem normRank_le (n : Nat) (rk : Nat → Nat) (j : Nat) : normRank n rk j ≤ n := by
  unfold normRank
  have := List.countP_le_length (p := fun k => decide (rk k < rk j)) (l := List.range n)
  simpa using this

theorem normRank_lt {n : Nat} {rk : Nat → Nat} {a b : Nat} (hb : b < n) (h : rk b < rk a) :
    normRank n rk b < normRank n rk a := by
  unfold normRank
  refine countP_lt_countP (w := b) (fun x _ hx => ?_) (List.mem_range.mpr hb) (by simpa using h) (by simp)
  simp only [decide_eq_true_eq] at hx ⊢
  omega

/-- an acyclic owner graph with in-range owners has a rank function bounded by the table size -/
theorem Acyclic.bounded {T : Table} (hA : Acyclic T) (hO : OwnersInRange T) :
    ∃ rank : Nat → Nat, RankOK T rank ∧ ∀ j, rank j ≤ T.size := by
  obtain ⟨rank, hr⟩ := hA
  exact ⟨normRank T.size rank, fun j r o hj ho => normRank_lt (hO j r o hj ho) (hr j r o hj ho),
    fun j => normRank_le _ _ _⟩

/-! ### hypotheses of the termination theorems -/

/-- every entry of every `splits` list is an index of the table -/
def SplitsInRange (T : Table) : Prop :=
  ∀ (j : Nat) (r : OutRec) (s : Nat), T[j]? = some r → s ∈ r.splits → s < T.size

/-- `rk` decreases from every outrec that is, or will be after `CheckBounds`, without points to each of its `splits` -/
def SplitsRank (clean : Nat → CleanRes) (T : Table) (rk : Nat → Nat) : Prop :=
  ∀ (j : Nat) (r : OutRec) (s : Nat), T[j]? = some r → (r.hasPts = false ∨ clean j = .disposed) →
    s ∈ r.splits → rk s < rk j

/-- the `splits` relation restricted to (potentially) point-less outrecs is well founded -/
def SplitsWF (clean : Nat → CleanRes) (T : Table) : Prop := ∃ rk : Nat → Nat, SplitsRank clean T rk

/-- no outrec lists itself, directly or transitively, in `splits` -/
def SplitsAcyclic (T : Table) : Prop :=
  ∃ rk : Nat → Nat, ∀ (j : Nat) (r : OutRec) (s : Nat), T[j]? = some r → s ∈ r.splits → rk s < rk j

theorem SplitsAcyclic.wf {clean : Nat → CleanRes} {T : Table} (h : SplitsAcyclic T) : SplitsWF clean T := by
  obtain ⟨rk, hr⟩ := h
  exact ⟨rk, fun j r s hj _ hs => hr j r s hj hs⟩

/-- the rank of a well-founded `splits` relation can be chosen `≤ size` -/
theorem SplitsWF.bounded {clean : Nat → CleanRes} {T : Table} (h : SplitsWF clean T) (hS : SplitsInRange T) :
    ∃ rk : Nat → Nat, SplitsRank clean T rk ∧ ∀ j, rk j < T.size + 1 := by
  obtain ⟨rk, hr⟩ := h
  refine ⟨normRank T.size rk, fun j r s hj hp hs => normRank_lt (hS j r s hj hs) (hr j r s hj hp hs), fun j => ?_⟩
  have := normRank_le T.size rk j
  omega

/-- the invariant under which the table-level loops terminate -/
structure TermInv (clean : Nat → CleanRes) (rk : Nat → Nat) (R M : Nat) (T : Table) : Prop where
  acyc : Acyclic T
  own : OwnersInRange T
  spl : SplitsInRange T
  len : ∀ (j : Nat) (r : OutRec), T[j]? = some r → r.splits.length ≤ M
  wf : SplitsRank clean T rk
  rkR : ∀ j, rk j < R

theorem getElem?_of_lt {T : Table} {j : Nat} (h : j < T.size) : T[j]? = some T[j] := by simp [h]

theorem TermInv.step {clean : Nat → CleanRes} {rk : Nat → Nat} {R M : Nat} {io : Option Nat} {T T' : Table}
    (h : TermInv clean rk R M T) (hs : Step clean io T T') (hA : Acyclic T') (hO : OwnersInRange T') :
    TermInv clean rk R M T' := by
  refine ⟨hA, hO, fun j r' s hj hm => ?_, fun j r' hj => ?_, fun j r' s hj hp hm => ?_, h.rkR⟩
  · obtain ⟨r, hr, rs, _⟩ := hs.back hj
    rw [hs.1]
    exact h.spl j r s hr (rs.splits ▸ hm)
  · obtain ⟨r, hr, rs, _⟩ := hs.back hj
    rw [rs.splits]
    exact h.len j r hr
  · obtain ⟨r, hr, rs, _⟩ := hs.back hj
    refine h.wf j r s hr ?_ (rs.splits ▸ hm)
    rcases hp with hp | hp
    · cases hh : r.hasPts with
      | false => exact Or.inl rfl
      | true => exact Or.inr (rs.disposed hh hp)
    · exact Or.inr hp

theorem OwnersInRange.of_step {clean : Nat → CleanRes} {io : Option Nat} {T T' : Table} (h : OwnersInRange T)
    (hs : Step clean io T T')
    (hi : ∀ (i : Nat) (r : OutRec) (o : Nat), io = some i → T'[i]? = some r → r.owner = some o → o < T'.size) :
    OwnersInRange T' := by
  intro j r' o hj ho
  by_cases hji : some j = io
  · exact hi j r' o hji.symm hj ho
  · obtain ⟨r, hr, _, _, ow⟩ := hs.back hj
    rw [hs.1]
    exact h j r o hr ((ow hji) ▸ ho)

theorem TermInv.good_none {clean : Nat → CleanRes} {rk : Nat → Nat} {R M : Nat} {T T' : Table}
    (h : TermInv clean rk R M T) (hg : Good clean none T T') : TermInv clean rk R M T' :=
  h.step hg.1 (hg.2 h.acyc) (h.own.of_step hg.1 (fun _ _ _ e => by simp at e))

/-! ### the number of live unmarked outrecs -/

/-- outrec `j` has points and is not marked `recursive_split == i` -/
def unmarkedLive (T : Table) (i j : Nat) : Bool :=
  match T[j]? with
  | none => false
  | some r => r.hasPts && !(r.recursiveSplit == some i)

/-- the first component of the measure -/
def unmarked (T : Table) (i : Nat) : Nat := (List.range T.size).countP (unmarkedLive T i)

theorem unmarked_le_size (T : Table) (i : Nat) : unmarked T i ≤ T.size := by
  unfold unmarked
  have := List.countP_le_length (p := unmarkedLive T i) (l := List.range T.size)
  simpa using this

theorem unmarked_mono {clean : Nat → CleanRes} {io : Option Nat} {i : Nat} {T T' : Table}
    (hs : Step clean io T T') (hm : MarkFrame i T T') : unmarked T' i ≤ unmarked T i := by
  unfold unmarked
  rw [hs.1]
  refine countP_le_countP (fun j hj hu => ?_)
  have hlt := List.mem_range.mp hj
  obtain ⟨r', hr', rs, _⟩ := hs.2 j T[j] (getElem?_of_lt hlt)
  obtain ⟨r'', hr'', mk⟩ := hm j T[j] (getElem?_of_lt hlt)
  rw [hr'] at hr''
  simp only [Option.some.injEq] at hr''
  subst hr''
  unfold unmarkedLive at hu ⊢
  rw [hr'] at hu
  rw [getElem?_of_lt hlt]
  simp only [Bool.and_eq_true, Bool.not_eq_true'] at hu ⊢
  refine ⟨rs.hasPts_mono hu.1, ?_⟩
  rcases mk with mk | mk
  · rw [← mk]; exact hu.2
  · rw [mk] at hu; simp at hu

theorem unmarked_mark {i s' : Nat} {T : Table} {sr' : OutRec} (hs : T[s']? = some sr') (hp : sr'.hasPts = true)
    (hm : ¬ sr'.recursiveSplit = some i) :
    unmarked (T.modify s' (fun x => { x with recursiveSplit := some i })) i + 1 ≤ unmarked T i := by
  unfold unmarked
  rw [Array.size_modify]
  have hlt := getElem?_lt hs
  refine countP_lt_countP (w := s') (fun j _ hu => ?_) (List.mem_range.mpr hlt) ?_ ?_
  · unfold unmarkedLive at hu ⊢
    rw [Array.getElem?_modify] at hu
    by_cases hsj : s' = j
    · subst hsj
      simp [hs] at hu
    · simpa [hsj] using hu
  · unfold unmarkedLive
    rw [hs]
    simp [hp, hm]
  · unfold unmarkedLive
    rw [Array.getElem?_modify]
    simp [hs]

/-! ### the second component: the largest rank in a list -/

def maxRk (rk : Nat → Nat) : List Nat → Nat
  | [] => 0
  | s :: l => max (rk s + 1) (maxRk rk l)

theorem maxRk_le {rk : Nat → Nat} {l : List Nat} {b : Nat} (h : ∀ s ∈ l, rk s < b) : maxRk rk l ≤ b := by
  induction l with
  | nil => simp [maxRk]
  | cons a l ih =>
    have h1 := h a (List.mem_cons_self ..)
    have h2 := ih (fun s hs => h s (List.mem_cons_of_mem _ hs))
    simp only [maxRk]
    omega

/-! ### the fuel polynomial -/

/-- fuel that suffices for `CheckSplitOwner` with measure `(u, ρ, ℓ)` -/
def csoFuel (R M u ρ ℓ : Nat) : Nat := u * ((R + 1) * (M + 1)) + ρ * (M + 1) + ℓ + 1

theorem csoFuel_mono {R M u u' ρ ρ' ℓ ℓ' : Nat} (hu : u' ≤ u) (hρ : ρ' ≤ ρ) (hℓ : ℓ' ≤ ℓ) :
    csoFuel R M u' ρ' ℓ' ≤ csoFuel R M u ρ ℓ := by
  unfold csoFuel
  have h1 := Nat.mul_le_mul_right ((R + 1) * (M + 1)) hu
  have h2 := Nat.mul_le_mul_right (M + 1) hρ
  omega

/-- the `//#942` call: the rank component drops -/
theorem csoFuel_942 {R M u u' ρ ρ' ℓ ℓ' : Nat} (hu : u' ≤ u) (hρ : ρ' + 1 ≤ ρ) (hℓ : ℓ' ≤ M) :
    csoFuel R M u' ρ' ℓ' ≤ csoFuel R M u ρ ℓ - 1 := by
  unfold csoFuel
  have h1 := Nat.mul_le_mul_right ((R + 1) * (M + 1)) hu
  have h2 := Nat.mul_le_mul_right (M + 1) hρ
  rw [Nat.add_mul] at h2
  omega

/-- the call guarded by `recursive_split`: the number of unmarked live outrecs drops -/
theorem csoFuel_mark {R M u u' ρ ρ' ℓ ℓ' : Nat} (hu : u' + 1 ≤ u) (hρ : ρ' ≤ R) (hℓ : ℓ' ≤ M) :
    csoFuel R M u' ρ' ℓ' ≤ csoFuel R M u ρ ℓ - 1 := by
  unfold csoFuel
  have h1 := Nat.mul_le_mul_right ((R + 1) * (M + 1)) hu
  have h2 := Nat.mul_le_mul_right (M + 1) hρ
  rw [Nat.add_mul] at h1
  have h3 : (R + 1) * (M + 1) = R * (M + 1) + (M + 1) := by rw [Nat.add_mul]; simp
  generalize (R + 1) * (M + 1) = K at *
  generalize R * (M + 1) = RW at *
  generalize u' * K = a at *
  generalize u * K = b at *
  generalize ρ' * (M + 1) = c at *
  generalize ρ * (M + 1) = d at *
  omega

/-- the rest of the list -/
theorem csoFuel_rest {R M u u' ρ ρ' ℓ : Nat} (hu : u' ≤ u) (hρ : ρ' ≤ ρ) :
    csoFuel R M u' ρ' ℓ ≤ csoFuel R M u ρ (ℓ + 1) - 1 := by
  have := csoFuel_mono (R := R) (M := M) hu hρ (Nat.le_refl ℓ)
  unfold csoFuel at *
  omega

end Clipper.Model.Owner
