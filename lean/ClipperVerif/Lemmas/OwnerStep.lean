/-
Frame relation (`Step`) between outrec tables and the specifications of the table-level functions
`checkBounds`, `checkSplitOwner`, `ownerLoop`.
-/
import ClipperVerif.Lemmas.OwnerAcyclic
namespace Clipper.Model.Owner
open Clipper

/-- what may happen to the static / geometric fields of outrec `j` while the tree is built -/
structure RecStep (clean : Nat → CleanRes) (j : Nat) (r r' : OutRec) : Prop where
  splits : r'.splits = r.splits
  isOpen : r'.isOpen = r.isOpen
  hasPts_mono : r'.hasPts = true → r.hasPts = true
  disposed : r.hasPts = true → r'.hasPts = false → clean j = .disposed
  keep : r.bounds.isEmpty = false → r'.bounds = r.bounds ∧ r'.path = r.path ∧ r'.hasPts = r.hasPts
  fill : r.bounds.isEmpty = true → r'.bounds.isEmpty = false →
    r'.hasPts = true ∧ clean j = .path r'.path ∧ r'.bounds = getBounds r'.path

theorem RecStep.refl (clean : Nat → CleanRes) (j : Nat) (r : OutRec) : RecStep clean j r r :=
  ⟨rfl, rfl, id, fun h1 h2 => by simp [h1] at h2, fun _ => ⟨rfl, rfl, rfl⟩, fun h1 h2 => by simp [h1] at h2⟩

theorem RecStep.of_eq {clean : Nat → CleanRes} {j : Nat} {r r' : OutRec} (h1 : r'.splits = r.splits)
    (h2 : r'.isOpen = r.isOpen) (h3 : r'.hasPts = r.hasPts) (h4 : r'.bounds = r.bounds) (h5 : r'.path = r.path) :
    RecStep clean j r r' :=
  ⟨h1, h2, fun h => h3 ▸ h, fun a b => by rw [h3, a] at b; simp at b, fun _ => ⟨h4, h5, h3⟩,
    fun a b => by rw [h4, a] at b; simp at b⟩

theorem RecStep.trans {clean : Nat → CleanRes} {j : Nat} {a b c : OutRec}
    (h1 : RecStep clean j a b) (h2 : RecStep clean j b c) : RecStep clean j a c := by
  refine ⟨h2.splits.trans h1.splits, h2.isOpen.trans h1.isOpen, fun h => h1.hasPts_mono (h2.hasPts_mono h), ?_, ?_, ?_⟩
  · intro ha hc
    cases hb : b.hasPts with
    | true => exact h2.disposed hb hc
    | false => exact h1.disposed ha hb
  · intro ha
    obtain ⟨e1, e2, e3⟩ := h1.keep ha
    obtain ⟨f1, f2, f3⟩ := h2.keep (e1 ▸ ha)
    exact ⟨f1.trans e1, f2.trans e2, f3.trans e3⟩
  · intro ha hc
    cases hb : b.bounds.isEmpty with
    | true => exact h2.fill hb hc
    | false =>
      obtain ⟨f1, f2, f3⟩ := h2.keep hb
      obtain ⟨g1, g2, g3⟩ := h1.fill ha hb
      exact ⟨f3 ▸ g1, f2 ▸ g2, by rw [f1, f2]; exact g3⟩

/-- frame relation between tables; `io` = the only outrec whose `owner` may have changed -/
def Step (clean : Nat → CleanRes) (io : Option Nat) (T T' : Table) : Prop :=
  T'.size = T.size ∧
  ∀ (j : Nat) (r : OutRec), T[j]? = some r →
    ∃ r' : OutRec, T'[j]? = some r' ∧ RecStep clean j r r' ∧ r'.polypath = r.polypath ∧
      (some j ≠ io → r'.owner = r.owner)

theorem Step.refl (clean : Nat → CleanRes) (io : Option Nat) (T : Table) : Step clean io T T :=
  ⟨rfl, fun j r h => ⟨r, h, RecStep.refl _ _ _, rfl, fun _ => rfl⟩⟩

theorem Step.trans {clean : Nat → CleanRes} {io : Option Nat} {A B C : Table}
    (h1 : Step clean io A B) (h2 : Step clean io B C) : Step clean io A C := by
  refine ⟨h2.1.trans h1.1, fun j r h => ?_⟩
  obtain ⟨r', hr', s1, p1, o1⟩ := h1.2 j r h
  obtain ⟨r'', hr'', s2, p2, o2⟩ := h2.2 j r' hr'
  exact ⟨r'', hr'', s1.trans s2, p2.trans p1, fun hne => (o2 hne).trans (o1 hne)⟩

theorem Step.weaken {clean : Nat → CleanRes} {io : Option Nat} {A B : Table}
    (h : Step clean none A B) : Step clean io A B := by
  refine ⟨h.1, fun j r hj => ?_⟩
  obtain ⟨r', hr', s1, p1, o1⟩ := h.2 j r hj
  exact ⟨r', hr', s1, p1, fun _ => o1 (by simp)⟩

/-- reverse lookup: a record of the later table comes from a record of the earlier one -/
theorem Step.back {clean : Nat → CleanRes} {io : Option Nat} {A B : Table} (h : Step clean io A B)
    {j : Nat} {r' : OutRec} (hj : B[j]? = some r') :
    ∃ r : OutRec, A[j]? = some r ∧ RecStep clean j r r' ∧ r'.polypath = r.polypath ∧
      (some j ≠ io → r'.owner = r.owner) := by
  have hlt : j < A.size := by
    have : j < B.size := by
      rcases Nat.lt_or_ge j B.size with h | h
      · exact h
      · simp [Array.getElem?_eq_none h] at hj
    rw [← h.1]; exact this
  have hA : A[j]? = some A[j] := by simp [hlt]
  obtain ⟨r'', hr'', s, p, o⟩ := h.2 j _ hA
  rw [hj] at hr''
  simp only [Option.some.injEq] at hr''
  subst hr''
  exact ⟨_, hA, s, p, o⟩

theorem Step.modify {clean : Nat → CleanRes} {io : Option Nat} {T : Table} {k : Nat} {g : OutRec → OutRec}
    (h : ∀ r : OutRec, T[k]? = some r →
      RecStep clean k r (g r) ∧ (g r).polypath = r.polypath ∧ (some k ≠ io → (g r).owner = r.owner)) :
    Step clean io T (T.modify k g) := by
  refine ⟨Array.size_modify, fun j r hj => ?_⟩
  rw [Array.getElem?_modify]
  by_cases hkj : k = j
  · subst hkj
    simp only [if_true, hj, Option.map_some]
    obtain ⟨a, b, c⟩ := h r hj
    exact ⟨_, rfl, a, b, c⟩
  · simp only [if_neg hkj, hj]
    exact ⟨r, rfl, RecStep.refl _ _ _, rfl, fun _ => rfl⟩

/-- `Step` together with preservation of acyclicity of the owner graph -/
def Good (clean : Nat → CleanRes) (io : Option Nat) (T T' : Table) : Prop :=
  Step clean io T T' ∧ (Acyclic T → Acyclic T')

theorem Good.refl (clean : Nat → CleanRes) (io : Option Nat) (T : Table) : Good clean io T T :=
  ⟨Step.refl _ _ _, id⟩

theorem Good.trans {clean : Nat → CleanRes} {io : Option Nat} {A B C : Table}
    (h1 : Good clean io A B) (h2 : Good clean io B C) : Good clean io A C :=
  ⟨h1.1.trans h2.1, fun h => h2.2 (h1.2 h)⟩

theorem Good.weaken {clean : Nat → CleanRes} {io : Option Nat} {A B : Table}
    (h : Good clean none A B) : Good clean io A B := ⟨h.1.weaken, h.2⟩

/-- a modification that does not touch `owner` / `polypath` -/
theorem Good.modify_static {clean : Nat → CleanRes} {T : Table} {k : Nat} {g : OutRec → OutRec}
    (h : ∀ r : OutRec, T[k]? = some r → RecStep clean k r (g r) ∧ (g r).polypath = r.polypath ∧ (g r).owner = r.owner) :
    Good clean none T (T.modify k g) := by
  refine ⟨Step.modify (fun r hr => ⟨(h r hr).1, (h r hr).2.1, fun _ => (h r hr).2.2⟩), fun hA => ?_⟩
  refine hA.of_same_owner (fun j r' hj => ?_)
  obtain ⟨r, hr, e⟩ := getElem?_modify_some hj
  refine ⟨r, hr, ?_⟩
  by_cases hkj : k = j
  · subst hkj; simp only [if_true] at e; rw [e]; exact ((h r hr).2.2).symm
  · simp only [if_neg hkj] at e; rw [e]

/-! ### `checkBounds` -/

theorem checkBounds_good {clean : Nat → CleanRes} {T T' : Table} {i : Nat} {b : Bool}
    (h : checkBounds clean T i = some (T', b)) : Good clean none T T' := by
  simp only [checkBounds] at h
  split at h
  · simp at h
  · rename_i r hr
    split at h
    · simp only [Option.some.injEq, Prod.mk.injEq] at h; rw [← h.1]; exact Good.refl _ _ _
    · split at h
      · simp only [Option.some.injEq, Prod.mk.injEq] at h; rw [← h.1]; exact Good.refl _ _ _
      · rename_i hpts hemp
        simp only [Bool.not_eq_true', Bool.not_eq_false] at hpts hemp
        split at h
        · rename_i hc
          simp only [Option.some.injEq, Prod.mk.injEq] at h; rw [← h.1]
          refine Good.modify_static (fun r' hr' => ⟨?_, rfl, rfl⟩)
          rw [hr] at hr'; simp only [Option.some.injEq] at hr'; subst hr'
          refine ⟨rfl, rfl, fun h => by simp at h, fun _ _ => hc, fun h => by simp [hemp] at h, fun _ h => by simp [hemp] at h⟩
        · simp only [Option.some.injEq, Prod.mk.injEq] at h; rw [← h.1]; exact Good.refl _ _ _
        · rename_i p hc
          simp only [Option.some.injEq, Prod.mk.injEq] at h; rw [← h.1]
          refine Good.modify_static (fun r' hr' => ⟨?_, rfl, rfl⟩)
          rw [hr] at hr'; simp only [Option.some.injEq] at hr'; subst hr'
          refine ⟨rfl, rfl, fun _ => by simpa using hpts, fun _ h => by simp [hpts] at h, fun h => by simp [hemp] at h,
            fun _ _ => ⟨by simpa using hpts, hc, rfl⟩⟩

/-- when `CheckBounds` answers true the outrec has points -/
theorem checkBounds_true {clean : Nat → CleanRes} {T T' : Table} {i : Nat}
    (h : checkBounds clean T i = some (T', true)) : ∃ r' : OutRec, T'[i]? = some r' ∧ r'.hasPts = true := by
  simp only [checkBounds] at h
  split at h
  · simp at h
  · rename_i r hr
    split at h
    · simp at h
    · rename_i hpts
      simp only [Bool.not_eq_true', Bool.not_eq_false] at hpts
      split at h
      · simp only [Option.some.injEq, Prod.mk.injEq, and_true] at h; subst h; exact ⟨r, hr, hpts⟩
      · split at h
        · simp at h
        · simp at h
        · simp only [Option.some.injEq, Prod.mk.injEq, and_true] at h; subst h
          rw [Array.getElem?_modify]; simp only [if_true, hr, Option.map_some]
          exact ⟨_, rfl, hpts⟩


/-! ### `checkSplitOwner` -/

/-- the containment test that justified the current `outrec->owner` -/
def OwnerOK (inside : Nat → Nat → Bool) (T : Table) (i : Nat) : Prop :=
  ∃ (ri : OutRec) (s : Nat) (rs : OutRec), T[i]? = some ri ∧ ri.owner = some s ∧ T[s]? = some rs ∧
    rs.bounds.contains ri.bounds = true ∧ inside i s = true

def CsoSpec (clean : Nat → CleanRes) (inside : Nat → Nat → Bool) (i : Nat) (T T' : Table) (b : Bool) : Prop :=
  (b = false → Good clean none T T') ∧ (b = true → Good clean (some i) T T' ∧ OwnerOK inside T' i)

theorem CsoSpec.pre {clean : Nat → CleanRes} {inside : Nat → Nat → Bool} {i : Nat} {T T1 T' : Table} {b : Bool}
    (h1 : Good clean none T T1) (h2 : CsoSpec clean inside i T1 T' b) : CsoSpec clean inside i T T' b :=
  ⟨fun hb => h1.trans (h2.1 hb), fun hb => ⟨h1.weaken.trans (h2.2 hb).1, (h2.2 hb).2⟩⟩

/-- last part of the loop body of `CheckSplitOwner`: the `else if (CheckBounds(split) && …)` -/
def csoFinal (clean : Nat → CleanRes) (inside : Nat → Nat → Bool) (f : Nat) (T3 : Table) (i s' : Nat)
    (rest : List Nat) : Option (Table × Bool) :=
  match checkBounds clean T3 s' with
  | none => none
  | some (T4, false) => checkSplitOwner clean inside f T4 i rest
  | some (T4, true) =>
    match isValidOwner T4 (T4.size + 1) i (some s'), T4[s']?, T4[i]? with
    | some valid, some sr4, some ir4 =>
      if valid && sr4.bounds.contains ir4.bounds && inside i s' then
        some (T4.modify i (fun x => { x with owner := some s' }), true)
      else checkSplitOwner clean inside f T4 i rest
    | _, _, _ => none

/-- the loop body of `CheckSplitOwner` after the `//#942` line -/
def csoRest (clean : Nat → CleanRes) (inside : Nat → Nat → Bool) (f : Nat) (T1 : Table) (i s : Nat)
    (rest : List Nat) : Option (Table × Bool) :=
  match getRealOutRec T1 (T1.size + 1) (some s) with
  | none => none
  | some none => checkSplitOwner clean inside f T1 i rest
  | some (some s') =>
    match T1[s']? with
    | none => none
    | some sr' =>
      if s' = i || sr'.recursiveSplit = some i then checkSplitOwner clean inside f T1 i rest
      else
        match (if !sr'.splits.isEmpty then
                checkSplitOwner clean inside f (T1.modify s' (fun x => { x with recursiveSplit := some i })) i sr'.splits
              else some (T1.modify s' (fun x => { x with recursiveSplit := some i }), false)) with
        | none => none
        | some (T3, true) => some (T3, true)
        | some (T3, false) => csoFinal clean inside f T3 i s' rest

theorem cso_unfold (clean : Nat → CleanRes) (inside : Nat → Nat → Bool) (f : Nat) (T : Table) (i s : Nat)
    (rest : List Nat) :
    checkSplitOwner clean inside (f + 1) T i (s :: rest) =
      match T[s]? with
      | none => none
      | some sr =>
        match (if !sr.hasPts && !sr.splits.isEmpty then checkSplitOwner clean inside f T i sr.splits
               else some (T, false)) with
        | none => none
        | some (T1, true) => some (T1, true)
        | some (T1, false) => csoRest clean inside f T1 i s rest := by
  rw [checkSplitOwner]; rfl


theorem getElem?_lt {T : Table} {j : Nat} {r : OutRec} (h : T[j]? = some r) : j < T.size := by
  rcases Nat.lt_or_ge j T.size with h' | h'
  · exact h'
  · simp [Array.getElem?_eq_none h'] at h

theorem csoFinal_spec {clean : Nat → CleanRes} {inside : Nat → Nat → Bool} {f i : Nat}
    (IH : ∀ (T : Table) (L : List Nat) (T' : Table) (b : Bool),
      checkSplitOwner clean inside f T i L = some (T', b) → CsoSpec clean inside i T T' b)
    {T3 T' : Table} {s' : Nat} {rest : List Nat} {b : Bool}
    (h : csoFinal clean inside f T3 i s' rest = some (T', b)) : CsoSpec clean inside i T3 T' b := by
  unfold csoFinal at h
  cases hcb : checkBounds clean T3 s' with
  | none => simp [hcb] at h
  | some p =>
    obtain ⟨T4, b4⟩ := p
    have hg := checkBounds_good hcb
    rw [hcb] at h
    cases b4 with
    | false => exact CsoSpec.pre hg (IH _ _ _ _ h)
    | true =>
      simp only at h
      split at h
      · rename_i valid sr4 ir4 hv hs4 hi4
        split at h
        · rename_i hcond
          simp only [Bool.and_eq_true] at hcond
          obtain ⟨⟨hval, hcont⟩, hins⟩ := hcond
          subst hval
          simp only [Option.some.injEq, Prod.mk.injEq] at h
          obtain ⟨rfl, rfl⟩ := h
          have hnr := isValidOwner_true hv s' rfl
          have hne : i ≠ s' := fun e => hnr (e ▸ Reach.refl _)
          refine CsoSpec.pre hg ⟨fun hb => by simp at hb, fun _ => ⟨⟨?_, fun hA => hA.set_valid hnr⟩, ?_⟩⟩
          · exact Step.modify (fun r _ => ⟨RecStep.of_eq rfl rfl rfl rfl rfl, rfl, fun hne => absurd rfl hne⟩)
          · refine ⟨{ ir4 with owner := some s' }, s', sr4, ?_, rfl, ?_, hcont, hins⟩
            · rw [Array.getElem?_modify]; simp only [if_true, hi4, Option.map_some]
            · rw [Array.getElem?_modify]; simp only [if_neg hne, hs4]
        · exact CsoSpec.pre hg (IH _ _ _ _ h)
      · simp at h

theorem csoRest_spec {clean : Nat → CleanRes} {inside : Nat → Nat → Bool} {f i : Nat}
    (IH : ∀ (T : Table) (L : List Nat) (T' : Table) (b : Bool),
      checkSplitOwner clean inside f T i L = some (T', b) → CsoSpec clean inside i T T' b)
    {T1 T' : Table} {s : Nat} {rest : List Nat} {b : Bool}
    (h : csoRest clean inside f T1 i s rest = some (T', b)) : CsoSpec clean inside i T1 T' b := by
  unfold csoRest at h
  split at h
  · simp at h
  · exact IH _ _ _ _ h
  · rename_i s' hgr
    split at h
    · simp at h
    · rename_i sr' hsr'
      split at h
      · exact IH _ _ _ _ h
      · have hg2 : Good clean none T1 (T1.modify s' (fun x => { x with recursiveSplit := some i })) :=
          Good.modify_static (fun r _ => ⟨RecStep.of_eq rfl rfl rfl rfl rfl, rfl, rfl⟩)
        by_cases hc : (!sr'.splits.isEmpty) = true
        · simp only [hc, if_true] at h
          cases hr2 : checkSplitOwner clean inside f (T1.modify s' (fun x => { x with recursiveSplit := some i })) i sr'.splits with
          | none => simp [hr2] at h
          | some p =>
            obtain ⟨T3, b3⟩ := p
            rw [hr2] at h
            have h3 := IH _ _ _ _ hr2
            cases b3 with
            | true =>
              simp only [Option.some.injEq, Prod.mk.injEq] at h
              obtain ⟨rfl, rfl⟩ := h
              exact CsoSpec.pre hg2 h3
            | false =>
              simp only at h
              exact CsoSpec.pre (hg2.trans (h3.1 rfl)) (csoFinal_spec IH h)
        · simp only [hc, if_false] at h
          exact CsoSpec.pre hg2 (csoFinal_spec IH h)

theorem checkSplitOwner_spec {clean : Nat → CleanRes} {inside : Nat → Nat → Bool} {i : Nat} :
    ∀ (f : Nat) (T : Table) (L : List Nat) (T' : Table) (b : Bool),
      checkSplitOwner clean inside f T i L = some (T', b) → CsoSpec clean inside i T T' b := by
  intro f
  induction f with
  | zero => intro T L T' b h; simp [checkSplitOwner] at h
  | succ f IH =>
    intro T L T' b h
    cases L with
    | nil =>
      simp only [checkSplitOwner, Option.some.injEq, Prod.mk.injEq] at h
      obtain ⟨rfl, rfl⟩ := h
      exact ⟨fun _ => Good.refl _ _ _, fun hb => by simp at hb⟩
    | cons s rest =>
      rw [cso_unfold] at h
      split at h
      · simp at h
      · rename_i sr hsr
        by_cases hc : (!sr.hasPts && !sr.splits.isEmpty) = true
        · simp only [hc, if_true] at h
          cases hr1 : checkSplitOwner clean inside f T i sr.splits with
          | none => simp [hr1] at h
          | some p =>
            obtain ⟨T1, b1⟩ := p
            rw [hr1] at h
            have h1 := IH _ _ _ _ hr1
            cases b1 with
            | true =>
              simp only [Option.some.injEq, Prod.mk.injEq] at h
              obtain ⟨rfl, rfl⟩ := h
              exact h1
            | false =>
              simp only at h
              exact CsoSpec.pre (h1.1 rfl) (csoRest_spec IH h)
        · simp only [hc, if_false] at h
          exact csoRest_spec IH h


/-! ### `ownerLoop` -/

def olNext (clean : Nat → CleanRes) (inside : Nat → Nat → Bool) (f : Nat) (T' : Table) (i o : Nat) : Option Table :=
  match T'[o]? with
  | none => none
  | some orc' => ownerLoop clean inside f (T'.modify i (fun x => { x with owner := orc'.owner })) i

def olRest (clean : Nat → CleanRes) (inside : Nat → Nat → Bool) (f : Nat) (T1 : Table) (i o : Nat) : Option Table :=
  match T1[o]? with
  | none => none
  | some orc1 =>
    if !orc1.hasPts then olNext clean inside f T1 i o
    else match checkBounds clean T1 o with
      | none => none
      | some (T2, false) => olNext clean inside f T2 i o
      | some (T2, true) =>
        match T2[o]?, T2[i]? with
        | some orc2, some ir2 =>
          if orc2.bounds.contains ir2.bounds && inside i o then some T2 else olNext clean inside f T2 i o
        | _, _ => none

theorem ol_unfold (clean : Nat → CleanRes) (inside : Nat → Nat → Bool) (f : Nat) (T : Table) (i : Nat) :
    ownerLoop clean inside (f + 1) T i =
      match T[i]? with
      | none => none
      | some r =>
        match r.owner with
        | none => some T
        | some o =>
          match T[o]? with
          | none => none
          | some orc =>
            match (if !orc.splits.isEmpty then checkSplitOwner clean inside f T i orc.splits
                   else some (T, false)) with
            | none => none
            | some (T1, true) => some T1
            | some (T1, false) => olRest clean inside f T1 i o := by
  rw [ownerLoop]; rfl

def OlSpec (clean : Nat → CleanRes) (inside : Nat → Nat → Bool) (i : Nat) (T T' : Table) : Prop :=
  Good clean (some i) T T' ∧ ((∃ ri : OutRec, T'[i]? = some ri ∧ ri.owner = none) ∨ OwnerOK inside T' i)

theorem OlSpec.pre {clean : Nat → CleanRes} {inside : Nat → Nat → Bool} {i : Nat} {T T1 T' : Table}
    (h1 : Good clean (some i) T T1) (h2 : OlSpec clean inside i T1 T') : OlSpec clean inside i T T' :=
  ⟨h1.trans h2.1, h2.2⟩

theorem olNext_spec {clean : Nat → CleanRes} {inside : Nat → Nat → Bool} {f i : Nat}
    (IH : ∀ (T R : Table), ownerLoop clean inside f T i = some R → OlSpec clean inside i T R)
    {T' R : Table} {o : Nat} {ri : OutRec} (h : olNext clean inside f T' i o = some R)
    (hi : T'[i]? = some ri) (hio : ri.owner = some o) : OlSpec clean inside i T' R := by
  unfold olNext at h
  split at h
  · simp at h
  · rename_i orc' ho
    refine OlSpec.pre ⟨?_, fun hA => hA.skip_owner hi hio ho⟩ (IH _ _ h)
    exact Step.modify (fun r _ => ⟨RecStep.of_eq rfl rfl rfl rfl rfl, rfl, fun hne => absurd rfl hne⟩)

theorem olRest_spec {clean : Nat → CleanRes} {inside : Nat → Nat → Bool} {f i : Nat}
    (IH : ∀ (T R : Table), ownerLoop clean inside f T i = some R → OlSpec clean inside i T R)
    {T1 R : Table} {o : Nat} {ri : OutRec} (h : olRest clean inside f T1 i o = some R)
    (hi : T1[i]? = some ri) (hio : ri.owner = some o) : OlSpec clean inside i T1 R := by
  unfold olRest at h
  split at h
  · simp at h
  · rename_i orc1 ho1
    split at h
    · exact olNext_spec IH h hi hio
    · cases hcb : checkBounds clean T1 o with
      | none => simp [hcb] at h
      | some p =>
        obtain ⟨T2, b2⟩ := p
        have hg := checkBounds_good hcb
        rw [hcb] at h
        obtain ⟨ri2, hi2, _, _, hown⟩ := hg.1.2 i ri hi
        have hio2 : ri2.owner = some o := (hown (by simp)).trans hio
        cases b2 with
        | false => exact OlSpec.pre hg.weaken (olNext_spec IH h hi2 hio2)
        | true =>
          simp only at h
          split at h
          · rename_i orc2 ir2 ho2 hir2
            split at h
            · rename_i hcond
              simp only [Bool.and_eq_true] at hcond
              simp only [Option.some.injEq] at h
              subst h
              rw [hi2] at hir2
              simp only [Option.some.injEq] at hir2
              subst hir2
              exact ⟨hg.weaken, Or.inr ⟨ri2, o, orc2, hi2, hio2, ho2, hcond.1, hcond.2⟩⟩
            · exact OlSpec.pre hg.weaken (olNext_spec IH h hi2 hio2)
          · simp at h

theorem ownerLoop_spec {clean : Nat → CleanRes} {inside : Nat → Nat → Bool} {i : Nat} :
    ∀ (f : Nat) (T R : Table), ownerLoop clean inside f T i = some R → OlSpec clean inside i T R := by
  intro f
  induction f with
  | zero => intro T R h; simp [ownerLoop] at h
  | succ f IH =>
    intro T R h
    rw [ol_unfold] at h
    split at h
    · simp at h
    · rename_i r hr
      split at h
      · rename_i hown
        simp only [Option.some.injEq] at h
        subst h
        exact ⟨Good.refl _ _ _, Or.inl ⟨r, hr, hown⟩⟩
      · rename_i o hown
        split at h
        · simp at h
        · rename_i orc horc
          by_cases hc : (!orc.splits.isEmpty) = true
          · simp only [hc, if_true] at h
            cases hr1 : checkSplitOwner clean inside f T i orc.splits with
            | none => simp [hr1] at h
            | some p =>
              obtain ⟨T1, b1⟩ := p
              rw [hr1] at h
              have h1 := checkSplitOwner_spec _ _ _ _ _ hr1
              cases b1 with
              | true =>
                simp only [Option.some.injEq] at h
                subst h
                exact ⟨(h1.2 rfl).1, Or.inr (h1.2 rfl).2⟩
              | false =>
                simp only at h
                have hg := h1.1 rfl
                obtain ⟨ri1, hi1, _, _, hown1⟩ := hg.1.2 i r hr
                exact OlSpec.pre hg.weaken (olRest_spec IH h hi1 ((hown1 (by simp)).trans hown))
          · simp only [hc, if_false] at h
            exact olRest_spec IH h hr hown

end Clipper.Model.Owner
