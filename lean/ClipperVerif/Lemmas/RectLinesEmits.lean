/-
C09 `lines_cover`: from the loop to the whole of `RectClipLines64::ExecuteInternal` (model `emits`), including the
special treatment of a first vertex on the rectangle boundary.  Core Lean only.
-/
import ClipperVerif.Lemmas.RectLinesLoop
namespace Clipper.Lemmas.RLV
open Clipper Clipper.Model.RC Clipper.Lemmas.RC Clipper.Lemmas.RCE Clipper.Lemmas.RCA Clipper.Lemmas.RLC
open Clipper.Lemmas.RLG

theorem find_skip (c : Pt → Bool) (l : List Pt) : l[(l.takeWhile c).length]? = l.find? (fun q => !c q) := by
  induction l with
  | nil => simp
  | cons a l ih =>
    rw [List.takeWhile_cons, List.find?_cons]
    cases hc : c a
    · simp
    · simpa using ih

theorem sin_of_region {r : Rect} {p : Pt} (hb : ¬ OnBoundary r p) (h : region r p = .inside) : SIn r p := by
  unfold SIn
  unfold OnBoundary at hb
  revert h
  unfold region
  repeat' split
  all_goals simp
  all_goals omega

theorem region_of_sin {r : Rect} {p : Pt} (h : SIn r p) : region r p = .inside := by
  unfold SIn at h
  unfold region
  rw [if_neg (by omega), if_neg (by omega), if_neg (by omega), if_neg (by omega)]

theorem not_onBoundary_of_sin {r : Rect} {p : Pt} (h : SIn r p) : ¬ OnBoundary r p := by
  unfold SIn at h; unfold OnBoundary; omega

theorem sideOf_ne_inside (r : Rect) (p : Pt) : sideOf r p ≠ .inside := by
  unfold sideOf
  repeat' split
  all_goals simp

theorem vertexEmits_indexFrom_cons (k : Nat) (p : Pt) (l : List Pt) :
    vertexEmits (indexFrom k (p :: l)) = V k p :: vertexEmits (indexFrom (k + 1) l) := by
  simp [vertexEmits, indexFrom, V]

/-- **The run of `ExecuteInternal` on a polyline of at least two vertices is exactly the one `Cover` describes.** -/
theorem emits_cover {A : Arith} (hA : SignExact A) (ht : IsectTotal A) {r : Rect} (hw : r.left < r.right)
    (hh : r.top < r.bottom) (path : Path) (hlen : 2 ≤ path.length) :
    ∃ es, emits A r path = some es ∧ Cover A r path es := by
  have hne : r.isEmpty = false := by
    unfold Rect.isEmpty
    simp only [Bool.or_eq_false_iff, decide_eq_false_iff_not]; omega
  obtain ⟨es, he, _⟩ := emits_spec A r path hne
  refine ⟨es, he, ?_⟩
  have hP := loop_cover hA ht hw hh path (2 * path.length + 2)
  unfold emits at he
  rw [hne] at he
  have hl2 : ¬ path.length < 2 := by omega
  simp only [Bool.false_or, decide_eq_true_eq, hl2, if_false] at he
  match path, hlen, he, hP with
  | p0 :: rest, hlen, he, hP =>
    simp only at he
    unfold Cover CoverP
    simp only
    show ∃ e2, es = (if cls0 r (p0 :: rest) = true then [V 0 p0] else []) ++ e2 ∧
      Tail A r 1 (cls0 r (p0 :: rest)) (p0 :: rest) e2
    cases hg : getLocation r p0 with
    | mk notOn loc0 =>
      rw [hg] at he
      simp only at he
      have hready : Ready r loc0 p0 := by
        have := getLocation_ready r p0 .inside
        rw [hg] at this; exact this
      cases notOn with
      | true =>
        simp only [Bool.not_true, Bool.false_eq_true, if_false] at he
        obtain ⟨es2, h2, rfl⟩ := map_append_some he
        have hq := hP 1 loc0 es2 (Nat.le_refl 1) h2
        have hnb : ¬ OnBoundary r p0 := by
          intro hb
          have := (getLocation_fst r p0 .inside).mpr hb
          rw [hg] at this; cases this
        have hreg : loc0 = region r p0 := by
          have := getLocation_snd_true r p0 .inside (by rw [hg])
          rw [hg] at this; exact this
        have hob : onBd r p0 = false := by unfold onBd; rw [hg]; rfl
        by_cases hl : loc0 = .inside
        · have hs : SIn r p0 := sin_of_region hnb (by rw [← hreg]; exact hl)
          have hcls : cls0 r (p0 :: rest) = true := by
            unfold cls0; simp [(sInB_iff r p0).mpr hs]
          rw [hcls]
          refine ⟨es2, by simp [hl, V], ?_⟩
          have hin : inRect r p0 = true := by rw [inRect_iff]; unfold SIn at hs; omega
          have := (hq.1 hl).1 p0 (by simp) hin
          simpa using this
        · have hns : sInB r p0 = false := by
            cases hs : sInB r p0
            · rfl
            · exact absurd (hreg.trans (region_of_sin ((sInB_iff r p0).mp hs))) hl
          have hcls : cls0 r (p0 :: rest) = false := by
            unfold cls0; simp [hns, hob]
          rw [hcls]
          refine ⟨es2, by simp [hl, V], ?_⟩
          have := (hq.2 hl).1 p0 (by simp) hready
          simpa using this
      | false =>
        simp only [Bool.not_false, if_true] at he
        have hb0 : OnBoundary r p0 := (getLocation_fst r p0 .inside).mp (by rw [hg])
        have hin0 : inRect r p0 = true := onBoundary_inRect hb0 hne
        have hob : onBd r p0 = true := by unfold onBd; rw [hg]; rfl
        have hns : sInB r p0 = false := by
          cases hs : sInB r p0
          · rfl
          · exact absurd hb0 (not_onBoundary_of_sin ((sInB_iff r p0).mp hs))
        have hloc0 : loc0 ≠ .inside := by
          have := getLocation_snd_false r p0 .inside (by rw [hg])
          rw [hg] at this; simp only at this
          rw [this]; exact sideOf_ne_inside r p0
        have hfind : (p0 :: rest)[skipWhile (fun p => !(getLocation r p).1) (p0 :: rest) 1]? =
            rest.find? (fun q => !onBd r q) := by
          unfold skipWhile
          simp only [List.drop_succ_cons, List.drop_zero]
          rw [Nat.add_comm, List.getElem?_cons_succ]
          exact find_skip (fun p => !(getLocation r p).1) rest
        rw [hfind] at he
        cases hq : rest.find? (fun q => !onBd r q) with
        | none =>
          rw [hq] at he
          simp only [Option.some.injEq] at he
          subst he
          have hcls : cls0 r (p0 :: rest) = true := by
            unfold cls0; simp [hns, hob, hq]
          rw [hcls]
          refine ⟨vertexEmits (indexFrom 1 rest), by simp [vertexEmits_indexFrom_cons], ?_⟩
          have hall : ∀ x ∈ rest, inRect r x = true := by
            intro x hx
            have := List.find?_eq_none.mp hq x hx
            simp only [onBd, Bool.not_not, Bool.not_eq_true] at this
            exact onBoundary_inRect ((getLocation_fst r x .inside).mp (by simpa using this)) hne
          have := tail_in_run A r rest.length 1 (p0 :: rest) []
            (by
              intro t q h1 _ hq'
              cases t with
              | zero => omega
              | succ t =>
                simp only [List.getElem?_cons_succ] at hq'
                exact hall q (List.mem_of_getElem? hq'))
            (by simp)
            (by rw [tail_short]; simp)
          simpa using this
        | some q =>
          rw [hq] at he
          simp only at he
          have hqnb : onBd r q = false := by
            have := List.find?_some hq
            simpa using this
          have hq1 : (getLocation r q).1 = true := by
            unfold onBd at hqnb; simpa using hqnb
          have hqreg : (getLocation r q).2 = region r q := getLocation_snd_true r q .inside hq1
          have hqnob : ¬ OnBoundary r q := by
            intro hb
            have := (getLocation_fst r q .inside).mpr hb
            rw [hq1] at this; cases this
          obtain ⟨es2, h2, rfl⟩ := map_append_some he
          by_cases hpi : (getLocation r q).2 = .inside
          · rw [if_pos hpi] at h2
            simp only [hpi, if_true]
            have hs : SIn r q := sin_of_region hqnob (by rw [← hqreg]; exact hpi)
            have hcls : cls0 r (p0 :: rest) = true := by
              unfold cls0; simp [hns, hob, hq, (sInB_iff r q).mpr hs]
            rw [hcls]
            refine ⟨es2, by simp [V], ?_⟩
            have hq' := hP 1 .inside es2 (Nat.le_refl 1) h2
            have := (hq'.1 rfl).1 p0 (by simp) hin0
            simpa using this
          · rw [if_neg hpi] at h2
            simp only [hpi, if_false, hloc0]
            have hnsq : sInB r q = false := by
              cases hs : sInB r q
              · rfl
              · exact absurd (hqreg.trans (region_of_sin ((sInB_iff r q).mp hs))) hpi
            have hcls : cls0 r (p0 :: rest) = false := by
              unfold cls0; simp [hns, hob, hq, hnsq]
            rw [hcls]
            refine ⟨es2, by simp [V], ?_⟩
            have hq' := hP 1 loc0 es2 (Nat.le_refl 1) h2
            have := (hq'.2 hloc0).1 p0 (by simp) hready
            simpa using this

end Clipper.Lemmas.RLV
