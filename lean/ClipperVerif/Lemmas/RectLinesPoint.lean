/-
Where the crossing points reported by `GetSegmentIntersection` / `GetIntersection` lie, for sign-exact arithmetic and
an *idealised* intersection-point routine (`IsectExact`: the point it returns for the segment at hand lies on both
lines): on the segment and on the rectangle boundary.  Core Lean only.
-/
import ClipperVerif.Lemmas.RectLinesSegGeo
namespace Clipper.Lemmas.RLV
open Clipper Clipper.Model.RC Clipper.Lemmas.RC Clipper.Lemmas.RCE Clipper.Lemmas.RLC Clipper.Lemmas.RLG

/-- `x` lies on the closed segment `a b`: collinear and within the bounding box -/
def OnSeg (a b x : Pt) : Prop :=
  crossZ a b x = 0 ∧ min a.x b.x ≤ x.x ∧ x.x ≤ max a.x b.x ∧ min a.y b.y ≤ x.y ∧ x.y ≤ max a.y b.y

/-- end points strictly on both sides of the line `c d` -/
def Str (a b c d : Pt) : Prop := crossZ a c d ≠ 0 ∧ crossZ b c d ≠ 0 ∧ (crossZ a c d > 0 ↔ ¬ crossZ b c d > 0)

/-- the point the intersection routine returns for `p1 p2` against `p3 p4` (if any) lies on both lines -/
def IsectOnLines (A : Arith) (p1 p2 p3 p4 : Pt) : Prop :=
  ∀ q, A.isect p1 p2 p3 p4 = some q → crossZ p1 p2 q = 0 ∧ crossZ p3 p4 q = 0

/-- Idealisation of `GetSegmentIntersectPt` for the segment `p1 p2` and the rectangle `r`: for every rectangle edge
that `p1 p2` properly crosses, the point returned lies on the line `p1 p2` and on the line of the edge.
(The real routine rounds to integers; an exact routine satisfies this whenever the intersection points with the
sides have integer coordinates.) -/
def IsectExact (A : Arith) (r : Rect) (p1 p2 : Pt) : Prop :=
  ∀ p3 p4, IsEdge r p3 p4 → Str p1 p2 p3 p4 → Str p3 p4 p1 p2 → IsectOnLines A p1 p2 p3 p4

theorem touch_snd (a b c : Pt) : ((if a = b ∨ a = c then (true, a) else (onSpan a b c, a) : Bool × Pt)).2 = a := by
  split <;> rfl

/-- which point `GetSegmentIntersection` returns when it succeeds -/
theorem segIntersection_point {A : Arith} (hA : SignExact A) (p1 p2 p3 p4 ip : Pt)
    (h : (segIntersection A p1 p2 p3 p4 ip).1 = true) :
    ((segIntersection A p1 p2 p3 p4 ip).2 = p1 ∧ crossZ p1 p3 p4 = 0 ∧
        (p1 = p3 ∨ p1 = p4 ∨ onSpan p1 p3 p4 = true)) ∨
    ((segIntersection A p1 p2 p3 p4 ip).2 = p2 ∧ crossZ p2 p3 p4 = 0 ∧
        (p2 = p3 ∨ p2 = p4 ∨ onSpan p2 p3 p4 = true)) ∨
    (Str p1 p2 p3 p4 ∧ (segIntersection A p1 p2 p3 p4 ip).2 = p3 ∧ crossZ p3 p1 p2 = 0) ∨
    (Str p1 p2 p3 p4 ∧ (segIntersection A p1 p2 p3 p4 ip).2 = p4 ∧ crossZ p4 p1 p2 = 0) ∨
    (Str p1 p2 p3 p4 ∧ Str p3 p4 p1 p2 ∧ A.isect p1 p2 p3 p4 = some (segIntersection A p1 p2 p3 p4 ip).2) := by
  have e1 := hA p1 p3 p4
  have e2 := hA p2 p3 p4
  have e3 := hA p3 p1 p2
  have e4 := hA p4 p1 p2
  unfold segIntersection at h ⊢
  simp only at h ⊢
  by_cases h1 : crossZ p1 p3 p4 = 0
  · rw [if_pos (e1.1.mpr h1)] at h ⊢
    by_cases h2 : crossZ p2 p3 p4 = 0
    · rw [if_pos (e2.1.mpr h2)] at h; exact absurd h (by simp)
    · rw [if_neg (fun hc => h2 (e2.1.mp hc))] at h ⊢
      rw [touch_iff] at h
      exact Or.inl ⟨touch_snd _ _ _, h1, h⟩
  · rw [if_neg (fun hc => h1 (e1.1.mp hc))] at h ⊢
    by_cases h2 : crossZ p2 p3 p4 = 0
    · rw [if_pos (e2.1.mpr h2)] at h ⊢
      rw [touch_iff] at h
      exact Or.inr (Or.inl ⟨touch_snd _ _ _, h2, h⟩)
    · rw [if_neg (fun hc => h2 (e2.1.mp hc))] at h ⊢
      by_cases hs : (crossZ p1 p3 p4 > 0 ↔ crossZ p2 p3 p4 > 0)
      · have hd : decide (A.cross p1 p3 p4 > 0) = decide (A.cross p2 p3 p4 > 0) := by
          rw [decide_eq_decide, e1.2, e2.2]; exact hs
        rw [if_pos hd] at h; exact absurd h (by simp)
      · have hd : ¬ (decide (A.cross p1 p3 p4 > 0) = decide (A.cross p2 p3 p4 > 0)) := by
          rw [decide_eq_decide, e1.2, e2.2]; exact hs
        rw [if_neg hd] at h ⊢
        have hstr : Str p1 p2 p3 p4 := ⟨h1, h2, by omega⟩
        by_cases h3 : crossZ p3 p1 p2 = 0
        · rw [if_pos (e3.1.mpr h3)] at h ⊢
          exact Or.inr (Or.inr (Or.inl ⟨hstr, touch_snd _ _ _, h3⟩))
        · rw [if_neg (fun hc => h3 (e3.1.mp hc))] at h ⊢
          by_cases h4 : crossZ p4 p1 p2 = 0
          · rw [if_pos (e4.1.mpr h4)] at h ⊢
            exact Or.inr (Or.inr (Or.inr (Or.inl ⟨hstr, touch_snd _ _ _, h4⟩)))
          · rw [if_neg (fun hc => h4 (e4.1.mp hc))] at h ⊢
            by_cases hs2 : (crossZ p3 p1 p2 > 0 ↔ crossZ p4 p1 p2 > 0)
            · have hd2 : decide (A.cross p3 p1 p2 > 0) = decide (A.cross p4 p1 p2 > 0) := by
                rw [decide_eq_decide, e3.2, e4.2]; exact hs2
              rw [if_pos hd2] at h; exact absurd h (by simp)
            · have hd2 : ¬ (decide (A.cross p3 p1 p2 > 0) = decide (A.cross p4 p1 p2 > 0)) := by
                rw [decide_eq_decide, e3.2, e4.2]; exact hs2
              rw [if_neg hd2] at h ⊢
              have hstr2 : Str p3 p4 p1 p2 := ⟨h3, h4, by omega⟩
              cases hi : A.isect p1 p2 p3 p4 with
              | none => rw [hi] at h; exact absurd h (by simp)
              | some q => exact Or.inr (Or.inr (Or.inr (Or.inr ⟨hstr, hstr2, rfl⟩)))

theorem onSeg_left (a b : Pt) : OnSeg a b a := by
  refine ⟨by simp only [crossZ]; grind, by omega, by omega, by omega, by omega⟩

theorem onSeg_right (a b : Pt) : OnSeg a b b := by
  refine ⟨by simp [crossZ], by omega, by omega, by omega, by omega⟩

/-- a point `(c, y)` on the line `p1 p2`, the segment strictly straddling `x = c`: it is on the segment -/
theorem onSeg_of_straddle_x {p1 p2 : Pt} {c y : Int}
    (hs : (0 < c - p1.x ∧ c - p1.x < p2.x - p1.x) ∨ (p2.x - p1.x < c - p1.x ∧ c - p1.x < 0))
    (hl : (c - p1.x) * (p2.y - p1.y) = (y - p1.y) * (p2.x - p1.x)) : OnSeg p1 p2 ⟨c, y⟩ := by
  have pb := prop_between hl hs
  refine ⟨by simp only [crossZ]; grind, by simp only; omega, by simp only; omega, ?_, ?_⟩
  · simp only
    rcases Int.lt_trichotomy (p2.y - p1.y) 0 with hd | hd | hd
    · have := pb.2 hd; omega
    · rw [hd] at hl; simp only [Int.mul_zero] at hl
      have : y - p1.y = 0 := by
        rcases Int.mul_eq_zero.mp hl.symm with h | h
        · exact h
        · omega
      omega
    · have := pb.1 hd; omega
  · simp only
    rcases Int.lt_trichotomy (p2.y - p1.y) 0 with hd | hd | hd
    · have := pb.2 hd; omega
    · rw [hd] at hl; simp only [Int.mul_zero] at hl
      have : y - p1.y = 0 := by
        rcases Int.mul_eq_zero.mp hl.symm with h | h
        · exact h
        · omega
      omega
    · have := pb.1 hd; omega

/-- the transposed statement -/
theorem onSeg_of_straddle_y {p1 p2 : Pt} {c x : Int}
    (hs : (0 < c - p1.y ∧ c - p1.y < p2.y - p1.y) ∨ (p2.y - p1.y < c - p1.y ∧ c - p1.y < 0))
    (hl : (c - p1.y) * (p2.x - p1.x) = (x - p1.x) * (p2.y - p1.y)) : OnSeg p1 p2 ⟨x, c⟩ := by
  have pb := prop_between hl hs
  refine ⟨by simp only [crossZ]; grind, ?_, ?_, by simp only; omega, by simp only; omega⟩
  · simp only
    rcases Int.lt_trichotomy (p2.x - p1.x) 0 with hd | hd | hd
    · have := pb.2 hd; omega
    · rw [hd] at hl; simp only [Int.mul_zero] at hl
      have : x - p1.x = 0 := by
        rcases Int.mul_eq_zero.mp hl.symm with h | h
        · exact h
        · omega
      omega
    · have := pb.1 hd; omega
  · simp only
    rcases Int.lt_trichotomy (p2.x - p1.x) 0 with hd | hd | hd
    · have := pb.2 hd; omega
    · rw [hd] at hl; simp only [Int.mul_zero] at hl
      have : x - p1.x = 0 := by
        rcases Int.mul_eq_zero.mp hl.symm with h | h
        · exact h
        · omega
      omega
    · have := pb.1 hd; omega

/-- `Y` strictly between `LO < HI` from the strictly opposite signs of `(Y - LO) * D` and `(Y - HI) * D` -/
theorem between_of_opposite {Y LO HI D g1 g2 : Int} (hlh : LO < HI) (e1 : g1 = (Y - LO) * D) (e2 : g2 = (Y - HI) * D)
    (n1 : g1 ≠ 0) (n2 : g2 ≠ 0) (ho : g1 > 0 ↔ ¬ g2 > 0) : LO < Y ∧ Y < HI := by
  subst e1 e2
  have hD : D ≠ 0 := by rintro rfl; simp at n1
  rcases Int.lt_trichotomy D 0 with hd | hd | hd
  · by_cases c1 : Y ≤ LO
    · have f1 := msgn (Y - LO) D
      have f2 := mnn (show Y - HI < 0 by omega) hd
      rcases Int.lt_or_eq_of_le c1 with c | c
      · have := mnn (show Y - LO < 0 by omega) hd; omega
      · rw [c] at n1; simp at n1
    · by_cases c2 : HI ≤ Y
      · have f1 := mpn (show 0 < Y - LO by omega) hd
        rcases Int.lt_or_eq_of_le c2 with c | c
        · have := mpn (show 0 < Y - HI by omega) hd; omega
        · rw [c] at n2; simp at n2
      · omega
  · exact absurd hd hD
  · by_cases c1 : Y ≤ LO
    · have f2 := mnp (show Y - HI < 0 by omega) hd
      rcases Int.lt_or_eq_of_le c1 with c | c
      · have := mnp (show Y - LO < 0 by omega) hd; omega
      · rw [c] at n1; simp at n1
    · by_cases c2 : HI ≤ Y
      · have f1 := mpp (show 0 < Y - LO by omega) hd
        rcases Int.lt_or_eq_of_le c2 with c | c
        · have := mpp (show 0 < Y - HI by omega) hd; omega
        · rw [c] at n2; simp at n2
      · omega

/-- **Vertical edge** `(c, lo) → (c, hi)`: the point `GetSegmentIntersection` returns lies on the segment and on the
edge. -/
theorem point_vertical {A : Arith} (hA : SignExact A) {p1 p2 : Pt} (c lo hi : Int)
    (hex : Str p1 p2 ⟨c, lo⟩ ⟨c, hi⟩ → Str ⟨c, lo⟩ ⟨c, hi⟩ p1 p2 → IsectOnLines A p1 p2 ⟨c, lo⟩ ⟨c, hi⟩)
    (hlh : lo < hi) (ip : Pt) (h : (segIntersection A p1 p2 ⟨c, lo⟩ ⟨c, hi⟩ ip).1 = true) :
    OnSeg p1 p2 (segIntersection A p1 p2 ⟨c, lo⟩ ⟨c, hi⟩ ip).2 ∧
    (segIntersection A p1 p2 ⟨c, lo⟩ ⟨c, hi⟩ ip).2.x = c ∧ lo ≤ (segIntersection A p1 p2 ⟨c, lo⟩ ⟨c, hi⟩ ip).2.y ∧
    (segIntersection A p1 p2 ⟨c, lo⟩ ⟨c, hi⟩ ip).2.y ≤ hi := by
  have r1 : crossZ p1 ⟨c, lo⟩ ⟨c, hi⟩ = (c - p1.x) * (hi - lo) := by simp only [crossZ]; grind
  have r2 : crossZ p2 ⟨c, lo⟩ ⟨c, hi⟩ = (c - p1.x - (p2.x - p1.x)) * (hi - lo) := by simp only [crossZ]; grind
  have r3 : crossZ ⟨c, lo⟩ p1 p2 = -((c - p1.x) * (p2.y - p1.y) - (lo - p1.y) * (p2.x - p1.x)) := by
    simp only [crossZ]; grind
  have r4 : crossZ ⟨c, hi⟩ p1 p2 = -((c - p1.x) * (p2.y - p1.y) - (hi - p1.y) * (p2.x - p1.x)) := by
    simp only [crossZ]; grind
  have s1 := mul_pos_sign (x := c - p1.x) (H := hi - lo) (by omega)
  have s2 := mul_pos_sign (x := c - p1.x - (p2.x - p1.x)) (H := hi - lo) (by omega)
  have hstrad : Str p1 p2 ⟨c, lo⟩ ⟨c, hi⟩ →
      (0 < c - p1.x ∧ c - p1.x < p2.x - p1.x) ∨ (p2.x - p1.x < c - p1.x ∧ c - p1.x < 0) := by
    rintro ⟨n1, n2, ho⟩; rw [r1] at n1 ho; rw [r2] at n2 ho; omega
  rcases segIntersection_point hA p1 p2 ⟨c, lo⟩ ⟨c, hi⟩ ip h with
    ⟨hx, z, hsp⟩ | ⟨hx, z, hsp⟩ | ⟨hstr, hx, z⟩ | ⟨hstr, hx, z⟩ | ⟨hstr, hstr2, hx⟩
  · rw [hx]
    have hc : c - p1.x = 0 := by rw [r1] at z; exact s1.1.mp z
    have := (span_vert p1 c lo hi hc hlh).mp hsp
    exact ⟨onSeg_left p1 p2, by omega, by omega, by omega⟩
  · rw [hx]
    have hc : c - p2.x = 0 := by rw [r2] at z; have := s2.1.mp z; omega
    have := (span_vert p2 c lo hi hc hlh).mp hsp
    exact ⟨onSeg_right p1 p2, by omega, by omega, by omega⟩
  · rw [hx]
    refine ⟨onSeg_of_straddle_x (hstrad hstr) (by rw [r3] at z; omega), rfl, by simp only; omega, by simp only; omega⟩
  · rw [hx]
    refine ⟨onSeg_of_straddle_x (hstrad hstr) (by rw [r4] at z; omega), rfl, by simp only; omega, by simp only; omega⟩
  · obtain ⟨l1, l2⟩ := hex hstr hstr2 _ hx
    generalize (segIntersection A p1 p2 ⟨c, lo⟩ ⟨c, hi⟩ ip).2 = q at *
    have hqx : q.x = c := by
      have e : crossZ ⟨c, lo⟩ ⟨c, hi⟩ q = -((q.x - c) * (hi - lo)) := by simp only [crossZ]; grind
      rw [e] at l2
      have := (mul_pos_sign (x := q.x - c) (H := hi - lo) (by omega)).1.mp (by omega)
      omega
    have hl : (c - p1.x) * (p2.y - p1.y) = (q.y - p1.y) * (p2.x - p1.x) := by
      have e : crossZ p1 p2 q = (p2.x - p1.x) * (q.y - p2.y) - (p2.y - p1.y) * (q.x - p2.x) := rfl
      rw [e, hqx] at l1
      have e2 : (p2.x - p1.x) * (q.y - p2.y) - (p2.y - p1.y) * (c - p2.x) =
          (q.y - p1.y) * (p2.x - p1.x) - (c - p1.x) * (p2.y - p1.y) := by grind
      omega
    have hq : q = ⟨c, q.y⟩ := by cases q; simp only at hqx; subst hqx; rfl
    have hon := onSeg_of_straddle_x (hstrad hstr) hl
    rw [← hq] at hon
    obtain ⟨n3, n4, ho⟩ := hstr2
    have m3 : (q.y - p1.y - (lo - p1.y)) * (p2.x - p1.x) =
        (q.y - p1.y) * (p2.x - p1.x) - (lo - p1.y) * (p2.x - p1.x) := Int.sub_mul ..
    have m4 : (q.y - p1.y - (hi - p1.y)) * (p2.x - p1.x) =
        (q.y - p1.y) * (p2.x - p1.x) - (hi - p1.y) * (p2.x - p1.x) := Int.sub_mul ..
    have e3 : -crossZ ⟨c, lo⟩ p1 p2 = (q.y - p1.y - (lo - p1.y)) * (p2.x - p1.x) := by
      rw [r3]; omega
    have e4 : -crossZ ⟨c, hi⟩ p1 p2 = (q.y - p1.y - (hi - p1.y)) * (p2.x - p1.x) := by
      rw [r4]; omega
    have := between_of_opposite (Y := q.y - p1.y) (LO := lo - p1.y) (HI := hi - p1.y) (D := p2.x - p1.x)
      (by omega) e3 e4 (by omega) (by omega) (by omega)
    exact ⟨hon, hqx, by omega, by omega⟩

/-- **Horizontal edge** `(lo, c) → (hi, c)` (`rectPath[0] → [1]`). -/
theorem point_horizontal {A : Arith} (hA : SignExact A) {p1 p2 : Pt} (c lo hi : Int)
    (hex : Str p1 p2 ⟨lo, c⟩ ⟨hi, c⟩ → Str ⟨lo, c⟩ ⟨hi, c⟩ p1 p2 → IsectOnLines A p1 p2 ⟨lo, c⟩ ⟨hi, c⟩)
    (hlh : lo < hi) (ip : Pt) (h : (segIntersection A p1 p2 ⟨lo, c⟩ ⟨hi, c⟩ ip).1 = true) :
    OnSeg p1 p2 (segIntersection A p1 p2 ⟨lo, c⟩ ⟨hi, c⟩ ip).2 ∧
    (segIntersection A p1 p2 ⟨lo, c⟩ ⟨hi, c⟩ ip).2.y = c ∧ lo ≤ (segIntersection A p1 p2 ⟨lo, c⟩ ⟨hi, c⟩ ip).2.x ∧
    (segIntersection A p1 p2 ⟨lo, c⟩ ⟨hi, c⟩ ip).2.x ≤ hi := by
  have r1 : crossZ p1 ⟨lo, c⟩ ⟨hi, c⟩ = -((c - p1.y) * (hi - lo)) := by simp only [crossZ]; grind
  have r2 : crossZ p2 ⟨lo, c⟩ ⟨hi, c⟩ = -((c - p1.y - (p2.y - p1.y)) * (hi - lo)) := by simp only [crossZ]; grind
  have r3 : crossZ ⟨lo, c⟩ p1 p2 = (c - p1.y) * (p2.x - p1.x) - (lo - p1.x) * (p2.y - p1.y) := by
    simp only [crossZ]; grind
  have r4 : crossZ ⟨hi, c⟩ p1 p2 = (c - p1.y) * (p2.x - p1.x) - (hi - p1.x) * (p2.y - p1.y) := by
    simp only [crossZ]; grind
  have s1 := mul_pos_sign (x := c - p1.y) (H := hi - lo) (by omega)
  have s2 := mul_pos_sign (x := c - p1.y - (p2.y - p1.y)) (H := hi - lo) (by omega)
  have hstrad : Str p1 p2 ⟨lo, c⟩ ⟨hi, c⟩ →
      (0 < c - p1.y ∧ c - p1.y < p2.y - p1.y) ∨ (p2.y - p1.y < c - p1.y ∧ c - p1.y < 0) := by
    rintro ⟨n1, n2, ho⟩; rw [r1] at n1 ho; rw [r2] at n2 ho; omega
  rcases segIntersection_point hA p1 p2 ⟨lo, c⟩ ⟨hi, c⟩ ip h with
    ⟨hx, z, hsp⟩ | ⟨hx, z, hsp⟩ | ⟨hstr, hx, z⟩ | ⟨hstr, hx, z⟩ | ⟨hstr, hstr2, hx⟩
  · rw [hx]
    have hc : c - p1.y = 0 := by rw [r1] at z; exact s1.1.mp (by omega)
    have := (span_horiz p1 c lo hi hc hlh).mp hsp
    exact ⟨onSeg_left p1 p2, by omega, by omega, by omega⟩
  · rw [hx]
    have hc : c - p2.y = 0 := by rw [r2] at z; have := s2.1.mp (by omega); omega
    have := (span_horiz p2 c lo hi hc hlh).mp hsp
    exact ⟨onSeg_right p1 p2, by omega, by omega, by omega⟩
  · rw [hx]
    refine ⟨onSeg_of_straddle_y (hstrad hstr) (by rw [r3] at z; omega), rfl, by simp only; omega, by simp only; omega⟩
  · rw [hx]
    refine ⟨onSeg_of_straddle_y (hstrad hstr) (by rw [r4] at z; omega), rfl, by simp only; omega, by simp only; omega⟩
  · obtain ⟨l1, l2⟩ := hex hstr hstr2 _ hx
    generalize (segIntersection A p1 p2 ⟨lo, c⟩ ⟨hi, c⟩ ip).2 = q at *
    have hqy : q.y = c := by
      have e : crossZ ⟨lo, c⟩ ⟨hi, c⟩ q = (q.y - c) * (hi - lo) := by simp only [crossZ]; grind
      rw [e] at l2
      have := (mul_pos_sign (x := q.y - c) (H := hi - lo) (by omega)).1.mp l2
      omega
    have hl : (c - p1.y) * (p2.x - p1.x) = (q.x - p1.x) * (p2.y - p1.y) := by
      have e : crossZ p1 p2 q = (p2.x - p1.x) * (q.y - p2.y) - (p2.y - p1.y) * (q.x - p2.x) := rfl
      rw [e, hqy] at l1
      have e2 : (p2.x - p1.x) * (c - p2.y) - (p2.y - p1.y) * (q.x - p2.x) =
          (c - p1.y) * (p2.x - p1.x) - (q.x - p1.x) * (p2.y - p1.y) := by grind
      omega
    have hq : q = ⟨q.x, c⟩ := by cases q; simp only at hqy; subst hqy; rfl
    have hon := onSeg_of_straddle_y (hstrad hstr) hl
    rw [← hq] at hon
    obtain ⟨n3, n4, ho⟩ := hstr2
    have m3 : (q.x - p1.x - (lo - p1.x)) * (p2.y - p1.y) =
        (q.x - p1.x) * (p2.y - p1.y) - (lo - p1.x) * (p2.y - p1.y) := Int.sub_mul ..
    have m4 : (q.x - p1.x - (hi - p1.x)) * (p2.y - p1.y) =
        (q.x - p1.x) * (p2.y - p1.y) - (hi - p1.x) * (p2.y - p1.y) := Int.sub_mul ..
    have e3 : crossZ ⟨lo, c⟩ p1 p2 = (q.x - p1.x - (lo - p1.x)) * (p2.y - p1.y) := by rw [r3]; omega
    have e4 : crossZ ⟨hi, c⟩ p1 p2 = (q.x - p1.x - (hi - p1.x)) * (p2.y - p1.y) := by rw [r4]; omega
    have := between_of_opposite (Y := q.x - p1.x) (LO := lo - p1.x) (HI := hi - p1.x) (D := p2.y - p1.y)
      (by omega) e3 e4 n3 n4 ho
    exact ⟨hon, hqy, by omega, by omega⟩

/-- **Horizontal edge** `(hi, c) → (lo, c)` (`rectPath[2] → [3]`). -/
theorem point_horizontal_rev {A : Arith} (hA : SignExact A) {p1 p2 : Pt} (c lo hi : Int)
    (hex : Str p1 p2 ⟨hi, c⟩ ⟨lo, c⟩ → Str ⟨hi, c⟩ ⟨lo, c⟩ p1 p2 → IsectOnLines A p1 p2 ⟨hi, c⟩ ⟨lo, c⟩)
    (hlh : lo < hi) (ip : Pt) (h : (segIntersection A p1 p2 ⟨hi, c⟩ ⟨lo, c⟩ ip).1 = true) :
    OnSeg p1 p2 (segIntersection A p1 p2 ⟨hi, c⟩ ⟨lo, c⟩ ip).2 ∧
    (segIntersection A p1 p2 ⟨hi, c⟩ ⟨lo, c⟩ ip).2.y = c ∧ lo ≤ (segIntersection A p1 p2 ⟨hi, c⟩ ⟨lo, c⟩ ip).2.x ∧
    (segIntersection A p1 p2 ⟨hi, c⟩ ⟨lo, c⟩ ip).2.x ≤ hi := by
  have r1 : crossZ p1 ⟨hi, c⟩ ⟨lo, c⟩ = (c - p1.y) * (hi - lo) := by simp only [crossZ]; grind
  have r2 : crossZ p2 ⟨hi, c⟩ ⟨lo, c⟩ = (c - p1.y - (p2.y - p1.y)) * (hi - lo) := by simp only [crossZ]; grind
  have r3 : crossZ ⟨hi, c⟩ p1 p2 = (c - p1.y) * (p2.x - p1.x) - (hi - p1.x) * (p2.y - p1.y) := by
    simp only [crossZ]; grind
  have r4 : crossZ ⟨lo, c⟩ p1 p2 = (c - p1.y) * (p2.x - p1.x) - (lo - p1.x) * (p2.y - p1.y) := by
    simp only [crossZ]; grind
  have s1 := mul_pos_sign (x := c - p1.y) (H := hi - lo) (by omega)
  have s2 := mul_pos_sign (x := c - p1.y - (p2.y - p1.y)) (H := hi - lo) (by omega)
  have hstrad : Str p1 p2 ⟨hi, c⟩ ⟨lo, c⟩ →
      (0 < c - p1.y ∧ c - p1.y < p2.y - p1.y) ∨ (p2.y - p1.y < c - p1.y ∧ c - p1.y < 0) := by
    rintro ⟨n1, n2, ho⟩; rw [r1] at n1 ho; rw [r2] at n2 ho; omega
  rcases segIntersection_point hA p1 p2 ⟨hi, c⟩ ⟨lo, c⟩ ip h with
    ⟨hx, z, hsp⟩ | ⟨hx, z, hsp⟩ | ⟨hstr, hx, z⟩ | ⟨hstr, hx, z⟩ | ⟨hstr, hstr2, hx⟩
  · rw [hx]
    have hc : c - p1.y = 0 := by rw [r1] at z; exact s1.1.mp z
    have := (span_horiz_rev p1 c lo hi hc hlh).mp hsp
    exact ⟨onSeg_left p1 p2, by omega, by omega, by omega⟩
  · rw [hx]
    have hc : c - p2.y = 0 := by rw [r2] at z; have := s2.1.mp z; omega
    have := (span_horiz_rev p2 c lo hi hc hlh).mp hsp
    exact ⟨onSeg_right p1 p2, by omega, by omega, by omega⟩
  · rw [hx]
    refine ⟨onSeg_of_straddle_y (hstrad hstr) (by rw [r3] at z; omega), rfl, by simp only; omega, by simp only; omega⟩
  · rw [hx]
    refine ⟨onSeg_of_straddle_y (hstrad hstr) (by rw [r4] at z; omega), rfl, by simp only; omega, by simp only; omega⟩
  · obtain ⟨l1, l2⟩ := hex hstr hstr2 _ hx
    generalize (segIntersection A p1 p2 ⟨hi, c⟩ ⟨lo, c⟩ ip).2 = q at *
    have hqy : q.y = c := by
      have e : crossZ ⟨hi, c⟩ ⟨lo, c⟩ q = -((q.y - c) * (hi - lo)) := by simp only [crossZ]; grind
      rw [e] at l2
      have := (mul_pos_sign (x := q.y - c) (H := hi - lo) (by omega)).1.mp (by omega)
      omega
    have hl : (c - p1.y) * (p2.x - p1.x) = (q.x - p1.x) * (p2.y - p1.y) := by
      have e : crossZ p1 p2 q = (p2.x - p1.x) * (q.y - p2.y) - (p2.y - p1.y) * (q.x - p2.x) := rfl
      rw [e, hqy] at l1
      have e2 : (p2.x - p1.x) * (c - p2.y) - (p2.y - p1.y) * (q.x - p2.x) =
          (c - p1.y) * (p2.x - p1.x) - (q.x - p1.x) * (p2.y - p1.y) := by grind
      omega
    have hq : q = ⟨q.x, c⟩ := by cases q; simp only at hqy; subst hqy; rfl
    have hon := onSeg_of_straddle_y (hstrad hstr) hl
    rw [← hq] at hon
    obtain ⟨n3, n4, ho⟩ := hstr2
    have m3 : (q.x - p1.x - (lo - p1.x)) * (p2.y - p1.y) =
        (q.x - p1.x) * (p2.y - p1.y) - (lo - p1.x) * (p2.y - p1.y) := Int.sub_mul ..
    have m4 : (q.x - p1.x - (hi - p1.x)) * (p2.y - p1.y) =
        (q.x - p1.x) * (p2.y - p1.y) - (hi - p1.x) * (p2.y - p1.y) := Int.sub_mul ..
    have e3 : crossZ ⟨lo, c⟩ p1 p2 = (q.x - p1.x - (lo - p1.x)) * (p2.y - p1.y) := by rw [r4]; omega
    have e4 : crossZ ⟨hi, c⟩ p1 p2 = (q.x - p1.x - (hi - p1.x)) * (p2.y - p1.y) := by rw [r3]; omega
    have := between_of_opposite (Y := q.x - p1.x) (LO := lo - p1.x) (HI := hi - p1.x) (D := p2.y - p1.y)
      (by omega) e3 e4 n4 n3 (by omega)
    exact ⟨hon, hqy, by omega, by omega⟩

/-- the point returned by a successful `GetSegmentIntersection` against a rectangle edge lies on the segment and on
the rectangle boundary -/
theorem segIntersection_onBoundary {A : Arith} (hA : SignExact A) {r : Rect} (hw : r.left < r.right)
    (hh : r.top < r.bottom) {p1 p2 p3 p4 : Pt} (hex : IsectExact A r p1 p2) (he : IsEdge r p3 p4) (ip : Pt)
    (h : (segIntersection A p1 p2 p3 p4 ip).1 = true) :
    OnSeg p1 p2 (segIntersection A p1 p2 p3 p4 ip).2 ∧ OnBoundary r (segIntersection A p1 p2 p3 p4 ip).2 := by
  have hex' := hex p3 p4 he
  unfold OnBoundary
  rcases he with ⟨rfl, rfl⟩ | ⟨rfl, rfl⟩ | ⟨rfl, rfl⟩ | ⟨rfl, rfl⟩
  · have := point_vertical hA r.left r.top r.bottom hex' hh ip h
    exact ⟨this.1, Or.inl ⟨Or.inl this.2.1, this.2.2.1, this.2.2.2⟩⟩
  · have := point_horizontal hA r.top r.left r.right hex' hw ip h
    exact ⟨this.1, Or.inr ⟨Or.inl this.2.1, this.2.2.1, this.2.2.2⟩⟩
  · have := point_vertical hA r.right r.top r.bottom hex' hh ip h
    exact ⟨this.1, Or.inl ⟨Or.inr this.2.1, this.2.2.1, this.2.2.2⟩⟩
  · have := point_horizontal_rev hA r.bottom r.left r.right hex' hw ip h
    exact ⟨this.1, Or.inr ⟨Or.inr this.2.1, this.2.2.1, this.2.2.2⟩⟩

theorem tryArms_onBoundary {A : Arith} (hA : SignExact A) {r : Rect} (hw : r.left < r.right)
    (hh : r.top < r.bottom) {p p2 : Pt} (hex : IsectExact A r p p2) (l : List Arm)
    (hl : ∀ arm ∈ l, IsEdge r arm.a arm.b) (loc : Location) (ip : Pt)
    (h : (tryArms A p p2 l loc ip).1 = true) :
    OnSeg p p2 (tryArms A p p2 l loc ip).2.2 ∧ OnBoundary r (tryArms A p p2 l loc ip).2.2 := by
  induction l generalizing ip with
  | nil => simp [tryArms] at h
  | cons arm rest ih =>
    have he := hl arm (by simp)
    have hrest : ∀ a ∈ rest, IsEdge r a.a a.b := fun a ha => hl a (by simp [ha])
    unfold tryArms at h ⊢
    split
    · rename_i hg
      rw [if_pos hg] at h
      simp only at h ⊢
      split
      · rename_i hs
        exact segIntersection_onBoundary hA hw hh hex he ip hs
      · rename_i hs
        rw [if_neg hs] at h
        exact ih hrest _ h
    · rename_i hg
      rw [if_neg hg] at h
      exact ih hrest _ h

/-- **Where a crossing point lies** (sign-exact arithmetic, idealised intersection-point routine): the point a
successful `GetIntersection(p, q, loc)` reports is on the closed segment `p q` and on the rectangle boundary. -/
theorem getIntersection_onBoundary {A : Arith} (hA : SignExact A) {r : Rect} (hw : r.left < r.right)
    (hh : r.top < r.bottom) {p q : Pt} (hex : IsectExact A r p q) (loc : Location) (ip : Pt)
    (h : (getIntersection A r p q loc ip).1 = true) :
    OnSeg p q (getIntersection A r p q loc ip).2.2 ∧ OnBoundary r (getIntersection A r p q loc ip).2.2 :=
  tryArms_onBoundary hA hw hh hex _ (arms_edges r p loc) loc ip h

theorem onSeg_symm {a b x : Pt} (h : OnSeg a b x) : OnSeg b a x := by
  obtain ⟨h1, h2, h3, h4, h5⟩ := h
  have e : crossZ b a x = -crossZ a b x := by simp only [crossZ]; grind
  exact ⟨by rw [e, h1]; rfl, by omega, by omega, by omega, by omega⟩

/-- the idealisation hypothesis for every segment of a polyline, in both directions -/
def IsectExactOn (A : Arith) (r : Rect) (path : Path) : Prop :=
  ∀ t prv cur, path[t]? = some prv → path[t + 1]? = some cur → IsectExact A r cur prv ∧ IsectExact A r prv cur

/-- every crossing point a segment contributes lies on that segment and on the rectangle boundary -/
theorem segPart_points {A : Arith} (hA : SignExact A) (ht : IsectTotal A) {r : Rect} (hw : r.left < r.right)
    (hh : r.top < r.bottom) {k : Nat} {prv cur : Pt} {ip ic : Bool} {es : List Emit}
    (hex1 : IsectExact A r cur prv) (hex2 : IsectExact A r prv cur) (h : SegPart A r k prv cur ip ic es) :
    ∀ e ∈ es, e.kind ≠ .vertex → OnSeg prv cur e.pt ∧ OnBoundary r e.pt := by
  cases ip <;> cases ic
  · rcases segPart_out_out hA ht hw hh h with ⟨rfl, _⟩ | ⟨_, loc, loc2, _, _, _, _, hf, hf2, rfl⟩
    · simp
    · intro e he _
      simp only [List.mem_cons, List.not_mem_nil, or_false] at he
      rcases he with rfl | rfl
      · exact getIntersection_onBoundary hA hw hh hex2 loc2 ⟨0, 0⟩ hf2
      · have := getIntersection_onBoundary hA hw hh hex1 loc ⟨0, 0⟩ hf
        exact ⟨onSeg_symm this.1, this.2⟩
  · simp only [SegPart] at h
    obtain ⟨hf, rfl⟩ := h
    intro e he hk
    simp only [List.mem_cons, List.not_mem_nil, or_false] at he
    rcases he with rfl | rfl
    · have := getIntersection_onBoundary hA hw hh hex1 .inside ⟨0, 0⟩ hf
      exact ⟨onSeg_symm this.1, this.2⟩
    · simp [V] at hk
  · simp only [SegPart] at h
    obtain ⟨loc, _, hf, rfl⟩ := h
    intro e he _
    simp only [List.mem_singleton] at he
    subst he
    have := getIntersection_onBoundary hA hw hh hex1 loc ⟨0, 0⟩ hf
    exact ⟨onSeg_symm this.1, this.2⟩
  · simp only [SegPart] at h
    subst h
    intro e he hk
    simp only [List.mem_singleton] at he
    subst he
    simp [V] at hk

/-- `tailP_mono` for an implication that is only available for consecutive vertices of a given polyline -/
theorem tailP_mono_adj {r : Rect} {Q Q' : SegDesc} (path : Path)
    (h : ∀ k prv cur ip ic es, (∃ t, path[t]? = some prv ∧ path[t + 1]? = some cur) →
      Q k prv cur ip ic es → Q' k prv cur ip ic es) :
    ∀ (l : List Pt) (j k : Nat) (ip : Bool) (es : List Emit), (∀ t x, l[t]? = some x → path[j + t]? = some x) →
      TailP r Q k ip l es → TailP r Q' k ip l es
  | [], _, _, _, _, _, ht => by simpa [TailP] using ht
  | [_], _, _, _, _, _, ht => by simpa [TailP] using ht
  | prv :: cur :: rest, j, k, ip, es, hl, ht => by
    unfold TailP at ht ⊢
    obtain ⟨e1, e2, he, h1, h2⟩ := ht
    refine ⟨e1, e2, he, h _ _ _ _ _ _ ⟨j, ?_, ?_⟩ h1,
      tailP_mono_adj path h (cur :: rest) (j + 1) (k + 1) _ e2 ?_ h2⟩
    · simpa using hl 0 prv (by simp)
    · simpa using hl 1 cur (by simp)
    · intro t x hx
      have := hl (t + 1) x (by simpa using hx)
      have e : j + 1 + t = j + (t + 1) := by omega
      rw [e]; exact this

theorem coverP_mono_adj {r : Rect} {Q Q' : SegDesc} {path : Path}
    (h : ∀ k prv cur ip ic es, (∃ t, path[t]? = some prv ∧ path[t + 1]? = some cur) →
      Q k prv cur ip ic es → Q' k prv cur ip ic es)
    {es : List Emit} (hc : CoverP r Q path es) : CoverP r Q' path es := by
  unfold CoverP at hc ⊢
  match path, h, hc with
  | [], _, hc => exact hc
  | p0 :: rest, h, hc =>
    obtain ⟨e2, he, ht⟩ := hc
    exact ⟨e2, he, tailP_mono_adj (p0 :: rest) h _ 0 _ _ _ (by intro t x hx; simpa using hx) ht⟩

/-! ### deciding the idealisation hypothesis on a concrete input -/

theorem strB_iff (a b c d : Pt) : strB a b c d = true ↔ Str a b c d := by
  unfold strB Str
  simp only [Bool.and_eq_true, decide_eq_true_eq, bne_iff_ne, ne_eq, decide_eq_decide]
  constructor
  · rintro ⟨⟨h1, h2⟩, h3⟩; exact ⟨h1, h2, by omega⟩
  · rintro ⟨h1, h2, h3⟩; exact ⟨⟨h1, h2⟩, by omega⟩

theorem isectOkB_sound {A : Arith} {p1 p2 a b : Pt} (h : isectOkB A p1 p2 a b = true) :
    Str p1 p2 a b → Str a b p1 p2 → IsectOnLines A p1 p2 a b := by
  intro h1 h2 q hq
  unfold isectOkB at h
  rw [if_pos (by simp [(strB_iff _ _ _ _).mpr h1, (strB_iff _ _ _ _).mpr h2]), hq] at h
  simpa using h

theorem zip_tail_getElem {path : Path} {t : Nat} {prv cur : Pt} (h1 : path[t]? = some prv)
    (h2 : path[t + 1]? = some cur) : (prv, cur) ∈ path.zip path.tail := by
  have : (path.zip path.tail)[t]? = some (prv, cur) := by
    rw [List.getElem?_zip_eq_some]
    exact ⟨h1, by rw [List.getElem?_tail]; exact h2⟩
  exact List.mem_of_getElem? this

theorem isectExactOnB_sound {A : Arith} {r : Rect} {path : Path} (h : isectExactOnB A r path = true) :
    IsectExactOn A r path := by
  intro t prv cur h1 h2
  unfold isectExactOnB at h
  rw [List.all_eq_true] at h
  have hs := h (prv, cur) (zip_tail_getElem h1 h2)
  rw [List.all_eq_true] at hs
  constructor
  · intro p3 p4 he
    have : (p3, p4) ∈ rectEdges r := by
      unfold rectEdges
      rcases he with ⟨rfl, rfl⟩ | ⟨rfl, rfl⟩ | ⟨rfl, rfl⟩ | ⟨rfl, rfl⟩ <;> simp
    have := hs _ this
    simp only [Bool.and_eq_true] at this
    exact isectOkB_sound this.1
  · intro p3 p4 he
    have : (p3, p4) ∈ rectEdges r := by
      unfold rectEdges
      rcases he with ⟨rfl, rfl⟩ | ⟨rfl, rfl⟩ | ⟨rfl, rfl⟩ | ⟨rfl, rfl⟩ <;> simp
    have := hs _ this
    simp only [Bool.and_eq_true] at this
    exact isectOkB_sound this.2

end Clipper.Lemmas.RLV
