import ClipperVerif.Lemmas.BuildIntersectList
import ClipperVerif.Lemmas.IntersectList
/-!
# From edge identities to ranks: connecting `BuildIntersectList` with the `ProcessIntersectList` loop model

`Model/IntersectList.lean` (`process`) names an edge by its *rank* in the order required at the top of the scanbeam, and
`Lemmas/IntersectList.process_ok` needs the node list to be a permutation of `invPairs` (the pairs out of rank order).
Here:
* `rankOf ael id` = position of the edge in the final SEL (= the stable sort of the AEL by `curr_x`);
* for `a` before `b` in the AEL: `rank b < rank a ↔ b.curr_x < a.curr_x` (`rank_order`): ties are *not* inversions of
  the ranks either, because the stable sort keeps tied edges in AEL order;
* hence `invPairs (ranks of the AEL) = inversions ael` renamed (`invPairs_ranks`);
* `process` commutes with any renaming that is injective on the edges present (`process_map`), so the statement proved
  on ranks transfers to the identities themselves.
Core Lean only.
-/
namespace Clipper.Lemmas.BuildIntersectList
open Clipper.Model.BuildIntersectList Clipper.Model.IntersectList Clipper.Lemmas.StableSort Clipper.Lemmas.Inversions

/-- the identities of a list of edges -/
def ids (l : List Edge) : List Nat := l.map (·.1)

/-! ## membership in `inversions`, no duplicates -/

theorem mem_row (a : Edge) (R : List Edge) (n : Node) : n ∈ row a R ↔ ∃ b ∈ R, b.2 < a.2 ∧ n = (a.1, b.1) := by
  simp only [row, List.mem_map, List.mem_filter, decide_eq_true_eq]
  constructor
  · rintro ⟨b, ⟨hb, hlt⟩, rfl⟩; exact ⟨b, hb, hlt, rfl⟩
  · rintro ⟨b, hb, hlt, rfl⟩; exact ⟨b, ⟨hb, hlt⟩, rfl⟩

/-- `(x, y)` is listed iff some edge `a` with identity `x` occurs before some edge `b` with identity `y` and
`b.curr_x < a.curr_x` -/
theorem mem_inversions (l : List Edge) (n : Node) :
    n ∈ inversions l ↔ ∃ a b, [a, b].Sublist l ∧ b.2 < a.2 ∧ n = (a.1, b.1) := by
  induction l with
  | nil => simp [inversions]
  | cons c l ih =>
    rw [inversions_cons, List.mem_append, mem_row, ih]
    constructor
    · rintro (⟨b, hb, hlt, rfl⟩ | ⟨a, b, hs, hlt, rfl⟩)
      · exact ⟨c, b, List.Sublist.cons_cons c (List.singleton_sublist.mpr hb), hlt, rfl⟩
      · exact ⟨a, b, List.Sublist.cons c hs, hlt, rfl⟩
    · rintro ⟨a, b, hs, hlt, rfl⟩
      rw [List.sublist_cons_iff] at hs
      rcases hs with hs | ⟨r, hr, hs⟩
      · exact Or.inr ⟨a, b, hs, hlt, rfl⟩
      · simp only [List.cons.injEq] at hr
        obtain ⟨rfl, rfl⟩ := hr
        exact Or.inl ⟨b, List.singleton_sublist.mp hs, hlt, rfl⟩

theorem mem_of_pair_sublist {α : Type} {a b : α} {l : List α} (h : [a, b].Sublist l) : a ∈ l ∧ b ∈ l :=
  ⟨h.subset (by simp), h.subset (by simp)⟩

theorem ids_pair_sublist {a b : Edge} {l : List Edge} (h : [a, b].Sublist l) : [a.1, b.1].Sublist (ids l) :=
  h.map (fun e : Edge => e.1)

/-- both members of an inversion are edges of the list -/
theorem mem_ids_of_mem_inversions (l : List Edge) (n : Node) (h : n ∈ inversions l) : n.1 ∈ ids l ∧ n.2 ∈ ids l := by
  obtain ⟨a, b, hs, _, rfl⟩ := (mem_inversions l n).mp h
  have := mem_of_pair_sublist hs
  exact ⟨List.mem_map.mpr ⟨a, this.1, rfl⟩, List.mem_map.mpr ⟨b, this.2, rfl⟩⟩

/-- with distinct identities no pair is listed twice -/
theorem inversions_nodup (l : List Edge) (h : (ids l).Nodup) : (inversions l).Nodup := by
  induction l with
  | nil => simp [inversions]
  | cons c l ih =>
    have hc : c.1 ∉ ids l ∧ (ids l).Nodup := by simpa [ids] using h
    rw [inversions_cons, List.nodup_append]
    refine ⟨?_, ih hc.2, ?_⟩
    · -- the row of `c`: distinct second components
      unfold row
      have hf : (l.filter (fun b => decide (b.2 < c.2))).Pairwise (fun a b => a.1 ≠ b.1) := by
        have : l.Pairwise (fun a b => a.1 ≠ b.1) := by
          have := hc.2; unfold ids at this; exact List.pairwise_map.mp this
        exact this.sublist List.filter_sublist
      refine List.pairwise_map.mpr (hf.imp ?_)
      intro a b hab heq
      exact hab (by simpa using heq)
    · intro n hn m hm heq
      subst heq
      obtain ⟨b, _, _, rfl⟩ := (mem_row c l n).mp hn
      exact hc.1 (mem_ids_of_mem_inversions l _ hm).1

/-! ## positions in a duplicate-free list -/

theorem idxOf_lt_of_sublist (l : List Nat) (x y : Nat) (hnd : l.Nodup) (hs : [x, y].Sublist l) :
    l.idxOf x < l.idxOf y := by
  induction l with
  | nil => simp at hs
  | cons c t ih =>
    obtain ⟨hc, ht⟩ := List.nodup_cons.mp hnd
    rw [List.sublist_cons_iff] at hs
    rcases hs with hs | ⟨r, hr, hs⟩
    · have hm := mem_of_pair_sublist hs
      have hcx : (c == x) = false := by
        rw [beq_eq_false_iff_ne]; intro e; exact hc (e ▸ hm.1)
      have hcy : (c == y) = false := by
        rw [beq_eq_false_iff_ne]; intro e; exact hc (e ▸ hm.2)
      simp only [List.idxOf_cons, hcx, hcy, cond_false]
      have := ih ht hs
      omega
    · simp only [List.cons.injEq] at hr
      obtain ⟨rfl, rfl⟩ := hr
      have hy : y ∈ t := List.singleton_sublist.mp hs
      have hcy : (x == y) = false := by
        rw [beq_eq_false_iff_ne]; intro e; exact hc (e ▸ hy)
      simp only [List.idxOf_cons, beq_self_eq_true, hcy, cond_true, cond_false]
      omega

theorem idxOf_inj_of_mem (l : List Nat) (x y : Nat) (hx : x ∈ l) (h : l.idxOf x = l.idxOf y) : x = y := by
  induction l with
  | nil => simp at hx
  | cons c t ih =>
    simp only [List.idxOf_cons] at h
    by_cases hcx : c = x
    · by_cases hcy : c = y
      · exact hcx ▸ hcy
      · have e1 : (c == x) = true := by simpa using hcx
        have e2 : (c == y) = false := by simpa using hcy
        simp [e1, e2] at h
    · have e1 : (c == x) = false := by simpa using hcx
      by_cases hcy : c = y
      · have e2 : (c == y) = true := by simpa using hcy
        simp [e1, e2] at h
      · have e2 : (c == y) = false := by simpa using hcy
        simp only [e1, e2, cond_false, Nat.add_right_cancel_iff] at h
        rcases List.mem_cons.mp hx with rfl | hx
        · exact absurd rfl hcx
        · exact ih hx h

/-- two different members of a list occur in one of the two orders -/
theorem pair_sublist_total {α : Type} (l : List α) (a b : α) (ha : a ∈ l) (hb : b ∈ l) (hne : a ≠ b) :
    [a, b].Sublist l ∨ [b, a].Sublist l := by
  induction l with
  | nil => simp at ha
  | cons c t ih =>
    rcases List.mem_cons.mp ha with rfl | ha' <;> rcases List.mem_cons.mp hb with rfl | hb'
    · exact absurd rfl hne
    · exact Or.inl (List.Sublist.cons_cons _ (List.singleton_sublist.mpr hb'))
    · exact Or.inr (List.Sublist.cons_cons _ (List.singleton_sublist.mpr ha'))
    · rcases ih ha' hb' with h | h
      · exact Or.inl (List.Sublist.cons _ h)
      · exact Or.inr (List.Sublist.cons _ h)

/-! ## the order of the final SEL relative to the AEL -/

/-- **where two edges end up**: for `a` before `b` in an AEL with distinct identities, `b` precedes `a` in the final
SEL iff `b.curr_x < a.curr_x`; otherwise (smaller *or equal* `curr_x`) `a` still precedes `b`. -/
theorem sel_order (ael : List Edge) (hnd : (ids ael).Nodup) (a b : Edge) (hs : [a, b].Sublist ael) :
    (b.2 < a.2 → [b, a].Sublist (buildIntersectList ael).sel) ∧
    (¬ b.2 < a.2 → [a, b].Sublist (buildIntersectList ael).sel) := by
  obtain ⟨hsorted, hperm, hcls, _⟩ := build_spec ael
  have hm := mem_of_pair_sublist hs
  have hne : a ≠ b := by
    intro e
    have h1 : [a.1, b.1].Sublist (ids ael) := ids_pair_sublist hs
    have h2 := (List.pairwise_iff_forall_sublist.mp hnd) h1
    exact h2 (e ▸ rfl)
  have haF : a ∈ (buildIntersectList ael).sel := hperm.symm.subset hm.1
  have hbF : b ∈ (buildIntersectList ael).sel := hperm.symm.subset hm.2
  have hsx : ∀ {x y : Edge}, [x, y].Sublist (buildIntersectList ael).sel → x.2 ≤ y.2 :=
    fun h => List.pairwise_iff_forall_sublist.mp hsorted h
  refine ⟨?_, ?_⟩
  · intro hlt
    rcases pair_sublist_total _ a b haF hbF hne with h | h
    · have := hsx h; omega
    · exact h
  · intro hnlt
    by_cases heq : a.2 = b.2
    · -- a tie: the class of `a` is copied unchanged
      have hf : ([a, b].filter (fun x => leX a x && leX x a)).Sublist (cls leX a ael) := hs.filter _
      have hab : [a, b].filter (fun x => leX a x && leX x a) = [a, b] := by
        rw [List.filter_eq_self]
        intro x hx
        simp only [List.mem_cons, List.not_mem_nil, or_false] at hx
        rcases hx with rfl | rfl <;> simp [leX, heq]
      rw [hab, ← hcls a] at hf
      exact hf.trans (by unfold cls; exact List.filter_sublist)
    · rcases pair_sublist_total _ a b haF hbF hne with h | h
      · exact h
      · have := hsx h; omega

/-- rank of an edge = its position in the final SEL (= in the stable sort of the AEL by `curr_x`) -/
def rankOf (ael : List Edge) (id : Nat) : Nat := (ids (buildIntersectList ael).sel).idxOf id

theorem ids_sel_perm (ael : List Edge) : (ids (buildIntersectList ael).sel).Perm (ids ael) :=
  (build_spec ael).2.1.map _

theorem ids_sel_nodup (ael : List Edge) (hnd : (ids ael).Nodup) : (ids (buildIntersectList ael).sel).Nodup :=
  (ids_sel_perm ael).symm.nodup hnd

/-- ranks are distinct on the edges present -/
theorem rankOf_inj (ael : List Edge) (x y : Nat) (hx : x ∈ ids ael) (h : rankOf ael x = rankOf ael y) : x = y :=
  idxOf_inj_of_mem _ x y ((ids_sel_perm ael).symm.subset hx) h

/-- **ranks versus `curr_x`** for `a` before `b` in the AEL: out of rank order iff strictly out of `curr_x` order -/
theorem rank_order (ael : List Edge) (hnd : (ids ael).Nodup) (a b : Edge) (hs : [a, b].Sublist ael) :
    rankOf ael b.1 < rankOf ael a.1 ↔ b.2 < a.2 := by
  have hso := sel_order ael hnd a b hs
  have hJ := ids_sel_nodup ael hnd
  constructor
  · intro hlt
    by_cases h : b.2 < a.2
    · exact h
    · have h1 : [a.1, b.1].Sublist (ids (buildIntersectList ael).sel) := ids_pair_sublist (hso.2 h)
      have := idxOf_lt_of_sublist _ _ _ hJ h1
      unfold rankOf at hlt
      omega
  · intro h
    have h1 : [b.1, a.1].Sublist (ids (buildIntersectList ael).sel) := ids_pair_sublist (hso.1 h)
    exact idxOf_lt_of_sublist _ _ _ hJ h1

/-- renaming of a node -/
def mapNode (f : Nat → Nat) (n : Node) : Node := (f n.1, f n.2)

/-- `invPairs` of a renamed list, when the renaming turns "strictly smaller `curr_x`" into "smaller key" for every pair in
list order -/
theorem invPairs_map (g : Nat → Nat) (l : List Edge)
    (h : l.Pairwise (fun a b => (g b.1 < g a.1 ↔ b.2 < a.2))) :
    invPairs (l.map (fun e => g e.1)) = (inversions l).map (mapNode g) := by
  induction l with
  | nil => rfl
  | cons a l ih =>
    obtain ⟨ha, hl⟩ := List.pairwise_cons.mp h
    simp only [List.map_cons, invPairs, inversions_cons, List.map_append, ih hl]
    congr 1
    simp only [row, List.filter_map, List.map_map]
    have hfc : l.filter ((fun x => decide (x < g a.1)) ∘ fun e => g e.1) = l.filter (fun b => decide (b.2 < a.2)) := by
      apply List.filter_congr
      intro b hb
      have := ha b hb
      simp only [Function.comp]
      exact decide_eq_decide.mpr this
    rw [hfc]
    rfl

/-- **the hypothesis of `processIntersectList_no_fault`, discharged**: naming every edge by its rank, the inversions of
the AEL's rank list are exactly the (renamed) inversions by `curr_x` -/
theorem invPairs_ranks (ael : List Edge) (hnd : (ids ael).Nodup) :
    invPairs ((ids ael).map (rankOf ael)) = (inversions ael).map (mapNode (rankOf ael)) := by
  have : (ids ael).map (rankOf ael) = ael.map (fun e => rankOf ael e.1) := by simp [ids]
  rw [this]
  apply invPairs_map
  exact List.pairwise_iff_forall_sublist.mpr (fun {a b} hs => rank_order ael hnd a b hs)

theorem ranks_nodup (ael : List Edge) (hnd : (ids ael).Nodup) : ((ids ael).map (rankOf ael)).Nodup := by
  refine List.pairwise_map.mpr ?_
  have hmem : ∀ x, x ∈ ids ael → x ∈ ids ael := fun _ h => h
  refine List.pairwise_iff_forall_sublist.mpr ?_
  intro x y hs heq
  have hm := mem_of_pair_sublist hs
  have := rankOf_inj ael x y hm.1 heq
  exact (List.pairwise_iff_forall_sublist.mp hnd) hs this

/-! ## `process` commutes with a renaming that is injective on the edges present -/

section Rename
variable (f : Nat → Nat) (P : Nat → Prop) (hinj : ∀ x y, P x → P y → f x = f y → x = y)
include hinj

theorem beq_map (x a : Nat) (hx : P x) (ha : P a) : (f x == f a) = (x == a) := by
  by_cases h : x = a
  · subst h; rw [beq_self_eq_true, beq_self_eq_true]
  · have : f x ≠ f a := fun e => h (hinj x a hx ha e)
    rw [beq_eq_false_iff_ne.mpr this, beq_eq_false_iff_ne.mpr h]

theorem adjacent_map (π : List Nat) (n : Node) (hπ : ∀ x ∈ π, P x) (h1 : P n.1) (h2 : P n.2) :
    adjacent (π.map f) (mapNode f n) = adjacent π n := by
  induction π with
  | nil => simp [adjacent]
  | cons x t ih =>
    cases t with
    | nil => simp [adjacent]
    | cons y t =>
      have hx : P x := hπ x (by simp)
      have hy : P y := hπ y (by simp)
      have iht := ih (fun z hz => hπ z (List.mem_cons_of_mem _ hz))
      simp only [List.map_cons, adjacent, mapNode] at iht ⊢
      rw [beq_map f P hinj x n.1 hx h1, beq_map f P hinj y n.2 hy h2, beq_map f P hinj x n.2 hx h2,
        beq_map f P hinj y n.1 hy h1, iht]

theorem swapIn_map (π : List Nat) (n : Node) (hπ : ∀ x ∈ π, P x) (h1 : P n.1) (h2 : P n.2) :
    swapIn (π.map f) (mapNode f n) = (swapIn π n).map f := by
  induction π with
  | nil => simp [swapIn]
  | cons x t ih =>
    cases t with
    | nil => simp [swapIn]
    | cons y t =>
      have hx : P x := hπ x (by simp)
      have hy : P y := hπ y (by simp)
      have iht := ih (fun z hz => hπ z (List.mem_cons_of_mem _ hz))
      simp only [List.map_cons, swapIn, mapNode] at iht ⊢
      rw [beq_map f P hinj x n.1 hx h1, beq_map f P hinj y n.2 hy h2, beq_map f P hinj x n.2 hx h2,
        beq_map f P hinj y n.1 hy h1]
      split
      · simp
      · simp only [List.map_cons, iht]

end Rename

theorem scanSwap_map {α β : Type} (g : α → β) (p : α → Bool) (p' : β → Bool) (n : α) (rest : List α)
    (h : ∀ m ∈ rest, p' (g m) = p m) :
    scanSwap p' (g n) (rest.map g) = (scanSwap p n rest).map (fun r => (g r.1, r.2.map g)) := by
  induction rest with
  | nil => simp [scanSwap]
  | cons m t ih =>
    have hm := h m (by simp)
    have iht := ih (fun k hk => h k (List.mem_cons_of_mem _ hk))
    simp only [List.map_cons, scanSwap, hm]
    split
    · simp
    · rw [iht]
      cases scanSwap p n t <;> simp

theorem scanSwap_mem {α : Type} (p : α → Bool) (n : α) (rest : List α) (m : α) (rest' : List α)
    (h : scanSwap p n rest = some (m, rest')) : m ∈ rest ∧ ∀ k ∈ rest', k = n ∨ k ∈ rest := by
  induction rest generalizing rest' with
  | nil => simp [scanSwap] at h
  | cons c t ih =>
    simp only [scanSwap] at h
    split at h
    · simp only [Option.some.injEq, Prod.mk.injEq] at h
      obtain ⟨rfl, rfl⟩ := h
      refine ⟨by simp, ?_⟩
      intro k hk
      rcases List.mem_cons.mp hk with rfl | hk
      · exact Or.inl rfl
      · exact Or.inr (List.mem_cons_of_mem _ hk)
    · cases hsc : scanSwap p n t with
      | none => simp [hsc] at h
      | some r =>
        simp only [hsc, Option.map_some, Option.some.injEq, Prod.mk.injEq] at h
        obtain ⟨rfl, rfl⟩ := h
        have := ih r.2 (by rw [hsc])
        refine ⟨List.mem_cons_of_mem _ this.1, ?_⟩
        intro k hk
        rcases List.mem_cons.mp hk with rfl | hk
        · exact Or.inr (by simp)
        · rcases this.2 k hk with rfl | hk
          · exact Or.inl rfl
          · exact Or.inr (List.mem_cons_of_mem _ hk)

theorem swapIn_perm (π : List Nat) (n : Node) : (swapIn π n).Perm π := by
  induction π with
  | nil => simp [swapIn]
  | cons x t ih =>
    cases t with
    | nil => simp [swapIn]
    | cons y t =>
      simp only [swapIn]
      split
      · exact List.Perm.swap x y t
      · exact List.Perm.cons x ih

/-- the loop only ever exchanges neighbours: its result is a permutation of the AEL it started from -/
theorem process_perm (fuel : Nat) (π : List Nat) (nodes : List Node) (π' : List Nat)
    (h : process fuel π nodes = .ok π') : π'.Perm π := by
  induction fuel generalizing π nodes with
  | zero =>
    cases nodes with
    | nil => simp only [process, Except.ok.injEq] at h; exact h ▸ List.Perm.refl _
    | cons n rest => simp [process] at h
  | succ fuel ih =>
    cases nodes with
    | nil => simp only [process, Except.ok.injEq] at h; exact h ▸ List.Perm.refl _
    | cons n rest =>
      simp only [process] at h
      split at h
      · exact (ih _ _ h).trans (swapIn_perm π n)
      · split at h
        · simp at h
        · exact (ih _ _ h).trans (swapIn_perm π _)

/-- **`process` is equivariant** under a renaming `f` injective on `P`, when every edge of the AEL and of the nodes
satisfies `P` -/
theorem process_map (f : Nat → Nat) (P : Nat → Prop) (hinj : ∀ x y, P x → P y → f x = f y → x = y)
    (fuel : Nat) (π : List Nat) (nodes : List Node)
    (hπ : ∀ x ∈ π, P x) (hn : ∀ n ∈ nodes, P n.1 ∧ P n.2) :
    process fuel (π.map f) (nodes.map (mapNode f)) = (process fuel π nodes).map (List.map f) := by
  induction fuel generalizing π nodes with
  | zero =>
    cases nodes with
    | nil => simp [process, Except.map]
    | cons n rest => simp [process, Except.map]
  | succ fuel ih =>
    cases nodes with
    | nil => simp [process, Except.map]
    | cons n rest =>
      have hn1 := hn n (by simp)
      have hrest : ∀ m ∈ rest, P m.1 ∧ P m.2 := fun m hm => hn m (List.mem_cons_of_mem _ hm)
      have hsw : ∀ m : Node, ∀ x ∈ swapIn π m, P x := fun m x hx => hπ x ((swapIn_perm π m).subset hx)
      simp only [List.map_cons, process]
      rw [adjacent_map f P hinj π n hπ hn1.1 hn1.2]
      split
      · rw [swapIn_map f P hinj π n hπ hn1.1 hn1.2]
        exact ih _ _ (hsw n) hrest
      · have hsc := scanSwap_map (mapNode f) (adjacent π) (adjacent (π.map f)) n rest
          (fun m hm => adjacent_map f P hinj π m hπ (hrest m hm).1 (hrest m hm).2)
        rw [hsc]
        cases hs : scanSwap (adjacent π) n rest with
        | none => simp [Except.map]
        | some r =>
          obtain ⟨m, rest'⟩ := r
          have hmem := scanSwap_mem _ _ _ _ _ hs
          have hm := hrest m hmem.1
          simp only [Option.map_some]
          rw [swapIn_map f P hinj π m hπ hm.1 hm.2]
          refine ih _ _ (hsw m) ?_
          intro k hk
          rcases hmem.2 k hk with rfl | hk
          · exact hn1
          · exact hrest k hk

end Clipper.Lemmas.BuildIntersectList
