/- Helper lemmas for the 64x64 -> 128 multiply (C18). -/
import ClipperVerif.Generated.Core
import ClipperVerif.Generated.Portable
namespace Clipper.Lemmas

theorem u64_lo (x : UInt64) : (x &&& 4294967295).toNat = x.toNat % 2^32 := by
  rw [UInt64.toNat_and]; exact Nat.and_two_pow_sub_one_eq_mod x.toNat 32

theorem u64_hi (x : UInt64) : (x >>> 32).toNat = x.toNat / 2^32 := by
  rw [UInt64.toNat_shiftRight]; simp [Nat.shiftRight_eq_div_pow]

theorem u64_shl_or (x y : UInt64) (hx : x.toNat < 2^32) (hy : y.toNat < 2^32) :
    ((x <<< 32) ||| y).toNat = x.toNat * 2^32 + y.toNat := by
  rw [UInt64.toNat_or, UInt64.toNat_shiftLeft]
  have h32 : (32 : UInt64).toNat % 64 = 32 := by decide
  rw [h32, Nat.shiftLeft_eq]
  have : x.toNat * 2^32 % 2^64 = x.toNat * 2^32 := Nat.mod_eq_of_lt (by omega)
  rw [this, ← Nat.shiftLeft_eq, ← Nat.shiftLeft_add_eq_or_of_lt hy]

theorem mul_bound {x y : Nat} (hx : x < 2^32) (hy : y < 2^32) : x * y ≤ (2^32-1)*(2^32-1) :=
  Nat.mul_le_mul (by omega) (by omega)

/-- the arithmetic heart: the four-limb schoolbook product is exact -/
theorem limbs_exact (a b x1 x2 x3 : Nat) (ha : a < 2^64) (hb : b < 2^64)
    (e1 : x1 = ((a % 2^32) * (b % 2^32)) % 2^64)
    (e2 : x2 = ((a / 2^32) * (b % 2^32) + x1 / 2^32) % 2^64)
    (e3 : x3 = ((a % 2^32) * (b / 2^32) + x2 % 2^32) % 2^64) :
    ((a / 2^32) * (b / 2^32) + x2 / 2^32 + x3 / 2^32) % 2^64 * 2^64 + ((x3 % 2^32) * 2^32 + x1 % 2^32) = a * b := by
  have hal : a % 2^32 < 2^32 := Nat.mod_lt _ (by decide)
  have hbl : b % 2^32 < 2^32 := Nat.mod_lt _ (by decide)
  have hah : a / 2^32 < 2^32 := by omega
  have hbh : b / 2^32 < 2^32 := by omega
  have e : a * b = (a / 2^32) * (b / 2^32) * 2^64 + ((a / 2^32) * (b % 2^32) + (a % 2^32) * (b / 2^32)) * 2^32 + (a % 2^32) * (b % 2^32) := by
    have ea := Nat.div_add_mod a (2^32)
    have eb := Nat.div_add_mod b (2^32)
    generalize a / 2^32 = ah at *
    generalize a % 2^32 = al at *
    generalize b / 2^32 = bh at *
    generalize b % 2^32 = bl at *
    subst ea eb
    grind
  rw [e]
  have b1 := mul_bound hal hbl
  have b2 := mul_bound hah hbl
  have b3 := mul_bound hal hbh
  have b4 := mul_bound hah hbh
  generalize (a % 2^32) * (b % 2^32) = p1 at *
  generalize (a / 2^32) * (b % 2^32) = p2 at *
  generalize (a % 2^32) * (b / 2^32) = p3 at *
  generalize (a / 2^32) * (b / 2^32) = p4 at *
  omega

end Clipper.Lemmas
