/-
Helper lemmas for `Props/C01Build.lean`, part 2: the index plumbing.  `Model.SweepOrder.build` of closed paths satisfying the input-only
precondition `InputGP` has the abstract corner structure `Wf` of `Lemmas/C01BuildWf.lean`:

* `rot1_get`            `(l.rotateLeft 1)[i]? = l[i+1 or 0]?`; `edgesOf p = p.zip (p.rotateLeft 1)`;
* `corners_mem`         a corner of `corners off p` is `((mkEdge i u v, mkEdge j v w), v)` for a cyclic triple `u v w` of consecutive vertices
                        (`ptCorners p`), with its two label rows in `pathLabels off t p`;
* `allCorners`          the corners of all paths (what `buildFrom` filters into `nextTbl` / `allMins`), and the lifting of the per-path facts;
* `build_wf`, `build_fromCorners`, `allCorners_height`.

Core Lean only.
-/
import ClipperVerif.Lemmas.C01BuildWf
import ClipperVerif.Lemmas.C01BuildScan
import ClipperVerif.Lemmas.C01RegionCore
namespace Clipper.Lemmas.C01Build
open Clipper Clipper.Model Clipper.Model.SweepOrder Clipper.Model.SweepEvents
open Clipper.Lemmas.C01Region

/-! ## the precondition on the INPUT PATHS -/

/-- the cyclic triples of consecutive vertices of a closed path, as pairs of consecutive directed edges `((u, v), (v, w))` -/
def ptCorners (p : Path) : List ((Pt × Pt) × (Pt × Pt)) := (edgesOf p).zip ((edgesOf p).rotateLeft 1)

/-- if `v` is a local minimum (both neighbours strictly above it; y grows downwards), the two edges leaving it are not collinear -/
def NoSpikeAtMin (u v w : Pt) : Prop := u.y < v.y → w.y < v.y → (u.x - v.x) * (v.y - w.y) ≠ (w.x - v.x) * (v.y - u.y)
instance (u v w : Pt) : Decidable (NoSpikeAtMin u v w) := by unfold NoSpikeAtMin; infer_instance

/-- one closed path: at least 3 vertices, no horizontal edge (cyclically; in particular consecutive vertices differ), no spike at a
local minimum -/
def PathGP (p : Path) : Prop := 3 ≤ p.length ∧ ∀ q ∈ ptCorners p, q.1.1.y ≠ q.1.2.y ∧ NoSpikeAtMin q.1.1 q.1.2 q.2.2
instance (p : Path) : Decidable (PathGP p) := by unfold PathGP; infer_instance

/-- **the precondition on the input**: every path is `PathGP`, and all vertices of all paths are pairwise different -/
def InputGP (subj clip : Paths) : Prop := (∀ p ∈ subj ++ clip, PathGP p) ∧ (subj ++ clip).flatten.Nodup
instance (subj clip : Paths) : Decidable (InputGP subj clip) := by unfold InputGP; infer_instance

/-! ## `rotateLeft 1` -/

theorem rot1_cons {α : Type} (a b : α) (t : List α) : (a :: b :: t).rotateLeft 1 = (b :: t) ++ [a] := by simp [List.rotateLeft]

theorem rot1_perm {α : Type} (l : List α) : (l.rotateLeft 1).Perm l := by
  cases l with
  | nil => simp [List.rotateLeft]
  | cons a l =>
    cases l with
    | nil => simp [List.rotateLeft]
    | cons b t => rw [rot1_cons]; exact List.perm_append_comm (l₁ := b :: t) (l₂ := [a])

theorem rot1_length {α : Type} (l : List α) : (l.rotateLeft 1).length = l.length := (rot1_perm l).length_eq

/-- the cyclic successor of an index -/
def sc (n i : Nat) : Nat := if i + 1 < n then i + 1 else 0

theorem rot1_get {α : Type} (l : List α) (hl : 2 ≤ l.length) (i : Nat) (hi : i < l.length) :
    (l.rotateLeft 1)[i]? = l[sc l.length i]? := by
  cases l with
  | nil => simp at hl
  | cons a l =>
    cases l with
    | nil => simp at hl
    | cons b t =>
      rw [rot1_cons]
      unfold sc
      simp only [List.length_cons] at hi ⊢
      by_cases h : i + 1 < t.length + 1 + 1
      · rw [if_pos h, List.getElem?_append_left (by simp only [List.length_cons]; omega)]
        simp
      · rw [if_neg h, List.getElem?_append_right (by simp only [List.length_cons]; omega)]
        have : i - (b :: t).length = 0 := by simp only [List.length_cons]; omega
        rw [this]; simp

theorem lt_of_get {α : Type} {l : List α} {i : Nat} {a : α} (h : l[i]? = some a) : i < l.length := by
  obtain ⟨h', _⟩ := List.getElem?_eq_some_iff.1 h; exact h'

/-! ## one path -/

theorem edgesOf_eq (p : Path) (hl : 2 ≤ p.length) : edgesOf p = p.zip (p.rotateLeft 1) := by
  cases p with
  | nil => simp at hl
  | cons a l =>
    cases l with
    | nil => simp at hl
    | cons b t => rw [rot1_cons]; rfl

theorem edgesOf_length (p : Path) (hl : 2 ≤ p.length) : (edgesOf p).length = p.length := by
  rw [edgesOf_eq p hl, List.length_zip, rot1_length]; omega

theorem edgesOf_get (p : Path) (hl : 2 ≤ p.length) (i : Nat) (uv : Pt × Pt) :
    (edgesOf p)[i]? = some uv ↔ p[i]? = some uv.1 ∧ p[sc p.length i]? = some uv.2 := by
  rw [edgesOf_eq p hl, List.getElem?_zip_eq_some]
  constructor
  · intro ⟨h1, h2⟩
    rw [rot1_get p hl i (lt_of_get h1)] at h2
    exact ⟨h1, h2⟩
  · intro ⟨h1, h2⟩
    rw [rot1_get p hl i (lt_of_get h1)]
    exact ⟨h1, h2⟩

theorem pathEdges_length (off : Nat) (p : Path) : (pathEdges off p).length = (edgesOf p).length := by simp [pathEdges]

theorem pathEdges_get (off : Nat) (p : Path) (i : Nat) :
    (pathEdges off p)[i]? = ((edgesOf p)[i]?).map (fun uv => mkEdge (off + i) uv.1 uv.2) := by
  simp only [pathEdges, List.getElem?_map, List.getElem?_zipIdx, Option.map_map]
  cases (edgesOf p)[i]? <;> simp

theorem pathLabels_get (off : Nat) (t : PathType) (p : Path) (i : Nat) :
    (pathLabels off t p)[i]? = ((edgesOf p)[i]?).map (fun uv => (mkEdge (off + i) uv.1 uv.2, t, if uv.1.y > uv.2.y then 1 else -1)) := by
  simp only [pathLabels, List.getElem?_map, List.getElem?_zipIdx, Option.map_map]
  cases (edgesOf p)[i]? <;> simp

theorem mkEdge_id (i : Nat) (a b : Pt) : (mkEdge i a b).id = i := by unfold mkEdge; split <;> rfl

/-- what is proved of one corner of a path: a cyclic triple `u, c.2, w` of consecutive vertices, the edge arriving, the edge leaving, and their
rows in the label table -/
def CornerSpec (p : Path) (t : PathType) (rows : List (SEdge × PathType × Int)) (c : Corner) : Prop :=
  ∃ (i j : Nat) (u w : Pt), i ≠ j ∧ c.1.1 = mkEdge i u c.2 ∧ c.1.2 = mkEdge j c.2 w ∧ ((u, c.2), (c.2, w)) ∈ ptCorners p ∧ c.2 ∈ p ∧
    (c.1.1, t, if u.y > c.2.y then 1 else -1) ∈ rows ∧ (c.1.2, t, if c.2.y > w.y then 1 else -1) ∈ rows

theorem cornerSpec_mono {p : Path} {t : PathType} {rows rows' : List (SEdge × PathType × Int)} {c : Corner}
    (hsub : ∀ r ∈ rows, r ∈ rows') (h : CornerSpec p t rows c) : CornerSpec p t rows' c := by
  obtain ⟨i, j, u, w, h1, h2, h3, h4, h5, h6, h7⟩ := h
  exact ⟨i, j, u, w, h1, h2, h3, h4, h5, hsub _ h6, hsub _ h7⟩

theorem corners_mem (off : Nat) (t : PathType) (p : Path) (hn : 3 ≤ p.length) (c : Corner) (hc : c ∈ corners off p) :
    CornerSpec p t (pathLabels off t p) c := by
  have h2l : 2 ≤ p.length := by omega
  have hel := edgesOf_length p h2l
  have hpl : (pathEdges off p).length = p.length := by rw [pathEdges_length, hel]
  obtain ⟨i, hi⟩ := List.mem_iff_getElem?.1 hc
  simp only [corners] at hi
  rw [List.getElem?_zip_eq_some, List.getElem?_zip_eq_some] at hi
  obtain ⟨⟨h1, h2⟩, h3⟩ := hi
  have hil : i < p.length := by have := lt_of_get h1; rwa [hpl] at this
  rw [rot1_get _ (by rw [hpl]; omega) i (by rw [hpl]; exact hil), hpl] at h2
  rw [rot1_get p h2l i hil] at h3
  have hjl : sc p.length i < p.length := lt_of_get h3
  rw [pathEdges_get, Option.map_eq_some_iff] at h1 h2
  obtain ⟨⟨u, v⟩, g1, g2⟩ := h1
  obtain ⟨⟨v', w⟩, g3, g4⟩ := h2
  have k1 := (edgesOf_get p h2l i (u, v)).1 g1
  have k2 := (edgesOf_get p h2l (sc p.length i) (v', w)).1 g3
  have ev : v = c.2 := by have := k1.2; rw [h3] at this; simpa using this.symm
  have ev' : v' = c.2 := by have := k2.1; rw [h3] at this; simpa using this.symm
  subst ev
  subst ev'
  refine ⟨off + i, off + sc p.length i, u, w, ?_, g2.symm, g4.symm, ?_, List.mem_iff_getElem?.2 ⟨_, h3⟩, ?_, ?_⟩
  · unfold sc; split <;> omega
  · refine List.mem_iff_getElem?.2 ⟨i, ?_⟩
    unfold ptCorners
    rw [List.getElem?_zip_eq_some]
    refine ⟨g1, ?_⟩
    rw [rot1_get _ (by rw [hel]; omega) i (by rw [hel]; exact hil), hel]
    exact g3
  · refine List.mem_iff_getElem?.2 ⟨i, ?_⟩
    rw [pathLabels_get, g1, ← g2]; rfl
  · refine List.mem_iff_getElem?.2 ⟨sc p.length i, ?_⟩
    rw [pathLabels_get, g3, ← g4]; rfl

theorem corners_map_v (off : Nat) (p : Path) (hn : 2 ≤ p.length) : (corners off p).map (·.2) = p.rotateLeft 1 := by
  simp only [corners]
  refine List.map_snd_zip ?_
  rw [List.length_zip, rot1_length, rot1_length, pathEdges_length, edgesOf_length p hn]; omega

theorem corners_map_pair (off : Nat) (p : Path) (hn : 2 ≤ p.length) :
    (corners off p).map (·.1) = (pathEdges off p).zip ((pathEdges off p).rotateLeft 1) := by
  simp only [corners]
  refine List.map_fst_zip ?_
  rw [List.length_zip, rot1_length, rot1_length, pathEdges_length, edgesOf_length p hn]; omega

theorem corners_map_in (off : Nat) (p : Path) (hn : 2 ≤ p.length) : (corners off p).map (·.1.1) = pathEdges off p := by
  have : (corners off p).map (·.1.1) = ((corners off p).map (·.1)).map (·.1) := by rw [List.map_map]; rfl
  rw [this, corners_map_pair off p hn]
  exact List.map_fst_zip (by rw [rot1_length]; omega)

theorem corners_map_out (off : Nat) (p : Path) (hn : 2 ≤ p.length) : (corners off p).map (·.1.2) = (pathEdges off p).rotateLeft 1 := by
  have : (corners off p).map (·.1.2) = ((corners off p).map (·.1)).map (·.2) := by rw [List.map_map]; rfl
  rw [this, corners_map_pair off p hn]
  exact List.map_snd_zip (by rw [rot1_length]; omega)

theorem pathEdges_ids (off : Nat) (p : Path) : (pathEdges off p).map (·.id) = (List.range' 0 (edgesOf p).length).map (off + ·) := by
  have : List.range' 0 (edgesOf p).length = (edgesOf p).zipIdx.map Prod.snd := (List.zipIdx_map_snd 0 _).symm
  rw [this]
  simp only [pathEdges, List.map_map]
  apply List.map_congr_left
  intro a _
  simp [mkEdge_id]

theorem pathEdges_id_range (off : Nat) (p : Path) : ∀ e ∈ pathEdges off p, off ≤ e.id ∧ e.id < off + (edgesOf p).length := by
  intro e he
  have : e.id ∈ (pathEdges off p).map (·.id) := List.mem_map_of_mem (f := (·.id)) he
  rw [pathEdges_ids, List.mem_map] at this
  obtain ⟨k, hk, hke⟩ := this
  have := List.mem_range'_1.1 hk
  omega

theorem pathEdges_ids_nodup (off : Nat) (p : Path) : ((pathEdges off p).map (·.id)).Nodup := by
  rw [pathEdges_ids]
  unfold List.Nodup
  rw [List.pairwise_map]
  exact (List.nodup_range' (s := 0) (n := (edgesOf p).length)).imp (fun hne h => hne (by omega))

/-! ## all paths -/

/-- the corners of all paths with at least 3 vertices (offsets as in `buildFrom`) -/
def allCorners : Nat → Paths → List Corner
  | _, [] => []
  | off, p :: ps => (if p.length < 3 then [] else corners off p) ++ allCorners (off + p.length) ps

theorem buildFrom_skip (off : Nat) (p : Path) (ps : Paths) (h : p.length < 3) :
    buildFrom off (p :: ps) = buildFrom (off + p.length) ps := by simp [buildFrom, h]

theorem buildFrom_edges_cons (off : Nat) (p : Path) (ps : Paths) (h : ¬ p.length < 3) :
    (buildFrom off (p :: ps)).edges = pathEdges off p ++ (buildFrom (off + p.length) ps).edges := by simp [buildFrom, h]

theorem buildFrom_fromCorners : ∀ (ps : Paths) (off : Nat),
    (buildFrom off ps).nextTbl = (allCorners off ps).filterMap cornerNext ∧
    (buildFrom off ps).allMins = (allCorners off ps).filterMap cornerMin := by
  intro ps
  induction ps with
  | nil => intro off; simp [buildFrom, allCorners]
  | cons p ps ih =>
    intro off
    by_cases h : p.length < 3
    · rw [buildFrom_skip off p ps h]
      simp only [allCorners, if_pos h, List.nil_append]
      exact ih _
    · simp only [buildFrom, allCorners, if_neg h, List.filterMap_append, (ih (off + p.length)).1, (ih (off + p.length)).2]
      constructor <;> first | rfl | trivial

theorem buildFrom_ids : ∀ (ps : Paths) (off : Nat),
    (∀ e ∈ (buildFrom off ps).edges, off ≤ e.id) ∧ ((buildFrom off ps).edges.map (·.id)).Nodup := by
  intro ps
  induction ps with
  | nil => intro off; simp [buildFrom]
  | cons p ps ih =>
    intro off
    obtain ⟨i1, i2⟩ := ih (off + p.length)
    by_cases h : p.length < 3
    · rw [buildFrom_skip off p ps h]
      exact ⟨fun e he => by have := i1 e he; omega, i2⟩
    · rw [buildFrom_edges_cons off p ps h]
      have hel := edgesOf_length p (by omega)
      constructor
      · intro e he
        rcases List.mem_append.1 he with he | he
        · exact (pathEdges_id_range off p e he).1
        · have := i1 e he; omega
      · rw [List.map_append, List.nodup_append]
        refine ⟨pathEdges_ids_nodup off p, i2, ?_⟩
        intro a ha b hb
        obtain ⟨e, he, rfl⟩ := List.mem_map.1 ha
        obtain ⟨e', he', rfl⟩ := List.mem_map.1 hb
        have := (pathEdges_id_range off p e he).2
        have := i1 e' he'
        omega

theorem allCorners_vs : ∀ (ps : Paths) (off : Nat), ps.flatten.Nodup →
    ((allCorners off ps).map (·.2)).Nodup ∧ ∀ c ∈ allCorners off ps, c.2 ∈ ps.flatten := by
  intro ps
  induction ps with
  | nil => intro off _; simp [allCorners]
  | cons p ps ih =>
    intro off hnd
    rw [List.flatten_cons, List.nodup_append] at hnd
    obtain ⟨n1, n2, n3⟩ := hnd
    obtain ⟨i1, i2⟩ := ih (off + p.length) n2
    by_cases h : p.length < 3
    · simp only [allCorners, if_pos h, List.nil_append, List.flatten_cons]
      exact ⟨i1, fun c hc => List.mem_append_right _ (i2 c hc)⟩
    · simp only [allCorners, if_neg h, List.flatten_cons]
      have hv := corners_map_v off p (by omega)
      constructor
      · rw [List.map_append, List.nodup_append, hv]
        refine ⟨(rot1_perm p).nodup_iff.2 n1, i1, ?_⟩
        intro a ha b hb
        obtain ⟨c, hc, rfl⟩ := List.mem_map.1 hb
        exact n3 a ((rot1_perm p).mem_iff.1 ha) _ (i2 c hc)
      · intro c hc
        rcases List.mem_append.1 hc with hc | hc
        · have : c.2 ∈ (corners off p).map (·.2) := List.mem_map_of_mem (f := (·.2)) hc
          rw [hv] at this
          exact List.mem_append_left _ ((rot1_perm p).mem_iff.1 this)
        · exact List.mem_append_right _ (i2 c hc)

theorem allCorners_spec (t : PathType) : ∀ (ps : Paths) (off : Nat), ∀ c ∈ allCorners off ps,
    ∃ p ∈ ps, 3 ≤ p.length ∧ CornerSpec p t (labelsFrom off t ps) c := by
  intro ps
  induction ps with
  | nil => intro off c hc; simp [allCorners] at hc
  | cons p ps ih =>
    intro off c hc
    by_cases h : p.length < 3
    · simp only [allCorners, if_pos h, List.nil_append] at hc
      obtain ⟨q, hq, h3, hs⟩ := ih _ c hc
      refine ⟨q, List.mem_cons_of_mem _ hq, h3, cornerSpec_mono ?_ hs⟩
      intro r hr
      simp only [labelsFrom, List.mem_append]
      exact Or.inr hr
    · simp only [allCorners, if_neg h, List.mem_append] at hc
      rcases hc with hc | hc
      · refine ⟨p, List.mem_cons_self .., by omega, cornerSpec_mono ?_ (corners_mem off t p (by omega) c hc)⟩
        intro r hr
        simp only [labelsFrom, if_neg h, List.mem_append]
        exact Or.inl hr
      · obtain ⟨q, hq, h3, hs⟩ := ih _ c hc
        refine ⟨q, List.mem_cons_of_mem _ hq, h3, cornerSpec_mono ?_ hs⟩
        intro r hr
        simp only [labelsFrom, List.mem_append]
        exact Or.inr hr

theorem allCorners_inout : ∀ (ps : Paths) (off : Nat), ∀ e ∈ (buildFrom off ps).edges,
    (∃ c ∈ allCorners off ps, c.1.1 = e) ∧ (∃ c ∈ allCorners off ps, c.1.2 = e) := by
  intro ps
  induction ps with
  | nil => intro off e he; simp [buildFrom] at he
  | cons p ps ih =>
    intro off e he
    by_cases h : p.length < 3
    · rw [buildFrom_skip off p ps h] at he
      simp only [allCorners, if_pos h, List.nil_append]
      exact ih _ e he
    · rw [buildFrom_edges_cons off p ps h] at he
      simp only [allCorners, if_neg h]
      rcases List.mem_append.1 he with he | he
      · have h1 : e ∈ (corners off p).map (·.1.1) := by rw [corners_map_in off p (by omega)]; exact he
        have h2 : e ∈ (corners off p).map (·.1.2) := by
          rw [corners_map_out off p (by omega)]; exact (rot1_perm _).mem_iff.2 he
        obtain ⟨c, hc, hce⟩ := List.mem_map.1 h1
        obtain ⟨c', hc', hce'⟩ := List.mem_map.1 h2
        exact ⟨⟨c, List.mem_append_left _ hc, hce⟩, ⟨c', List.mem_append_left _ hc', hce'⟩⟩
      · obtain ⟨⟨c, hc, hce⟩, ⟨c', hc', hce'⟩⟩ := ih _ e he
        exact ⟨⟨c, List.mem_append_right _ hc, hce⟩, ⟨c', List.mem_append_right _ hc', hce'⟩⟩

theorem allCorners_append : ∀ (a b : Paths) (off : Nat), allCorners off (a ++ b) = allCorners off a ++ allCorners (off + totalLen a) b := by
  intro a
  induction a with
  | nil => intro b off; simp [allCorners, totalLen]
  | cons p ps ih =>
    intro b off
    have e : off + totalLen (p :: ps) = off + p.length + totalLen ps := by simp [totalLen]; omega
    simp only [List.cons_append, allCorners, ih, e, List.append_assoc]

/-! ## from `CornerSpec` and `PathGP` to the fields of `Wf` -/

theorem in_fields (e : SEdge) (i : Nat) (u v : Pt) (he : e = mkEdge i u v) (h : u.y ≠ v.y) :
    e.Up ∧ (e.top = v ∨ e.bot = v) ∧ ((if u.y > v.y then (1 : Int) else -1) = if e.top = v then 1 else -1) ∧
    (e.bot = v → e.top = u ∧ u.y < v.y) := by
  subst he
  unfold mkEdge
  by_cases h' : u.y > v.y
  · rw [if_pos h']
    refine ⟨by unfold SEdge.Up; dsimp only; omega, Or.inl rfl, by simp [h'], ?_⟩
    intro hb
    dsimp only at hb
    rw [hb] at h'; omega
  · rw [if_neg h']
    have hne : u ≠ v := fun e => h (by rw [e])
    exact ⟨by unfold SEdge.Up; dsimp only; omega, Or.inr rfl, by simp [h', hne], fun _ => ⟨rfl, by omega⟩⟩

theorem out_fields (e : SEdge) (j : Nat) (v w : Pt) (he : e = mkEdge j v w) (h : v.y ≠ w.y) :
    e.Up ∧ (e.top = v ∨ e.bot = v) ∧ ((if v.y > w.y then (1 : Int) else -1) = if e.bot = v then 1 else -1) ∧
    (e.bot = v → e.top = w ∧ w.y < v.y) := by
  subst he
  unfold mkEdge
  by_cases h' : v.y > w.y
  · rw [if_pos h']
    exact ⟨by unfold SEdge.Up; dsimp only; omega, Or.inr rfl, by simp [h'], fun _ => ⟨rfl, by omega⟩⟩
  · rw [if_neg h']
    have hne : w ≠ v := fun e => h (by rw [e])
    refine ⟨by unfold SEdge.Up; dsimp only; omega, Or.inl rfl, by simp [h', hne], ?_⟩
    intro hb
    dsimp only at hb
    exact absurd hb hne

theorem cornerSpec_fields {p : Path} {t : PathType} {rows : List (SEdge × PathType × Int)} {c : Corner} {lab : Lab}
    (hp : PathGP p) (hs : CornerSpec p t rows c) (hlab : ∀ r ∈ rows, lab r.1 = r.2) :
    c.1.1 ≠ c.1.2 ∧ c.1.1.Up ∧ c.1.2.Up ∧ (c.1.1.top = c.2 ∨ c.1.1.bot = c.2) ∧ (c.1.2.top = c.2 ∨ c.1.2.bot = c.2) ∧
    (lab c.1.1).1 = (lab c.1.2).1 ∧ (lab c.1.1).2 = (if c.1.1.top = c.2 then 1 else -1) ∧
    (lab c.1.2).2 = (if c.1.2.bot = c.2 then 1 else -1) ∧
    (c.1.1.bot = c.2 → c.1.2.bot = c.2 → ¬ (SweepOrder.run c.1.1 * exD c.1.2 = SweepOrder.run c.1.2 * exD c.1.1)) := by
  obtain ⟨i, j, u, w, hij, e1, e2, hq, _, r1, r2⟩ := hs
  obtain ⟨hy1, hsp⟩ := hp.2 _ hq
  obtain ⟨hy2, _⟩ : c.2.y ≠ w.y ∧ True := by
    -- the pair `(c.2, w)` is itself the first component of the next cyclic triple; read it off `hq` instead:
    -- `ptCorners p` pairs consecutive EDGES, so `(c.2, w)` is an edge of `p`, i.e. the first component of some triple
    have hmem : (c.2, w) ∈ edgesOf p := by
      have := (List.of_mem_zip hq).2
      exact (rot1_perm _).mem_iff.1 this
    obtain ⟨k, hk⟩ := List.mem_iff_getElem?.1 hmem
    have hkl : k < (edgesOf p).length := lt_of_get hk
    have hel := edgesOf_length p (by have := hp.1; omega)
    obtain ⟨q2, hq2⟩ : ∃ q2, ((edgesOf p).rotateLeft 1)[k]? = some q2 := by
      have : k < ((edgesOf p).rotateLeft 1).length := by rw [rot1_length]; exact hkl
      exact ⟨_, List.getElem?_eq_getElem this⟩
    have : ((c.2, w), q2) ∈ ptCorners p := by
      refine List.mem_iff_getElem?.2 ⟨k, ?_⟩
      unfold ptCorners
      rw [List.getElem?_zip_eq_some]
      exact ⟨hk, hq2⟩
    exact ⟨(hp.2 _ this).1, trivial⟩
  simp only at hy1 hy2 hsp
  have l1 := hlab _ r1
  have l2 := hlab _ r2
  simp only at l1 l2
  have hne : c.1.1 ≠ c.1.2 := by
    intro h
    have := congrArg SEdge.id h
    rw [e1, e2, mkEdge_id, mkEdge_id] at this
    exact hij this
  obtain ⟨a1, a2, a3, a4⟩ := in_fields c.1.1 i u c.2 e1 hy1
  obtain ⟨b1, b2, b3, b4⟩ := out_fields c.1.2 j c.2 w e2 hy2
  refine ⟨hne, a1, b1, a2, b2, by rw [l1, l2], by rw [l1]; exact a3, by rw [l2]; exact b3, ?_⟩
  intro hb1 hb2
  obtain ⟨t1, y1⟩ := a4 hb1
  obtain ⟨t2, y2⟩ := b4 hb2
  unfold SweepOrder.run exD
  rw [t1, t2, hb1, hb2]
  exact hsp y1 y2

/-! ## `build` -/

theorem build_edges (ps : Paths) : (build ps).edges = (buildFrom 0 ps).edges := rfl

theorem build_fromCorners (ps : Paths) : FromCorners (build ps) (allCorners 0 ps) :=
  ⟨(buildFrom_fromCorners ps 0).1, (buildFrom_fromCorners ps 0).2⟩

/-- the vertex of every corner is a vertex of a path with at least 3 vertices: its height is a scanline -/
theorem allCorners_height (ps : Paths) : ∀ c ∈ allCorners 0 ps, c.2.y ∈ (build ps).ys := by
  intro c hc
  obtain ⟨p, hp, h3, hs⟩ := allCorners_spec .subject ps 0 c hc
  obtain ⟨_, _, _, _, _, _, _, _, hm, _⟩ := hs
  exact (scanlinesOf_mem ps c.2.y).2 ⟨p, hp, h3, c.2, hm, rfl⟩

/-- **`build` of an input in `InputGP` has the corner structure `Wf`** -/
theorem build_wf (subj clip : Paths) (h : InputGP subj clip) :
    Wf (build (subj ++ clip)).edges (allCorners 0 (subj ++ clip)) (labOf subj clip) := by
  obtain ⟨hgp, hnd⟩ := h
  have hids := (buildFrom_ids (subj ++ clip) 0).2
  have hnodup : (build (subj ++ clip)).edges.Nodup := nodup_of_nodup_map (·.id) _ hids
  have hrow := labOf_row subj clip hnodup
  -- every corner with its path, its type and its rows in the label table
  have hspec : ∀ c ∈ allCorners 0 (subj ++ clip), ∃ p ∈ subj ++ clip, ∃ t, CornerSpec p t (labelTbl subj clip) c := by
    intro c hc
    rw [allCorners_append, Nat.zero_add, List.mem_append] at hc
    rcases hc with hc | hc
    · obtain ⟨p, hp, _, hs⟩ := allCorners_spec .subject subj 0 c hc
      exact ⟨p, List.mem_append_left _ hp, .subject, cornerSpec_mono (fun r hr => by
        simp only [labelTbl, List.mem_append]; exact Or.inl hr) hs⟩
    · obtain ⟨p, hp, _, hs⟩ := allCorners_spec .clip clip _ c hc
      exact ⟨p, List.mem_append_right _ hp, .clip, cornerSpec_mono (fun r hr => by
        simp only [labelTbl, List.mem_append]; exact Or.inr hr) hs⟩
  refine ⟨hids, (allCorners_vs (subj ++ clip) 0 hnd).1, ?_, ?_, ?_, ?_⟩
  · intro c hc
    obtain ⟨p, hp, t, hs⟩ := hspec c hc
    obtain ⟨f1, f2, f3, f4, f5, f6, f7, f8, _⟩ := cornerSpec_fields (hgp p hp) hs hrow
    obtain ⟨_, _, _, _, _, _, _, _, _, r1, r2⟩ := hs
    have m1 : c.1.1 ∈ (build (subj ++ clip)).edges := by
      rw [← labelTbl_fst]; exact List.mem_map_of_mem (f := fun q : SEdge × PathType × Int => q.1) r1
    have m2 : c.1.2 ∈ (build (subj ++ clip)).edges := by
      rw [← labelTbl_fst]; exact List.mem_map_of_mem (f := fun q : SEdge × PathType × Int => q.1) r2
    exact ⟨m1, m2, f1, f2, f3, f4, f5, f6, f7, f8⟩
  · intro c hc
    obtain ⟨p, hp, t, hs⟩ := hspec c hc
    exact (cornerSpec_fields (hgp p hp) hs hrow).2.2.2.2.2.2.2.2
  · intro e he
    exact (allCorners_inout (subj ++ clip) 0 e he).1
  · intro e he
    exact (allCorners_inout (subj ++ clip) 0 e he).2

end Clipper.Lemmas.C01Build
