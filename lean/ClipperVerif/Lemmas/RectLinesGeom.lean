/-
Exact characterisation of `GetSegmentIntersection` / `GetIntersection` (clipper.rectclip.cpp) for sign-exact
arithmetic: `GetSegmentIntersection(p, q, e1, e2)` with an axis-parallel rectangle edge `e1 e2` succeeds iff the
segment `p q` is not collinear with the edge and meets it (`HitO`, in offsets from `p`); `GetIntersection(p, q, loc)`
called with `p` in the closed half-plane beyond side `loc` succeeds iff `p q` meets the closed rectangle (`Meets`).
Core Lean only.
-/
import ClipperVerif.Lemmas.RectClipEnter
import ClipperVerif.Lemmas.RectLinesCoreB
namespace Clipper.Lemmas.RLG
open Clipper Clipper.Model.RC Clipper.Lemmas.RC Clipper.Lemmas.RCE Clipper.Lemmas.RLC

/-- The decision tree of `GetSegmentIntersection` over exact cross products. -/
def SegHit (p1 p2 p3 p4 : Pt) : Prop :=
  (crossZ p1 p3 p4 = 0 ∧ crossZ p2 p3 p4 ≠ 0 ∧ (p1 = p3 ∨ p1 = p4 ∨ onSpan p1 p3 p4 = true)) ∨
  (crossZ p1 p3 p4 ≠ 0 ∧ crossZ p2 p3 p4 = 0 ∧ (p2 = p3 ∨ p2 = p4 ∨ onSpan p2 p3 p4 = true)) ∨
  (crossZ p1 p3 p4 ≠ 0 ∧ crossZ p2 p3 p4 ≠ 0 ∧ (crossZ p1 p3 p4 > 0 ↔ ¬ crossZ p2 p3 p4 > 0) ∧
    ((crossZ p3 p1 p2 = 0 ∧ (p3 = p1 ∨ p3 = p2 ∨ onSpan p3 p1 p2 = true)) ∨
     (crossZ p3 p1 p2 ≠ 0 ∧ crossZ p4 p1 p2 = 0 ∧ (p4 = p1 ∨ p4 = p2 ∨ onSpan p4 p1 p2 = true)) ∨
     (crossZ p3 p1 p2 ≠ 0 ∧ crossZ p4 p1 p2 ≠ 0 ∧ (crossZ p3 p1 p2 > 0 ↔ ¬ crossZ p4 p1 p2 > 0))))

theorem touch_iff (a b c : Pt) :
    ((if a = b ∨ a = c then (true, a) else (onSpan a b c, a) : Bool × Pt)).1 = true ↔
      (a = b ∨ a = c ∨ onSpan a b c = true) := by
  by_cases h : a = b ∨ a = c
  · rw [if_pos h]
    simp only [true_iff]
    rcases h with h | h
    · exact Or.inl h
    · exact Or.inr (Or.inl h)
  · rw [if_neg h]
    constructor
    · intro hs; exact Or.inr (Or.inr hs)
    · rintro (h' | h' | h')
      · exact absurd (Or.inl h') h
      · exact absurd (Or.inr h') h
      · exact h'

theorem segIntersection_iff {A : Arith} (hA : SignExact A) (ht : IsectTotal A) (p1 p2 p3 p4 ip : Pt) :
    (segIntersection A p1 p2 p3 p4 ip).1 = true ↔ SegHit p1 p2 p3 p4 := by
  have e1 := hA p1 p3 p4
  have e2 := hA p2 p3 p4
  have e3 := hA p3 p1 p2
  have e4 := hA p4 p1 p2
  unfold segIntersection SegHit
  simp only
  by_cases h1 : crossZ p1 p3 p4 = 0
  · rw [if_pos (e1.1.mpr h1)]
    by_cases h2 : crossZ p2 p3 p4 = 0
    · rw [if_pos (e2.1.mpr h2)]
      constructor
      · intro h; exact absurd h (by simp)
      · rintro (⟨_, h, _⟩ | ⟨h, _⟩ | ⟨h, _⟩)
        · exact absurd h2 h
        · exact absurd h1 h
        · exact absurd h1 h
    · rw [if_neg (fun hc => h2 (e2.1.mp hc)), touch_iff]
      constructor
      · intro h; exact Or.inl ⟨h1, h2, h⟩
      · rintro (⟨_, _, h⟩ | ⟨h, _⟩ | ⟨h, _⟩)
        · exact h
        · exact absurd h1 h
        · exact absurd h1 h
  · rw [if_neg (fun hc => h1 (e1.1.mp hc))]
    by_cases h2 : crossZ p2 p3 p4 = 0
    · rw [if_pos (e2.1.mpr h2), touch_iff]
      constructor
      · intro h; exact Or.inr (Or.inl ⟨h1, h2, h⟩)
      · rintro (⟨h, _⟩ | ⟨_, _, h⟩ | ⟨_, h, _⟩)
        · exact absurd h h1
        · exact h
        · exact absurd h2 h
    · rw [if_neg (fun hc => h2 (e2.1.mp hc))]
      by_cases hs : (crossZ p1 p3 p4 > 0 ↔ crossZ p2 p3 p4 > 0)
      · have hd : decide (A.cross p1 p3 p4 > 0) = decide (A.cross p2 p3 p4 > 0) := by
          rw [decide_eq_decide, e1.2, e2.2]; exact hs
        rw [if_pos hd]
        constructor
        · intro h; exact absurd h (by simp)
        · rintro (⟨h, _⟩ | ⟨_, h, _⟩ | ⟨_, _, h, _⟩)
          · exact absurd h h1
          · exact absurd h h2
          · exact absurd (hs.symm.trans h) iff_not_self
      · have hd : ¬ (decide (A.cross p1 p3 p4 > 0) = decide (A.cross p2 p3 p4 > 0)) := by
          rw [decide_eq_decide, e1.2, e2.2]; exact hs
        rw [if_neg hd]
        have h12 : (crossZ p1 p3 p4 > 0 ↔ ¬ crossZ p2 p3 p4 > 0) := by omega
        by_cases h3 : crossZ p3 p1 p2 = 0
        · rw [if_pos (e3.1.mpr h3), touch_iff]
          constructor
          · intro h; exact Or.inr (Or.inr ⟨h1, h2, h12, Or.inl ⟨h3, h⟩⟩)
          · rintro (⟨h, _⟩ | ⟨_, h, _⟩ | ⟨_, _, _, (⟨_, h⟩ | ⟨h, _⟩ | ⟨h, _⟩)⟩)
            · exact absurd h h1
            · exact absurd h h2
            · exact h
            · exact absurd h3 h
            · exact absurd h3 h
        · rw [if_neg (fun hc => h3 (e3.1.mp hc))]
          by_cases h4 : crossZ p4 p1 p2 = 0
          · rw [if_pos (e4.1.mpr h4), touch_iff]
            constructor
            · intro h; exact Or.inr (Or.inr ⟨h1, h2, h12, Or.inr (Or.inl ⟨h3, h4, h⟩)⟩)
            · rintro (⟨h, _⟩ | ⟨_, h, _⟩ | ⟨_, _, _, (⟨h, _⟩ | ⟨_, _, h⟩ | ⟨_, h, _⟩)⟩)
              · exact absurd h h1
              · exact absurd h h2
              · exact absurd h h3
              · exact h
              · exact absurd h4 h
          · rw [if_neg (fun hc => h4 (e4.1.mp hc))]
            by_cases hs2 : (crossZ p3 p1 p2 > 0 ↔ crossZ p4 p1 p2 > 0)
            · have hd2 : decide (A.cross p3 p1 p2 > 0) = decide (A.cross p4 p1 p2 > 0) := by
                rw [decide_eq_decide, e3.2, e4.2]; exact hs2
              rw [if_pos hd2]
              constructor
              · intro h; exact absurd h (by simp)
              · rintro (⟨h, _⟩ | ⟨_, h, _⟩ | ⟨_, _, _, (⟨h, _⟩ | ⟨_, h, _⟩ | ⟨_, _, h⟩)⟩)
                · exact absurd h h1
                · exact absurd h h2
                · exact absurd h h3
                · exact absurd h h4
                · exact absurd (hs2.symm.trans h) iff_not_self
            · have hd2 : ¬ (decide (A.cross p3 p1 p2 > 0) = decide (A.cross p4 p1 p2 > 0)) := by
                rw [decide_eq_decide, e3.2, e4.2]; exact hs2
              rw [if_neg hd2]
              have h34 : (crossZ p3 p1 p2 > 0 ↔ ¬ crossZ p4 p1 p2 > 0) := by omega
              have hq := ht p1 p2 p3 p4
              cases hi : A.isect p1 p2 p3 p4 with
              | none => rw [hi] at hq; simp at hq
              | some q =>
                simp only [true_iff]
                exact Or.inr (Or.inr ⟨h1, h2, h12, Or.inr (Or.inr ⟨h3, h4, h34⟩)⟩)

/-! ### `GetSegmentIntersection` against an axis-parallel edge -/

theorem mul_pos_sign {x H : Int} (hH : 0 < H) : (x * H = 0 ↔ x = 0) ∧ (x * H > 0 ↔ x > 0) := by
  rcases Int.lt_trichotomy x 0 with h | h | h
  · have := mnp h hH; omega
  · subst h; simp
  · have := mpp h hH; omega

/-- the purely propositional step shared by the three edge orientations -/
theorem hit_assemble {r1 r2 r3 r4 U D D2 lo hi Glo Ghi : Int} {T1 T2 T3 T4 : Prop}
    (E1 : r1 = 0 ↔ U = 0) (E2 : r2 = 0 ↔ D = U)
    (E12 : r1 ≠ 0 → r2 ≠ 0 → ((r1 > 0 ↔ ¬ r2 > 0) ↔ ((0 < U ∧ U < D) ∨ (D < U ∧ U < 0))))
    (E3 : r3 = 0 ↔ Glo = 0) (E4 : r4 = 0 ↔ Ghi = 0)
    (E34 : r3 ≠ 0 → r4 ≠ 0 → ((r3 > 0 ↔ ¬ r4 > 0) ↔ WOpp Glo Ghi))
    (t1 : U = 0 → (T1 ↔ (lo ≤ 0 ∧ 0 ≤ hi))) (t2 : D = U → (T2 ↔ (lo ≤ D2 ∧ D2 ≤ hi)))
    (a3 : ((0 < U ∧ U < D) ∨ (D < U ∧ U < 0)) → Glo = 0 → T3)
    (a4 : ((0 < U ∧ U < D) ∨ (D < U ∧ U < 0)) → Ghi = 0 → T4) :
    ((r1 = 0 ∧ r2 ≠ 0 ∧ T1) ∨ (r1 ≠ 0 ∧ r2 = 0 ∧ T2) ∨
      (r1 ≠ 0 ∧ r2 ≠ 0 ∧ (r1 > 0 ↔ ¬ r2 > 0) ∧
        ((r3 = 0 ∧ T3) ∨ (r3 ≠ 0 ∧ r4 = 0 ∧ T4) ∨ (r3 ≠ 0 ∧ r4 ≠ 0 ∧ (r3 > 0 ↔ ¬ r4 > 0))))) ↔
    ((U = 0 ∧ D ≠ U ∧ lo ≤ 0 ∧ 0 ≤ hi) ∨ (U ≠ 0 ∧ D = U ∧ lo ≤ D2 ∧ D2 ≤ hi) ∨
      (((0 < U ∧ U < D) ∨ (D < U ∧ U < 0)) ∧ WOpp Glo Ghi)) := by
  constructor
  · rintro (⟨z1, n2, hp⟩ | ⟨n1, z2, hq⟩ | ⟨n1, n2, h12, hh⟩)
    · have hU := E1.mp z1
      have := (t1 hU).mp hp
      exact Or.inl ⟨hU, fun hc => n2 (E2.mpr hc), this.1, this.2⟩
    · have hD := E2.mp z2
      have := (t2 hD).mp hq
      exact Or.inr (Or.inl ⟨fun hc => n1 (E1.mpr hc), hD, this.1, this.2⟩)
    · refine Or.inr (Or.inr ⟨(E12 n1 n2).mp h12, ?_⟩)
      rcases hh with ⟨z3, _⟩ | ⟨_, z4, _⟩ | ⟨n3, n4, h34⟩
      · have := E3.mp z3; unfold WOpp; omega
      · have := E4.mp z4; unfold WOpp; omega
      · exact (E34 n3 n4).mp h34
  · rintro (⟨hU, hD, h1, h2⟩ | ⟨hU, hD, h1, h2⟩ | ⟨hs, hw⟩)
    · exact Or.inl ⟨E1.mpr hU, fun hc => hD (E2.mp hc), (t1 hU).mpr ⟨h1, h2⟩⟩
    · exact Or.inr (Or.inl ⟨fun hc => hU (E1.mp hc), E2.mpr hD, (t2 hD).mpr ⟨h1, h2⟩⟩)
    · have n1 : r1 ≠ 0 := fun hc => by have := E1.mp hc; omega
      have n2 : r2 ≠ 0 := fun hc => by have := E2.mp hc; omega
      refine Or.inr (Or.inr ⟨n1, n2, (E12 n1 n2).mpr hs, ?_⟩)
      by_cases z3 : Glo = 0
      · exact Or.inl ⟨E3.mpr z3, a3 hs z3⟩
      · have n3 : r3 ≠ 0 := fun hc => z3 (E3.mp hc)
        by_cases z4 : Ghi = 0
        · exact Or.inr (Or.inl ⟨n3, E4.mpr z4, a4 hs z4⟩)
        · have n4 : r4 ≠ 0 := fun hc => z4 (E4.mp hc)
          exact Or.inr (Or.inr ⟨n3, n4, (E34 n3 n4).mpr hw⟩)

theorem between_iff (q lo hi : Int) : between q lo hi = true ↔ ((lo < q ∧ q < hi) ∨ (q ≤ lo ∧ hi ≤ q)) := by
  unfold between
  by_cases h1 : q > lo <;> by_cases h2 : q < hi <;> simp [h1, h2] <;> omega

/-- a point on the line of a vertical edge lies on the closed edge iff `GetSegmentIntersection`'s tests say so -/
theorem span_vert (p : Pt) (c lo hi : Int) (hx : c - p.x = 0) (hlh : lo < hi) :
    (p = ⟨c, lo⟩ ∨ p = ⟨c, hi⟩ ∨ onSpan p ⟨c, lo⟩ ⟨c, hi⟩ = true) ↔ (lo - p.y ≤ 0 ∧ 0 ≤ hi - p.y) := by
  cases p with
  | mk x y =>
    simp only at hx
    have e : onSpan ⟨x, y⟩ ⟨c, lo⟩ ⟨c, hi⟩ = between y lo hi := by
      unfold onSpan; rw [if_neg (by simp only; omega)]
    rw [e, between_iff]
    simp only [Pt.mk.injEq]
    omega

/-- the same for a horizontal edge given from its low to its high end -/
theorem span_horiz (p : Pt) (c lo hi : Int) (hy : c - p.y = 0) (hlh : lo < hi) :
    (p = ⟨lo, c⟩ ∨ p = ⟨hi, c⟩ ∨ onSpan p ⟨lo, c⟩ ⟨hi, c⟩ = true) ↔ (lo - p.x ≤ 0 ∧ 0 ≤ hi - p.x) := by
  cases p with
  | mk x y =>
    simp only at hy
    have e : onSpan ⟨x, y⟩ ⟨lo, c⟩ ⟨hi, c⟩ = between x lo hi := by
      unfold onSpan; rw [if_pos rfl]
    rw [e, between_iff]
    simp only [Pt.mk.injEq]
    omega

/-- … and given from its high to its low end (`rectPath[2] → rectPath[3]`) -/
theorem span_horiz_rev (p : Pt) (c lo hi : Int) (hy : c - p.y = 0) (hlh : lo < hi) :
    (p = ⟨hi, c⟩ ∨ p = ⟨lo, c⟩ ∨ onSpan p ⟨hi, c⟩ ⟨lo, c⟩ = true) ↔ (lo - p.x ≤ 0 ∧ 0 ≤ hi - p.x) := by
  cases p with
  | mk x y =>
    simp only at hy
    have e : onSpan ⟨x, y⟩ ⟨hi, c⟩ ⟨lo, c⟩ = between x hi lo := by
      unfold onSpan; rw [if_pos rfl]
    rw [e, between_iff]
    simp only [Pt.mk.injEq]
    omega

/-- `u * d = a * w` with `u` strictly between `0` and `w`: `a` is strictly between `0` and `d` -/
theorem prop_between {u w a d : Int} (h : u * d = a * w) (hs : (0 < u ∧ u < w) ∨ (w < u ∧ u < 0)) :
    (0 < d → 0 < a ∧ a < d) ∧ (d < 0 → d < a ∧ a < 0) := by
  rcases hs with ⟨h1, h2⟩ | ⟨h1, h2⟩
  · have hw : 0 < w := by omega
    constructor
    · intro hd
      have f1 := mpp h1 hd
      have ha : 0 < a := pos_of_mul_pos_right hw (by omega)
      refine ⟨ha, ?_⟩
      by_cases hc : a < d
      · exact hc
      · exfalso
        have f2 := mle' (a := w) (by omega) (show d ≤ a by omega)
        have f3 := mlt' hd h2
        have f4 := Int.mul_comm w d
        omega
    · intro hd
      have f1 := mpn h1 hd
      have ha : a < 0 := neg_of_mul_neg_right hw (by omega)
      refine ⟨?_, ha⟩
      by_cases hc : d < a
      · exact hc
      · exfalso
        have f2 := mle' (a := w) (by omega) (show a ≤ d by omega)
        have f3 := mltn' hd h2
        have f4 := Int.mul_comm w d
        omega
  · have h' : (-u) * d = a * (-w) := by simp only [Int.neg_mul, Int.mul_neg]; omega
    have hw : 0 < -w := by omega
    have h1' : 0 < -u := by omega
    have h2' : -u < -w := by omega
    constructor
    · intro hd
      have f1 := mpp h1' hd
      have ha : 0 < a := pos_of_mul_pos_right hw (by omega)
      refine ⟨ha, ?_⟩
      by_cases hc : a < d
      · exact hc
      · exfalso
        have f2 := mle' (a := -w) (by omega) (show d ≤ a by omega)
        have f3 := mlt' hd h2'
        have f4 := Int.mul_comm (-w) d
        omega
    · intro hd
      have f1 := mpn h1' hd
      have ha : a < 0 := neg_of_mul_neg_right hw (by omega)
      refine ⟨?_, ha⟩
      by_cases hc : d < a
      · exact hc
      · exfalso
        have f2 := mle' (a := -w) (by omega) (show a ≤ d by omega)
        have f3 := mltn' hd h2'
        have f4 := Int.mul_comm (-w) d
        omega

/-- a corner on the line of a segment that strictly straddles the corner's vertical line is within the segment's span -/
theorem span_auto_vert (p q : Pt) (c y0 : Int)
    (hs : (0 < c - p.x ∧ c - p.x < q.x - p.x) ∨ (q.x - p.x < c - p.x ∧ c - p.x < 0))
    (hg : (c - p.x) * (q.y - p.y) - (y0 - p.y) * (q.x - p.x) = 0) : onSpan ⟨c, y0⟩ p q = true := by
  unfold onSpan
  split
  · exact between_true (by simp only; omega)
  · rename_i hne
    have pb := prop_between (u := c - p.x) (w := q.x - p.x) (a := y0 - p.y) (d := q.y - p.y) (by omega) hs
    apply between_true
    simp only
    omega

/-- the same for a segment that strictly straddles the corner's horizontal line -/
theorem span_auto_horiz (p q : Pt) (x0 c : Int)
    (hs : (0 < c - p.y ∧ c - p.y < q.y - p.y) ∨ (q.y - p.y < c - p.y ∧ c - p.y < 0)) :
    onSpan ⟨x0, c⟩ p q = true := by
  unfold onSpan
  rw [if_neg (by omega)]
  exact between_true (by simp only; omega)

/-- **`GetSegmentIntersection` against a vertical edge** `(c, lo) → (c, hi)` (`rectPath[0] → [3]`, `[1] → [2]`). -/
theorem segHit_vertical (p q : Pt) (c lo hi : Int) (hlh : lo < hi) :
    SegHit p q ⟨c, lo⟩ ⟨c, hi⟩ ↔ HitO (c - p.x) (lo - p.y) (hi - p.y) (q.x - p.x) (q.y - p.y) := by
  have r1 : crossZ p ⟨c, lo⟩ ⟨c, hi⟩ = (c - p.x) * (hi - lo) := by simp only [crossZ]; grind
  have r2 : crossZ q ⟨c, lo⟩ ⟨c, hi⟩ = (c - p.x - (q.x - p.x)) * (hi - lo) := by simp only [crossZ]; grind
  have r3 : crossZ ⟨c, lo⟩ p q = -((c - p.x) * (q.y - p.y) - (lo - p.y) * (q.x - p.x)) := by
    simp only [crossZ]; grind
  have r4 : crossZ ⟨c, hi⟩ p q = -((c - p.x) * (q.y - p.y) - (hi - p.y) * (q.x - p.x)) := by
    simp only [crossZ]; grind
  have s1 := mul_pos_sign (x := c - p.x) (H := hi - lo) (by omega)
  have s2 := mul_pos_sign (x := c - p.x - (q.x - p.x)) (H := hi - lo) (by omega)
  have t2 := span_vert q c lo hi
  exact hit_assemble (by omega) (by omega) (by omega) (by omega) (by omega) (by unfold WOpp; omega)
    (fun h => span_vert p c lo hi h hlh)
    (fun h => by rw [t2 (by omega) hlh]; omega)
    (fun hs hg => Or.inr (Or.inr (span_auto_vert p q c lo hs hg)))
    (fun hs hg => Or.inr (Or.inr (span_auto_vert p q c hi hs hg)))

/-- **`GetSegmentIntersection` against the horizontal edge** `(lo, c) → (hi, c)` (`rectPath[0] → [1]`). -/
theorem segHit_horizontal (p q : Pt) (c lo hi : Int) (hlh : lo < hi) :
    SegHit p q ⟨lo, c⟩ ⟨hi, c⟩ ↔ HitO (c - p.y) (lo - p.x) (hi - p.x) (q.y - p.y) (q.x - p.x) := by
  have r1 : crossZ p ⟨lo, c⟩ ⟨hi, c⟩ = -((c - p.y) * (hi - lo)) := by simp only [crossZ]; grind
  have r2 : crossZ q ⟨lo, c⟩ ⟨hi, c⟩ = -((c - p.y - (q.y - p.y)) * (hi - lo)) := by simp only [crossZ]; grind
  have r3 : crossZ ⟨lo, c⟩ p q = (c - p.y) * (q.x - p.x) - (lo - p.x) * (q.y - p.y) := by
    simp only [crossZ]; grind
  have r4 : crossZ ⟨hi, c⟩ p q = (c - p.y) * (q.x - p.x) - (hi - p.x) * (q.y - p.y) := by
    simp only [crossZ]; grind
  have s1 := mul_pos_sign (x := c - p.y) (H := hi - lo) (by omega)
  have s2 := mul_pos_sign (x := c - p.y - (q.y - p.y)) (H := hi - lo) (by omega)
  have t2 := span_horiz q c lo hi
  exact hit_assemble (by omega) (by omega) (by omega) (by omega) (by omega) (by unfold WOpp; omega)
    (fun h => span_horiz p c lo hi h hlh)
    (fun h => by rw [t2 (by omega) hlh]; omega)
    (fun hs _ => Or.inr (Or.inr (span_auto_horiz p q lo c hs)))
    (fun hs _ => Or.inr (Or.inr (span_auto_horiz p q hi c hs)))

/-- **`GetSegmentIntersection` against the horizontal edge** `(hi, c) → (lo, c)` (`rectPath[2] → [3]`). -/
theorem segHit_horizontal_rev (p q : Pt) (c lo hi : Int) (hlh : lo < hi) :
    SegHit p q ⟨hi, c⟩ ⟨lo, c⟩ ↔ HitO (c - p.y) (lo - p.x) (hi - p.x) (q.y - p.y) (q.x - p.x) := by
  have r1 : crossZ p ⟨hi, c⟩ ⟨lo, c⟩ = (c - p.y) * (hi - lo) := by simp only [crossZ]; grind
  have r2 : crossZ q ⟨hi, c⟩ ⟨lo, c⟩ = (c - p.y - (q.y - p.y)) * (hi - lo) := by simp only [crossZ]; grind
  have r3 : crossZ ⟨hi, c⟩ p q = (c - p.y) * (q.x - p.x) - (hi - p.x) * (q.y - p.y) := by
    simp only [crossZ]; grind
  have r4 : crossZ ⟨lo, c⟩ p q = (c - p.y) * (q.x - p.x) - (lo - p.x) * (q.y - p.y) := by
    simp only [crossZ]; grind
  have s1 := mul_pos_sign (x := c - p.y) (H := hi - lo) (by omega)
  have s2 := mul_pos_sign (x := c - p.y - (q.y - p.y)) (H := hi - lo) (by omega)
  have t2 := span_horiz_rev q c lo hi
  unfold HitO
  rw [wopp_comm]
  exact hit_assemble (by omega) (by omega) (by omega) (by omega) (by omega) (by unfold WOpp; omega)
    (fun h => span_horiz_rev p c lo hi h hlh)
    (fun h => (t2 (by omega) hlh).trans (by omega))
    (fun hs _ => Or.inr (Or.inr (span_auto_horiz p q hi c hs)))
    (fun hs _ => Or.inr (Or.inr (span_auto_horiz p q lo c hs)))

end Clipper.Lemmas.RLG
