/-
Lemmas about the rose-tree layer of the PolyTree model (`addChild`, `toPaths`, `area2`, `at?`).
-/
import ClipperVerif.Model.Owner
namespace Clipper.Model.Owner
open Clipper

/-! ### sums of `Int` lists under permutation -/

theorem perm_sum_int {l₁ l₂ : List Int} (h : l₁.Perm l₂) : l₁.sum = l₂.sum := by
  induction h with
  | nil => rfl
  | cons x _ ih => simp [ih]
  | swap x y l => simp only [List.sum_cons]; omega
  | trans _ _ ih1 ih2 => exact ih1.trans ih2

/-! ### `toPathsL` / `area2L` on append and set -/

theorem toPathsL_append (a b : List Tree) : toPathsL (a ++ b) = toPathsL a ++ toPathsL b := by
  induction a with
  | nil => simp [toPathsL]
  | cons t ts ih => simp [toPathsL, ih]

theorem toPathsL_single (t : Tree) : toPathsL [t] = t.toPaths := by simp [toPathsL]

theorem toPathsL_set {ks : List Tree} {k : Nat} {c c' : Tree} {q : Path}
    (hk : ks[k]? = some c) (hc : c'.toPaths.Perm (q :: c.toPaths)) :
    (toPathsL (ks.set k c')).Perm (q :: toPathsL ks) := by
  induction ks generalizing k with
  | nil => simp at hk
  | cons t ts ih =>
    cases k with
    | zero =>
      simp at hk; subst hk
      simp only [List.set_cons_zero, toPathsL]
      exact (hc.append_right _)
    | succ k =>
      simp at hk
      simp only [List.set_cons_succ, toPathsL]
      have := ih hk
      exact ((this.append_left t.toPaths).trans List.perm_middle)

theorem area2L_append (a b : List Tree) : area2L (a ++ b) = area2L a + area2L b := by
  induction a with
  | nil => simp [area2L]
  | cons t ts ih => simp [area2L, ih]; omega

theorem area2L_set {ks : List Tree} {k : Nat} {c c' : Tree} {d : Int}
    (hk : ks[k]? = some c) (hc : c'.area2 = c.area2 + d) :
    area2L (ks.set k c') = area2L ks + d := by
  induction ks generalizing k with
  | nil => simp at hk
  | cons t ts ih =>
    cases k with
    | zero => simp at hk; subst hk; simp only [List.set_cons_zero, area2L, hc]; omega
    | succ k => simp at hk; simp only [List.set_cons_succ, area2L, ih hk]; omega

/-! ### `addChild` -/

theorem addChild_toPaths' {t t' : Tree} {a a' : List Nat} {q : Path}
    (h : addChild t a q = some (t', a')) : t'.toPaths.Perm (q :: t.toPaths) := by
  induction a generalizing t t' a' with
  | nil =>
    cases t with
    | node p ks =>
      simp only [addChild, Option.some.injEq, Prod.mk.injEq] at h
      obtain ⟨rfl, _⟩ := h
      simp only [Tree.toPaths, toPathsL_append, toPathsL_single, toPathsL, List.append_nil]
      have : (p :: (toPathsL ks ++ [q])).Perm (p :: q :: toPathsL ks) :=
        List.Perm.cons p (List.perm_append_comm.trans (by simp))
      exact this.trans (List.Perm.swap q p _)
  | cons k a ih =>
    cases t with
    | node p ks =>
      simp only [addChild] at h
      split at h
      · simp at h
      · rename_i c hc
        split at h
        · simp at h
        · rename_i c' a'' hca
          simp only [Option.some.injEq, Prod.mk.injEq] at h
          obtain ⟨rfl, _⟩ := h
          simp only [Tree.toPaths]
          have := toPathsL_set hc (ih hca)
          exact (List.Perm.cons p this).trans (List.Perm.swap q p _)

theorem addChild_area2' {t t' : Tree} {a a' : List Nat} {q : Path}
    (h : addChild t a q = some (t', a')) : t'.area2 = t.area2 + shoelace2 q := by
  induction a generalizing t t' a' with
  | nil =>
    cases t with
    | node p ks =>
      simp only [addChild, Option.some.injEq, Prod.mk.injEq] at h
      obtain ⟨rfl, _⟩ := h
      simp only [Tree.area2, area2L_append, area2L]; omega
  | cons k a ih =>
    cases t with
    | node p ks =>
      simp only [addChild] at h
      split at h
      · simp at h
      · rename_i c hc
        split at h
        · simp at h
        · rename_i c' a'' hca
          simp only [Option.some.injEq, Prod.mk.injEq] at h
          obtain ⟨rfl, _⟩ := h
          simp only [Tree.area2, area2L_set hc (ih hca)]; omega

/-- the new address is the parent's address extended by one position -/
theorem addChild_addr {t t' : Tree} {a a' : List Nat} {q : Path}
    (h : addChild t a q = some (t', a')) : ∃ k, a' = a ++ [k] := by
  induction a generalizing t t' a' with
  | nil =>
    cases t with
    | node p ks =>
      simp only [addChild, Option.some.injEq, Prod.mk.injEq] at h
      exact ⟨ks.length, by simp [h.2]⟩
  | cons k a ih =>
    cases t with
    | node p ks =>
      simp only [addChild] at h
      split at h
      · simp at h
      · split at h
        · simp at h
        · rename_i c' a'' hca
          simp only [Option.some.injEq, Prod.mk.injEq] at h
          obtain ⟨k', hk'⟩ := ih hca
          exact ⟨k', by rw [← h.2, hk']; rfl⟩

/-- the parent address was valid -/
theorem addChild_parent_valid {t t' : Tree} {a a' : List Nat} {q : Path}
    (h : addChild t a q = some (t', a')) : ∃ n, t.at? a = some n := by
  induction a generalizing t t' a' with
  | nil => exact ⟨t, by cases t; rfl⟩
  | cons k a ih =>
    cases t with
    | node p ks =>
      simp only [addChild] at h
      split at h
      · simp at h
      · rename_i c hc
        split at h
        · simp at h
        · rename_i c' a'' hca
          obtain ⟨n, hn⟩ := ih hca
          exact ⟨n, by simp only [Tree.at?, hc, hn]⟩

/-- the new address holds the new node -/
theorem addChild_at_new {t t' : Tree} {a a' : List Nat} {q : Path}
    (h : addChild t a q = some (t', a')) : t'.at? a' = some (.node q []) := by
  induction a generalizing t t' a' with
  | nil =>
    cases t with
    | node p ks =>
      simp only [addChild, Option.some.injEq, Prod.mk.injEq] at h
      obtain ⟨rfl, rfl⟩ := h
      simp [Tree.at?]
  | cons k a ih =>
    cases t with
    | node p ks =>
      simp only [addChild] at h
      split at h
      · simp at h
      · rename_i c hc
        split at h
        · simp at h
        · rename_i c' a'' hca
          simp only [Option.some.injEq, Prod.mk.injEq] at h
          obtain ⟨rfl, rfl⟩ := h
          have hlt : k < ks.length := by
            rcases Nat.lt_or_ge k ks.length with h | h
            · exact h
            · simp [List.getElem?_eq_none h] at hc
          simp only [Tree.at?, List.getElem?_set, if_pos hlt, if_true]
          exact ih hca

/-- the new address was not an address of the old tree (freshness) -/
theorem addChild_at_fresh {t t' : Tree} {a a' : List Nat} {q : Path}
    (h : addChild t a q = some (t', a')) : t.at? a' = none := by
  induction a generalizing t t' a' with
  | nil =>
    cases t with
    | node p ks =>
      simp only [addChild, Option.some.injEq, Prod.mk.injEq] at h
      obtain ⟨_, rfl⟩ := h
      simp [Tree.at?]
  | cons k a ih =>
    cases t with
    | node p ks =>
      simp only [addChild] at h
      split at h
      · simp at h
      · rename_i c hc
        split at h
        · simp at h
        · rename_i c' a'' hca
          simp only [Option.some.injEq, Prod.mk.injEq] at h
          obtain ⟨_, rfl⟩ := h
          simp only [Tree.at?, hc]
          exact ih hca

/-- every valid address stays valid and keeps its polygon -/
theorem addChild_at_old {t t' : Tree} {a a' : List Nat} {q : Path}
    (h : addChild t a q = some (t', a')) {b : List Nat} {n : Tree} (hb : t.at? b = some n) :
    ∃ n', t'.at? b = some n' ∧ n'.path = n.path := by
  induction a generalizing t t' a' b n with
  | nil =>
    cases t with
    | node p ks =>
      simp only [addChild, Option.some.injEq, Prod.mk.injEq] at h
      obtain ⟨rfl, _⟩ := h
      cases b with
      | nil =>
        simp only [Tree.at?, Option.some.injEq] at hb
        subst hb
        exact ⟨_, rfl, rfl⟩
      | cons j b =>
        simp only [Tree.at?] at hb ⊢
        split at hb
        · simp at hb
        · rename_i c hc
          have hlt : j < ks.length := by
            rcases Nat.lt_or_ge j ks.length with h | h
            · exact h
            · simp [List.getElem?_eq_none h] at hc
          rw [List.getElem?_append_left hlt, hc]
          exact ⟨n, hb, rfl⟩
  | cons k a ih =>
    cases t with
    | node p ks =>
      simp only [addChild] at h
      split at h
      · simp at h
      · rename_i c hc
        split at h
        · simp at h
        · rename_i c' a'' hca
          simp only [Option.some.injEq, Prod.mk.injEq] at h
          obtain ⟨rfl, _⟩ := h
          cases b with
          | nil =>
            simp only [Tree.at?, Option.some.injEq] at hb
            subst hb
            exact ⟨_, rfl, rfl⟩
          | cons j b =>
            simp only [Tree.at?] at hb ⊢
            split at hb
            · simp at hb
            · rename_i d hd
              have hlt : k < ks.length := by
                rcases Nat.lt_or_ge k ks.length with h | h
                · exact h
                · simp [List.getElem?_eq_none h] at hc
              by_cases hkj : k = j
              · subst hkj
                rw [hc] at hd
                simp only [Option.some.injEq] at hd
                subst hd
                simp only [List.getElem?_set, if_pos hlt, if_true]
                exact ih hca hb
              · simp only [List.getElem?_set, if_neg hkj, hd]
                exact ⟨n, hb, rfl⟩

/-! ### area of a tree = sum over its flattened paths -/

mutual
theorem tree_area2_eq : (t : Tree) → t.area2 = (t.toPaths.map shoelace2).sum
  | .node p ks => by
    simp only [Tree.area2, Tree.toPaths, List.map_cons, List.sum_cons, area2L_eq ks]
theorem area2L_eq : (ks : List Tree) → area2L ks = ((toPathsL ks).map shoelace2).sum
  | [] => by simp [area2L, toPathsL]
  | t :: ts => by
    simp only [area2L, toPathsL, List.map_append, List.sum_append, tree_area2_eq t, area2L_eq ts]
end

theorem shoelace2_nil : shoelace2 [] = 0 := by simp [shoelace2, edgesOf]


theorem Tree.at?_nil (t : Tree) : t.at? [] = some t := by cases t; rfl

theorem addChild_root_path {t t' : Tree} {a a' : List Nat} {q : Path}
    (h : addChild t a q = some (t', a')) : t'.path = t.path := by
  obtain ⟨n', hn', e⟩ := addChild_at_old h (Tree.at?_nil t)
  rw [Tree.at?_nil] at hn'
  simp only [Option.some.injEq] at hn'
  subst hn'
  exact e

theorem addChild_polyTreeToPaths' {t t' : Tree} {a a' : List Nat} {q : Path}
    (h : addChild t a q = some (t', a')) : (polyTreeToPaths t').Perm (q :: polyTreeToPaths t) := by
  have h1 := addChild_toPaths' h
  have h2 := addChild_root_path h
  cases t with
  | node p ks =>
    cases t' with
    | node p' ks' =>
      simp only [Tree.path] at h2
      subst h2
      simp only [Tree.toPaths] at h1
      simp only [polyTreeToPaths, Tree.kids]
      exact (h1.trans (List.Perm.swap _ _ _)).cons_inv


/-! ### the paths of the placed outrecs, in table order -/

theorem filterMap_range_congr {α : Type} (f f' : Nat → Option α) (n : Nat) (h : ∀ j, j < n → f' j = f j) :
    (List.range n).filterMap f' = (List.range n).filterMap f := by
  induction n with
  | zero => rfl
  | succ n ih =>
    rw [List.range_succ, List.filterMap_append, List.filterMap_append, ih (fun j hj => h j (by omega))]
    simp only [List.filterMap_cons, List.filterMap_nil, h n (by omega)]

theorem filterMap_range_update {α : Type} (f f' : Nat → Option α) (i : Nat) (q : α)
    (hi : f i = none) (hi' : f' i = some q) (hne : ∀ j, j ≠ i → f' j = f j) (n : Nat) (hin : i < n) :
    ((List.range n).filterMap f').Perm (q :: (List.range n).filterMap f) := by
  induction n with
  | zero => omega
  | succ n ih =>
    rw [List.range_succ, List.filterMap_append, List.filterMap_append]
    by_cases h : i < n
    · have e : f' n = f n := hne n (by omega)
      simp only [List.filterMap_cons, List.filterMap_nil, e]
      exact (ih h).append_right _
    · have e : i = n := by omega
      subst e
      rw [filterMap_range_congr f f' i (fun j hj => hne j (by omega))]
      simp only [List.filterMap_cons, List.filterMap_nil, hi, hi', List.append_nil]
      exact List.perm_append_singleton _ _

/-- the path of outrec `j` if it has a polypath -/
def placedPath (T : Table) (j : Nat) : Option Path :=
  match T[j]? with
  | none => none
  | some r => if r.polypath.isSome then some r.path else none

/-- the paths of the outrecs that own a tree node, in outrec order -/
def placedPaths (T : Table) : List Path := (List.range T.size).filterMap (placedPath T)

/-- the multiset invariant: the flattened tree holds exactly the paths of the placed outrecs -/
def PInv (S : St) : Prop := (polyTreeToPaths S.tree).Perm (placedPaths S.recs)

end Clipper.Model.Owner
