/-
Helper lemmas for `Props/C01Region.lean`, part 3: one scanbeam of the derived run, and the induction over the scanbeams.
Core Lean only.
-/
import ClipperVerif.Lemmas.C01RegionSweep
import ClipperVerif.Props.C01Sweep
namespace Clipper.Lemmas.C01Region
open Clipper Clipper.Model Clipper.Model.AelOrder Clipper.Model.SweepOrder Clipper.Model.SweepEvents
open Clipper.Lemmas.SweepOrder Clipper.Props.C01Sweep

/-- what is proved of one scanbeam of the derived run that starts in the L2 state `l0`:
the three groups of events are accepted one after the other and the L2 state follows the AEL of the scanbeam model -/
structure BeamTracked (cfg : Cfg) (lab : Lab) (l0 : Ael) (r : BeamRun) (lI lX lT : Ael) : Prop where
  runIns : Model.run cfg l0 r.evIns = some lI
  trIns : Tracks lab lI r.snap.inserted
  runIsect : Model.run cfg lI r.evIsect = some lX
  trIsect : Tracks lab lX r.snap.afterIsect
  runTop : Model.run cfg lX r.evTop = some lT
  trTop : Tracks lab lT r.snap.afterTop

/-- what is proved of the AEL of one scanbeam after the insertions: it consists of EXACTLY the input edges that cross the
scanbeam, each once, in the exact order just above the bottom scanline -/
structure BeamFacts (edges : List SEdge) (s : Snap) : Prop where
  hy : s.y1 < s.y0
  mem : ∀ e ∈ s.inserted, e ∈ edges ∧ AliveAbove s.y0 e ∧ AliveBelow s.y1 e
  complete : ∀ e ∈ edges, AliveAbove s.y0 e → e ∈ s.inserted
  sorted : s.inserted.Pairwise (ltAbove s.y0)
  noBot : NoBotInside edges s.y0 s.y1
  noTop : NoTopInside edges s.y0 s.y1
  isect_perm : s.afterIsect.Perm s.inserted
  isect_sorted : s.afterIsect.Pairwise (ltBelow s.y1)

/-- the edges of a scanbeam: input edges that cross the whole scanbeam -/
theorem inserted_mem (edges : List SEdge) (valid : Int → SEdge → SEdge → Bool) (cx : SEdge → Int → Int)
    (next : SEdge → Option SEdge) (mins : Int → List (SEdge × SEdge)) (ael : List SEdge) (y0 y1 : Int)
    (hup : AllUp edges) (hb : BeamOK edges valid next mins y0 y1) (h0 : AelAt edges mins y0 ael)
    (hins : ∀ e, e ∈ (beamStep valid cx next mins ael y0 y1).inserted ↔ e ∈ ael ∨ e ∈ boundsOf (mins y0)) :
    ∀ e ∈ (beamStep valid cx next mins ael y0 y1).inserted, e ∈ edges ∧ AliveAbove y0 e ∧ AliveBelow y1 e := by
  obtain ⟨hy, hm, _, _, hnt, _⟩ := hb
  intro e he
  have hh : e ∈ edges ∧ AliveAbove y0 e := by
    rcases (hins e).1 he with h | h
    · exact ⟨(h0.mem e h).1, (h0.mem e h).2.1⟩
    · obtain ⟨p, hp, hep⟩ := mem_boundsOf.1 h
      obtain ⟨e1, e2, hbot, hby, _⟩ := hm.1 p hp
      rcases hep with rfl | rfl
      · have := hup _ e1
        exact ⟨e1, by unfold AliveAbove; unfold SEdge.Up at this; omega⟩
      · have := hup _ e2
        rw [hbot] at hby
        exact ⟨e2, by unfold AliveAbove; unfold SEdge.Up at this; omega⟩
  have := hnt e hh.1
  exact ⟨hh.1, hh.2, by unfold AliveBelow; have := hh.2; unfold AliveAbove at this; omega⟩

/-- **one scanbeam.** -/
theorem beam_tracked (cfg : Cfg) (edges : List SEdge) (valid : Int → SEdge → SEdge → Bool) (cx : SEdge → Int → Int)
    (next : SEdge → Option SEdge) (mins : Int → List (SEdge × SEdge)) (lab : Lab) (ael : List SEdge) (y0 y1 : Int) (l0 : Ael)
    (hup : AllUp edges) (hnx : NextOK edges next mins) (hn : Near cx)
    (hdx : DxOK edges lab) (hnl : NextLab edges next lab) (hst : Starts edges next mins)
    (hb : BeamOK edges valid next mins y0 y1) (hr : BeamR edges next mins lab y0 y1)
    (h0 : AelAt edges mins y0 ael) (hc : CompleteAt edges mins y0 ael) (ht : Tracks lab l0 ael) :
    (∃ lI lX lT, BeamTracked cfg lab l0 (beamRun valid cx next mins lab ael y0 y1) lI lX lT) ∧
    BeamFacts edges (beamStep valid cx next mins ael y0 y1) ∧
    AelAt edges mins y1 (beamStep valid cx next mins ael y0 y1).afterTop ∧
    CompleteAt edges mins y1 (beamStep valid cx next mins ael y0 y1).afterTop := by
  obtain ⟨⟨i1, i2⟩, ⟨b1, _, b3⟩, c1⟩ := scanbeam_keeps_sorted edges valid cx next mins ael y0 y1 hup hnx hn hb h0
  obtain ⟨hnb, hml, hmx⟩ := hr
  have hmem := inserted_mem edges valid cx next mins ael y0 y1 hup hb h0 i2
  obtain ⟨hy, hm, _, _, hnt, hgt⟩ := hb
  obtain ⟨hI, hC⟩ := completeAt_step edges valid cx next mins ael y0 y1 hup hnx hst hnb hy i2 hc
  refine ⟨?_, ⟨hy, hmem, hI, i1, hnb, hnt, b1, b3⟩, c1, hC⟩
  -- (1) insertions
  obtain ⟨lI, rI, tI⟩ := insEvents_tracks cfg (valid y0) lab (mins y0) ael l0 ht (fun p hp =>
    ⟨hml p hp, hdx p.1 (hm.1 p hp).1⟩)
  -- (2) intersections
  obtain ⟨lX, rX, tX⟩ := sortEvents_tracks cfg lab (leCx cx y1) _ lI tI
  -- (3) top of the scanbeam
  have hmemX : ∀ e ∈ (beamStep valid cx next mins ael y0 y1).afterIsect, e ∈ edges ∧ AliveBelow y1 e := by
    intro e he
    have := hmem e (b1.mem_iff.1 he)
    exact ⟨this.1, this.2.2⟩
  have hadj : MaxAdjAux next y1 lab none (beamStep valid cx next mins ael y0 y1).afterIsect := by
    refine maxAdj_of_sorted edges next lab y1 hup hgt hmx _ _ (Nat.le_refl _) b3 hmemX ?_
    intro a _ _ b hbe hba _
    have := hnb b hbe
    exact b1.mem_iff.2 (hI b hbe (by unfold AliveAbove; unfold AliveBelow at hba; omega))
  obtain ⟨lT, rT, tT⟩ := (topEvents_tracks cfg next y1 lab (beamStep valid cx next mins ael y0 y1).afterIsect [] lX 0 rfl
    (fun e he e' h => hnl e (hmemX e he).1 e' h)).1 tX hadj
  exact ⟨lI, lX, lT, ⟨rI, tI, rX, tX, rT, tT⟩⟩

theorem beamRuns_cons (valid : Int → SEdge → SEdge → Bool) (cx : SEdge → Int → Int) (next : SEdge → Option SEdge)
    (mins : Int → List (SEdge × SEdge)) (lab : Lab) (ael : List SEdge) (y0 y1 : Int) (rest : List Int) :
    beamRuns valid cx next mins lab ael (y0 :: y1 :: rest) =
      beamRun valid cx next mins lab ael y0 y1 ::
        beamRuns valid cx next mins lab (beamStep valid cx next mins ael y0 y1).afterTop (y1 :: rest) := by
  simp [beamRuns, beamRun]

/-- the snapshots of the derived run are the scanbeam model's sweep -/
theorem beamRuns_snaps (valid : Int → SEdge → SEdge → Bool) (cx : SEdge → Int → Int) (next : SEdge → Option SEdge)
    (mins : Int → List (SEdge × SEdge)) (lab : Lab) : ∀ (ys : List Int) (ael : List SEdge),
    (beamRuns valid cx next mins lab ael ys).map (·.snap) = sweepFrom valid cx next mins ael ys := by
  intro ys
  induction ys with
  | nil => intro ael; simp [beamRuns, sweepFrom]
  | cons y0 t ih =>
    intro ael
    cases t with
    | nil => simp [beamRuns, sweepFrom]
    | cons y1 rest =>
      rw [beamRuns_cons, sweepFrom_cons, List.map_cons, ih]
      rfl

theorem run_events (cfg : Cfg) (lab : Lab) (l0 : Ael) (r : BeamRun) (lI lX lT : Ael) (h : BeamTracked cfg lab l0 r lI lX lT) :
    Model.run cfg l0 r.events = some lT := by
  simp only [BeamRun.events, run_append, h.runIns, Option.bind_some, h.runIsect, h.runTop]

/-- **the induction over the scanbeams.**  Every scanbeam of the derived run: the events up to it are accepted, and the
L2 state follows the AEL at all three stages; the AEL contains every input edge that crosses the scanbeam. -/
theorem beamRuns_tracked (cfg : Cfg) (edges : List SEdge) (valid : Int → SEdge → SEdge → Bool) (cx : SEdge → Int → Int)
    (next : SEdge → Option SEdge) (mins : Int → List (SEdge × SEdge)) (lab : Lab)
    (hup : AllUp edges) (hnx : NextOK edges next mins) (hn : Near cx)
    (hdx : DxOK edges lab) (hnl : NextLab edges next lab) (hst : Starts edges next mins) :
    ∀ (ys : List Int) (ael : List SEdge) (l0 : Ael), SweepOK edges valid next mins ys → SweepR edges next mins lab ys →
      (∀ y, ys.head? = some y → AelAt edges mins y ael ∧ CompleteAt edges mins y ael) → Tracks lab l0 ael →
      ∀ (pre : List BeamRun) (r : BeamRun) (post : List BeamRun),
        beamRuns valid cx next mins lab ael ys = pre ++ r :: post →
        ∃ l1 lI lX lT, Model.run cfg l0 (pre.flatMap BeamRun.events) = some l1 ∧ BeamTracked cfg lab l1 r lI lX lT ∧
          BeamFacts edges r.snap := by
  intro ys
  induction ys with
  | nil => intro ael l0 _ _ _ _ pre r post h; simp [beamRuns] at h
  | cons y0 t ih =>
    intro ael l0 hok hrr h0 ht pre r post h
    cases t with
    | nil => simp [beamRuns] at h
    | cons y1 rest =>
      rw [beamRuns_cons] at h
      obtain ⟨hb, hrest⟩ := hok
      obtain ⟨hr, hrrest⟩ := hrr
      obtain ⟨⟨lI, lX, lT, hbt⟩, hI, c1, hC⟩ := beam_tracked cfg edges valid cx next mins lab ael y0 y1 l0 hup hnx hn hdx hnl hst
        hb hr (h0 y0 rfl).1 (h0 y0 rfl).2 ht
      cases pre with
      | nil =>
        simp only [List.nil_append, List.cons.injEq] at h
        obtain ⟨h1, _⟩ := h
        subst h1
        exact ⟨l0, lI, lX, lT, rfl, hbt, hI⟩
      | cons r0 pre' =>
        simp only [List.cons_append, List.cons.injEq] at h
        obtain ⟨h1, h2⟩ := h
        subst h1
        obtain ⟨l1, lI', lX', lT', e1, hbt', hI'⟩ := ih _ lT hrest hrrest
          (fun y hy => by simp at hy; subst hy; exact ⟨c1, hC⟩) hbt.trTop pre' r post h2
        refine ⟨l1, lI', lX', lT', ?_, hbt', hI'⟩
        simp only [List.flatMap_cons, run_append, run_events cfg lab l0 _ lI lX lT hbt, Option.bind_some]
        exact e1

/-- the whole derived event list is accepted -/
theorem sweep_accepted (cfg : Cfg) (edges : List SEdge) (valid : Int → SEdge → SEdge → Bool) (cx : SEdge → Int → Int)
    (next : SEdge → Option SEdge) (mins : Int → List (SEdge × SEdge)) (lab : Lab)
    (hup : AllUp edges) (hnx : NextOK edges next mins) (hn : Near cx)
    (hdx : DxOK edges lab) (hnl : NextLab edges next lab) (hst : Starts edges next mins) :
    ∀ (ys : List Int) (ael : List SEdge) (l0 : Ael), SweepOK edges valid next mins ys → SweepR edges next mins lab ys →
      (∀ y, ys.head? = some y → AelAt edges mins y ael ∧ CompleteAt edges mins y ael) → Tracks lab l0 ael →
      ∃ l', Model.run cfg l0 ((beamRuns valid cx next mins lab ael ys).flatMap BeamRun.events) = some l' := by
  intro ys
  induction ys with
  | nil => intro ael l0 _ _ _ _; exact ⟨l0, by simp [beamRuns, Model.run]⟩
  | cons y0 t ih =>
    intro ael l0 hok hrr h0 ht
    cases t with
    | nil => exact ⟨l0, by simp [beamRuns, Model.run]⟩
    | cons y1 rest =>
      rw [beamRuns_cons]
      obtain ⟨hb, hrest⟩ := hok
      obtain ⟨hr, hrrest⟩ := hrr
      obtain ⟨⟨lI, lX, lT, hbt⟩, _, c1, hC⟩ := beam_tracked cfg edges valid cx next mins lab ael y0 y1 l0 hup hnx hn hdx hnl hst
        hb hr (h0 y0 rfl).1 (h0 y0 rfl).2 ht
      obtain ⟨l', e'⟩ := ih _ lT hrest hrrest (fun y hy => by simp at hy; subst hy; exact ⟨c1, hC⟩) hbt.trTop
      refine ⟨l', ?_⟩
      simp only [List.flatMap_cons, run_append, run_events cfg lab l0 _ lI lX lT hbt, Option.bind_some]
      exact e'

end Clipper.Lemmas.C01Region
