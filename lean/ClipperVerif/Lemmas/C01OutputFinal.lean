/-
Helper lemmas for `Props/C01Output.lean`, part 9: the least common multiple of the crossing denominators, the decorated run from the empty
state, the bookkeeping run behind a run of the ring model, splitting a geometric event list.  Core Lean only.
-/
import ClipperVerif.Lemmas.C01OutputBeam
import ClipperVerif.Props.C01Region
namespace Clipper.Lemmas.C01Output
open Clipper Clipper.Model Clipper.Model.AelOrder Clipper.Model.SweepOrder Clipper.Model.SweepEvents Clipper.Model.SweepPoints
open Clipper.Lemmas.SweepOrder Clipper.Lemmas.C01Region Clipper.Props.C01Sweep Clipper.Props.C01Region
open Clipper.Props.C01RegionRings (baseOps baseOf)

theorem foldl_lcm_dvd : ∀ (ds : List Int) (acc : Nat),
    acc ∣ ds.foldl (fun acc d => Nat.lcm acc d.natAbs) acc ∧ ∀ d ∈ ds, d.natAbs ∣ ds.foldl (fun acc d => Nat.lcm acc d.natAbs) acc := by
  intro ds
  induction ds with
  | nil => intro acc; exact ⟨Nat.dvd_refl _, fun d hd => by cases hd⟩
  | cons x xs ih =>
    intro acc
    obtain ⟨h1, h2⟩ := ih (Nat.lcm acc x.natAbs)
    simp only [List.foldl_cons]
    refine ⟨Nat.dvd_trans (Nat.dvd_lcm_left _ _) h1, ?_⟩
    intro d hd
    rcases List.mem_cons.1 hd with rfl | hd
    · exact Nat.dvd_trans (Nat.dvd_lcm_right _ _) h1
    · exact h2 d hd


theorem foldl_lcm_pos : ∀ (ds : List Int) (acc : Nat), 0 < acc → (∀ d ∈ ds, d ≠ 0) →
    0 < ds.foldl (fun acc d => Nat.lcm acc d.natAbs) acc := by
  intro ds
  induction ds with
  | nil => intro acc h _; exact h
  | cons x xs ih =>
    intro acc h hne
    simp only [List.foldl_cons]
    exact ih _ (Nat.lcm_pos h (Int.natAbs_pos.2 (hne x (by simp)))) (fun d hd => hne d (by simp [hd]))


theorem den_of_sweep {valid : Int → GEdge → GEdge → Bool} {cx : GEdge → Int → Int} {next : GEdge → Option GEdge}
    {mins : Int → List (GEdge × GEdge)} {ys : List Int} {D : Int} (h : DenOK D (sweepDens valid cx next mins ys)) :
    ∀ s ∈ sweepFrom valid cx next mins [] ys, ∀ c ∈ geoSwaps s.afterIsect s.inserted, (crossQ c.2.1 c.2.2).d ∣ D := by
  intro s hs c hc
  apply h.2
  simp only [sweepDens, List.mem_flatMap, List.mem_map]
  exact ⟨s, hs, c, hc, rfl⟩


/-- everything the lemma library proves of the decorated run, from the empty state -/
theorem sweepP_empty (cfg : Cfg) (hct : cfg.ct ≠ .noClip) (D : Int) (edges : List GEdge) (valid : Int → GEdge → GEdge → Bool)
    (cx : GEdge → Int → Int) (next : GEdge → Option GEdge) (mins : Int → List (GEdge × GEdge)) (lab : Lab) (ys : List Int)
    (hup : AllUp edges) (hnx : NextOK edges next mins) (hn : Near cx) (hok : SweepOK edges valid next mins ys)
    (hR : HypR edges next mins lab ys) (hD : DenOK D (sweepDens valid cx next mins ys)) :
    SweepP cfg lab D edges valid cx next mins RState.empty [] ys := by
  obtain ⟨_, hdx, hnl, hst, htop, hrr⟩ := hR
  have h0 : ∀ y, ys.head? = some y → AelAt edges mins y [] ∧ CompleteAt edges mins y [] := by
    intro y hy
    refine ⟨aelAt_nil edges mins y, ?_⟩
    cases ys with
    | nil => simp at hy
    | cons y' t =>
      simp at hy; subst hy
      exact completeAt_start edges next mins y' hup hnx hst htop
  exact sweepP cfg hct D hD.1 edges valid cx next mins lab hup hnx hn hdx hnl hst ys [] RState.empty hok hrr h0
    ⟨[], rfl⟩ (fun x hx => by simp [RState.empty, SState.empty] at hx) (by simp [RState.empty, SState.empty, erase, Tracks])
    (den_of_sweep hD) (fun y _ g hg => by simp [RState.empty, Out.empty] at hg)


/-- the bookkeeping run behind a run of the ring model -/
theorem erased_run (cfg : Cfg) (hct : cfg.ct ≠ .noClip) (rops : List ROp) (rs : RState) (h : runR cfg RState.empty rops = .ok rs) :
    Model.run cfg [] (baseOps rops) = some (erase rs.s.ael) :=
  Clipper.Props.C01RegionRings.erase_runS cfg hct _ SState.empty rs.s (Clipper.Props.C11Sides.sinv_empty cfg)
    (Clipper.Props.C01Rings.erase_ring_run cfg rops _ rs h)


theorem gRun_split (D : Int) (E : GEdge → Prop) : ∀ (a b : List ROp) (es es' : List GEdge), GRun D E es (a ++ b) es' →
    ∃ es1, GRun D E es a es1 ∧ GRun D E es1 b es' := by
  intro a
  induction a with
  | nil => intro b es es' h; exact ⟨es, rfl, h⟩
  | cons op a ih =>
    intro b es es' h
    obtain ⟨e1, g1, g2⟩ := h
    obtain ⟨e2, g3, g4⟩ := ih b e1 es' g2
    exact ⟨e2, ⟨e1, g1, g3⟩, g4⟩


theorem endOf_endPt {o : Out} {k : Rec} {p : Pt} (h : endOf o k = some p) : ∃ g ∈ o.rings, o.rings[k.id]? = some g ∧ endPt k.front g.pts = some p := by
  simp only [endOf, endAt] at h
  cases hg : o.rings[k.id]? with
  | none => simp [hg] at h
  | some g => simp only [hg, Option.bind_some] at h; exact ⟨g, mem_of_get _ _ _ hg, rfl, h⟩


end Clipper.Lemmas.C01Output
