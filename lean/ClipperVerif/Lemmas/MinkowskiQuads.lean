/-
Helpers for Props/C19Quads: rational points written as integer triples `(xn, yn, d)` (`d > 0`, the point `(xn/d, yn/d)`),
the parallelogram membership test `Spec.Minkowski.inQuad` lifted to such points (`inQuadQ`, all cross products multiplied
by `d`, so no division), closed segments as convex combinations with rational parameter `s/m` (`OnSegQ`), and the core
algebra: for a non-degenerate parallelogram `o, o+u, o+u+v, o+v` the four cross products of the test are
`T, d·w − S, d·w − T, S` with `w = u × v`, `S = r × v`, `T = u × r`, `r = d·(P − o)` — Cramer's rule without the division.
Core Lean only.
-/
import ClipperVerif.Model.Minkowski
namespace Clipper.Spec.Minkowski
open Clipper

/-- a rational point `(xn/d, yn/d)`; every statement that uses one assumes `0 < d` -/
structure QPt where
  xn : Int
  yn : Int
  d : Int
  deriving DecidableEq, Repr

/-- an integer point as a rational point -/
def QPt.ofPt (p : Pt) : QPt := ⟨p.x, p.y, 1⟩

/-- equality of the two rational points (cross-multiplied) -/
def QPt.Eqv (P Q : QPt) : Prop := P.xn * Q.d = Q.xn * P.d ∧ P.yn * Q.d = Q.yn * P.d

/-- `d · cross a b P` for the rational point `P = (xn/d, yn/d)` -/
def crossQ (a b : Pt) (P : QPt) : Int := (b.x - a.x) * (P.yn - P.d * a.y) - (b.y - a.y) * (P.xn - P.d * a.x)

/-- `Spec.Minkowski.inQuad` for a rational point: the same sign test on the four cross products (each multiplied by
the positive denominator), the same rejection of zero-area quads -/
def inQuadQ (q : Path) (P : QPt) : Bool :=
  match q with
  | [a, b, c, d] =>
    let s1 := crossQ a b P; let s2 := crossQ b c P; let s3 := crossQ c d P; let s4 := crossQ d a P
    decide (shoelace2 q ≠ 0) &&
      ((decide (0 ≤ s1) && decide (0 ≤ s2) && decide (0 ≤ s3) && decide (0 ≤ s4)) ||
       (decide (s1 ≤ 0) && decide (s2 ≤ 0) && decide (s3 ≤ 0) && decide (s4 ≤ 0)))
  | _ => false

/-- `P` lies on the closed segment `[a, b]`: `P = a + (s/m)(b − a)` with `0 ≤ s ≤ m`, `0 < m` -/
def OnSegQ (a b : Pt) (P : QPt) : Prop :=
  ∃ s m : Int, 0 < m ∧ 0 ≤ s ∧ s ≤ m ∧
    m * P.xn = P.d * (m * a.x + s * (b.x - a.x)) ∧ m * P.yn = P.d * (m * a.y + s * (b.y - a.y))

/-- `+1` for the sum, `-1` for the difference -/
def sgn (isSum : Bool) : Int := if isSum then 1 else -1

/-- `P = A + B` (sum) or `P = A − B` (difference) as rational points, cross-multiplied -/
def QPt.IsPm (isSum : Bool) (P A B : QPt) : Prop :=
  P.xn * (A.d * B.d) = P.d * (A.xn * B.d + sgn isSum * (B.xn * A.d)) ∧
  P.yn * (A.d * B.d) = P.d * (A.yn * B.d + sgn isSum * (B.yn * A.d))

/-- **the segment sum**: `P = A ± B` for some rational `A` on the path edge `[pg, pi]` and `B` on the pattern edge
`[qh, qj]` -/
def SegSum (isSum : Bool) (pg pi qh qj : Pt) (P : QPt) : Prop :=
  ∃ A B : QPt, 0 < A.d ∧ 0 < B.d ∧ OnSegQ pg pi A ∧ OnSegQ qh qj B ∧ QPt.IsPm isSum P A B

/-- the same with the two parameters over a common denominator: `P = pg + (s/m)(pi−pg) ± (qh + (t/m)(qj−qh))` -/
def SegSumParam (isSum : Bool) (pg pi qh qj : Pt) (P : QPt) : Prop :=
  ∃ s t m : Int, 0 < m ∧ 0 ≤ s ∧ s ≤ m ∧ 0 ≤ t ∧ t ≤ m ∧
    m * P.xn = P.d * ((m * pg.x + s * (pi.x - pg.x)) + sgn isSum * (m * qh.x + t * (qj.x - qh.x))) ∧
    m * P.yn = P.d * ((m * pg.y + s * (pi.y - pg.y)) + sgn isSum * (m * qh.y + t * (qj.y - qh.y)))

/-- cross product of the two edge directions `(pi − pg) × (qj − qh)`; zero iff the edges are parallel or one of them has
length zero -/
def edgeCross (pg pi qh qj : Pt) : Int := (pi.x - pg.x) * (qj.y - qh.y) - (pi.y - pg.y) * (qj.x - qh.x)

/-- `A` lies on the swept polyline: on one of the path edges (closing edge iff `isClosed`) -/
def OnPolyline (isClosed : Bool) (path : Path) (A : QPt) : Prop :=
  ∃ e ∈ pathEdges isClosed path, OnSegQ e.1 e.2 A

/-- `B` lies on the outline of the pattern polygon: on one of its cyclic edges -/
def OnOutline (pattern : Path) (B : QPt) : Prop :=
  ∃ d ∈ cyclicEdges pattern, OnSegQ d.1 d.2 B

end Clipper.Spec.Minkowski

namespace Clipper.Lemmas.MinkowskiQuads
open Clipper Clipper.Spec.Minkowski

/-! ### integer points -/

theorem crossQ_ofPt (a b p : Pt) : crossQ a b (QPt.ofPt p) = cross a b p := by
  simp only [crossQ, QPt.ofPt, cross]; grind

/-- on integer points the lifted test is the test of the judgement -/
theorem inQuadQ_ofPt (q : Path) (p : Pt) : inQuadQ q (QPt.ofPt p) = inQuad q p := by
  rcases q with _ | ⟨a, _ | ⟨b, _ | ⟨c, _ | ⟨d, _ | ⟨e, r⟩⟩⟩⟩⟩ <;> simp [inQuadQ, inQuad, crossQ_ofPt]

/-! ### sign bookkeeping -/

theorem nonneg_of_mul {m a b w : Int} (hm : 0 < m) (hb : 0 ≤ b) (hw : 0 ≤ w) (h : m * a = b * w) : 0 ≤ a := by
  by_cases ha : 0 ≤ a
  · exact ha
  · have : m * a < 0 := Int.mul_neg_of_pos_of_neg hm (by omega)
    have : 0 ≤ b * w := Int.mul_nonneg hb hw
    omega

theorem nonpos_of_mul {m a b w : Int} (hm : 0 < m) (hb : 0 ≤ b) (hw : w ≤ 0) (h : m * a = b * w) : a ≤ 0 := by
  have := nonneg_of_mul (a := -a) (w := -w) hm hb (by omega) (by rw [Int.mul_neg, Int.mul_neg, h])
  omega

/-! ### the parallelogram `o, o+u, o+u+v, o+v` -/

theorem shoelace2_parallelogram (o u v : Pt) :
    shoelace2 [o, o.add u, (o.add u).add v, o.add v] = 2 * (u.x * v.y - u.y * v.x) := by
  simp only [shoelace2, edgesOf, List.zip_cons_cons, List.cons_append, List.nil_append, List.zip_nil_right,
    List.map_cons, List.map_nil, List.sum_cons, List.sum_nil, Pt.add]
  grind

/-- the four cross products of the test in terms of `S = r × v`, `T = u × r`, `r = d·(P − o)` and `d·w` -/
theorem crossQ_parallelogram (o u v : Pt) (P : QPt) :
    crossQ o (o.add u) P = u.x * (P.yn - P.d * o.y) - u.y * (P.xn - P.d * o.x) ∧
    crossQ (o.add u) ((o.add u).add v) P
      = P.d * (u.x * v.y - u.y * v.x) - ((P.xn - P.d * o.x) * v.y - (P.yn - P.d * o.y) * v.x) ∧
    crossQ ((o.add u).add v) (o.add v) P
      = P.d * (u.x * v.y - u.y * v.x) - (u.x * (P.yn - P.d * o.y) - u.y * (P.xn - P.d * o.x)) ∧
    crossQ (o.add v) o P = (P.xn - P.d * o.x) * v.y - (P.yn - P.d * o.y) * v.x := by
  simp only [crossQ, Pt.add]
  refine ⟨by grind, by grind, by grind, by grind⟩

/-- `w·r = S·u + T·v` (both coordinates) -/
theorem cramer_identity (ux uy vx vy rx ry : Int) :
    (ux * vy - uy * vx) * rx = (rx * vy - ry * vx) * ux + (ux * ry - uy * rx) * vx ∧
    (ux * vy - uy * vx) * ry = (rx * vy - ry * vx) * uy + (ux * ry - uy * rx) * vy := by
  constructor <;> grind

/-- **Cramer's rule, cleared of denominators.**  A rational point that passes the membership test of the non-degenerate
parallelogram `o, o+u, o+u+v, o+v` is `o + (s/m)·u + (t/m)·v` with `0 ≤ s, t ≤ m`:
`m = |d·w|`, `s = ±(r × v)`, `t = ±(u × r)`. -/
theorem param_of_inQuadQ (o u v : Pt) (P : QPt) (hd : 0 < P.d)
    (h : inQuadQ [o, o.add u, (o.add u).add v, o.add v] P = true) :
    ∃ s t m : Int, 0 < m ∧ 0 ≤ s ∧ s ≤ m ∧ 0 ≤ t ∧ t ≤ m ∧
      m * P.xn = P.d * (m * o.x + s * u.x + t * v.x) ∧ m * P.yn = P.d * (m * o.y + s * u.y + t * v.y) := by
  obtain ⟨e1, e2, e3, e4⟩ := crossQ_parallelogram o u v P
  obtain ⟨ix, iy⟩ := cramer_identity u.x u.y v.x v.y (P.xn - P.d * o.x) (P.yn - P.d * o.y)
  unfold inQuadQ at h
  simp only [shoelace2_parallelogram, e1, e2, e3, e4] at h
  clear e1 e2 e3 e4
  generalize (P.xn - P.d * o.x) * v.y - (P.yn - P.d * o.y) * v.x = S at *
  generalize u.x * (P.yn - P.d * o.y) - u.y * (P.xn - P.d * o.x) = T at *
  generalize u.x * v.y - u.y * v.x = w at *
  have hwne : w ≠ 0 := by
    intro h0; subst h0; simp at h
  simp only [Bool.and_eq_true, Bool.or_eq_true, decide_eq_true_eq] at h
  rcases Int.lt_or_gt_of_ne hwne with hneg | hpos
  · -- w < 0: only the all-nonpositive branch is possible
    have hD : P.d * w < 0 := Int.mul_neg_of_pos_of_neg hd hneg
    have gx : (-(P.d * w)) * P.xn = P.d * ((-(P.d * w)) * o.x + (-S) * u.x + (-T) * v.x) := by grind
    have gy : (-(P.d * w)) * P.yn = P.d * ((-(P.d * w)) * o.y + (-S) * u.y + (-T) * v.y) := by grind
    generalize P.d * w = D at *
    exact ⟨-S, -T, -D, by omega, by omega, by omega, by omega, by omega, gx, gy⟩
  · have hD : 0 < P.d * w := Int.mul_pos hd hpos
    have gx : (P.d * w) * P.xn = P.d * ((P.d * w) * o.x + S * u.x + T * v.x) := by grind
    have gy : (P.d * w) * P.yn = P.d * ((P.d * w) * o.y + S * u.y + T * v.y) := by grind
    generalize P.d * w = D at *
    exact ⟨S, T, D, by omega, by omega, by omega, by omega, by omega, gx, gy⟩

/-- the cross products of a point given by parameters, times the common denominator `m` -/
theorem param_cross_identities (ox oy ux uy vx vy xn yn d s t m : Int)
    (hx : m * xn = d * (m * ox + s * ux + t * vx)) (hy : m * yn = d * (m * oy + s * uy + t * vy)) :
    m * (ux * (yn - d * oy) - uy * (xn - d * ox)) = t * (d * (ux * vy - uy * vx)) ∧
    m * ((xn - d * ox) * vy - (yn - d * oy) * vx) = s * (d * (ux * vy - uy * vx)) := by
  constructor <;> grind

/-- the converse: a point `o + (s/m)·u + (t/m)·v`, `0 ≤ s, t ≤ m`, of a non-degenerate parallelogram passes the test -/
theorem inQuadQ_of_param (o u v : Pt) (P : QPt) (hd : 0 < P.d) (s t m : Int) (hm : 0 < m)
    (hs0 : 0 ≤ s) (hsm : s ≤ m) (ht0 : 0 ≤ t) (htm : t ≤ m)
    (hx : m * P.xn = P.d * (m * o.x + s * u.x + t * v.x)) (hy : m * P.yn = P.d * (m * o.y + s * u.y + t * v.y))
    (hne : u.x * v.y - u.y * v.x ≠ 0) :
    inQuadQ [o, o.add u, (o.add u).add v, o.add v] P = true := by
  obtain ⟨c1e, c2e, c3e, c4e⟩ := crossQ_parallelogram o u v P
  obtain ⟨i1, i4⟩ := param_cross_identities o.x o.y u.x u.y v.x v.y P.xn P.yn P.d s t m hx hy
  have e1 : m * crossQ o (o.add u) P = t * (P.d * (u.x * v.y - u.y * v.x)) := by rw [c1e]; exact i1
  have e4 : m * crossQ (o.add v) o P = s * (P.d * (u.x * v.y - u.y * v.x)) := by rw [c4e]; exact i4
  have e2 : m * crossQ (o.add u) ((o.add u).add v) P = (m - s) * (P.d * (u.x * v.y - u.y * v.x)) := by
    rw [c2e, Int.mul_sub, i4, Int.sub_mul]
  have e3 : m * crossQ ((o.add u).add v) (o.add v) P = (m - t) * (P.d * (u.x * v.y - u.y * v.x)) := by
    rw [c3e, Int.mul_sub, i1, Int.sub_mul]
  clear c1e c2e c3e c4e i1 i4 hx hy
  unfold inQuadQ
  simp only [shoelace2_parallelogram]
  generalize crossQ o (o.add u) P = c1 at *
  generalize crossQ (o.add u) ((o.add u).add v) P = c2 at *
  generalize crossQ ((o.add u).add v) (o.add v) P = c3 at *
  generalize crossQ (o.add v) o P = c4 at *
  generalize hw : u.x * v.y - u.y * v.x = w at *
  have h2w : 2 * w ≠ 0 := by omega
  rcases Int.lt_or_gt_of_ne hne with hneg | hpos
  · have hD : P.d * w ≤ 0 := Int.le_of_lt (Int.mul_neg_of_pos_of_neg hd hneg)
    have := nonpos_of_mul hm ht0 hD e1
    have := nonpos_of_mul hm (by omega : 0 ≤ m - s) hD e2
    have := nonpos_of_mul hm (by omega : 0 ≤ m - t) hD e3
    have := nonpos_of_mul hm hs0 hD e4
    simp [*]
  · have hD : 0 ≤ P.d * w := Int.le_of_lt (Int.mul_pos hd hpos)
    have := nonneg_of_mul hm ht0 hD e1
    have := nonneg_of_mul hm (by omega : 0 ≤ m - s) hD e2
    have := nonneg_of_mul hm (by omega : 0 ≤ m - t) hD e3
    have := nonneg_of_mul hm hs0 hD e4
    simp [*]

/-- a zero-area parallelogram contains nothing (this is what the model of the judgement does) -/
theorem inQuadQ_degenerate (o u v : Pt) (P : QPt) (h0 : u.x * v.y - u.y * v.x = 0) :
    inQuadQ [o, o.add u, (o.add u).add v, o.add v] P = false := by
  unfold inQuadQ
  simp [shoelace2_parallelogram, h0]

/-! ### the quad of the model as such a parallelogram -/

theorem quadAt_sum (pg pi qh qj : Pt) : quadAt true pg pi qh qj
    = [pg.add qh, (pg.add qh).add (pi.sub pg), ((pg.add qh).add (pi.sub pg)).add (qj.sub qh),
       (pg.add qh).add (qj.sub qh)] := by
  simp only [quadAt, pm, Pt.add, Pt.sub, if_true, List.cons.injEq, Pt.mk.injEq, and_true]
  refine ⟨trivial, ⟨by omega, by omega⟩, ⟨by omega, by omega⟩, by omega, by omega⟩

theorem quadAt_diff (pg pi qh qj : Pt) : quadAt false pg pi qh qj
    = [pg.sub qh, (pg.sub qh).add (pi.sub pg), ((pg.sub qh).add (pi.sub pg)).add (qh.sub qj),
       (pg.sub qh).add (qh.sub qj)] := by
  simp only [quadAt, pm, Pt.add, Pt.sub, Bool.false_eq_true, if_false, List.cons.injEq, Pt.mk.injEq, and_true]
  refine ⟨trivial, ⟨by omega, by omega⟩, ⟨by omega, by omega⟩, by omega, by omega⟩

/-! ### reversal (the orientation normalisation of the code) does not change membership -/

theorem crossQ_swap (a b : Pt) (P : QPt) : crossQ b a P = - crossQ a b P := by
  simp only [crossQ]; grind

theorem shoelace2_reverse4 (a b c d : Pt) : shoelace2 [d, c, b, a] = - shoelace2 [a, b, c, d] := by
  simp only [shoelace2, edgesOf, List.zip_cons_cons, List.cons_append, List.nil_append, List.zip_nil_right,
    List.map_cons, List.map_nil, List.sum_cons, List.sum_nil]
  grind

theorem inQuadQ_reverse4 (a b c d : Pt) (P : QPt) : inQuadQ [d, c, b, a] P = inQuadQ [a, b, c, d] P := by
  unfold inQuadQ
  simp only [shoelace2_reverse4 a b c d, crossQ_swap c d, crossQ_swap b c, crossQ_swap a b, crossQ_swap d a]
  generalize shoelace2 [a, b, c, d] = A
  generalize crossQ c d P = s3
  generalize crossQ b c P = s2
  generalize crossQ a b P = s1
  generalize crossQ d a P = s4
  rw [Bool.eq_iff_iff]
  simp only [Bool.and_eq_true, Bool.or_eq_true, decide_eq_true_eq]
  omega

/-- the orientation step of `detail::Minkowski` does not change which points the quad contains -/
theorem inQuadQ_orient (isPos : Path → Bool) (a b c d : Pt) (P : QPt) :
    inQuadQ (Model.Minkowski.orient isPos [a, b, c, d]) P = inQuadQ [a, b, c, d] P := by
  unfold Model.Minkowski.orient
  split
  · rfl
  · exact inQuadQ_reverse4 a b c d P

/-! ### the two forms of the segment sum -/

theorem segSum_of_param {isSum : Bool} {pg pi qh qj : Pt} {P : QPt}
    (h : SegSumParam isSum pg pi qh qj P) : SegSum isSum pg pi qh qj P := by
  obtain ⟨s, t, m, hm, hs0, hsm, ht0, htm, hx, hy⟩ := h
  refine ⟨⟨m * pg.x + s * (pi.x - pg.x), m * pg.y + s * (pi.y - pg.y), m⟩,
    ⟨m * qh.x + t * (qj.x - qh.x), m * qh.y + t * (qj.y - qh.y), m⟩, hm, hm,
    ⟨s, m, hm, hs0, hsm, rfl, rfl⟩, ⟨t, m, hm, ht0, htm, rfl, rfl⟩, ?_, ?_⟩
  · show P.xn * (m * m) = P.d * ((m * pg.x + s * (pi.x - pg.x)) * m + sgn isSum * ((m * qh.x + t * (qj.x - qh.x)) * m))
    grind
  · show P.yn * (m * m) = P.d * ((m * pg.y + s * (pi.y - pg.y)) * m + sgn isSum * ((m * qh.y + t * (qj.y - qh.y)) * m))
    grind

theorem common_denominator (Ad Bd Axn Bxn Pxn Pd m1 m2 g u h v s1 t1 σ : Int)
    (ax : m1 * Axn = Ad * (m1 * g + s1 * u)) (bx : m2 * Bxn = Bd * (m2 * h + t1 * v))
    (px : Pxn * (Ad * Bd) = Pd * (Axn * Bd + σ * (Bxn * Ad))) :
    Ad * Bd * (m1 * m2 * Pxn) = Ad * Bd * (Pd * (m1 * m2 * g + s1 * m2 * u + σ * (m1 * m2 * h + t1 * m1 * v))) := by
  have h1 : Ad * Bd * (m1 * m2 * Pxn) = m1 * m2 * (Pxn * (Ad * Bd)) := by grind
  have h2 : m1 * m2 * (Pd * (Axn * Bd + σ * (Bxn * Ad))) = Pd * (m2 * Bd * (m1 * Axn) + σ * (m1 * Ad * (m2 * Bxn))) := by
    grind
  rw [h1, px, h2, ax, bx]
  grind

theorem param_of_segSum {isSum : Bool} {pg pi qh qj : Pt} {P : QPt}
    (h : SegSum isSum pg pi qh qj P) : SegSumParam isSum pg pi qh qj P := by
  obtain ⟨A, B, hA, hB, ⟨s1, m1, hm1, hs0, hsm, ax, ay⟩, ⟨t1, m2, hm2, ht0, htm, bx, b_y⟩, px, py⟩ := h
  have hAB : 0 < A.d * B.d := Int.mul_pos hA hB
  refine ⟨s1 * m2, t1 * m1, m1 * m2, Int.mul_pos hm1 hm2, Int.mul_nonneg hs0 (Int.le_of_lt hm2),
    Int.mul_le_mul_of_nonneg_right hsm (Int.le_of_lt hm2), Int.mul_nonneg ht0 (Int.le_of_lt hm1), ?_, ?_, ?_⟩
  · rw [Int.mul_comm m1 m2]; exact Int.mul_le_mul_of_nonneg_right htm (Int.le_of_lt hm1)
  · apply Int.eq_of_mul_eq_mul_left (Int.ne_of_gt hAB)
    exact common_denominator _ _ _ _ _ _ _ _ _ _ _ _ _ _ _ ax bx px
  · apply Int.eq_of_mul_eq_mul_left (Int.ne_of_gt hAB)
    exact common_denominator _ _ _ _ _ _ _ _ _ _ _ _ _ _ _ ay b_y py

theorem segSum_iff_param (isSum : Bool) (pg pi qh qj : Pt) (P : QPt) :
    SegSum isSum pg pi qh qj P ↔ SegSumParam isSum pg pi qh qj P := ⟨param_of_segSum, segSum_of_param⟩

/-! ### the cyclic edges of the model are the edges of the Spec's closed path -/

theorem zip_snoc_tail (a t : Pt) (rest : List Pt) :
    (a :: rest).zip (rest ++ [t]) = (a :: rest).zip rest ++ [((a :: rest).getLast (by simp), t)] := by
  induction rest generalizing a with
  | nil => simp
  | cons b r ih =>
    rw [List.cons_append, List.zip_cons_cons, ih b, List.zip_cons_cons (bs := r), List.cons_append]
    simp

theorem mem_cyclicEdges_iff (l : Path) (e : Pt × Pt) : e ∈ cyclicEdges l ↔ e ∈ edgesOf l := by
  cases l with
  | nil => simp [cyclicEdges, edgesOf]
  | cons a rest =>
    have hl : (a :: rest).getLast? = some ((a :: rest).getLast (by simp)) := List.getLast?_eq_some_getLast _
    simp only [cyclicEdges, hl, edgesOf, zip_snoc_tail, List.zip_cons_cons, List.mem_cons, List.mem_append,
      List.not_mem_nil, or_false]
    constructor
    · rintro (h | h)
      · exact Or.inr h
      · exact Or.inl h
    · rintro (h | h)
      · exact Or.inr h
      · exact Or.inl h

/-! ### on integer points `OnSegQ` is the Spec's `onSeg` -/

theorem between_of_param {m s a b p : Int} (hm : 0 < m) (hs0 : 0 ≤ s) (hsm : s ≤ m) (h : m * p = m * a + s * (b - a)) :
    min a b ≤ p ∧ p ≤ max a b := by
  have e : m * (p - a) = s * (b - a) := by rw [Int.mul_sub]; omega
  rcases Int.le_total a b with hab | hab
  · have h1 : 0 ≤ s * (b - a) := Int.mul_nonneg hs0 (by omega)
    have h2 : s * (b - a) ≤ m * (b - a) := Int.mul_le_mul_of_nonneg_right hsm (by omega)
    have h3 : 0 ≤ p - a := by
      apply Classical.byContradiction; intro hn
      have : m * (p - a) < 0 := Int.mul_neg_of_pos_of_neg hm (by omega)
      omega
    have h4 : p - a ≤ b - a := Int.le_of_mul_le_mul_left (by omega) hm
    omega
  · have h1 : 0 ≤ s * (a - b) := Int.mul_nonneg hs0 (by omega)
    have h2 : s * (a - b) ≤ m * (a - b) := Int.mul_le_mul_of_nonneg_right hsm (by omega)
    have e' : m * (a - p) = s * (a - b) := by
      have : s * (a - b) = -(s * (b - a)) := by rw [← Int.mul_neg]; congr 1; omega
      have : m * (a - p) = -(m * (p - a)) := by rw [← Int.mul_neg]; congr 1; omega
      omega
    have h3 : 0 ≤ a - p := by
      apply Classical.byContradiction; intro hn
      have : m * (a - p) < 0 := Int.mul_neg_of_pos_of_neg hm (by omega)
      omega
    have h4 : a - p ≤ a - b := Int.le_of_mul_le_mul_left (by omega) hm
    omega

theorem onSeg_of_onSegQ {a b p : Pt} (h : OnSegQ a b (QPt.ofPt p)) : onSeg p a b = true := by
  obtain ⟨s, m, hm, hs0, hsm, hx, hy⟩ := h
  simp only [QPt.ofPt, Int.one_mul] at hx hy
  obtain ⟨x1, x2⟩ := between_of_param hm hs0 hsm hx
  obtain ⟨y1, y2⟩ := between_of_param hm hs0 hsm hy
  have hc : m * cross a b p = 0 := by
    simp only [cross]
    have ex : m * (p.x - a.x) = s * (b.x - a.x) := by rw [Int.mul_sub]; omega
    have ey : m * (p.y - a.y) = s * (b.y - a.y) := by rw [Int.mul_sub]; omega
    grind
  have hc0 : cross a b p = 0 := (Int.mul_eq_zero.mp hc).resolve_left (by omega)
  simp [onSeg, hc0, x1, x2, y1, y2]

theorem onSegQ_of_onSeg {a b p : Pt} (h : onSeg p a b = true) : OnSegQ a b (QPt.ofPt p) := by
  simp only [onSeg, Bool.and_eq_true, beq_iff_eq, decide_eq_true_eq] at h
  obtain ⟨⟨⟨⟨hc, x1⟩, x2⟩, y1⟩, y2⟩ := h
  simp only [cross] at hc
  unfold OnSegQ
  simp only [QPt.ofPt, Int.one_mul]
  rcases Int.lt_trichotomy a.x b.x with hx | hx | hx
  · refine ⟨p.x - a.x, b.x - a.x, by omega, by omega, by omega, by grind, by grind⟩
  · rcases Int.lt_trichotomy a.y b.y with hy | hy | hy
    · refine ⟨p.y - a.y, b.y - a.y, by omega, by omega, by omega, ?_, by grind⟩
      have : p.x = a.x := by omega
      rw [this, hx]; grind
    · refine ⟨0, 1, by decide, by decide, by decide, ?_, ?_⟩ <;> omega
    · refine ⟨a.y - p.y, a.y - b.y, by omega, by omega, by omega, ?_, by grind⟩
      have : p.x = a.x := by omega
      rw [this, hx]; grind
  · refine ⟨a.x - p.x, a.x - b.x, by omega, by omega, by omega, by grind, by grind⟩

/-- for an integer point, "on the closed segment" in the sense of this file is the Spec's `onSeg` -/
theorem onSegQ_ofPt_iff (a b p : Pt) : OnSegQ a b (QPt.ofPt p) ↔ onSeg p a b = true :=
  ⟨onSeg_of_onSegQ, onSegQ_of_onSeg⟩

/-! ### the flat parallelogram: the segment sum of two parallel segments lies on the quad's edges -/

theorem parallel_dot (ux uy vx vy : Int) (h : ux * vy - uy * vx = 0) :
    (ux * ux + uy * uy) * vx = (ux * vx + uy * vy) * ux ∧ (ux * ux + uy * uy) * vy = (ux * vx + uy * vy) * uy := by
  constructor <;> grind

theorem sq_sum_pos (x y : Int) (h : ¬ (x = 0 ∧ y = 0)) : 0 < x * x + y * y := by
  have sq : ∀ z : Int, 0 ≤ z * z := by
    intro z
    rcases Int.le_total 0 z with h | h
    · exact Int.mul_nonneg h h
    · exact Int.mul_nonneg_of_nonpos_of_nonpos h h
  have hx : 0 ≤ x * x := sq x
  have hy : 0 ≤ y * y := sq y
  by_cases h0 : x = 0
  · have : y ≠ 0 := fun e => h ⟨h0, e⟩
    have : 0 < y * y := by
      rcases Int.lt_or_gt_of_ne this with h1 | h1
      · exact Int.mul_pos_of_neg_of_neg h1 h1
      · exact Int.mul_pos h1 h1
    omega
  · have : 0 < x * x := by
      rcases Int.lt_or_gt_of_ne h0 with h1 | h1
      · exact Int.mul_pos_of_neg_of_neg h1 h1
      · exact Int.mul_pos h1 h1
    omega

/-- edge `o → o+u`, one coordinate -/
theorem flat_edge1 (a b m s t d xn ox ux vx : Int) (hpar : a * vx = b * ux)
    (hx : m * xn = d * (m * ox + s * ux + t * vx)) :
    (m * a) * xn = d * ((m * a) * ox + (s * a + t * b) * ((ox + ux) - ox)) := by
  have e : (m * a) * xn = a * (m * xn) := by grind
  have e2 : t * (a * vx) = t * (b * ux) := by rw [hpar]
  rw [e, hx]; grind

/-- edge `o+u → o+u+v`, one coordinate -/
theorem flat_edge2 (a b m s t d xn ox ux vx : Int) (hpar : a * vx = b * ux)
    (hx : m * xn = d * (m * ox + s * ux + t * vx)) :
    (m * b) * xn = d * ((m * b) * (ox + ux) + (s * a + t * b - m * a) * (((ox + ux) + vx) - (ox + ux))) := by
  have e : (m * b) * xn = b * (m * xn) := by grind
  have e2 : s * (a * vx) = s * (b * ux) := by rw [hpar]
  have e3 : m * (a * vx) = m * (b * ux) := by rw [hpar]
  rw [e, hx]; grind

/-- edge `o+v → o`, one coordinate -/
theorem flat_edge4 (a b m s t d xn ox ux vx : Int) (hpar : a * vx = b * ux)
    (hx : m * xn = d * (m * ox + s * ux + t * vx)) :
    (-(m * b)) * xn = d * ((-(m * b)) * (ox + vx) + (-(m * b) + (s * a + t * b)) * (ox - (ox + vx))) := by
  have e : (-(m * b)) * xn = (-b) * (m * xn) := by grind
  have e2 : s * (a * vx) = s * (b * ux) := by rw [hpar]
  rw [e, hx]; grind

/-- edge `o+v → o` when `u = 0`, one coordinate -/
theorem flat_edge4_u0 (m t d xn ox vx s : Int) (hx : m * xn = d * (m * ox + s * 0 + t * vx)) :
    m * xn = d * (m * (ox + vx) + (m - t) * (ox - (ox + vx))) := by
  rw [hx]; grind

/-- **Degenerate quads.**  If `u` and `v` are parallel (or one of them is zero), every point `o + (s/m)u + (t/m)v`,
`0 ≤ s, t ≤ m`, lies on one of the four edges of the flat quad `o, o+u, o+u+v, o+v` (in fact on `[o, o+u]`,
`[o+u, o+u+v]` or `[o+v, o]`). -/
theorem flat_param_on_edge (o u v : Pt) (P : QPt) (s t m : Int) (hm : 0 < m)
    (hs0 : 0 ≤ s) (hsm : s ≤ m) (ht0 : 0 ≤ t) (htm : t ≤ m)
    (hx : m * P.xn = P.d * (m * o.x + s * u.x + t * v.x)) (hy : m * P.yn = P.d * (m * o.y + s * u.y + t * v.y))
    (hw : u.x * v.y - u.y * v.x = 0) :
    OnSegQ o (o.add u) P ∨ OnSegQ (o.add u) ((o.add u).add v) P ∨ OnSegQ ((o.add u).add v) (o.add v) P ∨
      OnSegQ (o.add v) o P := by
  by_cases hu : u.x = 0 ∧ u.y = 0
  · right; right; right
    refine ⟨m - t, m, hm, by omega, by omega, ?_, ?_⟩
    · rw [hu.1] at hx; exact flat_edge4_u0 m t P.d P.xn o.x v.x s hx
    · rw [hu.2] at hy; exact flat_edge4_u0 m t P.d P.yn o.y v.y s hy
  · have ha := sq_sum_pos u.x u.y hu
    obtain ⟨px, py⟩ := parallel_dot u.x u.y v.x v.y hw
    generalize u.x * u.x + u.y * u.y = a at *
    generalize hb : u.x * v.x + u.y * v.y = b at *
    have hsa0 : 0 ≤ s * a := Int.mul_nonneg hs0 (by omega)
    have hsam : s * a ≤ m * a := Int.mul_le_mul_of_nonneg_right hsm (by omega)
    have hma : 0 < m * a := Int.mul_pos hm ha
    rcases Int.lt_or_le b 0 with hneg | hpos
    · -- opposite directions
      have htb0 : t * b ≤ 0 := Int.mul_nonpos_of_nonneg_of_nonpos ht0 (by omega)
      have htbm : m * b ≤ t * b := Int.mul_le_mul_of_nonpos_right htm (by omega)
      have hmb : m * b < 0 := Int.mul_neg_of_pos_of_neg hm hneg
      by_cases hN : 0 ≤ s * a + t * b
      · left
        exact ⟨s * a + t * b, m * a, hma, hN, by omega, flat_edge1 a b m s t P.d P.xn o.x u.x v.x px hx,
          flat_edge1 a b m s t P.d P.yn o.y u.y v.y py hy⟩
      · right; right; right
        exact ⟨-(m * b) + (s * a + t * b), -(m * b), by omega, by omega, by omega,
          flat_edge4 a b m s t P.d P.xn o.x u.x v.x px hx, flat_edge4 a b m s t P.d P.yn o.y u.y v.y py hy⟩
    · -- same direction (or `v = 0`)
      have htb0 : 0 ≤ t * b := Int.mul_nonneg ht0 hpos
      have htbm : t * b ≤ m * b := Int.mul_le_mul_of_nonneg_right htm hpos
      by_cases hN : s * a + t * b ≤ m * a
      · left
        exact ⟨s * a + t * b, m * a, hma, by omega, hN, flat_edge1 a b m s t P.d P.xn o.x u.x v.x px hx,
          flat_edge1 a b m s t P.d P.yn o.y u.y v.y py hy⟩
      · right; left
        have hb0 : 0 < b := by
          apply Classical.byContradiction
          intro hn
          have : b = 0 := by omega
          subst this; omega
        have hmb : 0 < m * b := Int.mul_pos hm hb0
        exact ⟨s * a + t * b - m * a, m * b, hmb, by omega, by omega,
          flat_edge2 a b m s t P.d P.xn o.x u.x v.x px hx, flat_edge2 a b m s t P.d P.yn o.y u.y v.y py hy⟩

/-! ### the edges of a quad belong to the segment sum; the general covering statement needs them for flat quads -/

/-- `P = o + (s/m)u + (t/m)v` with `0 ≤ s, t ≤ m` -/
def ParPar (o u v : Pt) (P : QPt) : Prop :=
  ∃ s t m : Int, 0 < m ∧ 0 ≤ s ∧ s ≤ m ∧ 0 ≤ t ∧ t ≤ m ∧
    m * P.xn = P.d * (m * o.x + s * u.x + t * v.x) ∧ m * P.yn = P.d * (m * o.y + s * u.y + t * v.y)

theorem parPar_sum_iff (pg pi qh qj : Pt) (P : QPt) :
    ParPar (pg.add qh) (pi.sub pg) (qj.sub qh) P ↔ SegSumParam true pg pi qh qj P := by
  constructor
  · rintro ⟨s, t, m, hm, hs0, hsm, ht0, htm, hx, hy⟩
    refine ⟨s, t, m, hm, hs0, hsm, ht0, htm, ?_, ?_⟩
    · simp only [Pt.add, Pt.sub] at hx; simp only [sgn, if_true]; rw [hx]; grind
    · simp only [Pt.add, Pt.sub] at hy; simp only [sgn, if_true]; rw [hy]; grind
  · rintro ⟨s, t, m, hm, hs0, hsm, ht0, htm, hx, hy⟩
    refine ⟨s, t, m, hm, hs0, hsm, ht0, htm, ?_, ?_⟩
    · simp only [Pt.add, Pt.sub]; simp only [sgn, if_true] at hx; rw [hx]; grind
    · simp only [Pt.add, Pt.sub]; simp only [sgn, if_true] at hy; rw [hy]; grind

theorem parPar_diff_iff (pg pi qh qj : Pt) (P : QPt) :
    ParPar (pg.sub qh) (pi.sub pg) (qh.sub qj) P ↔ SegSumParam false pg pi qh qj P := by
  constructor
  · rintro ⟨s, t, m, hm, hs0, hsm, ht0, htm, hx, hy⟩
    refine ⟨s, t, m, hm, hs0, hsm, ht0, htm, ?_, ?_⟩
    · simp only [Pt.sub] at hx; simp only [sgn, Bool.false_eq_true, if_false]; rw [hx]; grind
    · simp only [Pt.sub] at hy; simp only [sgn, Bool.false_eq_true, if_false]; rw [hy]; grind
  · rintro ⟨s, t, m, hm, hs0, hsm, ht0, htm, hx, hy⟩
    refine ⟨s, t, m, hm, hs0, hsm, ht0, htm, ?_, ?_⟩
    · simp only [Pt.sub]; simp only [sgn, Bool.false_eq_true, if_false] at hx; rw [hx]; grind
    · simp only [Pt.sub]; simp only [sgn, Bool.false_eq_true, if_false] at hy; rw [hy]; grind

/-- `P` lies on one of the four edges of the 4-point path -/
def OnQuadEdge (q : Path) (P : QPt) : Prop :=
  match q with
  | [a, b, c, d] => OnSegQ a b P ∨ OnSegQ b c P ∨ OnSegQ c d P ∨ OnSegQ d a P
  | _ => False

theorem onSegQ_symm {a b : Pt} {P : QPt} (h : OnSegQ a b P) : OnSegQ b a P := by
  obtain ⟨s, m, hm, hs0, hsm, hx, hy⟩ := h
  refine ⟨m - s, m, hm, by omega, by omega, ?_, ?_⟩
  · rw [hx]; grind
  · rw [hy]; grind

theorem onQuadEdge_reverse4 {a b c d : Pt} {P : QPt} (h : OnQuadEdge [d, c, b, a] P) : OnQuadEdge [a, b, c, d] P := by
  simp only [OnQuadEdge] at h ⊢
  rcases h with h | h | h | h
  · exact Or.inr (Or.inr (Or.inl (onSegQ_symm h)))
  · exact Or.inr (Or.inl (onSegQ_symm h))
  · exact Or.inl (onSegQ_symm h)
  · exact Or.inr (Or.inr (Or.inr (onSegQ_symm h)))

theorem onQuadEdge_orient (isPos : Path → Bool) (a b c d : Pt) (P : QPt) :
    OnQuadEdge (Model.Minkowski.orient isPos [a, b, c, d]) P ↔ OnQuadEdge [a, b, c, d] P := by
  unfold Model.Minkowski.orient
  split
  · exact Iff.rfl
  · exact ⟨onQuadEdge_reverse4, fun h => onQuadEdge_reverse4 (a := d) (b := c) (c := b) (d := a) h⟩

/-- every edge of the parallelogram `o, o+u, o+u+v, o+v` consists of points `o + λu + μv` with `λ` or `μ` in `{0, 1}` -/
theorem parPar_of_onQuadEdge (o u v : Pt) (P : QPt)
    (h : OnQuadEdge [o, o.add u, (o.add u).add v, o.add v] P) : ParPar o u v P := by
  simp only [OnQuadEdge] at h
  rcases h with ⟨s, m, hm, hs0, hsm, hx, hy⟩ | ⟨s, m, hm, hs0, hsm, hx, hy⟩ | ⟨s, m, hm, hs0, hsm, hx, hy⟩ |
    ⟨s, m, hm, hs0, hsm, hx, hy⟩
  · refine ⟨s, 0, m, hm, hs0, hsm, by omega, by omega, ?_, ?_⟩
    · simp only [Pt.add] at hx; rw [hx]; grind
    · simp only [Pt.add] at hy; rw [hy]; grind
  · refine ⟨m, s, m, hm, by omega, by omega, hs0, hsm, ?_, ?_⟩
    · simp only [Pt.add] at hx; rw [hx]; grind
    · simp only [Pt.add] at hy; rw [hy]; grind
  · refine ⟨m - s, m, m, hm, by omega, by omega, by omega, by omega, ?_, ?_⟩
    · simp only [Pt.add] at hx; rw [hx]; grind
    · simp only [Pt.add] at hy; rw [hy]; grind
  · refine ⟨0, m - s, m, hm, by omega, by omega, by omega, by omega, ?_, ?_⟩
    · simp only [Pt.add] at hx; rw [hx]; grind
    · simp only [Pt.add] at hy; rw [hy]; grind

end Clipper.Lemmas.MinkowskiQuads
