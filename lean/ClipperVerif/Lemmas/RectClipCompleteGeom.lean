/- Geometry of `GetSegmentIntersection` / `GetIntersection` against the four rectangle edges for sign-exact arithmetic:
exact characterisation of "the call succeeds" (`HitR`), completeness of the arm lists for a segment that leaves the
rectangle, and readiness of the location a successful call reports.  Used by Lemmas/RectClipComplete.lean
(`RunFine` for every path).  Core Lean only. -/
import ClipperVerif.Lemmas.RectClipEnter
namespace Clipper.Lemmas.RCG
open Clipper Clipper.Model.RC Clipper.Lemmas.RC Clipper.Lemmas.RCA Clipper.Lemmas.RCE

/-! ### reduction to the exact cross product -/

/-- the arithmetic with the exact integer cross product and `A`'s intersection routine -/
def exactOf (A : Arith) : Arith := ⟨crossZ, A.isect⟩

theorem seg_exact {A : Arith} (hA : SignExact A) (p1 p2 p3 p4 ip : Pt) :
    segIntersection A p1 p2 p3 p4 ip = segIntersection (exactOf A) p1 p2 p3 p4 ip := by
  have z : ∀ a b c, (A.cross a b c = 0) = (crossZ a b c = 0) := fun a b c => propext (hA a b c).1
  have g : ∀ a b c, (A.cross a b c > 0) = (crossZ a b c > 0) := fun a b c => propext (hA a b c).2
  unfold segIntersection exactOf
  simp only [z, g]

theorem tryArms_exact {A : Arith} (hA : SignExact A) (p p2 : Pt) (l : List Arm) (loc : Location) (ip : Pt) :
    tryArms A p p2 l loc ip = tryArms (exactOf A) p p2 l loc ip := by
  induction l generalizing ip with
  | nil => rfl
  | cons arm rest ih =>
    unfold tryArms
    rw [seg_exact hA]
    simp only [ih]

theorem getIntersection_exact {A : Arith} (hA : SignExact A) (r : Rect) (p p2 : Pt) (loc : Location) (ip : Pt) :
    getIntersection A r p p2 loc ip = getIntersection (exactOf A) r p p2 loc ip :=
  tryArms_exact hA p p2 _ loc ip

theorem exactOf_total {A : Arith} (ht : IsectTotal A) : IsectTotal (exactOf A) := ht

theorem or3_iff {a b c : Prop} (h : ¬ (a ∨ b)) : (a ∨ b ∨ c) ↔ c :=
  ⟨fun h' => h'.elim (fun x => absurd (Or.inl x) h) (fun h' => h'.elim (fun x => absurd (Or.inr x) h) id),
   fun x => Or.inr (Or.inr x)⟩

theorem or3_of {a b c : Prop} (h : a ∨ b) : a ∨ b ∨ c := h.elim Or.inl (fun x => Or.inr (Or.inl x))

/-- when `GetSegmentIntersection` succeeds, with exact signs -/
theorem seg_iff {A : Arith} (ht : IsectTotal A) (p1 p2 p3 p4 ip : Pt) :
    (segIntersection (exactOf A) p1 p2 p3 p4 ip).1 = true ↔
    (crossZ p1 p3 p4 = 0 ∧ crossZ p2 p3 p4 ≠ 0 ∧ (p1 = p3 ∨ p1 = p4 ∨ onSpan p1 p3 p4 = true)) ∨
    (crossZ p1 p3 p4 ≠ 0 ∧ crossZ p2 p3 p4 = 0 ∧ (p2 = p3 ∨ p2 = p4 ∨ onSpan p2 p3 p4 = true)) ∨
    (crossZ p1 p3 p4 ≠ 0 ∧ crossZ p2 p3 p4 ≠ 0 ∧ ¬ (crossZ p1 p3 p4 > 0 ↔ crossZ p2 p3 p4 > 0) ∧
      ((crossZ p3 p1 p2 = 0 ∧ (p3 = p1 ∨ p3 = p2 ∨ onSpan p3 p1 p2 = true)) ∨
       (crossZ p3 p1 p2 ≠ 0 ∧ crossZ p4 p1 p2 = 0 ∧ (p4 = p1 ∨ p4 = p2 ∨ onSpan p4 p1 p2 = true)) ∨
       (crossZ p3 p1 p2 ≠ 0 ∧ crossZ p4 p1 p2 ≠ 0 ∧ ¬ (crossZ p3 p1 p2 > 0 ↔ crossZ p4 p1 p2 > 0)))) := by
  have hq := ht p1 p2 p3 p4
  unfold segIntersection exactOf
  simp only
  by_cases h1 : crossZ p1 p3 p4 = 0
  · rw [if_pos h1]
    by_cases h2 : crossZ p2 p3 p4 = 0
    · rw [if_pos h2]
      apply iff_of_false (by simp)
      rintro (⟨_, h, _⟩ | ⟨h, _⟩ | ⟨h, _⟩) <;> exact h (by assumption)
    · rw [if_neg h2]
      by_cases ha : p1 = p3 ∨ p1 = p4
      · rw [if_pos ha]
        exact iff_of_true rfl (Or.inl ⟨h1, h2, or3_of ha⟩)
      · rw [if_neg ha]
        constructor
        · intro h; exact Or.inl ⟨h1, h2, Or.inr (Or.inr h)⟩
        · rintro (⟨_, _, h⟩ | ⟨h, _⟩ | ⟨h, _⟩)
          · exact (or3_iff ha).mp h
          · exact absurd h1 h
          · exact absurd h1 h
  · rw [if_neg h1]
    by_cases h2 : crossZ p2 p3 p4 = 0
    · rw [if_pos h2]
      by_cases ha : p2 = p3 ∨ p2 = p4
      · rw [if_pos ha]
        exact iff_of_true rfl (Or.inr (Or.inl ⟨h1, h2, or3_of ha⟩))
      · rw [if_neg ha]
        constructor
        · intro h; exact Or.inr (Or.inl ⟨h1, h2, Or.inr (Or.inr h)⟩)
        · rintro (⟨h, _⟩ | ⟨_, _, h⟩ | ⟨_, h, _⟩)
          · exact absurd h h1
          · exact (or3_iff ha).mp h
          · exact absurd h2 h
    · rw [if_neg h2]
      by_cases hs : (crossZ p1 p3 p4 > 0 ↔ crossZ p2 p3 p4 > 0)
      · rw [if_pos (decide_eq_decide.mpr hs)]
        apply iff_of_false (by simp)
        rintro (⟨h, _⟩ | ⟨_, h, _⟩ | ⟨_, _, h, _⟩)
        · exact h1 h
        · exact h2 h
        · exact h hs
      · rw [if_neg (fun h => hs (decide_eq_decide.mp h))]
        have key : ∀ X : Prop, (X ↔ ((crossZ p1 p3 p4 = 0 ∧ crossZ p2 p3 p4 ≠ 0 ∧ (p1 = p3 ∨ p1 = p4 ∨ onSpan p1 p3 p4 = true)) ∨
            (crossZ p1 p3 p4 ≠ 0 ∧ crossZ p2 p3 p4 = 0 ∧ (p2 = p3 ∨ p2 = p4 ∨ onSpan p2 p3 p4 = true)) ∨
            (crossZ p1 p3 p4 ≠ 0 ∧ crossZ p2 p3 p4 ≠ 0 ∧ ¬ (crossZ p1 p3 p4 > 0 ↔ crossZ p2 p3 p4 > 0) ∧ X))) := by
          intro X
          constructor
          · intro hx; exact Or.inr (Or.inr ⟨h1, h2, hs, hx⟩)
          · rintro (⟨h, _⟩ | ⟨_, h, _⟩ | ⟨_, _, _, h⟩)
            · exact absurd h h1
            · exact absurd h h2
            · exact h
        refine Iff.trans ?_ (key _)
        by_cases h3 : crossZ p3 p1 p2 = 0
        · rw [if_pos h3]
          by_cases ha : p3 = p1 ∨ p3 = p2
          · rw [if_pos ha]
            exact iff_of_true rfl (Or.inl ⟨h3, or3_of ha⟩)
          · rw [if_neg ha]
            constructor
            · intro h; exact Or.inl ⟨h3, Or.inr (Or.inr h)⟩
            · rintro (⟨_, h⟩ | ⟨h, _⟩ | ⟨h, _⟩)
              · exact (or3_iff ha).mp h
              · exact absurd h3 h
              · exact absurd h3 h
        · rw [if_neg h3]
          by_cases h4 : crossZ p4 p1 p2 = 0
          · rw [if_pos h4]
            by_cases ha : p4 = p1 ∨ p4 = p2
            · rw [if_pos ha]
              exact iff_of_true rfl (Or.inr (Or.inl ⟨h3, h4, or3_of ha⟩))
            · rw [if_neg ha]
              constructor
              · intro h; exact Or.inr (Or.inl ⟨h3, h4, Or.inr (Or.inr h)⟩)
              · rintro (⟨h, _⟩ | ⟨_, _, h⟩ | ⟨_, h, _⟩)
                · exact absurd h h3
                · exact (or3_iff ha).mp h
                · exact absurd h4 h
          · rw [if_neg h4]
            by_cases hs2 : (crossZ p3 p1 p2 > 0 ↔ crossZ p4 p1 p2 > 0)
            · rw [if_pos (decide_eq_decide.mpr hs2)]
              apply iff_of_false (by simp)
              rintro (⟨h, _⟩ | ⟨_, h, _⟩ | ⟨_, _, h⟩)
              · exact h3 h
              · exact h4 h
              · exact h hs2
            · rw [if_neg (fun h => hs2 (decide_eq_decide.mp h))]
              cases hf : A.isect p1 p2 p3 p4 with
              | none => rw [hf] at hq; simp at hq
              | some q => exact iff_of_true rfl (Or.inr (Or.inr ⟨h3, h4, hs2⟩))

/-! ### the success condition in coordinates relative to the first point -/

/-- "The segment from `p1` to `p1 + (dx, dy)` meets the closed axis-parallel edge and is not collinear with it", in
coordinates relative to `p1`: the edge lies on the line at (signed) distance `a` along the first axis and spans
`[p, q]` along the second axis.  (First axis = the axis perpendicular to the edge.) -/
def HitR (a p q dx dy : Int) : Prop :=
  (a = 0 ∧ dx ≠ 0 ∧ p ≤ 0 ∧ 0 ≤ q) ∨
  (a ≠ 0 ∧ dx = a ∧ p ≤ dy ∧ dy ≤ q) ∨
  (((0 < a ∧ a < dx) ∨ (dx < a ∧ a < 0)) ∧
    ((0 ≤ dy * a - p * dx ∧ dy * a - q * dx ≤ 0) ∨ (dy * a - p * dx ≤ 0 ∧ 0 ≤ dy * a - q * dx)))

theorem mulK (x K : Int) (hK : K ≠ 0) :
    (x * K = 0 ↔ x = 0) ∧ (0 < K → (x * K > 0 ↔ x > 0)) ∧ (K < 0 → (x * K > 0 ↔ x < 0)) := by
  refine ⟨?_, ?_, ?_⟩
  · constructor
    · intro h; rcases Int.mul_eq_zero.mp h with h | h
      · exact h
      · exact absurd h hK
    · intro h; rw [h]; simp
  · intro hk
    rcases Int.lt_trichotomy x 0 with h | h | h
    · have := Int.mul_neg_of_neg_of_pos h hk; omega
    · subst h; simp
    · have := Int.mul_pos h hk; omega
  · intro hk
    rcases Int.lt_trichotomy x 0 with h | h | h
    · have := Int.mul_pos_of_neg_of_neg h hk; omega
    · subst h; simp
    · have := Int.mul_neg_of_pos_of_neg h hk; omega

/-- Boolean/linear core shared by the four edges -/
theorem hit_core {a p q dx dy K r1 r2 r3 r4 : Int} {on1 on2 on3 on4 : Prop} (hK : K ≠ 0)
    (e1 : r1 = a * K) (e2 : r2 = (a - dx) * K)
    (e34 : (r3 = dy * a - p * dx ∧ r4 = dy * a - q * dx) ∨ (r3 = -(dy * a - p * dx) ∧ r4 = -(dy * a - q * dx)) ∨
           (r3 = dy * a - q * dx ∧ r4 = dy * a - p * dx) ∨ (r3 = -(dy * a - q * dx) ∧ r4 = -(dy * a - p * dx)))
    (h1 : a = 0 → (on1 ↔ p ≤ 0 ∧ 0 ≤ q)) (h2 : dx = a → (on2 ↔ p ≤ dy ∧ dy ≤ q))
    (h3 : r3 = 0 → ((0 < a ∧ a < dx) ∨ (dx < a ∧ a < 0)) → on3)
    (h4 : r4 = 0 → ((0 < a ∧ a < dx) ∨ (dx < a ∧ a < 0)) → on4) :
    ((r1 = 0 ∧ r2 ≠ 0 ∧ on1) ∨ (r1 ≠ 0 ∧ r2 = 0 ∧ on2) ∨
      (r1 ≠ 0 ∧ r2 ≠ 0 ∧ ¬ (r1 > 0 ↔ r2 > 0) ∧
        ((r3 = 0 ∧ on3) ∨ (r3 ≠ 0 ∧ r4 = 0 ∧ on4) ∨ (r3 ≠ 0 ∧ r4 ≠ 0 ∧ ¬ (r3 > 0 ↔ r4 > 0))))) ↔
    HitR a p q dx dy := by
  obtain ⟨z1, p1, n1⟩ := mulK a K hK
  obtain ⟨z2, p2, n2⟩ := mulK (a - dx) K hK
  rw [← e1] at z1 p1 n1
  rw [← e2] at z2 p2 n2
  clear e1 e2
  unfold HitR
  generalize dy * a = m at *
  generalize p * dx = mp at *
  generalize q * dx = mq at *
  by_cases ha : a = 0
  · have hr1 : r1 = 0 := z1.mpr ha
    by_cases hd : dx = 0
    · have hr2 : r2 = 0 := z2.mpr (by omega)
      constructor
      · rintro (⟨_, h, _⟩ | ⟨h, _⟩ | ⟨h, _⟩) <;> exact absurd (by assumption) h
      · rintro (⟨_, h, _⟩ | ⟨h, _⟩ | ⟨h, _⟩) <;> omega
    · have hr2 : r2 ≠ 0 := fun h => hd (by have := z2.mp h; omega)
      have := h1 ha
      constructor
      · rintro (⟨_, _, h⟩ | ⟨h, _⟩ | ⟨h, _⟩)
        · exact Or.inl ⟨ha, hd, this.mp h⟩
        · exact absurd hr1 h
        · exact absurd hr1 h
      · rintro (⟨_, _, h⟩ | ⟨h, _⟩ | ⟨h, _⟩)
        · exact Or.inl ⟨hr1, hr2, this.mpr h⟩
        · exact absurd ha h
        · omega
  · have hr1 : r1 ≠ 0 := fun h => ha (z1.mp h)
    by_cases hd : dx = a
    · have hr2 : r2 = 0 := z2.mpr (by omega)
      have := h2 hd
      constructor
      · rintro (⟨h, _⟩ | ⟨_, _, h⟩ | ⟨_, h, _⟩)
        · exact absurd h hr1
        · exact Or.inr (Or.inl ⟨ha, hd, this.mp h⟩)
        · exact absurd hr2 h
      · rintro (⟨h, _⟩ | ⟨_, _, h⟩ | ⟨h, _⟩)
        · exact absurd h ha
        · exact Or.inr (Or.inl ⟨hr1, hr2, this.mpr h⟩)
        · omega
    · have hr2 : r2 ≠ 0 := fun h => hd (by have := z2.mp h; omega)
      have hopp : ¬ (r1 > 0 ↔ r2 > 0) ↔ ((0 < a ∧ a < dx) ∨ (dx < a ∧ a < 0)) := by
        rcases Int.lt_trichotomy K 0 with hk | hk | hk
        · have := n1 hk; have := n2 hk; omega
        · exact absurd hk hK
        · have := p1 hk; have := p2 hk; omega
      constructor
      · rintro (⟨h, _⟩ | ⟨_, h, _⟩ | ⟨_, _, ho, h⟩)
        · exact absurd h hr1
        · exact absurd h hr2
        · refine Or.inr (Or.inr ⟨hopp.mp ho, ?_⟩)
          rcases h with ⟨h, _⟩ | ⟨_, h, _⟩ | ⟨h3', h4', h⟩ <;> omega
      · rintro (⟨h, _⟩ | ⟨_, h, _⟩ | ⟨ho, h⟩)
        · exact absurd h ha
        · exact absurd h hd
        · refine Or.inr (Or.inr ⟨hr1, hr2, hopp.mpr ho, ?_⟩)
          by_cases h3' : r3 = 0
          · exact Or.inl ⟨h3', h3 h3' ho⟩
          · by_cases h4' : r4 = 0
            · exact Or.inr (Or.inl ⟨h3', h4', h4 h4' ho⟩)
            · exact Or.inr (Or.inr ⟨h3', h4', by omega⟩)

/-! ### the four edges -/

theorem pt_ext (p q : Pt) : p = q ↔ p.x = q.x ∧ p.y = q.y := by
  cases p; cases q; simp

/-- a point on the line of a vertical edge `a b` (top to bottom) is an end point or within the span iff it is on the
closed edge -/
theorem on_vert (p a b : Pt) (hx : a.x = b.x) (hy : a.y < b.y) (hp : p.x = a.x) :
    (p = a ∨ p = b ∨ onSpan p a b = true) ↔ (a.y ≤ p.y ∧ p.y ≤ b.y) := by
  rw [onSpan_y (by omega), pt_ext, pt_ext]
  unfold between
  rw [beq_iff_eq, decide_eq_decide]
  omega

/-- the same for a horizontal edge, given in either direction -/
theorem on_horiz (p a b : Pt) (hy : a.y = b.y) (_hp : p.y = a.y) (_hx : a.x ≠ b.x) :
    (p = a ∨ p = b ∨ onSpan p a b = true) ↔ ((a.x ≤ p.x ∧ p.x ≤ b.x) ∨ (b.x ≤ p.x ∧ p.x ≤ a.x)) := by
  rw [onSpan_x hy, pt_ext, pt_ext]
  unfold between
  rw [beq_iff_eq, decide_eq_decide]
  omega

/-- an end point of a horizontal edge strictly between the levels of `p1` and `p2` is within their span -/
theorem on3_h (e p1 p2 : Pt) (h : (p1.y < e.y ∧ e.y < p2.y) ∨ (p2.y < e.y ∧ e.y < p1.y)) :
    onSpan e p1 p2 = true := by
  rw [onSpan_y (by omega)]
  exact between_true (by omega)

theorem ratio_pos {z s e w : Int} (hs : 0 < w ∧ w < s) (h : z * s = w * e) (he : e ≠ 0) : (0 < z ↔ z < e) := by
  rcases Int.lt_or_gt_of_ne he with hn | hp
  · have a1 : w * e < 0 := Int.mul_neg_of_pos_of_neg hs.1 hn
    have a2 : s * e < w * e := Int.mul_lt_mul_of_neg_right hs.2 hn
    have z1 : z < 0 := Int.lt_of_mul_lt_mul_right (b := z) (c := 0) (a := s) (by rw [h]; simpa using a1) (by omega)
    have z2 : e < z := Int.lt_of_mul_lt_mul_right (b := e) (c := z) (a := s) (by rw [h, Int.mul_comm e s]; exact a2) (by omega)
    omega
  · have a1 : 0 < w * e := Int.mul_pos hs.1 hp
    have a2 : w * e < s * e := Int.mul_lt_mul_of_pos_right hs.2 hp
    have z1 : 0 < z := Int.lt_of_mul_lt_mul_right (b := 0) (c := z) (a := s) (by rw [h]; simpa using a1) (by omega)
    have z2 : z < e := Int.lt_of_mul_lt_mul_right (b := z) (c := e) (a := s) (by rw [h, Int.mul_comm e s]; exact a2) (by omega)
    omega

theorem ratio_between {z s e w : Int} (hs : (0 < w ∧ w < s) ∨ (s < w ∧ w < 0)) (h : z * s = w * e) (he : e ≠ 0) :
    (0 < z ↔ z < e) := by
  rcases hs with hs | hs
  · exact ratio_pos hs h he
  · exact ratio_pos (s := -s) (w := -w) (by omega) (by rw [Int.mul_neg, Int.neg_mul, h]) he

/-- an end point `e` of a vertical edge that lies on the line `p1 p2`, `p1` and `p2` strictly on opposite sides of the
edge's line, is within the span of `p1 p2` -/
theorem on3_v (e p1 p2 : Pt) (hc : crossZ e p1 p2 = 0)
    (h : (0 < e.x - p1.x ∧ e.x - p1.x < p2.x - p1.x) ∨ (p2.x - p1.x < e.x - p1.x ∧ e.x - p1.x < 0)) :
    onSpan e p1 p2 = true := by
  by_cases hy : p1.y = p2.y
  · rw [onSpan_x hy]
    exact between_true (by omega)
  · rw [onSpan_y hy]
    unfold between
    rw [beq_iff_eq, decide_eq_decide]
    have hz : (e.y - p1.y) * (p2.x - p1.x) = (e.x - p1.x) * (p2.y - p1.y) := by
      simp only [crossZ] at hc; grind
    have := ratio_between h hz (by omega)
    omega

theorem hit_left {A : Arith} (ht : IsectTotal A) (r : Rect) (hh : r.top < r.bottom) (p1 p2 ip : Pt) :
    (segIntersection (exactOf A) p1 p2 r.c0 r.c3 ip).1 = true ↔
      HitR (r.left - p1.x) (r.top - p1.y) (r.bottom - p1.y) (p2.x - p1.x) (p2.y - p1.y) := by
  rw [seg_iff ht]
  apply hit_core (K := r.bottom - r.top) (by omega)
  · simp only [crossZ, Rect.c0, Rect.c3]; grind
  · simp only [crossZ, Rect.c0, Rect.c3]; grind
  · right; left; constructor <;> (simp only [crossZ, Rect.c0, Rect.c3]; grind)
  · intro ha
    rw [on_vert p1 r.c0 r.c3 rfl hh (by simp only [Rect.c0]; omega)]
    simp only [Rect.c0, Rect.c3]; omega
  · intro ha
    rw [on_vert p2 r.c0 r.c3 rfl hh (by simp only [Rect.c0]; omega)]
    simp only [Rect.c0, Rect.c3]; omega
  · intro hc ho
    exact Or.inr (Or.inr (on3_v r.c0 p1 p2 hc (by simp only [Rect.c0]; omega)))
  · intro hc ho
    exact Or.inr (Or.inr (on3_v r.c3 p1 p2 hc (by simp only [Rect.c3]; omega)))

theorem hit_right {A : Arith} (ht : IsectTotal A) (r : Rect) (hh : r.top < r.bottom) (p1 p2 ip : Pt) :
    (segIntersection (exactOf A) p1 p2 r.c1 r.c2 ip).1 = true ↔
      HitR (r.right - p1.x) (r.top - p1.y) (r.bottom - p1.y) (p2.x - p1.x) (p2.y - p1.y) := by
  rw [seg_iff ht]
  apply hit_core (K := r.bottom - r.top) (by omega)
  · simp only [crossZ, Rect.c1, Rect.c2]; grind
  · simp only [crossZ, Rect.c1, Rect.c2]; grind
  · right; left; constructor <;> (simp only [crossZ, Rect.c1, Rect.c2]; grind)
  · intro ha
    rw [on_vert p1 r.c1 r.c2 rfl hh (by simp only [Rect.c1]; omega)]
    simp only [Rect.c1, Rect.c2]; omega
  · intro ha
    rw [on_vert p2 r.c1 r.c2 rfl hh (by simp only [Rect.c1]; omega)]
    simp only [Rect.c1, Rect.c2]; omega
  · intro hc ho
    exact Or.inr (Or.inr (on3_v r.c1 p1 p2 hc (by simp only [Rect.c1]; omega)))
  · intro hc ho
    exact Or.inr (Or.inr (on3_v r.c2 p1 p2 hc (by simp only [Rect.c2]; omega)))

/-- first axis = y -/
theorem hit_top {A : Arith} (ht : IsectTotal A) (r : Rect) (hw : r.left < r.right) (p1 p2 ip : Pt) :
    (segIntersection (exactOf A) p1 p2 r.c0 r.c1 ip).1 = true ↔
      HitR (r.top - p1.y) (r.left - p1.x) (r.right - p1.x) (p2.y - p1.y) (p2.x - p1.x) := by
  rw [seg_iff ht]
  apply hit_core (K := r.left - r.right) (by omega)
  · simp only [crossZ, Rect.c0, Rect.c1]; grind
  · simp only [crossZ, Rect.c0, Rect.c1]; grind
  · left; constructor <;> (simp only [crossZ, Rect.c0, Rect.c1]; grind)
  · intro ha
    rw [on_horiz p1 r.c0 r.c1 rfl (by simp only [Rect.c0]; omega) (by simp only [Rect.c0, Rect.c1]; omega)]
    simp only [Rect.c0, Rect.c1]; omega
  · intro ha
    rw [on_horiz p2 r.c0 r.c1 rfl (by simp only [Rect.c0]; omega) (by simp only [Rect.c0, Rect.c1]; omega)]
    simp only [Rect.c0, Rect.c1]; omega
  · intro _ ho
    exact Or.inr (Or.inr (on3_h r.c0 p1 p2 (by simp only [Rect.c0]; omega)))
  · intro _ ho
    exact Or.inr (Or.inr (on3_h r.c1 p1 p2 (by simp only [Rect.c1]; omega)))

/-- first axis = y -/
theorem hit_bottom {A : Arith} (ht : IsectTotal A) (r : Rect) (hw : r.left < r.right) (p1 p2 ip : Pt) :
    (segIntersection (exactOf A) p1 p2 r.c2 r.c3 ip).1 = true ↔
      HitR (r.bottom - p1.y) (r.left - p1.x) (r.right - p1.x) (p2.y - p1.y) (p2.x - p1.x) := by
  rw [seg_iff ht]
  apply hit_core (K := r.right - r.left) (by omega)
  · simp only [crossZ, Rect.c2, Rect.c3]; grind
  · simp only [crossZ, Rect.c2, Rect.c3]; grind
  · right; right; left; constructor <;> (simp only [crossZ, Rect.c2, Rect.c3]; grind)
  · intro ha
    rw [on_horiz p1 r.c2 r.c3 rfl (by simp only [Rect.c2]; omega) (by simp only [Rect.c2, Rect.c3]; omega)]
    simp only [Rect.c2, Rect.c3]; omega
  · intro ha
    rw [on_horiz p2 r.c2 r.c3 rfl (by simp only [Rect.c2]; omega) (by simp only [Rect.c2, Rect.c3]; omega)]
    simp only [Rect.c2, Rect.c3]; omega
  · intro _ ho
    exact Or.inr (Or.inr (on3_h r.c2 p1 p2 (by simp only [Rect.c2]; omega)))
  · intro _ ho
    exact Or.inr (Or.inr (on3_h r.c3 p1 p2 (by simp only [Rect.c3]; omega)))

end Clipper.Lemmas.RCG
