/- Lemmas for the path-level history model (Model/HistoryPaths.lean): lowering to member-level ops, the summary computed
from paths, replay on a fresh object, and the closed form of `minima_list_` in terms of the minima-with-rings of
`Lemmas/AddPathsRings.lean`. -/
import ClipperVerif.Model.HistoryPaths
import ClipperVerif.Lemmas.History
import ClipperVerif.Props.C13AddPaths
namespace Clipper.Lemmas.HistoryPaths
open Clipper Clipper.Model.History Clipper.Model.HistoryPaths

/-! ### lowering -/

theorem lowerFrom_length (n : Nat) (h : List POp) : (lowerFrom n h).length = h.length := by
  induction h generalizing n with
  | nil => rfl
  | cons op h ih => simp [lowerFrom, ih]

theorem pstep_minima_length (i : Inputs) (op : POp) : (pstep i op).minima.length = nextCount i.minima.length op := by
  cases op <;> simp [pstep, lowerOp, nextCount, Inputs.step, Op.minima]

theorem fold_lowerFrom (h : List POp) (i : Inputs) :
    (lowerFrom i.minima.length h).foldl Inputs.step i = h.foldl pstep i := by
  induction h generalizing i with
  | nil => rfl
  | cons op h ih =>
    simp only [lowerFrom, List.foldl_cons]
    rw [← pstep_minima_length]
    exact ih (pstep i op)

/-- the summary of the lowered history is the summary computed from the paths -/
theorem inputsOf_lower (h : List POp) : inputsOf (lower h) = pinputsOf h := fold_lowerFrom h {}

theorem lowerFrom_append (n : Nat) (h₁ h₂ : List POp) :
    lowerFrom n (h₁ ++ h₂) = lowerFrom n h₁ ++ lowerFrom (h₁.foldl nextCount n) h₂ := by
  induction h₁ generalizing n with
  | nil => rfl
  | cons op h ih => simp [lowerFrom, ih]

/-! ### replay on a fresh object -/

theorem pstep_add_opts (i : Inputs) (op : POp) (hop : POp.isAdd op = true) (p r : Bool) :
    pstep { i with preserve := p, reverse := r } op = { pstep i op with preserve := p, reverse := r } := by
  cases op <;> simp [POp.isAdd] at hop <;> simp [pstep, lowerOp, Inputs.step]

theorem prel_fold (h : List POp) (i : Inputs) (acc : List POp)
    (hacc : ∀ op ∈ acc, POp.isAdd op = true)
    (hi : ∀ p r, { i with preserve := p, reverse := r } = acc.foldl pstep { preserve := p, reverse := r }) :
    let i' := h.foldl pstep i
    let acc' := h.foldl (fun acc op => match op with | .clear => [] | op => if POp.isAdd op then acc ++ [op] else acc) acc
    (∀ op ∈ acc', POp.isAdd op = true) ∧
      (∀ p r, { i' with preserve := p, reverse := r } = acc'.foldl pstep { preserve := p, reverse := r }) := by
  induction h generalizing i acc with
  | nil => exact ⟨hacc, hi⟩
  | cons op h ih =>
    simp only [List.foldl_cons]
    have hadd : ∀ op : POp, POp.isAdd op = true → (∀ op' ∈ acc ++ [op], POp.isAdd op' = true) ∧
        (∀ p r, { pstep i op with preserve := p, reverse := r } = (acc ++ [op]).foldl pstep { preserve := p, reverse := r }) := by
      intro op hop
      refine ⟨?_, ?_⟩
      · intro o ho; rcases List.mem_append.mp ho with ho | ho
        · exact hacc o ho
        · simp at ho; subst ho; exact hop
      · intro p r
        rw [List.foldl_append, ← hi p r, ← pstep_add_opts i op hop p r]; rfl
    cases op with
    | clear => exact ih _ _ (by simp) (by intro p r; simp [pstep, lowerOp, Inputs.step])
    | setPreserve b => exact ih _ _ (by simpa [POp.isAdd] using hacc) (by intro p r; simpa [pstep, lowerOp, Inputs.step, POp.isAdd] using hi p r)
    | setReverse b => exact ih _ _ (by simpa [POp.isAdd] using hacc) (by intro p r; simpa [pstep, lowerOp, Inputs.step, POp.isAdd] using hi p r)
    | execute ct fr tree => exact ih _ _ (by simpa [POp.isAdd] using hacc) (by intro p r; simpa [pstep, lowerOp, Inputs.step, POp.isAdd] using hi p r)
    | addSubject ps => obtain ⟨h1, h2⟩ := hadd (.addSubject ps) rfl; exact ih _ _ h1 h2
    | addOpenSubject ps => obtain ⟨h1, h2⟩ := hadd (.addOpenSubject ps) rfl; exact ih _ _ h1 h2
    | addClip ps => obtain ⟨h1, h2⟩ := hadd (.addClip ps) rfl; exact ih _ _ h1 h2
    | addReuseable c => obtain ⟨h1, h2⟩ := hadd (.addReuseable c) rfl; exact ih _ _ h1 h2

/-- the inputs are those of: the current options, then the add calls since the last Clear -/
theorem pinputsOf_closed (h : List POp) :
    pinputsOf h = (psinceClear h).foldl pstep { preserve := (pinputsOf h).preserve, reverse := (pinputsOf h).reverse } := by
  obtain ⟨_, h2⟩ := prel_fold h {} [] (by simp) (by intro p r; rfl)
  exact h2 (pinputsOf h).preserve (pinputsOf h).reverse

theorem pinputsOf_replay (h : List POp) : pinputsOf (preplayOf h) = pinputsOf h := by
  conv => rhs; rw [pinputsOf_closed h]
  unfold preplayOf
  show List.foldl pstep {} _ = _
  rw [List.foldl_append]
  rfl

/-! ### `minima_list_` in terms of minima-with-rings -/

open Clipper.Lemmas.AddPathsRings Clipper.Model.AddPathsRings Clipper.Props.C13AddPaths

/-- the history model's `LocalMin` for the minimum-with-ring `m`, named `v` -/
def histOf (v : Nat) (m : MinV) : LocalMin := ⟨m.pt.y, m.pt.x, m.polytype, m.isOpen, v⟩

/-- naming by order of creation, from `n` on -/
def label : Nat → List MinV → List LocalMin
  | _, [] => []
  | n, m :: l => histOf n m :: label (n + 1) l

theorem label_length (n : Nat) (l : List MinV) : (label n l).length = l.length := by
  induction l generalizing n with
  | nil => rfl
  | cons m l ih => simp [label, ih]

theorem label_append (n : Nat) (l₁ l₂ : List MinV) : label n (l₁ ++ l₂) = label n l₁ ++ label (n + l₁.length) l₂ := by
  induction l₁ generalizing n with
  | nil => simp [label]
  | cons m l ih => simp [label, ih, Nat.add_assoc, Nat.add_comm 1]

/-- the same naming on the (point, polytype, is_open) triples -/
def labelK : Nat → List (Pt × PathType × Bool) → List LocalMin
  | _, [] => []
  | n, k :: l => ⟨k.1.y, k.1.x, k.2.1, k.2.2, n⟩ :: labelK (n + 1) l

theorem label_eq_labelK (n : Nat) (l : List MinV) : label n l = labelK n (l.map (fun m => (m.pt, m.polytype, m.isOpen))) := by
  induction l generalizing n with
  | nil => rfl
  | cons m l ih => simp [label, labelK, histOf, ih]

theorem enum_map_labelK (n : Nat) (l : List LocMin) :
    (enum l).map (fun (jm : Nat × LocMin) => (⟨jm.2.pt.y, jm.2.pt.x, jm.2.polytype, jm.2.isOpen, n + jm.1⟩ : LocalMin))
      = labelK n (l.map (fun m => (m.pt, m.polytype, m.isOpen))) := by
  induction l generalizing n with
  | nil => rfl
  | cons m l ih =>
    unfold enum at ih ⊢
    simp only [List.length_cons, List.range_succ_eq_map, List.zip_cons_cons, List.map_cons, labelK, Nat.add_zero]
    congr 1
    rw [List.zip_map_left, List.map_map, ← ih (n + 1)]
    apply List.map_congr_left
    intro jm _
    simp [Nat.add_assoc, Nat.add_comm 1]

theorem minimaV_keys (out : Out) :
    (minimaV out).map (fun m => (m.pt, m.polytype, m.isOpen)) = out.minima.map (fun m => (m.pt, m.polytype, m.isOpen)) := by
  unfold minimaV Out.minima
  simp [List.map_flatMap, Function.comp_def]

/-- what `toAdded` contributes is the naming, by order of creation, of the minima-with-rings of the call -/
theorem toAdded_minima (pt : PathType) (isOpen : Bool) (ps : Paths) (n : Nat) :
    (toAdded pt isOpen ps n).minima = label n (minimaV (addPaths pt isOpen ps)) := by
  rw [label_eq_labelK, minimaV_keys, ← enum_map_labelK]
  rfl

/-- every minimum-with-ring created since the last `Clear`, in order of creation -/
def minimaVSince (h : List POp) : List MinV :=
  h.foldl (fun acc op => match op with
    | .clear => []
    | op => match POp.call op with
      | some (pt, o, ps) => acc ++ minimaV (addPaths pt o ps)
      | none => acc) []

def POp.isReuse : POp → Bool
  | .addReuseable _ => true
  | _ => false

theorem minima_closed_fold (h : List POp) (hnr : ∀ op ∈ h, POp.isReuse op = false) (i : Inputs) (acc : List MinV)
    (hi : i.minima = label 0 acc) :
    (h.foldl pstep i).minima = label 0 (h.foldl (fun acc op => match op with
      | .clear => []
      | op => match POp.call op with
        | some (pt, o, ps) => acc ++ minimaV (addPaths pt o ps)
        | none => acc) acc) := by
  induction h generalizing i acc with
  | nil => exact hi
  | cons op h ih =>
    simp only [List.foldl_cons]
    have hnr' : ∀ op ∈ h, POp.isReuse op = false := fun o ho => hnr o (List.mem_cons_of_mem _ ho)
    have hlen : i.minima.length = acc.length := by rw [hi, label_length]
    have hop := hnr op List.mem_cons_self
    cases op with
    | addReuseable c => simp [POp.isReuse] at hop
    | clear => exact ih hnr' _ _ (by simp [pstep, lowerOp, Inputs.step, label])
    | setPreserve b => exact ih hnr' _ _ (by simpa [pstep, lowerOp, Inputs.step, POp.call] using hi)
    | setReverse b => exact ih hnr' _ _ (by simpa [pstep, lowerOp, Inputs.step, POp.call] using hi)
    | execute ct fr tree => exact ih hnr' _ _ (by simpa [pstep, lowerOp, Inputs.step, POp.call] using hi)
    | addSubject ps =>
      refine ih hnr' _ _ ?_
      simp only [pstep, lowerOp, Inputs.step, Op.minima, POp.call]
      rw [toAdded_minima, label_append, hlen, hi, Nat.zero_add]
    | addOpenSubject ps =>
      refine ih hnr' _ _ ?_
      simp only [pstep, lowerOp, Inputs.step, Op.minima, POp.call]
      rw [toAdded_minima, label_append, hlen, hi, Nat.zero_add]
    | addClip ps =>
      refine ih hnr' _ _ ?_
      simp only [pstep, lowerOp, Inputs.step, Op.minima, POp.call]
      rw [toAdded_minima, label_append, hlen, hi, Nat.zero_add]

/-- **closed form of `minima_list_`** (before sorting) for histories without `AddReuseableData` -/
theorem pinputs_minima (h : List POp) (hnr : ∀ op ∈ h, POp.isReuse op = false) :
    (pinputsOf h).minima = label 0 (minimaVSince h) :=
  minima_closed_fold h hnr {} [] rfl

/-- on a duplicate-free list, naming by order of creation is naming by position -/
theorem label_eq_map (n : Nat) (l : List MinV) (hnd : l.Nodup) :
    label n l = l.map (toHist (fun m => n + l.idxOf m)) := by
  induction l generalizing n with
  | nil => rfl
  | cons a l ih =>
    obtain ⟨ha, hl⟩ := List.nodup_cons.mp hnd
    simp only [label, List.map_cons]
    congr 1
    · simp [histOf, toHist, List.idxOf_cons_self]
    · rw [ih (n + 1) hl]
      apply List.map_congr_left
      intro m hm
      have hne : (a == m) = false := by
        have : a ≠ m := fun e => ha (e ▸ hm)
        simpa using this
      simp [toHist, List.idxOf_cons, hne, Nat.add_assoc, Nat.add_comm 1]

theorem nodup_of_distinct_pts {l : List MinV} (hd : l.Pairwise (fun a b => a.pt ≠ b.pt)) : l.Nodup :=
  hd.imp (fun h e => h (by rw [e]))

/-- stable sorting by `LocMinSorter` of two lists with the same elements at pairwise distinct points gives one list
(the argument of `sorted_minima_perm`, for arbitrary lists) -/
theorem mergeSort_leV_perm (A B : List MinV) (hp : A.Perm B) (hd : A.Pairwise (fun a b => a.pt ≠ b.pt)) :
    A.mergeSort leV = B.mergeSort leV := by
  have hAB : (A.mergeSort leV).Perm (B.mergeSort leV) :=
    (List.mergeSort_perm A leV).trans (hp.trans (List.mergeSort_perm B leV).symm)
  refine List.Perm.eq_of_pairwise (le := fun a b => leV a b = true) ?_
    (List.pairwise_mergeSort leV_trans leV_total A) (List.pairwise_mergeSort leV_trans leV_total B) hAB
  intro a b ha hb hab hba
  have haA : a ∈ A := (List.mergeSort_perm A leV).mem_iff.mp ha
  have hbA : b ∈ A := hp.mem_iff.mpr ((List.mergeSort_perm B leV).mem_iff.mp hb)
  have hkey : a.pt = b.pt := by
    rw [leV_eq_locMinLe (fun _ => 0), Clipper.Lemmas.History.locMinLe_iff] at hab hba
    simp only [toHist] at hab hba
    have hx : a.pt.x = b.pt.x := by omega
    have hy : a.pt.y = b.pt.y := by omega
    cases ha' : a.pt; cases hb' : b.pt; simp_all
  by_cases hEq : a = b
  · exact hEq
  · exfalso
    rcases List.mem_iff_append.mp haA with ⟨s, t, rfl⟩
    rcases List.mem_append.mp hbA with hb1 | hb1
    · exact (List.pairwise_append.mp hd).2.2 b hb1 a (by simp) hkey.symm
    · rcases List.mem_cons.mp hb1 with rfl | hb2
      · exact hEq rfl
      · exact (List.pairwise_cons.mp (List.pairwise_append.mp hd).2.1).1 b hb2 hkey

/-! ### histories that differ in the order of the paths within add calls -/

inductive PermHist : List POp → List POp → Prop
  | nil : PermHist [] []
  | cons {a b : POp} {l l' : List POp} : POp.PermEq a b → PermHist l l' → PermHist (a :: l) (b :: l')

theorem minimaV_perm (pt : PathType) (o : Bool) {ps ps' : Paths} (hp : ps.Perm ps') :
    (minimaV (addPaths pt o ps)).Perm (minimaV (addPaths pt o ps')) := by
  rw [minimaV_addPaths, minimaV_addPaths]; exact hp.flatMap_right _

theorem toAdded_perm_fields (pt : PathType) (o : Bool) {ps ps' : Paths} (hp : ps.Perm ps') (n n' : Nat) :
    (toAdded pt o ps n).isOpen = (toAdded pt o ps' n').isOpen ∧ (toAdded pt o ps n).allocates = (toAdded pt o ps' n').allocates := by
  have hs : (ps.map List.length).sum = (ps'.map List.length).sum := (hp.map _).sum_nat
  simp [toAdded, Model.AddPathsRings.addPaths, hs]
  split <;> rfl

/-- invariant relating the summaries of two such histories -/
theorem permHist_fold {h h' : List POp} (hr : PermHist h h') (i i' : Inputs) (acc acc' : List MinV)
    (hacc : acc.Perm acc') (ho : i.hasOpen = i'.hasOpen) (ha : i.allocs = i'.allocs) (hp : i.preserve = i'.preserve)
    (hv : i.reverse = i'.reverse) :
    let f := fun (acc : List MinV) (op : POp) => match op with
      | .clear => []
      | op => match POp.call op with
        | some (pt, o, ps) => acc ++ minimaV (addPaths pt o ps)
        | none => acc
    (h.foldl f acc).Perm (h'.foldl f acc') ∧ (h.foldl pstep i).hasOpen = (h'.foldl pstep i').hasOpen ∧
      (h.foldl pstep i).allocs = (h'.foldl pstep i').allocs ∧ (h.foldl pstep i).preserve = (h'.foldl pstep i').preserve ∧
      (h.foldl pstep i).reverse = (h'.foldl pstep i').reverse := by
  induction hr generalizing i i' acc acc' with
  | nil => exact ⟨hacc, ho, ha, hp, hv⟩
  | @cons a b l l' hab _ ih =>
    simp only [List.foldl_cons]
    cases hab with
    | addSubject hps =>
      have hf := toAdded_perm_fields .subject false hps i.minima.length i'.minima.length
      exact ih (pstep i _) (pstep i' _) _ _ (hacc.append (minimaV_perm _ _ hps)) (by simp [pstep, lowerOp, Inputs.step, Op.setsOpen, ho, hf.1])
        (by simp [pstep, lowerOp, Inputs.step, Op.allocs, ha, hf.2]) (by simpa [pstep, lowerOp, Inputs.step] using hp)
        (by simpa [pstep, lowerOp, Inputs.step] using hv)
    | addOpenSubject hps =>
      have hf := toAdded_perm_fields .subject true hps i.minima.length i'.minima.length
      exact ih (pstep i _) (pstep i' _) _ _ (hacc.append (minimaV_perm _ _ hps)) (by simp [pstep, lowerOp, Inputs.step, Op.setsOpen, ho, hf.1])
        (by simp [pstep, lowerOp, Inputs.step, Op.allocs, ha, hf.2]) (by simpa [pstep, lowerOp, Inputs.step] using hp)
        (by simpa [pstep, lowerOp, Inputs.step] using hv)
    | addClip hps =>
      have hf := toAdded_perm_fields .clip false hps i.minima.length i'.minima.length
      exact ih (pstep i _) (pstep i' _) _ _ (hacc.append (minimaV_perm _ _ hps)) (by simp [pstep, lowerOp, Inputs.step, Op.setsOpen, ho, hf.1])
        (by simp [pstep, lowerOp, Inputs.step, Op.allocs, ha, hf.2]) (by simpa [pstep, lowerOp, Inputs.step] using hp)
        (by simpa [pstep, lowerOp, Inputs.step] using hv)
    | same =>
      cases a with
      | clear =>
        exact ih (pstep i _) (pstep i' _) _ _ (List.Perm.refl _) (by simp [pstep, lowerOp, Inputs.step]) (by simp [pstep, lowerOp, Inputs.step])
          (by simpa [pstep, lowerOp, Inputs.step] using hp) (by simpa [pstep, lowerOp, Inputs.step] using hv)
      | setPreserve b =>
        exact ih (pstep i _) (pstep i' _) _ _ (by simpa [POp.call] using hacc) (by simpa [pstep, lowerOp, Inputs.step] using ho)
          (by simpa [pstep, lowerOp, Inputs.step] using ha) (by simp [pstep, lowerOp, Inputs.step]) (by simpa [pstep, lowerOp, Inputs.step] using hv)
      | setReverse b =>
        exact ih (pstep i _) (pstep i' _) _ _ (by simpa [POp.call] using hacc) (by simpa [pstep, lowerOp, Inputs.step] using ho)
          (by simpa [pstep, lowerOp, Inputs.step] using ha) (by simpa [pstep, lowerOp, Inputs.step] using hp) (by simp [pstep, lowerOp, Inputs.step])
      | execute ct fr tree =>
        exact ih (pstep i _) (pstep i' _) _ _ (by simpa [POp.call] using hacc) (by simpa [pstep, lowerOp, Inputs.step] using ho)
          (by simpa [pstep, lowerOp, Inputs.step] using ha) (by simpa [pstep, lowerOp, Inputs.step] using hp) (by simpa [pstep, lowerOp, Inputs.step] using hv)
      | addReuseable c =>
        exact ih (pstep i _) (pstep i' _) _ _ (by simpa [POp.call] using hacc) (by simp [pstep, lowerOp, Inputs.step, Op.setsOpen, ho])
          (by simp [pstep, lowerOp, Inputs.step, Op.allocs, ha]) (by simpa [pstep, lowerOp, Inputs.step] using hp) (by simpa [pstep, lowerOp, Inputs.step] using hv)
      | addSubject ps =>
        exact ih (pstep i _) (pstep i' _) _ _ (hacc.append (List.Perm.refl _)) (by simp [pstep, lowerOp, Inputs.step, Op.setsOpen, ho, toAdded])
          (by simp [pstep, lowerOp, Inputs.step, Op.allocs, ha, toAdded]) (by simpa [pstep, lowerOp, Inputs.step] using hp) (by simpa [pstep, lowerOp, Inputs.step] using hv)
      | addOpenSubject ps =>
        exact ih (pstep i _) (pstep i' _) _ _ (hacc.append (List.Perm.refl _)) (by simp [pstep, lowerOp, Inputs.step, Op.setsOpen, ho, toAdded])
          (by simp [pstep, lowerOp, Inputs.step, Op.allocs, ha, toAdded]) (by simpa [pstep, lowerOp, Inputs.step] using hp) (by simpa [pstep, lowerOp, Inputs.step] using hv)
      | addClip ps =>
        exact ih (pstep i _) (pstep i' _) _ _ (hacc.append (List.Perm.refl _)) (by simp [pstep, lowerOp, Inputs.step, Op.setsOpen, ho, toAdded])
          (by simp [pstep, lowerOp, Inputs.step, Op.allocs, ha, toAdded]) (by simpa [pstep, lowerOp, Inputs.step] using hp) (by simpa [pstep, lowerOp, Inputs.step] using hv)

theorem permHist_noReuse {h h' : List POp} (hr : PermHist h h') (hnr : ∀ op ∈ h, POp.isReuse op = false) :
    ∀ op ∈ h', POp.isReuse op = false := by
  induction hr with
  | nil => simp
  | cons hab _ ih =>
    intro op hop
    rcases List.mem_cons.mp hop with rfl | hop
    · have := hnr _ List.mem_cons_self
      cases hab <;> first | rfl | exact this
    · exact ih (fun o ho => hnr o (List.mem_cons_of_mem _ ho)) op hop

end Clipper.Lemmas.HistoryPaths
