/-
Helper lemmas for Props/C08Tidy.lean, part 12: the invariant of all eight edge lists (`EdgesOK`) is kept by every `TidyEdges` call, so
the four calls of `Execute` all terminate.
Core Lean only.
-/
import ClipperVerif.Lemmas.RectClipTidySide
namespace Clipper.Lemmas.RCT
open Clipper Clipper.Model.RC Clipper.Model.RCT

/-- **Invariant of the eight edge lists**: `SideInv` for each of the four sides, and no node is an entry of two sides -/
structure EdgesOK (h : Heap) : Prop where
  side : ∀ idx, idx < 4 → SideInv idx h
  disj : ∀ idx idx', idx < 4 → idx' < 4 → idx ≠ idx' → ∀ k, SideMem idx h k → ¬ SideMem idx' h k

/-- an iteration of the loop for side `idx` keeps the invariant of all sides -/
theorem edgesOK_step (idx : Nat) (hidx : idx < 4) (h h' : Heap) (ok : EdgesOK h) (fr : SideFrame idx h h')
    (si : SideInv idx h') : EdgesOK h' := by
  have memOther : ∀ a, a ≠ idx → ∀ k, SideMem a h' k → SideMem a h k := by
    intro a ha k hk
    rcases hk with hk | hk
    · exact Or.inl ((fr.others (a * 2) (by omega) (by omega)).mem hk)
    · exact Or.inr ((fr.others (a * 2 + 1) (by omega) (by omega)).mem hk)
  have memAny : ∀ a, ∀ k, SideMem a h' k → SideMem a h k := by
    intro a k hk
    by_cases ha : a = idx
    · subst ha; exact fr.mem k hk
    · exact memOther a ha k hk
  refine ⟨?_, ?_⟩
  · intro a ha
    by_cases e : a = idx
    · subst e; exact si
    · have sa := ok.side a ha
      obtain ⟨c, hc⟩ := sa.line
      have hprev : ∀ k, SideMem a h k → h'.prev k = h.prev k := by
        intro k hk
        exact fr.prev k (ok.disj a idx ha hidx e k hk)
      refine ⟨⟨c, ?_⟩, ?_, ?_, ?_⟩
      · intro k hk
        have hk' := memOther a e k hk
        rw [fr.pt, hprev k hk']
        exact hc k hk'
      · intro k hk
        have hk' : some k ∈ h.edges (a * 2) := (fr.others (a * 2) (by omega) (by omega)).mem hk
        rw [fr.pt, hprev k (Or.inl hk')]
        exact sa.cwd k hk'
      · intro k hk
        have hk' : some k ∈ h.edges (a * 2 + 1) := (fr.others (a * 2 + 1) (by omega) (by omega)).mem hk
        rw [fr.pt, hprev k (Or.inr hk')]
        exact sa.ccwd k hk'
      · intro k
        have := sa.once k
        have e1 := (fr.others (a * 2) (by omega) (by omega)).wsum_le (fun e => if e = some k then 1 else 0) (by simp)
        have e2 := (fr.others (a * 2 + 1) (by omega) (by omega)).wsum_le (fun e => if e = some k then 1 else 0) (by simp)
        unfold occ at *
        omega
  · intro a b ha hb hab k hk hk2
    exact ok.disj a b ha hb hab k (memAny a k hk) (memAny b k hk2)

/-- the loop for side `idx` returns and keeps the invariant of all sides -/
theorem tidyLoop_global (idx : Nat) (hidx : idx < 4) : ∀ (fuel : Nat) (s : TState) (ring : Nat → List Nat), TInv s.h ring →
    EdgesOK s.h → s.j ≤ (s.h.edges (idx * 2 + 1)).length → tidyMeasure idx s < fuel →
    ∃ h' bs, tidyLoop idx fuel s = .ok (h', bs) ∧ EdgesOK h'
  | 0, _, _, _, _, _, hf => absurd hf (Nat.not_lt_zero _)
  | fuel + 1, s, ring, inv, ok, hj, hf => by
    rcases tidyStep_inv idx s ring inv hj with hd | ⟨b, s', ring', hn, inv', _, _, _, hj', _⟩
    · exact ⟨s.h, [], by simp [tidyLoop, hd], ok⟩
    · rcases tidyStep_measure idx s ring inv (ok.side idx hidx) hj with hd | ⟨b2, s2, hn2, si2, hm, fr⟩
      · rw [hd] at hn; cases hn
      · rw [hn] at hn2
        simp only [TStep.next.injEq] at hn2
        obtain ⟨_, rfl⟩ := hn2
        have ok' := edgesOK_step idx hidx s.h s'.h ok fr si2
        obtain ⟨h', bs, hres, okf⟩ := tidyLoop_global idx hidx fuel s' ring' inv' ok' hj' (by omega)
        exact ⟨h', b :: bs, by simp [tidyLoop, hn, hres], okf⟩

/-- **`TidyEdges(idx)` returns** on a well-formed heap with `EdgesOK`, and keeps `EdgesOK` -/
theorem tidyEdges_global (idx : Nat) (hidx : idx < 4) (h : Heap) (ring : Nat → List Nat) (inv : TInv h ring) (ok : EdgesOK h) :
    ∃ h', tidyEdges idx h = .ok h' ∧ EdgesOK h' := by
  unfold tidyEdges tidyEdgesB
  split
  · exact ⟨h, rfl, ok⟩
  · obtain ⟨h', bs, hres, okf⟩ := tidyLoop_global idx hidx (tidyFuel idx h) ⟨h, 0, 0⟩ ring inv ok (Nat.zero_le _)
      (by unfold tidyFuel; omega)
    exact ⟨h', by rw [hres]; rfl, okf⟩

/-- **the four `TidyEdges` calls of `Execute` return** -/
theorem tidyAll_total (h : Heap) (ring : Nat → List Nat) (inv : TInv h ring) (ok : EdgesOK h) : ∃ h', tidyAll h = .ok h' := by
  obtain ⟨h0, e0, ok0⟩ := tidyEdges_global 0 (by omega) h ring inv ok
  obtain ⟨r0, i0, _⟩ := (tidyEdges_inv 0 h ring inv).1 h0 e0
  obtain ⟨h1, e1, ok1⟩ := tidyEdges_global 1 (by omega) h0 r0 i0 ok0
  obtain ⟨r1, i1, _⟩ := (tidyEdges_inv 1 h0 r0 i0).1 h1 e1
  obtain ⟨h2, e2, ok2⟩ := tidyEdges_global 2 (by omega) h1 r1 i1 ok1
  obtain ⟨r2, i2, _⟩ := (tidyEdges_inv 2 h1 r1 i1).1 h2 e2
  obtain ⟨h3, e3, _⟩ := tidyEdges_global 3 (by omega) h2 r2 i2 ok2
  exact ⟨h3, by simp [tidyAll, e0, e1, e2, e3]⟩

/-- when all `ccw` lists are empty every `TidyEdges` call returns at once -/
theorem tidyAll_trivial (h : Heap) (hccw : ∀ idx, idx < 4 → h.edges (idx * 2 + 1) = []) : tidyAll h = .ok h := by
  have t : ∀ idx, idx < 4 → tidyEdges idx h = .ok h := by
    intro idx hi
    unfold tidyEdges tidyEdgesB
    rw [hccw idx hi]; rfl
  simp [tidyAll, t 0 (by omega), t 1 (by omega), t 2 (by omega), t 3 (by omega)]

end Clipper.Lemmas.RCT
