/-
Helper lemma for the C01 build: the exact decorated run ends with an empty AEL when no input edge tops out above the last scanline.
Core Lean only.
-/
import ClipperVerif.Lemmas.C01OutputFinal
namespace Clipper.Lemmas.C01Build
open Clipper Clipper.Model Clipper.Model.AelOrder Clipper.Model.SweepOrder Clipper.Model.SweepEvents Clipper.Model.SweepPoints
open Clipper.Lemmas.SweepOrder Clipper.Lemmas.C01Region Clipper.Lemmas.C01Output
open Clipper.Props.C01Sweep

/-- the last scanbeam of the decorated run ends on the last scanline -/
theorem beamRunsP_last (D : Int) (valid : Int → GEdge → GEdge → Bool) (cx : GEdge → Int → Int) (next : GEdge → Option GEdge)
    (mins : Int → List (GEdge × GEdge)) (lab : Lab) : ∀ (ys : List Int) (ael : List GEdge) (pre : List BeamRunP) (r : BeamRunP),
    beamRunsP D valid cx next mins lab ael ys = pre ++ [r] → ys.getLast? = some r.snap.y1 := by
  intro ys
  induction ys with
  | nil => intro ael pre r h; simp [beamRunsP] at h
  | cons y0 t ih =>
    intro ael pre r h
    cases t with
    | nil => simp [beamRunsP] at h
    | cons y1 rest =>
      rw [beamRunsP_cons] at h
      rw [List.getLast?_cons_cons]
      cases pre with
      | nil =>
        simp only [List.nil_append, List.cons.injEq] at h
        obtain ⟨h1, h2⟩ := h
        cases rest with
        | nil => subst h1; rfl
        | cons y2 rest' => rw [beamRunsP_cons] at h2; cases h2
      | cons p0 pre' =>
        simp only [List.cons_append, List.cons.injEq] at h
        exact ih _ pre' r h.2

/-- nothing is left after the top of the last scanbeam, if no input edge tops out above it -/
theorem afterTop_nil (edges : List GEdge) (next : GEdge → Option GEdge) (mins : Int → List (GEdge × GEdge))
    (hup : AllUp edges) (hnx : NextOK edges next mins) (s : Snap) (hf : BeamFacts edges s)
    (hs : s.afterTop = topOfBeam next s.y1 s.afterIsect) (hend : ∀ e ∈ edges, s.y1 ≤ e.top.y) : s.afterTop = [] := by
  apply List.eq_nil_iff_forall_not_mem.2
  intro e' he'
  rw [hs] at he'
  unfold topOfBeam at he'
  obtain ⟨e, he, hst⟩ := List.mem_filterMap.1 he'
  obtain ⟨hE, _, hB⟩ := hf.mem e (hf.isect_perm.mem_iff.1 he)
  have h1 := hend e hE
  unfold topStep at hst
  unfold AliveBelow at hB
  split at hst
  · next heq =>
    obtain ⟨hE', hbot, _⟩ := hnx e hE e' hst
    have h2 := hend e' hE'
    have h3 := hup e' hE'
    unfold SEdge.Up at h3
    rw [hbot] at h3
    omega
  · next hne => omega

/-- the exact run ends with an empty AEL: if no input edge tops out above the last scanline -/
theorem sweep_ends_empty (cfg : Cfg) (hct : cfg.ct ≠ .noClip) (D : Int) (edges : List GEdge) (valid : Int → GEdge → GEdge → Bool)
    (cx : GEdge → Int → Int) (next : GEdge → Option GEdge) (mins : Int → List (GEdge × GEdge)) (lab : Lab) (ys : List Int)
    (hup : AllUp edges) (hnx : NextOK edges next mins) (hn : Near cx) (hok : SweepOK edges valid next mins ys)
    (hR : HypR edges next mins lab ys) (hD : DenOK D (sweepDens valid cx next mins ys))
    (hend : ∀ y, ys.getLast? = some y → ∀ e ∈ edges, y ≤ e.top.y)
    (rs : RState) (hrs : runR cfg RState.empty (sweepEventsP D valid cx next mins lab ys) = .ok rs) : rs.s.ael = [] := by
  have hP := sweepP_empty cfg hct D edges valid cx next mins lab ys hup hnx hn hok hR hD
  unfold sweepEventsP at hrs
  rcases List.eq_nil_or_concat (beamRunsP D valid cx next mins lab [] ys) with h | ⟨pre, r, h⟩
  · rw [h] at hrs
    simp only [List.flatMap_nil, runR, Except.ok.injEq] at hrs
    subst hrs
    rfl
  · rw [List.concat_eq_append] at h
    obtain ⟨r1, aelr, y0, y1, rI, rX, rT, hrun, _, hr, hbp, hf, _, _⟩ := hP.beams pre r [] h
    have hlast := beamRunsP_last D valid cx next mins lab ys [] pre r h
    rw [h, List.flatMap_append, runR_append, hrun] at hrs
    simp only [List.flatMap_cons, List.flatMap_nil, List.append_nil] at hrs
    rw [runR_events cfg hbp] at hrs
    injection hrs with hrs
    subst hrs
    have hnil : r.snap.afterTop = [] :=
      afterTop_nil edges next mins hup hnx r.snap hf (by rw [hr]; rfl) (hend _ hlast)
    have ht := hbp.trTop
    rw [hnil] at ht
    unfold Tracks at ht
    simp only [List.map_nil, List.map_eq_nil_iff] at ht
    unfold erase at ht
    exact List.map_eq_nil_iff.1 ht

end Clipper.Lemmas.C01Build
