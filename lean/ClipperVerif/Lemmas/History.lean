/- Helper lemmas for C12: the comparator is a total preorder; invariants of the ClipperBase state machine. -/
import ClipperVerif.Model.History
import ClipperVerif.Lemmas.StableSort
namespace Clipper.Lemmas.History
open Clipper Clipper.Model.History Clipper.Lemmas.StableSort

theorem locMinLe_iff (a b : LocalMin) : locMinLe a b = true ↔ (a.y > b.y ∨ (a.y = b.y ∧ a.x ≤ b.x)) := by
  unfold locMinLe locMinBefore
  by_cases h : a.y = b.y
  · simp [h]
  · have h' : ¬ (b.y = a.y) := fun e => h e.symm
    simp [h]
    omega

theorem locMinLe_trans (a b c : LocalMin) : locMinLe a b = true → locMinLe b c = true → locMinLe a c = true := by
  simp only [locMinLe_iff]; omega

theorem locMinLe_total (a b : LocalMin) : (locMinLe a b || locMinLe b a) = true := by
  simp only [Bool.or_eq_true, locMinLe_iff]; omega

theorem stableSort_append (xs ys : List LocalMin) : stableSort (stableSort xs ++ ys) = stableSort (xs ++ ys) :=
  mergeSort_mergeSort_append locMinLe_trans locMinLe_total xs ys

theorem stableSort_idem (xs : List LocalMin) : stableSort (stableSort xs) = stableSort xs :=
  mergeSort_idem locMinLe_trans locMinLe_total xs

theorem stableSort_congr_append {xs xs' : List LocalMin} (h : stableSort xs = stableSort xs') (ys : List LocalMin) :
    stableSort (xs ++ ys) = stableSort (xs' ++ ys) := by
  rw [← stableSort_append xs ys, h, stableSort_append]

/-- what ties an object to the summary of the history that produced it -/
structure Inv (c : Clipper) (i : Inputs) : Prop where
  sortEq : stableSort c.minima = stableSort i.minima
  sortedEq : c.sorted = true → c.minima = stableSort i.minima
  hasOpen : c.hasOpen = i.hasOpen
  allocs : c.vertexLists = i.allocs
  preserve : c.preserve = i.preserve
  reverse : c.reverse = i.reverse
  cleaned : c.s.cleaned

theorem inv_fresh : Inv fresh {} := by
  constructor <;> simp [fresh, Scratch.cleaned]

theorem inv_addPaths {c i} (h : Inv c i) (a : Added) :
    Inv (addPaths c a) { i with minima := i.minima ++ a.minima, hasOpen := i.hasOpen || a.isOpen,
                                allocs := i.allocs + (if a.allocates then 1 else 0) } := by
  constructor
  · exact stableSort_congr_append h.sortEq _
  · intro hs; simp [addPaths] at hs
  · simp only [addPaths, h.hasOpen]; cases a.isOpen <;> simp
  · simp [addPaths, h.allocs]
  · simp [addPaths, h.preserve]
  · simp [addPaths, h.reverse]
  · exact h.cleaned

theorem inv_addReuseable {c i} (h : Inv c i) (r : Container) :
    Inv (addReuseable c r) { i with minima := i.minima ++ r.minima, hasOpen := i.hasOpen || r.minima.any (·.isOpen),
                                    allocs := i.allocs + 0 } := by
  constructor
  · exact stableSort_congr_append h.sortEq _
  · intro hs; simp [addReuseable] at hs
  · simp [addReuseable, h.hasOpen]
  · simp [addReuseable, h.allocs]
  · simp [addReuseable, h.preserve]
  · simp [addReuseable, h.reverse]
  · exact h.cleaned

theorem cleaned_cleanUp (c : Clipper) : (cleanUp c).s.cleaned := by
  simp [cleanUp, Scratch.cleaned]

theorem inv_clear {c i} (h : Inv c i) : Inv (clear c) { i with minima := [], hasOpen := false, allocs := 0 } := by
  constructor <;> simp [clear, cleanUp, Scratch.cleaned, h.preserve, h.reverse]

/-- `Reset()` on an object satisfying the invariant yields the closed-form start state, `bot_y_` aside. -/
theorem reset_eq_sweepStart {c i} (h : Inv c i) (ct : ClipType) (fr : FillRule) (tree : Bool) :
    reset { c with cliptype := ct, fillrule := fr, usingPolytree := tree }
      = { sweepStart i ct fr tree with s := { (sweepStart i ct fr tree).s with botY := c.s.botY } } := by
  have hm : (if c.sorted then c.minima else stableSort c.minima) = stableSort i.minima := by
    cases hs : c.sorted
    · simpa using h.sortEq
    · simpa using h.sortedEq hs
  obtain ⟨h1, h2, h3, h4, h5, h6⟩ := h.cleaned
  cases c with
  | mk minima vertexLists sorted hasOpen preserve reverse cliptype fillrule usingPolytree s locminIter succeeded =>
    cases s with
    | mk actives sel scanlines intersectNodes outrecs horzSegs horzJoins botY =>
      simp only at h1 h2 h3 h4 h5 h6 hm
      have := h.hasOpen; have := h.allocs; have := h.preserve; have := h.reverse
      simp_all [reset, sweepStart]

theorem inv_execute {R : Type} (run : Sweep R) {c i} (h : Inv c i) (ct : ClipType) (fr : FillRule) (tree : Bool) :
    Inv (execute run c ct fr tree).2 i := by
  have hr := reset_eq_sweepStart h ct fr tree
  simp only [execute]
  rw [hr]
  constructor
  · simp [cleanUp, sweepStart, stableSort_idem]
  · intro _; simp [cleanUp, sweepStart]
  · simp [cleanUp, sweepStart]
  · simp [cleanUp, sweepStart]
  · simp [cleanUp, sweepStart]
  · simp [cleanUp, sweepStart]
  · simp [cleanUp, Scratch.cleaned]

theorem inv_step {R : Type} (run : Sweep R) {c i} (h : Inv c i) (op : Op) : Inv (step run c op).1 (i.step op) := by
  cases op with
  | addSubject a => simpa [step, Inputs.step, Op.minima, Op.setsOpen, Op.allocs] using inv_addPaths h a
  | addOpenSubject a => simpa [step, Inputs.step, Op.minima, Op.setsOpen, Op.allocs] using inv_addPaths h a
  | addClip a => simpa [step, Inputs.step, Op.minima, Op.setsOpen, Op.allocs] using inv_addPaths h a
  | addReuseable r => simpa [step, Inputs.step, Op.minima, Op.setsOpen, Op.allocs] using inv_addReuseable h r
  | setPreserve b =>
    simp only [step, Inputs.step]
    exact ⟨h.sortEq, h.sortedEq, h.hasOpen, h.allocs, rfl, h.reverse, h.cleaned⟩
  | setReverse b =>
    simp only [step, Inputs.step]
    exact ⟨h.sortEq, h.sortedEq, h.hasOpen, h.allocs, h.preserve, rfl, h.cleaned⟩
  | execute ct fr tree => simpa [step, Inputs.step] using inv_execute run h ct fr tree
  | clear => simpa [step, Inputs.step] using inv_clear h

theorem inv_foldl {R : Type} (run : Sweep R) (ops : List Op) {c i} (h : Inv c i) :
    Inv (ops.foldl (fun c op => (step run c op).1) c) (ops.foldl Inputs.step i) := by
  induction ops generalizing c i with
  | nil => exact h
  | cons op ops ih => exact ih (inv_step run h op)

theorem inv_after {R : Type} (run : Sweep R) (ops : List Op) : Inv (after run ops) (inputsOf ops) :=
  inv_foldl run ops inv_fresh

/-- `sel_` is null after every op when the sweep drains it -/
theorem sel_foldl {R : Type} (run : Sweep R) (hsel : SweepDrainsSel run) (ops : List Op) {c : Clipper} (h : c.s.sel = []) :
    (ops.foldl (fun c op => (step run c op).1) c).s.sel = [] := by
  induction ops generalizing c with
  | nil => exact h
  | cons op ops ih =>
    apply ih
    cases op <;> simp [step, addPaths, addReuseable, clear, cleanUp, execute, h, hsel _]

/-! ### outputs of a history -/

theorem runFrom_fst {R : Type} (run : Sweep R) (c : Clipper) (ops : List Op) :
    (runFrom run c ops).1 = ops.foldl (fun c op => (step run c op).1) c := by
  induction ops generalizing c with
  | nil => rfl
  | cons op ops ih => simp [runFrom, ih]

theorem runFrom_append {R : Type} (run : Sweep R) (c : Clipper) (l₁ l₂ : List Op) :
    (runFrom run c (l₁ ++ l₂)).2 = (runFrom run c l₁).2 ++ (runFrom run (runFrom run c l₁).1 l₂).2 := by
  induction l₁ generalizing c with
  | nil => simp [runFrom]
  | cons op ops ih => simp [runFrom, ih]

theorem runFrom_length {R : Type} (run : Sweep R) (c : Clipper) (l : List Op) : (runFrom run c l).2.length = l.length := by
  induction l generalizing c with
  | nil => rfl
  | cons op ops ih => simp [runFrom, ih]

end Clipper.Lemmas.History
