/-
Helper lemmas for `Props/C01Order.lean`: the list walk of InsertLeftEdge / the settling loop of the right bound, for an
arbitrary predicate `valid`; and the integer geometry behind the cross-product test of IsValidAelOrder.
-/
import ClipperVerif.Model.AelOrder
import ClipperVerif.Props.C18
namespace Clipper.Lemmas.AelOrder
open Clipper Clipper.Model.AelOrder

/-! ## the walk of InsertLeftEdge -/
section Generic
variable {E : Type} (valid : E → E → Bool) (joinRight : E → Bool)

/-- where `walkPos` says `some k`, `walkInsert` has linked `e` at index `k` of `cur :: rest` (never in front of `cur`) -/
theorem walkInsert_of_pos (e : E) : ∀ (rest : List E) (cur : E) (k : Nat),
    walkPos valid joinRight e cur rest = some k →
      walkInsert valid joinRight e cur rest = (cur :: rest).take k ++ e :: (cur :: rest).drop k ∧
        1 ≤ k ∧ k ≤ rest.length + 1 := by
  intro rest
  induction rest with
  | nil =>
    intro cur k h
    simp only [walkPos] at h
    by_cases hj : joinRight cur = true
    · simp [hj] at h
    · simp [hj] at h; subst h; simp [walkInsert, hj]
  | cons nxt rest ih =>
    intro cur k h
    simp only [walkPos] at h
    by_cases hv : valid nxt e = true
    · simp only [hv, if_true] at h
      cases hw : walkPos valid joinRight e nxt rest with
      | none => simp [hw] at h
      | some k' =>
        simp [hw] at h; subst h
        obtain ⟨h1, h2, h3⟩ := ih nxt k' hw
        refine ⟨?_, by omega, by simp; omega⟩
        simp only [walkInsert, hv, if_true, h1]
        simp
    · simp only [hv] at h
      by_cases hj : joinRight cur = true
      · simp [hj] at h; subst h; simp [walkInsert, hv, hj]
      · simp [hj] at h; subst h; simp [walkInsert, hv, hj]

/-- `walkPos = none` is the C++ path `if (!e2) return`: the walk ran to the last edge, which is joined to the right;
the list is unchanged (the new edge is not linked). -/
theorem walkInsert_of_none (e : E) : ∀ (rest : List E) (cur : E),
    walkPos valid joinRight e cur rest = none →
      walkInsert valid joinRight e cur rest = cur :: rest ∧
        joinRight ((cur :: rest).getLast (by simp)) = true := by
  intro rest
  induction rest with
  | nil =>
    intro cur h
    simp only [walkPos] at h
    by_cases hj : joinRight cur = true
    · simp [walkInsert, hj]
    · simp [hj] at h
  | cons nxt rest ih =>
    intro cur h
    simp only [walkPos] at h
    by_cases hv : valid nxt e = true
    · simp only [hv, if_true] at h
      cases hw : walkPos valid joinRight e nxt rest with
      | some k' => simp [hw] at h
      | none =>
        obtain ⟨h1, h2⟩ := ih nxt hw
        refine ⟨by simp only [walkInsert, hv, if_true, h1], ?_⟩
        simpa [List.getLast_cons] using h2
    · simp only [hv] at h
      by_cases hj : joinRight cur = true <;> simp [hj] at h

/-- the index function describes `insertLeft` -/
theorem insertLeft_of_pos (l : List E) (e : E) (k : Nat) (h : insertLeftPos valid joinRight l e = some k) :
    insertLeft valid joinRight l e = l.take k ++ e :: l.drop k ∧ k ≤ l.length := by
  cases l with
  | nil => simp [insertLeftPos] at h; subst h; simp [insertLeft]
  | cons first rest =>
    simp only [insertLeftPos] at h
    by_cases hv : valid first e = true
    · simp only [hv, Bool.not_true] at h
      obtain ⟨h1, _, h3⟩ := walkInsert_of_pos valid joinRight e rest first k (by simpa using h)
      refine ⟨?_, by simpa using h3⟩
      simp only [insertLeft, hv, Bool.not_true]
      simpa using h1
    · simp [hv] at h; subst h; simp [insertLeft, hv]

theorem insertLeft_of_none (l : List E) (e : E) (h : insertLeftPos valid joinRight l e = none) :
    insertLeft valid joinRight l e = l ∧ ∃ x, l.getLast? = some x ∧ joinRight x = true := by
  cases l with
  | nil => simp [insertLeftPos] at h
  | cons first rest =>
    simp only [insertLeftPos] at h
    by_cases hv : valid first e = true
    · simp only [hv, Bool.not_true] at h
      obtain ⟨h1, h2⟩ := walkInsert_of_none valid joinRight e rest first (by simpa using h)
      refine ⟨by simp only [insertLeft, hv, Bool.not_true]; simpa using h1, _, ?_, h2⟩
      exact List.getLast?_eq_some_getLast (by simp)
    · simp [hv] at h

/-- The walk on a list that splits into a `valid` prefix and a rest whose head is not `valid`: the new edge goes between
them — one further right when the last edge of the prefix is joined to its right neighbour. -/
theorem walkInsert_split (e : E) : ∀ (l₁ : List E) (cur : E) (l₂ : List E),
    (∀ r ∈ l₁, valid r e = true) → (∀ b, l₂.head? = some b → valid b e = false) →
    walkInsert valid joinRight e cur (l₁ ++ l₂) =
      if joinRight ((cur :: l₁).getLast (by simp)) = true then
        (match l₂ with
         | [] => cur :: l₁
         | b :: l₂' => cur :: l₁ ++ b :: e :: l₂')
      else cur :: l₁ ++ e :: l₂ := by
  intro l₁
  induction l₁ with
  | nil =>
    intro cur l₂ _ h2
    cases l₂ with
    | nil => by_cases hj : joinRight cur = true <;> simp [walkInsert, hj]
    | cons b l₂' =>
      have hb : valid b e = false := h2 b rfl
      by_cases hj : joinRight cur = true <;> simp [walkInsert, hj, hb]
  | cons a l₁ ih =>
    intro cur l₂ h1 h2
    have ha : valid a e = true := h1 a (by simp)
    have := ih a l₂ (fun r hr => h1 r (by simp [hr])) h2
    simp only [List.cons_append, walkInsert, ha, if_true, this]
    simp only [List.getLast_cons (l := a :: l₁) (by simp)]
    split
    · cases l₂ <;> simp
    · simp

/-- `walkPos` on the same split -/
theorem walkPos_split (e : E) : ∀ (l₁ : List E) (cur : E) (l₂ : List E),
    (∀ r ∈ l₁, valid r e = true) → (∀ b, l₂.head? = some b → valid b e = false) →
    walkPos valid joinRight e cur (l₁ ++ l₂) =
      if joinRight ((cur :: l₁).getLast (by simp)) = true then
        (match l₂ with
         | [] => none
         | _ :: _ => some (l₁.length + 2))
      else some (l₁.length + 1) := by
  intro l₁
  induction l₁ with
  | nil =>
    intro cur l₂ _ h2
    cases l₂ with
    | nil => by_cases hj : joinRight cur = true <;> simp [walkPos, hj]
    | cons b l₂' =>
      have hb : valid b e = false := h2 b rfl
      by_cases hj : joinRight cur = true <;> simp [walkPos, hj, hb]
  | cons a l₁ ih =>
    intro cur l₂ h1 h2
    have ha : valid a e = true := h1 a (by simp)
    have := ih a l₂ (fun r hr => h1 r (by simp [hr])) h2
    simp only [List.cons_append, walkPos, ha, if_true, this]
    simp only [List.getLast_cons (l := a :: l₁) (by simp)]
    split
    · cases l₂ <;> simp
    · simp

/-- In a list sorted by a transitive `lt` that agrees with `valid · e`, the edges below `e` form a prefix. -/
theorem sorted_prefix (lt : E → E → Prop) (e : E) (htrans : ∀ a b c, lt a b → lt b c → lt a c) :
    ∀ (l : List E), l.Pairwise lt → (∀ r ∈ l, valid r e = true ↔ lt r e) →
      ∃ l₁ l₂, l = l₁ ++ l₂ ∧ (∀ r ∈ l₁, valid r e = true) ∧ (∀ r ∈ l₂, valid r e = false) := by
  intro l
  induction l with
  | nil => intro _ _; exact ⟨[], [], rfl, by simp, by simp⟩
  | cons a t ih =>
    intro hs hag
    rw [List.pairwise_cons] at hs
    by_cases ha : valid a e = true
    · obtain ⟨l₁, l₂, h1, h2, h3⟩ := ih hs.2 (fun r hr => hag r (by simp [hr]))
      refine ⟨a :: l₁, l₂, by simp [h1], ?_, h3⟩
      intro r hr
      rcases List.mem_cons.1 hr with rfl | hr
      · exact ha
      · exact h2 r hr
    · refine ⟨[], a :: t, rfl, by simp, ?_⟩
      intro r hr
      rcases List.mem_cons.1 hr with rfl | hr
      · simpa using ha
      · cases hv : valid r e with
        | false => rfl
        | true =>
          exfalso
          have h1 : lt r e := (hag r (by simp [hr])).1 hv
          have h2 : lt a r := hs.1 r hr
          exact ha ((hag a (by simp)).2 (htrans _ _ _ h2 h1))

/-! ## the settling loop of the right bound -/

theorem bubble_shape (rb : E) : ∀ (l : List E),
    bubble valid rb l = l.take (bubbleCount valid rb l) ++ rb :: l.drop (bubbleCount valid rb l) ∧
      bubbleCount valid rb l ≤ l.length := by
  intro l
  induction l with
  | nil => simp [bubble, bubbleCount]
  | cons a t ih =>
    by_cases ha : valid a rb = true
    · simp only [bubble, bubbleCount, ha, if_true]
      refine ⟨?_, by simp; exact ih.2⟩
      rw [ih.1]; simp
    · simp [bubble, bubbleCount, ha]

theorem bubble_split (rb : E) : ∀ (l₁ l₂ : List E),
    (∀ r ∈ l₁, valid r rb = true) → (∀ b, l₂.head? = some b → valid b rb = false) →
      bubble valid rb (l₁ ++ l₂) = l₁ ++ rb :: l₂ ∧ bubbleCount valid rb (l₁ ++ l₂) = l₁.length := by
  intro l₁
  induction l₁ with
  | nil =>
    intro l₂ _ h2
    cases l₂ with
    | nil => simp [bubble, bubbleCount]
    | cons b t => simp [bubble, bubbleCount, h2 b rfl]
  | cons a t ih =>
    intro l₂ h1 h2
    have ha : valid a rb = true := h1 a (by simp)
    obtain ⟨i1, i2⟩ := ih l₂ (fun r hr => h1 r (by simp [hr])) h2
    simp [bubble, bubbleCount, ha, i1, i2]

end Generic

/-! ## integer geometry -/

/-- `CrossProductSign(a,b,c)` tests the sign of `cross a b c` -/
theorem cross_turn (a b c : Pt) :
    (b.x - a.x) * (c.y - b.y) - (b.y - a.y) * (c.x - b.x) = cross a b c := by
  simp only [cross]; grind

theorem cps_eq (a b c : Pt) : Gen.CrossProductSign a.x a.y b.x b.y c.x c.y = Int.sign (cross a b c) := by
  rw [Props.C18.crossProductSign_int128_exact, Props.C18.crossSign, cross_turn]

theorem cps_ne0 (a b c : Pt) : (Gen.CrossProductSign a.x a.y b.x b.y c.x c.y ≠ 0) ↔ cross a b c ≠ 0 := by
  rw [cps_eq]; simp [Int.sign_eq_zero_iff_zero]
theorem cps_lt0 (a b c : Pt) : (Gen.CrossProductSign a.x a.y b.x b.y c.x c.y < 0) ↔ cross a b c < 0 := by
  rw [cps_eq]; exact Int.sign_neg_iff
theorem cps_le0 (a b c : Pt) : (Gen.CrossProductSign a.x a.y b.x b.y c.x c.y ≤ 0) ↔ cross a b c ≤ 0 := by
  rw [cps_eq]; exact Int.sign_nonpos_iff
theorem cps_gt0 (a b c : Pt) : (Gen.CrossProductSign a.x a.y b.x b.y c.x c.y > 0) ↔ cross a b c > 0 := by
  rw [cps_eq]; exact Int.sign_pos_iff
theorem cps_ge0 (a b c : Pt) : (Gen.CrossProductSign a.x a.y b.x b.y c.x c.y ≥ 0) ↔ cross a b c ≥ 0 := by
  rw [cps_eq]; exact Int.sign_nonneg_iff

/-- `IsCollinear(pt1, sharedPt, pt2)` (generated parameter order: pt1, pt2, sharedPt) -/
theorem isCollinear_eq (p s q : Pt) : Gen.IsCollinear p.x p.y q.x q.y s.x s.y = decide (cross p s q = 0) := by
  rw [Bool.eq_iff_iff, Props.C18.isCollinear_int128_exact, decide_eq_true_iff, ← cross_turn]
  omega

/-- sign transfer through two negative factors -/
theorem pos_of_neg_mul_eq {a d X Y : Int} (ha : a < 0) (hd : d < 0) (h : a * X = d * Y) : 0 < X ↔ 0 < Y := by
  constructor
  · intro hx
    have h1 : a * X < 0 := Int.mul_neg_of_neg_of_pos ha hx
    rw [h] at h1
    rcases Int.lt_trichotomy Y 0 with hy | hy | hy
    · have := Int.mul_pos_of_neg_of_neg hd hy; omega
    · subst hy; simp at h1
    · exact hy
  · intro hy
    have h1 : d * Y < 0 := Int.mul_neg_of_neg_of_pos hd hy
    rw [← h] at h1
    rcases Int.lt_trichotomy X 0 with hx | hx | hx
    · have := Int.mul_pos_of_neg_of_neg ha hx; omega
    · subst hx; simp at h1
    · exact hx

theorem pos_of_pos_mul_eq {a X Y : Int} (ha : 0 < a) (h : X = a * Y) : 0 < X ↔ 0 < Y := by
  subst h
  constructor
  · intro hx
    rcases Int.lt_trichotomy Y 0 with hy | hy | hy
    · have := Int.mul_neg_of_pos_of_neg ha hy; omega
    · subst hy; simp at hx
    · exact hy
  · intro hy; exact Int.mul_pos ha hy

end Clipper.Lemmas.AelOrder
