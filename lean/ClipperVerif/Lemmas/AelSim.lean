/- Symmetry lemmas of the AEL bookkeeping model (C13): exchange of path types, negation of directions. -/
import ClipperVerif.Lemmas.Ael
namespace Clipper.Model

def flipFr : FillRule → FillRule
  | .positive => .negative
  | .negative => .positive
  | fr => fr

theorem inFill_neg (fr : FillRule) (w : Int) : inFill (flipFr fr) (-w) = inFill fr w := by
  cases fr <;> simp only [flipFr, inFill] <;> (rw [Bool.eq_iff_iff]; simp) <;> omega

/-! ### exchanging the path types -/

def swapE (e : Edge) : Edge := { e with pt := other e.pt }

def swapOp : Op → Op
  | .insertPair pos pt o dx => .insertPair pos (other pt) o dx
  | .insertOne pos pt dx => .insertOne pos (other pt) dx
  | op => op

def AllClosed (l : List Edge) : Prop := ∀ x ∈ l, x.isOpen = false

/-- operations that occur when only closed paths are present -/
def OpClosed : Op → Prop
  | .insertPair _ _ o _ => o = false
  | .insertOne _ _ _ => False
  | .removeOne _ => False
  | _ => True

theorem other_inj (a b : PathType) : other a = other b ↔ a = b := by
  cases a <;> cases b <;> simp [other]

theorem icc_swap (ct : ClipType) (hct : ct ≠ .difference) (fr : FillRule) (pt : PathType) (wc wc2 : Int) :
    isContributingClosed ct fr (other pt) wc wc2 = isContributingClosed ct fr pt wc wc2 := by
  cases ct <;> (try exact absurd rfl hct) <;> simp only [isContributingClosed, sel]

theorem findPrev_swap (t : PathType) (rp : List Edge) :
    findPrev (other t) (rp.map swapE) = ((findPrev t rp).1.map swapE, (findPrev t rp).2.map swapE) := by
  induction rp with
  | nil => simp [findPrev]
  | cons x xs ih =>
    simp only [List.map_cons, findPrev]
    have hc : ((swapE x).pt = other t ∧ (swapE x).isOpen = false) ↔ (x.pt = t ∧ x.isOpen = false) := by
      simp only [swapE, other_inj]
    by_cases h : x.pt = t ∧ x.isOpen = false
    · rw [if_pos (hc.mpr h), if_pos h]; simp
    · rw [if_neg (fun h' => h (hc.mp h')), if_neg h, ih]; simp

theorem wc2Loop_swap (fr : FillRule) (t : PathType) (l : List Edge) : ∀ (w : Int),
    wc2Loop fr (other t) (l.map swapE) w = wc2Loop fr t l w := by
  induction l with
  | nil => intro w; simp [wc2Loop]
  | cons x xs ih =>
    intro w
    simp only [List.map_cons, wc2Loop]
    have hc : ((swapE x).pt ≠ other t ∧ (swapE x).isOpen = false) ↔ (x.pt ≠ t ∧ x.isOpen = false) := by
      simp only [swapE, ne_eq, other_inj]
    by_cases h : x.pt ≠ t ∧ x.isOpen = false
    · rw [if_pos (hc.mpr h), if_pos h, ih]; rfl
    · rw [if_neg (fun h' => h (hc.mp h')), if_neg h, ih]

theorem setWindClosed_swap (fr : FillRule) (left : List Edge) (e : Edge) :
    setWindClosed fr (left.map swapE) (swapE e) = swapE (setWindClosed fr left e) := by
  simp only [setWindClosed]
  rw [← List.map_reverse]
  have : (swapE e).pt = other e.pt := rfl
  rw [this, findPrev_swap]
  rcases findPrev e.pt left.reverse with ⟨_ | e2, btw⟩
  · simp only [Option.map_none, wc2Loop_swap]; rfl
  · simp only [Option.map_some, wc2Loop_swap]
    split <;> rfl

theorem updateWinds_swap (fr : FillRule) (e1 e2 : Edge) :
    updateWinds fr (swapE e1) (swapE e2) = (swapE (updateWinds fr e1 e2).1, swapE (updateWinds fr e1 e2).2) := by
  have hc : ((swapE e1).pt = (swapE e2).pt) ↔ (e1.pt = e2.pt) := by simp only [swapE, other_inj]
  simp only [updateWinds]
  by_cases h : e1.pt = e2.pt
  · rw [if_pos (hc.mpr h), if_pos h]; split <;> rfl
  · rw [if_neg (fun h' => h (hc.mp h')), if_neg h]; split <;> rfl

theorem goSame_swap (ct : ClipType) (hct : ct ≠ .difference) (pt : PathType) (w1 w2 : Int) :
    goSame ct (other pt) w1 w2 = goSame ct pt w1 w2 := by
  cases ct <;> (try exact absurd rfl hct) <;> rfl

theorem decideHot_swap (cfg : Cfg) (hct : cfg.ct ≠ .difference) (a b : Edge) :
    decideHot cfg (swapE a) (swapE b) = decideHot cfg a b := by
  have hne : ((swapE a).pt != (swapE b).pt) = (a.pt != b.pt) := by
    simp only [swapE]; cases a.pt <;> cases b.pt <;> rfl
  simp only [decideHot, hne]
  have : (swapE a).pt = other a.pt := rfl
  rw [this, goSame_swap cfg.ct hct]
  rfl

theorem intersectClosed_swap (cfg : Cfg) (hct : cfg.ct ≠ .difference) (e1 e2 : Edge) :
    intersectClosed cfg (swapE e1) (swapE e2) =
      (swapE (intersectClosed cfg e1 e2).1, swapE (intersectClosed cfg e1 e2).2) := by
  simp only [intersectClosed, updateWinds_swap, decideHot_swap cfg hct]
  rfl

theorem intersectPair_closed (cfg : Cfg) (e1 e2 : Edge) (h1 : e1.isOpen = false) (h2 : e2.isOpen = false) :
    intersectPair cfg e1 e2 = intersectClosed cfg e1 e2 := by
  simp [intersectPair, h1, h2]

theorem allClosed_append (l1 l2 : List Edge) : AllClosed (l1 ++ l2) ↔ AllClosed l1 ∧ AllClosed l2 := by
  simp only [AllClosed, List.mem_append]
  constructor
  · intro h; exact ⟨fun x hx => h x (Or.inl hx), fun x hx => h x (Or.inr hx)⟩
  · rintro ⟨h1, h2⟩ x (hx | hx); exact h1 x hx; exact h2 x hx

theorem allClosed_drop (l : List Edge) (i : Nat) (h : AllClosed l) : AllClosed (l.drop i) :=
  fun x hx => h x (List.mem_of_mem_drop hx)

/-- exchanging the path types commutes with every operation that occurs with closed paths only -/
theorem step_swap (cfg : Cfg) (hct : cfg.ct ≠ .difference) (l : Ael) (hl : AllClosed l) (op : Op)
    (hop : OpClosed op) :
    step cfg (l.map swapE) (swapOp op) = (step cfg l op).map (fun l' => l'.map swapE) := by
  cases op with
  | insertPair pos pt o dxLeft =>
    simp only [OpClosed] at hop; subst hop
    simp only [step, swapOp, insertPair, List.length_map]
    split
    · simp only [Option.map_some, List.map_append, List.map_cons, List.map_take, List.map_drop, newLeft,
        Bool.false_eq_true, ite_false]
      have hf : fresh (other pt) false dxLeft = swapE (fresh pt false dxLeft) := rfl
      rw [← List.map_take, hf, setWindClosed_swap]
      have hpt : (swapE (setWindClosed cfg.fr (List.take pos l) (fresh pt false dxLeft))).pt =
          other (setWindClosed cfg.fr (List.take pos l) (fresh pt false dxLeft)).pt := rfl
      rw [hpt, icc_swap cfg.ct hct, (setWindClosed_fields cfg.fr (List.take pos l) (fresh pt false dxLeft)).1]
      rfl
    · rfl
  | insertOne pos pt dx => exact absurd hop (by simp [OpClosed])
  | removeOne i => exact absurd hop (by simp [OpClosed])
  | intersect i =>
    simp only [step, swapOp, intersect, ← List.map_drop]
    rcases hd : l.drop i with _ | ⟨e1, _ | ⟨e2, rest⟩⟩
    · rfl
    · rfl
    · have hcl := allClosed_drop l i hl
      rw [hd] at hcl
      have h1 : e1.isOpen = false := hcl e1 (by simp)
      have h2 : e2.isOpen = false := hcl e2 (by simp)
      simp only [List.map_cons, Option.map_some, List.map_append, List.map_take]
      rw [intersectPair_closed cfg e1 e2 h1 h2, intersectPair_closed cfg (swapE e1) (swapE e2) h1 h2,
        intersectClosed_swap cfg hct]
  | removePair i =>
    simp only [step, swapOp, removePair, ← List.map_drop]
    rcases hd : l.drop i with _ | ⟨e1, _ | ⟨e2, rest⟩⟩
    · rfl
    · rfl
    · simp only [List.map_cons]
      have hc : ((swapE e1).pt = (swapE e2).pt ∧ (swapE e1).isOpen = (swapE e2).isOpen ∧
          (swapE e1).dx + (swapE e2).dx = 0) ↔ (e1.pt = e2.pt ∧ e1.isOpen = e2.isOpen ∧ e1.dx + e2.dx = 0) := by
        simp only [swapE, other_inj]
      by_cases h : e1.pt = e2.pt ∧ e1.isOpen = e2.isOpen ∧ e1.dx + e2.dx = 0
      · rw [if_pos (hc.mpr h), if_pos h]; simp [List.map_take]
      · rw [if_neg (fun h' => h (hc.mp h')), if_neg h]; rfl

theorem allClosed_step (cfg : Cfg) (l l' : Ael) (op : Op) (hl : AllClosed l) (hop : OpClosed op)
    (hs : step cfg l op = some l') : AllClosed l' := by
  cases op with
  | insertPair pos pt o dxLeft =>
    simp only [OpClosed] at hop; subst hop
    simp only [step, insertPair] at hs
    split at hs
    case isFalse => cases hs
    case isTrue hc =>
      simp only [Option.some.injEq] at hs; subst hs
      obtain ⟨g1, g2, g3⟩ := newLeft_fields cfg (l.take pos) pt false dxLeft
      intro x hx
      simp only [List.mem_append, List.mem_cons] at hx
      rcases hx with hx | rfl | rfl | hx
      · exact hl x (List.mem_of_mem_take hx)
      · exact g2
      · rfl
      · exact hl x (List.mem_of_mem_drop hx)
  | insertOne pos pt dx => exact absurd hop (by simp [OpClosed])
  | removeOne i => exact absurd hop (by simp [OpClosed])
  | intersect i =>
    simp only [step, intersect] at hs
    split at hs
    next e1 e2 rest hd =>
      simp only [Option.some.injEq] at hs; subst hs
      obtain ⟨f1, f2, f3, f4, f5, f6⟩ := intersectPair_fields cfg e1 e2
      have hcl := allClosed_drop l i hl
      rw [hd] at hcl
      intro x hx
      simp only [List.mem_append, List.mem_cons] at hx
      rcases hx with hx | rfl | rfl | hx
      · exact hl x (List.mem_of_mem_take hx)
      · rw [f5]; exact hcl e2 (by simp)
      · rw [f2]; exact hcl e1 (by simp)
      · exact hcl x (by simp [hx])
    next => cases hs
  | removePair i =>
    simp only [step, removePair] at hs
    split at hs
    next e1 e2 rest hd =>
      split at hs
      case isFalse => cases hs
      case isTrue hc =>
        simp only [Option.some.injEq] at hs; subst hs
        have hcl := allClosed_drop l i hl
        rw [hd] at hcl
        intro x hx
        simp only [List.mem_append] at hx
        rcases hx with hx | hx
        · exact hl x (List.mem_of_mem_take hx)
        · exact hcl x (by simp [hx])
    next => cases hs

theorem run_swap (cfg : Cfg) (hct : cfg.ct ≠ .difference) (ops : List Op) : ∀ (l : Ael), AllClosed l →
    (∀ op ∈ ops, OpClosed op) →
    run cfg (l.map swapE) (ops.map swapOp) = (run cfg l ops).map (fun l' => l'.map swapE) := by
  induction ops with
  | nil => intro l _ _; rfl
  | cons op ops ih =>
    intro l hl hops
    simp only [List.map_cons, run]
    rw [step_swap cfg hct l hl op (hops op List.mem_cons_self)]
    cases hs : step cfg l op with
    | none => rfl
    | some l1 =>
      simp only [Option.map_some]
      exact ih l1 (allClosed_step cfg l l1 op hl (hops op List.mem_cons_self) hs)
        (fun o ho => hops o (List.mem_cons_of_mem _ ho))

/-! ### negating every direction (reversing all paths) -/

/-- `wind_cnt2` under reversal: a parity under EvenOdd (unchanged), a signed sum otherwise (negated) -/
def neg2 (fr : FillRule) (w : Int) : Int := if fr = .evenOdd then w else -w

def negE (fr : FillRule) (e : Edge) : Edge := { e with dx := -e.dx, wc := -e.wc, wc2 := neg2 fr e.wc2 }

def negOp : Op → Op
  | .insertPair pos pt o dx => .insertPair pos pt o (-dx)
  | .insertOne pos pt dx => .insertOne pos pt (-dx)
  | op => op

def negCfg (cfg : Cfg) : Cfg := ⟨cfg.ct, flipFr cfg.fr⟩

theorem flipFr_eo (fr : FillRule) : flipFr fr = .evenOdd ↔ fr = .evenOdd := by cases fr <;> simp [flipFr]

theorem iabs_neg (x : Int) : iabs (-x) = iabs x := by unfold iabs; (repeat' split) <;> omega

theorem pre_neg (fr : FillRule) (wc : Int) : pre (flipFr fr) (-wc) = pre fr wc := by
  cases fr <;> simp only [pre, flipFr, iabs_neg] <;> bsolve

theorem otherIn_neg (fr : FillRule) (w : Int) : otherIn (flipFr fr) (neg2 fr w) = otherIn fr w := by
  cases fr <;> simp only [otherIn, flipFr, neg2, reduceCtorEq, ite_true, ite_false] <;> bsolve

theorem icc_neg (ct : ClipType) (fr : FillRule) (pt : PathType) (wc wc2 : Int) :
    isContributingClosed ct (flipFr fr) pt (-wc) (neg2 fr wc2) = isContributingClosed ct fr pt wc wc2 := by
  simp only [isContributingClosed, pre_neg, otherIn_neg]

theorem findPrev_neg (fr : FillRule) (t : PathType) (rp : List Edge) :
    findPrev t (rp.map (negE fr)) =
      ((findPrev t rp).1.map (negE fr), (findPrev t rp).2.map (negE fr)) := by
  induction rp with
  | nil => simp [findPrev]
  | cons x xs ih =>
    simp only [List.map_cons, findPrev]
    have hc : ((negE fr x).pt = t ∧ (negE fr x).isOpen = false) ↔ (x.pt = t ∧ x.isOpen = false) := Iff.rfl
    by_cases h : x.pt = t ∧ x.isOpen = false
    · rw [if_pos (hc.mpr h), if_pos h]; simp
    · rw [if_neg (fun h' => h (hc.mp h')), if_neg h, ih]; simp

theorem wc2Loop_neg (fr : FillRule) (t : PathType) (l : List Edge) : ∀ (w : Int),
    wc2Loop (flipFr fr) t (l.map (negE fr)) (neg2 fr w) = neg2 fr (wc2Loop fr t l w) := by
  induction l with
  | nil => intro w; simp [wc2Loop]
  | cons x xs ih =>
    intro w
    simp only [List.map_cons, wc2Loop]
    have hc : ((negE fr x).pt ≠ t ∧ (negE fr x).isOpen = false) ↔ (x.pt ≠ t ∧ x.isOpen = false) := Iff.rfl
    by_cases h : x.pt ≠ t ∧ x.isOpen = false
    · rw [if_pos (hc.mpr h), if_pos h, ← ih]
      congr 1
      by_cases hfr : fr = .evenOdd
      · subst hfr; simp [flipFr, neg2]
      · have : flipFr fr ≠ .evenOdd := fun h => hfr ((flipFr_eo fr).mp h)
        simp only [if_neg hfr, if_neg this, neg2, negE]; omega
    · rw [if_neg (fun h' => h (hc.mp h')), if_neg h, ih]

theorem wcFrom_neg (w d2 dx : Int) : wcFrom false (-w) (-d2) (-dx) = -(wcFrom false w d2 dx) := by
  simp only [wcFrom, Int.neg_mul_neg, iabs_neg, Bool.false_eq_true, if_false]
  (repeat' split) <;> omega

theorem setWindClosed_neg (fr : FillRule) (left : List Edge) (e : Edge) (he : e.isOpen = false) :
    setWindClosed (flipFr fr) (left.map (negE fr)) (negE fr e) = negE fr (setWindClosed fr left e) := by
  simp only [setWindClosed]
  rw [← List.map_reverse]
  have : (negE fr e).pt = e.pt := rfl
  rw [this, findPrev_neg]
  have hw2 : (negE fr e).wc2 = neg2 fr e.wc2 := rfl
  have hio : (negE fr e).isOpen = false := he
  rcases findPrev e.pt left.reverse with ⟨_ | e2, btw⟩
  · simp only [Option.map_none, hw2, wc2Loop_neg]; rfl
  · simp only [Option.map_some]
    have hw2' : (negE fr e2).wc2 = neg2 fr e2.wc2 := rfl
    by_cases hfr : fr = .evenOdd
    · have hfl : flipFr fr = .evenOdd := (flipFr_eo fr).mpr hfr
      rw [if_pos hfl, if_pos hfr, hw2', wc2Loop_neg]; rfl
    · have hfl : flipFr fr ≠ .evenOdd := fun h => hfr ((flipFr_eo fr).mp h)
      rw [if_neg hfl, if_neg hfr, hw2', wc2Loop_neg, hio, he]
      have : wcFrom false (negE fr e2).wc (negE fr e2).dx (negE fr e).dx = -(wcFrom false e2.wc e2.dx e.dx) :=
        wcFrom_neg _ _ _
      rw [this]; rfl

theorem oldWc_neg (fr : FillRule) (w : Int) : oldWc (flipFr fr) (-w) = oldWc fr w := by
  cases fr <;> simp only [oldWc, flipFr, iabs_neg] <;> omega

theorem oldWc_neg2 (fr : FillRule) (w : Int) : oldWc (flipFr fr) (neg2 fr w) = oldWc fr w := by
  cases fr <;> simp only [oldWc, flipFr, neg2, reduceCtorEq, ite_true, ite_false, iabs_neg] <;> omega

theorem updateWinds_neg (fr : FillRule) (e1 e2 : Edge) :
    updateWinds (flipFr fr) (negE fr e1) (negE fr e2) =
      (negE fr (updateWinds fr e1 e2).1, negE fr (updateWinds fr e1 e2).2) := by
  have hpt : ((negE fr e1).pt = (negE fr e2).pt) ↔ (e1.pt = e2.pt) := Iff.rfl
  simp only [updateWinds]
  by_cases h : e1.pt = e2.pt
  · rw [if_pos (hpt.mpr h), if_pos h]
    by_cases hfr : fr = .evenOdd
    · have hfl : flipFr fr = .evenOdd := (flipFr_eo fr).mpr hfr
      rw [if_pos hfl, if_pos hfr]; rfl
    · have hfl : flipFr fr ≠ .evenOdd := fun h => hfr ((flipFr_eo fr).mp h)
      rw [if_neg hfl, if_neg hfr]
      simp only [negE, Prod.mk.injEq, Edge.mk.injEq, true_and, and_true]
      constructor <;> (repeat' split) <;> omega
  · rw [if_neg (fun h' => h (hpt.mp h')), if_neg h]
    by_cases hfr : fr = .evenOdd
    · subst hfr
      simp only [flipFr, ne_eq, not_true_eq_false, ite_false, negE, neg2, ite_true]
    · have hfl : flipFr fr ≠ .evenOdd := fun h => hfr ((flipFr_eo fr).mp h)
      simp only [ne_eq, hfl, hfr, not_false_eq_true, ite_true, negE, neg2, ite_false, Prod.mk.injEq,
        Edge.mk.injEq, true_and, and_true]
      constructor <;> omega

theorem decideHot_neg (cfg : Cfg) (a b : Edge) :
    decideHot (negCfg cfg) (negE cfg.fr a) (negE cfg.fr b) = decideHot cfg a b := by
  have h1 : (negE cfg.fr a).wc = -a.wc := rfl
  have h2 : (negE cfg.fr b).wc = -b.wc := rfl
  have h3 : (negE cfg.fr a).wc2 = neg2 cfg.fr a.wc2 := rfl
  have h4 : (negE cfg.fr b).wc2 = neg2 cfg.fr b.wc2 := rfl
  simp only [decideHot, negCfg, h1, h2, h3, h4, oldWc_neg, oldWc_neg2]
  rfl

theorem intersectClosed_neg (cfg : Cfg) (e1 e2 : Edge) :
    intersectClosed (negCfg cfg) (negE cfg.fr e1) (negE cfg.fr e2) =
      (negE cfg.fr (intersectClosed cfg e1 e2).1, negE cfg.fr (intersectClosed cfg e1 e2).2) := by
  simp only [intersectClosed]
  have : (negCfg cfg).fr = flipFr cfg.fr := rfl
  rw [this, updateWinds_neg]
  simp only [decideHot_neg]
  rfl

/-- reversing all paths commutes with every operation that occurs with closed paths only -/
theorem step_neg (cfg : Cfg) (l : Ael) (hl : AllClosed l) (op : Op) (hop : OpClosed op) :
    step (negCfg cfg) (l.map (negE cfg.fr)) (negOp op) =
      (step cfg l op).map (fun l' => l'.map (negE cfg.fr)) := by
  cases op with
  | insertPair pos pt o dxLeft =>
    simp only [OpClosed] at hop; subst hop
    simp only [step, negOp, insertPair, List.length_map]
    have hdx : (-dxLeft = 1 ∨ -dxLeft = -1) ↔ (dxLeft = 1 ∨ dxLeft = -1) := by omega
    simp only [hdx]
    split
    · simp only [Option.map_some, List.map_append, List.map_cons, List.map_take, List.map_drop, newLeft,
        Bool.false_eq_true, ite_false]
      have hf : fresh pt false (-dxLeft) = negE cfg.fr (fresh pt false dxLeft) := by
        simp [fresh, negE, neg2]
      have hfr : (negCfg cfg).fr = flipFr cfg.fr := rfl
      have hct : (negCfg cfg).ct = cfg.ct := rfl
      rw [← List.map_take, hf, hfr, hct, setWindClosed_neg _ _ _ rfl]
      have e1 : (negE cfg.fr (setWindClosed cfg.fr (List.take pos l) (fresh pt false dxLeft))).wc =
          -(setWindClosed cfg.fr (List.take pos l) (fresh pt false dxLeft)).wc := rfl
      have e2 : (negE cfg.fr (setWindClosed cfg.fr (List.take pos l) (fresh pt false dxLeft))).wc2 =
          neg2 cfg.fr (setWindClosed cfg.fr (List.take pos l) (fresh pt false dxLeft)).wc2 := rfl
      have e3 : (negE cfg.fr (setWindClosed cfg.fr (List.take pos l) (fresh pt false dxLeft))).pt =
          (setWindClosed cfg.fr (List.take pos l) (fresh pt false dxLeft)).pt := rfl
      rw [e1, e2, e3, icc_neg]
      simp [negE]
    · rfl
  | insertOne pos pt dx => exact absurd hop (by simp [OpClosed])
  | removeOne i => exact absurd hop (by simp [OpClosed])
  | intersect i =>
    simp only [step, negOp, intersect, ← List.map_drop]
    rcases hd : l.drop i with _ | ⟨e1, _ | ⟨e2, rest⟩⟩
    · rfl
    · rfl
    · have hcl := allClosed_drop l i hl
      rw [hd] at hcl
      have h1 : e1.isOpen = false := hcl e1 (by simp)
      have h2 : e2.isOpen = false := hcl e2 (by simp)
      simp only [List.map_cons, Option.map_some, List.map_append, List.map_take]
      rw [intersectPair_closed cfg e1 e2 h1 h2,
        intersectPair_closed (negCfg cfg) (negE cfg.fr e1) (negE cfg.fr e2) h1 h2, intersectClosed_neg]
  | removePair i =>
    simp only [step, negOp, removePair, ← List.map_drop]
    rcases hd : l.drop i with _ | ⟨e1, _ | ⟨e2, rest⟩⟩
    · rfl
    · rfl
    · simp only [List.map_cons]
      have hc : ((negE cfg.fr e1).pt = (negE cfg.fr e2).pt ∧ (negE cfg.fr e1).isOpen = (negE cfg.fr e2).isOpen ∧
          (negE cfg.fr e1).dx + (negE cfg.fr e2).dx = 0) ↔
          (e1.pt = e2.pt ∧ e1.isOpen = e2.isOpen ∧ e1.dx + e2.dx = 0) := by
        simp only [negE]
        constructor <;> rintro ⟨a, b, c⟩ <;> exact ⟨a, b, by omega⟩
      by_cases h : e1.pt = e2.pt ∧ e1.isOpen = e2.isOpen ∧ e1.dx + e2.dx = 0
      · rw [if_pos (hc.mpr h), if_pos h]; simp [List.map_take]
      · rw [if_neg (fun h' => h (hc.mp h')), if_neg h]; rfl

theorem run_neg (cfg : Cfg) (ops : List Op) : ∀ (l : Ael), AllClosed l → (∀ op ∈ ops, OpClosed op) →
    run (negCfg cfg) (l.map (negE cfg.fr)) (ops.map negOp) =
      (run cfg l ops).map (fun l' => l'.map (negE cfg.fr)) := by
  induction ops with
  | nil => intro l _ _; rfl
  | cons op ops ih =>
    intro l hl hops
    simp only [List.map_cons, run]
    rw [step_neg cfg l hl op (hops op List.mem_cons_self)]
    cases hs : step cfg l op with
    | none => rfl
    | some l1 =>
      simp only [Option.map_some]
      exact ih l1 (allClosed_step cfg l l1 op hl (hops op List.mem_cons_self) hs)
        (fun o ho => hops o (List.mem_cons_of_mem _ ho))

end Clipper.Model
