/-
Generic lemmas about the Spec's winding number: sums over lists, the edge chain of a closed path,
telescoping over a closed path, and transport of `wind` along a vertex map.
Used by C02 (rectilinear checker) and C13Spec (metamorphic invariances of the Spec).
-/
import ClipperVerif.Spec.Basic
namespace Clipper.WindSpec
open Clipper

/-! ### sums of integer lists -/

theorem sum_perm {l₁ l₂ : List Int} (h : l₁.Perm l₂) : l₁.sum = l₂.sum := by
  induction h with
  | nil => rfl
  | cons x _ ih => simp [ih]
  | swap x y l => simp only [List.sum_cons]; omega
  | trans _ _ ih1 ih2 => omega

theorem sum_map_add {α : Type} (f g : α → Int) (l : List α) :
    (l.map (fun e => f e + g e)).sum = (l.map f).sum + (l.map g).sum := by
  induction l with
  | nil => rfl
  | cons a r ih => simp only [List.map_cons, List.sum_cons, ih]; omega

theorem sum_map_sub {α : Type} (f g : α → Int) (l : List α) :
    (l.map (fun e => f e - g e)).sum = (l.map f).sum - (l.map g).sum := by
  induction l with
  | nil => rfl
  | cons a r ih => simp only [List.map_cons, List.sum_cons, ih]; omega

theorem sum_map_mul_left {α : Type} (c : Int) (f : α → Int) (l : List α) :
    (l.map (fun e => c * f e)).sum = c * (l.map f).sum := by
  induction l with
  | nil => simp
  | cons a r ih => simp only [List.map_cons, List.sum_cons, ih, Int.mul_add]

theorem sum_map_mul_right {α : Type} (c : Int) (f : α → Int) (l : List α) :
    (l.map (fun e => f e * c)).sum = (l.map f).sum * c := by
  induction l with
  | nil => simp
  | cons a r ih => simp only [List.map_cons, List.sum_cons, ih, Int.add_mul]

theorem sum_map_zero {α : Type} (l : List α) : (l.map (fun _ => (0 : Int))).sum = 0 := by
  induction l with
  | nil => rfl
  | cons a r ih => simp only [List.map_cons, List.sum_cons, ih]; rfl

/-- multiplying by a positive number keeps the sign -/
theorem sign_mul {d e : Int} (hd : 0 < d) : (d * e > 0 ↔ e > 0) ∧ (d * e < 0 ↔ e < 0) := by
  have h1 : 0 < e → 0 < d * e := Int.mul_pos hd
  have h2 : e < 0 → d * e < 0 := Int.mul_neg_of_pos_of_neg hd
  have h3 : e = 0 → d * e = 0 := by intro h; rw [h]; simp
  generalize d * e = m at *
  omega

/-! ### the edge chain of a path -/

/-- edges `a → l₀ → l₁ → … → z` -/
def chain (a : Pt) : List Pt → Pt → List (Pt × Pt)
  | [], z => [(a, z)]
  | b :: r, z => (a, b) :: chain b r z

theorem zip_chain (a z : Pt) (l : List Pt) : (a :: l).zip (l ++ [z]) = chain a l z := by
  induction l generalizing a with
  | nil => rfl
  | cons b r ih =>
    show (a, b) :: (b :: r).zip (r ++ [z]) = (a, b) :: chain b r z
    rw [ih]

theorem edgesOf_cons (a : Pt) (rest : List Pt) : edgesOf (a :: rest) = chain a rest a := zip_chain a a rest

theorem chain_append (a b z : Pt) (l₁ l₂ : List Pt) :
    chain a (l₁ ++ b :: l₂) z = chain a l₁ b ++ chain b l₂ z := by
  induction l₁ generalizing a with
  | nil => rfl
  | cons c r ih => simp only [List.cons_append, chain, ih]

theorem chain_telescope (f : Pt → Int) (a z : Pt) (l : List Pt) :
    ((chain a l z).map (fun e => f e.2 - f e.1)).sum = f z - f a := by
  induction l generalizing a with
  | nil => simp [chain]
  | cons b r ih => simp only [chain, List.map_cons, List.sum_cons, ih]; omega

/-- Around a closed path the increments of any vertex function sum to zero. -/
theorem edges_telescope (f : Pt → Int) (path : Path) :
    ((edgesOf path).map (fun e => f e.2 - f e.1)).sum = 0 := by
  cases path with
  | nil => rfl
  | cons a rest => rw [edgesOf_cons, chain_telescope]; omega

/-- The edges of a rotated closed path are a permutation of the edges of the path. -/
theorem edgesOf_rotate_perm (l₁ l₂ : List Pt) : (edgesOf (l₂ ++ l₁)).Perm (edgesOf (l₁ ++ l₂)) := by
  cases l₁ with
  | nil => simp
  | cons a r₁ =>
    cases l₂ with
    | nil => simp
    | cons b r₂ =>
      rw [List.cons_append, List.cons_append, edgesOf_cons, edgesOf_cons, chain_append, chain_append]
      exact List.perm_append_comm

theorem mem_edgesOf {path : Path} {e : Pt × Pt} (h : e ∈ edgesOf path) : e.1 ∈ path ∧ e.2 ∈ path := by
  cases path with
  | nil => simp [edgesOf] at h
  | cons a rest =>
    simp only [edgesOf] at h
    obtain ⟨h1, h2⟩ := List.of_mem_zip (a := e.1) (b := e.2) h
    refine ⟨h1, ?_⟩
    simp only [List.mem_append, List.mem_singleton] at h2
    rcases h2 with h2 | h2
    · exact List.mem_cons_of_mem _ h2
    · rw [h2]; exact List.mem_cons_self

theorem edgesOf_map (f : Pt → Pt) (path : Path) :
    edgesOf (path.map f) = (edgesOf path).map (fun e => (f e.1, f e.2)) := by
  cases path with
  | nil => rfl
  | cons a rest =>
    simp only [edgesOf, List.map_cons]
    rw [show f a :: rest.map f = (a :: rest).map f from rfl,
        show rest.map f ++ [f a] = (rest ++ [a]).map f by simp]
    rw [List.zip_map]
    simp [Prod.map]

/-! ### transport along a vertex map -/

/-- apply a map to every vertex -/
def mapPaths (f : Pt → Pt) (ps : Paths) : Paths := ps.map (fun p => p.map f)

/-- If the map multiplies every edge's crossing contribution by `σ`, it multiplies the winding number by `σ`. -/
theorem windPath_map (f : Pt → Pt) (path : Path) (p p' : Pt) (σ : Int)
    (h : ∀ a ∈ path, ∀ b ∈ path, crossing p' (f a) (f b) = σ * crossing p a b) :
    windPath (path.map f) p' = σ * windPath path p := by
  unfold windPath
  rw [edgesOf_map, List.map_map, ← sum_map_mul_left]
  congr 1
  apply List.map_congr_left
  intro e he
  obtain ⟨m1, m2⟩ := mem_edgesOf he
  exact h e.1 m1 e.2 m2

theorem wind_map (f : Pt → Pt) (ps : Paths) (p p' : Pt) (σ : Int)
    (h : ∀ path ∈ ps, ∀ a ∈ path, ∀ b ∈ path, crossing p' (f a) (f b) = σ * crossing p a b) :
    wind (mapPaths f ps) p' = σ * wind ps p := by
  unfold wind mapPaths
  rw [List.map_map, ← sum_map_mul_left]
  congr 1
  apply List.map_congr_left
  intro path hp
  exact windPath_map f path p p' σ (h path hp)

end Clipper.WindSpec
