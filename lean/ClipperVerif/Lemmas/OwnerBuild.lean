/-
`buildTreeStep` / `buildTree`: the invariants hold after the outer loop of `BuildTree64`.
-/
import ClipperVerif.Lemmas.OwnerInv
namespace Clipper.Model.Owner
open Clipper

/-- the state before `BuildTree64`: no outrec has a polypath, no bounds have been computed -/
def Fresh (T : Table) : Prop :=
  ∀ (j : Nat) (r : OutRec), T[j]? = some r → r.polypath = none ∧ r.bounds.isEmpty = true

def GInv (clean : Nat → CleanRes) (inside : Nat → Nat → Bool) (S : St) : Prop :=
  Acyclic S.recs ∧ BInv clean S.recs ∧ TInv inside S

theorem Fresh.ginv {clean : Nat → CleanRes} {inside : Nat → Nat → Bool} {T : Table} (hF : Fresh T) (hA : Acyclic T) :
    GInv clean inside { recs := T } := by
  refine ⟨hA, fun j r hj hne => ?_, fun c r a hc hpa => ?_⟩
  · rw [(hF j r hj).2] at hne; simp at hne
  · rw [(hF c r hc).1] at hpa; simp at hpa

/-- a table step that changes no owner preserves the invariants -/
theorem GInv.table_step {clean : Nat → CleanRes} {inside : Nat → Nat → Bool} {S : St} {T1 : Table}
    (hG : GInv clean inside S) (h : Good clean none S.recs T1) : GInv clean inside { S with recs := T1 } := by
  obtain ⟨hA, hB, hT⟩ := hG
  have hw : Step clean (some S.recs.size) S.recs T1 := h.1.weaken
  refine ⟨h.2 hA, hB.step h.1, hT.table_step hw (fun r hr => ?_)⟩
  have := getElem?_lt hr
  omega

theorem buildTreeStep_ginv {clean : Nat → CleanRes} {inside : Nat → Nat → Bool} {openPath : Nat → Option Path}
    {fuel : Nat} {S S' : St} {i : Nat} (h : buildTreeStep clean inside openPath fuel S i = some S')
    (hG : GInv clean inside S) : GInv clean inside S' := by
  unfold buildTreeStep at h
  split at h
  · simp at h
  · split at h
    · simp only [Option.some.injEq] at h; subst h; exact hG
    · split at h
      · split at h
        · simp only [Option.some.injEq] at h; subst h; exact hG
        · simp only [Option.some.injEq] at h; subst h; exact hG
      · cases hcb : checkBounds clean S.recs i with
        | none => simp [hcb] at h
        | some p =>
          obtain ⟨T1, b⟩ := p
          rw [hcb] at h
          have hG1 := hG.table_step (checkBounds_good hcb)
          cases b with
          | false => simp only [Option.some.injEq] at h; subst h; exact hG1
          | true =>
            simp only at h
            obtain ⟨_, hA', hB', hT', _⟩ := rco_spec _ _ _ _ h hG1.1 hG1.2.1 hG1.2.2
            exact ⟨hA', hB', hT'⟩

theorem foldlM_inv {P : St → Prop} {f : St → Nat → Option St}
    (hf : ∀ (S : St) (i : Nat) (S' : St), f S i = some S' → P S → P S') :
    ∀ (l : List Nat) (S S' : St), l.foldlM f S = some S' → P S → P S' := by
  intro l
  induction l with
  | nil => intro S S' h hP; simp only [List.foldlM_nil] at h; cases h; exact hP
  | cons a l ih =>
    intro S S' h hP
    simp only [List.foldlM_cons] at h
    cases hfa : f S a with
    | none => simp [hfa] at h
    | some S1 =>
      rw [hfa] at h
      exact ih S1 S' h (hf S a S1 hfa hP)

theorem buildTree_ginv {clean : Nat → CleanRes} {inside : Nat → Nat → Bool} {openPath : Nat → Option Path}
    {fuel : Nat} {T : Table} {S : St} (hF : Fresh T) (hA : Acyclic T)
    (h : buildTree clean inside openPath fuel T = some S) : GInv clean inside S := by
  unfold buildTree at h
  exact foldlM_inv (P := GInv clean inside) (fun S i S' hs hG => buildTreeStep_ginv hs hG) _ _ _ h (hF.ginv hA)

/-- follow `owner` `k` times -/
def ownerSteps (T : Table) : Nat → Nat → Option Nat
  | 0, c => some c
  | k + 1, c =>
    match T[c]? with
    | none => none
    | some r =>
      match r.owner with
      | none => none
      | some o => ownerSteps T k o

theorem TInv.level_pos {inside : Nat → Nat → Bool} {S : St} (hT : TInv inside S) {c : Nat} {r : OutRec} {a : List Nat}
    (hc : S.recs[c]? = some r) (ha : r.polypath = some a) : 1 ≤ a.length := by
  rcases (hT c r a hc ha).2.2 with ⟨_, k, hk⟩ | ⟨p, rp, pa, k, _, _, _, hak, _⟩
  · simp [hk]
  · simp [hak]

theorem TInv.chain {inside : Nat → Nat → Bool} {S : St} (hT : TInv inside S) :
    ∀ (n : Nat) (a : List Nat) (c : Nat) (r : OutRec), a.length = n → S.recs[c]? = some r → r.polypath = some a →
      ∃ (root : Nat) (rr : OutRec), ownerSteps S.recs (a.length - 1) c = some root ∧ S.recs[root]? = some rr ∧ rr.owner = none := by
  intro n
  induction n with
  | zero =>
    intro a c r hn hc ha
    have := hT.level_pos hc ha
    omega
  | succ n ih =>
    intro a c r hn hc ha
    rcases (hT c r a hc ha).2.2 with ⟨ho, k, hk⟩ | ⟨p, rp, pa, k, ho, hp, hppa, hak, _⟩
    · subst hk
      exact ⟨c, r, by simp [ownerSteps], hc, ho⟩
    · have hpl := hT.level_pos hp hppa
      have hlen : pa.length = n := by rw [hak] at hn; simp at hn; exact hn
      obtain ⟨root, rr, h1, h2, h3⟩ := ih pa p rp hlen hp hppa
      refine ⟨root, rr, ?_, h2, h3⟩
      have e : a.length - 1 = (pa.length - 1) + 1 := by rw [hak]; simp; omega
      rw [e]
      simp only [ownerSteps, hc, ho]
      exact h1


/-! ### completeness: every live closed outrec with a valid cleaned ring is placed -/

/-- record-level frame between two states of the outer loop -/
def RFrame (clean : Nat → CleanRes) (S S' : St) : Prop :=
  S'.recs.size = S.recs.size ∧ ∀ (j : Nat) (r : OutRec), S.recs[j]? = some r → ∃ r' : OutRec, S'.recs[j]? = some r' ∧ RecStep clean j r r' ∧
    (r.polypath.isSome = true → r'.polypath = r.polypath)

theorem RFrame.refl (clean : Nat → CleanRes) (S : St) : RFrame clean S S :=
  ⟨rfl, fun _ r h => ⟨r, h, RecStep.refl _ _ _, fun _ => rfl⟩⟩

theorem RFrame.trans {clean : Nat → CleanRes} {A B C : St} (h1 : RFrame clean A B) (h2 : RFrame clean B C) :
    RFrame clean A C := by
  refine ⟨h2.1.trans h1.1, ?_⟩
  intro j r hj
  obtain ⟨r', hr', s1, p1⟩ := h1.2 j r hj
  obtain ⟨r'', hr'', s2, p2⟩ := h2.2 j r' hr'
  exact ⟨r'', hr'', s1.trans s2, fun hs => (p2 (by rw [p1 hs]; exact hs)).trans (p1 hs)⟩

theorem StepS.rframe {clean : Nat → CleanRes} {S S' : St} (h : StepS clean S S') : RFrame clean S S' := by
  refine ⟨h.1, ?_⟩
  intro j r hj
  obtain ⟨r', hr', s, p⟩ := h.2.2.1 j r hj
  exact ⟨r', hr', s, fun hs => (p hs).1⟩

/-- `CheckBounds` answers true, and leaves non-empty bounds, on a live outrec whose cleaned ring is a valid path
with non-empty bounds -/
theorem checkBounds_live {clean : Nat → CleanRes} {T T1 : Table} {i : Nat} {b : Bool} {r : OutRec} {p : Path}
    (h : checkBounds clean T i = some (T1, b)) (hr : T[i]? = some r) (hpts : r.hasPts = true)
    (hc : clean i = .path p) (hp : (getBounds p).isEmpty = false) :
    b = true ∧ ∃ r1 : OutRec, T1[i]? = some r1 ∧ r1.bounds.isEmpty = false := by
  simp only [checkBounds, hr, hpts, Bool.not_true, Bool.false_eq_true, if_false] at h
  split at h
  · rename_i hne
    simp only [Option.some.injEq, Prod.mk.injEq] at h
    obtain ⟨rfl, rfl⟩ := h
    exact ⟨rfl, r, hr, by simpa using hne⟩
  · rw [hc] at h
    simp only [Option.some.injEq, Prod.mk.injEq] at h
    obtain ⟨rfl, rfl⟩ := h
    refine ⟨rfl, ?_⟩
    rw [Array.getElem?_modify]; simp only [if_true, hr, Option.map_some]
    exact ⟨_, rfl, hp⟩

theorem buildTreeStep_full {clean : Nat → CleanRes} {inside : Nat → Nat → Bool} {openPath : Nat → Option Path}
    {fuel : Nat} {S S' : St} {i : Nat} (h : buildTreeStep clean inside openPath fuel S i = some S')
    (hG : GInv clean inside S) :
    GInv clean inside S' ∧ RFrame clean S S' ∧
    (∀ (r : OutRec) (p : Path), S.recs[i]? = some r → r.isOpen = false → r.hasPts = true → clean i = .path p →
      (getBounds p).isEmpty = false → ∃ r' : OutRec, S'.recs[i]? = some r' ∧ r'.polypath.isSome = true) ∧
    (PInv S → PInv S') := by
  unfold buildTreeStep at h
  split at h
  · simp at h
  · rename_i r hr
    split at h
    · rename_i hpts
      simp only [Option.some.injEq] at h; subst h
      refine ⟨hG, RFrame.refl _ _, fun r' p hr' _ hp' _ _ => ?_, id⟩
      rw [hr] at hr'; simp only [Option.some.injEq] at hr'; subst hr'
      simp [hp'] at hpts
    · split at h
      · rename_i hopen
        have hcl : ∀ (r' : OutRec), S.recs[i]? = some r' → r'.isOpen = false → False := by
          intro r' hr' ho
          rw [hr] at hr'; simp only [Option.some.injEq] at hr'; subst hr'
          rw [ho] at hopen; simp at hopen
        split at h
        · simp only [Option.some.injEq] at h; subst h
          exact ⟨hG, RFrame.refl _ _, fun r' p hr' ho _ _ _ => (hcl r' hr' ho).elim, fun hP => hP⟩
        · simp only [Option.some.injEq] at h; subst h
          exact ⟨hG, RFrame.refl _ _, fun r' p hr' ho _ _ _ => (hcl r' hr' ho).elim, fun hP => hP⟩
      · cases hcb : checkBounds clean S.recs i with
        | none => simp [hcb] at h
        | some q =>
          obtain ⟨T1, b⟩ := q
          rw [hcb] at h
          have hgood := checkBounds_good hcb
          have hG1 := hG.table_step hgood
          have hw : Step clean (some S.recs.size) S.recs T1 := hgood.1.weaken
          have hF1 : RFrame clean S { S with recs := T1 } :=
            (StepS.of_step hw (fun r hr => by have := getElem?_lt hr; omega)).rframe
          have hP1 : PInv S → PInv { S with recs := T1 } := fun hP => by
            show (polyTreeToPaths S.tree).Perm (placedPaths T1)
            rw [placedPaths_table_step hG.2.2 hgood.1]; exact hP
          cases b with
          | false =>
            simp only [Option.some.injEq] at h; subst h
            refine ⟨hG1, hF1, fun r' p hr' _ hp' hc hb => ?_, hP1⟩
            have := (checkBounds_live hcb hr' hp' hc hb).1
            simp at this
          | true =>
            simp only at h
            obtain ⟨hS, hA', hB', hT', _, hpl, hPP⟩ := rco_spec _ _ _ _ h hG1.1 hG1.2.1 hG1.2.2
            refine ⟨⟨hA', hB', hT'⟩, hF1.trans hS.rframe, fun r' p hr' _ hp' hc hb => ?_, fun hP => hPP (hP1 hP)⟩
            obtain ⟨_, r1, hr1, hne1⟩ := checkBounds_live hcb hr' hp' hc hb
            exact hpl r1 hr1 hne1

theorem foldlM_inv_list {I : List Nat → St → Prop} {f : St → Nat → Option St}
    (hf : ∀ (done : List Nat) (S : St) (i : Nat) (S' : St), f S i = some S' → I done S → I (done ++ [i]) S') :
    ∀ (l done : List Nat) (S S' : St), l.foldlM f S = some S' → I done S → I (done ++ l) S' := by
  intro l
  induction l with
  | nil => intro done S S' h hP; simp only [List.foldlM_nil] at h; cases h; simpa using hP
  | cons a l ih =>
    intro done S S' h hP
    simp only [List.foldlM_cons] at h
    cases hfa : f S a with
    | none => simp [hfa] at h
    | some S1 =>
      rw [hfa] at h
      have := ih (done ++ [a]) S1 S' h (hf done S a S1 hfa hP)
      simpa using this

/-- the invariant of the outer loop of `BuildTree64` after the indices in `done` -/
def LoopInv (clean : Nat → CleanRes) (inside : Nat → Nat → Bool) (T : Table) (done : List Nat) (S : St) : Prop :=
  GInv clean inside S ∧ RFrame clean { recs := T } S ∧ PInv S ∧
  ∀ i ∈ done, ∀ (r : OutRec) (p : Path), T[i]? = some r → r.isOpen = false → r.hasPts = true → clean i = .path p →
    (getBounds p).isEmpty = false → ∃ r' : OutRec, S.recs[i]? = some r' ∧ r'.polypath.isSome = true

theorem LoopInv.init {clean : Nat → CleanRes} {inside : Nat → Nat → Bool} {T : Table} (hF : Fresh T) (hA : Acyclic T) :
    LoopInv clean inside T [] { recs := T } := by
  refine ⟨hF.ginv hA, RFrame.refl _ _, ?_, fun i hi => by simp at hi⟩
  show (polyTreeToPaths (Tree.node [] [])).Perm (placedPaths T)
  have : placedPaths T = [] := by
    unfold placedPaths
    rw [filterMap_range_congr (fun _ => none) (placedPath T) T.size (fun j hj => by
      have hj' : T[j]? = some T[j] := by simp [hj]
      simp [placedPath, hj', (hF j _ hj').1])]
    induction T.size with
    | zero => rfl
    | succ n ih => rw [List.range_succ, List.filterMap_append, ih]; rfl
  rw [this]; exact List.Perm.refl _

theorem LoopInv.step {clean : Nat → CleanRes} {inside : Nat → Nat → Bool} {openPath : Nat → Option Path}
    {fuel : Nat} {T : Table} {done : List Nat} {S0 S1 : St} {i : Nat}
    (hstep : buildTreeStep clean inside openPath fuel S0 i = some S1) (hI : LoopInv clean inside T done S0) :
    LoopInv clean inside T (done ++ [i]) S1 := by
  obtain ⟨hG, hFr, hPI, hdone⟩ := hI
  obtain ⟨hG1, hFr1, hnew, hPs⟩ := buildTreeStep_full hstep hG
  refine ⟨hG1, hFr.trans hFr1, hPs hPI, fun j hj r p hTj hop hpts hc hb => ?_⟩
  rcases List.mem_append.mp hj with hj | hj
  · obtain ⟨r', hr', hs⟩ := hdone j hj r p hTj hop hpts hc hb
    obtain ⟨r'', hr'', _, pp⟩ := hFr1.2 j r' hr'
    exact ⟨r'', hr'', by rw [pp hs]; exact hs⟩
  · simp only [List.mem_singleton] at hj
    subst hj
    obtain ⟨r0, hr0, rs, _⟩ := hFr.2 j r hTj
    have hpts0 : r0.hasPts = true := by
      cases hh : r0.hasPts with
      | true => rfl
      | false =>
        have := rs.disposed hpts hh
        rw [hc] at this
        cases this
    exact hnew r0 p hr0 (rs.isOpen.trans hop) hpts0 hc hb

theorem buildTree_loopInv {clean : Nat → CleanRes} {inside : Nat → Nat → Bool} {openPath : Nat → Option Path}
    {fuel : Nat} {T : Table} {S : St} (hF : Fresh T) (hA : Acyclic T)
    (h : buildTree clean inside openPath fuel T = some S) :
    LoopInv clean inside T (List.range T.size) S := by
  unfold buildTree at h
  have := foldlM_inv_list (I := LoopInv clean inside T)
    (f := fun S i => buildTreeStep clean inside openPath fuel S i)
    (fun done S0 i S1 hstep hI => LoopInv.step hstep hI) (List.range T.size) [] _ _ h (LoopInv.init hF hA)
  simpa using this

end Clipper.Model.Owner
