/-
Helper definitions and lemmas for `Props/Bridges/Ael.lean` and `Props/Bridges/Sides.lean`.

The generated skeleton of a C++ function that also calls untranslated code is split by the translator into auxiliary
definitions `F.m<k>`, one per merged `if` / `switch` (their numbering follows the source order).  The lemmas `ie_m<k>_eq`
below characterise one block of `IntersectEdges` each in the vocabulary of the hand models (`Model/Ael.lean`,
`Model/AelSides.lean`); the bridge theorems assemble them.  Core Lean only.
-/
import ClipperVerif.Lemmas.Bridges
import ClipperVerif.Generated.Engine
import ClipperVerif.Model.Ael
import ClipperVerif.Model.AelSides
namespace Clipper.Lemmas.Bridges
open Clipper Clipper.Model

theorem gen_iabs (x : Int) : Gen.iabs x = iabs x := rfl

/-- `Gen.IsOdd` on a non-negative count is the parity test of the hand model -/
theorem isOdd_nat (n : Nat) : Gen.IsOdd (n : Int) = decide (n % 2 = 1) := by
  unfold Gen.IsOdd Gen.intAnd
  have h1 : ((n : Int) % 18446744073709551616).toNat = n % 18446744073709551616 := by omega
  rw [h1]
  have h2 : (1 : Int).toNat = 1 := rfl
  rw [h2, Nat.and_one_is_mod]
  have h3 : n % 18446744073709551616 % 2 = n % 2 := by omega
  rw [h3]
  rcases Nat.mod_two_eq_zero_or_one n with h | h <;> simp [h]

theorem in01_or (x : Int) : (decide (x = 0) || decide (x = 1)) = in01 x := by
  unfold in01; by_cases h0 : x = 0 <;> by_cases h1 : x = 1 <;> simp [*]

theorem in01_and (x : Int) : (decide (x ≠ 0) && decide (x ≠ 1)) = !in01 x := by
  unfold in01; by_cases h0 : x = 0 <;> by_cases h1 : x = 1 <;> simp [*]

/-! ## `IntersectEdges`, closed branch -/

/-- the log entries of the continuation `a` (`Model.Act`) of "NOW PROCESS THE INTERSECTION" -/
def actLog (hot1 hot2 : Bool) : Act → Log
  | .nothing => []
  | .localMax => [("AddLocalMaxPoly(e1,e2,pt)", [])]
  | .maxThenMin => [("AddLocalMaxPoly(e1,e2,pt)", []), ("AddLocalMinPoly(e1,e2,pt,default)", [])]
  | .swap =>
    (if hot1 then [("AddOutPt(e1,pt)", [])] else []) ++ (if hot2 then [("AddOutPt(e2,pt)", [])] else []) ++
      [("SwapOutrecs(e1,e2)", [])]
  | .localMin => [("AddLocalMinPoly(e1,e2,pt,·)", [0])]

/-- `if (IsJoined(e)) Split(e, pt);` -/
def splitLog (j : JoinWith) (tag : String) : Log := if j ≠ .noJoin then [(tag, [])] else []

/-- `AddLocalMinPoly(e1, e2, pt, false)` (the scalar argument `is_new` is logged as 0) -/
def lm : String × List Int := ("AddLocalMinPoly(e1,e2,pt,·)", [0])

theorem ie_m1_eq (j : JoinWith) (acts : Log) : Gen.IntersectEdges.m1 j acts = acts ++ splitLog j "Split(e2,pt)" := by
  cases j <;> simp [Gen.IntersectEdges.m1, Gen.IsJoined, splitLog]

theorem ie_m5_eq (j : JoinWith) (acts : Log) : Gen.IntersectEdges.m5 j acts = acts ++ splitLog j "Split(e1,pt)" := by
  cases j <;> simp [Gen.IntersectEdges.m5, Gen.IsJoined, splitLog]

theorem ie_m9_eq (j : JoinWith) (acts : Log) : Gen.IntersectEdges.m9 j acts = acts ++ splitLog j "Split(e2,pt)" := by
  cases j <;> simp [Gen.IntersectEdges.m9, Gen.IsJoined, splitLog]

/-- "UPDATE WINDING COUNTS..." is `Model.updateWinds` -/
theorem ie_m14_eq (fr : FillRule) (e1 e2 : Edge) (old : Int) :
    (Gen.IntersectEdges.m14 e1.pt e2.pt fr e1.wc e2.wc e2.dx e1.dx old e1.wc2 e2.wc2).2 =
      ((updateWinds fr e1 e2).1.wc, (updateWinds fr e1 e2).1.wc2, (updateWinds fr e1 e2).2.wc, (updateWinds fr e1 e2).2.wc2) := by
  rcases e1 with ⟨p1, o1, d1, w1, v1, h1⟩
  rcases e2 with ⟨p2, o2, d2, w2, v2, h2⟩
  cases fr <;> cases p1 <;> cases p2 <;>
    simp [Gen.IntersectEdges.m14, Gen.IntersectEdges.m12, Gen.IntersectEdges.m13, Gen.IntersectEdges.m10, Gen.IntersectEdges.m11,
      updateWinds] <;> (repeat' split) <;> simp_all

/-- the `switch (fillrule_)` computing `old_e1_windcnt`, `old_e2_windcnt` is `Model.oldWc` (`fillpos` is `FillRule::Positive`) -/
theorem ie_m16_eq (fr : FillRule) (a b : Int) :
    Gen.IntersectEdges.m16 fr a b .positive = (oldWc fr a, oldWc fr b) := by
  cases fr <;> simp [Gen.IntersectEdges.m16, Gen.IntersectEdges.m15, oldWc, Gen.iabs, iabs]

/-- the `switch (fillrule_)` computing `e1Wc2`, `e2Wc2` is `Model.oldWc` -/
theorem ie_m20_eq (fr : FillRule) (a b : Int) :
    Gen.IntersectEdges.m20 fr a b .positive = (oldWc fr a, oldWc fr b) := by
  cases fr <;> simp [Gen.IntersectEdges.m20, Gen.IntersectEdges.m19, oldWc, Gen.iabs, iabs]

/-- the `switch (cliptype_)` of the cold/cold same-type case is `Model.goSame` -/
theorem ie_m24_eq (ct : ClipType) (p1 : PathType) (y1 y2 : Int) (acts : Log) :
    Gen.IntersectEdges.m24 ct y1 y2 acts p1 = if goSame ct p1 y1 y2 then acts ++ [lm] else acts := by
  cases ct <;> cases p1 <;>
    simp [Gen.IntersectEdges.m24, Gen.IntersectEdges.m21, Gen.IntersectEdges.m22, Gen.IntersectEdges.m23, goSame, lm]

theorem ie_m26_eq (ct : ClipType) (p1 p2 : PathType) (o1 o2 y1 y2 : Int) (acts : Log) :
    Gen.IntersectEdges.m26 p1 p2 acts o1 o2 ct y1 y2 =
      if p1 != p2 then acts ++ [lm]
      else if (o1 == 1 && o2 == 1) && goSame ct p1 y1 y2 then acts ++ [lm] else acts := by
  simp only [Gen.IntersectEdges.m26, Gen.IntersectEdges.m25, ie_m24_eq, Gen.IsSamePolyType]
  cases p1 <;> cases p2 <;> simp [lm] <;> (repeat' split) <;> simp_all

/-- both edges hot: `Model.decideActB true true …` -/
theorem ie_m18_eq (ct : ClipType) (p1 p2 : PathType) (o1 o2 : Int) (a1 fe1 or1 or2 : Nat) (acts : Log) (go : Bool) :
    Gen.IntersectEdges.m18 o1 o2 p1 p2 ct acts a1 fe1 or1 or2 =
      acts ++ actLog true true (decideActB true true (in01 o1) (in01 o2) (o1 == 1) (o2 == 1) (p1 != p2) (ct != .xor) go
        (decide (a1 = fe1)) (decide (or1 = or2))) := by
  simp only [Gen.IntersectEdges.m18, Gen.IntersectEdges.m17, Gen.IsFront, in01_and]
  generalize in01 o1 = i1
  generalize in01 o2 = i2
  cases i1 <;> cases i2 <;> cases p1 <;> cases p2 <;> cases ct <;>
    by_cases hf : a1 = fe1 <;> by_cases hs : or1 = or2 <;> simp [decideActB, actLog, hf, hs]

/-- not both hot, and not returned at `if ((!IsHotEdge(e1) && !e1_windcnt_in_01) || …) return;`: `Model.decideActB` -/
theorem ie_m28_eq (ct : ClipType) (fr : FillRule) (p1 p2 : PathType) (o1 o2 v1 v2 : Int) (hot1 hot2 : Bool) (acts : Log)
    (front same : Bool) (hh : (hot1 && hot2) = false) (hr : ((!hot1 && !in01 o1) || (!hot2 && !in01 o2)) = false) :
    Gen.IntersectEdges.m28 hot1 acts hot2 fr v1 v2 .positive p1 p2 o1 o2 ct =
      acts ++ actLog hot1 hot2 (decideActB hot1 hot2 (in01 o1) (in01 o2) (o1 == 1) (o2 == 1) (p1 != p2) (ct != .xor)
        (goSame ct p1 (oldWc fr v1) (oldWc fr v2)) front same) := by
  simp only [Gen.IntersectEdges.m28, Gen.IntersectEdges.m27, ie_m20_eq, ie_m26_eq, Gen.IsHotEdge]
  generalize goSame ct p1 (oldWc fr v1) (oldWc fr v2) = go
  generalize hi1 : in01 o1 = i1 at hr
  generalize hi2 : in01 o2 = i2 at hr
  generalize (o1 == 1) = q1
  generalize (o2 == 1) = q2
  cases hot1 <;> cases hot2 <;> cases i1 <;> cases i2 <;> simp_all [decideActB, actLog, lm] <;>
    cases p1 <;> cases p2 <;> cases q1 <;> cases q2 <;> cases go <;> simp

/-! ## `IntersectEdges`, open branch -/

/-- does the open branch return before "toggle contribution"?  (the three tests of `Model.intersectOpen`) -/
def openSkip (ct : ClipType) (fr : FillRule) (ec : Edge) : Bool :=
  (iabs ec.wc != 1) || openSkipCt ct ec.pt ec.hot || openSkipFr fr ec.wc

theorem intersectOpen_eq (ct : ClipType) (fr : FillRule) (eo ec : Edge) :
    intersectOpen ⟨ct, fr⟩ eo ec = if openSkip ct fr ec then eo else { eo with hot := !eo.hot } := by
  unfold intersectOpen openSkip
  by_cases h1 : iabs ec.wc = 1 <;> cases h2 : openSkipCt ct ec.pt ec.hot <;> cases h3 : openSkipFr fr ec.wc <;> simp_all

/-- `switch (cliptype_)` of the open branch (`edge_c = e2`) is `Model.openSkipCt` -/
theorem ie_m2_eq (ct : ClipType) (hot : Bool) (p : PathType) : Gen.IntersectEdges.m2 ct hot p = openSkipCt ct p hot := by
  cases ct <;> cases hot <;> cases p <;> simp [Gen.IntersectEdges.m2, Gen.IsHotEdge, openSkipCt]

/-- `switch (fillrule_)` of the open branch (`edge_c = e2`) is `Model.openSkipFr` -/
theorem ie_m3_eq (fr : FillRule) (w : Int) : Gen.IntersectEdges.m3 fr w = openSkipFr fr w := by
  cases fr <;> simp only [Gen.IntersectEdges.m3, openSkipFr, gen_iabs] <;> exact ite_ne_bne _ _

theorem ie_m6_eq (ct : ClipType) (hot : Bool) (p : PathType) : Gen.IntersectEdges.m6 ct hot p = openSkipCt ct p hot := by
  cases ct <;> cases hot <;> cases p <;> simp [Gen.IntersectEdges.m6, Gen.IsHotEdge, openSkipCt]

theorem ie_m7_eq (fr : FillRule) (w : Int) : Gen.IntersectEdges.m7 fr w = openSkipFr fr w := by
  cases fr <;> simp only [Gen.IntersectEdges.m7, openSkipFr, gen_iabs] <;> exact ite_ne_bne _ _

/-- what "toggle contribution" logs when the open edge is `e1`: a hot edge gives its output record up
(`AddOutPt`, the record's side and `e1.outrec` set to `nullptr`), a cold one joins the hot other side of its local minimum
(`e3`) or starts a new open path -/
def toggleLog1 (eoHot front atLocMin e3Hot : Bool) (dx : Int) : Log :=
  if eoHot then
    [("AddOutPt(e1,pt)", []),
     (if front then "e1_outrec_after1_front_edge := nullptr" else "e1_outrec_after1_back_edge := nullptr", []),
     ("e1_outrec := nullptr", [])]
  else if atLocMin && e3Hot then
    [("e1_outrec := e3_outrec_after1", []),
     (if dx > 0 then "SetSides(e3_outrec_after1,e1,e3)" else "SetSides(e3_outrec_after1,e3,e1)", [])]
  else [("StartOpenPath(e1,pt)", [])]

/-- the same when the open edge is `e2` -/
def toggleLog2 (eoHot front atLocMin e3Hot : Bool) (dx : Int) : Log :=
  if eoHot then
    [("AddOutPt(e2,pt)", []),
     (if front then "e2_outrec_after1_front_edge := nullptr" else "e2_outrec_after1_back_edge := nullptr", []),
     ("e2_outrec := nullptr", [])]
  else if atLocMin && e3Hot then
    [("e2_outrec := e3_outrec_after1", []),
     (if dx > 0 then "SetSides(e3_outrec_after1,e2,e3)" else "SetSides(e3_outrec_after1,e3,e2)", [])]
  else [("StartOpenPath(e2,pt)", [])]

/-- hot flag of the open edge after the logged steps: `…_outrec := nullptr` makes it cold, `StartOpenPath` / joining `e3`'s record hot -/
def hotAfterToggle (hot : Bool) (l : Log) : Bool := if l = [] then hot else !hot

/-! ## side bookkeeping (`Model/AelSides.lean`) -/

/-- hand `Model.Join` of the C++ enum value `JoinWith` -/
def toJoin : JoinWith → Join
  | .noJoin => .none | .left => .left | .right => .right

end Clipper.Lemmas.Bridges
