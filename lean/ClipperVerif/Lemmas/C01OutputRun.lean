/-
Helper lemmas for `Props/C01Output.lean`, part 6: an event list of the ring model whose bookkeeping events are accepted by the
bookkeeping model `Model/Ael.lean` is accepted by the ring model (no joins, no open paths: nothing else can be rejected, and the
ring model never faults), provided its `update` events name positions inside the AEL.  Core Lean only.
-/
import ClipperVerif.Lemmas.C01OutputChain
import ClipperVerif.Props.C01RegionRings
namespace Clipper.Lemmas.C01Output
open Clipper Clipper.Model
open Clipper.Props.C01RegionRings (baseOps baseOf)

/-- the positions of the `update` events are inside the AEL, whose length the other events change as they say -/
def UpdOK : Nat → List ROp → Prop
  | _, [] => True
  | n, .update i _ :: t => i < n ∧ UpdOK n t
  | n, .base (.insertPair _ _ _ _) _ :: t => UpdOK (n + 2) t
  | n, .base (.removePair _) _ :: t => UpdOK (n - 2) t
  | n, _ :: t => UpdOK n t

theorem erase_drop (l : List Model.SEdge) (i : Nat) : (erase l).drop i = erase (l.drop i) := by simp [erase, List.map_drop]

theorem intersectCore_not_reject (cfg : Cfg) (pre : List Model.SEdge) (a b : Model.SEdge) (rest : List Model.SEdge) (n : Nat) :
    intersectCore cfg pre a b rest n ≠ .error .reject := by
  unfold intersectCore
  simp only
  split
  · simp
  · simp
  · simp
  · split
    · split <;> simp
    · simp
  · split
    · split <;> simp
    · simp

/-- **progress**: a plain base event accepted by the bookkeeping model is accepted by the ring model -/
theorem base_progress (cfg : Cfg) (hct : cfg.ct ≠ .noClip) (r : RState) (bop : Op) (pt : Pt) (hop : PlainOp (.base bop pt))
    (hS : SInv cfg r.s) (hP : Plain r.s.ael) (l' : Ael) (hl : step cfg (erase r.s.ael) bop = some l') :
    ∃ r', stepR cfg r (.base bop pt) = .ok r' ∧ erase r'.s.ael = l' := by
  have key : ∃ s', stepS cfg r.s (.base bop) = .ok s' := by
    cases hs : stepS cfg r.s (.base bop) with
    | ok s' => exact ⟨s', rfl⟩
    | error e =>
      exfalso
      cases e with
      | fault f => exact Clipper.Props.C11Sides.step_never_faults cfg hct r.s _ hS f hs
      | reject =>
        cases bop with
        | insertPair pos t isOpen dx =>
          simp only [step, Model.insertPair] at hl
          simp only [stepS, insertPairS] at hs
          split at hl
          · next hc =>
            have hsep : separatesJoin pos r.s.ael = false := by
              unfold separatesJoin
              cases hg : (r.s.ael.take pos).getLast? with
              | none => rfl
              | some x =>
                have hx : x ∈ r.s.ael := List.mem_of_mem_take (List.mem_of_getLast? hg)
                simp [(hP x hx).1]
            rw [if_pos ⟨by simpa [erase] using hc.1, hc.2, hsep⟩] at hs
            cases hs
          · cases hl
        | insertOne _ _ _ => simp [PlainOp] at hop
        | intersect i =>
          simp only [step, Model.intersect] at hl
          simp only [stepS] at hs
          unfold intersectS at hs
          rw [erase_drop] at hl
          match hd0 : r.s.ael.drop i with
          | [] => simp [hd0, erase] at hl
          | [_] => simp [hd0, erase] at hl
          | a :: b :: rest =>
            simp only [hd0] at hs
            have hlw := window_split _ _ _ _ _ hd0
            have hP' := hP
            rw [hlw] at hP'
            obtain ⟨pa, pb, _⟩ := plain_window hP'
            have hopen : (a.e.isOpen || b.e.isOpen) = false := by simp [pa.2, pb.2]
            obtain ⟨s1, s2, _⟩ := twoSplits_plain i pt r.s r.o a b rest hd0 pa.1 pb.1
            simp only [hopen, Bool.false_eq_true, if_false, s1, s2, bind, Except.bind, hd0] at hs
            exact intersectCore_not_reject cfg _ a b rest _ hs
        | removePair i =>
          simp only [step, Model.removePair] at hl
          simp only [stepS] at hs
          unfold removePairS at hs
          rw [erase_drop] at hl
          match hd0 : r.s.ael.drop i with
          | [] => simp [hd0, erase] at hl
          | [_] => simp [hd0, erase] at hl
          | a :: b :: rest =>
            simp only [hd0, erase, List.map_cons] at hl
            simp only [hd0] at hs
            have hlw := window_split _ _ _ _ _ hd0
            have hP' := hP
            rw [hlw] at hP'
            obtain ⟨pa, pb, _⟩ := plain_window hP'
            obtain ⟨s1, s2, _⟩ := twoSplits_plain i pt r.s r.o a b rest hd0 pa.1 pb.1
            split at hl
            · next hc =>
              rw [if_pos hc] at hs
              simp only [pa.2, Bool.false_eq_true, if_false, s1, s2, bind, Except.bind, hd0] at hs
              split at hs
              · cases hs
              · split at hs <;> cases hs
              · cases hs
            · cases hl
        | removeOne _ => simp [PlainOp] at hop
  obtain ⟨s', hs'⟩ := key
  refine ⟨{ s := s', o := outStep cfg r.s r.o (.base bop pt) }, by simp [stepR, ROp.erase, hs'], ?_⟩
  have := Clipper.Props.C11Sides.erase_step cfg r.s s' (.base bop) hS hs'
  simp only at this
  rw [hl] at this
  exact (Option.some.inj this).symm

theorem step_length (cfg : Cfg) (l l' : Ael) (bop : Op) (h : step cfg l bop = some l') :
    match bop with
    | .insertPair _ _ _ _ => l'.length = l.length + 2
    | .intersect _ => l'.length = l.length
    | .removePair _ => l'.length = l.length - 2
    | _ => True := by
  cases bop with
  | insertPair pos t isOpen dx =>
    simp only [step, Model.insertPair] at h
    split at h
    · next hc =>
      cases h
      simp only [List.length_append, List.length_cons, List.length_take, List.length_drop]
      omega
    · cases h
  | insertOne _ _ _ => trivial
  | intersect i =>
    simp only [step, Model.intersect] at h
    match hd : l.drop i with
    | [] => simp [hd] at h
    | [_] => simp [hd] at h
    | a :: b :: rest =>
      simp only [hd] at h
      cases h
      have := window_length l i a b rest hd
      have hl := congrArg List.length hd
      simp only [List.length_append, List.length_cons, List.length_take, List.length_drop] at hl ⊢
      omega
  | removePair i =>
    simp only [step, Model.removePair] at h
    match hd : l.drop i with
    | [] => simp [hd] at h
    | [_] => simp [hd] at h
    | a :: b :: rest =>
      simp only [hd] at h
      split at h
      · cases h
        have := window_length l i a b rest hd
        have hl := congrArg List.length hd
        simp only [List.length_append, List.length_cons, List.length_take, List.length_drop] at hl ⊢
        omega
      · cases h
  | removeOne _ => trivial

theorem baseOps_cons_base (bop : Op) (pt : Pt) (t : List ROp) : baseOps (.base bop pt :: t) = bop :: baseOps t := by
  simp [baseOps, ROp.erase, baseOf]

theorem baseOps_cons_update (i : Nat) (pt : Pt) (t : List ROp) : baseOps (.update i pt :: t) = baseOps t := by
  have : (ROp.update i pt).erase = none := rfl
  simp [baseOps, List.filterMap_cons, this]

theorem baseOps_append (a b : List ROp) : baseOps (a ++ b) = baseOps a ++ baseOps b := by
  simp [baseOps, List.filterMap_append]

/-- **a plain event list whose bookkeeping events are accepted by `Model/Ael.lean` is accepted by the ring model** -/
theorem runR_lift (cfg : Cfg) (hct : cfg.ct ≠ .noClip) : ∀ (rops : List ROp) (r : RState) (l' : Ael), (∀ op ∈ rops, PlainOp op) →
    Reach cfg r → Plain r.s.ael → Model.run cfg (erase r.s.ael) (baseOps rops) = some l' → UpdOK r.s.ael.length rops →
    ∃ r', runR cfg r rops = .ok r' ∧ erase r'.s.ael = l' ∧ Plain r'.s.ael ∧ Reach cfg r' := by
  intro rops
  induction rops with
  | nil =>
    intro r l' _ hre hP hrun _
    simp only [baseOps, List.filterMap_nil, Model.run, Option.some.injEq] at hrun
    exact ⟨r, rfl, hrun, hP, hre⟩
  | cons op rops ih =>
    intro r l' hop hre hP hrun hu
    obtain ⟨hO, hR, hS⟩ := reach_facts hct hre
    have hop1 := hop op (by simp)
    have hops : ∀ o ∈ rops, PlainOp o := fun o ho => hop o (by simp [ho])
    cases op with
    | base bop pt =>
      rw [baseOps_cons_base] at hrun
      simp only [Model.run] at hrun
      cases hst : step cfg (erase r.s.ael) bop with
      | none => simp [hst] at hrun
      | some l1 =>
        simp only [hst] at hrun
        obtain ⟨r1, hs1, he1⟩ := base_progress cfg hct r bop pt hop1 hS hP l1 hst
        obtain ⟨p1, _⟩ := plain_step cfg _ r r1 hop1 hs1 hP hO hR
        have hlen := step_length cfg _ _ bop hst
        have hlen1 : r1.s.ael.length = l1.length := by rw [← he1]; simp [erase]
        have hlen0 : (erase r.s.ael).length = r.s.ael.length := by simp [erase]
        have hu1 : UpdOK r1.s.ael.length rops := by
          cases bop with
          | insertPair _ _ _ _ => simp only [UpdOK] at hu; simp only at hlen; rw [hlen1, hlen, hlen0]; exact hu
          | insertOne _ _ _ => simp [PlainOp] at hop1
          | intersect _ => simp only [UpdOK] at hu; simp only at hlen; rw [hlen1, hlen, hlen0]; exact hu
          | removePair _ => simp only [UpdOK] at hu; simp only at hlen; rw [hlen1, hlen, hlen0]; exact hu
          | removeOne _ => simp [PlainOp] at hop1
        obtain ⟨r', h1, h2, h3, h4⟩ := ih r1 l' hops (reach_step hre hs1) p1 (by rw [he1]; exact hrun) hu1
        exact ⟨r', by simp only [runR, hs1]; exact h1, h2, h3, h4⟩
    | join _ _ => simp [PlainOp] at hop1
    | split _ _ => simp [PlainOp] at hop1
    | update i pt =>
      rw [baseOps_cons_update] at hrun
      simp only [UpdOK] at hu
      have hs1 : stepR cfg r (.update i pt) = .ok { r with o := outStep cfg r.s r.o (.update i pt) } := by
        simp [stepR, ROp.erase, hu.1]
      obtain ⟨r', h1, h2, h3, h4⟩ := ih { r with o := outStep cfg r.s r.o (.update i pt) } l' hops (reach_step hre hs1) hP hrun hu.2
      exact ⟨r', by simp only [runR, hs1]; exact h1, h2, h3, h4⟩

theorem updOK_of_base : ∀ (rops : List ROp) (n : Nat), (∀ op ∈ rops, ∃ bop pt, op = .base bop pt) → UpdOK n rops := by
  intro rops
  induction rops with
  | nil => intro n _; trivial
  | cons op t ih =>
    intro n h
    obtain ⟨bop, pt, rfl⟩ := h op (by simp)
    have := fun m => ih m (fun o ho => h o (by simp [ho]))
    cases bop <;> simp only [UpdOK] <;> exact this _

end Clipper.Lemmas.C01Output
