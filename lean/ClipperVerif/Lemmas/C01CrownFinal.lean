/-
Helper lemmas for `Props/C01Crown.lean`, part 7: THE ASSEMBLY.  The decorated event list of the exact sweep is split at the rational height
`yn/yd` strictly inside a scanbeam, through no crossing: `A` = the scanbeams before, the insertions of the scanbeam and its crossings below the
height (`Lemmas/C01CrownSorted.isect_split_sorted`: the AEL reached is in left-to-right order on that scanline), `B` = the rest.  Phase 1 on `A`,
phase 2 on `B` (`Lemmas/C01CrownRun`), the pending sum at the split evaluated by alternation (`Lemmas/C01CrownEval`) and the region on the
scanline (`Props/C01Region.region_on_scanline`).  Core Lean only.
-/
import ClipperVerif.Lemmas.C01CrownEval
import ClipperVerif.Props.C01Output
namespace Clipper.Lemmas.C01Crown
open Clipper Clipper.Model Clipper.Model.AelOrder Clipper.Model.SweepOrder Clipper.Model.SweepEvents Clipper.Model.SweepPoints
open Clipper.Lemmas.SweepOrder Clipper.Lemmas.C01Region Clipper.Lemmas.C01Output Clipper.Props.C01Sweep Clipper.Props.C01Region

theorem beamRunsP_snaps (D : Int) (valid : Int → GEdge → GEdge → Bool) (cx : GEdge → Int → Int) (next : GEdge → Option GEdge)
    (mins : Int → List (GEdge × GEdge)) (lab : Lab) : ∀ (ys : List Int) (ael : List GEdge),
    (beamRunsP D valid cx next mins lab ael ys).map (·.snap) = sweepFrom valid cx next mins ael ys := by
  intro ys
  induction ys with
  | nil => intro ael; simp [beamRunsP, sweepFrom]
  | cons y0 t ih =>
    intro ael
    cases t with
    | nil => simp [beamRunsP, sweepFrom]
    | cons y1 rest =>
      rw [beamRunsP_cons, sweepFrom_cons, List.map_cons, ih]
      rfl

/-- **the geometric run of the scanbeams after `r` starts at the AEL `r` ends with** (the existential intermediate lists of
`SweepP.all` made explicit; the proof repeats the induction step of `sweepP`) -/
theorem gRun_after (cfg : Cfg) (hct : cfg.ct ≠ .noClip) (D : Int) (hD : 0 < D) (edges : List GEdge) (valid : Int → GEdge → GEdge → Bool)
    (cx : GEdge → Int → Int) (next : GEdge → Option GEdge) (mins : Int → List (GEdge × GEdge)) (lab : Lab)
    (hup : AllUp edges) (hnx : NextOK edges next mins) (hn : Near cx)
    (hdx : DxOK edges lab) (hnl : NextLab edges next lab) (hst : Starts edges next mins) :
    ∀ (ys : List Int) (ael : List GEdge) (r0 : RState), SweepOK edges valid next mins ys → SweepR edges next mins lab ys →
      (∀ y, ys.head? = some y → AelAt edges mins y ael ∧ CompleteAt edges mins y ael) →
      Reach cfg r0 → Plain r0.s.ael → Tracks lab (erase r0.s.ael) ael →
      (∀ s ∈ sweepFrom valid cx next mins ael ys, ∀ c ∈ geoSwaps s.afterIsect s.inserted, (crossQ c.2.1 c.2.2).d ∣ D) →
      (∀ y, ys.head? = some y → EndsAbove (D * y) r0.o) →
      ∀ (pre : List BeamRunP) (r : BeamRunP) (post : List BeamRunP), beamRunsP D valid cx next mins lab ael ys = pre ++ r :: post →
        ∃ aelEnd, GRun D (· ∈ edges) r.snap.afterTop (post.flatMap BeamRunP.events) aelEnd := by
  intro ys
  induction ys with
  | nil => intro ael r0 _ _ _ _ _ _ _ _ pre r post h; simp [beamRunsP] at h
  | cons y0 t ih =>
    intro ael r0 hok hrr h0 hre hP ht hden hE0 pre r post hsplit
    cases t with
    | nil => simp [beamRunsP] at hsplit
    | cons y1 rest =>
      obtain ⟨hb, hrest⟩ := hok
      obtain ⟨hr, hrrest⟩ := hrr
      rw [sweepFrom_cons] at hden
      obtain ⟨rI, rX, rT, hbp⟩ := beamP cfg hct D hD edges valid cx next mins lab ael y0 y1 r0 hup hnx hn hdx hnl hst hb hr
        (h0 y0 rfl).1 (h0 y0 rfl).2 hre hP ht (fun c hc => hden _ (by simp) c hc)
      obtain ⟨_, hfacts, c1, hC⟩ := beam_tracked cfg edges valid cx next mins lab ael y0 y1 (erase r0.s.ael) hup hnx hn hdx hnl hst
        hb hr (h0 y0 rfl).1 (h0 y0 rfl).2 ht
      have hy01 : D * y1 ≤ D * y0 := Int.mul_le_mul_of_nonneg_left (Int.le_of_lt hb.1) (Int.le_of_lt hD)
      have hE1 := hE0 y0 rfl
      have hEI : EndsAbove (D * y0) rI.o := endsAbove_run cfg _ _ r0 rI hbp.runIns hE1
        (fun op ho => by rw [hbp.hIns op ho]; exact Int.le_refl _)
      have hEX : EndsAbove (D * y1) rX.o := endsAbove_run cfg _ _ rI rX hbp.runIsect (endsAbove_mono hEI hy01)
        (fun op ho => Int.le_of_lt (hbp.heights op ho).1)
      have hET : EndsAbove (D * y1) rT.o := endsAbove_run cfg _ _ rX rT hbp.runTop hEX
        (fun op ho => by rw [hbp.hTop op ho]; exact Int.le_refl _)
      rw [beamRunsP_cons] at hsplit
      cases pre with
      | nil =>
        simp only [List.nil_append, List.cons.injEq] at hsplit
        obtain ⟨h1, h2⟩ := hsplit
        subst h1
        have hsub := sweepP cfg hct D hD edges valid cx next mins lab hup hnx hn hdx hnl hst (y1 :: rest)
          (beamStep valid cx next mins ael y0 y1).afterTop rT hrest hrrest
          (fun y hy => by simp at hy; subst hy; exact ⟨c1, hC⟩) hbp.plT.2 hbp.plT.1 hbp.trTop
          (fun s hs c hc => hden s (by simp [hs]) c hc) (fun y hy => by simp at hy; subst hy; exact hET)
        obtain ⟨_, aelEnd, _, e2, _⟩ := hsub.all
        rw [h2] at e2
        exact ⟨aelEnd, e2⟩
      | cons p0 pre' =>
        simp only [List.cons_append, List.cons.injEq] at hsplit
        obtain ⟨_, h2⟩ := hsplit
        exact ih (beamStep valid cx next mins ael y0 y1).afterTop rT hrest hrrest
          (fun y hy => by simp at hy; subst hy; exact ⟨c1, hC⟩) hbp.plT.2 hbp.plT.1 hbp.trTop
          (fun s hs c hc => hden s (by simp [hs]) c hc) (fun y hy => by simp at hy; subst hy; exact hET) pre' r post h2

theorem mem_flatMap_events {l : List BeamRunP} {op : ROp} (h : op ∈ l.flatMap BeamRunP.events) :
    ∃ p1 q p2, l = p1 ++ q :: p2 ∧ op ∈ q.events := by
  obtain ⟨q, hq, hop⟩ := List.mem_flatMap.1 h
  obtain ⟨p1, p2, hl⟩ := List.append_of_mem hq
  exact ⟨p1, q, p2, hl, hop⟩

/-- **THE RAY SUM OF THE OUTPUT SIDE AT THE END OF THE SWEEP** (abstract event data). -/
theorem crown_main (cfg : Cfg) (hct : cfg.ct ≠ .noClip) (D : Int) (edges : List GEdge) (valid : Int → GEdge → GEdge → Bool)
    (cx : GEdge → Int → Int) (next : GEdge → Option GEdge) (mins : Int → List (GEdge × GEdge)) (lab : Lab) (ys : List Int)
    (hup : AllUp edges) (hnx : NextOK edges next mins) (hn : Near cx) (hok : SweepOK edges valid next mins ys)
    (hR : HypR edges next mins lab ys) (hD : DenOK D (sweepDens valid cx next mins ys))
    (pre : List BeamRunP) (r : BeamRunP) (post : List BeamRunP)
    (hruns : beamRunsP D valid cx next mins lab [] ys = pre ++ r :: post)
    (yn yd : Int) (hd : 0 < yd) (hlo : r.snap.y1 * yd < yn) (hhi : yn < r.snap.y0 * yd)
    (hcr : ∀ op ∈ r.evIsect, op.pt.y * yd ≠ D * yn) :
    ∃ (rs ra : RState) (A B : List ROp) (es aelEnd : List GEdge),
      sweepEventsP D valid cx next mins lab ys = A ++ B ∧
      runR cfg RState.empty A = .ok ra ∧ runR cfg ra B = .ok rs ∧
      runR cfg RState.empty (sweepEventsP D valid cx next mins lab ys) = .ok rs ∧
      (∀ op ∈ A, D * yn < op.pt.y * yd) ∧ (∀ op ∈ B, op.pt.y * yd < D * yn) ∧
      GRun D (· ∈ edges) [] A es ∧ GRun D (· ∈ edges) es B aelEnd ∧
      es.Perm r.snap.inserted ∧ es.Pairwise (fun u v => leAt yn yd u v = true) ∧
      GeoAll (Holds D (· ∈ edges) ra.o) ra.s.ael es ∧ Tracks lab (erase ra.s.ael) es ∧ EndsAbove (levelOf D yn yd) ra.o ∧
      (∀ x ∈ ra.s.ael, x.e.isOpen = false ∧ x.e.hot = x.orec.isSome) ∧ altFrom true ra.s.ael = true ∧
      ∀ xn : Int, (∀ e ∈ r.snap.inserted, ¬ onEdgeLine e xn yn yd) →
        phi (crQ D xn yn yd) ra.o = 0 ∧
        pend (levelOf D yn yd) (edgeK D xn yn yd) ra.o ra.s.ael es = rsum xn yn yd ra.s.ael es ∧
        rsum xn yn yd ra.s.ael es =
          -(if inR cfg.ct cfg.fr (labSum lab .subject (leftEdges edges xn yn yd)) (labSum lab .clip (leftEdges edges xn yn yd)) then 1 else 0) ∧
        phi (crQ D xn yn yd) rs.o + pend (levelOf D yn yd) (edgeK D xn yn yd) rs.o rs.s.ael aelEnd =
          -(if inR cfg.ct cfg.fr (labSum lab .subject (leftEdges edges xn yn yd)) (labSum lab .clip (leftEdges edges xn yn yd)) then 1 else 0) := by
  have hS := sweepP_empty cfg hct D edges valid cx next mins lab ys hup hnx hn hok hR hD
  have hR' := hR
  obtain ⟨hnd, hdx, hnl, hst, htop, hrr⟩ := hR'
  obtain ⟨rEnd, _, e1, _, _, _, _⟩ := hS.all
  obtain ⟨r1, aelr, y0, y1, rI, rX, rT, f1, f2, f3, f4, hf, _, _⟩ := hS.beams pre r post hruns
  have hDp := hD.1
  -- the tail of the geometric run, from the AEL the scanbeam ends with
  have h0 : ∀ y, ys.head? = some y → AelAt edges mins y [] ∧ CompleteAt edges mins y [] := by
    intro y hy
    refine ⟨aelAt_nil edges mins y, ?_⟩
    cases ys with
    | nil => simp at hy
    | cons y' t =>
      simp at hy; subst hy
      exact completeAt_start edges next mins y' hup hnx hst htop
  obtain ⟨aelEnd, gPost⟩ := gRun_after cfg hct D hDp edges valid cx next mins lab hup hnx hn hdx hnl hst ys [] RState.empty hok hrr h0
    ⟨[], rfl⟩ (fun x hx => by simp [RState.empty, SState.empty] at hx) (by simp [RState.empty, SState.empty, erase, Tracks])
    (den_of_sweep hD) (fun y _ g hg => by simp [RState.empty, Out.empty] at hg) pre r post hruns
  -- the crossings of the scanbeam, split at the height
  have hIs : r.evIsect = isectEventsP D r.snap.afterIsect r.snap.inserted := by rw [f3]; rfl
  have hal : ∀ e ∈ r.snap.inserted, e.Up ∧ e.top.y ≤ r.snap.y1 ∧ r.snap.y0 ≤ e.bot.y := by
    intro e he
    obtain ⟨h1, h2, h3⟩ := hf.mem e he
    unfold AliveAbove at h2; unfold AliveBelow at h3
    exact ⟨hup e h1, h3.1, h2.2⟩
  have hsnap : r.snap ∈ sweepFrom valid cx next mins [] ys := by
    rw [← beamRunsP_snaps D valid cx next mins lab ys [], hruns]
    simp
  obtain ⟨a2, b2, es, hsplit, hA2, hB2, gA2, gB2, hperm, hsorted⟩ := isect_split_sorted D hDp (· ∈ edges) r.snap.y0 r.snap.y1 hf.hy
    r.snap.inserted r.snap.afterIsect hf.sorted hf.isect_sorted hf.isect_perm hal (den_of_sweep hD _ hsnap) yn yd hd hlo hhi
    (by rw [← hIs]; exact hcr)
  have hIs2 : r.evIsect = a2 ++ b2 := by rw [hIs, hsplit]
  -- the runs
  have hrunX := f4.runIsect
  rw [hIs2, runR_append] at hrunX
  cases hra : runR cfg rI a2 with
  | error e => simp [hra] at hrunX
  | ok ra =>
    simp only [hra] at hrunX
    have hAB : sweepEventsP D valid cx next mins lab ys =
        (pre.flatMap BeamRunP.events ++ r.evIns ++ a2) ++ (b2 ++ r.evTop ++ post.flatMap BeamRunP.events) := by
      unfold sweepEventsP
      rw [hruns]
      simp only [List.flatMap_append, List.flatMap_cons, BeamRunP.events, hIs2, List.append_assoc]
    have hrunA : runR cfg RState.empty (pre.flatMap BeamRunP.events ++ r.evIns ++ a2) = .ok ra := by
      simp only [runR_append, f1, f4.runIns, hra]
    have hrunB : runR cfg ra (b2 ++ r.evTop ++ post.flatMap BeamRunP.events) = .ok rEnd := by
      have e1' : runR cfg RState.empty (sweepEventsP D valid cx next mins lab ys) = .ok rEnd := e1
      rw [hAB, runR_append, hrunA] at e1'
      exact e1'
    have gA : GRun D (· ∈ edges) [] (pre.flatMap BeamRunP.events ++ r.evIns ++ a2) es :=
      gRun_append D _ _ _ _ _ _ (gRun_append D _ _ _ _ _ _ f2 f4.gIns) gA2
    have gB : GRun D (· ∈ edges) es (b2 ++ r.evTop ++ post.flatMap BeamRunP.events) aelEnd :=
      gRun_append D _ _ _ _ _ _ (gRun_append D _ _ _ _ _ _ gB2 f4.gTop) gPost
    -- heights
    obtain ⟨hdesc, _⟩ := beams_descend D edges valid cx next mins lab ys [] hok
    rw [hruns] at hdesc
    have hbeam : ∀ p1 q p2, pre ++ r :: post = p1 ++ q :: p2 → ∀ op ∈ q.events, D * q.snap.y1 ≤ op.pt.y ∧ op.pt.y ≤ D * q.snap.y0 := by
      intro p1 q p2 hq op hop
      obtain ⟨_, _, _, _, _, _, _, _, _, _, g4, gf, _, _⟩ := hS.beams p1 q p2 (by rw [hruns, hq])
      have hy01 : D * q.snap.y1 ≤ D * q.snap.y0 := Int.mul_le_mul_of_nonneg_left (Int.le_of_lt gf.hy) (Int.le_of_lt hDp)
      simp only [BeamRunP.events, List.mem_append] at hop
      rcases hop with (ho | ho) | ho
      · rw [g4.hIns op ho]; exact ⟨hy01, Int.le_refl _⟩
      · exact ⟨Int.le_of_lt (g4.heights op ho).1, (g4.heights op ho).2⟩
      · rw [g4.hTop op ho]; exact ⟨Int.le_refl _, hy01⟩
    have hlvl : ∀ y : Int, r.snap.y0 ≤ y → D * yn < (D * y) * yd := by
      intro y hy
      have h1 : yn < y * yd := by
        have := Int.mul_le_mul_of_nonneg_right hy (Int.le_of_lt hd); omega
      have h2 := Int.mul_lt_mul_of_pos_left h1 hDp
      have e : D * (y * yd) = D * y * yd := by grind
      omega
    have hlvl2 : ∀ y : Int, y ≤ r.snap.y1 → (D * y) * yd < D * yn := by
      intro y hy
      have h1 : y * yd < yn := by
        have := Int.mul_le_mul_of_nonneg_right hy (Int.le_of_lt hd); omega
      have h2 := Int.mul_lt_mul_of_pos_left h1 hDp
      have e : D * (y * yd) = D * y * yd := by grind
      omega
    have mulr : ∀ {u v : Int}, u ≤ v → u * yd ≤ v * yd := fun h => Int.mul_le_mul_of_nonneg_right h (Int.le_of_lt hd)
    have hAlow : ∀ op ∈ pre.flatMap BeamRunP.events ++ r.evIns ++ a2, D * yn < op.pt.y * yd := by
      intro op hop
      simp only [List.mem_append] at hop
      rcases hop with (hop | hop) | hop
      · obtain ⟨p1, q, p2, hl, hq⟩ := mem_flatMap_events hop
        have hqr : r.snap.y0 ≤ q.snap.y1 := by
          rw [hl] at hdesc
          have := List.pairwise_append.1 hdesc
          have h3 := this.2.2 q (by simp) r (by simp)
          exact h3
        have h4 := (hbeam p1 q (p2 ++ r :: post) (by rw [hl]; simp) op hq).1
        have h5 := hlvl q.snap.y1 hqr
        have := mulr h4
        omega
      · rw [f4.hIns op hop]; exact hlvl _ (Int.le_refl _)
      · exact hA2 op hop
    have hBhigh : ∀ op ∈ b2 ++ r.evTop ++ post.flatMap BeamRunP.events, op.pt.y * yd < D * yn := by
      intro op hop
      simp only [List.mem_append] at hop
      rcases hop with (hop | hop) | hop
      · exact hB2 op hop
      · rw [f4.hTop op hop]; exact hlvl2 _ (Int.le_refl _)
      · obtain ⟨p1, q, p2, hl, hq⟩ := mem_flatMap_events hop
        have hqr : q.snap.y0 ≤ r.snap.y1 := by
          rw [hl] at hdesc
          have := List.pairwise_append.1 hdesc
          have h3 := (List.pairwise_cons.1 this.2.1).1 q (by simp)
          exact h3
        have h4 := (hbeam (pre ++ r :: p1) q p2 (by rw [hl]; simp) op hq).2
        have h5 := hlvl2 q.snap.y0 hqr
        have := mulr h4
        omega
    -- phase 1 (the part that does not depend on the probe)
    have hplainA : ∀ op ∈ pre.flatMap BeamRunP.events ++ r.evIns ++ a2, PlainOp op :=
      fun op hop => hS.plainOps op (by show op ∈ sweepEventsP D valid cx next mins lab ys; rw [hAB]; exact List.mem_append_left _ hop)
    have hlvA : ∀ op ∈ pre.flatMap BeamRunP.events ++ r.evIns ++ a2, levelOf D yn yd ≤ op.pt.y :=
      fun op hop => (level_iff D yn yd hd _).2 (hAlow op hop)
    have hE0 : EndsAbove (levelOf D yn yd) RState.empty.o := fun g hg => by simp [RState.empty, Out.empty] at hg
    have hP0 : Plain RState.empty.s.ael := fun x hx => by simp [RState.empty, SState.empty] at hx
    have hEA : EndsAbove (levelOf D yn yd) ra.o := endsAbove_run cfg _ _ RState.empty ra hrunA hE0 hlvA
    obtain ⟨hreA, hPA, hGA, hSA⟩ := geo_run cfg hct D hDp (· ∈ edges) _ [] es RState.empty ra gA hrunA ⟨[], rfl⟩ hP0
      (by simp [RState.empty, SState.empty, GeoAll]) (fun sg hsg => by simp [RState.empty, Out.empty] at hsg)
    have hlvB : ∀ op ∈ b2 ++ r.evTop ++ post.flatMap BeamRunP.events, ¬ levelOf D yn yd ≤ op.pt.y := by
      intro op hop hl
      have := (level_iff D yn yd hd _).1 hl
      have := hBhigh op hop
      omega
    -- the labelling at the split
    have hisA : ∀ op ∈ a2, ∃ i pt, op = ROp.base (.intersect i) pt := by
      intro op hop
      have : op ∈ isectEventsP D r.snap.afterIsect r.snap.inserted := by rw [hsplit]; exact List.mem_append_left _ hop
      simp only [isectEventsP, List.mem_map] at this
      obtain ⟨c, _, rfl⟩ := this
      exact ⟨_, _, rfl⟩
    have htrA : Tracks lab (erase ra.s.ael) es := tracks_isects cfg hct lab a2 _ es rI ra hisA gA2 hra f4.plI.2 f4.trIns
    obtain ⟨hOA, hRA, hSIA⟩ := reach_facts hct hreA
    obtain ⟨halive, hvt⟩ := beam_alive hf hd hlo hhi
    have hends : ∀ x ∈ ra.s.ael, ∀ k, x.orec = some k → ∃ e, endOf ra.o k = some e ∧ levelOf D yn yd ≤ e.y := by
      intro x hx k hk
      obtain ⟨e, he⟩ := endAt_some_of_live (hOA.hot x hx k hk) k.front
      have he' : endOf ra.o k = some e := he
      obtain ⟨g, hgm, hg, hep⟩ := endOf_endPt he'
      obtain ⟨g', hg', hl, _⟩ := hOA.hot x hx k hk
      rw [hg] at hg'; cases hg'
      exact ⟨e, he', hEA g hgm hl e (by cases hf' : k.front <;> rw [hf'] at hep <;> simp [hep])⟩
    have hlenA : ra.s.ael.length = es.length := geoAll_length _ _ hGA
    have hEr := erased_run cfg hct _ ra hrunA
    have hhotA : ∀ x ∈ ra.s.ael, x.e.isOpen = false ∧ x.e.hot = x.orec.isSome := by
      intro x hx
      have hc : x.e.isOpen = false := (hPA x hx).2
      refine ⟨hc, ?_⟩
      have hall := hSIA.side.1
      have := List.all_eq_true.1 hall x hx
      simp only [localOK, hc, Bool.false_eq_true, if_false, Bool.and_eq_true, beq_iff_eq] at this
      rw [this.1, (hPA x hx).1]; simp
    have hupes : ∀ e ∈ es, e.Up := fun e he => hup e (hf.mem e (hperm.mem_iff.1 he)).1
    have heven := Clipper.Props.C01.hot_even cfg hct _ _ hEr
    have hinv : Inv cfg (erase ra.s.ael) := Clipper.Props.C01.inv_reachable cfg hct _ _ hEr
    have hndI : r.snap.inserted.Nodup := nodup_of_pairwise_irrefl (ltAbove_irrefl r.snap.y0) hf.sorted
    refine ⟨rEnd, ra, _, _, es, aelEnd, hAB, hrunA, hrunB, e1, hAlow, hBhigh, gA, gB, hperm, hsorted, hGA, htrA, hEA, hhotA,
      hSIA.side.2.2, ?_⟩
    intro xn hoff
    -- the probe
    have hp := probe_crQ D xn yn yd hDp hd edges hup
    have hphiA : phi (crQ D xn yn yd) ra.o = 0 := by
      rw [phi_below_run hp cfg hct _ RState.empty ra hplainA hrunA ⟨[], rfl⟩ hP0 hE0 hlvA]
      simp [phi, RState.empty, Out.empty]
    have hacct := acct_run hDp hp cfg hct _ es aelEnd ra rEnd gB hrunB hreA hPA hGA hSA hlvB
    have hKes : ∀ ge ∈ es, edgeK D xn yn yd ge = if leftOfPt ge xn yn yd then 0 else -1 := by
      intro ge hge
      have hgi := hperm.mem_iff.1 hge
      exact edgeK_eq D xn yn yd hDp hd ge ((halive ge).1 hgi).2 (hoff ge hgi)
    have hpend := pend_eq_rsum xn yn yd (levelOf D yn yd) (edgeK D xn yn yd) ra.o ra.s.ael es hends hKes
    have hrs := rsum_alt xn yn yd ra.s.ael es true hlenA hhotA hSIA.side.2.2 (closed_of_sorted hd es hupes hsorted)
    have hreg := region_on_scanline cfg lab edges hnd hup (erase ra.s.ael) es xn yn yd hd hinv htrA (hperm.symm.nodup hndI)
      (fun e => by rw [hperm.mem_iff]; exact halive e) hsorted
    have hrsum : rsum xn yn yd ra.s.ael es =
        -(if inR cfg.ct cfg.fr (labSum lab .subject (leftEdges edges xn yn yd)) (labSum lab .clip (leftEdges edges xn yn yd)) then 1 else 0) := by
      rw [hrs, hreg]
      unfold insideHot
      rw [← hotLeftCount_eq]
      have hpe : par (hotCount (erase ra.s.ael)) = false := by unfold par; simp; omega
      rw [hpe]
      unfold par
      by_cases hodd : hotLeftCount xn yn yd (erase ra.s.ael) es % 2 = 1 <;> simp [hodd, altS]
    refine ⟨hphiA, hpend, hrsum, ?_⟩
    rw [hacct, hphiA, hpend, hrsum]; omega

end Clipper.Lemmas.C01Crown
