/-
Well-formed heaps of the horizontal-join pass: the rings, plus the records that own them (`RecsOK`); `DuplicateOp` and
`ConvertHorzSegsToJoins` keep a heap well formed; `UpdateHorzSegment` terminates on every well-formed heap.
Helper file of `Props/C02Horz.lean`.  Core Lean only.
-/
import ClipperVerif.Lemmas.HorzJoinsConvert
import ClipperVerif.Lemmas.HorzJoinsOwner
namespace Clipper.Model.HorzJoins
open Clipper

/-- `next`/`prev` are inverse to each other on the valid indices (the local form of "the heap falls into rings") -/
structure Linked (H : Heap) : Prop where
  next_prev : ∀ i n, H.ops[i]? = some n → prevOf H n.next = some i
  prev_next : ∀ i n, H.ops[i]? = some n → nextOf H n.prev = some i

theorem Rings.linked {H : Heap} {rs : List (List Nat)} (R : Rings H rs) : Linked H := by
  constructor
  · intro i n hn
    obtain ⟨c, hc, hic⟩ := R.exists_ring (lt_of_node hn)
    obtain ⟨b, _, hl⟩ := (R.ring c hc).next_mem hic
    obtain ⟨n', hn', e⟩ := nextOf_some.1 hl.1
    rw [hn] at hn'; cases hn'
    rw [e]; exact hl.2
  · intro i n hn
    obtain ⟨c, hc, hic⟩ := R.exists_ring (lt_of_node hn)
    obtain ⟨b, _, hl⟩ := (R.ring c hc).prev_mem hic
    obtain ⟨n', hn', e⟩ := prevOf_some.1 hl.2
    rw [hn] at hn'; cases hn'
    rw [e]; exact hl.1

/-- every ring is owned by one live record: the ring's `OutPt`s all resolve (`GetRealOutRec(op->outrec)`) to a record whose
`pts` is on that ring; and the `pts` of every record that has them resolves to the record itself -/
structure RecsOK (H : Heap) (rs : List (List Nat)) : Prop where
  ring_rec : ∀ c ∈ rs, ∃ r p, (H.recs[r]?).bind (·.pts) = some p ∧ p ∈ c ∧
    ∀ i ∈ c, ∀ o, orecOf H i = some o → realOf H o = .ok (some r)
  rec_ring : ∀ r rc p, H.recs[r]? = some rc → rc.pts = some p → ∃ o, orecOf H p = some o ∧ realOf H o = .ok (some r)

/-- **well-formed heap** -/
def WF (H : Heap) : Prop := ∃ rs, Rings H rs ∧ RecsOK H rs

theorem realOf_congr {H H' : Heap} (h : H'.recs = H.recs) (o : Nat) : realOf H' o = realOf H o := by
  have : ∀ f x, getRealOutRec H' f x = getRealOutRec H f x := by
    intro f
    induction f with
    | zero => intro x; rfl
    | succ f ih =>
      intro x
      cases x with
      | none => rfl
      | some i => simp only [getRealOutRec, Heap.orec, h, ih]
  unfold realOf; rw [h, this]

/-- `RecsOK` only depends on the rings as sets, on the `outrec` fields and on the record table -/
theorem RecsOK.transfer {H H' : Heap} {rs rs' : List (List Nat)} (K : RecsOK H rs) (hr : H'.recs = H.recs)
    (ho : ∀ i, i < H.ops.size → orecOf H' i = orecOf H i)
    (hlt : ∀ c ∈ rs, ∀ i ∈ c, i < H.ops.size)
    (hrs : ∀ c' ∈ rs', ∃ c ∈ rs, (∀ i ∈ c, i ∈ c') ∧ ∀ i ∈ c', i ∈ c ∨ ∃ a ∈ c, orecOf H' i = orecOf H a) :
    RecsOK H' rs' := by
  constructor
  · intro c' hc'
    obtain ⟨c, hc, hsub, hsup⟩ := hrs c' hc'
    obtain ⟨r, p, hp, hpc, hall⟩ := K.ring_rec c hc
    refine ⟨r, p, by rw [hr]; exact hp, hsub p hpc, ?_⟩
    intro i hi o hio
    rw [realOf_congr hr]
    rcases hsup i hi with h | ⟨a, ha, e⟩
    · rw [ho i (hlt c hc i h)] at hio; exact hall i h o hio
    · rw [e] at hio; exact hall a ha o hio
  · intro r rc p hrc hp
    rw [hr] at hrc
    obtain ⟨o, ho', hre⟩ := K.rec_ring r rc p hrc hp
    have hplt : p < H.ops.size := by
      obtain ⟨n, hn, _⟩ := orecOf_some.1 ho'; exact lt_of_node hn
    exact ⟨o, by rw [ho p hplt]; exact ho', by rw [realOf_congr hr]; exact hre⟩

/-- **`DuplicateOp` keeps a heap well formed** -/
theorem duplicateOp_wf {H : Heap} (W : WF H) {op : Nat} (hop : op < H.ops.size) (after : Bool) :
    ∃ H', duplicateOp H op after = .ok (H', H.ops.size) ∧ WF H' := by
  obtain ⟨rs, R, K⟩ := W
  obtain ⟨c, hc, hopc⟩ := R.exists_ring hop
  obtain ⟨A, B, rfl⟩ := List.append_of_mem hc
  obtain ⟨pre, post, rfl⟩ := List.append_of_mem hopc
  have hor : ∀ n, H.ops[op]? = some n → orecOf H op = some n.orec := fun n hn => orecOf_some.2 ⟨n, hn, rfl⟩
  have key : ∀ (H' : Heap) (n : Node) (c' : List Nat), H.ops[op]? = some n →
      Rings H' (A ++ c' :: B) → orecOf H' = upd (orecOf H) H.ops.size n.orec → H'.recs = H.recs →
      (∀ i, i ∈ c' ↔ i = H.ops.size ∨ i ∈ pre ++ op :: post) → WF H' := by
    intro H' n c' hn R' eo er hmem
    refine ⟨_, R', K.transfer er ?_ (fun c hc i hi => R.mem_lt hc hi) ?_⟩
    · intro i hi; rw [eo, upd_ne _ _ (Nat.ne_of_lt hi)]
    · intro d hd
      rcases mem_mid.1 hd with rfl | hd
      · refine ⟨pre ++ op :: post, by simp, fun i hi => (hmem i).2 (Or.inr hi), ?_⟩
        intro i hi
        rcases (hmem i).1 hi with rfl | h
        · right; exact ⟨op, by simp, by rw [eo, upd_same, hor n hn]⟩
        · left; exact h
      · exact ⟨d, mem_mid.2 (Or.inr hd), fun i hi => hi, fun i hi => Or.inl hi⟩
  cases after with
  | true =>
    obtain ⟨H', n, hn, hd, R', _, eo, er, _, _, _⟩ := duplicateOp_after_rings R
    exact ⟨H', hd, key H' n _ hn R' eo er (by intro i; simp only [List.mem_append, List.mem_cons]; grind)⟩
  | false =>
    obtain ⟨H', n, hn, hd, R', _, eo, er, _, _, _, _⟩ := duplicateOp_before_rings R
    exact ⟨H', hd, key H' n _ hn R' eo er (by intro i; simp only [List.mem_append, List.mem_cons]; grind)⟩

theorem WF.of_frame {H H' : Heap} (W : WF H) (sl : SameLinks H H') (hr : H'.recs = H.recs) (ho : orecOf H' = orecOf H) : WF H' := by
  obtain ⟨rs, R, K⟩ := W
  refine ⟨rs, R.of_sameLinks sl, K.transfer hr (fun i _ => by rw [ho]) (fun c hc i hi => R.mem_lt hc hi) ?_⟩
  intro c hc
  exact ⟨c, hc, fun i hi => hi, fun i hi => Or.inl hi⟩

/-- well-formedness through the nested loops of `ConvertHorzSegsToJoins` -/
theorem convertPair_wf {s s' : CState} {i k : Nat} {y0 : Int} (W : WF s.H) (hsegs : ∀ hs ∈ s.segs.toList, OnY s.H y0 hs.leftOp)
    (h : convertPair s i k = .ok s') : WF s'.H := by
  have two : ∀ {u v : Nat} {d1 d2 : Heap × Nat}, OnY s.H y0 u → OnY s.H y0 v →
      duplicateOp s.H u true = .ok d1 → duplicateOp d1.1 v false = .ok d2 → WF d2.1 := by
    intro u v d1 d2 hu hv h1 h2
    obtain ⟨H1, e1, W1⟩ := duplicateOp_wf W hu.lt true
    rw [h1] at e1; cases e1
    have hv1 : v < H1.ops.size := by
      obtain ⟨rs, R, _⟩ := W
      obtain ⟨_, _, e, _, _, _, _, _, sz, _⟩ := duplicateOp_keeps R hu.lt true
      rw [h1] at e; cases e
      rw [sz]; have := hv.lt; omega
    obtain ⟨H2, e2, W2⟩ := duplicateOp_wf W1 hv1 false
    simp only at h2
    rw [h2] at e2; cases e2
    exact W2
  unfold convertPair at h
  cases h1 : s.seg i with
  | error e => simp [h1] at h
  | ok hs1 =>
    cases h2 : s.seg k with
    | error e => simp [h1, h2] at h
    | ok hs2 =>
      simp only [h1, h2] at h
      cases hp : pairOverlaps s.H hs1 hs2 with
      | error e => simp [hp] at h
      | ok ov =>
        simp only [hp] at h
        cases ov with
        | false => simp only [Except.ok.injEq] at h; subst h; exact W
        | true =>
          simp only at h
          have o1 := hsegs hs1 (seg_mem h1)
          have o2 := hsegs hs2 (seg_mem h2)
          split at h
          · unfold joinLtr at h
            simp only [bind_ok] at h
            obtain ⟨l1, hl1, l2, hl2, a, ha, na, hna, b, hb, d1, hd1, d2, hd2, h⟩ := h
            simp only [pure, Except.pure, Except.ok.injEq] at h; subst h
            have hy : l1.pt.y = y0 := node_onY o1 hl1
            rw [hy] at ha hb
            exact two (slide_onY o1 ha) (slide_onY o2 hb) hd1 hd2
          · unfold joinRtl at h
            simp only [bind_ok] at h
            obtain ⟨l1, hl1, l2, hl2, a, ha, na, hna, b, hb, d1, hd1, d2, hd2, h⟩ := h
            simp only [pure, Except.pure, Except.ok.injEq] at h; subst h
            have hy : l1.pt.y = y0 := node_onY o1 hl1
            rw [hy] at ha hb
            exact two (slide_onY o2 hb) (slide_onY o1 ha) hd1 hd2

theorem convertInner_wf {H0 : Heap} {y0 : Int} {nr : Nat} {joins0 : List HorzJoin} {i : Nat} :
    ∀ (ks : List Nat) (s s' : CState), CInv H0 y0 nr joins0 s → WF s.H → convertInner s i ks = .ok s' → WF s'.H
  | [], s, s', _, W, h => by simp only [convertInner, Except.ok.injEq] at h; subst h; exact W
  | k :: ks, s, s', I, W, h => by
    unfold convertInner at h
    cases h1 : convertPair s i k with
    | error e => simp [h1] at h
    | ok s1 =>
      simp only [h1] at h
      exact convertInner_wf ks s1 s' (convertPair_cinv I h1) (convertPair_wf W I.segs h1) h

theorem convertOuter_wf {H0 : Heap} {y0 : Int} {nr : Nat} {joins0 : List HorzJoin} {j : Nat} :
    ∀ (is : List Nat) (s s' : CState), CInv H0 y0 nr joins0 s → WF s.H → convertOuter j s is = .ok s' → WF s'.H
  | [], s, s', _, W, h => by simp only [convertOuter, Except.ok.injEq] at h; subst h; exact W
  | i :: is, s, s', I, W, h => by
    unfold convertOuter at h
    cases h1 : convertInner s i ((List.range j).drop (i + 1)) with
    | error e => simp [h1] at h
    | ok s1 =>
      simp only [h1] at h
      exact convertOuter_wf is s1 s' (convertInner_cinv _ _ _ I h1) (convertInner_wf _ _ _ I W h1) h

/-- **`ConvertHorzSegsToJoins` keeps a heap well formed** (trial `OutPt`s on one line) -/
theorem convertHorzSegsToJoins_wf {H H' : Heap} {segs segs' : List HorzSeg} {joins joins' : List HorzJoin} {y0 : Int}
    (W : WF H) (hline : ∀ hs ∈ segs, OnY H y0 hs.leftOp)
    (h : convertHorzSegsToJoins H segs joins = .ok (H', segs', joins')) : WF H' := by
  obtain ⟨rs, R, K⟩ := W
  unfold convertHorzSegsToJoins at h
  cases hu : updateAll H segs with
  | error e => simp [hu] at h
  | ok r =>
    obtain ⟨H1, segs1, j⟩ := r
    simp only [hu] at h
    obtain ⟨sl, rc, oc, l1, _⟩ := updateAll_frame segs H H1 segs1 j hline hu
    have W1 : WF H1 := WF.of_frame ⟨rs, R, K⟩ sl rc oc
    have R1 : Rings H1 rs := R.of_sameLinks sl
    have base : ∀ sg : List HorzSeg, (∀ x ∈ sg, OnY H1 y0 x.leftOp) → CInv H y0 rs.length joins { H := H1, segs := sg.toArray, joins := joins } := by
      intro sg hsg
      refine ⟨⟨rs, R1, rfl⟩, rc, ?_, ⟨0, by simp [sl.2.2.2], by simp⟩, ?_, ?_, fun r0 => r0.of_sameLinks sl⟩
      · intro i _; rw [sl.2.2.1, oc]; exact ⟨rfl, rfl⟩
      · intro i h0 hi; rw [sl.2.2.2] at hi; omega
      · intro hs hhs; exact hsg hs (by simpa using hhs)
    split at h
    · simp only [Except.ok.injEq, Prod.mk.injEq] at h
      obtain ⟨rfl, _, _⟩ := h; exact W1
    · cases hs : sortSegs H1 segs1 with
      | error e => simp [hs] at h
      | ok sorted =>
        simp only [hs] at h
        cases ho : convertOuter j { H := H1, segs := sorted.toArray, joins := joins } (List.range (j - 1)) with
        | error e => simp [ho] at h
        | ok s =>
          simp only [ho, Except.ok.injEq, Prod.mk.injEq] at h
          obtain ⟨rfl, _, _⟩ := h
          exact convertOuter_wf _ _ _ (base sorted (fun x hx => l1 x ((sortSegs_perm hs).mem_iff.1 hx))) W1 ho

theorem markSegment_total {H : Heap} {hs : HorzSeg} (ok : Bool) (h : hs.leftOp < H.ops.size) : ∃ res, markSegment H hs ok = .ok res := by
  obtain ⟨nL, hnL⟩ := node_of_lt h
  unfold markSegment
  rw [node_ok.2 hnL]
  simp only
  split
  · obtain ⟨H1, h1⟩ := updNode_of_lt H (fun x => { x with horz := true }) h
    rw [h1]; exact ⟨_, rfl⟩
  · exact ⟨_, rfl⟩

/-- **`UpdateHorzSegment` terminates without a fault on every well-formed heap**, for every valid trial `OutPt` — whether or not
the record still has edges, and also when the ring lies entirely on the horizontal line.  What it returns is described by
`runEnds_none_spec` / `runEnds_some_spec` (the run ends) and `setHeading` / `markSegment`. -/
theorem updateHorzSegment_terminates {H : Heap} (W : WF H) {hs : HorzSeg} (hop : hs.leftOp < H.ops.size) :
    ∃ res, updateHorzSegment H hs = .ok res := by
  obtain ⟨rs, R, K⟩ := W
  obtain ⟨n, hn⟩ := node_of_lt hop
  obtain ⟨c, hc, hopc⟩ := R.exists_ring hop
  obtain ⟨r, p, hp, hpc, hall⟩ := K.ring_rec c hc
  have hreal := hall _ hopc n.orec (orecOf_some.2 ⟨n, hn, rfl⟩)
  obtain ⟨rc, hrc, hpts⟩ : ∃ rc, H.recs[r]? = some rc ∧ rc.pts = some p := by
    cases h : H.recs[r]? with
    | none => simp [h] at hp
    | some rc => simp [h] at hp; exact ⟨rc, rfl, hp⟩
  have hring := R.ring c hc
  have hlt : ∀ v ∈ c, v < H.ops.size := fun v hv => R.mem_lt hc hv
  have h0 : OnY H n.pt.y hs.leftOp := ⟨n.pt, ptOf_some.2 ⟨n, hn, rfl⟩, rfl⟩
  -- the two walks terminate
  obtain ⟨ends, hends, opP, opN, hrun⟩ : ∃ ends, segEnds H rc = .ok ends ∧ ∃ opP opN, runEnds H hs.leftOp n.pt.y ends = .ok (opP, opN) := by
    unfold segEnds
    by_cases he : rc.hasEdges = true
    · obtain ⟨np, hnp⟩ := node_of_lt (hlt p hpc)
      simp only [he, if_true, hpts, node_ok.2 hnp]
      refine ⟨_, rfl, ?_⟩
      -- the ring read from opZ = p->next, ending in p
      obtain ⟨pre, post, rfl, hrot⟩ := hring.rotate_to hpc
      have hL : IsRingF (nextOf H) (prevOf H) ((post ++ pre) ++ [p]) := by
        have := isRingF_rot [p] (post ++ pre) (by simpa using hrot); exact this
      have hopL : hs.leftOp ∈ (post ++ pre) ++ [p] := by
        have : hs.leftOp ∈ pre ∨ hs.leftOp = p ∨ hs.leftOp ∈ post := by simpa using hopc
        grind
      obtain ⟨X, Y, hXY⟩ := List.append_of_mem hopL
      have hZ : (X ++ [hs.leftOp]).head? = some np.next := by
        have hh : ((post ++ pre) ++ [p]).head? = some np.next := by
          obtain ⟨s, hs'⟩ : ∃ s, ((post ++ pre) ++ [p]).head? = some s := by
            cases h : (post ++ pre) ++ [p] with
            | nil => simp at h
            | cons a t => exact ⟨a, rfl⟩
          have hl : LinkF (nextOf H) (prevOf H) p s := by
            have hr' : IsRingF (nextOf H) (prevOf H) (p :: (post ++ pre)) := by simpa using hrot
            have := hr'.2
            rw [List.cons_append, chainF_cons_head hs'] at this; exact this.1
          obtain ⟨n', hn', e⟩ := nextOf_some.1 hl.1
          rw [hnp] at hn'; cases hn'; rw [e]; exact hs'
        rw [hXY] at hh
        cases X with
        | nil => simpa using hh
        | cons a t => simpa using hh
      have hA : (hs.leftOp :: Y).getLast? = some p := by
        have : ((post ++ pre) ++ [p]).getLast? = some p := List.getLast?_eq_some_iff.2 ⟨_, rfl⟩
        rw [hXY, List.getLast?_append] at this
        simpa using this
      rw [hXY] at hL
      have hlt' : ∀ v ∈ X ++ hs.leftOp :: Y, v < H.ops.size := by
        intro v hv
        rw [← hXY] at hv
        apply hlt
        have : v ∈ post ∨ v ∈ pre ∨ v = p := by simpa [or_assoc] using hv
        simp only [List.mem_append, List.mem_cons]; grind
      exact ⟨_, _, runEnds_some_spec n.pt.y hL hlt' hZ hA⟩
    · simp only [he]
      refine ⟨_, rfl, ?_⟩
      obtain ⟨pre, post, rfl, hrot⟩ := hring.rotate_to hopc
      have hrot' : IsRingF (nextOf H) (prevOf H) (hs.leftOp :: (post ++ pre)) := by simpa using hrot
      have hlt' : ∀ v ∈ hs.leftOp :: (post ++ pre), v < H.ops.size := by
        intro v hv; apply hlt
        have : v = hs.leftOp ∨ v ∈ post ∨ v ∈ pre := by simpa using hv
        simp only [List.mem_append, List.mem_cons]; grind
      exact ⟨_, _, runEnds_none_spec n.pt.y hrot' hlt'⟩
  obtain ⟨oP, oN⟩ := runEnds_onY h0 hrun
  obtain ⟨nP, hnP⟩ := node_of_lt oP.lt
  obtain ⟨nN, hnN⟩ := node_of_lt oN.lt
  have hm : (setHeading hs opP opN nP.pt.x nN.pt.x).1.leftOp < H.ops.size := by
    unfold setHeading
    split
    · exact hop
    · split
      · exact oP.lt
      · exact oN.lt
  obtain ⟨res, hres⟩ := markSegment_total (setHeading hs opP opN nP.pt.x nN.pt.x).2 hm
  refine ⟨res, ?_⟩
  unfold updateHorzSegment
  simp only [bind, Except.bind, node_ok.2 hn, hreal, orec_ok.2 hrc, hends, hrun, node_ok.2 hnP, node_ok.2 hnN, hres]

end Clipper.Model.HorzJoins
