/-
Helper lemmas for `Props/C01Output.lean`, part 4: what one event of the ring model does to the END POINTS of the rings under
construction, edge by edge (`Carry`: afterwards the end point of the ring end an edge holds is the event's point or the point it was before),
and which segments it logs (`NewSegs`: from the end point of a ring end held by one of the edges the event touches, to the event's point).
Events of sweeps without joins, open paths and horizontal edges (`Plain`).  Core Lean only.
-/
import ClipperVerif.Lemmas.C01OutputEnds
import ClipperVerif.Props.C01Rings
namespace Clipper.Lemmas.C01Output
open Clipper Clipper.Model

/-- no edge is joined, none belongs to an open path -/
def Plain (l : List Model.SEdge) : Prop := ∀ x ∈ l, x.join = .none ∧ x.e.isOpen = false

/-- afterwards the end point of the ring end `x'` holds is the event's point, or the end point of the ring end `x` held before -/
def Carry (pt : Pt) (o o' : Out) (x x' : Model.SEdge) : Prop :=
  ∀ k' p, x'.orec = some k' → endOf o' k' = some p → p = pt ∨ ∃ k, x.orec = some k ∧ endOf o k = some p

/-- … for an edge the event does not touch: the end point it had -/
def CarryS (o o' : Out) (x x' : Model.SEdge) : Prop :=
  ∀ k' p, x'.orec = some k' → endOf o' k' = some p → ∃ k, x.orec = some k ∧ endOf o k = some p

/-- every segment logged by the event runs from the end point of a ring end held by one of the edges `l` to the event's point, and is an
`extend` (`AddOutPt`) or a `meet` (`AddLocalMaxPoly`) segment -/
def NewSegs (pt : Pt) (l : List Model.SEdge) (o o' : Out) : Prop :=
  ∀ sg ∈ o'.segs, sg ∈ o.segs ∨
    (sg.q = pt ∧ (sg.kind = .extend ∨ sg.kind = .meet) ∧ ∃ x ∈ l, ∃ k, x.orec = some k ∧ some sg.p = endOf o k)

theorem carry_of_carryS {pt : Pt} {o o' : Out} {x x' : Model.SEdge} (h : CarryS o o' x x') : Carry pt o o' x x' :=
  fun k' p h1 h2 => Or.inr (h k' p h1 h2)

theorem rec_ne_iff (k r : Rec) : k ≠ r ↔ (k.id ≠ r.id ∨ k.front ≠ r.front) := by
  constructor
  · intro h
    by_cases e : k.id = r.id
    · right; intro e2; exact h (rec_eq k r e e2)
    · left; exact e
  · rintro (h | h) e <;> subst e <;> exact h rfl

/-! ## `AddOutPt … SwapOutrecs` -/

theorem endOf_addOn_self (k : Rec) (pt : Pt) (o : Out) (h : LiveAt o.rings k.id) : endOf (addOn (some k) pt o) k = some pt :=
  endAt_addOutPt_self k.id k.front pt o h

theorem endOf_addOn_other (r : Option Rec) (pt : Pt) (o : Out) (k : Rec) (hne : r ≠ some k) (hl : LiveAt o.rings k.id) :
    endOf (addOn r pt o) k = endOf o k := by
  cases r with
  | none => rfl
  | some x =>
    have : k ≠ x := fun e => hne (by rw [e])
    exact endAt_addOutPt_other x.id x.front pt o k.id k.front ((rec_ne_iff k x).1 this) hl

theorem endOf_handOn (r : Option Rec) (o : Out) (k : Rec) : endOf (handOn r o) k = endOf o k := by
  cases r with
  | none => rfl
  | some x => exact endAt_handOver x.id x.front o k.id k.front

theorem liveAt_addOn (r : Option Rec) (pt : Pt) (o : Out) (id : Nat) (h : LiveAt o.rings id) : LiveAt (addOn r pt o).rings id := by
  cases r with
  | none => exact h
  | some x => exact liveAt_addOutPt _ _ _ _ _ h

theorem segs_handOn (r : Option Rec) (o : Out) : (handOn r o).segs = o.segs := by
  cases r with
  | none => rfl
  | some x => exact segs_handOver _ _ _

theorem segs_addOn (r : Option Rec) (pt : Pt) (o : Out) :
    ∀ sg ∈ (addOn r pt o).segs, sg ∈ o.segs ∨ (∃ k, r = some k ∧ some sg.p = endOf o k ∧ sg.q = pt ∧ sg.kind = .extend) := by
  intro sg hsg
  cases r with
  | none => exact Or.inl hsg
  | some x =>
    rcases segs_addOutPt x.id x.front pt o sg hsg with h | h
    · exact Or.inl h
    · exact Or.inr ⟨x, rfl, h⟩

/-- `swapOut`: both ring ends (if any) end in `pt`; every other live ring end keeps its point; the new segments are `extend` segments from the two old end points -/
theorem swapOut_ends (r1 r2 : Option Rec) (pt : Pt) (o : Out) (hne : ∀ k, r1 = some k → r2 ≠ some k)
    (h1 : ∀ k, r1 = some k → LiveAt o.rings k.id) (h2 : ∀ k, r2 = some k → LiveAt o.rings k.id) :
    (∀ k, (r1 = some k ∨ r2 = some k) → endOf (swapOut r1 r2 pt o) k = some pt) ∧
    (∀ k, r1 ≠ some k → r2 ≠ some k → LiveAt o.rings k.id → endOf (swapOut r1 r2 pt o) k = endOf o k) ∧
    (∀ sg ∈ (swapOut r1 r2 pt o).segs, sg ∈ o.segs ∨
      (∃ k, (r1 = some k ∨ r2 = some k) ∧ some sg.p = endOf o k ∧ sg.q = pt ∧ sg.kind = .extend)) := by
  unfold swapOut
  refine ⟨?_, ?_, ?_⟩
  · intro k hk
    rw [endOf_handOn, endOf_handOn]
    rcases hk with hk | hk
    · subst hk
      rw [endOf_addOn_other r2 pt _ k (hne k rfl) (liveAt_addOn _ _ _ _ (h1 k rfl))]
      exact endOf_addOn_self k pt o (h1 k rfl)
    · subst hk
      exact endOf_addOn_self k pt _ (liveAt_addOn _ _ _ _ (h2 k rfl))
  · intro k n1 n2 hl
    rw [endOf_handOn, endOf_handOn, endOf_addOn_other r2 pt _ k n2 (liveAt_addOn _ _ _ _ hl), endOf_addOn_other r1 pt o k n1 hl]
  · intro sg hsg
    rw [segs_handOn, segs_handOn] at hsg
    rcases segs_addOn r2 pt _ sg hsg with h | ⟨k, hk, hp, hq, hkd⟩
    · rcases segs_addOn r1 pt o sg h with h | ⟨k, hk, hp, hq, hkd⟩
      · exact Or.inl h
      · exact Or.inr ⟨k, Or.inl hk, hp, hq, hkd⟩
    · right
      refine ⟨k, Or.inr hk, ?_, hq, hkd⟩
      rw [hp]
      have hn : r1 ≠ some k := fun e => hne k e hk
      exact endOf_addOn_other r1 pt o k hn (h2 k hk)

/-! ## `AddLocalMaxPoly` -/

theorem bool_other {a b c : Bool} (hab : a ≠ b) (hca : c ≠ a) : c = b := by
  revert hab hca; cases a <;> cases b <;> cases c <;> simp

/-- the rings after `AddOutPt(e1, pt)` and the ghost log entry, before the ring is closed or joined -/
theorem localMax_pre (kind : SegKind) (ra rb : Rec) (pt : Pt) (o : Out) (hA : LiveAt o.rings ra.id) :
    let o1 := logSeg kind rb.id rb.front ra.id ra.front (addOutPt ra.id ra.front pt o)
    (∀ id f, (id ≠ ra.id ∨ f ≠ ra.front) → LiveAt o.rings id → endAt o1 id f = endAt o id f) ∧
    (∀ id, LiveAt o.rings id → LiveAt o1.rings id) ∧ endAt o1 ra.id ra.front = some pt := by
  intro o1
  refine ⟨?_, ?_, ?_⟩
  · intro id f hne hl
    show endAt (logSeg _ _ _ _ _ _) id f = _
    rw [endAt_logSeg]; exact endAt_addOutPt_other _ _ _ _ _ _ hne hl
  · intro id hl
    show LiveAt (logSeg _ _ _ _ _ _).rings id
    rw [logSeg_rings]; exact liveAt_addOutPt _ _ _ _ _ hl
  · show endAt (logSeg _ _ _ _ _ _) _ _ = _
    rw [endAt_logSeg]; exact endAt_addOutPt_self _ _ _ _ hA

/-- **a third edge through `AddLocalMaxPoly(e1, e2, pt)`**: `e1` holds the ring end `ra`, `e2` the ring end `rb`; a third edge `x` holds
the end `k`.  Afterwards (possibly renamed by `JoinOutrecPaths`) it holds a ring end with the SAME end point. -/
theorem localMaxOut_third (kind : SegKind) (ra rb : Rec) (pt : Pt) (o : Out) (g : Model.SEdge → Model.SEdge)
    (hg : addLocalMaxFn ra rb = .ok g) (hA : LiveAt o.rings ra.id) (hB : LiveAt o.rings rb.id)
    (x : Model.SEdge) (k : Rec) (hx : x.orec = some k) (hka : k ≠ ra) (hkb : k ≠ rb) (hK : LiveAt o.rings k.id) :
    ∃ k', (g x).orec = some k' ∧ endOf (localMaxOut kind ra rb pt o) k' = endOf o k := by
  obtain ⟨L1, LA1, _⟩ := localMax_pre kind ra rb pt o hA
  unfold addLocalMaxFn at hg
  unfold localMaxOut
  simp only
  split at hg
  · cases hg
  · next hf =>
    have hka' := (rec_ne_iff k ra).1 hka
    have hkb' := (rec_ne_iff k rb).1 hkb
    split at hg
    · next e =>
      -- one ring: it is closed
      cases hg
      refine ⟨k, hx, ?_⟩
      have hid : k.id ≠ ra.id := by
        intro h
        rcases hka' with h' | h'
        · exact h' h
        · rcases hkb' with h'' | h''
          · exact h'' (by rw [h, e])
          · exact h'' (bool_other hf h')
      simp only [if_pos e, endOf]
      rw [endAt_finish_other _ _ _ _ _ hid]
      exact L1 _ _ (Or.inl hid) hK
    · next e =>
      split at hg
      · next lt =>
        -- `JoinOutrecPaths(e1, e2)`: `A = ra.id`, `B = rb.id`, `f = ra.front`
        cases hg
        simp only [if_neg e, if_pos lt]
        obtain ⟨J1, J2⟩ := endAt_joinPaths ra.id rb.id ra.front _ e (LA1 _ hA) (LA1 _ hB)
        by_cases hc : k.id = rb.id ∧ k.front = ra.front
        · refine ⟨⟨ra.id, ra.front⟩, by simp [relabelFn, hx, hc], ?_⟩
          simp only [endOf]
          rw [J2, L1 _ _ (Or.inl (fun h => e h.symm)) hB, ← hc.1, ← hc.2]
        · refine ⟨k, by simp [relabelFn, hx, hc], ?_⟩
          simp only [endOf]
          by_cases h1 : k.id = ra.id
          · have hfr : k.front = !ra.front := by
              rcases hka' with h' | h'
              · exact absurd h1 h'
              · revert h'; cases k.front <;> cases ra.front <;> simp
            rw [h1, hfr, J1]
            exact L1 _ _ (Or.inr (by cases ra.front <;> simp)) hA
          · by_cases h2 : k.id = rb.id
            · exfalso
              have hfr : k.front ≠ ra.front := fun h => hc ⟨h2, h⟩
              rcases hkb' with h' | h'
              · exact h' h2
              · exact h' (bool_other hf hfr)
            · rw [endAt_joinPaths_other _ _ _ _ _ _ h1 h2]
              exact L1 _ _ (Or.inl h1) hK
      · next lt =>
        -- `JoinOutrecPaths(e2, e1)`: `A = rb.id`, `B = ra.id`, `f = rb.front`
        cases hg
        simp only [if_neg e, if_neg lt]
        have e' : rb.id ≠ ra.id := fun h => e h.symm
        obtain ⟨J1, J2⟩ := endAt_joinPaths rb.id ra.id rb.front _ e' (LA1 _ hB) (LA1 _ hA)
        by_cases hc : k.id = ra.id ∧ k.front = rb.front
        · refine ⟨⟨rb.id, rb.front⟩, by simp [relabelFn, hx, hc], ?_⟩
          simp only [endOf]
          rw [J2, L1 _ _ (Or.inr (fun h => hf h.symm)) hA, ← hc.1, ← hc.2]
        · refine ⟨k, by simp [relabelFn, hx, hc], ?_⟩
          simp only [endOf]
          by_cases h1 : k.id = rb.id
          · have hfr : k.front = !rb.front := by
              rcases hkb' with h' | h'
              · exact absurd h1 h'
              · revert h'; cases k.front <;> cases rb.front <;> simp
            rw [h1, hfr, J1]
            exact L1 _ _ (Or.inl e') hB
          · by_cases h2 : k.id = ra.id
            · exfalso
              have hfr : k.front ≠ rb.front := fun h => hc ⟨h2, h⟩
              rcases hka' with h' | h'
              · exact h' h2
              · exact h' (bool_other (fun h => hf h.symm) hfr)
            · rw [endAt_joinPaths_other _ _ _ _ _ _ h1 h2]
              exact L1 _ _ (Or.inl h2) hK

/-- a cold third edge stays cold -/
theorem localMax_third_none (ra rb : Rec) (g : Model.SEdge → Model.SEdge) (hg : addLocalMaxFn ra rb = .ok g) (x : Model.SEdge)
    (hx : x.orec = none) : (g x).orec = none := by
  have := (addLocalMaxFn_shape ra rb g hg x).2.2
  rw [hx] at this
  cases h : (g x).orec with
  | none => rfl
  | some r => rw [h] at this; simp at this

/-- the segments `AddLocalMaxPoly` logs: the `extend` segment of `AddOutPt(e1, pt)` and the stretch of `e2` up to the meeting point -/
theorem localMaxOut_segs (kind : SegKind) (ra rb : Rec) (pt : Pt) (o : Out) (hne : rb ≠ ra) (hA : LiveAt o.rings ra.id)
    (hB : LiveAt o.rings rb.id) :
    ∀ sg ∈ (localMaxOut kind ra rb pt o).segs, sg ∈ o.segs ∨
      (sg.q = pt ∧ ((sg.kind = .extend ∧ some sg.p = endOf o ra) ∨ (sg.kind = kind ∧ some sg.p = endOf o rb))) := by
  intro sg hsg
  have hsg1 : sg ∈ (logSeg kind rb.id rb.front ra.id ra.front (addOutPt ra.id ra.front pt o)).segs := by
    unfold localMaxOut at hsg
    simp only at hsg
    split at hsg
    · rwa [segs_finish] at hsg
    · split at hsg
      · rwa [segs_joinPaths] at hsg
      · rwa [segs_joinPaths] at hsg
  rcases segs_logSeg _ _ _ _ _ _ sg hsg1 with h | ⟨hp, hq, hk⟩
  · rcases segs_addOutPt _ _ _ _ sg h with h | ⟨hp, hq, hk⟩
    · exact Or.inl h
    · exact Or.inr ⟨hq, Or.inl ⟨hk, hp⟩⟩
  · right
    rw [endAt_addOutPt_self _ _ _ _ hA] at hq
    rw [endAt_addOutPt_other _ _ _ _ _ _ ((rec_ne_iff rb ra).1 hne) hB] at hp
    exact ⟨by simpa using hq, Or.inr ⟨hk, hp⟩⟩

theorem localMaxOut_len (kind : SegKind) (ra rb : Rec) (pt : Pt) (o : Out) :
    (localMaxOut kind ra rb pt o).rings.length = o.rings.length := by
  unfold localMaxOut
  simp only
  split
  · rw [length_finish, logSeg_rings, length_addOutPt]
  · split <;> rw [length_joinPaths, logSeg_rings, length_addOutPt]

/-! ## the events -/

theorem carryS_refl (o : Out) (x : Model.SEdge) : CarryS o o x x := fun k' p h1 h2 => ⟨k', h1, h2⟩

/-- two different edges of an AEL with unique keys hold different ring ends -/
theorem recs_ab_ne (n : Nat) (pre rest : List Model.SEdge) (a b : Model.SEdge) (h : RecsOK n (pre ++ a :: b :: rest)) (k : Rec)
    (ha : a.orec = some k) : b.orec ≠ some k := by
  intro hb
  have h1 := (h (k.id, k.front)).1
  simp only [cnt_append, cnt, keyOf_of_orec a k ha, keyOf_of_orec b k hb, if_true] at h1
  omega

theorem mem_pre_rest {α} {pre rest : List α} {a b x : α} (hx : x ∈ pre ++ rest) : x ∈ pre ++ a :: b :: rest :=
  mem_window_of _ _ _ _ _ hx

/-- **`IntersectEdges(e1, e2, pt)` + `SwapPositionsInAEL`, closed unjoined edges** (`a = e1` at position `|pre|`, `b = e2` next to it):
afterwards the AEL is `pre' ++ b' :: a' :: rest'`; every other edge holds a ring end with the point it had; `a'`, `b'` hold ring ends whose
point is `pt` or the point they had; the new segments start at the old end points of `a`, `b` and end in `pt`. -/
theorem core_carry (cfg : Cfg) (pre : List Model.SEdge) (a b : Model.SEdge) (rest : List Model.SEdge) (n : Nat) (pt : Pt) (o : Out) (s' : SState)
    (h : OInv n (pre ++ a :: b :: rest) o) (hr : RecsOK n (pre ++ a :: b :: rest))
    (hc : intersectCore cfg pre a b rest n = .ok s') :
    ∃ (g : Model.SEdge → Model.SEdge) (a' b' : Model.SEdge), s'.ael = pre.map g ++ b' :: a' :: rest.map g ∧
      (∀ x, (g x).join = x.join ∧ (g x).e = x.e) ∧
      (a'.join = a.join ∧ a'.e.isOpen = a.e.isOpen) ∧ (b'.join = b.join ∧ b'.e.isOpen = b.e.isOpen) ∧
      (∀ x ∈ pre ++ rest, CarryS o (coreOut cfg a b pt o) x (g x)) ∧
      Carry pt o (coreOut cfg a b pt o) a a' ∧ Carry pt o (coreOut cfg a b pt o) b b' ∧
      NewSegs pt [a, b] o (coreOut cfg a b pt o) := by
  have hal : a ∈ pre ++ a :: b :: rest := List.mem_append_right _ List.mem_cons_self
  have hbl : b ∈ pre ++ a :: b :: rest := List.mem_append_right _ (List.mem_cons_of_mem _ List.mem_cons_self)
  obtain ⟨f1, f2, f3, f4, f5, f6⟩ := intersectPair_fields cfg a.e b.e
  have hthird : ∀ x ∈ pre ++ rest, ∀ k, x.orec = some k → a.orec ≠ some k ∧ b.orec ≠ some k ∧ LiveAt o.rings k.id :=
    fun x hx k hk => ⟨(recs_no_dup n pre rest a b hr x hx k hk).1, (recs_no_dup n pre rest a b hr x hx k hk).2,
      h.hot x (mem_pre_rest hx) k hk⟩
  unfold intersectCore at hc
  unfold coreOut
  simp only at hc ⊢
  cases hact : decideAct cfg (updateWinds cfg.fr a.e b.e).1 (updateWinds cfg.fr a.e b.e).2 a.orec b.orec with
  | nothing =>
    simp only [hact] at hc ⊢
    cases hc
    refine ⟨id, { a with e := (intersectPair cfg a.e b.e).1 }, { b with e := (intersectPair cfg a.e b.e).2 }, by simp,
      fun x => ⟨rfl, rfl⟩, ⟨rfl, f2⟩, ⟨rfl, f5⟩, fun x _ => carryS_refl o x, ?_, ?_, fun sg hsg => Or.inl hsg⟩
    · exact fun k' p h1 h2 => Or.inr ⟨k', h1, h2⟩
    · exact fun k' p h1 h2 => Or.inr ⟨k', h1, h2⟩
  | swap =>
    simp only [hact] at hc ⊢
    cases hc
    rw [swapOutrecs_keys cfg _ _ a.orec b.orec hact]
    obtain ⟨e1, e2, e3⟩ := swapOut_ends a.orec b.orec pt o (fun k hk => recs_ab_ne n pre rest a b hr k hk)
      (fun k hk => h.hot a hal k hk) (fun k hk => h.hot b hbl k hk)
    refine ⟨id, { a with e := (intersectPair cfg a.e b.e).1, orec := b.orec }, { b with e := (intersectPair cfg a.e b.e).2, orec := a.orec },
      by simp, fun x => ⟨rfl, rfl⟩, ⟨rfl, f2⟩, ⟨rfl, f5⟩, ?_, ?_, ?_, ?_⟩
    · intro x hx k' p hk hp
      obtain ⟨n1, n2, hl⟩ := hthird x hx k' hk
      rw [e2 k' n1 n2 hl] at hp
      exact ⟨k', hk, hp⟩
    · intro k' p hk hp
      simp only at hk
      rw [e1 k' (Or.inr hk)] at hp
      exact Or.inl (Option.some.inj hp).symm
    · intro k' p hk hp
      simp only at hk
      rw [e1 k' (Or.inl hk)] at hp
      exact Or.inl (Option.some.inj hp).symm
    · intro sg hsg
      rcases e3 sg hsg with h' | ⟨k, hk, hp, hq, hkd⟩
      · exact Or.inl h'
      · right
        refine ⟨hq, Or.inl hkd, ?_⟩
        rcases hk with hk | hk
        · exact ⟨a, by simp, k, hk, hp⟩
        · exact ⟨b, by simp, k, hk, hp⟩
  | localMin =>
    simp only [hact] at hc ⊢
    cases hc
    obtain ⟨m1, m2⟩ := minRecs_ids pre false n
    refine ⟨id, { a with e := (intersectPair cfg a.e b.e).1, orec := some (minRecs pre false n).1 },
      { b with e := (intersectPair cfg a.e b.e).2, orec := some (minRecs pre false n).2 },
      by simp, fun x => ⟨rfl, rfl⟩, ⟨rfl, f2⟩, ⟨rfl, f5⟩, ?_, ?_, ?_, fun sg hsg => Or.inl hsg⟩
    · intro x hx k' p hk hp
      obtain ⟨_, _, hl⟩ := hthird x hx k' hk
      rw [endOf, endAt_newRec_old pt o _ _ (lt_of_liveAt hl)] at hp
      exact ⟨k', hk, hp⟩
    · intro k' p hk hp
      simp only [Option.some.injEq] at hk
      subst hk
      rw [endOf, m1, ← h.len, endAt_newRec_new] at hp
      exact Or.inl (Option.some.inj hp).symm
    · intro k' p hk hp
      simp only [Option.some.injEq] at hk
      subst hk
      rw [endOf, m2, ← h.len, endAt_newRec_new] at hp
      exact Or.inl (Option.some.inj hp).symm
  | localMax =>
    simp only [hact] at hc ⊢
    cases ha : a.orec with
    | none => simp [ha] at hc
    | some ra =>
      cases hb : b.orec with
      | none => simp [ha, hb] at hc
      | some rb =>
        simp only [ha, hb] at hc ⊢
        cases hg : addLocalMaxFn ra rb with
        | error f => simp [hg] at hc
        | ok g =>
          simp only [hg] at hc
          cases hc
          have hA := h.hot a hal ra ha
          have hB := h.hot b hbl rb hb
          have hne : rb ≠ ra := fun e => recs_ab_ne n pre rest a b hr ra ha (by rw [hb, e])
          refine ⟨g, { a with e := (intersectPair cfg a.e b.e).1, orec := none }, { b with e := (intersectPair cfg a.e b.e).2, orec := none },
            rfl, fun x => ⟨(addLocalMaxFn_shape ra rb g hg x).2.1, (addLocalMaxFn_shape ra rb g hg x).1⟩, ⟨rfl, f2⟩, ⟨rfl, f5⟩, ?_,
            fun k' p hk _ => by simp at hk, fun k' p hk _ => by simp at hk, ?_⟩
          · intro x hx k' p hk hp
            cases hxo : x.orec with
            | none => rw [localMax_third_none ra rb g hg x hxo] at hk; cases hk
            | some k =>
              obtain ⟨n1, n2, hl⟩ := hthird x hx k hxo
              obtain ⟨k2, hk2, he⟩ := localMaxOut_third .meet ra rb pt o g hg hA hB x k hxo
                (fun e => n1 (by rw [ha, e])) (fun e => n2 (by rw [hb, e])) hl
              rw [hk2] at hk; cases hk
              rw [he] at hp
              exact ⟨k, rfl, hp⟩
          · intro sg hsg
            rcases localMaxOut_segs .meet ra rb pt o hne hA hB sg hsg with h' | ⟨hq, h' | h'⟩
            · exact Or.inl h'
            · exact Or.inr ⟨hq, Or.inl h'.1, a, by simp, ra, ha, h'.2⟩
            · exact Or.inr ⟨hq, Or.inr h'.1, b, by simp, rb, hb, h'.2⟩
  | maxThenMin =>
    simp only [hact] at hc ⊢
    cases ha : a.orec with
    | none => simp [ha] at hc
    | some ra =>
      cases hb : b.orec with
      | none => simp [ha, hb] at hc
      | some rb =>
        simp only [ha, hb] at hc ⊢
        cases hg : addLocalMaxFn ra rb with
        | error f => simp [hg] at hc
        | ok g =>
          simp only [hg] at hc
          cases hc
          have hA := h.hot a hal ra ha
          have hB := h.hot b hbl rb hb
          have hne : rb ≠ ra := fun e => recs_ab_ne n pre rest a b hr ra ha (by rw [hb, e])
          have hlen : (localMaxOut .meet ra rb pt o).rings.length = n := by rw [localMaxOut_len, h.len]
          obtain ⟨m1, m2⟩ := minRecs_ids (pre.map g) false n
          have hf : ra.front ≠ rb.front := by
            intro e; unfold addLocalMaxFn at hg; simp [e] at hg
          have hm := localMaxOut_spec .meet ra rb pt o hA hB hf h.nolost h.segs
          have hkeys := localMax_keys n pre rest a b ra rb g hr ha hb hg
          refine ⟨g, { a with e := (intersectPair cfg a.e b.e).1, orec := some (minRecs (pre.map g) false n).1 },
            { b with e := (intersectPair cfg a.e b.e).2, orec := some (minRecs (pre.map g) false n).2 },
            rfl, fun x => ⟨(addLocalMaxFn_shape ra rb g hg x).2.1, (addLocalMaxFn_shape ra rb g hg x).1⟩, ⟨rfl, f2⟩, ⟨rfl, f5⟩, ?_, ?_, ?_, ?_⟩
          · intro x hx k' p hk hp
            cases hxo : x.orec with
            | none => rw [localMax_third_none ra rb g hg x hxo] at hk; cases hk
            | some k =>
              obtain ⟨n1, n2, hl⟩ := hthird x hx k hxo
              obtain ⟨k2, hk2, he⟩ := localMaxOut_third .meet ra rb pt o g hg hA hB x k hxo
                (fun e => n1 (by rw [ha, e])) (fun e => n2 (by rw [hb, e])) hl
              rw [hk2] at hk; cases hk
              -- the surviving record is older than the new one
              have hxg : g x ∈ pre.map g ++ rest.map g := by
                rw [← List.map_append]; exact List.mem_map_of_mem hx
              obtain ⟨hdead, y, hy, ky, hky, hid⟩ := hkeys (g x) hxg k' hk2
              have hlive : LiveAt (localMaxOut .meet ra rb pt o).rings k'.id :=
                hm.live _ (by rw [← hid]; exact h.hot y hy ky hky) hdead
              rw [endOf, endAt_newRec_old pt _ _ _ (lt_of_liveAt hlive)] at hp
              rw [← endOf, he] at hp
              exact ⟨k, rfl, hp⟩
          · intro k' p hk hp
            simp only [Option.some.injEq] at hk
            subst hk
            rw [endOf, m1, ← hlen, endAt_newRec_new] at hp
            exact Or.inl (Option.some.inj hp).symm
          · intro k' p hk hp
            simp only [Option.some.injEq] at hk
            subst hk
            rw [endOf, m2, ← hlen, endAt_newRec_new] at hp
            exact Or.inl (Option.some.inj hp).symm
          · intro sg hsg
            rw [segs_newRec] at hsg
            rcases localMaxOut_segs .meet ra rb pt o hne hA hB sg hsg with h' | ⟨hq, h' | h'⟩
            · exact Or.inl h'
            · exact Or.inr ⟨hq, Or.inl h'.1, a, by simp, ra, ha, h'.2⟩
            · exact Or.inr ⟨hq, Or.inr h'.1, b, by simp, rb, hb, h'.2⟩

/-! ## the events of a sweep without joins, from the states of the ring model -/

theorem splitAt_plain (i : Nat) (s : SState) (x : Model.SEdge) (hx : s.ael[i]? = some x) (hj : x.join = .none) :
    splitAt i s = .ok s ∧ ∀ pt o, splitOut i pt s o = o := by
  refine ⟨by simp [splitAt, hx, hj], fun pt o => by simp [splitOut, hx, hj]⟩

theorem window_get {α} (l : List α) (i : Nat) (a b : α) (rest : List α) (h : l.drop i = a :: b :: rest) :
    l[i]? = some a ∧ l[i + 1]? = some b ∧ (l.take i).length = i := by
  have hl := window_split l i a b rest h
  have hlen : (l.take i).length = i := by
    have := window_length l i a b rest h
    rw [List.length_take]; omega
  refine ⟨?_, ?_, hlen⟩
  · rw [hl, List.getElem?_append_right (by omega)]; simp [hlen]
  · rw [hl, List.getElem?_append_right (by omega)]; simp [hlen]

/-- what the two `Split` tests of `IntersectEdges` / `DoMaxima` do when nothing is joined: nothing -/
theorem twoSplits_plain (i : Nat) (pt : Pt) (s : SState) (o : Out) (a b : Model.SEdge) (rest : List Model.SEdge)
    (hd : s.ael.drop i = a :: b :: rest) (ha : a.join = .none) (hb : b.join = .none) :
    splitAt i s = .ok s ∧ splitAt (i + 1) s = .ok s ∧ twoSplitsOut i pt s o = (o, some (a, b)) := by
  obtain ⟨g1, g2, _⟩ := window_get s.ael i a b rest hd
  obtain ⟨s1, o1⟩ := splitAt_plain i s a g1 ha
  obtain ⟨s2, o2⟩ := splitAt_plain (i + 1) s b g2 hb
  refine ⟨s1, s2, ?_⟩
  rw [twoSplits_eq i pt s s s o a b rest s1 s2 hd, o1, o2]

theorem plain_window {pre rest : List Model.SEdge} {a b : Model.SEdge} (h : Plain (pre ++ a :: b :: rest)) :
    (a.join = .none ∧ a.e.isOpen = false) ∧ (b.join = .none ∧ b.e.isOpen = false) ∧ Plain (pre ++ rest) :=
  ⟨h a (by simp), h b (by simp), fun x hx => h x (mem_pre_rest hx)⟩

theorem plain_map {l : List Model.SEdge} {g : Model.SEdge → Model.SEdge} (hg : ∀ x, (g x).join = x.join ∧ (g x).e = x.e)
    (h : ∀ x ∈ l, x.join = .none ∧ x.e.isOpen = false) : ∀ x ∈ l.map g, x.join = .none ∧ x.e.isOpen = false := by
  intro x hx
  obtain ⟨y, hy, rfl⟩ := List.mem_map.1 hx
  rw [(hg y).1, (hg y).2]; exact h y hy

/-- **`intersect i pt`** -/
theorem intersect_carry (cfg : Cfg) (i : Nat) (pt : Pt) (r r' : RState) (hP : Plain r.s.ael) (hO : OInv r.s.next r.s.ael r.o)
    (hR : RecsOK r.s.next r.s.ael) (hs : stepR cfg r (.base (.intersect i) pt) = .ok r') :
    ∃ (pre : List Model.SEdge) (a b : Model.SEdge) (rest : List Model.SEdge) (g : Model.SEdge → Model.SEdge) (a' b' : Model.SEdge),
      r.s.ael = pre ++ a :: b :: rest ∧ pre.length = i ∧ r'.s.ael = pre.map g ++ b' :: a' :: rest.map g ∧ Plain r'.s.ael ∧
      (∀ x ∈ pre ++ rest, CarryS r.o r'.o x (g x)) ∧ Carry pt r.o r'.o a a' ∧ Carry pt r.o r'.o b b' ∧ NewSegs pt [a, b] r.o r'.o := by
  obtain ⟨h1, h2⟩ := Clipper.Props.C01Rings.erase_ring_step cfg r r' _ hs
  simp only [ROp.erase, stepS] at h1
  simp only [outStep] at h2
  unfold intersectS at h1
  unfold intersectOut at h2
  match hd0 : r.s.ael.drop i with
  | [] => simp [hd0] at h1
  | [_] => simp [hd0] at h1
  | a :: b :: rest =>
    simp only [hd0] at h1 h2
    have hl := window_split _ _ _ _ _ hd0
    obtain ⟨_, _, hlen⟩ := window_get _ _ _ _ _ hd0
    have hP' := hP
    rw [hl] at hP'
    obtain ⟨pa, pb, prest⟩ := plain_window hP'
    have hopen : (a.e.isOpen || b.e.isOpen) = false := by simp [pa.2, pb.2]
    obtain ⟨s1, s2, ts⟩ := twoSplits_plain i pt r.s r.o a b rest hd0 pa.1 pb.1
    simp only [hopen, Bool.false_eq_true, if_false, s1, s2, bind, Except.bind, hd0, ts] at h1 h2
    rw [hl] at hO hR
    obtain ⟨g, a', b', e1, e2, e3, e4, e5, e6, e7, e8⟩ := core_carry cfg _ a b rest _ pt r.o r'.s hO hR h1
    rw [← h2] at e5 e6 e7 e8
    refine ⟨r.s.ael.take i, a, b, rest, g, a', b', hl, hlen, e1, ?_, e5, e6, e7, e8⟩
    rw [e1]
    intro x hx
    simp only [List.mem_append, List.mem_cons] at hx
    rcases hx with hx | rfl | rfl | hx
    · exact plain_map e2 (fun y hy => prest y (List.mem_append_left _ hy)) x hx
    · rw [e4.1, e4.2]; exact pb
    · rw [e3.1, e3.2]; exact pa
    · exact plain_map e2 (fun y hy => prest y (List.mem_append_right _ hy)) x hx

/-- **`removePair i pt`** (`DoMaxima`) -/
theorem removePair_carry (cfg : Cfg) (i : Nat) (pt : Pt) (r r' : RState) (hP : Plain r.s.ael) (hO : OInv r.s.next r.s.ael r.o)
    (hR : RecsOK r.s.next r.s.ael) (hs : stepR cfg r (.base (.removePair i) pt) = .ok r') :
    ∃ (pre : List Model.SEdge) (a b : Model.SEdge) (rest : List Model.SEdge) (g : Model.SEdge → Model.SEdge),
      r.s.ael = pre ++ a :: b :: rest ∧ pre.length = i ∧ r'.s.ael = pre.map g ++ rest.map g ∧ Plain r'.s.ael ∧
      (∀ x ∈ pre ++ rest, CarryS r.o r'.o x (g x)) ∧ NewSegs pt [a, b] r.o r'.o := by
  obtain ⟨s', o'⟩ := r'
  obtain ⟨h1, h2⟩ := Clipper.Props.C01Rings.erase_ring_step cfg r _ _ hs
  simp only at h1 h2 ⊢
  simp only [ROp.erase, stepS] at h1
  simp only [outStep] at h2
  unfold removePairS at h1
  unfold removePairOut at h2
  match hd0 : r.s.ael.drop i with
  | [] => simp [hd0] at h1
  | [_] => simp [hd0] at h1
  | a :: b :: rest =>
    simp only [hd0] at h1 h2
    have hl := window_split _ _ _ _ _ hd0
    obtain ⟨_, _, hlen⟩ := window_get _ _ _ _ _ hd0
    have hP' := hP
    rw [hl] at hP'
    obtain ⟨pa, pb, prest⟩ := plain_window hP'
    obtain ⟨s1, s2, ts⟩ := twoSplits_plain i pt r.s r.o a b rest hd0 pa.1 pb.1
    have hal : a ∈ r.s.ael := by rw [hl]; simp
    have hbl : b ∈ r.s.ael := by rw [hl]; simp
    split at h1
    · simp only [pa.2, Bool.false_eq_true, if_false, s1, s2, bind, Except.bind, hd0, ts] at h1 h2
      have hthird : ∀ x ∈ r.s.ael.take i ++ rest, ∀ k, x.orec = some k → a.orec ≠ some k ∧ b.orec ≠ some k ∧ LiveAt r.o.rings k.id := by
        intro x hx k hk
        have hr' := hR; rw [hl] at hr'
        exact ⟨(recs_no_dup _ _ rest a b hr' x hx k hk).1, (recs_no_dup _ _ rest a b hr' x hx k hk).2,
          hO.hot x (by rw [hl]; exact mem_pre_rest hx) k hk⟩
      cases hao : a.orec with
      | none =>
        cases hbo : b.orec with
        | none =>
          simp only [hao, hbo] at h1 h2
          cases h1
          refine ⟨r.s.ael.take i, a, b, rest, id, hl, hlen, by simp, by simpa using prest, ?_, ?_⟩
          · intro x _; rw [h2]; exact carryS_refl _ x
          · intro sg hsg; rw [h2] at hsg; exact Or.inl hsg
        | some rb => simp [hao, hbo] at h1
      | some ra =>
        cases hbo : b.orec with
        | none => simp [hao, hbo] at h1
        | some rb =>
          simp only [hao, hbo] at h1 h2
          cases hg : addLocalMaxFn ra rb with
          | error f => simp [hg] at h1
          | ok g =>
            simp only [hg] at h1
            cases h1
            have hA := hO.hot a hal ra hao
            have hB := hO.hot b hbl rb hbo
            have hr' := hR; rw [hl] at hr'
            have hne : rb ≠ ra := fun e => recs_ab_ne _ _ rest a b hr' ra hao (by rw [hbo, e])
            have hshape := fun x => (⟨(addLocalMaxFn_shape ra rb g hg x).2.1, (addLocalMaxFn_shape ra rb g hg x).1⟩ :
              (g x).join = x.join ∧ (g x).e = x.e)
            refine ⟨r.s.ael.take i, a, b, rest, g, hl, hlen, rfl, ?_, ?_, ?_⟩
            · intro x hx
              simp only [List.mem_append] at hx
              rcases hx with hx | hx
              · exact plain_map hshape (fun y hy => prest y (List.mem_append_left _ hy)) x hx
              · exact plain_map hshape (fun y hy => prest y (List.mem_append_right _ hy)) x hx
            · intro x hx k' p hk hp
              rw [h2] at hp
              cases hxo : x.orec with
              | none => rw [localMax_third_none ra rb g hg x hxo] at hk; cases hk
              | some k =>
                obtain ⟨n1, n2, hlv⟩ := hthird x hx k hxo
                obtain ⟨k2, hk2, he⟩ := localMaxOut_third .meet ra rb pt r.o g hg hA hB x k hxo
                  (fun e => n1 (by rw [hao, e])) (fun e => n2 (by rw [hbo, e])) hlv
                rw [hk2] at hk; cases hk
                rw [he] at hp
                exact ⟨k, rfl, hp⟩
            · intro sg hsg
              rw [h2] at hsg
              rcases localMaxOut_segs .meet ra rb pt r.o hne hA hB sg hsg with h' | ⟨hq, h' | h'⟩
              · exact Or.inl h'
              · exact Or.inr ⟨hq, Or.inl h'.1, a, by simp, ra, hao, h'.2⟩
              · exact Or.inr ⟨hq, Or.inr h'.1, b, by simp, rb, hbo, h'.2⟩
    · cases h1

/-- **`insertPair pos t false dx` with the point `pt`** (`InsertLocalMinimaIntoAEL`, closed path) -/
theorem insertPair_carry (cfg : Cfg) (pos : Nat) (t : PathType) (dx : Int) (pt : Pt) (r r' : RState) (hP : Plain r.s.ael)
    (hO : OInv r.s.next r.s.ael r.o) (hs : stepR cfg r (.base (.insertPair pos t false dx) pt) = .ok r') :
    ∃ (pre post : List Model.SEdge) (l' r'' : Model.SEdge),
      r.s.ael = pre ++ post ∧ pre.length = pos ∧ r'.s.ael = pre ++ l' :: r'' :: post ∧ Plain r'.s.ael ∧
      (∀ x ∈ pre ++ post, CarryS r.o r'.o x x) ∧
      (∀ k' p, l'.orec = some k' → endOf r'.o k' = some p → p = pt) ∧ (∀ k' p, r''.orec = some k' → endOf r'.o k' = some p → p = pt) ∧
      r'.o.segs = r.o.segs := by
  obtain ⟨s', o'⟩ := r'
  obtain ⟨h1, h2⟩ := Clipper.Props.C01Rings.erase_ring_step cfg r _ _ hs
  simp only [ROp.erase, stepS] at h1
  simp only [outStep] at h2
  simp only
  unfold insertPairS at h1
  unfold insertPairOut at h2
  split at h1
  · next hc =>
    simp only at h1 h2
    have hlen : (r.s.ael.take pos).length = pos := by rw [List.length_take]; omega
    have hsplit : r.s.ael = r.s.ael.take pos ++ r.s.ael.drop pos := (List.take_append_drop _ _).symm
    obtain ⟨g1, g2, g3⟩ := newLeft_fields cfg (erase (r.s.ael.take pos)) t false dx
    have hplain : ∀ (ol or : Option Rec), ∀ x ∈ r.s.ael.take pos ++
        (⟨{ (newLeft cfg (erase (r.s.ael.take pos)) t false dx).1 with hot := (newLeft cfg (erase (r.s.ael.take pos)) t false dx).2 }, .none, ol⟩ : Model.SEdge) ::
        (⟨{ pt := t, isOpen := false, dx := -dx, wc := (newLeft cfg (erase (r.s.ael.take pos)) t false dx).1.wc,
            wc2 := (newLeft cfg (erase (r.s.ael.take pos)) t false dx).1.wc2, hot := (newLeft cfg (erase (r.s.ael.take pos)) t false dx).2 }, .none, or⟩ : Model.SEdge) ::
        r.s.ael.drop pos, x.join = .none ∧ x.e.isOpen = false := by
      intro ol or x hx
      simp only [List.mem_append, List.mem_cons] at hx
      rcases hx with hx | rfl | rfl | hx
      · exact hP x (List.mem_of_mem_take hx)
      · exact ⟨rfl, g2⟩
      · exact ⟨rfl, rfl⟩
      · exact hP x (List.mem_of_mem_drop hx)
    by_cases hcon : ((newLeft cfg (erase (r.s.ael.take pos)) t false dx).2 && !false) = true
    · simp only [hcon, if_true] at h1 h2
      rw [addLocalMin_eq pos true (r.s.ael.take pos) _ _ (r.s.ael.drop pos) r.s.next hlen] at h1
      cases h1
      obtain ⟨m1, m2⟩ := minRecs_ids (r.s.ael.take pos) true r.s.next
      refine ⟨r.s.ael.take pos, r.s.ael.drop pos, _, _, hsplit, hlen, rfl, hplain _ _, ?_, ?_, ?_, by rw [h2]; rfl⟩
      · intro x hx k' p hk hp
        rw [← hsplit] at hx
        have hl := hO.hot x hx k' hk
        rw [h2, endOf, endAt_newRec_old pt r.o _ _ (lt_of_liveAt hl)] at hp
        exact ⟨k', hk, hp⟩
      · intro k' p hk hp
        simp only [Option.some.injEq] at hk
        subst hk
        rw [h2, endOf, m1, ← hO.len, endAt_newRec_new] at hp
        exact (Option.some.inj hp).symm
      · intro k' p hk hp
        simp only [Option.some.injEq] at hk
        subst hk
        rw [h2, endOf, m2, ← hO.len, endAt_newRec_new] at hp
        exact (Option.some.inj hp).symm
    · simp only [hcon, if_false] at h1 h2
      cases h1
      refine ⟨r.s.ael.take pos, r.s.ael.drop pos, _, _, hsplit, hlen, rfl, hplain _ _, ?_, ?_, ?_, by rw [h2]; simp⟩
      · intro x _; rw [h2]; simp only [Bool.false_eq_true, if_false]; exact carryS_refl _ x
      · intro k' p hk _; simp at hk
      · intro k' p hk _; simp at hk
  · cases h1

/-- **`update i pt`** (`if (IsHotEdge(*e)) AddOutPt(*e, e->top)` before `UpdateEdgeIntoAEL`) -/
theorem update_carry (cfg : Cfg) (i : Nat) (pt : Pt) (r r' : RState) (hP : Plain r.s.ael) (hO : OInv r.s.next r.s.ael r.o)
    (hR : RecsOK r.s.next r.s.ael) (hs : stepR cfg r (.update i pt) = .ok r') :
    ∃ (pre post : List Model.SEdge) (x : Model.SEdge),
      r.s.ael = pre ++ x :: post ∧ pre.length = i ∧ r'.s = r.s ∧
      (∀ y ∈ pre ++ post, CarryS r.o r'.o y y) ∧ Carry pt r.o r'.o x x ∧ NewSegs pt [x] r.o r'.o := by
  obtain ⟨h1, h2⟩ := Clipper.Props.C01Rings.erase_ring_step cfg r r' _ hs
  simp only [ROp.erase] at h1
  simp only [outStep] at h2
  have hi : i < r.s.ael.length := by
    unfold stepR at hs
    simp only [ROp.erase] at hs
    split at hs
    · assumption
    · cases hs
  have hsplit : r.s.ael = r.s.ael.take i ++ r.s.ael[i] :: r.s.ael.drop (i + 1) := by
    rw [List.getElem_cons_drop hi, List.take_append_drop]
  have hlen : (r.s.ael.take i).length = i := by rw [List.length_take]; omega
  have hx : r.s.ael[i]? = some r.s.ael[i] := List.getElem?_eq_getElem hi
  have hxm : r.s.ael[i] ∈ r.s.ael := List.getElem_mem hi
  refine ⟨r.s.ael.take i, r.s.ael.drop (i + 1), r.s.ael[i], hsplit, hlen, h1, ?_, ?_, ?_⟩
  · intro y hy k' p hk hp
    have hym : y ∈ r.s.ael := by
      rw [hsplit]
      simp only [List.mem_append, List.mem_cons] at hy ⊢
      rcases hy with h | h
      · exact Or.inl h
      · exact Or.inr (Or.inr h)
    have hne : r.s.ael[i].orec ≠ some k' := by
      intro e
      -- `y` and the edge at `i` would hold the same ring end
      have h1c := (hR (k'.id, k'.front)).1
      rw [hsplit, cnt_append] at h1c
      simp only [cnt, keyOf_of_orec _ k' e, if_true] at h1c
      have : 1 ≤ cnt (k'.id, k'.front) (r.s.ael.take i) + cnt (k'.id, k'.front) (r.s.ael.drop (i + 1)) := by
        rw [← cnt_append]
        exact cnt_pos_of_mem _ _ y hy (keyOf_of_orec y k' hk)
      omega
    rw [h2] at hp
    unfold updateOut at hp
    simp only [hx, (hP _ hxm).2, Bool.false_eq_true, if_false] at hp
    rw [endOf_addOn_other _ pt r.o k' hne (hO.hot y hym k' hk)] at hp
    exact ⟨k', hk, hp⟩
  · intro k' p hk hp
    rw [h2] at hp
    unfold updateOut at hp
    simp only [hx, (hP _ hxm).2, Bool.false_eq_true, if_false, hk] at hp
    rw [endOf_addOn_self k' pt r.o (hO.hot _ hxm k' hk)] at hp
    exact Or.inl (Option.some.inj hp).symm
  · intro sg hsg
    rw [h2] at hsg
    unfold updateOut at hsg
    simp only [hx, (hP _ hxm).2, Bool.false_eq_true, if_false] at hsg
    rcases segs_addOn _ pt r.o sg hsg with h | ⟨k, hk, hp, hq, hkd⟩
    · exact Or.inl h
    · exact Or.inr ⟨hq, Or.inl hkd, r.s.ael[i], by simp, k, hk, hp⟩

end Clipper.Lemmas.C01Output
