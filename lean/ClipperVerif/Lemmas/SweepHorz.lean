/-
Lemmas about the model of `DoHorizontal` (`Model/SweepHorz.lean`), used by `Props/C01Horz.lean`.

 1. the inner walk: `passed ++ remaining = neighbours`; what stopped it;
 2. `TrimHorz` / `UpdateEdgeIntoAEL` on an `HEdge`: the new edge starts at the old top, stays on the scanline, and `vertex_top` moves
    along the supplied vertices;
 3. one turn of the outer loop (`segStep`) in terms of the walk;
 4. termination measure (`outer_nofault`);
 5. a strictly monotone run: direction, bounds on the walk, the run after `UpdateEdgeIntoAEL`;
 6.-7. sorted lists with an element put in between; one turn keeps the AEL sorted;
 8. the whole call for a strictly monotone run (`outer_mono`): shape of the result, events, sortedness;
 9. the zipper of a call (`splitAt`).
-/
import ClipperVerif.Model.SweepHorz
import ClipperVerif.Props.C03Trim
namespace Clipper.Lemmas.SweepHorz
open Clipper Clipper.Model Clipper.Model.SweepHorz

/-! ## 1. the walk -/

/-- the walk neither loses nor duplicates nor reorders a neighbour: every neighbour is visited at most once -/
theorem walk_partition (topx : HEdge → Int → Int) (s : Seg) : ∀ (l : List HEdge),
    (walk topx s l).1 ++ (walk topx s l).2.2 = l
  | [] => rfl
  | e :: rest => by
    unfold walk
    split
    · rfl
    · split
      · rfl
      · simp [walk_partition topx s rest]

/-- an edge is passed only if it is not the maxima pair and (unless the horizontal ends in the maximum) no break condition holds -/
theorem walk_passed (topx : HEdge → Int → Int) (s : Seg) : ∀ (l : List HEdge), ∀ e ∈ (walk topx s l).1,
    some e.vtop ≠ s.vmax ∧ (s.atMax = true ∨ stopHere topx s e = false)
  | [], e, he => by simp [walk] at he
  | x :: rest, e, he => by
    unfold walk at he
    split at he
    · simp at he
    · rename_i h1
      split at he
      · simp at he
      · rename_i h2
        simp only [List.mem_cons] at he
        rcases he with rfl | he
        · refine ⟨h1, ?_⟩
          cases ha : s.atMax <;> simp_all
        · exact walk_passed topx s rest e he

theorem walk_cons (topx : HEdge → Int → Int) (s : Seg) (x : HEdge) (rest : List HEdge) :
    walk topx s (x :: rest) =
      if some x.vtop = s.vmax then ([], .maxPair, x :: rest)
      else if !s.atMax && stopHere topx s x then ([], .brk, x :: rest)
      else (x :: (walk topx s rest).1, (walk topx s rest).2.1, (walk topx s rest).2.2) := by
  rw [walk]

/-- how the walk ended: at the end of the AEL nothing remains; otherwise the first remaining edge is the one that stopped it -/
theorem walk_stop_end (topx : HEdge → Int → Int) (s : Seg) : ∀ (l : List HEdge),
    (walk topx s l).2.1 = .endOfAel → (walk topx s l).2.2 = []
  | [], _ => rfl
  | x :: rest, h => by
    rw [walk_cons] at h ⊢
    by_cases h1 : some x.vtop = s.vmax
    · simp [h1] at h
    · by_cases h2 : (!s.atMax && stopHere topx s x) = true
      · simp [h1, h2] at h
      · simp only [h1, h2, if_false] at h ⊢
        exact walk_stop_end topx s rest h

theorem walk_stop_max (topx : HEdge → Int → Int) (s : Seg) : ∀ (l : List HEdge),
    (walk topx s l).2.1 = .maxPair → ∃ p t, (walk topx s l).2.2 = p :: t ∧ some p.vtop = s.vmax
  | [], h => by simp [walk] at h
  | x :: rest, h => by
    rw [walk_cons] at h ⊢
    by_cases h1 : some x.vtop = s.vmax
    · simp only [h1, if_true]; exact ⟨x, rest, rfl, h1⟩
    · by_cases h2 : (!s.atMax && stopHere topx s x) = true
      · simp [h1, h2] at h
      · simp only [h1, h2, if_false] at h ⊢
        exact walk_stop_max topx s rest h

theorem walk_stop_brk (topx : HEdge → Int → Int) (s : Seg) : ∀ (l : List HEdge),
    (walk topx s l).2.1 = .brk →
      ∃ p t, (walk topx s l).2.2 = p :: t ∧ some p.vtop ≠ s.vmax ∧ s.atMax = false ∧ stopHere topx s p = true
  | [], h => by simp [walk] at h
  | x :: rest, h => by
    rw [walk_cons] at h ⊢
    by_cases h1 : some x.vtop = s.vmax
    · simp [h1] at h
    · by_cases h2 : (!s.atMax && stopHere topx s x) = true
      · simp only [h1, h2, if_true, if_false]
        refine ⟨x, rest, rfl, h1, ?_⟩
        cases ha : s.atMax <;> simp_all
      · simp only [h1, h2, if_false] at h ⊢
        exact walk_stop_brk topx s rest h

/-- if an edge with `vertex_top == vertex_max` is among the neighbours, the walk ends there -/
theorem walk_finds_pair (topx : HEdge → Int → Int) (s : Seg) (hm : s.atMax = true) : ∀ (l : List HEdge),
    (∃ p ∈ l, some p.vtop = s.vmax) → (walk topx s l).2.1 = .maxPair
  | [], h => by simp at h
  | x :: rest, h => by
    unfold walk
    split
    · rfl
    · rename_i h1
      simp only [hm, Bool.not_true, Bool.false_and, Bool.false_eq_true, if_false]
      obtain ⟨p, hp, hv⟩ := h
      rcases List.mem_cons.1 hp with rfl | hp
      · exact absurd hv h1
      · exact walk_finds_pair topx s hm rest ⟨p, hp, hv⟩

/-- without an edge with `vertex_top == vertex_max` among the neighbours the walk does not end in `maxPair` -/
theorem walk_no_pair (topx : HEdge → Int → Int) (s : Seg) : ∀ (l : List HEdge),
    (∀ p ∈ l, some p.vtop ≠ s.vmax) → (walk topx s l).2.1 ≠ .maxPair
  | [], _ => by simp [walk]
  | x :: rest, h => by
    unfold walk
    split
    · rename_i h1; exact absurd h1 (h x (by simp))
    · split
      · simp
      · exact walk_no_pair topx s rest (fun p hp => h p (List.mem_cons_of_mem _ hp))

/-! ## 2. `TrimHorz` / `UpdateEdgeIntoAEL` on an `HEdge` -/

theorem isHorz_iff (e : HEdge) : e.isHorz = true ↔ e.top.y = e.bot.y := by
  simp [HEdge.isHorz, Gen.IsHorizontal]

/-- `TrimHorz`: `vertex_top` advances over a prefix `pre` of the supplied vertices, all of them on the scanline of the edge; nothing
else changes; the new `top` is the last vertex passed -/
theorem trim_spec (pc : Bool) (e : HEdge) :
    ∃ pre, e.rest = pre ++ (trim pc e).rest ∧ (∀ v ∈ pre, v.pt.y = e.top.y) ∧
      (trim pc e).id = e.id ∧ (trim pc e).bot = e.bot ∧ (trim pc e).currX = e.currX ∧
      ((pre = [] ∧ trim pc e = e) ∨
       (∃ pre0 v, pre = pre0 ++ [v] ∧ (trim pc e).top = v.pt ∧ (trim pc e).vtop = v.id ∧ (trim pc e).topIsMax = v.isMax)) := by
  have hle := Clipper.Props.C03Trim.loop_adv_le pc e.bot.x (e.rest.map HV.toV) e.top.x e.top.y 0
  have hrow := Clipper.Props.C03Trim.loop_row pc e.bot.x (e.rest.map HV.toV) e.top.x e.top.y 0
  unfold trim
  simp only [TrimHorz.trimHorz]
  generalize TrimHorz.loop pc e.bot.x e.top.x e.top.y 0 (e.rest.map HV.toV) = o at hle hrow
  obtain ⟨oX, oY, adv, ranOff⟩ := o
  simp only at hle hrow ⊢
  cases adv with
  | zero => exact ⟨[], rfl, by simp, rfl, rfl, rfl, Or.inl ⟨rfl, rfl⟩⟩
  | succ k =>
    simp only
    have hk : k < e.rest.length := by
      have := hle.2; simp only [List.length_map] at this; omega
    have hget : e.rest[k]? = some e.rest[k] := List.getElem?_eq_getElem hk
    rw [hget]
    simp only
    obtain ⟨hty, hall, hx⟩ := hrow
    simp only [Nat.sub_zero] at hall hx
    have htake : e.rest.take (k + 1) = e.rest.take k ++ [e.rest[k]] := by
      rw [List.take_add_one, hget]; rfl
    have hmem : e.rest[k] ∈ e.rest.take (k + 1) := by
      rw [htake]; exact List.mem_append_right _ (List.mem_singleton_self _)
    refine ⟨e.rest.take (k + 1), (List.take_append_drop _ _).symm, ?_, trivial, trivial, trivial, Or.inr ⟨e.rest.take k, e.rest[k], htake, ?_, rfl, rfl⟩⟩
    · intro v hv
      have := hall (HV.toV v) (by rw [← List.map_take]; exact List.mem_map_of_mem hv)
      simpa [HV.toV] using this
    · have hyk : e.rest[k].pt.y = e.top.y := by
        have := hall (HV.toV e.rest[k]) (by rw [← List.map_take]; exact List.mem_map_of_mem hmem)
        simpa [HV.toV] using this
      rcases hx with ⟨h0, _⟩ | ⟨_, w, hw, hwx⟩
      · omega
      · simp only [Nat.add_sub_cancel, List.getElem?_map, hget, Option.map_some, Option.some.injEq] at hw
        subst hw
        simp only [HV.toV] at hwx
        cases hp : e.rest[k].pt with
        | mk px py =>
          rw [hp] at hwx hyk
          simp only at hwx hyk
          rw [← hwx, hty, hyk]

/-- `UpdateEdgeIntoAEL`: the new edge starts at the old `top` with `curr_x = bot.x`, keeps its identity, and its `vertex_top` is a
later vertex `v` of the supplied list; everything skipped (`pre0`, by `TrimHorz`) lies on the scanline of the old edge.  If the next
vertex is on that scanline so is the new `top` (the edge is again horizontal); if not, the new edge ends at the next vertex. -/
theorem updateEdge_spec (pc : Bool) (e : HEdge) (nv : HV) (tl : List HV) (hr : e.rest = nv :: tl) :
    ∃ h2 pre0 v, updateEdge pc e = some h2 ∧ e.rest = pre0 ++ v :: h2.rest ∧ (∀ u ∈ pre0, u.pt.y = e.top.y) ∧
      h2.top = v.pt ∧ h2.vtop = v.id ∧ h2.topIsMax = v.isMax ∧ h2.bot = e.top ∧ h2.currX = e.top.x ∧ h2.id = e.id ∧
      (nv.pt.y = e.top.y → v.pt.y = e.top.y) ∧ (nv.pt.y ≠ e.top.y → pre0 = [] ∧ v = nv) := by
  unfold updateEdge
  rw [hr]
  simp only
  by_cases hy : nv.pt.y = e.top.y
  · have hh : (({ e with bot := e.top, top := nv.pt, vtop := nv.id, topIsMax := nv.isMax, currX := e.top.x, rest := tl } : HEdge).isHorz) = true := by
      rw [isHorz_iff]; exact hy
    rw [if_pos hh]
    obtain ⟨pre, h1, h2, h3, h4, h5, h6⟩ := trim_spec pc { e with bot := e.top, top := nv.pt, vtop := nv.id, topIsMax := nv.isMax, currX := e.top.x, rest := tl }
    simp only at h1 h2 h3 h4 h5
    rcases h6 with ⟨hp, he⟩ | ⟨pre0, v, hp, ht, hv, hm⟩
    · refine ⟨_, [], nv, rfl, ?_, by simp, ?_, ?_, ?_, h4, h5, h3, fun _ => hy, fun h => absurd hy h⟩
      · rw [he]; simp
      · rw [he]
      · rw [he]
      · rw [he]
    · refine ⟨_, nv :: pre0, v, rfl, ?_, ?_, ht, hv, hm, h4, h5, h3, ?_, fun h => absurd hy h⟩
      · have ht : tl = pre0 ++ v :: (trim pc { e with bot := e.top, top := nv.pt, vtop := nv.id, topIsMax := nv.isMax, currX := e.top.x, rest := tl }).rest := by
          rw [hp] at h1; simpa using h1
        exact congrArg (nv :: ·) ht
      · intro u hu
        rcases List.mem_cons.1 hu with rfl | hu
        · exact hy
        · rw [← hy]; exact h2 u (by rw [hp]; exact List.mem_append_left _ hu)
      · intro _
        rw [← hy]; exact h2 v (by rw [hp]; simp)
  · have hh : ¬ (({ e with bot := e.top, top := nv.pt, vtop := nv.id, topIsMax := nv.isMax, currX := e.top.x, rest := tl } : HEdge).isHorz) = true := by
      rw [isHorz_iff]; exact hy
    rw [if_neg hh]
    exact ⟨_, [], nv, rfl, by simp, by simp, rfl, rfl, rfl, rfl, rfl, rfl, fun h => absurd h hy, fun _ => ⟨rfl, rfl⟩⟩

/-- `UpdateEdgeIntoAEL` does not read `curr_x` -/
theorem updateEdge_currX (pc : Bool) (e : HEdge) (c : Int) : updateEdge pc { e with currX := c } = updateEdge pc e := by
  unfold updateEdge
  cases e.rest <;> rfl

/-! ## 3. one turn of the outer loop -/

/-- **one turn, spelled out.**  With `s` the segment data, `w` the walk over the neighbours ahead, `P` the edges passed and `Q` the
rest: if the walk met the maxima pair `p` (the head of `Q`), both leave the AEL; otherwise `UpdateEdgeIntoAEL` yields `h2` (it does not
depend on the walk) and the turn returns, or continues when the next vertex is on the scanline. -/
theorem segStep_spec (pc : Bool) (topx : HEdge → Int → Int) (vmax : Option Nat) (L : List HEdge) (h : HEdge) (R : List HEdge)
    (evs : List Ev) (nv : HV) (tl : List HV) (hr : h.rest = nv :: tl) :
    let s := segOf vmax h R nv.pt
    let w := walk topx s (ahead s.l2r L R)
    let evs1 := evs ++ walkEvents s.l2r L.length h.id w.1
    (w.2.1 = .maxPair → ∃ p t, w.2.2 = p :: t ∧ some p.vtop = vmax ∧
      segStep pc topx vmax L h R evs = .done
        (if s.l2r then ⟨(w.1.reverse ++ L).reverse ++ t, evs1 ++ [.removePair (w.1.reverse ++ L).length h.id p.id], false⟩
         else ⟨t.reverse ++ (w.1.reverse ++ R), evs1 ++ [.removePair t.length p.id h.id], false⟩)) ∧
    (w.2.1 ≠ .maxPair → ∃ h2, updateEdge pc h = some h2 ∧
      segStep pc topx vmax L h R evs =
        (if nv.pt.y ≠ h.top.y then
          .done (if s.l2r then ⟨(w.1.reverse ++ L).reverse ++ h2 :: w.2.2, evs1, false⟩
                 else ⟨w.2.2.reverse ++ h2 :: (w.1.reverse ++ R), evs1, false⟩)
         else if s.l2r then .next (w.1.reverse ++ L) h2 w.2.2 evs1 else .next w.2.2 h2 (w.1.reverse ++ R) evs1)) := by
  intro s w evs1
  have hseg : segStep pc topx vmax L h R evs = (
      let h1 : HEdge := { h with currX := currXAfter h w.1 }
      let L1 := if s.l2r then w.1.reverse ++ L else w.2.2
      let R1 := if s.l2r then w.2.2 else w.1.reverse ++ R
      match w.2.1 with
      | .maxPair =>
        if s.l2r then
          match R1 with
          | p :: R2 => .done ⟨L1.reverse ++ R2, evs1 ++ [.removePair L1.length h.id p.id], false⟩
          | [] => .done ⟨L1.reverse ++ h1 :: R1, evs1, true⟩
        else
          match L1 with
          | p :: L2 => .done ⟨L2.reverse ++ R1, evs1 ++ [.removePair L2.length p.id h.id], false⟩
          | [] => .done ⟨L1.reverse ++ h1 :: R1, evs1, true⟩
      | _ =>
        match updateEdge pc h1 with
        | none => .done ⟨L1.reverse ++ h1 :: R1, evs1, true⟩
        | some h2 =>
          if nv.pt.y ≠ h1.top.y then .done ⟨L1.reverse ++ h2 :: R1, evs1, false⟩
          else .next L1 h2 R1 evs1) := by
    unfold segStep
    rw [hr]
    rfl
  constructor
  · intro hm
    obtain ⟨p, t, hq, hp⟩ := walk_stop_max topx s _ hm
    refine ⟨p, t, hq, hp, ?_⟩
    rw [hseg]
    simp only
    rw [show w.2.1 = Stop.maxPair from hm]
    simp only
    cases hl : s.l2r
    · simp only [Bool.false_eq_true, if_false]
      rw [show w.2.2 = p :: t from hq]
    · simp only [if_true]
      rw [show w.2.2 = p :: t from hq]
  · intro hm
    obtain ⟨h2, pre0, v, hu, _⟩ := updateEdge_spec pc h nv tl hr
    refine ⟨h2, hu, ?_⟩
    rw [hseg]
    simp only
    have hu' : updateEdge pc { h with currX := currXAfter h w.1 } = some h2 := by rw [updateEdge_currX]; exact hu
    cases hs : w.2.1 with
    | maxPair => exact absurd hs hm
    | endOfAel =>
      simp only [hu']
      cases hl : s.l2r <;> by_cases hy : nv.pt.y = h.top.y <;> simp [hy]
    | brk =>
      simp only [hu']
      cases hl : s.l2r <;> by_cases hy : nv.pt.y = h.top.y <;> simp [hy]

/-! ## 4. termination -/

/-- number of supplied vertices in front of the first one that is off the scanline `y` -/
def flatLen (y : Int) (rest : List HV) : Nat := (rest.takeWhile (fun v => decide (v.pt.y = y))).length

theorem flatLen_le (y : Int) (rest : List HV) : flatLen y rest ≤ rest.length := by
  unfold flatLen; exact (List.takeWhile_sublist _).length_le

theorem flatLen_append (y : Int) (pre : List HV) (v : HV) (r : List HV) (hp : ∀ u ∈ pre, u.pt.y = y) (hv : v.pt.y = y) :
    flatLen y (pre ++ v :: r) = pre.length + 1 + flatLen y r := by
  unfold flatLen
  induction pre with
  | nil => simp [hv]; omega
  | cons a t ih =>
    have ha : a.pt.y = y := hp a (by simp)
    simp only [List.cons_append, List.takeWhile_cons, ha, decide_true, if_true, List.length_cons]
    rw [ih (fun u hu => hp u (List.mem_cons_of_mem _ hu))]
    omega

/-- a horizontal continuation consumes at least one vertex of the flat run, stays on the scanline, and still leaves it later -/
theorem updateEdge_measure (pc : Bool) (h h2 : HEdge) (nv : HV) (tl : List HV) (hr : h.rest = nv :: tl) (hy : nv.pt.y = h.top.y)
    (hu : updateEdge pc h = some h2) :
    h2.top.y = h.top.y ∧ flatLen h.top.y h2.rest < flatLen h.top.y h.rest ∧ (Leaves h → Leaves h2) := by
  obtain ⟨h2', pre0, v, hu', hrest, hpre, htop, _, _, _, _, _, hvy, _⟩ := updateEdge_spec pc h nv tl hr
  rw [hu] at hu'
  cases hu'
  have hv := hvy hy
  refine ⟨by rw [htop]; exact hv, ?_, ?_⟩
  · rw [hrest, flatLen_append _ _ _ _ hpre hv]; omega
  · rintro ⟨u, hu, hne⟩
    rw [hrest] at hu
    rcases List.mem_append.1 hu with h1 | h1
    · exact absurd (hpre u h1) hne
    · rcases List.mem_cons.1 h1 with rfl | h1
      · exact absurd hv hne
      · exact ⟨u, h1, by rw [htop, hv]; exact hne⟩

/-- with fuel beyond the length of the flat run the loop ends by itself, without needing a vertex that was not supplied -/
theorem outer_nofault (pc : Bool) (topx : HEdge → Int → Int) (vmax : Option Nat) : ∀ (fuel : Nat) (L : List HEdge) (h : HEdge)
    (R : List HEdge) (evs : List Ev), flatLen h.top.y h.rest < fuel → Leaves h →
    (outer pc topx vmax fuel L h R evs).fault = false := by
  intro fuel
  induction fuel with
  | zero => intro L h R evs hf; omega
  | succ fuel ih =>
    intro L h R evs hf hl
    unfold outer
    obtain ⟨u, hu, hne⟩ := hl
    cases hr : h.rest with
    | nil => rw [hr] at hu; simp at hu
    | cons nv tl =>
      obtain ⟨hA, hB⟩ := segStep_spec pc topx vmax L h R evs nv tl hr
      by_cases hm : (walk topx (segOf vmax h R nv.pt) (ahead (segOf vmax h R nv.pt).l2r L R)).2.1 = .maxPair
      · obtain ⟨p, t, _, _, hs⟩ := hA hm
        rw [hs]
        cases (segOf vmax h R nv.pt).l2r <;> rfl
      · obtain ⟨h2, hu2, hs⟩ := hB hm
        rw [hs]
        by_cases hy : nv.pt.y = h.top.y
        · obtain ⟨m1, m2, m3⟩ := updateEdge_measure pc h h2 nv tl hr hy hu2
          simp only [hy, ne_eq, not_true_eq_false, if_false]
          cases (segOf vmax h R nv.pt).l2r
          · simp only [Bool.false_eq_true, if_false]
            exact ih _ _ _ _ (by rw [m1]; omega) (m3 ⟨u, hu, hne⟩)
          · simp only [if_true]
            exact ih _ _ _ _ (by rw [m1]; omega) (m3 ⟨u, hu, hne⟩)
        · simp only [ne_eq, hy, not_false_eq_true, if_true]
          cases (segOf vmax h R nv.pt).l2r <;> rfl

/-! ## 5. a strictly monotone run: direction, bounds on the walk, the run after `UpdateEdgeIntoAEL` -/

theorem runMono_head {d : Bool} {h : HEdge} (hm : RunMono d h) : fwd d h.bot.x h.top.x := by
  unfold RunMono runXs at hm
  rw [List.pairwise_cons] at hm
  exact hm.1 _ (by simp)

/-- `ResetHorzDirection` on a horizontal that stands at its `bot` with a strictly monotone run: the direction is the direction of the
run and the far limit is `top.x` -/
theorem segOf_dir (vmax : Option Nat) (h : HEdge) (R : List HEdge) (pt : Pt) (d : Bool) (hb : h.currX = h.bot.x) (hm : RunMono d h) :
    (segOf vmax h R pt).l2r = d ∧ (d = true → (segOf vmax h R pt).hr = h.top.x) ∧ (d = false → (segOf vmax h R pt).hl = h.top.x) ∧
      (segOf vmax h R pt).topX = h.top.x ∧ (segOf vmax h R pt).vmax = vmax ∧
      (segOf vmax h R pt).atMax = decide (vmax = some h.vtop) := by
  have h0 := runMono_head hm
  unfold fwd at h0
  unfold segOf Gen.ResetHorzDirection
  cases d
  · simp only [Bool.false_eq_true, if_false] at h0
    have h1 : ¬ h.bot.x = h.top.x := by omega
    have h2 : ¬ h.currX < h.top.x := by omega
    simp [h1, h2]
  · simp only [if_true] at h0
    have h1 : ¬ h.bot.x = h.top.x := by omega
    have h2 : h.currX < h.top.x := by omega
    simp [h1, h2]

theorem stopHere_false_l2r {topx : HEdge → Int → Int} {s : Seg} {e : HEdge} (hl : s.l2r = true) (h : stopHere topx s e = false) :
    e.currX ≤ s.hr := by
  unfold stopHere at h
  simp only [hl, Bool.true_and, Bool.not_true, Bool.false_and, Bool.or_false, Bool.or_eq_false_iff, decide_eq_false_iff_not] at h
  omega

theorem stopHere_false_r2l {topx : HEdge → Int → Int} {s : Seg} {e : HEdge} (hl : s.l2r = false) (h : stopHere topx s e = false) :
    s.hl ≤ e.currX := by
  unfold stopHere at h
  simp only [hl, Bool.false_and, Bool.not_false, Bool.true_and, Bool.false_or, Bool.or_eq_false_iff, decide_eq_false_iff_not] at h
  omega

theorem stopHere_true_l2r {topx : HEdge → Int → Int} {s : Seg} {e : HEdge} (hl : s.l2r = true) (h : stopHere topx s e = true) :
    s.hr < e.currX ∨ e.currX = s.topX := by
  unfold stopHere at h
  simp only [hl, Bool.true_and, Bool.not_true, Bool.false_and, Bool.or_false, Bool.or_eq_true, decide_eq_true_eq,
    Bool.and_eq_true] at h
  rcases h with h | h
  · left; omega
  · right; exact h.1.1

theorem stopHere_true_r2l {topx : HEdge → Int → Int} {s : Seg} {e : HEdge} (hl : s.l2r = false) (h : stopHere topx s e = true) :
    e.currX < s.hl ∨ e.currX = s.topX := by
  unfold stopHere at h
  simp only [hl, Bool.false_and, Bool.not_false, Bool.true_and, Bool.false_or, Bool.or_eq_true, decide_eq_true_eq,
    Bool.and_eq_true] at h
  rcases h with h | h
  · left; omega
  · right; exact h.1.1

theorem takeWhile_append_all {α : Type} (p : α → Bool) (l₁ l₂ : List α) (h : ∀ a ∈ l₁, p a = true) :
    (l₁ ++ l₂).takeWhile p = l₁ ++ l₂.takeWhile p := by
  induction l₁ with
  | nil => rfl
  | cons a t ih =>
    simp only [List.cons_append, List.takeWhile_cons, h a (by simp), if_true]
    rw [ih (fun b hb => h b (List.mem_cons_of_mem _ hb))]

/-- the flat run after a horizontal continuation: what was skipped, the new `vertex_top`, and the new flat run -/
theorem flatRun_update (pc : Bool) (h h2 : HEdge) (nv : HV) (tl : List HV) (hr : h.rest = nv :: tl) (hy : nv.pt.y = h.top.y)
    (hu : updateEdge pc h = some h2) :
    ∃ pre0 v, flatRun h = pre0 ++ v :: flatRun h2 ∧ h2.top = v.pt ∧ h2.bot = h.top ∧ h2.currX = h.top.x ∧ h2.id = h.id ∧
      h2.top.y = h.top.y := by
  obtain ⟨h2', pre0, v, hu', hrest, hpre, htop, _, _, hbot, hcx, hid, hvy, _⟩ := updateEdge_spec pc h nv tl hr
  rw [hu] at hu'
  cases hu'
  have hv := hvy hy
  have hty : h2.top.y = h.top.y := by rw [htop]; exact hv
  refine ⟨pre0, v, ?_, htop, hbot, hcx, hid, hty⟩
  unfold flatRun
  rw [hrest, takeWhile_append_all _ _ _ (fun a ha => by simpa using hpre a ha)]
  simp only [List.takeWhile_cons, hv, decide_true, if_true, hty]

theorem getLast?_append_cons {α : Type} (a : List α) (x : α) (t : List α) : (a ++ x :: t).getLast? = (x :: t).getLast? := by
  rw [List.getLast?_append]
  rw [List.getLast?_eq_some_getLast (List.cons_ne_nil x t)]
  rfl

theorem runEnd_update (pc : Bool) (h h2 : HEdge) (nv : HV) (tl : List HV) (hr : h.rest = nv :: tl) (hy : nv.pt.y = h.top.y)
    (hu : updateEdge pc h = some h2) : runEnd h2 = runEnd h := by
  obtain ⟨pre0, v, hf, htop, _⟩ := flatRun_update pc h h2 nv tl hr hy hu
  unfold runEnd
  rw [hf]
  cases hq : flatRun h2 with
  | nil => simp [htop]
  | cons a t =>
    have : (pre0 ++ v :: a :: t).getLast? = (a :: t).getLast? := by
      rw [show pre0 ++ v :: a :: t = (pre0 ++ [v]) ++ (a :: t) by simp]
      exact getLast?_append_cons _ _ _
    rw [this, List.getLast?_eq_some_getLast (List.cons_ne_nil a t)]
    rfl

theorem runMono_update (pc : Bool) (d : Bool) (h h2 : HEdge) (nv : HV) (tl : List HV) (hr : h.rest = nv :: tl) (hy : nv.pt.y = h.top.y)
    (hu : updateEdge pc h = some h2) (hm : RunMono d h) : RunMono d h2 := by
  obtain ⟨pre0, v, hf, htop, hbot, _⟩ := flatRun_update pc h h2 nv tl hr hy hu
  unfold RunMono runXs at hm ⊢
  rw [hf] at hm
  rw [hbot, htop]
  refine hm.sublist ?_
  simp only [List.map_append, List.map_cons]
  refine List.Sublist.cons _ (List.Sublist.cons_cons _ ?_)
  exact List.sublist_append_right _ _

/-- when the next vertex is off the scanline the run ends at `top` -/
theorem runEnd_last (h : HEdge) (nv : HV) (tl : List HV) (hr : h.rest = nv :: tl) (hy : nv.pt.y ≠ h.top.y) : runEnd h = h.top.x := by
  unfold runEnd flatRun
  rw [hr]
  simp [hy]

/-! ## 6. sorted lists with an element put in between -/

theorem pairwise_insert_mid {α : Type} {r : α → α → Prop} (A B : List α) (x : α) (h : (A ++ B).Pairwise r)
    (ha : ∀ a ∈ A, r a x) (hb : ∀ b ∈ B, r x b) : (A ++ x :: B).Pairwise r := by
  rw [List.pairwise_append] at h ⊢
  obtain ⟨h1, h2, h3⟩ := h
  refine ⟨h1, List.pairwise_cons.2 ⟨hb, h2⟩, ?_⟩
  intro a haA b hbB
  rcases List.mem_cons.1 hbB with rfl | hbB
  · exact ha a haA
  · exact h3 a haA b hbB

/-- the swaps of a walk over `P1 ++ P2` are the swaps over `P1` followed by those over `P2` from where the first walk ended -/
theorem walkEvents_append (d : Bool) (i hid : Nat) (P1 P2 : List HEdge) :
    walkEvents d i hid (P1 ++ P2) =
      walkEvents d i hid P1 ++ walkEvents d (if d then i + P1.length else i - P1.length) hid P2 := by
  unfold walkEvents
  rw [List.zipIdx_append, List.map_append]
  congr 1
  rw [List.zipIdx_eq_map_add]
  rw [List.map_map]
  apply List.map_congr_left
  intro p _
  cases d
  · simp only [Function.comp, Bool.false_eq_true, if_false, Nat.zero_add]
    congr 1
    omega
  · simp only [Function.comp, if_true, Nat.zero_add]
    congr 1
    omega

/-! ## 7. one turn keeps the AEL sorted -/

theorem sortedX_zip {L : List HEdge} {h : HEdge} {R : List HEdge} (hs : SortedX (zip L h R)) :
    SortedX (L.reverse ++ R) ∧ (∀ a ∈ L, a.currX ≤ h.currX) ∧ (∀ b ∈ R, h.currX ≤ b.currX) := by
  unfold SortedX zip at hs
  refine ⟨hs.sublist (List.Sublist.append_left (List.sublist_cons_self _ _) _), ?_, ?_⟩
  · intro a ha
    exact (List.pairwise_append.1 hs).2.2 a (List.mem_reverse.2 ha) h (by simp)
  · intro b hb
    exact (List.pairwise_cons.1 (List.pairwise_append.1 hs).2.1).1 b hb

/-- `horz`'s successor `x`, standing at `far`, put where the walk ended: the AEL stays sorted when the edges passed are not beyond
`far` and the first edge not passed is not before it -/
theorem seg_sorted_surv (d : Bool) (L : List HEdge) (h : HEdge) (R P Q : List HEdge) (x : HEdge) (far : Int)
    (hs : SortedX (zip L h R)) (hpq : ahead d L R = P ++ Q) (hx : x.currX = far)
    (hh : if d then h.currX ≤ far else far ≤ h.currX)
    (hp : ∀ p ∈ P, if d then p.currX ≤ far else far ≤ p.currX)
    (hq : ∀ q ∈ Q.head?, if d then far ≤ q.currX else q.currX ≤ far) : SortedX (aelSurv d L R P Q x) := by
  obtain ⟨s1, s2, s3⟩ := sortedX_zip hs
  cases d
  · -- right to left: `L = P ++ Q`
    simp only [ahead, Bool.false_eq_true, if_false] at hpq hh hp hq
    simp only [aelSurv, Bool.false_eq_true, if_false]
    subst hpq
    unfold SortedX at s1 ⊢
    simp only [List.reverse_append, List.append_assoc] at s1
    refine pairwise_insert_mid _ _ _ s1 ?_ ?_
    · intro a ha
      rw [hx]
      cases Q with
      | nil => simp at ha
      | cons q0 t =>
        have hq0 : q0.currX ≤ far := hq q0 (by simp)
        simp only [List.reverse_cons, List.mem_append, List.mem_reverse, List.mem_singleton] at ha
        rcases ha with ha | rfl
        · have : a.currX ≤ q0.currX := by
            have hh2 := (List.pairwise_append.1 s1).1
            simp only [List.reverse_cons] at hh2
            exact (List.pairwise_append.1 hh2).2.2 a (List.mem_reverse.2 ha) q0 (by simp)
          omega
        · exact hq0
    · intro b hb
      rw [hx]
      rcases List.mem_append.1 hb with hb | hb
      · exact hp b (List.mem_reverse.1 hb)
      · have := s3 b hb; omega
  · -- left to right: `R = P ++ Q`
    simp only [ahead, if_true] at hpq hh hp hq
    simp only [aelSurv, if_true]
    subst hpq
    unfold SortedX at s1 ⊢
    rw [← List.append_assoc] at s1
    refine pairwise_insert_mid _ _ _ s1 ?_ ?_
    · intro a ha
      rw [hx]
      rcases List.mem_append.1 ha with ha | ha
      · have := s2 a (List.mem_reverse.1 ha); omega
      · exact hp a ha
    · intro b hb
      rw [hx]
      cases Q with
      | nil => simp at hb
      | cons q0 t =>
        have hq0 : far ≤ q0.currX := hq q0 (by simp)
        rcases List.mem_cons.1 hb with rfl | hb
        · exact hq0
        · have : q0.currX ≤ b.currX := by
            have hh2 := (List.pairwise_append.1 s1).2.1
            exact (List.pairwise_cons.1 hh2).1 b hb
          omega

/-- removing `horz` and one more edge keeps the AEL sorted -/
theorem seg_sorted_max (d : Bool) (L : List HEdge) (h : HEdge) (R P : List HEdge) (p : HEdge) (t : List HEdge)
    (hs : SortedX (zip L h R)) (hpq : ahead d L R = P ++ p :: t) : SortedX (aelMax d L R P t) := by
  obtain ⟨s1, _, _⟩ := sortedX_zip hs
  unfold SortedX at s1 ⊢
  cases d
  · simp only [ahead, Bool.false_eq_true, if_false] at hpq
    simp only [aelMax, Bool.false_eq_true, if_false]
    subst hpq
    refine s1.sublist ?_
    simp only [List.reverse_append, List.reverse_cons, List.append_assoc]
    refine List.Sublist.append_left ?_ _
    exact List.sublist_append_right _ _
  · simp only [ahead, if_true] at hpq
    simp only [aelMax, if_true]
    subst hpq
    refine s1.sublist ?_
    simp only [List.append_assoc]
    refine List.Sublist.append_left (List.Sublist.append_left (List.sublist_cons_self _ _) _) _

/-! ## 8. the whole call for a strictly monotone run -/

/-- what is proved of a call with a strictly monotone run (direction `d`), `evs` being the events emitted before -/
def MonoOut (d : Bool) (vmax : Option Nat) (L : List HEdge) (h : HEdge) (R : List HEdge) (evs : List Ev) (res : Res) : Prop :=
  ∃ P Q, ahead d L R = P ++ Q ∧ (∀ p ∈ P, some p.vtop ≠ vmax) ∧ res.fault = false ∧ SortedX res.ael ∧
    ((∃ hf, res.ael = aelSurv d L R P Q hf ∧ res.evs = evs ++ walkEvents d L.length h.id P ∧ hf.id = h.id ∧
        hf.currX = runEnd h ∧ hf.bot = ⟨runEnd h, h.top.y⟩ ∧ hf.isHorz = false) ∨
     (∃ p t, Q = p :: t ∧ some p.vtop = vmax ∧ res.ael = aelMax d L R P t ∧
        res.evs = evs ++ walkEvents d L.length h.id P ++ [evMax d L P t h.id p.id]))

theorem outer_mono (pc : Bool) (topx : HEdge → Int → Int) (vmax : Option Nat) (d : Bool) : ∀ (fuel : Nat) (L : List HEdge) (h : HEdge)
    (R : List HEdge) (evs : List Ev), flatLen h.top.y h.rest < fuel → Leaves h → h.currX = h.bot.x → RunMono d h →
    SortedX (zip L h R) → (∀ v, vmax = some v → ∃ p ∈ ahead d L R, p.vtop = v) →
    MonoOut d vmax L h R evs (outer pc topx vmax fuel L h R evs) := by
  intro fuel
  induction fuel with
  | zero => intro L h R evs hf; omega
  | succ fuel ih =>
    intro L h R evs hf hl hb hm hs hpa
    unfold outer
    obtain ⟨u, hu, hne⟩ := hl
    cases hr : h.rest with
    | nil => rw [hr] at hu; simp at hu
    | cons nv tl =>
      obtain ⟨hA, hB⟩ := segStep_spec pc topx vmax L h R evs nv tl hr
      obtain ⟨g1, g2, g3, g4, g5, g6⟩ := segOf_dir vmax h R nv.pt d hb hm
      rw [g1] at hA hB
      generalize hw : walk topx (segOf vmax h R nv.pt) (ahead d L R) = w at hA hB
      have hpart : w.1 ++ w.2.2 = ahead d L R := by rw [← hw]; exact walk_partition _ _ _
      have hpass : ∀ e ∈ w.1, some e.vtop ≠ vmax ∧ ((segOf vmax h R nv.pt).atMax = true ∨ stopHere topx (segOf vmax h R nv.pt) e = false) := by
        intro e he
        have := walk_passed topx (segOf vmax h R nv.pt) (ahead d L R) e (by rw [hw]; exact he)
        rw [g5] at this; exact this
      by_cases hmx : w.2.1 = .maxPair
      · -- the maxima pair leaves
        obtain ⟨p, t, hq, hp, hseg⟩ := hA hmx
        rw [hseg]
        refine ⟨w.1, w.2.2, hpart.symm, fun e he => (hpass e he).1, by cases d <;> rfl, ?_, Or.inr ⟨p, t, hq, hp, ?_, ?_⟩⟩
        · have := seg_sorted_max d L h R w.1 p t hs (by rw [← hpart, hq])
          cases d
          · simpa [aelMax] using this
          · simpa [aelMax] using this
        · cases d <;> simp [aelMax]
        · cases d <;> simp [evMax, Nat.add_comm]
      · -- `UpdateEdgeIntoAEL`
        obtain ⟨h2, hu2, hseg⟩ := hB hmx
        rw [hseg]
        -- the horizontal does not end in the maximum here: its pair would have stopped the walk
        have hna : (segOf vmax h R nv.pt).atMax = false := by
          cases ha : (segOf vmax h R nv.pt).atMax with
          | false => rfl
          | true =>
            exfalso
            rw [g6] at ha
            have hv : vmax = some h.vtop := by simpa using ha
            obtain ⟨p, hp, hpv⟩ := hpa h.vtop hv
            have := walk_finds_pair topx (segOf vmax h R nv.pt) (by rw [g6]; simpa using hv) (ahead d L R)
              ⟨p, hp, by rw [g5, hpv, hv]⟩
            rw [hw] at this
            exact hmx this
        have hpb : ∀ e ∈ w.1, if d then e.currX ≤ h.top.x else h.top.x ≤ e.currX := by
          intro e he
          have hst : stopHere topx (segOf vmax h R nv.pt) e = false := by
            rcases (hpass e he).2 with h1 | h1
            · rw [hna] at h1; cases h1
            · exact h1
          cases d
          · have := stopHere_false_r2l g1 hst; rw [g3 rfl] at this; simpa using this
          · have := stopHere_false_l2r g1 hst; rw [g2 rfl] at this; simpa using this
        have hqb : ∀ q ∈ w.2.2.head?, if d then h.top.x ≤ q.currX else q.currX ≤ h.top.x := by
          intro q hq
          cases hst : w.2.1 with
          | maxPair => exact absurd hst hmx
          | endOfAel =>
            have := walk_stop_end topx (segOf vmax h R nv.pt) (ahead d L R) (by rw [hw]; exact hst)
            rw [hw] at this; rw [this] at hq; simp at hq
          | brk =>
            obtain ⟨p, t, hpt, _, _, hsp⟩ := walk_stop_brk topx (segOf vmax h R nv.pt) (ahead d L R) (by rw [hw]; exact hst)
            rw [hw] at hpt; rw [hpt] at hq
            simp only [List.head?_cons, Option.mem_def, Option.some.injEq] at hq
            subst hq
            cases d
            · have := stopHere_true_r2l g1 hsp; rw [g3 rfl, g4] at this; simp only [Bool.false_eq_true, if_false]; omega
            · have := stopHere_true_l2r g1 hsp; rw [g2 rfl, g4] at this; simp only [if_true]; omega
        have hhb : if d then h.currX ≤ h.top.x else h.top.x ≤ h.currX := by
          have := runMono_head hm
          unfold fwd at this
          cases d
          · simp only [Bool.false_eq_true, if_false] at this ⊢; omega
          · simp only [if_true] at this ⊢; omega
        obtain ⟨_, pre0, v, hu', hrest, hpre, htop, _, _, hbot, hcx, hid, hvy, hvn⟩ := updateEdge_spec pc h nv tl hr
        rw [hu2] at hu'
        cases hu'
        have hsorted : SortedX (aelSurv d L R w.1 w.2.2 h2) :=
          seg_sorted_surv d L h R w.1 w.2.2 h2 h.top.x hs hpart.symm hcx hhb hpb hqb
        by_cases hy : nv.pt.y = h.top.y
        · -- another horizontal: next turn
          simp only [hy, ne_eq, not_true_eq_false, if_false]
          obtain ⟨m1, m2, m3⟩ := updateEdge_measure pc h h2 nv tl hr hy hu2
          have hm2 := runMono_update pc d h h2 nv tl hr hy hu2 hm
          have he2 := runEnd_update pc h h2 nv tl hr hy hu2
          have hb2 : h2.currX = h2.bot.x := by rw [hcx, hbot]
          have hpa2 : ∀ v, vmax = some v → ∃ p ∈ w.2.2, p.vtop = v := by
            intro v hv
            obtain ⟨p, hp, hpv⟩ := hpa v hv
            rw [← hpart] at hp
            rcases List.mem_append.1 hp with hp | hp
            · exact absurd (by rw [hpv, hv]) (hpass p hp).1
            · exact ⟨p, hp, hpv⟩
          cases d
          · -- right to left
            simp only [Bool.false_eq_true, if_false]
            simp only [ahead, Bool.false_eq_true, if_false] at hpart
            have hs2 : SortedX (zip w.2.2 h2 (w.1.reverse ++ R)) := by simpa [aelSurv, zip] using hsorted
            obtain ⟨P2, Q2, e1, e2, e3, e4, e5⟩ := ih w.2.2 h2 (w.1.reverse ++ R) (evs ++ walkEvents false L.length h.id w.1)
              (by rw [m1]; omega) (m3 ⟨u, hu, hne⟩) hb2 hm2 hs2 (by simpa [ahead] using hpa2)
            simp only [ahead, Bool.false_eq_true, if_false] at e1
            refine ⟨w.1 ++ P2, Q2, by simp only [ahead, Bool.false_eq_true, if_false]; rw [← hpart, e1, List.append_assoc], ?_, e3, e4, ?_⟩
            · intro e he
              rcases List.mem_append.1 he with he | he
              · exact (hpass e he).1
              · exact e2 e he
            · have hlen : w.2.2.length = L.length - w.1.length := by rw [← hpart]; simp
              rcases e5 with ⟨hf, a1, a2, a3, a4, a5, a6⟩ | ⟨p, t, a1, a2, a3, a4⟩
              · refine Or.inl ⟨hf, ?_, ?_, by rw [a3, hid], by rw [a4, he2], by rw [a5, he2, m1], a6⟩
                · rw [a1]; simp [aelSurv]
                · rw [a2, walkEvents_append, hid, hlen]; simp
              · refine Or.inr ⟨p, t, a1, a2, ?_, ?_⟩
                · rw [a3]; simp [aelMax]
                · rw [a4, walkEvents_append, hid, hlen]; simp [evMax]
          · -- left to right
            simp only [if_true]
            simp only [ahead, if_true] at hpart
            have hs2 : SortedX (zip (w.1.reverse ++ L) h2 w.2.2) := by simpa [aelSurv, zip] using hsorted
            obtain ⟨P2, Q2, e1, e2, e3, e4, e5⟩ := ih (w.1.reverse ++ L) h2 w.2.2 (evs ++ walkEvents true L.length h.id w.1)
              (by rw [m1]; omega) (m3 ⟨u, hu, hne⟩) hb2 hm2 hs2 (by simpa [ahead] using hpa2)
            simp only [ahead, if_true] at e1
            refine ⟨w.1 ++ P2, Q2, by simp only [ahead, if_true]; rw [← hpart, e1, List.append_assoc], ?_, e3, e4, ?_⟩
            · intro e he
              rcases List.mem_append.1 he with he | he
              · exact (hpass e he).1
              · exact e2 e he
            · have hlen : (w.1.reverse ++ L).length = L.length + w.1.length := by simp; omega
              rcases e5 with ⟨hf, a1, a2, a3, a4, a5, a6⟩ | ⟨p, t, a1, a2, a3, a4⟩
              · refine Or.inl ⟨hf, ?_, ?_, by rw [a3, hid], by rw [a4, he2], by rw [a5, he2, m1], a6⟩
                · rw [a1]; simp [aelSurv]
                · rw [a2, walkEvents_append, hid, hlen]; simp
              · refine Or.inr ⟨p, t, a1, a2, ?_, ?_⟩
                · rw [a3]; simp [aelMax]
                · rw [a4, walkEvents_append, hid, hlen]; simp [evMax]; omega
        · -- the bound leaves the scanline: done
          simp only [ne_eq, hy, not_false_eq_true, if_true]
          obtain ⟨hp0, hvv⟩ := hvn hy
          subst hvv
          have hend : runEnd h = h.top.x := runEnd_last h v tl hr hy
          have hnh : h2.isHorz = false := by
            cases hh : h2.isHorz with
            | false => rfl
            | true => rw [isHorz_iff, htop, hbot] at hh; exact absurd hh hy
          refine ⟨w.1, w.2.2, hpart.symm, fun e he => (hpass e he).1, by cases d <;> rfl, ?_, Or.inl ⟨h2, ?_, ?_, hid, by rw [hcx, hend], ?_, hnh⟩⟩
          · cases d
            · simpa [aelSurv] using hsorted
            · simpa [aelSurv] using hsorted
          · cases d <;> simp [aelSurv]
          · cases d <;> rfl
          · rw [hbot, hend]

/-! ## 9. the zipper of a call -/

theorem splitAt_spec (hid : Nat) : ∀ (ael acc L : List HEdge) (h : HEdge) (R : List HEdge),
    splitAt hid acc ael = some (L, h, R) → acc.reverse ++ ael = zip L h R ∧ h.id = hid := by
  intro ael
  induction ael with
  | nil => intro acc L h R hs; simp [splitAt] at hs
  | cons e rest ih =>
    intro acc L h R hs
    unfold splitAt at hs
    split at hs
    · rename_i he
      simp only [Option.some.injEq, Prod.mk.injEq] at hs
      obtain ⟨rfl, rfl, rfl⟩ := hs
      exact ⟨rfl, he⟩
    · obtain ⟨h1, h2⟩ := ih (e :: acc) L h R hs
      exact ⟨by simpa using h1, h2⟩

/-- the popped edge is found when it is in the AEL -/
theorem splitAt_of_mem (hid : Nat) : ∀ (ael acc : List HEdge), (∃ e ∈ ael, e.id = hid) → ∃ L h R, splitAt hid acc ael = some (L, h, R) := by
  intro ael
  induction ael with
  | nil => intro acc h; simp at h
  | cons e rest ih =>
    intro acc ⟨x, hx, hid'⟩
    unfold splitAt
    by_cases he : e.id = hid
    · exact ⟨acc, e, rest, by simp [he]⟩
    · simp only [he, if_false]
      rcases List.mem_cons.1 hx with rfl | hx
      · exact absurd hid' he
      · exact ih (e :: acc) ⟨x, hx, hid'⟩

theorem filter_split {α : Type} (p : α → Bool) (P Q : List α) (hp : ∀ a ∈ P, p a = true) (hq : ∀ a ∈ Q, p a = false) :
    (P ++ Q).filter p = P := by
  rw [List.filter_append, List.filter_eq_self.2 hp, List.filter_eq_nil_iff.2 (fun a ha => by simp [hq a ha])]
  simp

end Clipper.Lemmas.SweepHorz
