import ClipperVerif.Model.IntersectList
import ClipperVerif.Lemmas.Inversions
/-! Lemmas relating the executable `ProcessIntersectList` model to the inversion combinatorics. -/
namespace Clipper.Lemmas.IntersectList
open Clipper.Model.IntersectList Clipper.Lemmas.Inversions

theorem adjacent_append (l₁ l₂ : List Nat) (a b : Nat) : adjacent (l₁ ++ a :: b :: l₂) (a, b) = true := by
  induction l₁ with
  | nil => simp [adjacent]
  | cons c l₁ ih =>
    cases l₁ with
    | nil => simp only [List.cons_append, List.nil_append, adjacent] at ih ⊢; simp
    | cons d l₁ => simp only [List.cons_append, adjacent] at ih ⊢; simp [ih]

theorem adjacent_mem (l : List Nat) (n : Nat × Nat) (h : adjacent l n = true) : n.1 ∈ l ∧ n.2 ∈ l := by
  induction l with
  | nil => simp [adjacent] at h
  | cons x t ih =>
    cases t with
    | nil => simp [adjacent] at h
    | cons y t =>
      simp only [adjacent, Bool.or_eq_true, Bool.and_eq_true, beq_iff_eq] at h
      rcases h with (⟨rfl, rfl⟩ | ⟨rfl, rfl⟩) | h
      · simp
      · simp
      · have := ih h; exact ⟨List.mem_cons_of_mem _ this.1, List.mem_cons_of_mem _ this.2⟩

/-- an adjacent node that is an inversion of a list of distinct keys sits as `… a, b …` and `swapIn` exchanges exactly it -/
theorem adjacent_inversion_shape (π : List Nat) (a b : Nat) (hnd : π.Nodup) (hs : [a, b].Sublist π)
    (hadj : adjacent π (a, b) = true) :
    ∃ l₁ l₂, π = l₁ ++ a :: b :: l₂ ∧ swapIn π (a, b) = l₁ ++ b :: a :: l₂ := by
  induction π with
  | nil => simp [adjacent] at hadj
  | cons x t ih =>
    cases t with
    | nil => simp [adjacent] at hadj
    | cons y t =>
      have hndt : (y :: t).Nodup := (List.nodup_cons.mp hnd).2
      have hx : x ∉ y :: t := (List.nodup_cons.mp hnd).1
      by_cases hc : ((x == a && y == b) || (x == b && y == a)) = true
      · simp only [Bool.or_eq_true, Bool.and_eq_true, beq_iff_eq] at hc
        rcases hc with ⟨rfl, rfl⟩ | ⟨rfl, rfl⟩
        · exact ⟨[], t, rfl, by simp [swapIn]⟩
        · exfalso
          exact nodup_not_both_orders _ y x hnd hs (List.Sublist.cons_cons _ (List.Sublist.cons_cons _ (List.nil_sublist t)))
      · have hc' : ((x == a && y == b) || (x == b && y == a)) = false := by simpa using hc
        have hadj' : adjacent (y :: t) (a, b) = true := by
          simp only [adjacent] at hadj; simp only [hc', Bool.false_or] at hadj; exact hadj
        have hs' : [a, b].Sublist (y :: t) := by
          rw [List.sublist_cons_iff] at hs
          rcases hs with hs | ⟨r, hr, _⟩
          · exact hs
          · simp only [List.cons.injEq] at hr
            exact absurd (hr.1 ▸ (adjacent_mem _ _ hadj').1) hx
        obtain ⟨l₁, l₂, he, hsw⟩ := ih hndt hs' hadj'
        refine ⟨x :: l₁, l₂, by simp [he], ?_⟩
        simp only [swapIn, hc', Bool.false_eq_true, if_false, hsw, List.cons_append]

theorem scanSwap_spec {α : Type} [BEq α] [LawfulBEq α] (p : α → Bool) (n : α) (rest : List α) (h : ∃ m ∈ rest, p m = true) :
    ∃ m rest', scanSwap p n rest = some (m, rest') ∧ p m = true ∧ m ∈ rest ∧ rest'.Perm (n :: rest.erase m) ∧
      rest'.length = rest.length := by
  induction rest with
  | nil => obtain ⟨m, hm, _⟩ := h; simp at hm
  | cons c t ih =>
    by_cases hc : p c = true
    · exact ⟨c, n :: t, by simp [scanSwap, hc], hc, by simp, by simp, by simp⟩
    · have h' : ∃ m ∈ t, p m = true := by
        obtain ⟨m, hm, hp⟩ := h
        rcases List.mem_cons.mp hm with rfl | hm
        · exact absurd hp hc
        · exact ⟨m, hm, hp⟩
      obtain ⟨m, rest', he, hp, hm, hperm, hlen⟩ := ih h'
      have hne : c ≠ m := fun e => hc (e ▸ hp)
      refine ⟨m, c :: rest', by simp [scanSwap, hc, he], hp, List.mem_cons_of_mem _ hm, ?_, by simp [hlen]⟩
      rw [List.erase_cons_tail (by simpa using hne)]
      exact (List.Perm.cons c hperm).trans (List.Perm.swap n c _)

/-- **the modelled loop never runs the scan past the end**: started on a list of distinct keys with the node list a
permutation of its inversions, `process` returns normally, with the keys in target order. -/
theorem process_ok (fuel : Nat) (π : List Nat) (nodes : List (Nat × Nat)) (hf : fuel = nodes.length)
    (hnd : π.Nodup) (hinv : nodes.Perm (invPairs π)) :
    ∃ π', process fuel π nodes = .ok π' ∧ π'.Pairwise (· ≤ ·) ∧ π'.Perm π := by
  induction fuel generalizing π nodes with
  | zero =>
    have : nodes = [] := List.length_eq_zero_iff.mp hf.symm
    subst this
    exact ⟨π, rfl, (invPairs_eq_nil_iff π).mp (List.Perm.eq_nil hinv.symm |> fun h => h), List.Perm.refl _⟩
  | succ fuel ih =>
    match nodes, hf, hinv with
    | [], hf, _ => simp at hf
    | n :: rest, hf, hinv =>
      have hlen : fuel = rest.length := by simpa using hf
      have hN : invPairs π ≠ [] := fun h => by have := List.Perm.eq_nil (h ▸ hinv); simp at this
      -- every node is an inversion
      have hmem : ∀ m ∈ n :: rest, m.2 < m.1 ∧ [m.1, m.2].Sublist π := fun m hm =>
        (mem_invPairs π m.1 m.2).mp (hinv.subset hm)
      -- the step for a chosen adjacent node `m` with remaining list `rest'`
      have step : ∀ (m : Nat × Nat) (rest' : List (Nat × Nat)), m ∈ n :: rest → adjacent π m = true →
          rest'.Perm ((n :: rest).erase m) → rest'.length = rest.length →
          ∃ π', process fuel (swapIn π m) rest' = .ok π' ∧ π'.Pairwise (· ≤ ·) ∧ π'.Perm π := by
        intro m rest' hm hadj hperm hl
        obtain ⟨hlt, hsub⟩ := hmem m hm
        obtain ⟨l₁, l₂, he, hsw⟩ := adjacent_inversion_shape π m.1 m.2 hnd hsub hadj
        have hm' : m = (m.1, m.2) := rfl
        rw [hm', hsw]
        have hinv' : (n :: rest).Perm (invPairs (l₁ ++ m.1 :: m.2 :: l₂)) := he ▸ hinv
        have hstep := (Clipper.Lemmas.Inversions.invPairs_swap_perm l₁ l₂ m.1 m.2 hlt)
        have hp2 : ((n :: rest).erase m).Perm (invPairs (l₁ ++ m.2 :: m.1 :: l₂)) := by
          have h1 := (List.perm_cons_erase hm).symm.trans (hinv'.trans hstep)
          exact List.Perm.cons_inv h1
        have hswperm : (l₁ ++ m.2 :: m.1 :: l₂).Perm π := by
          rw [he]; exact List.Perm.append_left l₁ (List.Perm.swap _ _ l₂)
        have hnd' : (l₁ ++ m.2 :: m.1 :: l₂).Nodup := (List.Perm.nodup_iff hswperm).mpr hnd
        obtain ⟨π', hok, hsorted, hpp⟩ := ih (l₁ ++ m.2 :: m.1 :: l₂) rest' (by omega) hnd' (hperm.trans hp2)
        exact ⟨π', hok, hsorted, hpp.trans hswperm⟩
      by_cases hadj : adjacent π n = true
      · simp only [process, hadj, if_true]
        exact step n rest (by simp) hadj (by simp) rfl
      · -- some node is adjacent (scan_finds_node); it is not `n`, so it is in `rest`
        obtain ⟨l₁, a, b, l₂, he, hlt⟩ := exists_adjacent_inversion π hN
        have hab : (a, b) ∈ invPairs π := by
          rw [he]; exact (invPairs_swap_perm l₁ l₂ a b hlt).symm.subset (List.mem_cons_self ..)
        have habn : (a, b) ∈ n :: rest := hinv.symm.subset hab
        have hadjab : adjacent π (a, b) = true := he ▸ adjacent_append l₁ l₂ a b
        have hrest : ∃ m ∈ rest, adjacent π m = true := by
          rcases List.mem_cons.mp habn with h | h
          · exact absurd (h ▸ hadjab) hadj
          · exact ⟨(a, b), h, hadjab⟩
        obtain ⟨m, rest', hsc, hpm, hmr, hperm, hl⟩ := scanSwap_spec (adjacent π) n rest hrest
        have hadjf : adjacent π n = false := by simpa using hadj
        simp only [process, hadjf, Bool.false_eq_true, if_false, hsc]
        have hne : n ≠ m := fun e => hadj (e ▸ hpm)
        refine step m rest' (List.mem_cons_of_mem _ hmr) hpm ?_ hl
        rw [List.erase_cons_tail (by simpa using hne)]
        exact hperm

end Clipper.Lemmas.IntersectList
