/-
Soundness of the decidable hypothesis checks of `Model/OwnerHyp.lean`.
-/
import ClipperVerif.Model.OwnerHyp
import ClipperVerif.Lemmas.OwnerPerm
import ClipperVerif.Lemmas.OwnerTermTree
namespace Clipper.Model.Owner
open Clipper

theorem allRecs_spec {T : Table} {P : Nat → OutRec → Bool} (h : allRecs T P = true) {j : Nat} {r : OutRec}
    (hj : T[j]? = some r) : P j r = true := by
  unfold allRecs at h
  rw [List.all_eq_true] at h
  have := h j (List.mem_range.mpr (getElem?_lt hj))
  simpa [hj] using this

theorem freshB_sound {T : Table} (h : freshB T = true) : Fresh T := by
  intro j r hj
  have := allRecs_spec h hj
  simp only [Bool.and_eq_true, Option.isNone_iff_eq_none] at this
  exact this

theorem ownersInRangeB_sound {T : Table} (h : ownersInRangeB T = true) : OwnersInRange T := by
  intro j r o hj ho
  have := allRecs_spec h hj
  simpa [ho] using this

theorem splitsInRangeB_sound {T : Table} (h : splitsInRangeB T = true) : SplitsInRange T := by
  intro j r s hj hs
  have := allRecs_spec h hj
  rw [List.all_eq_true] at this
  simpa using this s hs

theorem closedAt_sound {T : Table} {k : Nat} (h : closedAt T k = true) : IsClosedIn T k := by
  unfold closedAt at h
  split at h
  · simp at h
  · rename_i r hr
    exact ⟨r, hr, by simpa using h⟩

theorem closedWorldB_sound {T : Table} (h : closedWorldB T = true) : ClosedWorld T := by
  intro j r hj hcl
  have := allRecs_spec h hj
  simp only [hcl, Bool.false_or, Bool.and_eq_true, List.all_eq_true] at this
  refine ⟨fun o ho => ?_, fun s hs => closedAt_sound (this.2 s hs)⟩
  have h1 := this.1
  rw [ho] at h1
  exact closedAt_sound h1

theorem h1B_sound {clean : Nat → CleanRes} {T : Table} (h : h1B clean T = true) :
    ∀ (i : Nat) (r : OutRec) (p : Path), T[i]? = some r → r.isOpen = false → r.hasPts = true →
      clean i = .path p → (getBounds p).isEmpty = false := by
  intro i r p hi ho hp hc
  have := allRecs_spec h hi
  simpa [ho, hp, hc] using this

theorem ownerRankB_sound {T : Table} {rk : Nat → Nat} (h : ownerRankB T rk = true) : RankOK T rk := by
  intro j r o hj ho
  have := allRecs_spec h hj
  simpa [ho] using this

theorem ownerRankB_acyclic {T : Table} {rk : Nat → Nat} (h : ownerRankB T rk = true) : Acyclic T :=
  ⟨rk, ownerRankB_sound h⟩

theorem pointless_iff {clean : Nat → CleanRes} {j : Nat} {r : OutRec} :
    pointless clean j r = true ↔ (r.hasPts = false ∨ clean j = .disposed) := by
  unfold pointless isDisposed
  cases r.hasPts <;> cases clean j <;> simp

theorem splitsRankB_sound {clean : Nat → CleanRes} {T : Table} {rk : Nat → Nat} (h : splitsRankB clean T rk = true) :
    SplitsRank clean T rk := by
  intro j r s hj hp hs
  have := allRecs_spec h hj
  rw [pointless_iff.mpr hp] at this
  simp only [Bool.not_true, Bool.false_or, List.all_eq_true, decide_eq_true_eq] at this
  exact this s hs

theorem splitsRankB_wf {clean : Nat → CleanRes} {T : Table} {rk : Nat → Nat} (h : splitsRankB clean T rk = true) :
    SplitsWF clean T := ⟨rk, splitsRankB_sound h⟩

theorem splitsAllRankB_sound {T : Table} {rk : Nat → Nat} (h : splitsAllRankB T rk = true) : SplitsAcyclic T := by
  refine ⟨rk, fun j r s hj hs => ?_⟩
  have := allRecs_spec h hj
  simp only [List.all_eq_true, decide_eq_true_eq] at this
  exact this s hs

theorem plEdge_lt {clean : Nat → CleanRes} {T : Table} {rk : Nat → Nat} (hr : SplitsRank clean T rk) {a b : Nat}
    (h : plEdge clean T a b = true) : rk b < rk a := by
  unfold plEdge at h
  split at h
  · simp at h
  · rename_i r hra
    simp only [Bool.and_eq_true, List.contains_iff_mem] at h
    exact hr a r b hra (pointless_iff.mp h.1) h.2

theorem walkB_lt {clean : Nat → CleanRes} {T : Table} {rk : Nat → Nat} (hr : SplitsRank clean T rk) {c0 : Nat} :
    ∀ (rest : List Nat) (cur : Nat), walkB clean T c0 cur rest = true → rk c0 < rk cur := by
  intro rest
  induction rest with
  | nil => intro cur h; exact plEdge_lt hr h
  | cons nxt rest ih =>
    intro cur h
    simp only [walkB, Bool.and_eq_true] at h
    have h1 := plEdge_lt hr h.1
    have h2 := ih nxt h.2
    omega

/-- a closed walk through point-less outrecs along `splits` refutes `SplitsWF` -/
theorem splitsCycleB_sound {clean : Nat → CleanRes} {T : Table} {c : List Nat} (h : splitsCycleB clean T c = true) :
    ¬ SplitsWF clean T := by
  intro ⟨rk, hr⟩
  cases c with
  | nil => simp [splitsCycleB] at h
  | cons c0 cs =>
    have := walkB_lt hr cs c0 h
    omega

end Clipper.Model.Owner
