import ClipperVerif.Model.BuildIntersectList
import ClipperVerif.Lemmas.StableSort
/-!
# Lemmas on the `BuildIntersectList` model: the nodes recorded are the inversions, the SEL ends stably sorted

Invariant of the bottom-up merge sort (`Model/BuildIntersectList.lean`): every run is sorted by `curr_x`, and

    nodes recorded so far  ++  inversions (concatenation of the runs)   ~   inversions (AEL)

(`~` = permutation, i.e. equality of multisets).  Merging two sorted runs `L`, `R` records exactly `cross L R` (the pairs
`(l, r)` with `r.curr_x < l.curr_x`) and removes exactly these inversions from the concatenation.  All multiset
reasoning is done through `List.perm_iff_count` and linear arithmetic on counts.  Core Lean only.
-/
namespace Clipper.Lemmas.BuildIntersectList
open Clipper.Model.BuildIntersectList Clipper.Lemmas.StableSort

/-- sorted by `curr_x` (non-strictly) -/
def SortedX (l : List Edge) : Prop := l.Pairwise (fun a b => a.2 ≤ b.2)

/-- the inversions of one edge `a` against the edges `R` to its right -/
def row (a : Edge) (R : List Edge) : List Node := (R.filter (fun b => b.2 < a.2)).map (fun b => (a.1, b.1))

/-- the inversions between a block `L` and a block `R` to its right -/
def cross : List Edge → List Edge → List Node
  | [], _ => []
  | a :: L, R => row a R ++ cross L R

/-- the inversions of one edge `r` against the edges `L` to its left -/
def col (L : List Edge) (r : Edge) : List Node := (L.filter (fun a => r.2 < a.2)).map (fun a => (a.1, r.1))

theorem inversions_cons (a : Edge) (l : List Edge) : inversions (a :: l) = row a l ++ inversions l := rfl

theorem row_append (a : Edge) (X Y : List Edge) : row a (X ++ Y) = row a X ++ row a Y := by
  simp [row]

theorem row_perm (a : Edge) {R R' : List Edge} (h : R.Perm R') : (row a R).Perm (row a R') :=
  (h.filter _).map _

theorem cross_nil_right (L : List Edge) : cross L [] = [] := by
  induction L with
  | nil => rfl
  | cons a L ih => simp [cross, row, ih]

theorem cross_append_left (X Y R : List Edge) : cross (X ++ Y) R = cross X R ++ cross Y R := by
  induction X with
  | nil => rfl
  | cons a X ih => simp [cross, ih]

theorem cross_perm_right (L : List Edge) {R R' : List Edge} (h : R.Perm R') : (cross L R).Perm (cross L R') := by
  induction L with
  | nil => exact List.Perm.refl _
  | cons a L ih => exact (row_perm a h).append ih

theorem cross_perm_left {L L' : List Edge} (R : List Edge) (h : L.Perm L') : (cross L R).Perm (cross L' R) := by
  induction h with
  | nil => exact List.Perm.refl _
  | cons x _ ih => exact (List.Perm.refl _).append ih
  | swap x y l =>
    simp only [cross]
    rw [← List.append_assoc, ← List.append_assoc]
    exact List.Perm.append_right _ List.perm_append_comm
  | trans _ _ ih1 ih2 => exact ih1.trans ih2

theorem cross_append_right (L X Y : List Edge) : (cross L (X ++ Y)).Perm (cross L X ++ cross L Y) := by
  induction L with
  | nil => exact List.Perm.refl _
  | cons a L ih =>
    rw [List.perm_iff_count] at ih ⊢
    intro n
    have := ih n
    simp only [cross, row_append, List.count_append] at this ⊢
    omega

/-- peeling the first edge of the right block -/
theorem cross_cons_right (L : List Edge) (r : Edge) (R : List Edge) :
    (cross L (r :: R)).Perm (col L r ++ cross L R) := by
  induction L with
  | nil => exact List.Perm.refl _
  | cons a L ih =>
    rw [List.perm_iff_count] at ih ⊢
    intro n
    have := ih n
    by_cases h : r.2 < a.2
    · simp only [cross, row, col, List.filter_cons, h, decide_true, if_true, List.map_cons, List.count_append,
        List.count_cons] at this ⊢
      omega
    · simp only [cross, row, col, List.filter_cons, h, decide_false, Bool.false_eq_true, if_false, List.count_append]
        at this ⊢
      omega

/-- **splitting the inversions of a concatenation** -/
theorem inversions_append (X Y : List Edge) :
    (inversions (X ++ Y)).Perm (inversions X ++ (cross X Y ++ inversions Y)) := by
  induction X with
  | nil => exact List.Perm.refl _
  | cons a X ih =>
    rw [List.perm_iff_count] at ih ⊢
    intro n
    have := ih n
    simp only [List.cons_append, inversions_cons, cross, row_append, List.count_append] at this ⊢
    omega

theorem row_eq_nil_of_le (a : Edge) (R : List Edge) (h : ∀ b ∈ R, a.2 ≤ b.2) : row a R = [] := by
  simp only [row, List.map_eq_nil_iff, List.filter_eq_nil_iff, decide_eq_true_eq]
  intro b hb
  have := h b hb
  omega

/-- a sorted list has no inversion -/
theorem inversions_sorted (l : List Edge) (h : SortedX l) : inversions l = [] := by
  induction l with
  | nil => rfl
  | cons a l ih =>
    have h' := List.pairwise_cons.mp h
    rw [inversions_cons, ih h'.2, row_eq_nil_of_le a l h'.1]
    rfl

/-- and conversely -/
theorem sorted_of_inversions_nil (l : List Edge) (h : inversions l = []) : SortedX l := by
  induction l with
  | nil => exact List.Pairwise.nil
  | cons a l ih =>
    rw [inversions_cons, List.append_eq_nil_iff] at h
    refine List.pairwise_cons.mpr ⟨?_, ih h.2⟩
    intro b hb
    have h1 := h.1
    simp only [row, List.map_eq_nil_iff, List.filter_eq_nil_iff, decide_eq_true_eq] at h1
    have := h1 b hb
    omega

/-- every edge of `L` is to the right of `r`: the whole block is `r`'s column -/
theorem col_all (L : List Edge) (r : Edge) (h : ∀ a ∈ L, r.2 < a.2) : col L r = L.map (fun a => (a.1, r.1)) := by
  unfold col
  rw [List.filter_eq_self.mpr]
  intro a ha
  simpa using h a ha

theorem walkNodes_perm (L : List Edge) (r : Edge) : (walkNodes L r).Perm (L.map (fun a => (a.1, r.1))) :=
  (List.reverse_perm L).map _

/-! ## loop (C): merging two sorted runs -/

/-- the merged run is core's `List.merge` with "take the left edge unless the right one is strictly smaller" -/
theorem mergeRuns_run (L R : List Edge) : (mergeRuns L R).1 = List.merge L R leX := by
  fun_induction mergeRuns L R with
  | case1 R => simp
  | case2 l L => simp
  | case3 l L r R h o ih =>
    have hle : leX l r = false := by simp only [leX, decide_eq_false_iff_not]; omega
    rw [List.merge]
    simp only [hle, Bool.false_eq_true, if_false]
    exact congrArg _ ih
  | case4 l L r R h o ih =>
    have hle : leX l r = true := by simp only [leX, decide_eq_true_eq]; omega
    rw [List.merge]
    simp only [hle, if_true]
    exact congrArg _ ih

theorem leX_trans (a b c : Edge) : leX a b = true → leX b c = true → leX a c = true := by
  simp only [leX, decide_eq_true_eq]; omega

theorem leX_total (a b : Edge) : (leX a b || leX b a) = true := by
  simp only [leX, Bool.or_eq_true, decide_eq_true_eq]; omega

theorem sortedX_iff (l : List Edge) : SortedX l ↔ l.Pairwise (fun a b => leX a b = true) := by
  unfold SortedX
  simp only [leX, decide_eq_true_eq]

theorem mergeRuns_sorted (L R : List Edge) (hL : SortedX L) (hR : SortedX R) : SortedX (mergeRuns L R).1 := by
  rw [mergeRuns_run, sortedX_iff]
  exact List.pairwise_merge leX_trans leX_total L R ((sortedX_iff L).mp hL) ((sortedX_iff R).mp hR)

theorem mergeRuns_perm (L R : List Edge) : (mergeRuns L R).1.Perm (L ++ R) := by
  rw [mergeRuns_run]; exact List.merge_perm_append leX

/-- **merging two sorted runs records exactly the inversions between them** -/
theorem mergeRuns_nodes (L R : List Edge) (hL : SortedX L) (hR : SortedX R) : (mergeRuns L R).2.Perm (cross L R) := by
  fun_induction mergeRuns L R with
  | case1 R => exact List.Perm.refl _
  | case2 l L => rw [cross_nil_right]
  | case3 l L r R h o ih =>
    have hR' := List.pairwise_cons.mp hR
    have hL' := List.pairwise_cons.mp hL
    have hall : ∀ a ∈ l :: L, r.2 < a.2 := by
      intro a ha
      rcases List.mem_cons.mp ha with rfl | ha
      · exact h
      · have := hL'.1 a ha; omega
    have h1 := ih hL hR'.2
    have h2 := (cross_cons_right (l :: L) r R).symm
    rw [col_all _ _ hall] at h2
    exact ((walkNodes_perm (l :: L) r).append h1).trans h2
  | case4 l L r R h o ih =>
    have hR' := List.pairwise_cons.mp hR
    have hL' := List.pairwise_cons.mp hL
    have hrow : row l (r :: R) = [] := by
      apply row_eq_nil_of_le
      intro b hb
      rcases List.mem_cons.mp hb with rfl | hb
      · omega
      · have := hR'.1 b hb; omega
    have h1 := ih hL'.2 hR
    simp only [cross, hrow, List.nil_append]
    exact h1

/-- **stability of the merge**: edges with the same `curr_x` keep their order, those of the left run first -/
theorem mergeRuns_cls (c : Edge) (L R : List Edge) (hL : SortedX L) (hR : SortedX R) :
    cls leX c (mergeRuns L R).1 = cls leX c L ++ cls leX c R := by
  fun_induction mergeRuns L R with
  | case1 R => simp [cls]
  | case2 l L => simp [cls]
  | case3 l L r R h o ih =>
    have hR' := List.pairwise_cons.mp hR
    have hL' := List.pairwise_cons.mp hL
    have h1 := ih hL hR'.2
    by_cases hc : (leX c r && leX r c) = true
    · -- `r` belongs to the class of `c`; nothing of the rest of the left run does
      have hnone : cls leX c (l :: L) = [] := by
        unfold cls
        rw [List.filter_eq_nil_iff]
        intro a ha
        have hra : r.2 < a.2 := by
          rcases List.mem_cons.mp ha with rfl | ha
          · exact h
          · have := hL'.1 a ha; omega
        simp only [leX, Bool.and_eq_true, decide_eq_true_eq] at hc ⊢
        omega
      rw [hnone] at h1 ⊢
      simp only [cls, List.filter_cons, hc, if_true, List.nil_append] at h1 ⊢
      rw [h1]
    · simp only [cls, List.filter_cons, hc] at h1 ⊢
      simp only [Bool.false_eq_true, if_false]
      exact h1
  | case4 l L r R h o ih =>
    have hL' := List.pairwise_cons.mp hL
    have h1 := ih hL'.2 hR
    have e1 : ∀ X : List Edge, cls leX c (l :: X) = cls leX c [l] ++ cls leX c X := fun X => cls_append c [l] X
    rw [e1, e1 L, List.append_assoc]
    exact congrArg _ h1

/-! ## loop (B): one pass -/

/-- every run is sorted -/
def AllSorted (runs : List (List Edge)) : Prop := ∀ r ∈ runs, SortedX r

/-- what a pass keeps and what it records -/
structure PassSpec (runs runs' : List (List Edge)) (nodes : List Node) : Prop where
  sorted : AllSorted runs'
  perm : runs'.flatten.Perm runs.flatten
  stable : ∀ c, cls leX c runs'.flatten = cls leX c runs.flatten
  nodes : (nodes ++ inversions runs'.flatten).Perm (inversions runs.flatten)

theorem mergePass_spec : ∀ (runs : List (List Edge)), AllSorted runs →
    PassSpec runs (mergePass runs).1 (mergePass runs).2
  | [], h => by
    simp only [mergePass]
    exact ⟨h, List.Perm.refl _, fun _ => rfl, List.Perm.refl _⟩
  | [a], h => by
    simp only [mergePass]
    exact ⟨h, List.Perm.refl _, fun _ => rfl, List.Perm.refl _⟩
  | a :: b :: rest, h => by
    have ha : SortedX a := h a (by simp)
    have hb : SortedX b := h b (by simp)
    have hrest : AllSorted rest := fun r hr => h r (by simp [hr])
    have ih := mergePass_spec rest hrest
    have hm_sorted := mergeRuns_sorted a b ha hb
    have hm_perm := mergeRuns_perm a b
    have hm_nodes := mergeRuns_nodes a b ha hb
    have hm_cls := fun c => mergeRuns_cls c a b ha hb
    simp only [mergePass]
    refine ⟨?_, ?_, ?_, ?_⟩
    · intro r hr
      rcases List.mem_cons.mp hr with rfl | hr
      · exact hm_sorted
      · exact ih.sorted r hr
    · simp only [List.flatten_cons]
      rw [← List.append_assoc]
      exact hm_perm.append ih.perm
    · intro c
      simp only [List.flatten_cons, cls_append, hm_cls c, ih.stable c, List.append_assoc]
    · -- counts
      have e1 := inversions_append (mergeRuns a b).1 (mergePass rest).1.flatten
      have e2 := inversions_append (a ++ b) rest.flatten
      have e3 := inversions_append a b
      have e4 : (cross (mergeRuns a b).1 (mergePass rest).1.flatten).Perm (cross (a ++ b) rest.flatten) :=
        (cross_perm_left _ hm_perm).trans (cross_perm_right _ ih.perm)
      have e5 := ih.nodes
      rw [inversions_sorted _ hm_sorted] at e1
      rw [inversions_sorted _ ha, inversions_sorted _ hb] at e3
      simp only [List.flatten_cons]
      rw [← List.append_assoc a b]
      rw [List.perm_iff_count] at e1 e2 e3 e4 e5 hm_nodes ⊢
      intro n
      have := e1 n; have := e2 n; have := e3 n; have := e4 n; have := e5 n; have := hm_nodes n
      simp only [List.count_append, List.count_nil] at *
      omega

/-! ## loop (A): passes until one run is left -/

theorem mergeLoop_spec (runs : List (List Edge)) (acc : List Node) (h : AllSorted runs) :
    SortedX (mergeLoop runs acc).1 ∧ (mergeLoop runs acc).1.Perm runs.flatten ∧
    (∀ c, cls leX c (mergeLoop runs acc).1 = cls leX c runs.flatten) ∧
    (mergeLoop runs acc).2.Perm (acc ++ inversions runs.flatten) := by
  fun_induction mergeLoop runs acc with
  | case1 acc => exact ⟨List.Pairwise.nil, List.Perm.refl _, fun _ => rfl, by simp [inversions]⟩
  | case2 acc r =>
    have hr : SortedX r := h r (by simp)
    refine ⟨hr, by simp, fun _ => by simp, ?_⟩
    simp [inversions_sorted r hr]
  | case3 acc a b rest o ih =>
    have hp := mergePass_spec (a :: b :: rest) h
    rw [show o = mergePass (a :: b :: rest) from rfl] at ih ⊢
    obtain ⟨h1, h2, h3, h4⟩ := ih hp.sorted
    refine ⟨h1, h2.trans hp.perm, fun c => (h3 c).trans (hp.stable c), ?_⟩
    have e := hp.nodes
    rw [List.perm_iff_count] at h4 e ⊢
    intro n
    have := h4 n; have := e n
    simp only [List.count_append] at *
    omega

theorem flatten_map_singleton (l : List Edge) : (l.map (fun e => [e])).flatten = l := by
  induction l with
  | nil => rfl
  | cons a l ih => simp [ih]

theorem allSorted_singletons (l : List Edge) : AllSorted (l.map (fun e => [e])) := by
  intro r hr
  obtain ⟨e, _, rfl⟩ := List.mem_map.mp hr
  exact List.pairwise_singleton _ _

/-- the three facts about the whole function, for every AEL -/
theorem build_spec (ael : List Edge) :
    SortedX (buildIntersectList ael).sel ∧ (buildIntersectList ael).sel.Perm ael ∧
    (∀ c, cls leX c (buildIntersectList ael).sel = cls leX c ael) ∧
    (buildIntersectList ael).nodes.Perm (inversions ael) := by
  match ael with
  | [] => exact ⟨List.Pairwise.nil, List.Perm.refl _, fun _ => rfl, List.Perm.refl _⟩
  | [e] => exact ⟨List.pairwise_singleton _ _, List.Perm.refl _, fun _ => rfl, by simp [buildIntersectList, inversions]⟩
  | a :: b :: t =>
    have h := mergeLoop_spec ((a :: b :: t).map (fun e => [e])) [] (allSorted_singletons _)
    rw [flatten_map_singleton] at h
    simpa [buildIntersectList] using h

end Clipper.Lemmas.BuildIntersectList
