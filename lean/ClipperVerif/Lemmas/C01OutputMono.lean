/-
Helper lemmas for `Props/C01Output.lean`, part 10: THE BOTTOM-UP SCHEDULE IS BOTTOM-UP.  `Model/SweepPoints.geo` exchanges, among the adjacent
pairs that are in the wrong order for the top of the scanbeam, the one whose crossing point is lowest.  Here: the crossing heights it produces
never increase (`geo_heights`).  Invariant: the current list is in (non-strict) left-to-right order on the scanline of the last crossing
processed; hence every remaining inversion crosses at or above that scanline, and — the order on one scanline being transitive — the lowest
remaining crossing is between NEIGHBOURS.  Core Lean only.
-/
import ClipperVerif.Lemmas.C01OutputSched
import ClipperVerif.Lemmas.C01RegionCore
namespace Clipper.Lemmas.C01Output
open Clipper Clipper.Model Clipper.Model.AelOrder Clipper.Model.SweepOrder Clipper.Model.SweepEvents Clipper.Model.SweepPoints
open Clipper.Lemmas.SweepOrder Clipper.Lemmas.C01Region

/-- sign of `x_b − x_a` at the rational height `yn/yd` (`yd > 0`), in terms of the scaled distance at height 0 and the slope difference -/
def gAt (a b : GEdge) (yn yd : Int) : Int := yd * delta 0 a b - yn * sigma a b

theorem leAt_iff_g (a b : GEdge) (yn yd : Int) (hd : 0 < yd) : leAt yn yd a b = true ↔ 0 ≤ gAt a b yn yd := by
  unfold leAt
  rw [decide_eq_true_iff, xGt_iff_G 0 a b yn yd hd]
  unfold gAt
  have : (0 * yd - yn) * sigma a b = -(yn * sigma a b) := by grind
  omega

theorem delta_at (a b : GEdge) (y : Int) : delta y a b = delta 0 a b - y * sigma a b := by
  have := delta_affine 0 y a b
  have e : (0 - y) * sigma a b = -(y * sigma a b) := by grind
  omega

/-- products of a positive and a negative number etc., in the form the arguments below need -/
theorem neg_of_mul_neg_of_pos {p s : Int} (hp : 0 < p) (h : p * s < 0) : s < 0 := by
  apply Int.not_le.1
  intro hs
  have := Int.mul_nonneg (Int.le_of_lt hp) hs
  omega

/-- a pair in scanline order at the height `hn/hd > y1` that is strictly reversed at `y1`: the lines are not parallel (`sigma < 0`), and they cross
at or above that height -/
theorem cross_below_level (a b : GEdge) (y1 hn hd : Int) (hd0 : 0 < hd) (hlev : y1 * hd < hn) (hle : 0 ≤ gAt a b hn hd)
    (hinv : delta y1 a b < 0) : sigma a b < 0 ∧ 0 < (crossQ a b).d ∧ (crossQ a b).yn * hd ≤ hn * (crossQ a b).d ∧
      y1 * (crossQ a b).d < (crossQ a b).yn := by
  have e1 := delta_at a b y1
  unfold gAt at hle
  generalize hδ : delta 0 a b = δ at *
  generalize hσ : sigma a b = σ at *
  -- hd·(δ − y1σ) < 0 ≤ hdδ − hnσ  ⇒  (hn − y1 hd)·σ < 0
  have h1 : hd * (δ - y1 * σ) < 0 := Int.mul_neg_of_pos_of_neg hd0 (by omega)
  have h2 : (hn - y1 * hd) * σ < 0 := by
    have e : (hn - y1 * hd) * σ = hn * σ - hd * (y1 * σ) := by grind
    have e2 : hd * (δ - y1 * σ) = hd * δ - hd * (y1 * σ) := by grind
    omega
  have hs : σ < 0 := neg_of_mul_neg_of_pos (by omega) h2
  have hdet : det a b < 0 := by rw [det_eq_sigma, hσ]; exact hs
  obtain ⟨q1, _, _⟩ := crossQ_neg a b hdet
  have q2 := crossQ_yn_delta a b hdet
  rw [det_eq_sigma, hσ] at q1
  refine ⟨hs, by rw [q1]; omega, ?_, ?_⟩
  · rw [q1, q2]
    rw [hδ]
    have e3 : -δ * hd = -(hd * δ) := by grind
    have e4 : hn * -σ = -(hn * σ) := by grind
    omega
  · rw [q1, q2, hδ]
    have e3 : y1 * -σ = -(y1 * σ) := by grind
    omega

/-- a pair in scanline order at the height `hn/hd` but NOT at the height `cn/cd ≤ hn/hd` (above `y1`): it is strictly reversed at `y1`, and it
crosses STRICTLY BELOW the height `cn/cd` -/
theorem cross_strictly_below (u v : GEdge) (y1 hn hd cn cd : Int) (hd0 : 0 < hd) (cd0 : 0 < cd) (hlev : cn * hd ≤ hn * cd)
    (hc1 : y1 * cd < cn) (hle : 0 ≤ gAt u v hn hd) (hnot : gAt u v cn cd < 0) :
    delta y1 u v < 0 ∧ 0 < (crossQ u v).d ∧ cn * (crossQ u v).d < (crossQ u v).yn * cd := by
  have e1 := delta_at u v y1
  unfold gAt at hle hnot
  generalize hδ : delta 0 u v = δ at *
  generalize hσ : sigma u v = σ at *
  have a1 : 0 ≤ cd * (hd * δ - hn * σ) := Int.mul_nonneg (Int.le_of_lt cd0) hle
  have a2 : hd * (cd * δ - cn * σ) < 0 := Int.mul_neg_of_pos_of_neg hd0 hnot
  have e : cd * (hd * δ - hn * σ) - hd * (cd * δ - cn * σ) = (hn * cd - cn * hd) * (-σ) := by grind
  have hprod : 0 < (hn * cd - cn * hd) * (-σ) := by omega
  have hW : 0 < hn * cd - cn * hd := by
    by_cases h : 0 < hn * cd - cn * hd
    · exact h
    · have : hn * cd - cn * hd = 0 := by omega
      rw [this] at hprod; simp at hprod
  have hs : σ < 0 := by
    have := neg_of_mul_neg_of_pos hW (s := σ) (by
      have e2 : (hn * cd - cn * hd) * σ = -((hn * cd - cn * hd) * (-σ)) := by grind
      omega)
    exact this
  have hdet : det u v < 0 := by rw [det_eq_sigma, hσ]; exact hs
  obtain ⟨q1, _, _⟩ := crossQ_neg u v hdet
  have q2 := crossQ_yn_delta u v hdet
  rw [det_eq_sigma, hσ] at q1
  refine ⟨?_, by rw [q1]; omega, ?_⟩
  · -- cd·(δ − y1σ) = (cdδ − cnσ) + (cn − cd y1)σ < 0
    have e3 : cd * (δ - y1 * σ) = (cd * δ - cn * σ) + (cn - y1 * cd) * σ := by grind
    have n1 : (cn - y1 * cd) * σ < 0 := Int.mul_neg_of_pos_of_neg (by omega) hs
    have : cd * (δ - y1 * σ) < 0 := by omega
    have := neg_of_mul_neg_of_pos cd0 this
    omega
  · rw [q1, q2, hδ]
    have e4 : cn * -σ = -(cn * σ) := by grind
    have e5 : -δ * cd = -(cd * δ) := by grind
    omega

/-- the converse of `rel_of_rank`: members of a list sorted by `ltBelow y1` are ranked by it -/
theorem rank_of_ltBelow (y1 : Int) (T : List GEdge) (hT : T.Pairwise (ltBelow y1)) {u v : GEdge} (hu : u ∈ T) (hv : v ∈ T)
    (h : ltBelow y1 u v) : rank T u < rank T v := by
  rcases Nat.lt_trichotomy (rank T u) (rank T v) with h' | h' | h'
  · exact h'
  · have := rank_inj T hu hv h'
    subst this
    exact absurd h (ltBelow_irrefl y1 u)
  · exact absurd (rel_of_rank T hT hv hu h') (ltBelow_asymm h)

/-- a list whose neighbours are related by a relation that is transitive on its members is pairwise related -/
theorem pairwise_of_adjacent {α : Type} {R : α → α → Prop} {S : α → Prop} (htrans : ∀ a b c, S a → S b → S c → R a b → R b c → R a c) :
    ∀ (l : List α), (∀ x ∈ l, S x) → (∀ p u v s, l = p ++ u :: v :: s → R u v) → l.Pairwise R := by
  intro l
  induction l with
  | nil => intro _ _; exact List.Pairwise.nil
  | cons a t ih =>
    intro hS hadj
    have hSt : ∀ x ∈ t, S x := fun x hx => hS x (by simp [hx])
    have iht := ih hSt (fun p u v s h => hadj (a :: p) u v s (by simp [h]))
    rw [List.pairwise_cons]
    refine ⟨?_, iht⟩
    cases t with
    | nil => intro x hx; cases hx
    | cons b t' =>
      have hab : R a b := hadj [] a b t' rfl
      rw [List.pairwise_cons] at iht
      intro x hx
      rcases List.mem_cons.1 hx with rfl | hx
      · exact hab
      · exact htrans a b x (hS a (by simp)) (hS b (by simp)) (hS x (by simp [hx])) hab (iht.1 x hx)

/-! ## the candidate chosen is the lowest -/

/-- `p` is strictly lower than `q` (larger y) -/
def yLower (p q : QPt) : Prop := q.yn * p.d < p.yn * q.d

theorem not_yLower_of_not_lowerQ {p q : QPt} (h : lowerQ p q = false) : ¬ yLower p q := by
  unfold lowerQ at h
  unfold yLower
  simp only [Bool.or_eq_false_iff, decide_eq_false_iff_not] at h
  omega

theorem le_of_lowerQ {p q : QPt} (h : lowerQ p q = true) : q.yn * p.d ≤ p.yn * q.d := by
  unfold lowerQ at h
  simp only [Bool.or_eq_true, Bool.and_eq_true, decide_eq_true_eq] at h
  rcases h with h | ⟨h, _⟩ <;> omega

/-- the candidate `pickBest` returns is not strictly higher than any other candidate (all denominators positive) -/
theorem pickBest_max (l : List (Nat × GEdge × GEdge)) (c : Nat × GEdge × GEdge) (h : pickBest l = some c)
    (hpos : ∀ c' ∈ l, 0 < (crossQ c'.2.1 c'.2.2).d) : ∀ c' ∈ l, ¬ yLower (crossQ c'.2.1 c'.2.2) (crossQ c.2.1 c.2.2) := by
  cases l with
  | nil => simp [pickBest] at h
  | cons c0 cs =>
    simp only [pickBest, Option.some.injEq] at h
    subst h
    suffices H : ∀ (cs seen : List (Nat × GEdge × GEdge)) (b : Nat × GEdge × GEdge), 0 < (crossQ b.2.1 b.2.2).d →
        (∀ c' ∈ cs, 0 < (crossQ c'.2.1 c'.2.2).d) → (∀ c' ∈ seen, 0 < (crossQ c'.2.1 c'.2.2).d) →
        (∀ c' ∈ seen, ¬ yLower (crossQ c'.2.1 c'.2.2) (crossQ b.2.1 b.2.2)) →
        ∀ c' ∈ seen ++ cs, ¬ yLower (crossQ c'.2.1 c'.2.2)
          (crossQ (cs.foldl (fun best c' => if lowerQ (crossQ c'.2.1 c'.2.2) (crossQ best.2.1 best.2.2) then c' else best) b).2.1
            (cs.foldl (fun best c' => if lowerQ (crossQ c'.2.1 c'.2.2) (crossQ best.2.1 best.2.2) then c' else best) b).2.2) by
      have hc0 := hpos c0 (by simp)
      have := H cs [c0] c0 hc0 (fun c' hc' => hpos c' (by simp [hc'])) (fun c' hc' => by
          rw [List.mem_singleton] at hc'; rw [hc']; exact hc0)
        (fun c' hc' => by rw [List.mem_singleton] at hc'; rw [hc']; unfold yLower; omega)
      simpa using this
    intro cs
    induction cs with
    | nil => intro seen b _ _ _ hs c' hc'; simp at hc'; exact hs c' hc'
    | cons x xs ih =>
      intro seen b hb hcs hseen hs
      have hx := hcs x (by simp)
      simp only [List.foldl_cons]
      by_cases hl : lowerQ (crossQ x.2.1 x.2.2) (crossQ b.2.1 b.2.2) = true
      · simp only [hl, if_true]
        have := ih (seen ++ [x]) x hx (fun c' hc' => hcs c' (by simp [hc'])) (by
            intro c' hc'
            rcases List.mem_append.1 hc' with h' | h'
            · exact hseen c' h'
            · simp at h'; subst h'; exact hx) (by
            intro c' hc'
            rcases List.mem_append.1 hc' with h' | h'
            · -- c'.y ≤ b.y ≤ x.y
              have h1 := hs c' h'
              have h2 := le_of_lowerQ hl
              unfold yLower at h1 ⊢
              have h1' : (crossQ c'.2.1 c'.2.2).yn * (crossQ b.2.1 b.2.2).d ≤ (crossQ b.2.1 b.2.2).yn * (crossQ c'.2.1 c'.2.2).d := by omega
              have := fle_trans (hseen c' h') hb hx h1' h2
              omega
            · simp at h'; subst h'; unfold yLower; omega)
        simpa using this
      · have hl' : lowerQ (crossQ x.2.1 x.2.2) (crossQ b.2.1 b.2.2) = false := by simpa using hl
        simp only [hl', Bool.false_eq_true, if_false]
        have := ih (seen ++ [x]) b hb (fun c' hc' => hcs c' (by simp [hc'])) (by
            intro c' hc'
            rcases List.mem_append.1 hc' with h' | h'
            · exact hseen c' h'
            · simp at h'; subst h'; exact hx) (by
            intro c' hc'
            rcases List.mem_append.1 hc' with h' | h'
            · exact hs c' h'
            · simp at h'; subst h'; exact not_yLower_of_not_lowerQ hl')
        simpa using this

/-! ## the crossing heights of the schedule never increase -/

/-- the crossing heights of a schedule never increase, starting at or above (`y` not larger than) the level `hn/hd` -/
def HeightsSorted : Int → Int → List (Nat × GEdge × GEdge) → Prop
  | _, _, [] => True
  | hn, hd, c :: rest => 0 < (crossQ c.2.1 c.2.2).d ∧ (crossQ c.2.1 c.2.2).yn * hd ≤ hn * (crossQ c.2.1 c.2.2).d ∧
      HeightsSorted (crossQ c.2.1 c.2.2).yn (crossQ c.2.1 c.2.2).d rest

theorem gAt_cross (a b : GEdge) (h : det a b < 0) : gAt a b (crossQ a b).yn (crossQ a b).d = 0 ∧ gAt b a (crossQ a b).yn (crossQ a b).d = 0 := by
  obtain ⟨q1, _, _⟩ := crossQ_neg a b h
  have q2 := crossQ_yn_delta a b h
  rw [det_eq_sigma] at q1
  have e1 : delta 0 b a = -(delta 0 a b) := by unfold delta; omega
  have e2 : sigma b a = -(sigma a b) := by unfold sigma; omega
  unfold gAt
  rw [q1, q2, e1, e2]
  constructor <;> grind

/-- an adjacent pair of a list in scanline order at the level `hn/hd > y1` that is in the wrong order for the target: it is strictly reversed
at `y1` and crosses at or above the level -/
theorem cand_facts (y1 : Int) (T : List GEdge) (hT : T.Pairwise (ltBelow y1)) (cur : List GEdge) (hn hd : Int) (hd0 : 0 < hd)
    (hlev : y1 * hd < hn) (hmem : ∀ e ∈ cur, e ∈ T ∧ e.Up) (hJ : cur.Pairwise (fun u v => leAt hn hd u v = true))
    (c : Nat × GEdge × GEdge) (hc : c ∈ adjInv T 0 cur) :
    delta y1 c.2.1 c.2.2 < 0 ∧ sigma c.2.1 c.2.2 < 0 ∧ 0 < (crossQ c.2.1 c.2.2).d ∧
      (crossQ c.2.1 c.2.2).yn * hd ≤ hn * (crossQ c.2.1 c.2.2).d ∧ y1 * (crossQ c.2.1 c.2.2).d < (crossQ c.2.1 c.2.2).yn := by
  rw [mem_adjInv] at hc
  obtain ⟨pre, post, h1, _, h3⟩ := hc
  have ha := hmem c.2.1 (by rw [h1]; simp)
  have hb := hmem c.2.2 (by rw [h1]; simp)
  have hlt : ltBelow y1 c.2.2 c.2.1 := rel_of_rank T hT hb.1 ha.1 h3
  rw [h1] at hJ
  have hle := (leAt_iff_g _ _ hn hd hd0).1 (pairwise_window pre _ _ post hJ)
  have hinv : delta y1 c.2.1 c.2.2 < 0 := by
    rcases hlt with h | ⟨hx, hs⟩
    · exact (xgt_iff_delta y1 _ _).1 h
    · exfalso
      have d0 : delta y1 c.2.1 c.2.2 = 0 := (xeq_iff_delta y1 _ _).1 (xeq_symm hx)
      have s0 : 0 < sigma c.2.1 c.2.2 := (slt_iff_sigma _ _).1 hs
      have e1 := delta_at c.2.1 c.2.2 y1
      unfold gAt at hle
      generalize delta 0 c.2.1 c.2.2 = δ at *
      generalize sigma c.2.1 c.2.2 = σ at *
      have e2 : hd * δ - hn * σ = (y1 * hd - hn) * σ := by
        have : δ = y1 * σ := by omega
        rw [this]; grind
      have : (y1 * hd - hn) * σ < 0 := Int.mul_neg_of_neg_of_pos (by omega) s0
      omega
  obtain ⟨k1, k2, k3, k4⟩ := cross_below_level c.2.1 c.2.2 y1 hn hd hd0 hlev hle hinv
  exact ⟨hinv, k1, k2, k3, k4⟩

/-- **geo_heights.**  The list `cur` (members of the target `T`, which is sorted just below `y1`) in non-strict scanline order at the level
`hn/hd > y1`: the crossing heights of the bottom-up schedule start at or above that level and never increase. -/
theorem geo_heights (y1 : Int) (T : List GEdge) (hT : T.Pairwise (ltBelow y1)) : ∀ (n : Nat) (cur : List GEdge) (hn hd : Int), 0 < hd →
    y1 * hd < hn → (∀ e ∈ cur, e ∈ T ∧ e.Up) → cur.Pairwise (fun u v => leAt hn hd u v = true) →
    HeightsSorted hn hd (geo T n cur) := by
  intro n
  induction n with
  | zero => intro cur hn hd _ _ _ _; trivial
  | succ n ih =>
    intro cur hn hd hd0 hlev hmem hJ
    simp only [geo]
    cases hpk : pickBest (adjInv T 0 cur) with
    | none => trivial
    | some c =>
      have hcm := pickBest_mem _ c hpk
      obtain ⟨f1, f2, f3, f4, f5⟩ := cand_facts y1 T hT cur hn hd hd0 hlev hmem hJ c hcm
      have hdet : det c.2.1 c.2.2 < 0 := f2
      obtain ⟨pre, post, h1, h2, _⟩ := (mem_adjInv T cur 0 c).1 hcm
      refine ⟨f3, f4, ?_⟩
      -- the list is in scanline order at the new level as well
      have hJc : cur.Pairwise (fun u v => leAt (crossQ c.2.1 c.2.2).yn (crossQ c.2.1 c.2.2).d u v = true) := by
        refine pairwise_of_adjacent (S := fun e => e.Up)
          (fun a b d ha hb hd' h1' h2' => leAt_trans f3 a b d ha hb hd' h1' h2') cur (fun e he => (hmem e he).2) ?_
        intro p u v s hsplit
        apply Classical.byContradiction
        intro hnot
        have hu := hmem u (by rw [hsplit]; simp)
        have hv := hmem v (by rw [hsplit]; simp)
        have hg : gAt u v (crossQ c.2.1 c.2.2).yn (crossQ c.2.1 c.2.2).d < 0 := by
          apply Int.not_le.1
          intro hge
          exact hnot ((leAt_iff_g u v _ _ f3).2 hge)
        have hJ' := hJ
        rw [hsplit] at hJ'
        have hle := (leAt_iff_g u v hn hd hd0).1 (pairwise_window p u v s hJ')
        obtain ⟨g1, g2, g3⟩ := cross_strictly_below u v y1 hn hd _ _ hd0 f3 f4 f5 hle hg
        have hr : rank T v < rank T u := rank_of_ltBelow y1 T hT hv.1 hu.1 (Or.inl ((xgt_iff_delta y1 u v).2 g1))
        have hcand : (p.length, u, v) ∈ adjInv T 0 cur := by
          rw [mem_adjInv]; exact ⟨p, s, hsplit, by simp, hr⟩
        have hpos : ∀ c' ∈ adjInv T 0 cur, 0 < (crossQ c'.2.1 c'.2.2).d :=
          fun c' hc' => (cand_facts y1 T hT cur hn hd hd0 hlev hmem hJ c' hc').2.2.1
        exact pickBest_max _ c hpk hpos _ hcand g3
      have hsw : swapL c.1 cur = pre ++ c.2.2 :: c.2.1 :: post := by
        rw [h1, ← h2, Nat.zero_add, swapL_window]
      rw [hsw]
      refine ih _ _ _ f3 f5 ?_ ?_
      · intro e he
        apply hmem e
        rw [h1]
        simp only [List.mem_append, List.mem_cons] at he ⊢
        rcases he with h | h | h | h
        · exact Or.inl h
        · exact Or.inr (Or.inr (Or.inl h))
        · exact Or.inr (Or.inl h)
        · exact Or.inr (Or.inr (Or.inr h))
      · rw [h1] at hJc
        refine pairwise_swap pre _ _ post hJc ?_
        rw [leAt_iff_g _ _ _ _ f3, (gAt_cross c.2.1 c.2.2 hdet).2]
        exact Int.le_refl _

end Clipper.Lemmas.C01Output
