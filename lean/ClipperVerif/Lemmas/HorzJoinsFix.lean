/-
`FixOutRecPts` and the ring readers (`ring`, `ringPts`) on a heap of rings: they terminate within the model's fuel and do what
their loops say.  Helper file of `Props/C02Horz.lean`.  Core Lean only.
-/
import ClipperVerif.Lemmas.HorzJoinsInv
namespace Clipper.Model.HorzJoins
open Clipper

/-- the loop of `FixOutRecPts` from `cur`, with `todo` still ahead on the ring that started at `a` -/
theorem fixLoop_spec (ri a : Nat) : ∀ (todo : List Nat) (cur : Nat) (H : Heap) (fuel : Nat),
    ChainF (nextOf H) (prevOf H) (cur :: todo ++ [a]) → a ∉ todo → todo.length + 1 ≤ fuel →
    ∃ H', fixLoop ri a fuel H cur = .ok H' ∧ SameLinks H H' ∧ H'.recs = H.recs ∧
      orecOf H' = (fun i => if i ∈ cur :: todo then some ri else orecOf H i)
  | [], cur, H, fuel, hch, _, hf => by
    obtain ⟨f, rfl⟩ : ∃ f, fuel = f + 1 := ⟨fuel - 1, by simp at hf; omega⟩
    have hl : LinkF (nextOf H) (prevOf H) cur a := by simpa using hch
    obtain ⟨n, hn, hnx⟩ := nextOf_some.1 hl.1
    obtain ⟨H1, h1⟩ := updNode_of_lt H (fun x => { x with orec := ri }) (lt_of_node hn)
    obtain ⟨_, _, eo, _, er, _⟩ := upd_orec_eqs h1
    refine ⟨H1, ?_, sameLinks_updOrec h1, er, ?_⟩
    · unfold fixLoop
      simp [node_ok.2 hn, h1, hnx]
    · rw [eo]; funext i; simp [upd]
  | t0 :: todo, cur, H, fuel, hch, hat, hf => by
    obtain ⟨f, rfl⟩ : ∃ f, fuel = f + 1 := ⟨fuel - 1, by simp at hf; omega⟩
    have hch' : LinkF (nextOf H) (prevOf H) cur t0 ∧ ChainF (nextOf H) (prevOf H) (t0 :: todo ++ [a]) := by
      simpa using hch
    obtain ⟨n, hn, hnx⟩ := nextOf_some.1 hch'.1.1
    obtain ⟨H1, h1⟩ := updNode_of_lt H (fun x => { x with orec := ri }) (lt_of_node hn)
    obtain ⟨en, ep, eo, _, er, _⟩ := upd_orec_eqs h1
    have sl := sameLinks_updOrec h1
    have hne : t0 ≠ a := fun e => hat (by simp [e])
    have hch1 : ChainF (nextOf H1) (prevOf H1) (t0 :: todo ++ [a]) := by rw [en, ep]; exact hch'.2
    obtain ⟨H', h', sl', er', eo'⟩ := fixLoop_spec ri a todo t0 H1 f hch1 (fun h => hat (List.mem_cons_of_mem _ h)) (by simp at hf ⊢; omega)
    refine ⟨H', ?_, sl.trans sl', er'.trans er, ?_⟩
    · unfold fixLoop
      simp [node_ok.2 hn, h1, hnx, hne, h']
    · rw [eo', eo]; funext i
      by_cases h1 : i = cur
      · subst h1; simp [upd]
      · by_cases h2 : i ∈ t0 :: todo
        · simp [h2]
        · simp [h2, h1, upd]

/-- **`FixOutRecPts(outrec)` on a heap of rings**: with `outrec->pts = a` on the ring `a :: t`, it terminates within the model's
fuel and sets the `outrec` field of exactly the `OutPt`s of that ring; links, points and the record table are unchanged. -/
theorem fixOutRecPts_spec {H : Heap} {rs : List (List Nat)} (R : Rings H rs) {ri a : Nat} {t : List Nat} (hc : (a :: t) ∈ rs)
    {rc : ORec} (hrc : H.recs[ri]? = some rc) (hp : rc.pts = some a) :
    ∃ H', fixOutRecPts H ri = .ok H' ∧ SameLinks H H' ∧ H'.recs = H.recs ∧
      orecOf H' = (fun i => if i ∈ a :: t then some ri else orecOf H i) := by
  have hring := R.ring _ hc
  have hlen := R.ring_length_le hc
  obtain ⟨H', h, sl, er, eo⟩ := fixLoop_spec ri a t a H H.fuel hring.2
    (by have := hring.1; simp only [List.nodup_cons] at this; exact this.1)
    (by simp [Heap.fuel] at hlen ⊢; omega)
  refine ⟨H', ?_, sl, er, eo⟩
  unfold fixOutRecPts
  simp [Heap.orec, hrc, hp, h]

/-- the ring reader returns the ring, listed from its argument -/
theorem ringFrom_spec (a : Nat) : ∀ (todo : List Nat) (cur : Nat) (H : Heap) (fuel : Nat),
    ChainF (nextOf H) (prevOf H) (cur :: todo ++ [a]) → a ∉ todo → todo.length + 1 ≤ fuel →
    ringFrom H a fuel cur = .ok (cur :: todo)
  | [], cur, H, fuel, hch, _, hf => by
    obtain ⟨f, rfl⟩ : ∃ f, fuel = f + 1 := ⟨fuel - 1, by simp at hf; omega⟩
    have hl : LinkF (nextOf H) (prevOf H) cur a := by simpa using hch
    obtain ⟨n, hn, hnx⟩ := nextOf_some.1 hl.1
    unfold ringFrom
    simp [node_ok.2 hn, hnx]
  | t0 :: todo, cur, H, fuel, hch, hat, hf => by
    obtain ⟨f, rfl⟩ : ∃ f, fuel = f + 1 := ⟨fuel - 1, by simp at hf; omega⟩
    have hch' : LinkF (nextOf H) (prevOf H) cur t0 ∧ ChainF (nextOf H) (prevOf H) (t0 :: todo ++ [a]) := by
      simpa using hch
    obtain ⟨n, hn, hnx⟩ := nextOf_some.1 hch'.1.1
    have hne : t0 ≠ a := fun e => hat (by simp [e])
    have ih := ringFrom_spec a todo t0 H f hch'.2 (fun h => hat (List.mem_cons_of_mem _ h)) (by simp at hf ⊢; omega)
    unfold ringFrom
    simp [node_ok.2 hn, hnx, hne, ih]

theorem ring_spec {H : Heap} {rs : List (List Nat)} (R : Rings H rs) {a : Nat} {t : List Nat} (hc : (a :: t) ∈ rs) :
    ring H a = .ok (a :: t) := by
  have hring := R.ring _ hc
  have hlen := R.ring_length_le hc
  unfold ring
  exact ringFrom_spec a t a H H.fuel hring.2
    (by have := hring.1; simp only [List.nodup_cons] at this; exact this.1)
    (by simp [Heap.fuel] at hlen ⊢; omega)

theorem ptsOf_total {H : Heap} : ∀ (l : List Nat), (∀ i ∈ l, i < H.ops.size) → ∃ ps, ptsOf H l = .ok ps
  | [], _ => ⟨[], rfl⟩
  | i :: is, h => by
    obtain ⟨n, hn⟩ := node_of_lt (h i (by simp))
    obtain ⟨ps, hps⟩ := ptsOf_total is (fun x hx => h x (List.mem_cons_of_mem _ hx))
    exact ⟨n.pt :: ps, by simp [ptsOf, node_ok.2 hn, hps]⟩

/-- `ringPts` (the argument handed to `Path1InsidePath2`) is defined for every `OutPt` of a heap of rings -/
theorem ringPts_total {H : Heap} {rs : List (List Nat)} (R : Rings H rs) {a : Nat} (ha : a < H.ops.size) : ∃ ps, ringPts H a = .ok ps := by
  obtain ⟨t, rest, R1, _, _⟩ := R.focus ha
  have hc : (a :: t) ∈ (a :: t) :: rest := by simp
  obtain ⟨ps, hps⟩ := ptsOf_total (H := H) (a :: t) (fun i hi => R1.mem_lt hc hi)
  exact ⟨ps, by unfold ringPts; rw [ring_spec R1 hc]; exact hps⟩

end Clipper.Model.HorzJoins
