/-
Helper lemmas for `Props/C01Region.lean`, part 2: the derived events of one scanbeam are accepted by the bookkeeping model and
keep it in step with the scanbeam model; local maxima are adjacent; the AEL of the scanbeam model is COMPLETE (contains every
input edge that crosses the scanbeam).  Core Lean only.
-/
import ClipperVerif.Lemmas.C01Region
namespace Clipper.Lemmas.C01Region
open Clipper Clipper.Model Clipper.Model.AelOrder Clipper.Model.SweepOrder Clipper.Model.SweepEvents
open Clipper.Lemmas.SweepOrder Clipper.Lemmas.AelOrder

theorem tracks_length {lab : Lab} {l : Ael} {ael : List SEdge} (h : Tracks lab l ael) : l.length = ael.length := by
  have := congrArg List.length h
  simpa using this

/-! ## insertion of the local minima -/

theorem minEvents_tracks (cfg : Cfg) (valid : SEdge → SEdge → Bool) (lab : Lab) (ael : List SEdge) (p : SEdge × SEdge) (l : Ael)
    (ht : Tracks lab l ael) (hm : (lab p.2).1 = (lab p.1).1 ∧ (lab p.2).2 = -(lab p.1).2)
    (hd : (lab p.1).2 = 1 ∨ (lab p.1).2 = -1) :
    ∃ l', Model.run cfg l (minEvents valid lab ael p) = some l' ∧ Tracks lab l' (insertBound valid ael p) := by
  unfold minEvents insertBound
  cases hpos : insertLeftPos valid (fun _ => false) ael p.1 with
  | none =>
    refine ⟨l, rfl, ?_⟩
    rw [(insertLeft_of_none valid (fun _ => false) ael p.1 hpos).1]
    exact ht
  | some i =>
    obtain ⟨hshape, hi⟩ := insertLeft_of_pos valid (fun _ => false) ael p.1 i hpos
    have hlen := tracks_length ht
    obtain ⟨l1, e1, k1⟩ := insertPair_tracks cfg i (lab p.1).1 (lab p.1).2 l (by omega) hd
    simp only
    -- the list after InsertLeftEdge
    generalize hL1 : insertLeft valid (fun _ => false) ael p.1 = L1 at hshape ⊢
    have hlen' : (ael.take i ++ [p.1]).length = i + 1 := by simp [List.length_take, Nat.min_eq_left hi]
    have hs2 : L1 = (ael.take i ++ [p.1]) ++ ael.drop i := by rw [hshape]; simp
    have htake : L1.take (i + 1) = ael.take i ++ [p.1] := by rw [hs2, List.take_left' hlen']
    have hdrop : L1.drop (i + 1) = ael.drop i := by rw [hs2, List.drop_left' hlen']
    have hk1 : l1.map key = (L1.take (i + 1) ++ p.2 :: L1.drop (i + 1)).map (labKey lab) := by
      rw [k1, ht, htake, hdrop]
      simp [labKey, hm.1, hm.2, List.map_take, List.map_drop]
    have hsw := bubble_swaps valid p.2 (L1.drop (i + 1)) (L1.take (i + 1)) (i + 1) (by
      rw [htake]; simp [List.length_take, Nat.min_eq_left hi])
    have hsw' := congrArg (Option.map (List.map (labKey lab))) hsw
    rw [← applySwaps_map, ← hk1] at hsw'
    obtain ⟨l2, e2, k2⟩ := run_intersects cfg _ l1 _ hsw'
    refine ⟨l2, ?_, ?_⟩
    · simp only [Model.run, step, e1]
      rw [← e2, List.map_map]
      rfl
    · unfold Tracks
      rw [k2]
      simp [insertRight]

theorem insEvents_tracks (cfg : Cfg) (valid : SEdge → SEdge → Bool) (lab : Lab) : ∀ (ms : List (SEdge × SEdge)) (ael : List SEdge)
    (l : Ael), Tracks lab l ael →
    (∀ p ∈ ms, ((lab p.2).1 = (lab p.1).1 ∧ (lab p.2).2 = -(lab p.1).2) ∧ ((lab p.1).2 = 1 ∨ (lab p.1).2 = -1)) →
    ∃ l', Model.run cfg l (insEvents valid lab ael ms) = some l' ∧ Tracks lab l' (insertMins valid ael ms) := by
  intro ms
  induction ms with
  | nil => intro ael l ht _; exact ⟨l, rfl, ht⟩
  | cons p ms ih =>
    intro ael l ht hm
    obtain ⟨l1, e1, t1⟩ := minEvents_tracks cfg valid lab ael p l ht (hm p (by simp)).1 (hm p (by simp)).2
    obtain ⟨l2, e2, t2⟩ := ih (insertBound valid ael p) l1 t1 (fun q hq => hm q (by simp [hq]))
    refine ⟨l2, ?_, ?_⟩
    · simp only [insEvents, run_append, e1, Option.bind_some, e2]
    · simpa [insertMins] using t2

/-! ## `DoIntersections` (and its virtual twin at any height) -/

theorem sortEvents_tracks (cfg : Cfg) (lab : Lab) (le : SEdge → SEdge → Bool) (ael : List SEdge) (l : Ael)
    (ht : Tracks lab l ael) :
    ∃ l', Model.run cfg l ((sortSwaps le 0 ael).map .intersect) = some l' ∧ Tracks lab l' (stableSort le ael) := by
  have h := sortSwaps_spec le ael [] 0 rfl
  simp only [List.nil_append] at h
  have h' := congrArg (Option.map (List.map (labKey lab))) h
  rw [← applySwaps_map, ← ht] at h'
  exact run_intersects cfg _ l _ h'

/-! ## `DoTopOfScanbeam` -/

/-- "every local maximum is followed by its partner" (the flag carries the maximum that waits for its partner) -/
def MaxAdjAux (next : SEdge → Option SEdge) (y1 : Int) (lab : Lab) : Option SEdge → List SEdge → Prop
  | none, [] => True
  | some _, [] => False
  | some a, e :: rest =>
    isMax next y1 e = true ∧ (lab e).1 = (lab a).1 ∧ (lab e).2 = -(lab a).2 ∧ MaxAdjAux next y1 lab none rest
  | none, e :: rest => if isMax next y1 e = true then MaxAdjAux next y1 lab (some e) rest else MaxAdjAux next y1 lab none rest

theorem topStep_of_isMax {next : SEdge → Option SEdge} {y1 : Int} {e : SEdge} (h : isMax next y1 e = true) :
    topStep next y1 e = none := by
  simp only [isMax, Bool.and_eq_true, beq_iff_eq, Option.isNone_iff_eq_none] at h
  simp [topStep, h.1, h.2]

theorem topStep_of_not_isMax {next : SEdge → Option SEdge} {y1 : Int} {e : SEdge} (h : ¬ isMax next y1 e = true) :
    ∃ e', topStep next y1 e = some e' ∧ (e' = e ∨ next e = some e') := by
  simp only [isMax, Bool.and_eq_true, beq_iff_eq, Option.isNone_iff_eq_none, not_and] at h
  unfold topStep
  by_cases ht : e.top.y = y1
  · simp only [ht, if_true]
    cases hn : next e with
    | none => exact absurd hn (h ht)
    | some e' => exact ⟨e', rfl, Or.inr rfl⟩
  · simp only [ht, if_false]
    exact ⟨e, rfl, Or.inl rfl⟩

theorem topEvents_tracks (cfg : Cfg) (next : SEdge → Option SEdge) (y1 : Int) (lab : Lab) :
    ∀ (rest out : List SEdge) (l : Ael) (k : Nat), out.length = k → (∀ e ∈ rest, ∀ e', next e = some e' → lab e' = lab e) →
    (Tracks lab l (out ++ rest) → MaxAdjAux next y1 lab none rest →
      ∃ l', Model.run cfg l (topEventsAux next y1 false k rest) = some l' ∧
        Tracks lab l' (out ++ rest.filterMap (topStep next y1))) ∧
    (∀ a, Tracks lab l (out ++ a :: rest) → MaxAdjAux next y1 lab (some a) rest →
      ∃ l', Model.run cfg l (.removePair k :: topEventsAux next y1 true k rest) = some l' ∧
        Tracks lab l' (out ++ rest.filterMap (topStep next y1))) := by
  intro rest
  induction rest with
  | nil =>
    intro out l k _ _
    refine ⟨fun ht _ => ⟨l, rfl, by simpa using ht⟩, fun a _ hm => ?_⟩
    simp [MaxAdjAux] at hm
  | cons e rest ih =>
    intro out l k hk hnl
    have hnl' : ∀ x ∈ rest, ∀ e', next x = some e' → lab e' = lab x := fun x hx => hnl x (by simp [hx])
    constructor
    · intro ht hm
      by_cases he : isMax next y1 e = true
      · simp only [MaxAdjAux, he, if_true] at hm
        obtain ⟨l', e1, t1⟩ := (ih out l k hk hnl').2 e ht hm
        refine ⟨l', by simp only [topEventsAux, he, if_true]; exact e1, ?_⟩
        simpa [List.filterMap_cons, topStep_of_isMax he] using t1
      · simp only [MaxAdjAux, he] at hm
        obtain ⟨e', s1, s2⟩ := topStep_of_not_isMax he
        have hlab : lab e' = lab e := by
          rcases s2 with rfl | h
          · rfl
          · exact hnl e (by simp) e' h
        have ht' : Tracks lab l ((out ++ [e']) ++ rest) := by
          unfold Tracks at ht ⊢
          rw [ht]
          simp [labKey, hlab]
        obtain ⟨l', e1, t1⟩ := (ih (out ++ [e']) l (k + 1) (by simp [hk]) hnl').1 ht' hm
        refine ⟨l', by simp only [topEventsAux, he]; exact e1, ?_⟩
        simpa [List.filterMap_cons, s1] using t1
    · intro a ht hm
      simp only [MaxAdjAux] at hm
      obtain ⟨he, hp1, hp2, hm'⟩ := hm
      have hkeys : l.map key = out.map (labKey lab) ++ ((lab a).1, false, (lab a).2) :: ((lab a).1, false, -(lab a).2) ::
          rest.map (labKey lab) := by
        rw [ht]
        simp [labKey, hp1, hp2]
      obtain ⟨l1, r1, k1⟩ := removePair_tracks k l _ _ _ _ _ hkeys (by simp [hk])
      have ht1 : Tracks lab l1 (out ++ rest) := by unfold Tracks; rw [k1]; simp
      obtain ⟨l', e1, t1⟩ := (ih out l1 k hk hnl').1 ht1 hm'
      refine ⟨l', by simp only [Model.run, step, r1, topEventsAux]; exact e1, ?_⟩
      simpa [List.filterMap_cons, topStep_of_isMax he] using t1

/-! ## local maxima are adjacent just below the scanline -/

theorem isMax_iff {next : SEdge → Option SEdge} {y1 : Int} {e : SEdge} :
    isMax next y1 e = true ↔ e.top.y = y1 ∧ next e = none := by
  simp [isMax]

/-- three edges in the order just below `y1`, the outer two through one point of the scanline: so is the middle one -/
theorem xeq_middle {y : Int} {a c b : SEdge} (ua : a.Up) (uc : c.Up) (ub : b.Up) (hab : xeq y a b)
    (h1 : ltBelow y a c) (h2 : ltBelow y c b) : xeq y a c := by
  have pa := exD_pos ua; have pc := exD_pos uc; have pb := exD_pos ub
  rcases h1 with h1 | ⟨h1, _⟩
  · exfalso
    have : xlt y a b := by
      rcases h2 with h2 | ⟨h2, _⟩
      · exact xlt_trans ua uc ub h1 h2
      · exact flt_le_trans pa pc pb h1 (Int.le_of_eq h2)
    unfold xlt at this; unfold xeq at hab; omega
  · exact h1

/-- **In an AEL sorted just below `y1` that contains every edge ending in the point of a local maximum, every local maximum is
directly followed by its partner** (general position at `y1`; at most two edges end in one maximum: `MaxOK`). -/
theorem maxAdj_of_sorted (edges : List SEdge) (next : SEdge → Option SEdge) (lab : Lab) (y1 : Int)
    (hup : AllUp edges) (hgt : GPtop edges next y1) (hmx : MaxOK edges next lab y1) :
    ∀ (n : Nat) (l : List SEdge), l.length ≤ n → l.Pairwise (ltBelow y1) → (∀ e ∈ l, e ∈ edges ∧ AliveBelow y1 e) →
      (∀ a ∈ l, isMax next y1 a = true → ∀ b ∈ edges, AliveBelow y1 b → b.top = a.top → b ∈ l) →
      MaxAdjAux next y1 lab none l := by
  intro n
  induction n with
  | zero =>
    intro l hl _ _ _
    have : l = [] := List.length_eq_zero_iff.1 (by omega)
    subst this; trivial
  | succ n ih =>
    intro l hl hs hmem hcl
    cases l with
    | nil => trivial
    | cons e rest =>
      have hnd : (e :: rest).Nodup := nodup_of_pairwise_irrefl (ltBelow_irrefl y1) hs
      obtain ⟨hee, hea⟩ := hmem e (by simp)
      rw [List.pairwise_cons] at hs
      by_cases he : isMax next y1 e = true
      · -- the partner is the next edge
        simp only [MaxAdjAux, he, if_true]
        obtain ⟨hty, hnx⟩ := isMax_iff.1 he
        obtain ⟨b0, hb0e, hb0ne, hb0a, hb0t, hb0n, hl1, hl2, huniq⟩ := hmx e hee hea hty hnx
        have hb0l : b0 ∈ e :: rest := hcl e (by simp) he b0 hb0e hb0a hb0t
        have hb0r : b0 ∈ rest := by
          rcases List.mem_cons.1 hb0l with h | h
          · exact absurd h hb0ne
          · exact h
        cases rest with
        | nil => cases hb0r
        | cons e2 rest' =>
          obtain ⟨he2e, he2a⟩ := hmem e2 (by simp)
          have hs2 := hs.2
          rw [List.pairwise_cons] at hs2
          have he2 : e2 = b0 := by
            rcases List.mem_cons.1 hb0r with h | h
            · exact h.symm
            · -- e < e2 < b0 and e, b0 through one point: e2 passes through it too
              have hxe : xeq y1 e b0 := xeq_of_same_top hb0t.symm hty
              have hx2 := xeq_middle (hup e hee) (hup e2 he2e) (hup b0 hb0e) hxe (hs.1 e2 (by simp)) (hs2.1 b0 h)
              have hne : e ≠ e2 := by
                intro h'; subst h'; simp at hnd
              rcases hgt e hee e2 he2e hne hea he2a with hf | ⟨htop, _, _, _⟩
              · exact absurd hx2 (not_xeq_of_far (hup e hee) (hup e2 he2e) hf)
              · rcases huniq e2 he2e he2a htop.symm with h' | h'
                · exact absurd h'.symm hne
                · exact h'
          subst he2
          refine ⟨isMax_iff.2 ⟨by rw [hb0t]; exact hty, hb0n⟩, hl1, hl2, ?_⟩
          refine ih rest' (by simp at hl; omega) hs2.2 (fun x hx => hmem x (by simp [hx])) ?_
          intro a ha hma b hbe hba hbt
          have hal : a ∈ e :: e2 :: rest' := by simp [ha]
          have hbl := hcl a hal hma b hbe hba hbt
          have haa := (hmem a hal).2
          have hae := (hmem a hal).1
          -- b is neither e nor its partner: else a would end in the maximum of e too
          have hcontra : ∀ (c : SEdge), (c = e ∨ c = e2) → b = c → False := by
            intro c hc hbc
            have hat : a.top = e.top := by
              rcases hc with rfl | rfl
              · rw [← hbt, hbc]
              · rw [← hbt, hbc, hb0t]
            rcases huniq a hae haa hat with h' | h'
            · subst h'; simp at hnd; exact hnd.1.2 ha
            · subst h'
              have := (List.nodup_cons.1 hnd).2
              simp at this; exact this.1 ha
          rcases List.mem_cons.1 hbl with h | h
          · exact absurd h (fun h => hcontra e (Or.inl rfl) h)
          · rcases List.mem_cons.1 h with h | h
            · exact absurd h (fun h => hcontra e2 (Or.inr rfl) h)
            · exact h
      · simp only [MaxAdjAux, he]
        refine ih rest (by simp at hl; omega) hs.2 (fun x hx => hmem x (by simp [hx])) ?_
        intro a ha hma b hbe hba hbt
        have hal : a ∈ e :: rest := by simp [ha]
        have hbl := hcl a hal hma b hbe hba hbt
        rcases List.mem_cons.1 hbl with h | h
        · -- then e ends in the maximum of a: it is a or a's partner, hence a maximum itself
          exfalso
          subst h
          obtain ⟨hty, hnx⟩ := isMax_iff.1 hma
          obtain ⟨b0, _, _, _, hb0t, hb0n, _, _, huniq⟩ := hmx a (hmem a hal).1 (hmem a hal).2 hty hnx
          rcases huniq b hee hea hbt with h' | h'
          · subst h'; exact (List.nodup_cons.1 hnd).1 ha
          · subst h'; exact he (isMax_iff.2 ⟨by rw [hb0t]; exact hty, hb0n⟩)
        · exact h

/-! ## completeness: the AEL contains every input edge that crosses the scanbeam -/

/-- the AEL entering the scanline `y` contains every input edge that continues above `y`, except the bounds of the local minima
of `y` (they are inserted next) -/
def CompleteAt (edges : List SEdge) (mins : Int → List (SEdge × SEdge)) (y : Int) (ael : List SEdge) : Prop :=
  ∀ e ∈ edges, AliveAbove y e → (e.bot.y = y → e ∉ boundsOf (mins y)) → e ∈ ael

theorem completeAt_start (edges : List SEdge) (next : SEdge → Option SEdge) (mins : Int → List (SEdge × SEdge)) (y : Int)
    (hup : AllUp edges) (hnx : NextOK edges next mins) (hst : Starts edges next mins) (htop : ∀ e ∈ edges, e.bot.y ≤ y) :
    CompleteAt edges mins y [] := by
  intro e he ha hnb
  exfalso
  have hby : e.bot.y = y := by have := htop e he; unfold AliveAbove at ha; omega
  rcases hst e he with h | ⟨e', he', hn⟩
  · rw [hby] at h; exact hnb hby h
  · obtain ⟨_, hb, _⟩ := hnx e' he' e hn
    have := hup e' he'
    have := htop e' he'
    unfold SEdge.Up at *
    rw [hb] at hby
    omega

/-- one scanbeam keeps the AEL complete -/
theorem completeAt_step (edges : List SEdge) (valid : Int → SEdge → SEdge → Bool) (cx : SEdge → Int → Int)
    (next : SEdge → Option SEdge) (mins : Int → List (SEdge × SEdge)) (ael : List SEdge) (y0 y1 : Int)
    (hup : AllUp edges) (hnx : NextOK edges next mins) (hst : Starts edges next mins)
    (hnb : NoBotInside edges y0 y1) (hy : y1 < y0)
    (hins : ∀ e, e ∈ (beamStep valid cx next mins ael y0 y1).inserted ↔ e ∈ ael ∨ e ∈ boundsOf (mins y0))
    (hc : CompleteAt edges mins y0 ael) :
    (∀ e ∈ edges, AliveAbove y0 e → e ∈ (beamStep valid cx next mins ael y0 y1).inserted) ∧
    CompleteAt edges mins y1 (beamStep valid cx next mins ael y0 y1).afterTop := by
  have hI : ∀ e ∈ edges, AliveAbove y0 e → e ∈ (beamStep valid cx next mins ael y0 y1).inserted := by
    intro e he ha
    rw [hins]
    by_cases hb : e.bot.y = y0 ∧ e ∈ boundsOf (mins y0)
    · exact Or.inr hb.2
    · exact Or.inl (hc e he ha (fun h1 h2 => hb ⟨h1, h2⟩))
  refine ⟨hI, ?_⟩
  have hX : ∀ e ∈ edges, AliveAbove y0 e → e ∈ (beamStep valid cx next mins ael y0 y1).afterIsect := by
    intro e he ha
    exact (doIntersections_perm cx y1 _).mem_iff.2 (hI e he ha)
  intro e he ha hnm
  show e ∈ topOfBeam next y1 _
  unfold topOfBeam
  rw [List.mem_filterMap]
  by_cases hb : e.bot.y = y1
  · -- continues a bound
    rcases hst e he with h | ⟨e', he', hn⟩
    · rw [hb] at h; exact absurd h (hnm hb)
    · obtain ⟨_, hbt, _⟩ := hnx e' he' e hn
      have ue' := hup e' he'
      have hty : e'.top.y = y1 := by rw [← hbt]; exact hb
      have := hnb e' he'
      refine ⟨e', hX e' he' (by unfold AliveAbove; unfold SEdge.Up at ue'; omega), ?_⟩
      simp [topStep, hty, hn]
  · have := hnb e he
    refine ⟨e, hX e he (by unfold AliveAbove at ha ⊢; omega), ?_⟩
    have : e.top.y ≠ y1 := by unfold AliveAbove at ha; omega
    simp [topStep, this]

end Clipper.Lemmas.C01Region
