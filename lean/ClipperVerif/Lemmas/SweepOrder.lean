/-
Helper lemmas for `Props/C01Sweep.lean` (the AEL stays sorted through the sweep): cross-multiplied fraction comparison,
the order relations of `Model/SweepOrder.lean`, the affine identity behind "two straight edges cross at most once",
rounding, and a few list facts.  Core Lean only.
-/
import ClipperVerif.Model.SweepOrder
import ClipperVerif.Props.C01Order
import ClipperVerif.Lemmas.StableSort
namespace Clipper.Lemmas.SweepOrder
open Clipper Clipper.Model.AelOrder Clipper.Model.SweepOrder

/-! ## fractions with positive denominators, compared by cross-multiplication -/

theorem fle_trans {n1 d1 n2 d2 n3 d3 : Int} (h1 : 0 < d1) (h2 : 0 < d2) (h3 : 0 < d3)
    (a : n1 * d2 ≤ n2 * d1) (b : n2 * d3 ≤ n3 * d2) : n1 * d3 ≤ n3 * d1 := by
  have a' := Int.mul_le_mul_of_nonneg_right a (Int.le_of_lt h3)
  have b' := Int.mul_le_mul_of_nonneg_right b (Int.le_of_lt h1)
  have e1 : n1 * d2 * d3 = (n1 * d3) * d2 := by grind
  have e2 : n2 * d1 * d3 = n2 * d3 * d1 := by grind
  have e3 : n3 * d2 * d1 = (n3 * d1) * d2 := by grind
  rw [e1, e2] at a'
  rw [e3] at b'
  exact Int.le_of_mul_le_mul_right (Int.le_trans a' b') h2

theorem flt_le_trans {n1 d1 n2 d2 n3 d3 : Int} (h1 : 0 < d1) (h2 : 0 < d2) (h3 : 0 < d3)
    (a : n1 * d2 < n2 * d1) (b : n2 * d3 ≤ n3 * d2) : n1 * d3 < n3 * d1 := by
  have a' := Int.mul_lt_mul_of_pos_right a h3
  have b' := Int.mul_le_mul_of_nonneg_right b (Int.le_of_lt h1)
  have e1 : n1 * d2 * d3 = (n1 * d3) * d2 := by grind
  have e2 : n2 * d1 * d3 = n2 * d3 * d1 := by grind
  have e3 : n3 * d2 * d1 = (n3 * d1) * d2 := by grind
  rw [e1, e2] at a'
  rw [e3] at b'
  exact Int.lt_of_mul_lt_mul_right (Int.lt_of_lt_of_le a' b') (Int.le_of_lt h2)

theorem fle_lt_trans {n1 d1 n2 d2 n3 d3 : Int} (h1 : 0 < d1) (h2 : 0 < d2) (h3 : 0 < d3)
    (a : n1 * d2 ≤ n2 * d1) (b : n2 * d3 < n3 * d2) : n1 * d3 < n3 * d1 := by
  have a' := Int.mul_le_mul_of_nonneg_right a (Int.le_of_lt h3)
  have b' := Int.mul_lt_mul_of_pos_right b h1
  have e1 : n1 * d2 * d3 = (n1 * d3) * d2 := by grind
  have e2 : n2 * d1 * d3 = n2 * d3 * d1 := by grind
  have e3 : n3 * d2 * d1 = (n3 * d1) * d2 := by grind
  rw [e1, e2] at a'
  rw [e3] at b'
  exact Int.lt_of_mul_lt_mul_right (Int.lt_of_le_of_lt a' b') (Int.le_of_lt h2)

theorem feq_trans {n1 d1 n2 d2 n3 d3 : Int} (h1 : 0 < d1) (h2 : 0 < d2) (h3 : 0 < d3)
    (a : n1 * d2 = n2 * d1) (b : n2 * d3 = n3 * d2) : n1 * d3 = n3 * d1 :=
  Int.le_antisymm (fle_trans h1 h2 h3 (Int.le_of_eq a) (Int.le_of_eq b))
    (fle_trans h3 h2 h1 (Int.le_of_eq b.symm) (Int.le_of_eq a.symm))

/-! ## the order relations on `Up` edges -/

theorem exD_pos {e : SEdge} (h : e.Up) : 0 < exD e := by unfold SEdge.Up at h; unfold exD; omega

/-- the exact x at an integer height in the notation of `Model/AelOrder.lean` -/
theorem exN_eq_xNum (e : SEdge) (y : Int) : exN e y = xNum e.bot e.top y 1 ∧ exD e = xDen e.bot e.top 1 := by
  simp [exN, exD, xNum, xDen]

theorem xlt_trans {y : Int} {a b c : SEdge} (ha : a.Up) (hb : b.Up) (hc : c.Up) (h1 : xlt y a b) (h2 : xlt y b c) :
    xlt y a c :=
  flt_le_trans (exD_pos ha) (exD_pos hb) (exD_pos hc) h1 (Int.le_of_lt h2)

theorem xlt_irrefl (y : Int) (a : SEdge) : ¬ xlt y a a := by unfold xlt; omega

theorem xlt_asymm {y : Int} {a b : SEdge} (h : xlt y a b) : ¬ xlt y b a := by unfold xlt at *; omega

theorem xeq_symm {y : Int} {a b : SEdge} (h : xeq y a b) : xeq y b a := by unfold xeq at *; omega

theorem xlt_or_xeq_or_xlt (y : Int) (a b : SEdge) : xlt y a b ∨ xeq y a b ∨ xlt y b a := by
  unfold xlt xeq; omega

theorem slt_trans {a b c : SEdge} (ha : a.Up) (hb : b.Up) (hc : c.Up) (h1 : slt a b) (h2 : slt b c) : slt a c :=
  flt_le_trans (exD_pos ha) (exD_pos hb) (exD_pos hc) h1 (Int.le_of_lt h2)

/-- `ltAbove y` (x at `y`, then direction) is transitive on non-horizontal edges -/
theorem ltAbove_trans {y : Int} {a b c : SEdge} (ha : a.Up) (hb : b.Up) (hc : c.Up)
    (h1 : ltAbove y a b) (h2 : ltAbove y b c) : ltAbove y a c := by
  have pa := exD_pos ha; have pb := exD_pos hb; have pc := exD_pos hc
  rcases h1 with h1 | ⟨e1, s1⟩ <;> rcases h2 with h2 | ⟨e2, s2⟩
  · exact Or.inl (xlt_trans ha hb hc h1 h2)
  · exact Or.inl (flt_le_trans pa pb pc h1 (Int.le_of_eq e2))
  · exact Or.inl (fle_lt_trans pa pb pc (Int.le_of_eq e1) h2)
  · exact Or.inr ⟨feq_trans pa pb pc e1 e2, slt_trans ha hb hc s1 s2⟩

theorem ltBelow_trans {y : Int} {a b c : SEdge} (ha : a.Up) (hb : b.Up) (hc : c.Up)
    (h1 : ltBelow y a b) (h2 : ltBelow y b c) : ltBelow y a c := by
  have pa := exD_pos ha; have pb := exD_pos hb; have pc := exD_pos hc
  rcases h1 with h1 | ⟨e1, s1⟩ <;> rcases h2 with h2 | ⟨e2, s2⟩
  · exact Or.inl (xlt_trans ha hb hc h1 h2)
  · exact Or.inl (flt_le_trans pa pb pc h1 (Int.le_of_eq e2))
  · exact Or.inl (fle_lt_trans pa pb pc (Int.le_of_eq e1) h2)
  · exact Or.inr ⟨feq_trans pa pb pc e1 e2, slt_trans hc hb ha s2 s1⟩

theorem ltAbove_irrefl (y : Int) (a : SEdge) : ¬ ltAbove y a a := by
  unfold ltAbove xlt slt; omega

theorem ltBelow_irrefl (y : Int) (a : SEdge) : ¬ ltBelow y a a := by
  unfold ltBelow xlt slt; omega

theorem ltAbove_asymm {y : Int} {a b : SEdge} (h : ltAbove y a b) : ¬ ltAbove y b a := by
  unfold ltAbove xlt xeq slt at *; omega

/-- more than one unit apart implies strictly ordered -/
theorem xlt_of_xltBy1 {y : Int} {a b : SEdge} (ha : a.Up) (hb : b.Up) (h : xltBy1 y a b) : xlt y a b := by
  have pa := exD_pos ha; have pb := exD_pos hb
  have hp : 0 < exD a * exD b := Int.mul_pos pa pb
  unfold xltBy1 at h; unfold xlt
  have e : (exN a y + exD a) * exD b = exN a y * exD b + exD a * exD b := by grind
  rw [e] at h; omega

theorem far_symm {y : Int} {a b : SEdge} (h : far y a b) : far y b a := Or.symm h

theorem xlt_or_of_far {y : Int} {a b : SEdge} (ha : a.Up) (hb : b.Up) (h : far y a b) : xlt y a b ∨ xlt y b a := by
  rcases h with h | h
  · exact Or.inl (xlt_of_xltBy1 ha hb h)
  · exact Or.inr (xlt_of_xltBy1 hb ha h)

theorem xltBy1_of_far_of_xlt {y : Int} {a b : SEdge} (ha : a.Up) (hb : b.Up) (h : far y a b) (hl : xlt y a b) :
    xltBy1 y a b := by
  rcases h with h | h
  · exact h
  · exact absurd (xlt_of_xltBy1 hb ha h) (xlt_asymm hl)

theorem not_xeq_of_far {y : Int} {a b : SEdge} (ha : a.Up) (hb : b.Up) (h : far y a b) : ¬ xeq y a b := by
  rcases xlt_or_of_far ha hb h with h | h <;> unfold xlt at h <;> unfold xeq <;> omega

/-! ## the affine identity: the (scaled) horizontal distance of two straight edges is an affine function of the height -/

/-- `exD a * exD b * (x_b - x_a)` at height `y` -/
def delta (y : Int) (a b : SEdge) : Int := exN b y * exD a - exN a y * exD b
/-- `exD a * exD b *` (difference of the slopes): how fast `b` moves away from `a` per unit of height climbed -/
def sigma (a b : SEdge) : Int := run b * exD a - run a * exD b

theorem xlt_iff_delta (y : Int) (a b : SEdge) : xlt y a b ↔ 0 < delta y a b := by unfold xlt delta; omega
theorem xeq_iff_delta (y : Int) (a b : SEdge) : xeq y a b ↔ delta y a b = 0 := by unfold xeq delta; omega
theorem xgt_iff_delta (y : Int) (a b : SEdge) : xlt y b a ↔ delta y a b < 0 := by unfold xlt delta; omega
theorem slt_iff_sigma (a b : SEdge) : slt a b ↔ 0 < sigma a b := by unfold slt sigma; omega
theorem sgt_iff_sigma (a b : SEdge) : slt b a ↔ sigma a b < 0 := by unfold slt sigma; omega

/-- climbing from `y0` to `y1` changes the scaled distance by `(y0 - y1) * sigma` -/
theorem delta_affine (y0 y1 : Int) (a b : SEdge) : delta y1 a b = delta y0 a b + (y0 - y1) * sigma a b := by
  simp only [delta, sigma, exN, exD, run]; grind

/-- the scaled distance at the rational height `yn/yd`, in the notation of `Model/AelOrder.lean` -/
theorem delta_rat (y0 : Int) (a b : SEdge) (yn yd : Int) :
    xNum b.bot b.top yn yd * xDen a.bot a.top yd - xNum a.bot a.top yn yd * xDen b.bot b.top yd =
      yd * (yd * delta y0 a b + (y0 * yd - yn) * sigma a b) := by
  simp only [delta, sigma, exN, exD, run, xNum, xDen]; grind

theorem xLt_iff_G (y0 : Int) (a b : SEdge) (yn yd : Int) (hyd : 0 < yd) :
    xLt a.bot a.top b.bot b.top yn yd ↔ 0 < yd * delta y0 a b + (y0 * yd - yn) * sigma a b := by
  have h := delta_rat y0 a b yn yd
  unfold xLt
  generalize yd * delta y0 a b + (y0 * yd - yn) * sigma a b = G at h
  constructor
  · intro hl
    have : 0 < yd * G := by omega
    rcases Int.lt_trichotomy 0 G with g | g | g
    · exact g
    · subst g; simp at this
    · have := Int.mul_neg_of_pos_of_neg hyd g; omega
  · intro g
    have := Int.mul_pos hyd g; omega

theorem xGt_iff_G (y0 : Int) (a b : SEdge) (yn yd : Int) (hyd : 0 < yd) :
    xLt b.bot b.top a.bot a.top yn yd ↔ yd * delta y0 a b + (y0 * yd - yn) * sigma a b < 0 := by
  have h := delta_rat y0 a b yn yd
  unfold xLt
  generalize yd * delta y0 a b + (y0 * yd - yn) * sigma a b = G at h
  constructor
  · intro hl
    have : yd * G < 0 := by omega
    rcases Int.lt_trichotomy 0 G with g | g | g
    · have := Int.mul_pos hyd g; omega
    · subst g; simp at this
    · exact g
  · intro g
    have := Int.mul_neg_of_pos_of_neg hyd g; omega

/-- the convexity step: a quantity that is affine in the height, non-negative at both ends of the beam and positive at one of
them (or zero at the bottom and increasing) is positive strictly inside.  `p`, `q` = distances of the height to the two
scanlines (scaled by `yd`), `h` = height of the beam. -/
theorem convex_pos (D0 s h yd p q : Int) (hyd : 0 < yd) (hp : 0 < p) (hq : 0 < q) (hpq : p + q = h * yd)
    (h0 : 0 < D0 ∨ (D0 = 0 ∧ 0 < s)) (h1 : 0 ≤ D0 + h * s) : 0 < yd * D0 + q * s := by
  rcases h0 with h0 | ⟨h0, hs⟩
  · rcases Int.lt_or_le s 0 with hs | hs
    · have a1 : 0 ≤ yd * (D0 + h * s) := Int.mul_nonneg (Int.le_of_lt hyd) h1
      have e : yd * (D0 + h * s) = yd * D0 + (p * s + q * s) := by
        have : yd * (D0 + h * s) = yd * D0 + (h * yd) * s := by grind
        rw [this, ← hpq]; grind
      rw [e] at a1
      have a2 : p * s < 0 := Int.mul_neg_of_pos_of_neg hp hs
      omega
    · have a1 : 0 < yd * D0 := Int.mul_pos hyd h0
      have a2 : 0 ≤ q * s := Int.mul_nonneg (Int.le_of_lt hq) hs
      omega
  · subst h0
    have := Int.mul_pos hq hs
    simpa using this

/-- `ltAbove` in terms of `delta`/`sigma` -/
theorem ltAbove_iff (y : Int) (a b : SEdge) : ltAbove y a b ↔ 0 < delta y a b ∨ (delta y a b = 0 ∧ 0 < sigma a b) := by
  unfold ltAbove; rw [xlt_iff_delta, xeq_iff_delta, slt_iff_sigma]

theorem ltBelow_iff (y : Int) (a b : SEdge) : ltBelow y a b ↔ 0 < delta y a b ∨ (delta y a b = 0 ∧ sigma a b < 0) := by
  unfold ltBelow; rw [xlt_iff_delta, xeq_iff_delta, sgt_iff_sigma]

/-- two edges in the order `a`, `b` just above `y0` that are in the opposite order at `y1 < y0`: `a` is strictly left at `y0`
and turns right relative to `b` -/
theorem reversed_facts {y0 y1 : Int} {a b : SEdge} (hy : y1 < y0) (h0 : ltAbove y0 a b) (h1 : xlt y1 b a) :
    0 < delta y0 a b ∧ sigma a b < 0 ∧ delta y1 a b < 0 := by
  rw [ltAbove_iff] at h0
  rw [xgt_iff_delta] at h1
  have e := delta_affine y0 y1 a b
  have hh : 0 < y0 - y1 := by omega
  generalize delta y0 a b = D0 at *
  generalize delta y1 a b = D1 at *
  generalize sigma a b = s at *
  have hs : s < 0 := by
    apply Int.not_le.1
    intro hs
    have : 0 ≤ (y0 - y1) * s := Int.mul_nonneg (Int.le_of_lt hh) hs
    omega
  refine ⟨?_, hs, h1⟩
  rcases h0 with h0 | ⟨_, h0⟩
  · exact h0
  · omega

/-- in the order `a`, `b` just above `y0` and not reversed at `y1 < y0`: in the order `a`, `b` just below `y1` -/
theorem ltBelow_of_not_reversed {y0 y1 : Int} {a b : SEdge} (hy : y1 < y0) (h0 : ltAbove y0 a b) (h1 : ¬ xlt y1 b a) :
    ltBelow y1 a b := by
  rw [ltAbove_iff] at h0
  rw [xgt_iff_delta] at h1
  rw [ltBelow_iff]
  have e := delta_affine y0 y1 a b
  have hh : 0 < y0 - y1 := by omega
  generalize delta y0 a b = D0 at *
  generalize delta y1 a b = D1 at *
  generalize sigma a b = s at *
  rcases Int.lt_or_le 0 D1 with h | h
  · exact Or.inl h
  · right
    have hD1 : D1 = 0 := by omega
    refine ⟨hD1, ?_⟩
    apply Int.not_le.1
    intro hs
    have : 0 ≤ (y0 - y1) * s := Int.mul_nonneg (Int.le_of_lt hh) hs
    rcases h0 with h0 | ⟨h0, hs'⟩
    · omega
    · have := Int.mul_pos hh hs'; omega

/-! ## rounding -/

/-- `Near` for an edge that reaches `y`, in the form `Props.C01Order.rounding_preserves_order` wants it -/
theorem near_strict {cx : SEdge → Int → Int} (hn : Near cx) {y : Int} {a b : SEdge} (ha : a.Up) (hb : b.Up)
    (aa : a.top.y ≤ y ∧ y ≤ a.bot.y) (ab : b.top.y ≤ y ∧ y ≤ b.bot.y) (h : xltBy1 y a b) : cx a y < cx b y := by
  obtain ⟨a1, _⟩ := hn a y ha aa.1 aa.2
  obtain ⟨_, b2⟩ := hn b y hb ab.1 ab.2
  have := (Clipper.Props.C01Order.rounding_preserves_order (exN a y) (exD a) (exN b y) (exD b) (cx a y) (cx b y)
    (exD_pos ha) (exD_pos hb) a1 b2).2
  apply this
  unfold xltBy1 at h
  have e : (exN a y + exD a) * exD b = exN a y * exD b + exD a * exD b := by grind
  rw [e] at h; exact h

/-- where the exact x is an integer, every `Near` rounding returns it -/
theorem near_exact {cx : SEdge → Int → Int} (hn : Near cx) {y : Int} {e : SEdge} (he : e.Up)
    (al : e.top.y ≤ y ∧ y ≤ e.bot.y) (x : Int) (hx : exN e y = x * exD e) : cx e y = x := by
  obtain ⟨h1, h2⟩ := hn e y he al.1 al.2
  have pd := exD_pos he
  rw [hx] at h1 h2
  have e1 : cx e y * exD e - x * exD e = (cx e y - x) * exD e := by grind
  rw [e1] at h1 h2
  rcases Int.lt_trichotomy (cx e y) x with h | h | h
  · have : (cx e y - x) * exD e ≤ (-1) * exD e := Int.mul_le_mul_of_nonneg_right (by omega) (Int.le_of_lt pd)
    omega
  · exact h
  · have : 1 * exD e ≤ (cx e y - x) * exD e := Int.mul_le_mul_of_nonneg_right (by omega) (Int.le_of_lt pd)
    omega

theorem exN_at_top (e : SEdge) : exN e e.top.y = e.top.x * exD e := by simp only [exN, exD]; grind
theorem exN_at_bot (e : SEdge) : exN e e.bot.y = e.bot.x * exD e := by simp only [exN, exD]; grind

/-- rounding half to even is within 1/2 -/
theorem roundHalfEven_near (n d : Int) (hd : 0 < d) :
    2 * (roundHalfEven n d * d - n) ≤ d ∧ -d ≤ 2 * (roundHalfEven n d * d - n) := by
  have h2d : 0 < 2 * d := by omega
  have hdiv := Int.emod_add_mul_ediv (2 * n + d) (2 * d)
  have hm0 := Int.emod_nonneg (2 * n + d) (Int.ne_of_gt h2d)
  have hm1 := Int.emod_lt_of_pos (2 * n + d) h2d
  unfold roundHalfEven
  generalize (2 * n + d) / (2 * d) = q at *
  generalize (2 * n + d) % (2 * d) = r at *
  have e : 2 * d * q = 2 * (q * d) := by grind
  rw [e] at hdiv
  simp only []
  split
  · rename_i h
    have e2 : (q - 1) * d = q * d - d := by grind
    rw [e2]; omega
  · omega

theorem rhu_near : Near rhu := by
  intro e y he _ _
  have hd := exD_pos he
  have h2d : 0 < 2 * exD e := by omega
  have hdiv := Int.emod_add_mul_ediv (2 * exN e y + exD e) (2 * exD e)
  have hm0 := Int.emod_nonneg (2 * exN e y + exD e) (Int.ne_of_gt h2d)
  have hm1 := Int.emod_lt_of_pos (2 * exN e y + exD e) h2d
  unfold rhu
  generalize (2 * exN e y + exD e) / (2 * exD e) = q at *
  generalize (2 * exN e y + exD e) % (2 * exD e) = r at *
  have e' : 2 * exD e * q = 2 * (q * exD e) := by grind
  rw [e'] at hdiv
  omega

theorem rhe_near : Near rhe := by
  intro e y he _ _
  exact roundHalfEven_near _ _ (exD_pos he)

/-! ## step (1): insertion of one local minimum into a sorted AEL -/

/-- `ltAbove y` restricted to non-horizontal edges: a transitive relation on ALL of `SEdge` (what the list theorems of
`Props/C01Order` ask for) -/
def ltU (y : Int) (a b : SEdge) : Prop := a.Up ∧ b.Up ∧ ltAbove y a b

theorem ltU_trans (y : Int) (a b c : SEdge) (h1 : ltU y a b) (h2 : ltU y b c) : ltU y a c :=
  ⟨h1.1, h2.2.1, ltAbove_trans h1.1 h1.2.1 h2.2.1 h1.2.2 h2.2.2⟩

theorem ltU_irrefl (y : Int) (a : SEdge) : ¬ ltU y a a := fun h => ltAbove_irrefl y a h.2.2

/-- a list sorted by a strict (irreflexive) relation has no duplicates -/
theorem nodup_of_pairwise_irrefl {α : Type} {R : α → α → Prop} (hirr : ∀ a, ¬ R a a) {l : List α} (h : l.Pairwise R) :
    l.Nodup := by
  induction l with
  | nil => exact List.nodup_nil
  | cons a l ih =>
    rw [List.pairwise_cons] at h
    rw [List.nodup_cons]
    exact ⟨fun hm => hirr a (h.1 a hm), ih h.2⟩

/-- **one local minimum.**  `InsertLeftEdge(lb)` then `InsertRightEdge(lb, rb)` + settling loop on an AEL sorted by `ltU y`,
the predicate agreeing with the order for every resident: the AEL stays sorted and gains exactly the two bounds. -/
theorem insertBound_sorted (valid : SEdge → SEdge → Bool) (y : Int) (ael : List SEdge) (lb rb : SEdge)
    (hs : ael.Pairwise (ltU y)) (hlr : ltU y lb rb)
    (hagL : ∀ r ∈ ael, (valid r lb = true ↔ ltU y r lb) ∧ (¬ ltU y r lb → ltU y lb r))
    (hagR : ∀ r ∈ ael, (valid r rb = true ↔ ltU y r rb) ∧ (¬ ltU y r rb → ltU y rb r)) :
    (insertBound valid ael (lb, rb)).Pairwise (ltU y) ∧ (insertBound valid ael (lb, rb)).Perm (rb :: lb :: ael) := by
  obtain ⟨l₁, l₂, hl, hval, _, _, hpw, hperm, hpos, hlen⟩ :=
    Clipper.Props.C01Order.insertLeft_sorted valid (fun _ => false) (ltU y) ael lb (ltU_trans y) hs
      (fun r hr => (hagL r hr).1) (fun r hr => (hagL r hr).2)
      (fun _ _ _ _ _ hj _ => by cases hj) (fun _ _ => rfl)
  simp only [insertBound, hpos]
  have hi : ael.countP (fun r => valid r lb) < (insertLeft valid (fun _ => false) ael lb).length := by
    rw [hval, ← hlen]; simp
  have hget : (insertLeft valid (fun _ => false) ael lb)[ael.countP (fun r => valid r lb)] = lb := by
    simp only [hval, ← hlen]; simp
  have hdrop : (insertLeft valid (fun _ => false) ael lb).drop (ael.countP (fun r => valid r lb) + 1) = l₂ := by
    rw [hval, ← hlen]; simp
  have hmem2 : ∀ r ∈ l₂, r ∈ ael := fun r hr => by rw [hl]; simp [hr]
  obtain ⟨_, _, _, _, _, _, hpw2, hperm2, _⟩ :=
    Clipper.Props.C01Order.insertRight_sorted valid (ltU y) (insertLeft valid (fun _ => false) ael lb)
      (ael.countP (fun r => valid r lb)) rb (ltU_trans y) hpw hi (by rw [hget]; exact hlr)
      (fun r hr => by rw [hdrop] at hr; exact (hagR r (hmem2 r hr)).1)
      (fun r hr => by rw [hdrop] at hr; exact (hagR r (hmem2 r hr)).2)
  exact ⟨hpw2, hperm2.trans (List.Perm.cons rb hperm)⟩

theorem ltAbove_iff_xlt_of_far {y : Int} {a b : SEdge} (ha : a.Up) (hb : b.Up) (h : far y a b) :
    ltAbove y a b ↔ xlt y a b := by
  constructor
  · rintro (h1 | ⟨h1, _⟩)
    · exact h1
    · exact absurd h1 (not_xeq_of_far ha hb h)
  · exact Or.inl

theorem ltU_of_xlt {y : Int} {a b : SEdge} (ha : a.Up) (hb : b.Up) (h : xlt y a b) : ltU y a b := ⟨ha, hb, Or.inl h⟩

/-- two edges leaving one point of the scanline have the same exact x there -/
theorem xeq_of_same_bot {y : Int} {a b : SEdge} (h : a.bot = b.bot) (hy : a.bot.y = y) : xeq y a b := by
  have e1 := exN_at_bot a
  have e2 := exN_at_bot b
  rw [hy] at e1; rw [← h, hy] at e2
  unfold xeq; rw [e1, e2, h]; grind

theorem boundsOf_cons (p : SEdge × SEdge) (ms : List (SEdge × SEdge)) : boundsOf (p :: ms) = p.1 :: p.2 :: boundsOf ms := by
  simp [boundsOf]

theorem mem_boundsOf {ms : List (SEdge × SEdge)} {e : SEdge} : e ∈ boundsOf ms ↔ ∃ p ∈ ms, e = p.1 ∨ e = p.2 := by
  simp [boundsOf, List.mem_flatMap]

/-- **step (1).**  All local minima of a scanline inserted into an AEL sorted by `ltU y` (residents continuing above `y`,
none of them a bound of these minima): the AEL stays sorted and gains exactly the bounds. -/
theorem insertMins_sorted (edges : List SEdge) (valid : SEdge → SEdge → Bool) (y : Int) (hup : AllUp edges)
    (hv : ValidOK edges valid y) :
    ∀ (ms : List (SEdge × SEdge)) (ael : List SEdge),
      (∀ p ∈ ms, p.1 ∈ edges ∧ p.2 ∈ edges ∧ p.1.bot = p.2.bot ∧ p.1.bot.y = y ∧ slt p.1 p.2) → (boundsOf ms).Nodup →
      GPmin edges ms y →
      ael.Pairwise (ltU y) → (∀ e ∈ ael, e ∈ edges ∧ AliveAbove y e) → (∀ e ∈ ael, e ∉ boundsOf ms) →
      (insertMins valid ael ms).Pairwise (ltU y) ∧ (∀ e, e ∈ insertMins valid ael ms ↔ e ∈ ael ∨ e ∈ boundsOf ms) := by
  intro ms
  induction ms with
  | nil => intro ael _ _ _ hs _ _; simp [insertMins, boundsOf, hs]
  | cons p rest ih =>
    intro ael hm hnd hgp hs hmem hfresh
    obtain ⟨h1e, h2e, hbot, hby, hsl⟩ := hm p (by simp)
    have u1 := hup _ h1e
    have u2 := hup _ h2e
    have al1 : AliveAbove y p.1 := by unfold AliveAbove; unfold SEdge.Up at u1; omega
    have al2 : AliveAbove y p.2 := by unfold AliveAbove; unfold SEdge.Up at u2; rw [hbot] at hby; omega
    rw [boundsOf_cons] at hnd hfresh
    have hag : ∀ n, (n = p.1 ∨ n = p.2) → ∀ r ∈ ael,
        (valid r n = true ↔ ltU y r n) ∧ (¬ ltU y r n → ltU y n r) := by
      intro n hn r hr
      obtain ⟨hre, hra⟩ := hmem r hr
      have hr1 : r ≠ p.1 := fun h => hfresh r hr (by simp [h])
      have hr2 : r ≠ p.2 := fun h => hfresh r hr (by simp [h])
      obtain ⟨f1, f2⟩ := hgp p (by simp) r hre hra hr1 hr2
      have ur := hup _ hre
      have hne : n ∈ edges ∧ n.Up ∧ AliveAbove y n ∧ n.bot.y = y ∧ far y r n := by
        rcases hn with rfl | rfl
        · exact ⟨h1e, u1, al1, hby, f1⟩
        · exact ⟨h2e, u2, al2, by rw [← hbot]; exact hby, f2⟩
      obtain ⟨hne, un, aln, hny, hf⟩ := hne
      have hvv := hv r hre n hne hra aln hny hf
      constructor
      · rw [hvv]
        exact ⟨fun h => ltU_of_xlt ur un h, fun h => (ltAbove_iff_xlt_of_far ur un hf).1 h.2.2⟩
      · intro hnot
        rcases xlt_or_of_far ur un hf with h | h
        · exact absurd (ltU_of_xlt ur un h) hnot
        · exact ltU_of_xlt un ur h
    have hlr : ltU y p.1 p.2 := ⟨u1, u2, Or.inr ⟨xeq_of_same_bot hbot hby, hsl⟩⟩
    obtain ⟨hpw, hperm⟩ := insertBound_sorted valid y ael p.1 p.2 hs hlr (hag p.1 (Or.inl rfl)) (hag p.2 (Or.inr rfl))
    have hstep : insertMins valid ael (p :: rest) = insertMins valid (insertBound valid ael p) rest := by
      simp [insertMins]
    have hmem' : ∀ e, e ∈ insertBound valid ael p ↔ e = p.2 ∨ e = p.1 ∨ e ∈ ael := by
      intro e; rw [show p = (p.1, p.2) from rfl, hperm.mem_iff]; simp
    have hnd' := hnd
    rw [List.nodup_cons, List.nodup_cons] at hnd'
    obtain ⟨hn1, hn2, hndr⟩ := hnd'
    obtain ⟨r1, r2⟩ := ih (insertBound valid ael p) (fun q hq => hm q (by simp [hq])) hndr
      (fun q hq => hgp q (by simp [hq])) hpw
      (by
        intro e he
        rcases (hmem' e).1 he with rfl | rfl | he
        · exact ⟨h2e, al2⟩
        · exact ⟨h1e, al1⟩
        · exact hmem e he)
      (by
        intro e he
        rcases (hmem' e).1 he with rfl | rfl | he
        · exact hn2
        · exact fun h => hn1 (by simp [h])
        · exact fun h => hfresh e he (by simp [h]))
    rw [hstep]
    refine ⟨r1, ?_⟩
    intro e
    rw [r2 e, hmem' e, boundsOf_cons]
    simp only [List.mem_cons]
    constructor
    · rintro ((h | h | h) | h)
      · exact Or.inr (Or.inr (Or.inl h))
      · exact Or.inr (Or.inl h)
      · exact Or.inl h
      · exact Or.inr (Or.inr (Or.inr h))
    · rintro (h | h | h | h)
      · exact Or.inl (Or.inr (Or.inr h))
      · exact Or.inl (Or.inr (Or.inl h))
      · exact Or.inl (Or.inl h)
      · exact Or.inr h

/-! ## step (2): the stable sort by `curr_x` -/

theorem leCx_trans (cx : SEdge → Int → Int) (y1 : Int) (a b c : SEdge) :
    leCx cx y1 a b = true → leCx cx y1 b c = true → leCx cx y1 a c = true := by
  simp only [leCx, decide_eq_true_eq]; omega

theorem leCx_total (cx : SEdge → Int → Int) (y1 : Int) (a b : SEdge) : (leCx cx y1 a b || leCx cx y1 b a) = true := by
  simp only [leCx, Bool.or_eq_true, decide_eq_true_eq]; omega

/-! ### the structural stable sort is core's `mergeSort` -/
section StableSort
open Clipper.Lemmas.StableSort
variable {α : Type} {le : α → α → Bool}

theorem insertBefore_perm (a : α) (l : List α) : (insertBefore le a l).Perm (a :: l) := by
  induction l with
  | nil => simp [insertBefore]
  | cons b l ih =>
    simp only [insertBefore]
    split
    · exact List.Perm.refl _
    · exact (List.Perm.cons b ih).trans (List.Perm.swap a b l)

theorem insertBefore_sorted (trans : ∀ a b c, le a b → le b c → le a c) (total : ∀ a b, le a b || le b a)
    (a : α) (l : List α) (h : l.Pairwise (fun x y => le x y)) : (insertBefore le a l).Pairwise (fun x y => le x y) := by
  induction l with
  | nil => simp [insertBefore]
  | cons b l ih =>
    rw [List.pairwise_cons] at h
    simp only [insertBefore]
    split
    · rename_i hab
      rw [List.pairwise_cons]
      refine ⟨?_, List.pairwise_cons.2 h⟩
      intro c hc
      rcases List.mem_cons.1 hc with rfl | hc
      · exact hab
      · exact trans _ _ _ hab (h.1 c hc)
    · rename_i hab
      have hba : le b a = true := by have := total a b; simp only [Bool.or_eq_true] at this; rcases this with h | h; exact absurd h hab; exact h
      rw [List.pairwise_cons]
      refine ⟨?_, ih h.2⟩
      intro c hc
      rcases List.mem_cons.1 ((insertBefore_perm a l).mem_iff.1 hc) with rfl | hc
      · exact hba
      · exact h.1 c hc

theorem insertBefore_cls (trans : ∀ a b c, le a b → le b c → le a c) (c a : α) (l : List α) :
    cls le c (insertBefore le a l) = cls le c (a :: l) := by
  induction l with
  | nil => simp [insertBefore]
  | cons b l ih =>
    simp only [insertBefore]
    split
    · rfl
    · rename_i hab
      unfold cls at ih ⊢
      rw [List.filter_cons, ih]
      simp only [List.filter_cons]
      by_cases hb : (le c b && le b c) = true <;> by_cases ha : (le c a && le a c) = true
      · exfalso
        simp only [Bool.and_eq_true] at ha hb
        exact hab (trans _ _ _ ha.2 hb.1)
      · simp [hb, ha]
      · simp [hb, ha]
      · simp [hb, ha]

theorem stableSort_eq_mergeSort (trans : ∀ a b c, le a b → le b c → le a c) (total : ∀ a b, le a b || le b a)
    (l : List α) : stableSort le l = l.mergeSort le := by
  apply eq_mergeSort_of_sorted_of_cls trans total
  · induction l with
    | nil => simp [stableSort]
    | cons a l ih => exact insertBefore_sorted trans total a _ ih
  · intro c
    induction l with
    | nil => simp [stableSort]
    | cons a l ih =>
      show cls le c (insertBefore le a (stableSort le l)) = _
      rw [insertBefore_cls trans, show a :: stableSort le l = [a] ++ stableSort le l from rfl, cls_append, ih,
        ← cls_append]
      rfl

end StableSort

theorem doIntersections_eq_mergeSort (cx : SEdge → Int → Int) (y1 : Int) (ael : List SEdge) :
    doIntersections cx y1 ael = ael.mergeSort (leCx cx y1) :=
  stableSort_eq_mergeSort (leCx_trans cx y1) (leCx_total cx y1) ael

theorem doIntersections_perm (cx : SEdge → Int → Int) (y1 : Int) (ael : List SEdge) :
    (doIntersections cx y1 ael).Perm ael := by rw [doIntersections_eq_mergeSort]; exact List.mergeSort_perm _ _

theorem doIntersections_sortedCx (cx : SEdge → Int → Int) (y1 : Int) (ael : List SEdge) :
    (doIntersections cx y1 ael).Pairwise (fun a b => cx a y1 ≤ cx b y1) := by
  have := List.pairwise_mergeSort (leCx_trans cx y1) (leCx_total cx y1) ael
  rw [doIntersections_eq_mergeSort]
  exact this.imp (by intro a b h; simpa [leCx] using h)

/-- stability: a pair that is not a strict `curr_x` inversion keeps its order -/
theorem doIntersections_stable (cx : SEdge → Int → Int) (y1 : Int) (ael : List SEdge) {a b : SEdge}
    (h : [a, b].Sublist ael) (hle : cx a y1 ≤ cx b y1) : [a, b].Sublist (doIntersections cx y1 ael) := by
  rw [doIntersections_eq_mergeSort]
  exact List.pair_sublist_mergeSort (leCx_trans cx y1) (leCx_total cx y1) (by simpa [leCx] using hle) h

theorem pair_sublist_total {α : Type} {l : List α} {a b : α} (ha : a ∈ l) (hb : b ∈ l) (hne : a ≠ b) :
    [a, b].Sublist l ∨ [b, a].Sublist l := by
  induction l with
  | nil => cases ha
  | cons x t ih =>
    rcases List.mem_cons.1 ha with rfl | ha' <;> rcases List.mem_cons.1 hb with rfl | hb'
    · exact absurd rfl hne
    · exact Or.inl (List.cons_sublist_cons.2 (List.singleton_sublist.2 hb'))
    · exact Or.inr (List.cons_sublist_cons.2 (List.singleton_sublist.2 ha'))
    · rcases ih ha' hb' with h | h
      · exact Or.inl (h.cons _)
      · exact Or.inr (h.cons _)

theorem not_both_orders {α : Type} {l : List α} (hnd : l.Nodup) {a b : α} (h1 : [a, b].Sublist l) (h2 : [b, a].Sublist l) :
    False := by
  induction l with
  | nil => cases h1
  | cons x t ih =>
    rw [List.nodup_cons] at hnd
    rcases List.sublist_cons_iff.1 h1 with h1 | ⟨r1, e1, s1⟩ <;> rcases List.sublist_cons_iff.1 h2 with h2 | ⟨r2, e2, s2⟩
    · exact ih hnd.2 h1 h2
    · have hb : b = x := (List.cons.inj e2).1
      exact hnd.1 (hb ▸ h1.subset (by simp))
    · have ha : a = x := (List.cons.inj e1).1
      exact hnd.1 (ha ▸ h2.subset (by simp))
    · have ha : a = x := (List.cons.inj e1).1
      have hb : b = x := (List.cons.inj e2).1
      have hr : r1 = [b] := (List.cons.inj e1).2.symm
      subst hr
      exact hnd.1 (hb ▸ s1.subset (by simp))

theorem xeq_of_same_top {y : Int} {a b : SEdge} (h : a.top = b.top) (hy : a.top.y = y) : xeq y a b := by
  have e1 := exN_at_top a
  have e2 := exN_at_top b
  rw [hy] at e1; rw [← h, hy] at e2
  unfold xeq; rw [e1, e2, h]; grind

/-- without any general-position assumption: after the sort the AEL is non-decreasing in `curr_x`, and two edges whose exact x
differ by more than 1 are in their exact order -/
theorem doIntersections_exact_of_far {cx : SEdge → Int → Int} (hn : Near cx) (y1 : Int) (ael : List SEdge)
    (hmem : ∀ e ∈ ael, e.Up ∧ e.top.y ≤ y1 ∧ y1 ≤ e.bot.y) :
    (doIntersections cx y1 ael).Pairwise (fun a b => cx a y1 ≤ cx b y1 ∧ (far y1 a b → xlt y1 a b)) := by
  have hs := doIntersections_sortedCx cx y1 ael
  refine hs.imp_of_mem ?_
  intro a b ha hb hle
  have ha' := hmem a ((doIntersections_perm cx y1 ael).mem_iff.1 ha)
  have hb' := hmem b ((doIntersections_perm cx y1 ael).mem_iff.1 hb)
  refine ⟨hle, ?_⟩
  rintro (h | h)
  · exact xlt_of_xltBy1 ha'.1 hb'.1 h
  · have := near_strict hn hb'.1 ha'.1 hb'.2 ha'.2 h
    omega

/-- **step (2) in general position.**  An AEL sorted just above `y0` (`ltU y0`) whose edges all reach `y1 < y0`; general
position at `y1`.  After `DoIntersections(y1)` the AEL is sorted in the exact order just below `y1`. -/
theorem doIntersections_below (edges : List SEdge) {cx : SEdge → Int → Int} (next : SEdge → Option SEdge) (y0 y1 : Int)
    (ael : List SEdge) (hy : y1 < y0) (hn : Near cx) (hup : AllUp edges) (hgp : GPtop edges next y1)
    (hs : ael.Pairwise (ltU y0)) (hmem : ∀ e ∈ ael, e ∈ edges ∧ AliveBelow y1 e) :
    (doIntersections cx y1 ael).Pairwise (ltBelow y1) := by
  have hperm := doIntersections_perm cx y1 ael
  have hnd : ael.Nodup := nodup_of_pairwise_irrefl (ltU_irrefl y0) hs
  have hndr : (doIntersections cx y1 ael).Nodup := hperm.symm.nodup hnd
  rw [List.pairwise_iff_forall_sublist]
  intro a b hab
  have ha : a ∈ ael := hperm.mem_iff.1 (hab.subset (by simp))
  have hb : b ∈ ael := hperm.mem_iff.1 (hab.subset (by simp))
  have hne : a ≠ b := by
    have := hndr.sublist hab
    intro h; subst h; simp at this
  have hle : cx a y1 ≤ cx b y1 := List.pairwise_iff_forall_sublist.1 (doIntersections_sortedCx cx y1 ael) hab
  obtain ⟨hae, haa⟩ := hmem a ha
  obtain ⟨hbe, hba⟩ := hmem b hb
  have ua := hup a hae
  have ub := hup b hbe
  have la : a.top.y ≤ y1 ∧ y1 ≤ a.bot.y := by unfold AliveBelow at haa; omega
  have lb : b.top.y ≤ y1 ∧ y1 ≤ b.bot.y := by unfold AliveBelow at hba; omega
  rcases hgp a hae b hbe hne haa hba with hf | ⟨htop, hty, _, _⟩
  · rcases hf with h | h
    · exact Or.inl (xlt_of_xltBy1 ua ub h)
    · have := near_strict hn ub ua lb la h
      omega
  · have hxe : xeq y1 a b := xeq_of_same_top htop hty
    rcases pair_sublist_total ha hb hne with h | h
    · have h0 : ltU y0 a b := List.pairwise_iff_forall_sublist.1 hs h
      exact ltBelow_of_not_reversed hy h0.2.2 (by unfold xeq at hxe; unfold xlt; omega)
    · exfalso
      have ca : cx a y1 = a.top.x := near_exact hn ua la _ (by rw [← hty]; exact exN_at_top a)
      have cb : cx b y1 = b.top.x := near_exact hn ub lb _ (by rw [← hty, htop]; exact exN_at_top b)
      have := doIntersections_stable cx y1 ael h (by rw [ca, cb, htop]; exact Int.le_refl _)
      exact not_both_orders hndr hab this

/-! ## step (3): the top of the scanbeam -/

/-- `xlt` respects "same exact x" on both sides -/
theorem xlt_congr {y : Int} {a a' b b' : SEdge} (ua : a.Up) (ua' : a'.Up) (ub : b.Up) (ub' : b'.Up)
    (h : xlt y a b) (ea : xeq y a a') (eb : xeq y b b') : xlt y a' b' := by
  have pa := exD_pos ua; have pa' := exD_pos ua'; have pb := exD_pos ub; have pb' := exD_pos ub'
  unfold xlt xeq at *
  have h1 : exN a' y * exD b < exN b y * exD a' := fle_lt_trans pa' pa pb (Int.le_of_eq ea.symm) h
  exact flt_le_trans pa' pb pb' h1 (Int.le_of_eq eb)

theorem xltBy1_congr {y : Int} {a a' b b' : SEdge} (ua : a.Up) (ua' : a'.Up) (ub : b.Up) (ub' : b'.Up)
    (h : xltBy1 y a b) (ea : xeq y a a') (eb : xeq y b b') : xltBy1 y a' b' := by
  have pa := exD_pos ua; have pa' := exD_pos ua'; have pb := exD_pos ub; have pb' := exD_pos ub'
  unfold xltBy1 xeq at *
  have ea' : (exN a' y + exD a') * exD a = (exN a y + exD a) * exD a' := by
    have : (exN a' y + exD a') * exD a = exN a' y * exD a + exD a' * exD a := by grind
    have : (exN a y + exD a) * exD a' = exN a y * exD a' + exD a * exD a' := by grind
    have : exD a' * exD a = exD a * exD a' := by grind
    omega
  have h1 : (exN a' y + exD a') * exD b < exN b y * exD a' := fle_lt_trans pa' pa pb (Int.le_of_eq ea') h
  exact flt_le_trans pa' pb pb' h1 (Int.le_of_eq eb)

theorem far_congr {y : Int} {a a' b b' : SEdge} (ua : a.Up) (ua' : a'.Up) (ub : b.Up) (ub' : b'.Up)
    (h : far y a b) (ea : xeq y a a') (eb : xeq y b b') : far y a' b' := by
  rcases h with h | h
  · exact Or.inl (xltBy1_congr ua ua' ub ub' h ea eb)
  · exact Or.inr (xltBy1_congr ub ub' ua ua' h eb ea)

/-- `UpdateEdgeIntoAEL`: the successor starts where the old edge ended, so it has the same exact x on that scanline -/
theorem xeq_succ {y : Int} {e e' : SEdge} (hb : e'.bot = e.top) (hy : e.top.y = y) : xeq y e e' := by
  have e1 := exN_at_top e
  have e2 := exN_at_bot e'
  rw [hy] at e1; rw [hb, hy] at e2
  unfold xeq; rw [e1, e2]; grind

theorem xeq_refl (y : Int) (a : SEdge) : xeq y a a := rfl

/-- what `topStep` returns: the edge itself when it continues, else its successor (same exact x on the scanline) -/
theorem topStep_some {edges : List SEdge} {next : SEdge → Option SEdge} {mins : Int → List (SEdge × SEdge)}
    (hnx : NextOK edges next mins) {y1 : Int} {a b : SEdge} (hae : a ∈ edges) (h : topStep next y1 a = some b) :
    b ∈ edges ∧ xeq y1 a b ∧ ((a.top.y ≠ y1 ∧ b = a) ∨ (a.top.y = y1 ∧ next a = some b ∧ b.bot = a.top)) := by
  unfold topStep at h
  split at h
  · rename_i hy
    obtain ⟨h1, h2, _⟩ := hnx a hae b h
    exact ⟨h1, xeq_succ h2 hy, Or.inr ⟨hy, h, h2⟩⟩
  · rename_i hy
    cases h
    exact ⟨hae, xeq_refl y1 a, Or.inl ⟨hy, rfl⟩⟩

/-- **step (3).**  An AEL in the exact order just below `y1` (general position at `y1`): after `DoTopOfScanbeam(y1)` — maxima
removed, edges ending at an intermediate vertex replaced in place by their successors — the remaining edges are pairwise more
than one unit apart at `y1` and strictly sorted by exact x. -/
theorem topOfBeam_sorted (edges : List SEdge) (next : SEdge → Option SEdge) (mins : Int → List (SEdge × SEdge)) (y1 : Int)
    (ael : List SEdge) (hup : AllUp edges) (hnx : NextOK edges next mins) (hgp : GPtop edges next y1)
    (hs : ael.Pairwise (ltBelow y1)) (hmem : ∀ e ∈ ael, e ∈ edges ∧ AliveBelow y1 e) :
    (topOfBeam next y1 ael).Pairwise (fun a b => xlt y1 a b ∧ far y1 a b) := by
  unfold topOfBeam
  refine List.Pairwise.filterMap (R := fun a b => a ∈ ael ∧ b ∈ ael ∧ ltBelow y1 a b) _ ?_ (List.Pairwise.and_mem.1 hs)
  rintro a a' ⟨ha, ha', hlt⟩ b hb b' hb'
  obtain ⟨hae, haa⟩ := hmem a ha
  obtain ⟨hae', haa'⟩ := hmem a' ha'
  obtain ⟨hbe, ex, hc⟩ := topStep_some hnx hae hb
  obtain ⟨hbe', ex', hc'⟩ := topStep_some hnx hae' hb'
  have ua := hup a hae; have ua' := hup a' hae'; have ub := hup b hbe; have ub' := hup b' hbe'
  have hne : a ≠ a' := fun h => ltBelow_irrefl y1 a (h ▸ hlt)
  have hfar : far y1 a a' := by
    rcases hgp a hae a' hae' hne haa haa' with hf | ⟨_, hty, hn1, _⟩
    · exact hf
    · rcases hc with ⟨h, _⟩ | ⟨_, h, _⟩
      · exact absurd hty h
      · rw [hn1] at h; cases h
  have hx : xlt y1 a a' := by
    rcases hlt with h | ⟨h, _⟩
    · exact h
    · exact absurd h (not_xeq_of_far ua ua' hfar)
  exact ⟨xlt_congr ua ub ua' ub' hx ex ex', far_congr ua ub ua' ub' hfar ex ex'⟩

/-- the members of the AEL after step (3): input edges continuing above `y1`; those starting on `y1` are successors, hence not
bounds of a local minimum on `y1` -/
theorem topOfBeam_mem (edges : List SEdge) (next : SEdge → Option SEdge) (mins : Int → List (SEdge × SEdge)) (y0 y1 : Int)
    (ael : List SEdge) (hy : y1 < y0) (hup : AllUp edges) (hnx : NextOK edges next mins)
    (hmem : ∀ e ∈ ael, e ∈ edges ∧ AliveBelow y1 e ∧ y0 ≤ e.bot.y) :
    ∀ e ∈ topOfBeam next y1 ael, e ∈ edges ∧ AliveAbove y1 e ∧ (e.bot.y = y1 → e ∉ boundsOf (mins y1)) := by
  intro e he
  unfold topOfBeam at he
  obtain ⟨a, ha, hae⟩ := List.mem_filterMap.1 he
  obtain ⟨h1, h2, h3⟩ := hmem a ha
  obtain ⟨hee, _, hc⟩ := topStep_some hnx h1 hae
  have ue := hup e hee
  refine ⟨hee, ?_, ?_⟩
  · rcases hc with ⟨h, rfl⟩ | ⟨h, _, hb⟩
    · unfold AliveAbove; unfold AliveBelow at h2; omega
    · have hby : e.bot.y = y1 := by rw [hb]; exact h
      unfold AliveAbove; unfold SEdge.Up at ue; omega
  · rcases hc with ⟨_, rfl⟩ | ⟨h, hn, hb⟩
    · intro hh; omega
    · intro _
      have := (hnx a h1 e hn).2.2
      rwa [hb, h] at this

end Clipper.Lemmas.SweepOrder
