/-
Fuel sufficiency for `recursiveCheckOwners` and `buildTree`.

Measure of `RecursiveCheckOwners(outrec, …)`: the number of outrecs that are not on the stack of pending calls;
the outrecs on the stack are pairwise different because each of them reaches `outrec` through `owner` links and
the owner graph is acyclic.
-/
import ClipperVerif.Lemmas.OwnerTerm
import ClipperVerif.Lemmas.OwnerBuild
namespace Clipper.Model.Owner
open Clipper

theorem Rect.contains_nonempty {a b : Rect} (h : a.contains b = true) (hb : b.isEmpty = false) : a.isEmpty = false := by
  simp only [Rect.contains, Bool.and_eq_true, decide_eq_true_eq] at h
  simp only [Rect.isEmpty, Bool.or_eq_false_iff, decide_eq_false_iff_not] at hb ⊢
  omega

theorem addChild_root_ne_none (t : Tree) (q : Path) : addChild t [] q ≠ none := by
  cases t; simp [addChild]

theorem addChild_ne_none_of_at {t : Tree} {a : List Nat} {n : Tree} (q : Path) (h : t.at? a = some n) :
    addChild t a q ≠ none := by
  induction a generalizing t n with
  | nil => exact addChild_root_ne_none t q
  | cons k a ih =>
    cases t with
    | node p ks =>
      simp only [Tree.at?] at h
      simp only [addChild]
      split at h
      · simp at h
      · rename_i c hc
        have := ih h
        cases hca : addChild c a q with
        | none => exact absurd hca this
        | some v => simp

section
variable {clean : Nat → CleanRes} {inside : Nat → Nat → Bool} {rk : Nat → Nat} {R M : Nat}

theorem TermInv.set_polypath {T : Table} (h : TermInv clean rk R M T) (i : Nat) (a : List Nat) :
    TermInv clean rk R M (T.modify i (fun x => { x with polypath := some a })) := by
  have key : ∀ (j : Nat) (r' : OutRec), (T.modify i (fun x => { x with polypath := some a }))[j]? = some r' →
      ∃ r : OutRec, T[j]? = some r ∧ r.owner = r'.owner ∧ r.splits = r'.splits ∧ r.hasPts = r'.hasPts := by
    intro j r' hj
    obtain ⟨r, hr, e⟩ := getElem?_modify_some hj
    refine ⟨r, hr, ?_⟩
    by_cases hij : i = j
    · rw [if_pos hij] at e; subst e; exact ⟨rfl, rfl, rfl⟩
    · rw [if_neg hij] at e; subst e; exact ⟨rfl, rfl, rfl⟩
  refine ⟨h.acyc.of_same_owner (fun j r' hj => ?_), fun j r' o hj ho => ?_, fun j r' s hj hs => ?_,
    fun j r' hj => ?_, fun j r' s hj hp hs => ?_, h.rkR⟩
  · obtain ⟨r, hr, e, _⟩ := key j r' hj; exact ⟨r, hr, e⟩
  · obtain ⟨r, hr, e, _⟩ := key j r' hj
    rw [Array.size_modify]; exact h.own j r o hr (e ▸ ho)
  · obtain ⟨r, hr, _, e, _⟩ := key j r' hj
    rw [Array.size_modify]; exact h.spl j r s hr (e ▸ hs)
  · obtain ⟨r, hr, _, e, _⟩ := key j r' hj
    rw [← e]; exact h.len j r hr
  · obtain ⟨r, hr, _, e, e2⟩ := key j r' hj
    exact h.wf j r s hr (e2 ▸ hp) (e ▸ hs)

/-- the owner loop keeps the termination invariant -/
theorem termInv_ownerLoop {f i : Nat} {T T1 : Table} (h : ownerLoop clean inside f T i = some T1)
    (hT : TermInv clean rk R M T) : TermInv clean rk R M T1 := by
  obtain ⟨hg, hd⟩ := ownerLoop_spec _ _ _ h
  refine hT.step hg.1 (hg.2 hT.acyc) (hT.own.of_step hg.1 (fun j r o e hj ho => ?_))
  simp only [Option.some.injEq] at e
  subst e
  rcases hd with ⟨ri, hri, hnone⟩ | ⟨ri, s, rs, hri, hris, hrs, _⟩
  · rw [hri] at hj; simp only [Option.some.injEq] at hj; subst hj
    rw [hnone] at ho; simp at ho
  · rw [hri] at hj; simp only [Option.some.injEq] at hj; subst hj
    rw [hris] at ho; simp only [Option.some.injEq] at ho; subst ho
    exact getElem?_lt hrs

/-- fuel that suffices for the owner loop on a table of `n` outrecs -/
def olMax (R M n : Nat) : Nat := csoMax R M n + n + 3

theorem ownerLoop_total' {f i : Nat} {T : Table} (hT : TermInv clean rk R M T) (hi : i < T.size)
    (hf : olMax R M T.size ≤ f) : ownerLoop clean inside f T i ≠ none := by
  obtain ⟨rank, hr, hb⟩ := hT.acyc.bounded hT.own
  refine ownerLoop_total f T hT hi hr ?_
  have : ownerRank rank T i ≤ T.size + 1 := by
    unfold ownerRank
    split
    · omega
    · split
      · omega
      · rename_i o _; have := hb o; omega
  unfold olMax at hf
  omega

theorem rcoPlace_total {S2 : St} {i o : Nat} {ro : OutRec} {pa : List Nat} (hT : TInv inside S2)
    (ho : S2.recs[o]? = some ro) (hpa : ro.polypath = some pa) (hi : i < S2.recs.size)
    (hT2 : TermInv clean rk R M S2.recs) :
    ∃ S' : St, rcoPlace S2 i o = some S' ∧ TermInv clean rk R M S'.recs := by
  unfold rcoPlace
  rw [ho, getElem?_of_lt hi]
  simp only [hpa]
  obtain ⟨⟨n, hn, _⟩, _⟩ := hT o ro pa ho hpa
  cases hadd : addChild S2.tree pa (S2.recs[i]).path with
  | none => exact absurd hadd (addChild_ne_none_of_at _ hn)
  | some v =>
    obtain ⟨tr, a⟩ := v
    exact ⟨_, rfl, hT2.set_polypath i a⟩

/-- **Fuel sufficiency for `RecursiveCheckOwners`.**  `stack` = the outrecs whose calls are pending. -/
theorem rco_total :
    ∀ (f : Nat) (S : St) (i : Nat) (stack : List Nat), TermInv clean rk R M S.recs → BInv clean S.recs →
      TInv inside S → i < S.recs.size → stack.Nodup → (∀ x ∈ stack, x < S.recs.size ∧ ReachP S.recs x i) →
      olMax R M S.recs.size + (S.recs.size + 1 - stack.length) ≤ f →
      ∃ S' : St, recursiveCheckOwners clean inside f S i = some S' ∧ TermInv clean rk R M S'.recs := by
  intro f
  induction f with
  | zero => intro S i stack _ _ _ _ _ _ hf; unfold olMax at hf; omega
  | succ f IH =>
    intro S i stack hTI hB hT hi hnd hst hf
    have hA := hTI.acyc
    -- the stack together with `i` is duplicate-free, hence short
    have hnd' : (i :: stack).Nodup := by
      refine List.nodup_cons.mpr ⟨fun hm => ?_, hnd⟩
      exact hA.not_reachP_self i (hst i hm).2
    have hlen : (i :: stack).length ≤ S.recs.size :=
      nodup_bounded_length hnd' (fun x hx => by
        rcases List.mem_cons.mp hx with e | hx
        · exact e ▸ hi
        · exact (hst x hx).1)
    simp only [List.length_cons] at hlen
    rw [rco_unfold]
    have hSi := getElem?_of_lt hi
    rw [hSi]
    simp only
    split
    · exact ⟨S, rfl, hTI⟩
    · rename_i hcond
      simp only [Bool.or_eq_true, not_or, Bool.not_eq_true] at hcond
      obtain ⟨hnp0, hne0⟩ := hcond
      have hnp : (S.recs[i]).polypath = none := isSome_false_eq_none hnp0
      have hinone : ∀ r' : OutRec, S.recs[i]? = some r' → r'.polypath = none := by
        intro r' hr'; rw [hSi] at hr'; simp only [Option.some.injEq] at hr'; subst hr'; exact hnp
      cases hol : ownerLoop clean inside f S.recs i with
      | none => exact absurd hol (ownerLoop_total' hTI hi (by omega))
      | some T1 =>
        simp only
        obtain ⟨hgood, hdisj⟩ := ownerLoop_spec _ _ _ hol
        have hTI1 : TermInv clean rk R M T1 := termInv_ownerLoop hol hTI
        have hA1 : Acyclic T1 := hgood.2 hA
        have hB1 : BInv clean T1 := hB.step hgood.1
        have hT1 : TInv inside { S with recs := T1 } := hT.table_step hgood.1 hinone
        have hsz1 : T1.size = S.recs.size := hgood.1.1
        have hi1 : i < T1.size := by rw [hsz1]; exact hi
        unfold rcoAfter
        have hr1 := getElem?_of_lt hi1
        rw [hr1]
        simp only
        obtain ⟨r1', hr1', rs1, pp1, _⟩ := hgood.1.2 i _ hSi
        rw [hr1] at hr1'; simp only [Option.some.injEq] at hr1'
        have hnp1 : (T1[i]).polypath = none := by rw [hr1']; exact pp1.trans hnp
        have hne1 : (T1[i]).bounds.isEmpty = false := by
          rw [hr1', (rs1.keep hne0).1]; exact hne0
        cases hown : (T1[i]).owner with
        | none =>
          simp only
          cases hadd : addChild S.tree [] (T1[i]).path with
          | none => exact absurd hadd (addChild_root_ne_none _ _)
          | some v =>
            obtain ⟨tr, a⟩ := v
            exact ⟨_, rfl, hTI1.set_polypath i a⟩
        | some o =>
          simp only
          have ho : o < T1.size := hTI1.own i _ o hr1 hown
          have horc := getElem?_of_lt ho
          rw [horc]
          simp only
          have hio : i ≠ o := by
            intro e; subst e
            exact hA1.not_reachP_self i ⟨_, i, hr1, hown, Reach.refl _⟩
          by_cases hc : (T1[o]).polypath.isNone = true
          · simp only [hc, if_true]
            -- the recursive call on the owner
            have hst' : ∀ x ∈ i :: stack, x < T1.size ∧ ReachP T1 x o := by
              intro x hx
              rcases List.mem_cons.mp hx with e | hx
              · subst e
                exact ⟨hi1, _, o, hr1, hown, Reach.refl _⟩
              · obtain ⟨hxlt, rx, ox, hrx, hox, hre⟩ := hst x hx
                have hxi : x ≠ i := fun e => hA.not_reachP_self i (e ▸ (hst x hx).2)
                obtain ⟨rx1, hrx1, _, _, owx⟩ := hgood.1.2 x rx hrx
                have hre1 : Reach T1 ox i := Reach.of_step (fun k rk' hk hrk => by
                  obtain ⟨rk1, hrk1, _, _, owk⟩ := hgood.1.2 k rk' hrk
                  exact ⟨rk1, hrk1, owk (by simpa using hk)⟩) hre
                exact ⟨by rw [hsz1]; exact hxlt, rx1, ox, hrx1, (owx (by simpa using hxi)).trans hox,
                  hre1.tail hr1 hown⟩
            obtain ⟨S2, hrec, hTI2⟩ := IH { S with recs := T1 } o (i :: stack) hTI1 hB1 hT1 ho hnd' hst'
              (by simp only [List.length_cons]; rw [hsz1]; omega)
            rw [hrec]
            simp only
            obtain ⟨hS12, _, _, hT2, _, hpl2, _⟩ := rco_spec _ _ _ _ hrec hA1 hB1 hT1
            -- the owner passed the containment test, so its bounds are not empty and it is placed now
            have hone : (T1[o]).bounds.isEmpty = false := by
              rcases hdisj with ⟨ri, hri, hnone⟩ | ⟨ri, s, rs, hri, hris, hrs, hcn, _⟩
              · rw [hr1] at hri; simp only [Option.some.injEq] at hri; subst hri
                rw [hown] at hnone; simp at hnone
              · rw [hr1] at hri; simp only [Option.some.injEq] at hri; subst hri
                rw [hown] at hris; simp only [Option.some.injEq] at hris; subst hris
                rw [horc] at hrs; simp only [Option.some.injEq] at hrs; subst hrs
                exact Rect.contains_nonempty hcn hne1
            obtain ⟨ro2, hro2, hsome⟩ := hpl2 _ horc hone
            obtain ⟨pa, hpa⟩ := Option.isSome_iff_exists.mp hsome
            exact rcoPlace_total hT2 hro2 hpa (by rw [hS12.1]; exact hi1) hTI2
          · simp only [hc]
            have : ∃ pa, (T1[o]).polypath = some pa := by
              cases hp : (T1[o]).polypath with
              | none => simp [hp] at hc
              | some pa => exact ⟨pa, rfl⟩
            obtain ⟨pa, hpa⟩ := this
            exact rcoPlace_total (S2 := { S with recs := T1 }) hT1 horc hpa hi1 hTI1

/-- fuel that suffices for `BuildTree64` on a table of `n` outrecs -/
def treeFuelOf (R M n : Nat) : Nat := olMax R M n + n + 1

theorem buildTreeStep_total {openPath : Nat → Option Path} {fuel : Nat} {S : St} {i : Nat}
    (hG : GInv clean inside S) (hTI : TermInv clean rk R M S.recs) (hi : i < S.recs.size)
    (hf : treeFuelOf R M S.recs.size ≤ fuel) :
    ∃ S' : St, buildTreeStep clean inside openPath fuel S i = some S' ∧ TermInv clean rk R M S'.recs ∧
      S'.recs.size = S.recs.size := by
  unfold buildTreeStep
  rw [getElem?_of_lt hi]
  simp only
  split
  · exact ⟨S, rfl, hTI, rfl⟩
  · split
    · split
      · exact ⟨_, rfl, hTI, rfl⟩
      · exact ⟨S, rfl, hTI, rfl⟩
    · cases hcb : checkBounds clean S.recs i with
      | none => exact absurd hcb (checkBounds_ne_none hi)
      | some p =>
        obtain ⟨T1, b⟩ := p
        have hg := checkBounds_good hcb
        have hG1 := hG.table_step hg
        have hTI1 : TermInv clean rk R M T1 := hTI.good_none hg
        cases b with
        | false => exact ⟨_, rfl, hTI1, hg.1.1⟩
        | true =>
          simp only
          obtain ⟨S', h1, h2⟩ := rco_total (clean := clean) (inside := inside) fuel { S with recs := T1 } i []
            hTI1 hG1.2.1 hG1.2.2 (by show i < T1.size; rw [hg.1.1]; exact hi) List.nodup_nil (by simp)
            (by show olMax R M T1.size + (T1.size + 1 - 0) ≤ fuel; rw [hg.1.1]; unfold treeFuelOf at hf; omega)
          refine ⟨S', h1, h2, ?_⟩
          have := (rco_spec _ _ _ _ h1 hG1.1 hG1.2.1 hG1.2.2).1.1
          exact this.trans hg.1.1

theorem foldlM_total {P : St → Prop} {f : St → Nat → Option St} {l : List Nat}
    (hf : ∀ (S : St) (i : Nat), i ∈ l → P S → ∃ S', f S i = some S' ∧ P S') :
    ∀ S : St, P S → ∃ S', l.foldlM f S = some S' ∧ P S' := by
  induction l with
  | nil => intro S hP; exact ⟨S, rfl, hP⟩
  | cons a l ih =>
    intro S hP
    obtain ⟨S1, h1, hP1⟩ := hf S a (List.mem_cons_self ..) hP
    obtain ⟨S', h2, hP'⟩ := ih (fun S i hi => hf S i (List.mem_cons_of_mem _ hi)) S1 hP1
    exact ⟨S', by simp only [List.foldlM_cons, h1]; exact h2, hP'⟩

/-- **Fuel sufficiency for `BuildTree64`** (and hence for every `RecursiveCheckOwners`, `CheckSplitOwner` and owner
loop it runs). -/
theorem buildTree_total {openPath : Nat → Option Path} {fuel : Nat} {T : Table} (hF : Fresh T)
    (hTI : TermInv clean rk R M T) (hf : treeFuelOf R M T.size ≤ fuel) :
    ∃ S : St, buildTree clean inside openPath fuel T = some S := by
  unfold buildTree
  obtain ⟨S, h, _⟩ := foldlM_total
    (P := fun S => GInv clean inside S ∧ TermInv clean rk R M S.recs ∧ S.recs.size = T.size)
    (f := fun S i => buildTreeStep clean inside openPath fuel S i) (l := List.range T.size)
    (fun S i hi ⟨hG, hTI', hsz⟩ => by
      obtain ⟨S', h1, h2, h3⟩ := buildTreeStep_total (openPath := openPath) (fuel := fuel) hG hTI'
        (by rw [hsz]; exact List.mem_range.mp hi) (by rw [hsz]; exact hf)
      exact ⟨S', h1, buildTreeStep_ginv h1 hG, h2, h3.trans hsz⟩)
    { recs := T } ⟨hF.ginv hTI.acyc, hTI, rfl⟩
  exact ⟨S, h⟩

end

/-! ### closed form of the hypotheses: bounds computed from the table -/

/-- the length of the longest `splits` list -/
def maxSplits (T : Table) : Nat := T.toList.foldr (fun r m => max r.splits.length m) 0

theorem le_maxSplits {T : Table} {j : Nat} {r : OutRec} (h : T[j]? = some r) : r.splits.length ≤ maxSplits T := by
  have hm : r ∈ T.toList := Array.mem_toList_iff.mpr (Array.mem_of_getElem? h)
  unfold maxSplits
  generalize T.toList = l at hm
  induction l with
  | nil => simp at hm
  | cons a l ih =>
    simp only [List.foldr_cons]
    rcases List.mem_cons.mp hm with e | hm
    · subst e; omega
    · have := ih hm; omega

/-- the termination invariant follows from the four hypotheses on the initial table, with ranks `≤ size` and
`M` = the longest `splits` list -/
theorem TermInv.of_hyps {clean : Nat → CleanRes} {T : Table} (hA : Acyclic T) (hO : OwnersInRange T)
    (hS : SplitsInRange T) (hW : SplitsWF clean T) :
    ∃ rk : Nat → Nat, TermInv clean rk (T.size + 1) (maxSplits T) T := by
  obtain ⟨rk, h1, h2⟩ := hW.bounded hS
  exact ⟨rk, hA, hO, hS, fun j r hj => le_maxSplits hj, h1, h2⟩

/-- explicit fuel for `BuildTree64` as a function of the table -/
def treeFuel (T : Table) : Nat := treeFuelOf (T.size + 1) (maxSplits T) T.size

end Clipper.Model.Owner
