/-
Helper lemmas for Props/C08Tidy.lean, part 13: `CheckEdges` establishes the invariant `EdgesOK` of the eight edge lists.
Core Lean only.
-/
import ClipperVerif.Lemmas.RectClipTidyGlobal
import ClipperVerif.Lemmas.RectClipTidyEncl
namespace Clipper.Lemmas.RCT
open Clipper Clipper.Model.RC Clipper.Model.RCT

/-- the constant coordinate of side `j` -/
def sideCoord (r : Rect) : Nat → Int
  | 0 => r.left
  | 1 => r.top
  | 2 => r.right
  | _ => r.bottom

theorem bitSet_and (a b : UInt64) (j : Nat) (h : bitSet (a &&& b) j = true) : bitSet a j = true ∧ bitSet b j = true := by
  unfold bitSet at *
  simp only [bne_iff_ne, ne_eq] at *
  constructor
  · intro e
    apply h
    rw [UInt64.and_assoc, UInt64.and_comm b, ← UInt64.and_assoc, e, UInt64.zero_and]
  · intro e
    apply h
    rw [UInt64.and_assoc, e, UInt64.and_zero]

/-- bit `j` of `GetEdgesForPt(pt, rect)` is set only if `pt` lies on the line of side `j` -/
theorem bit_coord (r : Rect) (p : Pt) (j : Nat) (hj : j < 4) (h : bitSet (edgesForPt r p) j = true) :
    othOf j p = sideCoord r j := by
  have : j = 0 ∨ j = 1 ∨ j = 2 ∨ j = 3 := by omega
  rcases this with rfl | rfl | rfl | rfl <;>
  · unfold edgesForPt Gen.GetEdgesForPt bitSet at h
    simp only at h
    unfold othOf sideCoord
    simp only [Nat.reduceBEq, Bool.or_self, Bool.false_eq_true, if_false, Bool.or_true, Bool.true_or, if_true]
    repeat' split at h
    all_goals first | (simp_all; done) | (exfalso; revert h; decide)

/-- `IsHeadingClockwise(p1, p2, j)` -/
theorem heading_dir (p1 p2 : Pt) (j : Nat) (hj : j < 4) :
    (isHeadingClockwise p1 p2 j = true → dirOK (j == 1 || j == 2) (axisOf j p1) (axisOf j p2)) ∧
    (isHeadingClockwise p1 p2 j = false → dirOK (!(j == 1 || j == 2)) (axisOf j p1) (axisOf j p2)) := by
  have : j = 0 ∨ j = 1 ∨ j = 2 ∨ j = 3 := by omega
  rcases this with rfl | rfl | rfl | rfl <;>
  · simp [isHeadingClockwise, Gen.IsHeadingClockwise, dirOK, axisOf]
    try omega

/-- invariant of the edge lists while `CheckEdges` classifies -/
structure EstInv (r : Rect) (h : Heap) : Prop where
  line : ∀ j, j < 4 → ∀ k, SideMem j h k → othOf j (h.pt k) = sideCoord r j ∧ othOf j (h.pt (h.prev k)) = sideCoord r j
  cwd : ∀ j, j < 4 → ∀ k, some k ∈ h.edges (j * 2) → dirOK (j == 1 || j == 2) (axisOf j (h.pt (h.prev k))) (axisOf j (h.pt k))
  ccwd : ∀ j, j < 4 → ∀ k, some k ∈ h.edges (j * 2 + 1) →
    dirOK (!(j == 1 || j == 2)) (axisOf j (h.pt (h.prev k))) (axisOf j (h.pt k))
  edgeSet : ∀ e k, some k ∈ h.edges e → h.edge k ≠ none
  one : ∀ k e e', some k ∈ h.edges e → some k ∈ h.edges e' → e = e'
  nodup : ∀ e k, occ k (h.edges e) ≤ 1

theorem EstInv.edgesOK {r : Rect} {h : Heap} (ei : EstInv r h) : EdgesOK h := by
  refine ⟨?_, ?_⟩
  · intro idx hidx
    refine ⟨⟨sideCoord r idx, ei.line idx hidx⟩, ei.cwd idx hidx, ei.ccwd idx hidx, ?_⟩
    intro k
    have n1 := ei.nodup (idx * 2) k
    have n2 := ei.nodup (idx * 2 + 1) k
    by_cases h1 : 0 < occ k (h.edges (idx * 2))
    · by_cases h2 : 0 < occ k (h.edges (idx * 2 + 1))
      · have := ei.one k _ _ ((occ_pos_iff k _).mp h1) ((occ_pos_iff k _).mp h2)
        omega
      · omega
    · omega
  · intro a b _ _ hab k hk hk2
    rcases hk with hk | hk <;> rcases hk2 with hk2 | hk2 <;> have := ei.one k _ _ hk hk2 <;> omega

theorem estInv_of_empty (r : Rect) (h : Heap) (he : ∀ e k, some k ∉ h.edges e) : EstInv r h := by
  refine ⟨?_, ?_, ?_, ?_, ?_, ?_⟩
  · intro j _ k hk; rcases hk with hk | hk <;> exact absurd hk (he _ k)
  · intro j _ k hk; exact absurd hk (he _ k)
  · intro j _ k hk; exact absurd hk (he _ k)
  · intro e k hk; exact absurd hk (he _ k)
  · intro k e e' hk; exact absurd hk (he _ k)
  · intro e k
    have : occ k (h.edges e) = 0 := (occ_zero_iff k _).mpr (he e k)
    omega

/-- `AddToEdge(edges_[t], op2)` for an entry that fits (`t = 2j` for a clockwise, `2j + 1` for a counter-clockwise entry) -/
theorem addToEdge_estInv (r : Rect) (h : Heap) (ei : EstInv r h) (j : Nat) (hj : j < 4) (op2 : Nat) (cw : Bool) (t : Nat)
    (ht : t = if cw then j * 2 else j * 2 + 1)
    (hl : othOf j (h.pt op2) = sideCoord r j ∧ othOf j (h.pt (h.prev op2)) = sideCoord r j)
    (hd : dirOK (if cw then (j == 1 || j == 2) else !(j == 1 || j == 2)) (axisOf j (h.pt (h.prev op2))) (axisOf j (h.pt op2))) :
    EstInv r (h.addToEdge t op2) := by
  have ht1 : cw = true → t = j * 2 := by intro e; rw [ht, e]; rfl
  have ht2 : cw = false → t = j * 2 + 1 := by intro e; rw [ht, e]; rfl
  clear ht
  cases hn : h.edge op2 with
  | some e0 =>
    have : h.addToEdge t op2 = h := by unfold Heap.addToEdge; rw [hn]
    rw [this]; exact ei
  | none =>
    have hnot : ∀ e, some op2 ∉ h.edges e := fun e m => ei.edgeSet e op2 m hn
    have ed := addToEdge_of_none h t op2 hn
    have sr := sameRings_addToEdge h t op2
    have hedge : ∀ k, k ≠ op2 → (h.addToEdge t op2).edge k = h.edge k := by
      intro k hk; unfold Heap.addToEdge; rw [hn]; simp only [upd_ne _ _ hk]
    have hedge2 : (h.addToEdge t op2).edge op2 ≠ none := by
      unfold Heap.addToEdge; rw [hn]; simp
    have hmem : ∀ e k, some k ∈ (h.addToEdge t op2).edges e → some k ∈ h.edges e ∨ (k = op2 ∧ e = t) := by
      intro e k hk
      rw [ed] at hk
      split at hk
      · rename_i he
        rcases List.mem_append.mp hk with m | m
        · left; rw [he]; exact m
        · right; simp only [List.mem_singleton, Option.some.injEq] at m; exact ⟨m, he⟩
      · exact Or.inl hk
    obtain ⟨s1, s2, s3, s4, s5, s6⟩ := sr
    refine ⟨?_, ?_, ?_, ?_, ?_, ?_⟩
    · intro j' hj' k hk
      rw [s2, s4]
      have : SideMem j' h k ∨ (k = op2 ∧ j' = j) := by
        rcases hk with hk | hk
        · rcases hmem _ k hk with m | ⟨m1, m2⟩
          · exact Or.inl (Or.inl m)
          · right; refine ⟨m1, ?_⟩; cases cw <;> simp only [forall_const, reduceCtorEq, false_implies] at ht1 ht2 <;> omega
        · rcases hmem _ k hk with m | ⟨m1, m2⟩
          · exact Or.inl (Or.inr m)
          · right; refine ⟨m1, ?_⟩; cases cw <;> simp only [forall_const, reduceCtorEq, false_implies] at ht1 ht2 <;> omega
      rcases this with m | ⟨rfl, rfl⟩
      · exact ei.line j' hj' k m
      · exact hl
    · intro j' hj' k hk
      rw [s2, s4]
      rcases hmem _ k hk with m | ⟨m1, m2⟩
      · exact ei.cwd j' hj' k m
      · subst m1
        cases cw with
        | true =>
          have := ht1 rfl
          simp only [if_true] at hd
          have : j' = j := by omega
          subst this; exact hd
        | false => have := ht2 rfl; omega
    · intro j' hj' k hk
      rw [s2, s4]
      rcases hmem _ k hk with m | ⟨m1, m2⟩
      · exact ei.ccwd j' hj' k m
      · subst m1
        cases cw with
        | true => have := ht1 rfl; omega
        | false =>
          have := ht2 rfl
          simp only [Bool.false_eq_true, if_false] at hd
          have : j' = j := by omega
          subst this; exact hd
    · intro e k hk
      by_cases hk2 : k = op2
      · subst hk2; exact hedge2
      · rw [hedge k hk2]
        rcases hmem e k hk with m | ⟨m1, _⟩
        · exact ei.edgeSet e k m
        · exact absurd m1 hk2
    · intro k e e' hk hk'
      rcases hmem e k hk with m | ⟨m1, m2⟩
      · rcases hmem e' k hk' with m' | ⟨m1', m2'⟩
        · exact ei.one k e e' m m'
        · subst m1'; exact absurd m (hnot e)
      · rcases hmem e' k hk' with m' | ⟨m1', m2'⟩
        · subst m1; exact absurd m' (hnot e')
        · rw [m2, m2']
    · intro e k
      rw [ed]
      split
      · unfold occ
        rw [wsum_append, wsum_cons, wsum_nil]
        by_cases hk2 : k = op2
        · subst hk2
          have : occ k (h.edges t) = 0 := (occ_zero_iff k _).mpr (hnot _)
          unfold occ at this
          simp only [if_true, this]; omega
        · have : ¬ (some op2 = some k) := by intro e'; simp only [Option.some.injEq] at e'; exact hk2 e'.symm
          have := ei.nodup t k
          unfold occ at this
          simp only [*, if_false]; omega
      · exact ei.nodup e k

theorem classifyOne_estInv (r : Rect) (h : Heap) (ei : EstInv r h) (op2 : Nat) (c : UInt64) (j : Nat) (hj : j < 4)
    (hc : bitSet c j = true → othOf j (h.pt op2) = sideCoord r j ∧ othOf j (h.pt (h.prev op2)) = sideCoord r j) :
    EstInv r (classifyOne h op2 c j) := by
  unfold classifyOne
  split
  · rename_i hb
    have hd := heading_dir (h.pt (h.prev op2)) (h.pt op2) j hj
    split
    · rename_i hh
      exact addToEdge_estInv r h ei j hj op2 true (j * 2) rfl (hc hb) (by simpa using hd.1 hh)
    · rename_i hh
      have hh' : isHeadingClockwise (h.pt (h.prev op2)) (h.pt op2) j = false := by simpa using hh
      exact addToEdge_estInv r h ei j hj op2 false (j * 2 + 1) rfl (hc hb) (by simpa using hd.2 hh')
  · exact ei

theorem classifyAll_estInv (r : Rect) (h : Heap) (ei : EstInv r h) (op2 : Nat) (c : UInt64)
    (hc : ∀ j, j < 4 → bitSet c j = true → othOf j (h.pt op2) = sideCoord r j ∧ othOf j (h.pt (h.prev op2)) = sideCoord r j) :
    EstInv r ([0, 1, 2, 3].foldl (fun hh j => classifyOne hh op2 c j) h) := by
  simp only [List.foldl_cons, List.foldl_nil]
  have s0 := (classifyOne_spec h op2 c 0).1
  have e0 := classifyOne_estInv r h ei op2 c 0 (by omega) (hc 0 (by omega))
  have s1 := (classifyOne_spec (classifyOne h op2 c 0) op2 c 1).1
  have e1 := classifyOne_estInv r _ e0 op2 c 1 (by omega) (by rw [s0.2.1, s0.2.2.2.1]; exact hc 1 (by omega))
  have s01 := s0.trans s1
  have s2 := (classifyOne_spec (classifyOne (classifyOne h op2 c 0) op2 c 1) op2 c 2).1
  have e2 := classifyOne_estInv r _ e1 op2 c 2 (by omega) (by rw [s01.2.1, s01.2.2.2.1]; exact hc 2 (by omega))
  have s012 := s01.trans s2
  exact classifyOne_estInv r _ e2 op2 c 3 (by omega) (by rw [s012.2.1, s012.2.2.2.1]; exact hc 3 (by omega))

/-- the classification loop of `CheckEdges` keeps `EstInv` -/
theorem edgeLoop_estInv (r : Rect) (op i : Nat) (ring : Nat → List Nat) : ∀ (fuel : Nat) (h : Heap) (es : UInt64) (op2 : Nat),
    EstInv r h → RingsWF h ring → op2 ∈ ring i → es = edgesForPt r (h.pt (h.prev op2)) →
    ∀ h', edgeLoop r op fuel h es op2 = .ok h' → EstInv r h'
  | 0, h, es, op2, _, _, _, _ => by intro h' e; simp [edgeLoop] at e
  | fuel + 1, h, es, op2, ei, w, h2, hes => by
    unfold edgeLoop
    simp only
    have key : ∀ h1 : Heap, SameRings h h1 → EstInv r h1 →
        ∀ h', (if h1.next op2 ≠ op then edgeLoop r op fuel h1 (edgesForPt r (h.pt op2)) (h1.next op2) else .ok h1) = .ok h' →
          EstInv r h' := by
      intro h1 sr e1 h' e
      split at e
      · have w1 : RingsWF h1 ring := w.of_sameRings sr
        have hn := w1.next_mem h2
        refine edgeLoop_estInv r op i ring fuel h1 _ (h1.next op2) e1 w1 hn.1 ?_ h' e
        rw [hn.2, sr.2.1]
      · simp only [Except.ok.injEq] at e
        subst e; exact e1
    split
    · apply key _ (classifyAll_spec h op2 _).1
      apply classifyAll_estInv r h ei op2
      intro j hj hb
      have := bitSet_and _ _ _ hb
      rw [hes] at this
      exact ⟨bit_coord r _ j hj this.2, bit_coord r _ j hj this.1⟩
    · exact key h (SameRings.refl _) ei

/-- **`CheckEdges` establishes `EdgesOK`** when it starts with empty edge lists (every case but "path encloses the rectangle") -/
theorem checkEdges_estab (r : Rect) (h : Heap) (ring : Nat → List Nat) (w : RingsWF h ring) (hlen : h.results.length ≤ 1)
    (he : ∀ e k, some k ∉ h.edges e) : ∀ h', checkEdges r h = .ok h' → EdgesOK h' := by
  intro h' hrun
  unfold checkEdges at hrun
  rcases Nat.lt_or_ge h.results.length 1 with h0 | h1
  · have : h.results.length = 0 := by omega
    rw [this] at hrun
    simp only [checkRings, Except.ok.injEq] at hrun
    subst hrun
    exact (estInv_of_empty r h he).edgesOK
  · have hl : h.results.length = 1 := by omega
    rw [hl] at hrun
    simp only [checkRings] at hrun
    have h0 : 0 < h.results.length := by omega
    cases hc : checkRing r h 0 with
    | error f => rw [hc] at hrun; cases hrun
    | ok hx =>
      rw [hc] at hrun
      simp only [Except.ok.injEq] at hrun
      subst hrun
      unfold checkRing at hc
      cases hr : h.results[0]? with
      | none => exact absurd (List.getElem?_eq_none_iff.mp hr) (by omega)
      | some v =>
        rw [hr] at hc
        cases v with
        | none =>
          simp only [Except.ok.injEq] at hc; subst hc
          exact (estInv_of_empty r h he).edgesOK
        | some op =>
          simp only at hc
          have w0 : RingsWF (withSlot h 0 (some op)) ring := by rw [withSlot_self h 0 _ hr]; exact w
          have hop : op ∈ ring 0 := w.slot_some 0 op hr
          have cl := collinearLoop_wf 0 (collFuel h) h op op ring w0 h0 hop
          cases hcl : collinearLoop (collFuel h) h op op with
          | error f => rw [hcl] at hc; cases hc
          | ok res =>
            obtain ⟨h1, op1, rr⟩ := res
            rw [hcl] at hc
            obtain ⟨fr, out⟩ := cl.1 h1 op1 rr hcl
            obtain ⟨f1, f2, f3, f4, f5, f6⟩ := fr
            have h01 : 0 < h1.results.length := by rw [f6]; exact h0
            have he1 : ∀ e k, some k ∉ h1.edges e := by rw [f5]; exact he
            cases rr with
            | none =>
              simp only at hc
              rw [setResult_ok h1 0 none h01] at hc
              simp only [Except.ok.injEq] at hc; subst hc
              exact (estInv_of_empty r _ (by simpa [withSlot] using he1)).edgesOK
            | some z =>
              simp only at hc
              rw [setResult_ok h1 0 (some op1) h01] at hc
              simp only at hc
              obtain ⟨L, hL, hm, wL, _⟩ := out
              have hm' : op1 ∈ (upd ring 0 L) 0 := by simp only [upd_same]; exact hm
              have ei0 : EstInv r (withSlot h1 0 (some op1)) := estInv_of_empty r _ (by simpa [withSlot] using he1)
              exact (edgeLoop_estInv r op1 0 (upd ring 0 L) _ _ _ op1 ei0 wL hm' rfl hx hc).edgesOK

/-! ### the enclosing case: `CheckEdges` changes no list -/

theorem edgeLoop_noop (r : Rect) (op i : Nat) (ring : Nat → List Nat) : ∀ (fuel : Nat) (h : Heap) (es : UInt64) (op2 : Nat),
    RingsWF h ring → op2 ∈ ring i → (∀ k ∈ ring i, h.edge k ≠ none) →
    ∀ h', edgeLoop r op fuel h es op2 = .ok h' → h' = h
  | 0, h, es, op2, _, _, _ => by intro h' e; simp [edgeLoop] at e
  | fuel + 1, h, es, op2, w, h2, hall => by
    intro h' e
    unfold edgeLoop at e
    simp only at e
    have hs : (h.edge op2).isNone = false := by
      cases he : h.edge op2 with
      | none => exact absurd he (hall op2 h2)
      | some x => rfl
    simp only [hs, Bool.and_false, Bool.false_eq_true, if_false] at e
    split at e
    · exact edgeLoop_noop r op i ring fuel h _ (h.next op2) w (w.next_mem h2).1 hall h' e
    · simp only [Except.ok.injEq] at e; exact e.symm

/-- in the enclosing case (`results_` has one ring without collinear nodes, all of whose nodes are registered already)
`CheckEdges` leaves all edge lists as they are -/
theorem checkEdges_lists_unchanged (r : Rect) (h : Heap) (ring : Nat → List Nat) (w : RingsWF h ring) (hlen : h.results.length ≤ 1)
    (hall : ∀ k ∈ ring 0, h.edge k ≠ none) (hnc : ∀ x ∈ ring 0, h.collinearAt x = false) :
    ∀ h', checkEdges r h = .ok h' → h'.edges = h.edges := by
  intro h' hrun
  unfold checkEdges at hrun
  rcases Nat.lt_or_ge h.results.length 1 with h0 | h1
  · have : h.results.length = 0 := by omega
    rw [this] at hrun
    simp only [checkRings, Except.ok.injEq] at hrun
    subst hrun; rfl
  · have hl : h.results.length = 1 := by omega
    rw [hl] at hrun
    simp only [checkRings] at hrun
    have h0 : 0 < h.results.length := by omega
    cases hc : checkRing r h 0 with
    | error f => rw [hc] at hrun; cases hrun
    | ok hx =>
      rw [hc] at hrun
      simp only [Except.ok.injEq] at hrun
      subst hrun
      unfold checkRing at hc
      cases hr : h.results[0]? with
      | none => exact absurd (List.getElem?_eq_none_iff.mp hr) (by omega)
      | some v =>
        rw [hr] at hc
        cases v with
        | none => simp only [Except.ok.injEq] at hc; subst hc; rfl
        | some op =>
          simp only at hc
          have w0 : RingsWF (withSlot h 0 (some op)) ring := by rw [withSlot_self h 0 _ hr]; exact w
          have hop : op ∈ ring 0 := w.slot_some 0 op hr
          have cl := collinearLoop_wf 0 (collFuel h) h op op ring w0 h0 hop
          cases hcl : collinearLoop (collFuel h) h op op with
          | error f => rw [hcl] at hc; cases hc
          | ok res =>
            obtain ⟨h1, op1, rr⟩ := res
            rw [hcl] at hc
            obtain ⟨fr, out⟩ := cl.1 h1 op1 rr hcl
            obtain ⟨f1, f2, f3, f4, f5, f6⟩ := fr
            have h01 : 0 < h1.results.length := by rw [f6]; exact h0
            cases rr with
            | none => exact absurd hnc out.2
            | some z =>
              simp only at hc
              rw [setResult_ok h1 0 (some op1) h01] at hc
              simp only at hc
              obtain ⟨L, hL, hm, wL, hLe⟩ := out
              have eL : L = ring 0 := hLe hnc
              have hm' : op1 ∈ (upd ring 0 L) 0 := by simp only [upd_same]; exact hm
              have := edgeLoop_noop r op1 0 (upd ring 0 L) _ (withSlot h1 0 (some op1)) _ op1 wL hm'
                (by intro k hk; simp only [upd_same] at hk; rw [eL] at hk; show h1.edge k ≠ none; rw [f4]; exact hall k hk) hx hc
              rw [this]; exact f5

end Clipper.Lemmas.RCT
