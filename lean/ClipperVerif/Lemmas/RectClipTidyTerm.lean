/-
Helper lemmas for Props/C08Tidy.lean, part 8: termination of the collinear-removal loops of `CheckEdges` and `GetPath` and of the
classification loop of `CheckEdges` (the fuel they get suffices), with explicit measures.
View of the state: the ring written from `op`, `op :: D ++ op2 :: T` (`D` = nodes already passed in this round, `T` = nodes still
to come before the round closes at `op`).  Measure: `n (n + 1) + |T|` with `n` the number of nodes of the ring: advancing shortens
`T`, every removal shortens the ring (and may start a new round, `|T| ≤ n - 2`).
Core Lean only.
-/
import ClipperVerif.Lemmas.RectClipTidyPath
namespace Clipper.Lemmas.RCT
open Clipper Clipper.Model.RC Clipper.Model.RCT

/-- in a cycle written `A ++ x :: B`, `next x` is the first and `prev x` the last element of `B ++ A` (or `x` itself) -/
theorem cyc_nbrs {nx pv : Nat → Nat} (A : List Nat) (x : Nat) (B : List Nat) (h : Cyc nx pv (A ++ x :: B)) :
    nx x = (B ++ A).headD x ∧ pv x = (B ++ A).getLastD x := by
  have hR : Cyc nx pv (x :: (B ++ A)) := by
    cases A with
    | nil => simpa using h
    | cons a A =>
      have := cyc_rotate (X := a :: A) (Y := x :: B) (by simp) (by simp) h
      simpa using this
  rcases List.eq_nil_or_concat (B ++ A) with e | ⟨U0, p, e⟩
  · rw [e] at hR ⊢
    have : Linked nx pv [x, x] := hR
    exact ⟨this.1, this.2.1⟩
  · have e' : B ++ A = U0 ++ [p] := by simpa using e
    rw [e'] at hR ⊢
    have hl : Linked nx pv (x :: (U0 ++ [p]) ++ [x]) := hR
    refine ⟨?_, ?_⟩
    · cases U0 with
      | nil => simpa using hl.1
      | cons z U0 => simpa using hl.1
    · have hl2 : Linked nx pv (U0 ++ [p, x]) := by
        have := linked_tail hl
        simpa using this
      have := ((linked_snoc2 _ _ _).mp hl2).2.2
      simpa using this

theorem headD_ne_of_nodup {x : Nat} {l : List Nat} (hne : l ≠ []) (hx : x ∉ l) : l.headD x ≠ x := by
  cases l with
  | nil => exact absurd rfl hne
  | cons a l => intro e; simp only [List.headD_cons] at e; exact hx (by simp [e])

/-- the fuel bound of the collinear loops -/
def phi (n t : Nat) : Nat := n * (n + 1) + t

theorem sq_id (n : Nat) : (n + 1) * (n + 1 + 1) = n * (n + 1) + 2 * (n + 1) := by grind

theorem phi_lt_collFuel (h : Heap) (n t : Nat) (hn : n ≤ h.n) (ht : t ≤ n) : phi n t < collFuel h := by
  unfold phi collFuel
  have h1 : n * (n + 1) ≤ h.n * (h.n + 1) := Nat.mul_le_mul hn (by omega)
  have h2 := sq_id h.n
  have h3 : (h.n + 1) * (h.n + 2) = (h.n + 1) * (h.n + 1 + 1) := rfl
  omega

/-- advancing within a round -/
theorem phi_a {n n' t t' fuel : Nat} (hn : n' = n) (ht : t' < t) (hf : phi n t < fuel + 1) : phi n' t' < fuel := by
  subst hn; unfold phi at hf ⊢; omega

/-- a removal: the ring shrinks by one; the round continues (`t' = t`) or a new round starts (`t' ≤ n'`) -/
theorem phi_b {n n' t t' fuel : Nat} (hn : n' + 1 = n) (ht : t' ≤ n' ∨ t' = t) (hf : phi n t < fuel + 1) :
    phi n' t' < fuel := by
  subst hn; unfold phi at hf ⊢
  have := sq_id n'
  rcases ht with ht | ht <;> omega

theorem getLastD_snoc (l : List Nat) (z d : Nat) : (l ++ [z]).getLastD d = z := by
  simp [List.getLastD_eq_getLast?]

/-- **The collinear pass of `CheckEdges` terminates**: from a state inside a round (`op2 ≠ op`, ring `op :: D ++ op2 :: T`)
within `phi n |T|` further iterations, from the entry state (`op2 = op`, ring `op :: R`) within `phi n n` iterations, where `n` is
the number of nodes of the ring. -/
theorem collinearLoop_fuel : ∀ (fuel : Nat) (h : Heap) (op : Nat),
    (∀ (op2 : Nat) (D T : List Nat), Cyc h.next h.prev (op :: D ++ op2 :: T) → (op :: D ++ op2 :: T).Nodup →
      phi (D.length + T.length + 2) T.length < fuel → ∃ res, collinearLoop fuel h op op2 = .ok res) ∧
    (∀ (R : List Nat), Cyc h.next h.prev (op :: R) → (op :: R).Nodup →
      phi (R.length + 1) (R.length + 1) < fuel → ∃ res, collinearLoop fuel h op op = .ok res)
  | 0, _, _ => ⟨fun _ _ _ _ _ hf => absurd hf (Nat.not_lt_zero _), fun _ _ _ hf => absurd hf (Nat.not_lt_zero _)⟩
  | fuel + 1, h, op => by
    constructor
    · -- inside a round
      intro op2 D T hc hnd hf
      have hne2 : op2 ≠ op := by
        intro e; subst e
        have := (List.nodup_cons.mp hnd).1
        exact this (by simp)
      have hnb := cyc_nbrs (op :: D) op2 T (by simpa using hc)
      unfold collinearLoop
      split
      · -- collinear: unlink op2, step back
        rw [unlinkOpBack_spec]
        have hself : h.next op2 ≠ op2 := by
          rw [hnb.1]
          apply headD_ne_of_nodup (by simp)
          intro m
          have hnd' : ((op :: D) ++ op2 :: T).Nodup := by simpa using hnd
          rcases List.mem_append.mp m with m | m
          · exact (List.nodup_cons.mp (List.nodup_append.mp hnd').2.1).1 m
          · exact (List.nodup_append.mp hnd').2.2 op2 m op2 (by simp) rfl
        simp only [if_false, hself]
        have hul := unlink_lists (op :: D) op2 T (by simpa using hnd) (by simpa using hc) (by simp)
        have hc' : Cyc (h.unlink op2).next (h.unlink op2).prev (op :: D ++ T) := by
          rw [unlink_eq]; simpa using hul.1
        have hnd' : (op :: D ++ T).Nodup := by
          have : (op :: D ++ T).Sublist (op :: D ++ op2 :: T) := by
            apply List.Sublist.cons_cons
            exact List.Sublist.append (List.Sublist.refl _) (List.sublist_cons_self _ _)
          exact this.nodup hnd
        rcases List.eq_nil_or_concat D with e | ⟨D', z, e⟩
        · -- D = []: prev op2 = op, the loop ends
          subst e
          have : h.prev op2 = op := by rw [hnb.2]; simp
          simp [this]
        · have e' : D = D' ++ [z] := by simpa using e
          subst e'
          have hq : h.prev op2 = z := by
            rw [hnb.2]
            have : T ++ op :: (D' ++ [z]) = (T ++ op :: D') ++ [z] := by simp
            rw [this]; exact getLastD_snoc _ _ _
          have hzne : z ≠ op := by
            intro e; subst e
            exact (List.nodup_cons.mp hnd).1 (by simp)
          simp only [hq, ne_eq, hzne, not_false_eq_true, if_true]
          have ih := (collinearLoop_fuel fuel (h.unlink op2) op).1 z D' T (by simpa using hc') (by simpa using hnd')
          apply ih
          exact phi_b (by simp only [List.length_append, List.length_cons, List.length_nil]; omega) (Or.inr rfl) hf
      · -- not collinear: advance
        simp only
        cases T with
        | nil =>
          have : h.next op2 = op := by rw [hnb.1]; simp
          simp [this]
        | cons t T' =>
          have hq : h.next op2 = t := by rw [hnb.1]; simp
          have htne : t ≠ op := by
            intro e; subst e
            exact (List.nodup_cons.mp hnd).1 (by simp)
          simp only [hq, ne_eq, htne, not_false_eq_true, if_true]
          have ih := (collinearLoop_fuel fuel h op).1 t (D ++ [op2]) T' (by simpa using hc) (by simpa using hnd)
          apply ih
          exact phi_a (by simp only [List.length_append, List.length_cons, List.length_nil]; omega)
            (by simp only [List.length_cons]; omega) hf
    · -- entry: op2 = op
      intro R hc hnd hf
      have hnb := cyc_nbrs [] op R (by simpa using hc)
      simp only [List.append_nil] at hnb
      unfold collinearLoop
      split
      · rw [unlinkOpBack_spec]
        simp only [if_true]
        cases R with
        | nil =>
          have : h.next op = op := by rw [hnb.1]; rfl
          simp [this]
        | cons r0 R0 =>
          have hself : h.next op ≠ op := by
            rw [hnb.1]
            exact headD_ne_of_nodup (by simp) (List.nodup_cons.mp hnd).1
          simp only [hself, if_false]
          have hul := unlink_lists [] op (r0 :: R0) (by simpa using hnd) (by simpa using hc) (by simp)
          have hc' : Cyc (h.unlink op).next (h.unlink op).prev (r0 :: R0) := by
            rw [unlink_eq]; simpa using hul.1
          have hnd' : (r0 :: R0).Nodup := (List.nodup_cons.mp hnd).2
          -- R = R'' ++ [y, z] or R = [z]
          rcases List.eq_nil_or_concat (r0 :: R0) with e | ⟨R1, z, e⟩
          · cases e
          · have e1 : r0 :: R0 = R1 ++ [z] := by simpa using e
            have hq : h.prev op = z := by rw [hnb.2, e1]; exact getLastD_snoc _ _ _
            rw [e1] at hc' hnd'
            rcases List.eq_nil_or_concat R1 with e2 | ⟨R2, y, e2⟩
            · subst e2
              -- one node left: op' = q, the loop ends
              have hl : Linked (h.unlink op).next (h.unlink op).prev [z, z] := hc'
              have : (h.unlink op).prev z = z := hl.2.1
              simp [hq, this]
            · have e2' : R1 = R2 ++ [y] := by simpa using e2
              subst e2'
              have hnb' := cyc_nbrs (R2 ++ [y]) z [] (by simpa using hc')
              have hp' : (h.unlink op).prev z = y := by
                rw [hnb'.2]
                have : [] ++ (R2 ++ [y]) = R2 ++ [y] := by simp
                rw [this]; exact getLastD_snoc _ _ _
              have hzy : z ≠ y := by
                intro e; subst e
                have := (List.nodup_append.mp hnd').2.2 z (by simp) z (by simp)
                exact this rfl
              simp only [hq, hp', ne_eq, hzy, not_false_eq_true, if_true]
              -- new view: y :: [] ++ z :: R2
              have hc'' : Cyc (h.unlink op).next (h.unlink op).prev (y :: [] ++ z :: R2) := by
                cases R2 with
                | nil => simpa using hc'
                | cons a R2 =>
                  have := cyc_rotate (X := a :: R2) (Y := [y, z]) (by simp) (by simp) (by simpa using hc')
                  simpa using this
              have hnd'' : (y :: [] ++ z :: R2).Nodup := by
                have : (y :: [] ++ z :: R2).Perm (R2 ++ [y] ++ [z]) := by
                  have := List.perm_append_comm (l₁ := [y, z]) (l₂ := R2)
                  simpa using this
                exact this.nodup_iff.mpr hnd'
              have ih := (collinearLoop_fuel fuel (h.unlink op) y).1 z [] R2 hc'' hnd''
              apply ih
              have hlen : (r0 :: R0).length = R2.length + 2 := by rw [e1]; simp
              exact phi_b (by rw [hlen]; simp only [List.length_nil]; omega)
                (Or.inl (by simp only [List.length_nil]; omega)) hf
      · simp only
        cases R with
        | nil =>
          have : h.next op = op := by rw [hnb.1]; rfl
          simp [this]
        | cons t T' =>
          have hq : h.next op = t := by rw [hnb.1]; rfl
          have htne : t ≠ op := by
            intro e; subst e
            exact (List.nodup_cons.mp hnd).1 (by simp)
          simp only [hq, ne_eq, htne, not_false_eq_true, if_true]
          have ih := (collinearLoop_fuel fuel h op).1 t [] T' (by simpa using hc) (by simpa using hnd)
          apply ih
          exact phi_a (by simp only [List.length_nil, List.length_cons]; omega)
            (by simp only [List.length_cons]; omega) hf

/-- **The collinear pass of `GetPath` terminates** within `phi n |T|` iterations from the state `op :: D ++ op2 :: T`. -/
theorem getPathLoop_fuel : ∀ (fuel : Nat) (h : Heap) (op op2 : Nat) (D T : List Nat),
    Cyc h.next h.prev (op :: D ++ op2 :: T) → (op :: D ++ op2 :: T).Nodup →
    phi (D.length + T.length + 2) T.length < fuel → ∃ res, getPathLoop fuel h op op2 = .ok res
  | 0, _, _, _, _, _, _, _, hf => absurd hf (Nat.not_lt_zero _)
  | fuel + 1, h, op, op2, D, T, hc, hnd, hf => by
    have hne2 : op2 ≠ op := by
      intro e; subst e
      exact (List.nodup_cons.mp hnd).1 (by simp)
    have hnb := cyc_nbrs (op :: D) op2 T (by simpa using hc)
    have hfuel1 : 1 ≤ fuel := by
      unfold phi at hf
      have : 2 ≤ (D.length + T.length + 2) * (D.length + T.length + 2 + 1) := by
        have := Nat.mul_le_mul (show 2 ≤ D.length + T.length + 2 by omega) (show 1 ≤ D.length + T.length + 2 + 1 by omega)
        omega
      omega
    have base : ∀ (h' : Heap) (o : Nat), ∃ res, getPathLoop fuel h' o o = .ok res := by
      intro h' o
      obtain ⟨f, rfl⟩ : ∃ f, fuel = f + 1 := ⟨fuel - 1, by omega⟩
      exact ⟨(h', some o), by simp [getPathLoop]⟩
    unfold getPathLoop
    simp only [ne_eq, hne2, not_false_eq_true, if_true]
    split
    · -- collinear: op = op2->prev; op2 = UnlinkOp(op2)
      rw [unlinkOp_spec]
      have hself : h.next op2 ≠ op2 := by
        rw [hnb.1]
        apply headD_ne_of_nodup (by simp)
        intro m
        have hnd' : ((op :: D) ++ op2 :: T).Nodup := by simpa using hnd
        rcases List.mem_append.mp m with m | m
        · exact (List.nodup_cons.mp (List.nodup_append.mp hnd').2.1).1 m
        · exact (List.nodup_append.mp hnd').2.2 op2 m op2 (by simp) rfl
      simp only [hself, if_false]
      have hul := unlink_lists (op :: D) op2 T (by simpa using hnd) (by simpa using hc) (by simp)
      have hc' : Cyc (h.unlink op2).next (h.unlink op2).prev (op :: D ++ T) := by
        rw [unlink_eq]; simpa using hul.1
      have hnd' : (op :: D ++ T).Nodup := by
        have : (op :: D ++ T).Sublist (op :: D ++ op2 :: T) := by
          apply List.Sublist.cons_cons
          exact List.Sublist.append (List.Sublist.refl _) (List.sublist_cons_self _ _)
        exact this.nodup hnd
      rcases List.eq_nil_or_concat D with e | ⟨D', z, e⟩
      · subst e
        have hp : h.prev op2 = op := by rw [hnb.2]; simp
        rw [hp]
        cases T with
        | nil =>
          have : h.next op2 = op := by rw [hnb.1]; simp
          rw [this]; exact base _ _
        | cons t T' =>
          have hq : h.next op2 = t := by rw [hnb.1]; simp
          rw [hq]
          apply getPathLoop_fuel fuel (h.unlink op2) op t [] T' (by simpa using hc') (by simpa using hnd')
          exact phi_b (by simp only [List.length_nil, List.length_cons]; omega)
            (Or.inl (by simp only [List.length_nil]; omega)) hf
      · have e' : D = D' ++ [z] := by simpa using e
        subst e'
        have hp : h.prev op2 = z := by
          rw [hnb.2]
          have : T ++ op :: (D' ++ [z]) = (T ++ op :: D') ++ [z] := by simp
          rw [this]; exact getLastD_snoc _ _ _
        rw [hp]
        -- the ring written from z
        have hrot : Cyc (h.unlink op2).next (h.unlink op2).prev ((z :: T) ++ (op :: D')) := by
          have := cyc_rotate (X := op :: D') (Y := z :: T) (by simp) (by simp) (by simpa using hc')
          exact this
        have hndrot : ((z :: T) ++ (op :: D')).Nodup := by
          have : ((z :: T) ++ (op :: D')).Perm (op :: (D' ++ [z]) ++ T) := by
            have := List.perm_append_comm (l₁ := z :: T) (l₂ := op :: D')
            simpa using this
          exact this.nodup_iff.mpr hnd'
        cases T with
        | nil =>
          have hq : h.next op2 = op := by rw [hnb.1]; simp
          rw [hq]
          apply getPathLoop_fuel fuel (h.unlink op2) z op [] D' (by simpa using hrot) (by simpa using hndrot)
          exact phi_b (by simp only [List.length_nil, List.length_append, List.length_cons]; omega)
            (Or.inl (by simp only [List.length_nil]; omega)) hf
        | cons t T' =>
          have hq : h.next op2 = t := by rw [hnb.1]; simp
          rw [hq]
          apply getPathLoop_fuel fuel (h.unlink op2) z t [] (T' ++ op :: D') (by simpa using hrot) (by simpa using hndrot)
          exact phi_b (by simp only [List.length_nil, List.length_append, List.length_cons]; omega)
            (Or.inl (by simp only [List.length_nil, List.length_append, List.length_cons]; omega)) hf
    · -- not collinear: advance
      cases T with
      | nil =>
        have : h.next op2 = op := by rw [hnb.1]; simp
        rw [this]; exact base _ _
      | cons t T' =>
        have hq : h.next op2 = t := by rw [hnb.1]; simp
        rw [hq]
        apply getPathLoop_fuel fuel h op t (D ++ [op2]) T' (by simpa using hc) (by simpa using hnd)
        exact phi_a (by simp only [List.length_append, List.length_cons, List.length_nil]; omega)
          (by simp only [List.length_cons]; omega) hf

/-- **The classification loop of `CheckEdges` terminates**: it walks the ring once -/
theorem edgeLoop_fuel (r : Rect) (op : Nat) : ∀ (S : List Nat) (fuel : Nat) (h : Heap) (es : UInt64) (op2 : Nat),
    Linked h.next h.prev (op2 :: S ++ [op]) → op ∉ S → S.length < fuel → ∃ h', edgeLoop r op fuel h es op2 = .ok h'
  | S, 0, _, _, _, _, _, hf => absurd hf (Nat.not_lt_zero _)
  | S, fuel + 1, h, es, op2, hl, hop, hf => by
    unfold edgeLoop
    simp only
    have key : ∀ h1 : Heap, SameRings h h1 →
        ∃ h', (if h1.next op2 ≠ op then edgeLoop r op fuel h1 (edgesForPt r (h.pt op2)) (h1.next op2) else .ok h1) = .ok h' := by
      intro h1 sr
      have hl1 : Linked h1.next h1.prev (op2 :: S ++ [op]) := by rw [sr.2.2.1, sr.2.2.2.1]; exact hl
      cases S with
      | nil =>
        have : h1.next op2 = op := hl1.1
        exact ⟨h1, by simp [this]⟩
      | cons s S' =>
        have hq : h1.next op2 = s := hl1.1
        have hs : s ≠ op := by intro e; subst e; exact hop (by simp)
        simp only [hq, ne_eq, hs, not_false_eq_true, if_true]
        exact edgeLoop_fuel r op S' fuel h1 _ s (linked_tail hl1) (fun m => hop (List.mem_cons_of_mem _ m))
          (by simp only [List.length_cons] at hf; omega)
    split
    · exact key _ (classifyAll_spec h op2 _).1
    · exact key h (SameRings.refl _)

/-! ### `CheckEdges` and `GetPath` return -/

theorem checkRing_total (r : Rect) (h : Heap) (ring : Nat → List Nat) (w : RingsWF h ring) (hlen : h.results.length = 1) :
    ∃ h', checkRing r h 0 = .ok h' := by
  have h0 : 0 < h.results.length := by omega
  unfold checkRing
  cases hr : h.results[0]? with
  | none => exact absurd (List.getElem?_eq_none_iff.mp hr) (by omega)
  | some v =>
    cases v with
    | none => exact ⟨h, rfl⟩
    | some op =>
      simp only
      have w0 : RingsWF (withSlot h 0 (some op)) ring := by rw [withSlot_self h 0 _ hr]; exact w
      have hop : op ∈ ring 0 := w.slot_some 0 op hr
      -- the collinear pass returns
      obtain ⟨W, hW, hp⟩ := cyc_rotate_first (w.cyc 0 (List.ne_nil_of_mem hop)) hop
      have hndW : (op :: W).Nodup := hp.nodup_iff.mpr (w.nodup 0)
      have hlenW : (op :: W).length ≤ h.n := nodup_bound h.n _ hndW (fun k hk => w.lt 0 k (hp.mem_iff.mp hk))
      obtain ⟨res, hres⟩ := (collinearLoop_fuel (collFuel h) h op).2 W hW hndW
        (phi_lt_collFuel h _ _ (by simpa using hlenW) (Nat.le_refl _))
      obtain ⟨h1, op1, rr⟩ := res
      obtain ⟨fr, out⟩ := (collinearLoop_wf 0 (collFuel h) h op op ring w0 h0 hop).1 h1 op1 rr hres
      obtain ⟨f1, f2, f3, f4, f5, f6⟩ := fr
      have h01 : 0 < h1.results.length := by rw [f6]; exact h0
      rw [hres]
      cases rr with
      | none => simp only; rw [setResult_ok h1 0 none h01]; exact ⟨_, rfl⟩
      | some z =>
        simp only
        rw [setResult_ok h1 0 (some op1) h01]
        simp only
        obtain ⟨L, hL, hm, wL, _⟩ := out
        have hcyc : Cyc (withSlot h1 0 (some op1)).next (withSlot h1 0 (some op1)).prev L := by
          have := wL.cyc 0 (by simp only [upd_same]; exact List.ne_nil_of_mem hm)
          simpa only [upd_same] using this
        have hndL : L.Nodup := by have := wL.nodup 0; simpa only [upd_same] using this
        obtain ⟨W1, hW1, hp1⟩ := cyc_rotate_first hcyc hm
        have hnd1 : (op1 :: W1).Nodup := hp1.nodup_iff.mpr hndL
        have hlen1 : (op1 :: W1).length ≤ h1.n :=
          nodup_bound h1.n _ hnd1 (fun k hk => by
            have := wL.lt 0 k (by simp only [upd_same]; exact hp1.mem_iff.mp hk); exact this)
        exact edgeLoop_fuel r op1 W1 _ _ _ op1 hW1 (List.nodup_cons.mp hnd1).1
          (by simp only [List.length_cons] at hlen1; show W1.length < h1.n + 1; omega)

theorem checkEdges_total (r : Rect) (h : Heap) (ring : Nat → List Nat) (w : RingsWF h ring) (hlen : h.results.length ≤ 1) :
    ∃ h', checkEdges r h = .ok h' := by
  unfold checkEdges
  rcases Nat.lt_or_ge h.results.length 1 with h0 | h1
  · have : h.results.length = 0 := by omega
    rw [this]; exact ⟨h, rfl⟩
  · have hl : h.results.length = 1 := by omega
    rw [hl]
    obtain ⟨h', e⟩ := checkRing_total r h ring w hl
    exact ⟨h', by simp [checkRings, e]⟩

theorem getPath_total (h : Heap) (i : Nat) (ring : Nat → List Nat) (w : RingsWF h ring) (hi : i < h.results.length) :
    ∃ res, getPath h i = .ok res := by
  unfold getPath
  cases hr : h.results[i]? with
  | none => exact absurd (List.getElem?_eq_none_iff.mp hr) (by omega)
  | some v =>
    cases v with
    | none => exact ⟨_, rfl⟩
    | some op =>
      simp only
      split
      · exact ⟨_, rfl⟩
      · rename_i hnp
        have w0 : RingsWF (withSlot h i (some op)) ring := by rw [withSlot_self h i _ hr]; exact w
        have hop : op ∈ ring i := w.slot_some i op hr
        obtain ⟨W, hW, hp⟩ := cyc_rotate_first (w.cyc i (List.ne_nil_of_mem hop)) hop
        have hndW : (op :: W).Nodup := hp.nodup_iff.mpr (w.nodup i)
        have hlenW : (op :: W).length ≤ h.n := nodup_bound h.n _ hndW (fun k hk => w.lt i k (hp.mem_iff.mp hk))
        have hnb := cyc_nbrs [] op W (by simpa using hW)
        simp only [List.append_nil] at hnb
        cases W with
        | nil =>
          exfalso; apply hnp; rw [hnb.1, hnb.2]; rfl
        | cons t T =>
          have hq : h.next op = t := by rw [hnb.1]; rfl
          obtain ⟨res, hres⟩ := getPathLoop_fuel (collFuel h) h op t [] T (by simpa using hW) (by simpa using hndW)
            (phi_lt_collFuel h _ _ (by simp only [List.length_cons, List.length_nil] at hlenW ⊢; omega)
              (by simp only [List.length_nil]; omega))
          obtain ⟨h1, rr⟩ := res
          rw [hq, hres]
          obtain ⟨fr, o, L, er, hL, hm, wL⟩ :=
            (getPathLoop_wf i (collFuel h) h op t ring w0 hi (by rw [← hq]; exact (w.next_mem hop).1)).1 h1 rr hres
          subst er
          obtain ⟨f1, f2, f3, f4, f5, f6⟩ := fr
          have hi1 : i < h1.results.length := by rw [f6]; exact hi
          simp only
          rw [setResult_ok h1 i (some o) hi1]
          simp only
          have hcyc : Cyc (withSlot h1 i (some o)).next (withSlot h1 i (some o)).prev L := by
            have := wL.cyc i (by simp only [upd_same]; exact List.ne_nil_of_mem hm)
            simpa only [upd_same] using this
          have hndL : L.Nodup := by have := wL.nodup i; simpa only [upd_same] using this
          obtain ⟨W1, hW1, hp1⟩ := cyc_rotate_first hcyc hm
          have hnd1 : (o :: W1).Nodup := hp1.nodup_iff.mpr hndL
          have hlen1 : (o :: W1).length ≤ h1.n :=
            nodup_bound h1.n _ hnd1 (fun k hk => by
              have := wL.lt i k (by simp only [upd_same]; exact hp1.mem_iff.mp hk); exact this)
          have hl : Linked (withSlot h1 i (some o)).next (withSlot h1 i (some o)).prev (o :: (W1 ++ [o])) := hW1
          have hnext : (withSlot h1 i (some o)).next o = (W1 ++ [o]).headD o := by
            cases W1 with
            | nil => simpa using hl.1
            | cons z Z => simpa using hl.1
          have hcol := collectLoop_spec (withSlot h1 i (some o)) o W1 ((withSlot h1 i (some o)).n + 1)
            ((withSlot h1 i (some o)).next o) (List.nodup_cons.mp hnd1).1 (linked_tail hl) hnext
            (by simp only [List.length_cons] at hlen1; show W1.length < h1.n + 1; omega)
          rw [hcol]
          exact ⟨_, rfl⟩

theorem getPaths_total : ∀ (k i : Nat) (h : Heap) (ring : Nat → List Nat), RingsWF h ring → i + k ≤ h.results.length →
    ∃ res, Model.RCT.getPaths k i h = .ok res
  | 0, _, _, _, _, _ => ⟨_, rfl⟩
  | k + 1, i, h, ring, w, hk => by
    obtain ⟨res, hres⟩ := getPath_total h i ring w (by omega)
    obtain ⟨p, h1⟩ := res
    obtain ⟨⟨_, _, _, _, _, f6⟩, L, _, wL, _⟩ := (getPath_wf h i ring w (by omega)).1 p h1 hres
    obtain ⟨res2, hres2⟩ := getPaths_total k (i + 1) h1 (upd ring i L) wL (by rw [f6]; omega)
    obtain ⟨ps, h2⟩ := res2
    exact ⟨(if p.isEmpty then ps else p :: ps, h2), by simp [Model.RCT.getPaths, hres, hres2]⟩

end Clipper.Lemmas.RCT
