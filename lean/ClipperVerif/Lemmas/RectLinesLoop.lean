/-
C09 `lines_cover`: the loop analysis.  By induction on the fuel, every state the main loop of
`RectClipLines64::ExecuteInternal` (model `loop`) can be in produces exactly the `Add` calls described by `Tail`.
Core Lean only.
-/
import ClipperVerif.Lemmas.RectLinesCover
namespace Clipper.Lemmas.RLV
open Clipper Clipper.Model.RC Clipper.Lemmas.RC Clipper.Lemmas.RCE Clipper.Lemmas.RCA Clipper.Lemmas.RLC
open Clipper.Lemmas.RLG

/-- state inside at `i`, vertex `i-1` of class in -/
def KA (A : Arith) (r : Rect) (path : Path) (i : Nat) (es : List Emit) : Prop :=
  ∀ prv, path[i - 1]? = some prv → inRect r prv = true → Tail A r i true (path.drop (i - 1)) es
/-- state inside at `i` right after an entering crossing: vertex `i` strictly inside, not yet added -/
def KA' (A : Arith) (r : Rect) (path : Path) (i : Nat) (es : List Emit) : Prop :=
  ∀ cur, path[i]? = some cur → SIn r cur → ∃ es', es = V i cur :: es' ∧ Tail A r (i + 1) true (path.drop i) es'
/-- state outside (`loc`) at `i`, vertex `i-1` in the closed half-plane beyond side `loc` -/
def KB (A : Arith) (r : Rect) (path : Path) (loc : Location) (i : Nat) (es : List Emit) : Prop :=
  ∀ prv, path[i - 1]? = some prv → Ready r loc prv → Tail A r i false (path.drop (i - 1)) es
/-- state outside (`loc`) at `i` right after a crossing: vertex `i` in the closed half-plane beyond side `loc` -/
def KB' (A : Arith) (r : Rect) (path : Path) (loc : Location) (i : Nat) (es : List Emit) : Prop :=
  ∀ cur, path[i]? = some cur → Ready r loc cur → Tail A r (i + 1) false (path.drop i) es

def P (A : Arith) (r : Rect) (path : Path) (fuel : Nat) : Prop :=
  ∀ i loc es, 1 ≤ i → loop A r path fuel i loc = some es →
    (loc = .inside → KA A r path i es ∧ KA' A r path i es) ∧
    (loc ≠ .inside → KB A r path loc i es ∧ KB' A r path loc i es)

theorem inRect_false_of_outsideLoc {r : Rect} {q : Pt} {l : Location} (h : outsideLoc r q = some l) :
    inRect r q = false := by
  cases hi : inRect r q
  · rfl
  · rw [(outsideLoc_none_iff r q).mpr hi] at h; cases h

theorem inside_core {A : Arith} (hA : SignExact A) (ht : IsectTotal A) {r : Rect} (hw : r.left < r.right)
    (hh : r.top < r.bottom) (path : Path) (fuel : Nat) (IH : P A r path fuel) (i : Nat) (hi : 1 ≤ i)
    (hin : i < path.length) (es : List Emit) (hb : loop A r path (fuel + 1) i .inside = some es)
    (L' : Location) (j : Nat) (adds : List (Nat × Pt)) (hgg : getNextLocation r path .inside i = (L', j, adds))
    (hprev : ∀ pj, path[j - 1]? = some pj → inRect r pj = true) :
    ∃ e', es = vertexEmits adds ++ e' ∧ Tail A r j true (path.drop (j - 1)) e' := by
  have g := gnl_spec r path .inside i
  rw [hgg] at g
  have hge : i ≤ j := g.ge
  have hle : j ≤ path.length := g.le (Nat.le_of_lt hin)
  rw [loop_succ_lt _ _ _ _ _ _ hin] at hb
  by_cases hj : j < path.length
  · have hj' : j - 1 < path.length := by omega
    have hc : path[j]? = some path[j] := List.getElem?_eq_getElem hj
    have hp : path[j - 1]? = some path[j - 1] := List.getElem?_eq_getElem hj'
    generalize path[j] = cur at hc
    generalize path[j - 1] = prvj at hp
    have hfrom := gnl_from_inside r path i cur (by rw [hgg]; exact hc)
    rw [hgg] at hfrom
    simp only at hfrom
    have hx := exit_found hA ht hw hh hfrom.2 (hprev prvj hp) ⟨0, 0⟩
    rw [step_next_of A r path i .inside cur prvj (by rw [hgg]; exact hc) (by rw [hgg]; exact hp)] at hb
    rw [hgg] at hb
    simp only at hb
    rw [if_neg (by simp [hx]), if_neg hfrom.1, if_neg (by simp)] at hb
    simp only at hb
    obtain ⟨es2, h2, rfl⟩ := map_append_some hb
    have ih := IH j L' es2 (by omega) h2
    have kb' := (ih.2 hfrom.1).2 cur hc (outsideLoc_ready r cur _ hfrom.2)
    refine ⟨[⟨j, (getIntersection A r cur prvj L' ⟨0, 0⟩).2.2, false, .exit⟩] ++ es2, by simp, ?_⟩
    rw [drop_cons2 (by omega) hp hc]
    have hcls : clsNext r true cur = false := clsNext_notin true (inRect_false_of_outsideLoc hfrom.2)
    exact tail_cons A r j true prvj cur (path.drop (j + 1)) _ es2
      (by rw [hcls]; exact ⟨L', hfrom.2, hx, rfl⟩) (by rw [hcls, ← drop_cons1 hc]; exact kb')
  · rw [step_done_of A r path i .inside (by rw [hgg]; exact hj)] at hb
    rw [hgg] at hb
    simp only [Option.some.injEq] at hb
    refine ⟨[], by simp [hb], ?_⟩
    rw [tail_short]
    simp only [List.length_drop]; omega

theorem outside_core {A : Arith} (hA : SignExact A) (ht : IsectTotal A) {r : Rect} (hw : r.left < r.right)
    (hh : r.top < r.bottom) (path : Path) (fuel : Nat) (IH : P A r path fuel) (i : Nat) (hi : 1 ≤ i)
    (hin : i < path.length) (L : Location) (hL : L ≠ .inside) (es : List Emit)
    (hb : loop A r path (fuel + 1) i L = some es)
    (L' : Location) (j : Nat) (adds : List (Nat × Pt)) (hgg : getNextLocation r path L i = (L', j, adds))
    (hprev : ∀ pj, path[j - 1]? = some pj → Ready r L pj) :
    Tail A r j false (path.drop (j - 1)) es := by
  have g := gnl_spec r path L i
  rw [hgg] at g
  have hge : i ≤ j := g.ge
  have hle : j ≤ path.length := g.le (Nat.le_of_lt hin)
  have hadds : adds = [] := by
    have := gnl_adds_nil r path L i hL
    rw [hgg] at this; exact this
  subst hadds
  rw [loop_succ_lt _ _ _ _ _ _ hin] at hb
  by_cases hj : j < path.length
  · have hj' : j - 1 < path.length := by omega
    have hc : path[j]? = some path[j] := List.getElem?_eq_getElem hj
    have hp : path[j - 1]? = some path[j - 1] := List.getElem?_eq_getElem hj'
    generalize path[j] = cur at hc
    generalize path[j - 1] = prvj at hp
    have hrp : Ready r L prvj := hprev prvj hp
    have hnr : ¬ Ready r L cur := by
      have hs := skipWhile_stop (condOf r L) path i cur (by
        have := gnl_idx r path L i
        rw [hgg] at this; simp only at this
        rw [← this]; exact hc)
      rw [← condOf_iff]; simp [hs]
    rw [step_next_of A r path i L cur prvj (by rw [hgg]; exact hc) (by rw [hgg]; exact hp)] at hb
    rw [hgg] at hb
    simp only [vertexEmits, List.map_nil, List.nil_append] at hb
    rw [drop_cons2 (by omega) hp hc]
    by_cases hx : (getIntersection A r cur prvj L' ⟨0, 0⟩).1 = true
    · rw [if_neg (by simp [hx])] at hb
      by_cases hli : L' = .inside
      · subst hli
        rw [if_pos rfl] at hb
        simp only at hb
        obtain ⟨es2, h2, rfl⟩ := map_append_some hb
        have hs : SIn r cur :=
          gnl_inside_strict r path L i cur hL (by rw [hgg]; exact hc) (by rw [hgg])
        have ih := IH j .inside es2 (by omega) h2
        obtain ⟨es', rfl, ht'⟩ := (ih.1 rfl).2 cur hc hs
        have hcls := clsNext_sin (r := r) false hs
        have := tail_cons A r j false prvj cur (path.drop (j + 1))
          [⟨j, (getIntersection A r cur prvj .inside ⟨0, 0⟩).2.2, true, .enter⟩, V j cur] es'
          (by rw [hcls]; exact ⟨hx, rfl⟩) (by rw [hcls, ← drop_cons1 hc]; exact ht')
        simpa using this
      · rw [if_neg hli, if_pos hL] at hb
        simp only at hb
        obtain ⟨es2, h2, rfl⟩ := map_append_some hb
        have hrc : Ready r L' cur := g.ready cur hc
        have ih := IH j L' es2 (by omega) h2
        have kb' := (ih.2 hli).2 cur hc hrc
        have hcls := clsNext_out_false (ready_nsi hrc hli)
        exact tail_cons A r j false prvj cur (path.drop (j + 1)) _ es2
          (by rw [hcls]; exact Or.inr ⟨L', L, hli, hrc, hx, hL, hrp, hnr, rfl⟩)
          (by rw [hcls, ← drop_cons1 hc]; exact kb')
    · have hxf : (getIntersection A r cur prvj L' ⟨0, 0⟩).1 = false := by simpa using hx
      rw [if_pos (by simp [hxf])] at hb
      simp only at hb
      obtain ⟨es2, h2, he⟩ := map_append_some hb
      have he' : es = es2 := by simpa using he
      rw [he']
      by_cases hli : L' = .inside
      · exfalso
        subst hli
        have hs : SIn r cur :=
          gnl_inside_strict r path L i cur hL (by rw [hgg]; exact hc) (by rw [hgg])
        have := getIntersection_from_inside hA ht (r := r) (cur := cur) (prv := prvj)
          ⟨hw, hh, hs.1, hs.2.1, hs.2.2.1, hs.2.2.2⟩ (ready_nsi hrp hL) ⟨0, 0⟩
        rw [hxf] at this; cases this
      · have hrc : Ready r L' cur := g.ready cur hc
        have ih := IH (j + 1) L' es2 (by omega) h2
        have kb := (ih.2 hli).1 cur (by simpa using hc) hrc
        have hcls := clsNext_out_false (ready_nsi hrc hli)
        have := tail_cons A r j false prvj cur (path.drop (j + 1)) [] es2
          (by rw [hcls]; exact Or.inl ⟨rfl, Or.inr ⟨L', hli, hrc, hxf⟩⟩)
          (by rw [hcls, ← drop_cons1 hc]; simpa using kb)
        simpa using this
  · rw [step_done_of A r path i L (by rw [hgg]; exact hj)] at hb
    rw [hgg] at hb
    simp only [vertexEmits, List.map_nil, Option.some.injEq] at hb
    subst hb
    rw [tail_short]
    simp only [List.length_drop]; omega

theorem drop_drop' (l : List Pt) (a b c : Nat) (h : a + b = c) : (l.drop a).drop b = l.drop c := by
  subst h; rw [List.drop_drop]

theorem loop_cover {A : Arith} (hA : SignExact A) (ht : IsectTotal A) {r : Rect} (hw : r.left < r.right)
    (hh : r.top < r.bottom) (path : Path) : ∀ fuel, P A r path fuel := by
  intro fuel
  induction fuel with
  | zero => intro i loc es _ h; simp [loop] at h
  | succ fuel IH =>
    intro i loc es hi h
    by_cases hin : i < path.length
    · cases hgg : getNextLocation r path loc i with
      | mk L' ja =>
      obtain ⟨j, adds⟩ := ja
      have g := gnl_spec r path loc i
      rw [hgg] at g
      have hge : i ≤ j := g.ge
      have hle : j ≤ path.length := g.le (Nat.le_of_lt hin)
      have hmid : ∀ k q, i ≤ k → k < j → path[k]? = some q → Ready r loc q := by
        intro k q h1 h2 hq
        have := skipWhile_mid (condOf r loc) path i k q h1 (by
          have e := gnl_idx r path loc i
          rw [hgg] at e; simp only at e; rw [← e]; exact h2) hq
        exact (condOf_iff r loc q).mp this
      constructor
      · intro hl
        subst hl
        have hmid' : ∀ k q, i ≤ k → k < j → path[k]? = some q → inRect r q = true := by
          intro k q h1 h2 hq
          have := hmid k q h1 h2 hq
          simp only [Ready] at this
          exact (outsideLoc_none_iff r q).mp this
        have hjidx : j = i + ((path.drop i).takeWhile (fun p => (outsideLoc r p).isNone)).length := by
          have := gnl_idx_inside r path i; rw [hgg] at this; exact this
        have hadds : adds = indexFrom i ((path.drop i).takeWhile (fun p => (outsideLoc r p).isNone)) := by
          have := gnl_adds_inside r path i; rw [hgg] at this; exact this
        constructor
        · intro prv hp hpin
          obtain ⟨e', rfl, ht'⟩ := inside_core hA ht hw hh path fuel IH i hi hin es h L' j adds hgg (by
            intro pj hpj
            by_cases hji : j = i
            · rw [hji, hp] at hpj; cases hpj; exact hpin
            · exact hmid' (j - 1) pj (by omega) (by omega) hpj)
          have hrun := tail_in_run A r (j - i) i (path.drop (i - 1)) e'
            (by
              intro t q h1 h2 hq
              rw [List.getElem?_drop] at hq
              exact hmid' (i - 1 + t) q (by omega) (by omega) hq)
            (by simp only [List.length_drop]; omega)
            (by
              rw [drop_drop' path (i - 1) (j - i) (j - 1) (by omega)]
              have e1 : i + (j - i) = j := by omega
              rw [e1]; exact ht')
          have e3 : ((path.drop (i - 1)).drop 1).take (j - i) =
              (path.drop i).takeWhile (fun p => (outsideLoc r p).isNone) := by
            rw [drop_drop' path (i - 1) 1 i (by omega)]
            have : j - i = ((path.drop i).takeWhile (fun p => (outsideLoc r p).isNone)).length := by omega
            rw [this]; exact take_length_takeWhile _ _
          rw [e3] at hrun
          rw [hadds]; exact hrun
        · intro cur hc hs
          have hcin : inRect r cur = true := by rw [inRect_iff]; unfold SIn at hs; omega
          have hji : i + 1 ≤ j :=
            g.adv cur hc (by simp only [Ready]; exact (outsideLoc_none_iff r cur).mpr hcin)
          obtain ⟨e', rfl, ht'⟩ := inside_core hA ht hw hh path fuel IH i hi hin es h L' j adds hgg (by
            intro pj hpj
            exact hmid' (j - 1) pj (by omega) (by omega) hpj)
          have hrun_eq : (path.drop i).takeWhile (fun p => (outsideLoc r p).isNone) =
              cur :: (path.drop (i + 1)).takeWhile (fun p => (outsideLoc r p).isNone) := by
            rw [drop_cons1 hc, List.takeWhile_cons_of_pos (by simp [(outsideLoc_none_iff r cur).mpr hcin])]
          have hlen' : j = i + 1 + ((path.drop (i + 1)).takeWhile (fun p => (outsideLoc r p).isNone)).length := by
            rw [hjidx, hrun_eq]; simp only [List.length_cons]; omega
          refine ⟨vertexEmits (indexFrom (i + 1)
              ((path.drop (i + 1)).takeWhile (fun p => (outsideLoc r p).isNone))) ++ e', ?_, ?_⟩
          · rw [hadds, hrun_eq]; simp [vertexEmits, indexFrom_cons, V]
          · have hrun := tail_in_run A r (j - (i + 1)) (i + 1) (path.drop i) e'
              (by
                intro t q h1 h2 hq
                rw [List.getElem?_drop] at hq
                exact hmid' (i + t) q (by omega) (by omega) hq)
              (by simp only [List.length_drop]; omega)
              (by
                rw [drop_drop' path i (j - (i + 1)) (j - 1) (by omega)]
                have e1 : i + 1 + (j - (i + 1)) = j := by omega
                rw [e1]; exact ht')
            have e3 : ((path.drop i).drop 1).take (j - (i + 1)) =
                (path.drop (i + 1)).takeWhile (fun p => (outsideLoc r p).isNone) := by
              rw [drop_drop' path i 1 (i + 1) rfl]
              have : j - (i + 1) = ((path.drop (i + 1)).takeWhile (fun p => (outsideLoc r p).isNone)).length := by
                omega
              rw [this]; exact take_length_takeWhile _ _
            rw [e3] at hrun
            exact hrun
      · intro hL
        constructor
        · intro prv hp hrp
          have hcore := outside_core hA ht hw hh path fuel IH i hi hin loc hL es h L' j adds hgg (by
            intro pj hpj
            by_cases hji : j = i
            · rw [hji, hp] at hpj; cases hpj; exact hrp
            · exact hmid (j - 1) pj (by omega) (by omega) hpj)
          exact tail_out_run A r loc hL (j - i) i (path.drop (i - 1)) es
            (by
              intro t q h1 hq
              rw [List.getElem?_drop] at hq
              by_cases ht0 : t = 0
              · subst ht0; simp only [Nat.add_zero] at hq; rw [hp] at hq; cases hq; exact hrp
              · exact hmid (i - 1 + t) q (by omega) (by omega) hq)
            (by simp only [List.length_drop]; omega)
            (by
              rw [drop_drop' path (i - 1) (j - i) (j - 1) (by omega)]
              have e1 : i + (j - i) = j := by omega
              rw [e1]; exact hcore)
        · intro cur hc hrc
          have hji : i + 1 ≤ j := g.adv cur hc hrc
          have hcore := outside_core hA ht hw hh path fuel IH i hi hin loc hL es h L' j adds hgg (by
            intro pj hpj
            exact hmid (j - 1) pj (by omega) (by omega) hpj)
          exact tail_out_run A r loc hL (j - (i + 1)) (i + 1) (path.drop i) es
            (by
              intro t q h1 hq
              rw [List.getElem?_drop] at hq
              exact hmid (i + t) q (by omega) (by omega) hq)
            (by simp only [List.length_drop]; omega)
            (by
              rw [drop_drop' path i (j - (i + 1)) (j - 1) (by omega)]
              have e1 : i + 1 + (j - (i + 1)) = j := by omega
              rw [e1]; exact hcore)
    · rw [loop_succ_ge _ _ _ _ _ _ hin] at h
      simp only [Option.some.injEq] at h
      subst h
      have hshort : (path.drop (i - 1)).length ≤ 1 := by simp only [List.length_drop]; omega
      constructor
      · intro _
        exact ⟨fun prv _ _ => (tail_short A r i true _ _ hshort).mpr rfl,
          fun cur hc _ => absurd (getElem?_lt hc) hin⟩
      · intro _
        exact ⟨fun prv _ _ => (tail_short A r i false _ _ hshort).mpr rfl,
          fun cur hc _ => absurd (getElem?_lt hc) hin⟩

end Clipper.Lemmas.RLV
