/-
Lemmas on the open-path assembly model `Model/AelOpenRings.lean` (helper lemmas for `Props/C05Rings.lean`).
-/
import ClipperVerif.Lemmas.AelRingsRuns
import ClipperVerif.Model.AelOpenRings
namespace Clipper.Model

/-! ## the bookkeeping fields of the open layer follow `Model.step` -/

theorem intersectOpen_eq_toggles (cfg : Cfg) (eo ec : Edge) :
    intersectOpen cfg eo ec = if openToggles cfg ec = true then { eo with hot := !eo.hot } else eo := by
  unfold intersectOpen openToggles
  by_cases h1 : iabs ec.wc ≠ 1
  · simp [h1]
  · by_cases h2 : openSkipCt cfg.ct ec.pt ec.hot = true
    · simp [h1, h2]
    · by_cases h3 : openSkipFr cfg.fr ec.wc = true
      · simp [h1, h2, h3]
      · simp [h1, h2, h3]

theorem ipair_open_left (cfg : Cfg) (a b : Edge) (ha : a.isOpen = true) (hb : b.isOpen = false) :
    intersectPair cfg a b = (intersectOpen cfg a b, b) := by
  simp [intersectPair, ha, hb]

theorem ipair_open_right (cfg : Cfg) (a b : Edge) (ha : a.isOpen = false) (hb : b.isOpen = true) :
    intersectPair cfg a b = (a, intersectOpen cfg b a) := by
  simp [intersectPair, ha, hb]

theorem erase_append (l1 l2 : List SEdge) : erase (l1 ++ l2) = erase l1 ++ erase l2 := by simp [erase]
theorem erase_cons (y : SEdge) (l : List SEdge) : erase (y :: l) = y.e :: erase l := by simp [erase]
theorem erase_take (l : List SEdge) (n : Nat) : erase (l.take n) = (erase l).take n := by simp [erase, List.map_take]
theorem erase_drop (l : List SEdge) (n : Nat) : erase (l.drop n) = (erase l).drop n := by simp [erase, List.map_drop]

theorem relabelFn_e (B : Nat) (f : Bool) (A : Nat) (y : SEdge) : (relabelFn B f A y).e = y.e := by
  unfold relabelFn
  split
  · split <;> rfl
  · rfl

theorem erase_map_relabel (B : Nat) (f : Bool) (A : Nat) (l : List SEdge) : erase (l.map (relabelFn B f A)) = erase l := by
  simp [erase, List.map_map, Function.comp_def, relabelFn_e]

/-- the event of `Model.Op` behind an event of the open layer (`none`: `join`, `split`, `update`) -/
def OOp.base : OOp → Option Op
  | .ev (.base b _) => some b
  | .locMinX i _ _ => some (.intersect i)
  | _ => none

theorem oIntersect_erase (cfg : Cfg) (i : Nat) (pt : Pt) (lm : Option (Option Nat)) (x x' : OX) (h : oIntersect cfg i pt lm x = some x') :
    intersect cfg i (erase x.ol) = some (erase x'.ol) := by
  unfold oIntersect at h
  split at h
  · next a b rest hd =>
    have hd' : (erase x.ol).drop i = a.e :: b.e :: erase rest := by rw [← erase_drop, hd]; rfl
    simp only [intersect, hd']
    simp only at h
    split at h
    · cases h; simp [erase_append, erase_cons, erase_take]
    · split at h
      · split at h
        · cases h; simp [erase_append, erase_cons, erase_take]
        · cases h
      · split at h
        · cases h; simp [erase_append, erase_cons, erase_take]
        · cases h
  · cases h

theorem openStep_erase (cfg : Cfg) (x x' : OX) (op : OOp) (h : openStep cfg x op = some x') :
    match op.base with
    | some b => step cfg (erase x.ol) b = some (erase x'.ol)
    | none => erase x'.ol = erase x.ol := by
  cases op with
  | locMinX i p e3 => exact oIntersect_erase cfg i p _ x x' h
  | ev o =>
    cases o with
    | join i p => simp only [openStep] at h; cases h; rfl
    | split i p => simp only [openStep] at h; cases h; rfl
    | update i p =>
      simp only [openStep, oUpdate] at h
      simp only [OOp.base]
      split at h
      · split at h
        · split at h <;> cases h <;> rfl
        · cases h; rfl
      · cases h
    | base b p =>
      cases b with
      | intersect i => exact oIntersect_erase cfg i p _ x x' h
      | insertPair pos t isOpen dx =>
        simp only [openStep, oInsertPair] at h
        simp only [OOp.base, step, insertPair, erase_length]
        split at h
        · next hc =>
          simp only [hc, and_self, if_true]
          split at h <;> cases h <;> simp [erase_append, erase_cons, erase_take, erase_drop]
        · cases h
      | insertOne pos t dx =>
        simp only [openStep, oInsertOne] at h
        simp only [OOp.base, step, insertOne, erase_length]
        split at h
        · next hc =>
          simp only [hc, and_self, if_true]
          split at h <;> cases h <;> simp [erase_append, erase_cons, erase_take, erase_drop]
        · cases h
      | removePair i =>
        simp only [openStep, oRemovePair] at h
        simp only [OOp.base, step, removePair]
        split at h
        · next a b rest hd =>
          have hd' : (erase x.ol).drop i = a.e :: b.e :: erase rest := by rw [← erase_drop, hd]; rfl
          simp only [hd']
          split at h
          · next hc =>
            simp only [hc, and_self, if_true]
            split at h
            · split at h
              · cases h; simp [erase_append, erase_take]
              · split at h
                · cases h; simp [erase_append, erase_take]
                · split at h
                  · cases h
                  · cases h; simp [erase_append, erase_take, erase_map_relabel]
              · cases h; simp [erase_append, erase_take]
            · cases h; simp [erase_append, erase_take]
          · cases h
        · cases h
      | removeOne i =>
        simp only [openStep, oRemoveOne] at h
        simp only [OOp.base, step, removeOne]
        split at h
        · next a rest hd =>
          have hd' : (erase x.ol).drop i = a.e :: erase rest := by rw [← erase_drop, hd]; rfl
          simp only [hd']
          split at h
          · next hc =>
            simp only [hc, if_true]
            split at h <;> cases h <;> simp [erase_append, erase_take]
          · cases h
        · cases h


/-! ## the effect of an event on the open records is a composition of primitives -/

/-- a property of the open records that every primitive the open layer uses preserves (for the point `pt` of the event); unlike `PrimPres` there is no
`finish` (an open record is never closed into a ring) and the only segment kind logged is `meet` -/
structure OPrim (pt : Pt) (P : Out → Prop) : Prop where
  newRec : ∀ o, P o → P (newRec pt o)
  addOutPt : ∀ id f o, P o → P (addOutPt id f pt o)
  handOver : ∀ id f o, P o → P (handOver id f o)
  joinPaths : ∀ A B f o, P o → P (joinPaths A B f o)
  logMeet : ∀ i1 f1 i2 f2 o, P o → P (logSeg .meet i1 f1 i2 f2 o)

theorem OPrim.of {pt : Pt} {P : Out → Prop} (h : PrimPres pt P) : OPrim pt P :=
  ⟨h.newRec, h.addOutPt, h.handOver, h.joinPaths, h.logSeg .meet⟩

/-- the point an event carries -/
def OOp.pt : OOp → Pt
  | .ev op => op.pt
  | .locMinX _ p _ => p

theorem pres_openBranch {pt : Pt} {P : Out → Prop} (hp : OPrim pt P) (cfg : Cfg) (l : List SEdge) (io : Nat) (eo ec : SEdge) (lm : Option (Option Nat))
    (oo : Out) (om : List EndMarks) (r : Option Rec × Out × List EndMarks) (h : P oo) (hs : openBranch cfg l io eo ec pt lm oo om = some r) : P r.2.1 := by
  unfold openBranch at hs
  split at hs
  · split at hs
    · cases hs; exact hp.addOutPt _ _ _ h
    · split at hs
      · split at hs
        · split at hs
          · split at hs
            · split at hs
              · cases hs; exact hp.handOver _ _ _ h
              · cases hs
            · cases hs; exact hp.newRec _ h
          · cases hs
        · cases hs
      · cases hs; exact hp.newRec _ h
  · cases hs; exact h

theorem pres_oIntersect {pt : Pt} {P : Out → Prop} (hp : OPrim pt P) (cfg : Cfg) (i : Nat) (lm : Option (Option Nat)) (x x' : OX)
    (h : P x.oo) (hs : oIntersect cfg i pt lm x = some x') : P x'.oo := by
  unfold oIntersect at hs
  split at hs
  · simp only at hs
    split at hs
    · cases hs; exact h
    · split at hs
      · split at hs
        · next r hr => cases hs; exact pres_openBranch hp _ _ _ _ _ _ _ _ r h hr
        · cases hs
      · split at hs
        · next r hr => cases hs; exact pres_openBranch hp _ _ _ _ _ _ _ _ r h hr
        · cases hs
  · cases hs

theorem pres_openStep (cfg : Cfg) (x x' : OX) (op : OOp) (P : Out → Prop) (hp : OPrim op.pt P) (h : P x.oo) (hs : openStep cfg x op = some x') : P x'.oo := by
  cases op with
  | locMinX i p e3 => exact pres_oIntersect hp cfg i _ x x' h hs
  | ev o =>
    cases o with
    | join i p => simp only [openStep] at hs; cases hs; exact h
    | split i p => simp only [openStep] at hs; cases hs; exact h
    | update i p =>
      simp only [openStep, oUpdate] at hs
      split at hs
      · split at hs
        · split at hs
          · cases hs; exact hp.addOutPt _ _ _ h
          · cases hs; exact h
        · cases hs; exact h
      · cases hs
    | base b p =>
      cases b with
      | intersect i => exact pres_oIntersect hp cfg i _ x x' h hs
      | insertPair pos t isOpen dx =>
        simp only [openStep, oInsertPair] at hs
        split at hs
        · split at hs
          · cases hs; exact hp.newRec _ h
          · cases hs; exact h
        · cases hs
      | insertOne pos t dx =>
        simp only [openStep, oInsertOne] at hs
        split at hs
        · split at hs
          · cases hs; exact hp.newRec _ h
          · cases hs; exact h
        · cases hs
      | removePair i =>
        simp only [openStep, oRemovePair] at hs
        split at hs
        · split at hs
          · split at hs
            · split at hs
              · cases hs; exact h
              · split at hs
                · cases hs; exact h
                · split at hs
                  · cases hs
                  · cases hs; exact hp.joinPaths _ _ _ _ (hp.logMeet _ _ _ _ _ (hp.addOutPt _ _ _ h))
              · cases hs; exact h
            · cases hs; exact h
          · cases hs
        · cases hs
      | removeOne i =>
        simp only [openStep, oRemoveOne] at hs
        split at hs
        · split at hs
          · split at hs
            · cases hs; exact hp.addOutPt _ _ _ h
            · cases hs; exact h
          · cases hs
        · cases hs

/-- only `extend` and `meet` segments are ever logged for open records -/
def SegKindsOK (o : Out) : Prop := ∀ sg ∈ o.segs, sg.kind = .extend ∨ sg.kind = .meet

theorem segKinds_prim (pt : Pt) : OPrim pt SegKindsOK := by
  refine ⟨?_, ?_, ?_, ?_, ?_⟩
  · intro o h; exact h
  · intro id f o h sg hsg
    unfold addOutPt at hsg
    split at hsg
    · next r hr =>
      split at hsg
      · simp only [List.mem_append] at hsg
        rcases hsg with hsg | hsg
        · unfold addPt at hsg
          split at hsg
          · split at hsg
            · simp at hsg
            · simp only [List.mem_singleton] at hsg; subst hsg; left; rfl
          · simp at hsg
        · exact h sg hsg
      · exact h sg hsg
    · exact h sg hsg
  · intro id f o h sg hsg; rw [segs_handOver] at hsg; exact h sg hsg
  · intro A B f o h sg hsg; rw [segs_joinPaths] at hsg; exact h sg hsg
  · intro i1 f1 i2 f2 o h sg hsg
    unfold logSeg at hsg
    split at hsg
    · split at hsg
      · simp only [List.mem_cons] at hsg
        rcases hsg with rfl | hsg
        · right; rfl
        · exact h sg hsg
      · exact h sg hsg
    · exact h sg hsg

/-- no open record is ever closed into a ring -/
def NoDone (o : Out) : Prop := ∀ g ∈ o.rings, g.stat ≠ .done

theorem noDone_prim (pt : Pt) : OPrim pt NoDone := by
  refine ⟨?_, ?_, ?_, ?_, ?_⟩
  · intro o h g hg
    simp only [newRec, List.mem_append, List.mem_singleton] at hg
    rcases hg with hg | rfl
    · exact h g hg
    · simp
  · intro id f o h g hg
    rw [addOutPt_rings] at hg
    split at hg
    · next r hr =>
      split at hg
      · rcases List.mem_or_eq_of_mem_set hg with hg | rfl
        · exact h g hg
        · rw [addPt_stat]; exact h r (mem_of_get _ _ _ hr)
      · exact h g hg
    · exact h g hg
  · intro id f o h g hg
    unfold handOver at hg
    split at hg
    · next r hr =>
      rcases List.mem_or_eq_of_mem_set hg with hg | rfl
      · exact h g hg
      · have := h r (mem_of_get _ _ _ hr); split <;> exact this
    · exact h g hg
  · intro A B f o h g hg
    unfold joinPaths at hg
    split at hg
    · next ra rb hA hB =>
      split at hg
      · rcases List.mem_or_eq_of_mem_set hg with hg | rfl
        · rcases List.mem_or_eq_of_mem_set hg with hg | rfl
          · exact h g hg
          · have := h ra (mem_of_get _ _ _ hA); split <;> exact this
        · simp
      · exact h g hg
    · exact h g hg
  · intro i1 f1 i2 f2 o h g hg; rw [logSeg_rings] at hg; exact h g hg


/-! ## marks -/

theorem length_setMark (id : Nat) (f : Bool) (v : Option Mark) (om : List EndMarks) : (setMark id f v om).length = om.length := by
  unfold setMark; split <;> simp

theorem side_put_self (m : EndMarks) (f : Bool) (v : Option Mark) : (m.put f v).side f = v := by
  cases f <;> simp [EndMarks.put, EndMarks.side]

theorem side_put_other (m : EndMarks) (f : Bool) (v : Option Mark) : (m.put f v).side (!f) = m.side (!f) := by
  cases f <;> simp [EndMarks.put, EndMarks.side]

theorem markAt_setMark_self (id : Nat) (f : Bool) (v : Option Mark) (om : List EndMarks) (h : id < om.length) : markAt (setMark id f v om) id f = v := by
  unfold setMark markAt
  rw [List.getElem?_eq_getElem h]
  simp only
  rw [List.getElem?_set_self h]
  simp [side_put_self]

theorem markAt_setMark_other (id : Nat) (f : Bool) (v : Option Mark) (om : List EndMarks) : markAt (setMark id f v om) id (!f) = markAt om id (!f) := by
  unfold setMark markAt
  cases h : om[id]? with
  | none => simp [h]
  | some m =>
    have hlt : id < om.length := by
      rcases Nat.lt_or_ge id om.length with h' | h'
      · exact h'
      · rw [List.getElem?_eq_none h'] at h; cases h
    simp only
    rw [List.getElem?_set_self hlt]
    simp [side_put_other]

theorem markAt_setMark_ne (id : Nat) (f : Bool) (v : Option Mark) (om : List EndMarks) (k : Nat) (f' : Bool) (hne : k ≠ id) :
    markAt (setMark id f v om) k f' = markAt om k f' := by
  unfold setMark markAt
  split
  · rw [List.getElem?_set_ne (fun h => hne h.symm)]
  · rfl

theorem markAt_append_left (om : List EndMarks) (m : EndMarks) (k : Nat) (f : Bool) (h : k < om.length) : markAt (om ++ [m]) k f = markAt om k f := by
  unfold markAt; rw [List.getElem?_append_left h]

theorem markAt_append_new (om : List EndMarks) (m : EndMarks) (f : Bool) : markAt (om ++ [m]) om.length f = m.side f := by
  unfold markAt; simp

/-! ## what the primitives do to one record -/

theorem get_lt {α} (l : List α) (k : Nat) (x : α) (h : l[k]? = some x) : k < l.length := by
  rcases Nat.lt_or_ge k l.length with h' | h'
  · exact h'
  · rw [List.getElem?_eq_none h'] at h; cases h

theorem addOutPt_get_ne (id : Nat) (f : Bool) (pt : Pt) (o : Out) (k : Nat) (hne : k ≠ id) : (addOutPt id f pt o).rings[k]? = o.rings[k]? := by
  rw [addOutPt_rings]
  split
  · split
    · rw [List.getElem?_set_ne (fun h => hne h.symm)]
    · rfl
  · rfl

theorem addOutPt_get_self (id : Nat) (f : Bool) (pt : Pt) (o : Out) (g : Ring) (hg : o.rings[id]? = some g) (hl : g.stat = .live) :
    (addOutPt id f pt o).rings[id]? = some (addPt f pt g).1 := by
  rw [addOutPt_rings]
  simp only [hg, hl, if_true]
  rw [List.getElem?_set_self (get_lt _ _ _ hg)]

theorem addPt_end_self (f : Bool) (pt : Pt) (g : Ring) : endPt f (addPt f pt g).1.pts = some pt := by
  rcases addPt_spec f pt g with ⟨_, h2, h3⟩ | ⟨_, h2, _⟩
  · rw [h2]; exact h3
  · rw [h2]; cases f <;> simp [endPt]

theorem addPt_end_other (f : Bool) (pt : Pt) (g : Ring) (hne : g.pts ≠ []) : endPt (!f) (addPt f pt g).1.pts = endPt (!f) g.pts := by
  rcases addPt_spec f pt g with ⟨_, h2, _⟩ | ⟨_, h2, _⟩
  · rw [h2]
  · rw [h2]
    cases f
    · simp only [Bool.false_eq_true, if_false, Bool.not_false, endPt, if_true]
      exact head?_append_ne _ _ hne
    · simp only [if_true, Bool.not_true, endPt, Bool.false_eq_true, if_false]
      exact getLast?_cons_ne _ _ hne

theorem handOver_get (id : Nat) (f : Bool) (o : Out) (k : Nat) (g' : Ring) (h : (handOver id f o).rings[k]? = some g') :
    ∃ g, o.rings[k]? = some g ∧ g'.pts = g.pts ∧ g'.stat = g.stat := by
  unfold handOver at h
  split at h
  · next r hr =>
    by_cases e : k = id
    · subst e
      rw [List.getElem?_set_self (get_lt _ _ _ hr)] at h
      cases h
      exact ⟨r, hr, by split <;> rfl, by split <;> rfl⟩
    · rw [List.getElem?_set_ne (fun h => e h.symm)] at h
      exact ⟨g', h, rfl, rfl⟩
  · exact ⟨g', h, rfl, rfl⟩

theorem joinPaths_get_ne (A B : Nat) (f : Bool) (o : Out) (k : Nat) (hA : k ≠ A) (hB : k ≠ B) : (joinPaths A B f o).rings[k]? = o.rings[k]? := by
  unfold joinPaths
  split
  · split
    · rw [List.getElem?_set_ne (fun h => hB h.symm), List.getElem?_set_ne (fun h => hA h.symm)]
    · rfl
  · rfl

theorem joinPaths_get_A (A B : Nat) (f : Bool) (o : Out) (ra rb : Ring) (hA : o.rings[A]? = some ra) (hB : o.rings[B]? = some rb) (hne : A ≠ B)
    (hla : ra.stat = .live) (hlb : rb.stat = .live) :
    ∃ g', (joinPaths A B f o).rings[A]? = some g' ∧ g'.stat = .live ∧ g'.pts = (if f then rb.pts ++ ra.pts else ra.pts ++ rb.pts) := by
  unfold joinPaths
  simp only [hA, hB]
  simp only [hne, hla, hlb, ne_eq, not_false_eq_true, and_self, if_true]
  rw [List.getElem?_set_ne (fun h => hne h.symm), List.getElem?_set_self (get_lt _ _ _ hA)]
  cases f
  · exact ⟨_, rfl, by simpa using hla, by simp⟩
  · exact ⟨_, rfl, by simpa using hla, by simp⟩

theorem joinPaths_get_B (A B : Nat) (f : Bool) (o : Out) (ra rb : Ring) (hA : o.rings[A]? = some ra) (hB : o.rings[B]? = some rb) (hne : A ≠ B)
    (hla : ra.stat = .live) (hlb : rb.stat = .live) (g' : Ring) (h : (joinPaths A B f o).rings[B]? = some g') : g'.stat = .gone := by
  unfold joinPaths at h
  simp only [hA, hB] at h
  simp only [hne, hla, hlb, ne_eq, not_false_eq_true, and_self, if_true] at h
  rw [List.getElem?_set_self (by rw [List.length_set]; exact get_lt _ _ _ hB)] at h
  cases h; rfl


/-! ## the record-level invariant, in terms of how many edges hold each end -/

/-- `c (id, side)` = number of edges of the AEL that hold that end of that open record -/
structure RecInv (c : Nat × Bool → Nat) (o : Out) (om : List EndMarks) : Prop where
  uniq : ∀ key, c key ≤ 1 ∧ (o.rings.length ≤ key.1 → c key = 0)
  live : ∀ key, 1 ≤ c key → LiveAt o.rings key.1
  nolost : NoLost o
  segs : SegsOK o
  mlen : om.length = o.rings.length
  marks : ∀ k g, o.rings[k]? = some g → g.stat = .live → ∀ f,
    (markAt om k f = none ↔ 1 ≤ c (k, f)) ∧ (∀ m, markAt om k f = some m → endPt f g.pts = some m.pt)

theorem newRec_get (pt : Pt) (o : Out) (k : Nat) (g : Ring) (h : (newRec pt o).rings[k]? = some g) :
    (k < o.rings.length ∧ o.rings[k]? = some g) ∨ (k = o.rings.length ∧ g.pts = [pt] ∧ g.stat = .live) := by
  simp only [newRec] at h
  rcases Nat.lt_or_ge k o.rings.length with hlt | hge
  · rw [List.getElem?_append_left hlt] at h; exact Or.inl ⟨hlt, h⟩
  · rw [List.getElem?_append_right hge] at h
    have : k - o.rings.length = 0 := by
      rcases Nat.eq_zero_or_pos (k - o.rings.length) with e | e
      · exact e
      · rw [List.getElem?_eq_none (by simp; omega)] at h; cases h
    rw [this] at h
    simp at h
    right; exact ⟨by omega, by rw [← h], by rw [← h]⟩

theorem recInv_pair (c c' : Nat × Bool → Nat) (o : Out) (om : List EndMarks) (pt : Pt) (f : Bool) (h : RecInv c o om)
    (hc : ∀ key, c' key = c key + (if key = (o.rings.length, f) then 1 else 0) + (if key = (o.rings.length, !f) then 1 else 0)) :
    RecInv c' (newRec pt o) (om ++ [⟨none, none⟩]) := by
  have hne : (o.rings.length, f) ≠ (o.rings.length, !f) := by intro e; simp at e
  refine ⟨?_, ?_, noLost_newRec pt o h.nolost, segsOK_newRec pt o h.segs, by rw [length_newRec, List.length_append, h.mlen]; rfl, ?_⟩
  · intro key
    rw [hc, length_newRec]
    have := h.uniq key
    by_cases e1 : key = (o.rings.length, f)
    · subst e1
      have h0 := this.2 (Nat.le_refl _)
      simp [h0]
    · by_cases e2 : key = (o.rings.length, !f)
      · subst e2
        have h0 := this.2 (Nat.le_refl _)
        simp [h0]
      · simp only [e1, e2, if_false]
        exact ⟨by omega, fun hh => by have := this.2 (by omega); omega⟩
  · intro key hk
    rw [hc] at hk
    by_cases e : key.1 = o.rings.length
    · rw [e]; exact liveAt_newRec_new pt o
    · have e1 : key ≠ (o.rings.length, f) := fun h' => e (by rw [h'])
      have e2 : key ≠ (o.rings.length, !f) := fun h' => e (by rw [h'])
      simp only [e1, e2, if_false] at hk
      exact liveAt_newRec_old pt o _ (h.live key (by omega))
  · intro k g hg hl f'
    rcases newRec_get pt o k g hg with ⟨hlt, hg0⟩ | ⟨hk, hp, _⟩
    · rw [markAt_append_left _ _ _ _ (by rw [h.mlen]; exact hlt), hc]
      have e1 : (k, f') ≠ (o.rings.length, f) := by intro e; simp at e; omega
      have e2 : (k, f') ≠ (o.rings.length, !f) := by intro e; simp at e; omega
      simp only [e1, e2, if_false, Nat.add_zero]
      exact h.marks k g hg0 hl f'
    · subst hk
      rw [← h.mlen, markAt_append_new]
      refine ⟨?_, ?_⟩
      · constructor
        · intro _
          rw [hc, h.mlen]
          cases f <;> cases f' <;> simp
        · intro _; cases f' <;> rfl
      · intro m hm; cases f' <;> simp [EndMarks.side] at hm

theorem recInv_start (c c' : Nat × Bool → Nat) (o : Out) (om : List EndMarks) (pt : Pt) (f : Bool) (m : Mark) (hm : m.pt = pt) (h : RecInv c o om)
    (hc : ∀ key, c' key = c key + (if key = (o.rings.length, f) then 1 else 0)) :
    RecInv c' (newRec pt o) (om ++ [EndMarks.put ⟨none, none⟩ (!f) (some m)]) := by
  refine ⟨?_, ?_, noLost_newRec pt o h.nolost, segsOK_newRec pt o h.segs, by rw [length_newRec, List.length_append, h.mlen]; rfl, ?_⟩
  · intro key
    rw [hc, length_newRec]
    have := h.uniq key
    by_cases e1 : key = (o.rings.length, f)
    · subst e1
      have h0 := this.2 (Nat.le_refl _)
      simp [h0]
    · simp only [e1, if_false]
      exact ⟨by omega, fun hh => by have := this.2 (by omega); omega⟩
  · intro key hk
    rw [hc] at hk
    by_cases e : key.1 = o.rings.length
    · rw [e]; exact liveAt_newRec_new pt o
    · have e1 : key ≠ (o.rings.length, f) := fun h' => e (by rw [h'])
      simp only [e1, if_false] at hk
      exact liveAt_newRec_old pt o _ (h.live key (by omega))
  · intro k g hg hl f'
    rcases newRec_get pt o k g hg with ⟨hlt, hg0⟩ | ⟨hk, hp, _⟩
    · rw [markAt_append_left _ _ _ _ (by rw [h.mlen]; exact hlt), hc]
      have e1 : (k, f') ≠ (o.rings.length, f) := by intro e; simp at e; omega
      simp only [e1, if_false, Nat.add_zero]
      exact h.marks k g hg0 hl f'
    · subst hk
      rw [← h.mlen, markAt_append_new, hc, h.mlen]
      have h0 : ∀ f'', c (o.rings.length, f'') = 0 := fun f'' => (h.uniq (o.rings.length, f'')).2 (Nat.le_refl _)
      by_cases ef : f' = f
      · subst ef
        have : (EndMarks.put ⟨none, none⟩ (!f') (some m)).side f' = none := by cases f' <;> rfl
        rw [this]
        exact ⟨⟨fun _ => by simp, fun _ => rfl⟩, fun m' hm' => by cases hm'⟩
      · have ef' : f' = !f := by cases f <;> cases f' <;> simp at ef ⊢
        subst ef'
        rw [side_put_self]
        have e1 : ((o.rings.length, !f) : Nat × Bool) ≠ (o.rings.length, f) := by intro e; simp at e
        simp only [e1, if_false, h0, Nat.add_zero]
        refine ⟨⟨fun hh => (by cases hh), fun hh => (by omega)⟩, ?_⟩
        intro m' hm'
        cases hm'
        rw [hp, hm]
        cases f <;> simp [endPt]

/-- `AddOutPt` on a held end, marks untouched -/
theorem recInv_update (c : Nat × Bool → Nat) (o : Out) (om : List EndMarks) (k : Rec) (pt : Pt) (h : RecInv c o om) (hheld : 1 ≤ c (k.id, k.front)) :
    RecInv c (addOutPt k.id k.front pt o) om := by
  have hlive := h.live _ hheld
  refine ⟨?_, ?_, noLost_addOutPt _ _ _ _ h.nolost hlive, segsOK_addOutPt _ _ _ _ h.segs, by rw [length_addOutPt]; exact h.mlen, ?_⟩
  · intro key; rw [length_addOutPt]; exact h.uniq key
  · intro key hk; exact liveAt_addOutPt _ _ _ _ _ (h.live key hk)
  · intro k' g' hg' hl' f'
    by_cases e : k' = k.id
    · subst e
      obtain ⟨g, hg, hgl, hgne⟩ := hlive
      rw [addOutPt_get_self _ _ _ _ g hg hgl] at hg'
      cases hg'
      have old := h.marks k.id g hg hgl f'
      refine ⟨old.1, ?_⟩
      intro m hm
      by_cases ef : f' = k.front
      · subst ef
        have := old.1.mpr hheld
        rw [this] at hm; cases hm
      · have ef' : f' = !k.front := by cases hf : k.front <;> cases f' <;> simp [hf] at ef ⊢
        rw [ef', addPt_end_other _ _ _ hgne, ← ef']
        exact old.2 m hm
    · rw [addOutPt_get_ne _ _ _ _ _ e] at hg'
      exact h.marks k' g' hg' hl' f'

/-- `AddOutPt(e, pt)`; the end is released and marked with `pt` -/
theorem recInv_stop (c c' : Nat × Bool → Nat) (o : Out) (om : List EndMarks) (k : Rec) (pt : Pt) (m : Mark) (hm : m.pt = pt) (h : RecInv c o om)
    (hheld : 1 ≤ c (k.id, k.front)) (hc : ∀ key, c key = c' key + (if key = (k.id, k.front) then 1 else 0)) :
    RecInv c' (addOutPt k.id k.front pt o) (setMark k.id k.front (some m) om) := by
  have h1 := recInv_update c o om k pt h hheld
  have hlive := h.live _ hheld
  have hlt : k.id < om.length := by rw [h.mlen]; exact liveAt_lt _ _ hlive
  have hc0 : c' (k.id, k.front) = 0 := by
    have := hc (k.id, k.front); have := (h.uniq (k.id, k.front)).1; simp at *; omega
  refine ⟨?_, ?_, h1.nolost, h1.segs, by rw [length_setMark]; exact h1.mlen, ?_⟩
  · intro key
    have := h1.uniq key; have := hc key
    exact ⟨by omega, fun hh => by have := (h1.uniq key).2 hh; omega⟩
  · intro key hk; exact h1.live key (by have := hc key; omega)
  · intro k' g' hg' hl' f'
    have old := h1.marks k' g' hg' hl' f'
    by_cases e : k' = k.id
    · subst e
      by_cases ef : f' = k.front
      · subst ef
        rw [markAt_setMark_self _ _ _ _ hlt, hc0]
        refine ⟨⟨fun hh => (by cases hh), fun hh => (by omega)⟩, ?_⟩
        intro m' hm'
        cases hm'
        obtain ⟨g, hg, hgl, _⟩ := hlive
        rw [addOutPt_get_self _ _ _ _ g hg hgl] at hg'
        cases hg'
        rw [addPt_end_self, hm]
      · have ef' : f' = !k.front := by cases hf : k.front <;> cases f' <;> simp [hf] at ef ⊢
        rw [ef', markAt_setMark_other, ← ef']
        have e1 : ((k.id, f') : Nat × Bool) ≠ (k.id, k.front) := by intro e; simp at e; exact ef e
        have := hc (k.id, f')
        simp only [e1, if_false, Nat.add_zero] at this
        rw [← this]; exact old
    · rw [markAt_setMark_ne _ _ _ _ _ _ e]
      have e1 : ((k', f') : Nat × Bool) ≠ (k.id, k.front) := by intro e'; simp at e'; exact e e'.1
      have := hc (k', f')
      simp only [e1, if_false, Nat.add_zero] at this
      rw [← this]; exact old

/-- the `SetSides` branch of `IntersectEdges`: a free end of a held record is taken by another edge -/
theorem recInv_rejoin (c c' : Nat × Bool → Nat) (o : Out) (om : List EndMarks) (rid : Nat) (f : Bool) (h : RecInv c o om)
    (hother : 1 ≤ c (rid, !f)) (hfree : (markAt om rid f).isSome = true) (hc : ∀ key, c' key = c key + (if key = (rid, f) then 1 else 0)) :
    RecInv c' (handOver rid f o) (setMark rid f none om) := by
  have hlive := h.live _ hother
  have hlt : rid < om.length := by rw [h.mlen]; exact liveAt_lt _ _ hlive
  have hc0 : c (rid, f) = 0 := by
    obtain ⟨g, hg, hgl, _⟩ := hlive
    have := (h.marks rid g hg hgl f).1
    cases hm : markAt om rid f with
    | none => rw [hm] at hfree; cases hfree
    | some m =>
      rw [hm] at this
      rcases Nat.eq_zero_or_pos (c (rid, f)) with e | e
      · exact e
      · have := this.mpr e; cases this
  refine ⟨?_, ?_, by intro e he; rw [log_handOver] at he; exact h.nolost e he, segsOK_handOver _ _ _ h.segs, by rw [length_setMark, length_handOver]; exact h.mlen, ?_⟩
  · intro key
    rw [hc, length_handOver]
    have := h.uniq key
    by_cases e1 : key = (rid, f)
    · subst e1
      simp only [if_true, hc0]
      exact ⟨by omega, fun hh => by have := liveAt_lt _ _ hlive; have hh' : o.rings.length ≤ rid := hh; omega⟩
    · simp only [e1, if_false]
      exact ⟨by omega, fun hh => by have := this.2 hh; omega⟩
  · intro key hk
    rw [hc] at hk
    by_cases e1 : key = (rid, f)
    · rw [e1]; exact liveAt_handOver _ _ _ _ hlive
    · simp only [e1, if_false] at hk
      exact liveAt_handOver _ _ _ _ (h.live key (by omega))
  · intro k' g' hg' hl' f'
    obtain ⟨g, hg, hp, hst⟩ := handOver_get _ _ _ _ _ hg'
    have old := h.marks k' g hg (by rw [← hst]; exact hl') f'
    rw [hp]
    by_cases e : k' = rid
    · subst e
      by_cases ef : f' = f
      · subst ef
        rw [markAt_setMark_self _ _ _ _ hlt, hc]
        simp only [if_true]
        exact ⟨by constructor <;> intro _ <;> first | omega | trivial | rfl, fun m hm => by cases hm⟩
      · have ef' : f' = !f := by cases f <;> cases f' <;> simp at ef ⊢
        rw [ef', markAt_setMark_other, ← ef', hc]
        have e1 : ((k', f') : Nat × Bool) ≠ (k', f) := by intro e; simp at e; exact ef e
        simp only [e1, if_false, Nat.add_zero]
        exact old
    · rw [markAt_setMark_ne _ _ _ _ _ _ e, hc]
      have e1 : ((k', f') : Nat × Bool) ≠ (rid, f) := by intro e'; simp at e'; exact e e'.1
      simp only [e1, if_false, Nat.add_zero]
      exact old


/-- `JoinOutrecPaths(X-edge, Y-edge)` for open records: record `X` survives and inherits the far end of `Y` (held or free); both edges let go -/
theorem recInv_joinCore (c c' : Nat × Bool → Nat) (o1 : Out) (om : List EndMarks) (X Y : Rec) (h1 : RecInv c o1 om)
    (hid : X.id ≠ Y.id) (hfy : Y.front = !X.front) (hA : 1 ≤ c (X.id, X.front)) (hB : 1 ≤ c (Y.id, Y.front))
    (hseam : ∀ ga gb, o1.rings[X.id]? = some ga → o1.rings[Y.id]? = some gb → ∀ a b, endPt X.front ga.pts = some a → endPt (!X.front) gb.pts = some b →
      Covered o1.segs (a, b) ∧ Covered o1.segs (b, a))
    (hc : ∀ key, c' key = if key = (X.id, X.front) then c (Y.id, X.front) else if key.1 = Y.id then 0 else c key) :
    RecInv c' (joinPaths X.id Y.id X.front o1) (setMark X.id X.front (markAt om Y.id X.front) om) := by
  have hXl := h1.live _ hA
  have hYl := h1.live _ hB
  obtain ⟨gx, hgx, hxl, hxne⟩ := hXl
  obtain ⟨gy, hgy, hyl, hyne⟩ := hYl
  have hXlt : X.id < om.length := by rw [h1.mlen]; exact get_lt _ _ _ hgx
  refine ⟨?_, ?_, by intro e he; rw [log_joinPaths] at he; exact h1.nolost e he, segsOK_joinPaths _ _ _ _ h1.segs hseam,
    by rw [length_setMark, length_joinPaths]; exact h1.mlen, ?_⟩
  · intro key
    rw [hc, length_joinPaths]
    by_cases e1 : key = (X.id, X.front)
    · subst e1
      simp only [if_true]
      exact ⟨(h1.uniq _).1, fun hh => by have := get_lt _ _ _ hgx; have hh' : o1.rings.length ≤ X.id := hh; omega⟩
    · simp only [e1, if_false]
      by_cases e2 : key.1 = Y.id
      · simp [e2]
      · simp only [e2, if_false]; exact h1.uniq key
  · intro key hk
    rw [hc] at hk
    by_cases e1 : key = (X.id, X.front)
    · subst e1
      exact liveAt_joinPaths _ _ _ _ _ ⟨gx, hgx, hxl, hxne⟩ hid
    · simp only [e1, if_false] at hk
      by_cases e2 : key.1 = Y.id
      · simp [e2] at hk
      · simp only [e2, if_false] at hk
        exact liveAt_joinPaths _ _ _ _ _ (h1.live key hk) e2
  · intro k g' hg' hl' f'
    by_cases eX : k = X.id
    · subst eX
      obtain ⟨gj, hgj, _, hpj⟩ := joinPaths_get_A X.id Y.id X.front o1 gx gy hgx hgy hid hxl hyl
      rw [hgj] at hg'; cases hg'
      by_cases ef : f' = X.front
      · rw [ef, markAt_setMark_self _ _ _ _ hXlt, hc]
        simp only [if_true]
        have old := h1.marks Y.id gy hgy hyl X.front
        refine ⟨old.1, ?_⟩
        intro m hm
        rw [hpj, ← old.2 m hm]
        cases X.front
        · simp only [Bool.false_eq_true, if_false, endPt]; exact getLast?_append_ne _ _ hyne
        · simp only [if_true, endPt]; exact head?_append_ne _ _ hyne
      · have ef' : f' = !X.front := by cases hf : X.front <;> cases f' <;> simp [hf] at ef ⊢
        rw [ef', markAt_setMark_other, ← ef', hc]
        have e1 : ((X.id, f') : Nat × Bool) ≠ (X.id, X.front) := by intro e; simp at e; exact ef e
        simp only [e1, if_false, hid]
        have old := h1.marks X.id gx hgx hxl f'
        refine ⟨old.1, ?_⟩
        intro m hm
        rw [hpj, ← old.2 m hm, ef']
        cases X.front
        · simp only [Bool.false_eq_true, if_false, Bool.not_false, endPt, if_true]; exact head?_append_ne _ _ hxne
        · simp only [if_true, Bool.not_true, endPt, Bool.false_eq_true, if_false]; exact getLast?_append_ne _ _ hxne
    · by_cases eY : k = Y.id
      · subst eY
        have := joinPaths_get_B X.id Y.id X.front o1 gx gy hgx hgy hid hxl hyl g' hg'
        rw [this] at hl'; cases hl'
      · rw [joinPaths_get_ne _ _ _ _ _ eX eY] at hg'
        rw [markAt_setMark_ne _ _ _ _ _ _ eX, hc]
        have e1 : ((k, f') : Nat × Bool) ≠ (X.id, X.front) := by intro e; simp at e; exact eX e.1
        simp only [e1, if_false, eY]
        exact h1.marks k g' hg' hl' f'

theorem recInv_logSeg (c : Nat × Bool → Nat) (o : Out) (om : List EndMarks) (kd : SegKind) (i1 : Nat) (f1 : Bool) (i2 : Nat) (f2 : Bool)
    (h : RecInv c o om) : RecInv c (logSeg kd i1 f1 i2 f2 o) om := by
  refine ⟨?_, ?_, by intro e he; rw [logSeg_log] at he; exact h.nolost e he, segsOK_logSeg _ _ _ _ _ _ h.segs, by rw [logSeg_rings]; exact h.mlen, ?_⟩
  · rw [logSeg_rings]; exact h.uniq
  · rw [logSeg_rings]; exact h.live
  · rw [logSeg_rings]; exact h.marks

/-- `AddLocalMaxPoly(e1, e2, top)` for open edges with different records `ra` (of `e1`) and `rb`: `AddOutPt(e1, top)`, then `JoinOutrecPaths` with the record `X`
(of the edge with `wind_dx < 0`) surviving -/
theorem recInv_join (c c' : Nat × Bool → Nat) (o : Out) (om : List EndMarks) (ra rb X Y : Rec) (top : Pt) (h : RecInv c o om)
    (hXY : (X = ra ∧ Y = rb) ∨ (X = rb ∧ Y = ra)) (hf : ra.front ≠ rb.front) (hid : ra.id ≠ rb.id)
    (hA : 1 ≤ c (ra.id, ra.front)) (hB : 1 ≤ c (rb.id, rb.front))
    (hc : ∀ key, c' key = if key = (X.id, X.front) then c (Y.id, X.front) else if key.1 = Y.id then 0 else c key) :
    RecInv c' (joinPaths X.id Y.id X.front (logSeg .meet rb.id rb.front ra.id ra.front (addOutPt ra.id ra.front top o)))
      (setMark X.id X.front (markAt om Y.id X.front) om) := by
  have h0 := recInv_update c o om ra top h hA
  have h1 := recInv_logSeg c _ om .meet rb.id rb.front ra.id ra.front h0
  have hr1 := logSeg_rings .meet rb.id rb.front ra.id ra.front (addOutPt ra.id ra.front top o)
  have hbf : rb.front = !ra.front := by revert hf; cases ra.front <;> cases rb.front <;> simp
  have haf : ra.front = !rb.front := by rw [hbf]; simp
  rcases hXY with ⟨rfl, rfl⟩ | ⟨rfl, rfl⟩
  · refine recInv_joinCore c c' _ om X Y h1 hid hbf hA hB ?_ hc
    intro ga gb hga hgb a b ha hb
    rw [hr1] at hga hgb
    obtain ⟨sg, s1, s2, s3⟩ := logSeg_has .meet Y.id Y.front X.id X.front _ gb ga b a hgb hga (by rw [hbf]; exact hb) ha
    have := covered_of_seg _ sg s1 b a s2 s3
    exact ⟨this.2, this.1⟩
  · refine recInv_joinCore c c' _ om X Y h1 (Ne.symm hid) haf hB hA ?_ hc
    intro ga gb hga hgb a b ha hb
    rw [hr1] at hga hgb
    obtain ⟨sg, s1, s2, s3⟩ := logSeg_has .meet X.id X.front Y.id Y.front _ ga gb a b hga hgb ha (by rw [haf]; exact hb)
    exact covered_of_seg _ sg s1 a b s2 s3


/-! ## the invariant of the open layer -/

/-- per edge: closed edges carry nothing; an open edge has `wind_dx = ±1`, owns a record exactly when it is hot, and then `IsFront(e) = (wind_dx > 0)` -/
def OLocal (y : SEdge) : Prop :=
  y.join = .none ∧ (y.e.isOpen = false → y.orec = none) ∧
  (y.e.isOpen = true → (y.e.dx = 1 ∨ y.e.dx = -1) ∧ y.orec.isSome = y.e.hot ∧ ∀ k, y.orec = some k → k.front = isFrontDx y.e.dx)

structure XInv (x : OX) : Prop where
  loc : ∀ y ∈ x.ol, OLocal y
  recs : RecInv (fun key => cnt key x.ol) x.oo x.om

/-- contribution of one edge to the holder count -/
def kc (r : Option Rec) (key : Nat × Bool) : Nat := if r.map (fun r => (r.id, r.front)) = some key then 1 else 0

theorem cnt_cons_kc (key : Nat × Bool) (y : SEdge) (l : List SEdge) : cnt key (y :: l) = kc y.orec key + cnt key l := by
  simp [cnt, kc, keyOf]

theorem kc_none (key : Nat × Bool) : kc none key = 0 := by simp [kc]

theorem kc_some (k : Rec) (key : Nat × Bool) : kc (some k) key = if key = (k.id, k.front) then 1 else 0 := by
  simp only [kc, Option.map_some, Option.some.injEq]
  by_cases e : key = (k.id, k.front)
  · simp [e]
  · have : ¬ (k.id, k.front) = key := fun h => e h.symm
    simp [e, this]

theorem cnt_nil (key : Nat × Bool) : cnt key [] = 0 := rfl

theorem cnt_pos_get (key : Nat × Bool) (l : List SEdge) (j : Nat) (y : SEdge) (r : Rec) (hy : l[j]? = some y) (hr : y.orec = some r)
    (hk : key = (r.id, r.front)) : 1 ≤ cnt key l :=
  cnt_pos_of_mem key l y (List.mem_of_getElem? hy) (by rw [keyOf_of_orec y r hr, hk])

/-- what `openBranch` can do, with the per-edge invariant of the open edge afterwards -/
theorem openBranch_spec (cfg : Cfg) (l : List SEdge) (io : Nat) (eo ec : SEdge) (pt : Pt) (lm : Option (Option Nat)) (oo : Out) (om : List EndMarks)
    (r : Option Rec × Out × List EndMarks) (hloc : OLocal eo) (hopen : eo.e.isOpen = true) (hs : openBranch cfg l io eo ec pt lm oo om = some r) :
    OLocal { eo with e := intersectOpen cfg eo.e ec.e, orec := r.1 } ∧
    ( r = (eo.orec, oo, om) ∨
      (∃ k, eo.orec = some k ∧ r = (none, addOutPt k.id k.front pt oo, setMark k.id k.front (some ⟨pt, .cutStop⟩) om)) ∨
      (eo.orec = none ∧ r = (some ⟨oo.rings.length, isFrontDx eo.e.dx⟩, newRec pt oo, om ++ [EndMarks.put ⟨none, none⟩ (!isFrontDx eo.e.dx) (some ⟨pt, .cutStart⟩)])) ∨
      (eo.orec = none ∧ ∃ (j : Nat) (e3 : SEdge) (rr : Rec), l[j]? = some e3 ∧ e3.orec = some rr ∧ rr.front = !isFrontDx eo.e.dx ∧ (markAt om rr.id (isFrontDx eo.e.dx)).isSome = true ∧
        r = (some ⟨rr.id, isFrontDx eo.e.dx⟩, handOver rr.id (isFrontDx eo.e.dx) oo, setMark rr.id (isFrontDx eo.e.dx) none om)) ) := by
  obtain ⟨hj, _, ho⟩ := hloc
  obtain ⟨hdx, hhot, hfr⟩ := ho hopen
  have startLoc : eo.orec = none → openToggles cfg ec.e = true → ∀ n, OLocal { eo with e := intersectOpen cfg eo.e ec.e, orec := some ⟨n, isFrontDx eo.e.dx⟩ } := by
    intro hn ht n
    rw [intersectOpen_eq_toggles, if_pos ht]
    refine ⟨hj, fun hc => by simp [hopen] at hc, fun _ => ⟨hdx, ?_, ?_⟩⟩
    · rw [hn] at hhot; simp at hhot; simp [← hhot]
    · intro k hk; simp at hk; rw [← hk]
  unfold openBranch at hs
  split at hs
  · next ht =>
    split at hs
    · next k hk =>
      cases hs
      refine ⟨?_, Or.inr (Or.inl ⟨k, hk, rfl⟩)⟩
      rw [intersectOpen_eq_toggles, if_pos ht]
      refine ⟨hj, fun hc => by simp [hopen] at hc, fun _ => ⟨hdx, ?_, fun k' hk' => by cases hk'⟩⟩
      rw [hk] at hhot; simp at hhot; simp [← hhot]
    · next hn =>
      split at hs
      · next j =>
        split at hs
        · next e3 he3 =>
          split at hs
          · split at hs
            · next rr hrr =>
              split at hs
              · next hc =>
                cases hs
                exact ⟨startLoc hn ht _, Or.inr (Or.inr (Or.inr ⟨hn, j, e3, rr, he3, hrr, hc.1, hc.2, rfl⟩))⟩
              · cases hs
            · cases hs
              exact ⟨startLoc hn ht _, Or.inr (Or.inr (Or.inl ⟨hn, rfl⟩))⟩
          · cases hs
        · cases hs
      · cases hs
        exact ⟨startLoc hn ht _, Or.inr (Or.inr (Or.inl ⟨hn, rfl⟩))⟩
  · next ht =>
    cases hs
    refine ⟨?_, Or.inl rfl⟩
    rw [intersectOpen_eq_toggles, if_neg ht]
    exact ⟨hj, fun hc => by simp [hopen] at hc, fun _ => ⟨hdx, hhot, hfr⟩⟩

/-- the record-level effect of `openBranch`, for a window `pre ++ [u, v] ++ rest` in which the open edge `eo` (one of `u`, `v`) gets the record `r.1`
and the other edge keeps its key -/
theorem recInv_openBranch (l : List SEdge) (pre rest : List SEdge) (eo : SEdge) (ko : Option Rec) (pt : Pt) (oo : Out) (om : List EndMarks)
    (r : Option Rec × Out × List EndMarks)
    (hl : ∀ key, cnt key l = cnt key pre + kc eo.orec key + kc ko key + cnt key rest)
    (h : RecInv (fun key => cnt key l) oo om)
    (heff : r = (eo.orec, oo, om) ∨
      (∃ k, eo.orec = some k ∧ r = (none, addOutPt k.id k.front pt oo, setMark k.id k.front (some ⟨pt, .cutStop⟩) om)) ∨
      (eo.orec = none ∧ r = (some ⟨oo.rings.length, isFrontDx eo.e.dx⟩, newRec pt oo, om ++ [EndMarks.put ⟨none, none⟩ (!isFrontDx eo.e.dx) (some ⟨pt, .cutStart⟩)])) ∨
      (eo.orec = none ∧ ∃ (j : Nat) (e3 : SEdge) (rr : Rec), l[j]? = some e3 ∧ e3.orec = some rr ∧ rr.front = !isFrontDx eo.e.dx ∧ (markAt om rr.id (isFrontDx eo.e.dx)).isSome = true ∧
        r = (some ⟨rr.id, isFrontDx eo.e.dx⟩, handOver rr.id (isFrontDx eo.e.dx) oo, setMark rr.id (isFrontDx eo.e.dx) none om))) :
    RecInv (fun key => cnt key pre + kc r.1 key + kc ko key + cnt key rest) r.2.1 r.2.2 := by
  rcases heff with rfl | ⟨k, hk, rfl⟩ | ⟨hn, rfl⟩ | ⟨hn, j, e3, rr, he3, hrr, hfr, hfree, rfl⟩
  · have : (fun key => cnt key pre + kc eo.orec key + kc ko key + cnt key rest) = (fun key => cnt key l) := by funext key; rw [hl]
    simp only; rw [this]; exact h
  · refine recInv_stop _ _ oo om k pt ⟨pt, .cutStop⟩ rfl h ?_ ?_
    · show 1 ≤ cnt (k.id, k.front) l
      rw [hl, hk, kc_some]; simp; omega
    · intro key
      show cnt key l = _
      rw [hl, hk, kc_some, kc_none]; omega
  · refine recInv_start _ _ oo om pt (isFrontDx eo.e.dx) ⟨pt, .cutStart⟩ rfl h ?_
    intro key
    show _ = cnt key l + _
    rw [hl, hn, kc_some, kc_none]; simp only; omega
  · refine recInv_rejoin _ _ oo om rr.id (isFrontDx eo.e.dx) h ?_ hfree ?_
    · show 1 ≤ cnt (rr.id, !isFrontDx eo.e.dx) l
      exact cnt_pos_get _ l j e3 rr he3 hrr (by rw [hfr])
    · intro key
      show _ = cnt key l + _
      rw [hl, hn, kc_some, kc_none]; simp only; omega

theorem ipair_same_open (cfg : Cfg) (a b : Edge) (ha : a.isOpen = true) (hb : b.isOpen = true) : intersectPair cfg a b = (a, b) := by
  simp [intersectPair, ha, hb]

theorem olocal_closed (y : SEdge) (e' : Edge) (h : OLocal y) (hc : y.e.isOpen = false) (hc' : e'.isOpen = false) : OLocal { y with e := e' } := by
  obtain ⟨hj, h1, _⟩ := h
  exact ⟨hj, fun _ => h1 hc, fun ho => by simp [hc'] at ho⟩

theorem xinv_oIntersect (cfg : Cfg) (i : Nat) (pt : Pt) (lm : Option (Option Nat)) (x x' : OX) (h : XInv x) (hs : oIntersect cfg i pt lm x = some x') : XInv x' := by
  unfold oIntersect at hs
  split at hs
  · next a b rest hd =>
    have hl := window_split _ _ _ _ _ hd
    have ha : OLocal a := h.loc a (by rw [hl]; simp)
    have hb : OLocal b := h.loc b (by rw [hl]; simp)
    have hpre : ∀ y ∈ x.ol.take i, OLocal y := fun y hy => h.loc y (List.mem_of_mem_take hy)
    have hrest : ∀ y ∈ rest, OLocal y := fun y hy => h.loc y (by rw [hl]; simp [hy])
    have hcnt : ∀ key, cnt key x.ol = cnt key (x.ol.take i) + kc a.orec key + kc b.orec key + cnt key rest := by
      intro key; conv => lhs; rw [hl]
      rw [cnt_append, cnt_cons_kc, cnt_cons_kc]; omega
    obtain ⟨f1, f2, f3, f4, f5, f6⟩ := intersectPair_fields cfg a.e b.e
    simp only at hs
    split at hs
    · next hsame =>
      cases hs
      refine ⟨?_, ?_⟩
      · intro y hy
        simp only [List.mem_append, List.mem_cons] at hy
        rcases hy with hy | rfl | rfl | hy
        · exact hpre y hy
        · cases hbo : b.e.isOpen with
          | true =>
            rw [ipair_same_open cfg a.e b.e (by rw [hsame, hbo]) hbo]; exact hb
          | false => exact olocal_closed b _ hb hbo (by rw [f5, hbo])
        · cases hao : a.e.isOpen with
          | true =>
            rw [ipair_same_open cfg a.e b.e hao (by rw [← hsame, hao])]; exact ha
          | false => exact olocal_closed a _ ha hao (by rw [f2, hao])
        · exact hrest y hy
      · have : (fun key => cnt key (x.ol.take i ++ { b with e := (intersectPair cfg a.e b.e).2 } :: { a with e := (intersectPair cfg a.e b.e).1 } :: rest)) = (fun key => cnt key x.ol) := by
          funext key; rw [hcnt, cnt_append, cnt_cons_kc, cnt_cons_kc]; simp only; omega
        simp only; rw [this]; exact h.recs
    · next hdiff =>
      split at hs
      · next hao =>
        have hbo : b.e.isOpen = false := by cases hb' : b.e.isOpen <;> simp [hao, hb'] at hdiff ⊢
        split at hs
        · next r hr =>
          cases hs
          obtain ⟨hloc', heff⟩ := openBranch_spec cfg x.ol i a b pt lm x.oo x.om r ha hao hr
          rw [ipair_open_left cfg a.e b.e hao hbo]
          refine ⟨?_, ?_⟩
          · intro y hy
            simp only [List.mem_append, List.mem_cons] at hy
            rcases hy with hy | rfl | rfl | hy
            · exact hpre y hy
            · exact hb
            · exact hloc'
            · exact hrest y hy
          · have := recInv_openBranch x.ol (x.ol.take i) rest a b.orec pt x.oo x.om r hcnt h.recs heff
            have e : (fun key => cnt key (x.ol.take i ++ { b with e := b.e } :: { a with e := intersectOpen cfg a.e b.e, orec := r.1 } :: rest)) =
                (fun key => cnt key (x.ol.take i) + kc r.1 key + kc b.orec key + cnt key rest) := by
              funext key; rw [cnt_append, cnt_cons_kc, cnt_cons_kc]; simp only; omega
            simp only; rw [e]; exact this
        · cases hs
      · next hao =>
        have hao' : a.e.isOpen = false := by cases ha' : a.e.isOpen <;> simp [ha'] at hao ⊢
        have hbo : b.e.isOpen = true := by cases hb' : b.e.isOpen <;> simp [hao', hb'] at hdiff ⊢
        split at hs
        · next r hr =>
          cases hs
          obtain ⟨hloc', heff⟩ := openBranch_spec cfg x.ol (i + 1) b a pt lm x.oo x.om r hb hbo hr
          rw [ipair_open_right cfg a.e b.e hao' hbo]
          refine ⟨?_, ?_⟩
          · intro y hy
            simp only [List.mem_append, List.mem_cons] at hy
            rcases hy with hy | rfl | rfl | hy
            · exact hpre y hy
            · exact hloc'
            · exact ha
            · exact hrest y hy
          · have hcnt' : ∀ key, cnt key x.ol = cnt key (x.ol.take i) + kc b.orec key + kc a.orec key + cnt key rest := by
              intro key; rw [hcnt]; omega
            have := recInv_openBranch x.ol (x.ol.take i) rest b a.orec pt x.oo x.om r hcnt' h.recs heff
            have e : (fun key => cnt key (x.ol.take i ++ { b with e := intersectOpen cfg b.e a.e, orec := r.1 } :: { a with e := a.e } :: rest)) =
                (fun key => cnt key (x.ol.take i) + kc r.1 key + kc a.orec key + cnt key rest) := by
              funext key; rw [cnt_append, cnt_cons_kc, cnt_cons_kc]; simp only; omega
            simp only; rw [e]; exact this
        · cases hs
  · cases hs


theorem isFrontDx_neg (dx : Int) (h : dx = 1 ∨ dx = -1) : isFrontDx (-dx) = !isFrontDx dx := by
  rcases h with rfl | rfl <;> simp [isFrontDx]

theorem cnt_take_drop (key : Nat × Bool) (l : List SEdge) (pos : Nat) : cnt key l = cnt key (l.take pos) + cnt key (l.drop pos) := by
  conv => lhs; rw [← List.take_append_drop pos l]
  rw [cnt_append]

theorem xinv_oInsertPair (cfg : Cfg) (pos : Nat) (t : PathType) (isOpen : Bool) (dx : Int) (bot : Pt) (x x' : OX) (h : XInv x)
    (hs : oInsertPair cfg pos t isOpen dx bot x = some x') : XInv x' := by
  unfold oInsertPair at hs
  split at hs
  · next hc =>
    obtain ⟨g1, g2, g3⟩ := newLeft_fields cfg (erase (x.ol.take pos)) t isOpen dx
    have hpre : ∀ y ∈ x.ol.take pos, OLocal y := fun y hy => h.loc y (List.mem_of_mem_take hy)
    have hpost : ∀ y ∈ x.ol.drop pos, OLocal y := fun y hy => h.loc y (List.mem_of_mem_drop hy)
    simp only at hs
    split at hs
    · next hcon =>
      cases hs
      simp only [Bool.and_eq_true] at hcon
      obtain ⟨hr2, hop⟩ := hcon
      subst hop
      refine ⟨?_, ?_⟩
      · intro y hy
        simp only [List.mem_append, List.mem_cons] at hy
        rcases hy with hy | rfl | rfl | hy
        · exact hpre y hy
        · refine ⟨rfl, fun ho => ?_, fun _ => ⟨?_, ?_, ?_⟩⟩
          · simp [g2] at ho
          · simp only [g3]; exact hc.2
          · simp [hr2]
          · intro k hk; simp only [Option.some.injEq] at hk; rw [← hk]; simp only [g3]
        · refine ⟨rfl, fun ho => ?_, fun _ => ⟨?_, ?_, ?_⟩⟩
          · simp at ho
          · simp only; rcases hc.2 with e | e <;> rw [e] <;> simp
          · simp [hr2]
          · intro k hk; simp only [Option.some.injEq] at hk; rw [← hk]; simp only; exact (isFrontDx_neg dx hc.2).symm
        · exact hpost y hy
      · refine recInv_pair _ _ x.oo x.om bot (isFrontDx dx) h.recs ?_
        intro key
        show cnt key _ = cnt key x.ol + _ + _
        rw [cnt_append, cnt_cons_kc, cnt_cons_kc, kc_some, kc_some, cnt_take_drop key x.ol pos]
        simp only; omega
    · next hcon =>
      cases hs
      refine ⟨?_, ?_⟩
      · intro y hy
        simp only [List.mem_append, List.mem_cons] at hy
        rcases hy with hy | rfl | rfl | hy
        · exact hpre y hy
        · refine ⟨rfl, fun _ => rfl, fun ho => ⟨?_, ?_, fun k hk => by cases hk⟩⟩
          · simp only [g3]; exact hc.2
          · simp only [g2] at ho; subst ho; simp at hcon; simp [hcon]
        · refine ⟨rfl, fun _ => rfl, fun ho => ⟨?_, ?_, fun k hk => by cases hk⟩⟩
          · simp only; rcases hc.2 with e | e <;> rw [e] <;> simp
          · simp only at ho; subst ho; simp at hcon; simp [hcon]
        · exact hpost y hy
      · have : (fun key => cnt key (x.ol.take pos ++
            ⟨{ (newLeft cfg (erase (x.ol.take pos)) t isOpen dx).1 with hot := (newLeft cfg (erase (x.ol.take pos)) t isOpen dx).2 }, .none, none⟩ ::
            ⟨{ pt := t, isOpen := isOpen, dx := -dx, wc := (newLeft cfg (erase (x.ol.take pos)) t isOpen dx).1.wc, wc2 := (newLeft cfg (erase (x.ol.take pos)) t isOpen dx).1.wc2,
               hot := (newLeft cfg (erase (x.ol.take pos)) t isOpen dx).2 }, .none, none⟩ :: x.ol.drop pos)) = (fun key => cnt key x.ol) := by
          funext key
          rw [cnt_append, cnt_cons_kc, cnt_cons_kc, kc_none, cnt_take_drop key x.ol pos]; omega
        simp only; rw [this]; exact h.recs
  · cases hs

theorem xinv_oInsertOne (cfg : Cfg) (pos : Nat) (t : PathType) (dx : Int) (bot : Pt) (x x' : OX) (h : XInv x)
    (hs : oInsertOne cfg pos t dx bot x = some x') : XInv x' := by
  unfold oInsertOne at hs
  split at hs
  · next hc =>
    obtain ⟨g1, g2, g3⟩ := newLeft_fields cfg (erase (x.ol.take pos)) t true dx
    have hpre : ∀ y ∈ x.ol.take pos, OLocal y := fun y hy => h.loc y (List.mem_of_mem_take hy)
    have hpost : ∀ y ∈ x.ol.drop pos, OLocal y := fun y hy => h.loc y (List.mem_of_mem_drop hy)
    simp only at hs
    split at hs
    · next hr2 =>
      cases hs
      refine ⟨?_, ?_⟩
      · intro y hy
        simp only [List.mem_append, List.mem_cons] at hy
        rcases hy with hy | rfl | hy
        · exact hpre y hy
        · refine ⟨rfl, fun ho => ?_, fun _ => ⟨?_, ?_, ?_⟩⟩
          · simp [g2] at ho
          · simp only [g3]; exact hc.2
          · simp [startOpen, hr2]
          · intro k hk; simp only [startOpen, Option.some.injEq] at hk; rw [← hk]; simp only [g3]
        · exact hpost y hy
      · refine recInv_start _ _ x.oo x.om bot (isFrontDx dx) ⟨bot, .pathStart⟩ rfl h.recs ?_
        intro key
        show cnt key _ = cnt key x.ol + _
        rw [cnt_append, cnt_cons_kc, cnt_take_drop key x.ol pos]
        simp only [startOpen, kc_some]; omega
    · next hr2 =>
      cases hs
      refine ⟨?_, ?_⟩
      · intro y hy
        simp only [List.mem_append, List.mem_cons] at hy
        rcases hy with hy | rfl | hy
        · exact hpre y hy
        · refine ⟨rfl, fun _ => rfl, fun _ => ⟨?_, ?_, fun k hk => by cases hk⟩⟩
          · simp only [g3]; exact hc.2
          · simp at hr2; simp [hr2]
        · exact hpost y hy
      · have : (fun key => cnt key (x.ol.take pos ++
            ⟨{ (newLeft cfg (erase (x.ol.take pos)) t true dx).1 with hot := (newLeft cfg (erase (x.ol.take pos)) t true dx).2 }, .none, none⟩ :: x.ol.drop pos)) =
            (fun key => cnt key x.ol) := by
          funext key
          rw [cnt_append, cnt_cons_kc, kc_none, cnt_take_drop key x.ol pos]; omega
        simp only; rw [this]; exact h.recs
  · cases hs

theorem xinv_oRemoveOne (i : Nat) (top : Pt) (x x' : OX) (h : XInv x) (hs : oRemoveOne i top x = some x') : XInv x' := by
  unfold oRemoveOne at hs
  split at hs
  · next a rest hd =>
    have hl : x.ol = x.ol.take i ++ a :: rest := drop_split _ _ _ hd
    have hpre : ∀ y ∈ x.ol.take i, OLocal y := fun y hy => h.loc y (List.mem_of_mem_take hy)
    have hrest : ∀ y ∈ rest, OLocal y := fun y hy => h.loc y (by rw [hl]; simp [hy])
    have hloc : ∀ y ∈ x.ol.take i ++ rest, OLocal y := by
      intro y hy; rcases List.mem_append.mp hy with hy | hy
      · exact hpre y hy
      · exact hrest y hy
    have hcnt : ∀ key, cnt key x.ol = cnt key (x.ol.take i) + kc a.orec key + cnt key rest := by
      intro key; conv => lhs; rw [hl]
      rw [cnt_append, cnt_cons_kc]; omega
    split at hs
    · split at hs
      · next k hk =>
        cases hs
        refine ⟨hloc, ?_⟩
        refine recInv_stop _ _ x.oo x.om k top ⟨top, .pathStop⟩ rfl h.recs ?_ ?_
        · show 1 ≤ cnt (k.id, k.front) x.ol
          rw [hcnt, hk, kc_some]; simp <;> omega
        · intro key
          show cnt key x.ol = cnt key (x.ol.take i ++ rest) + _
          rw [hcnt, hk, kc_some, cnt_append]; omega
      · next hn =>
        cases hs
        refine ⟨hloc, ?_⟩
        have : (fun key => cnt key (x.ol.take i ++ rest)) = (fun key => cnt key x.ol) := by
          funext key; rw [hcnt, hn, kc_none, cnt_append]; omega
        simp only; rw [this]; exact h.recs
    · cases hs
  · cases hs

theorem xinv_oUpdate (i : Nat) (top : Pt) (x x' : OX) (h : XInv x) (hs : oUpdate i top x = some x') : XInv x' := by
  unfold oUpdate at hs
  split at hs
  · next a ha =>
    split at hs
    · split at hs
      · next k hk =>
        cases hs
        refine ⟨h.loc, ?_⟩
        exact recInv_update _ x.oo x.om k top h.recs (cnt_pos_get _ x.ol i a k ha hk rfl)
      · cases hs; exact h
    · cases hs; exact h
  · cases hs

theorem olocal_relabel (B : Nat) (f : Bool) (A : Nat) (y : SEdge) (h : OLocal y) : OLocal (relabelFn B f A y) := by
  unfold relabelFn
  split
  · next r hr =>
    split
    · next hc =>
      obtain ⟨hj, h1, h2⟩ := h
      refine ⟨hj, fun ho => (by have := h1 ho; rw [hr] at this; cases this), fun ho => ?_⟩
      obtain ⟨d, e, g⟩ := h2 ho
      refine ⟨d, by rw [hr] at e; simpa using e, ?_⟩
      intro k hk
      simp only [Option.some.injEq] at hk
      rw [← hk]; simp only
      rw [← hc.2]; exact g r hr
    · exact h
  · exact h

/-- the holder counts after an open `JoinOutrecPaths` -/
theorem join_count (P c : Nat × Bool → Nat) (X Y : Rec) (hid : X.id ≠ Y.id) (hfy : Y.front = !X.front)
    (hc : ∀ key, c key = P key + (if key = (X.id, X.front) then 1 else 0) + (if key = (Y.id, Y.front) then 1 else 0)) (hu : ∀ key, c key ≤ 1) (key : Nat × Bool) :
    (if key = (X.id, X.front) then P (X.id, X.front) + P (Y.id, X.front) else if key = (Y.id, X.front) then 0 else P key) =
    (if key = (X.id, X.front) then c (Y.id, X.front) else if key.1 = Y.id then 0 else c key) := by
  have hX := hc (X.id, X.front); have hXu := hu (X.id, X.front)
  have hY := hc (Y.id, Y.front); have hYu := hu (Y.id, Y.front)
  have n1 : ((X.id, X.front) : Nat × Bool) ≠ (Y.id, Y.front) := by intro e; simp at e; exact hid e.1
  have n2 : ((Y.id, X.front) : Nat × Bool) ≠ (X.id, X.front) := by intro e; simp at e; exact hid e.symm
  have n3 : ((Y.id, X.front) : Nat × Bool) ≠ (Y.id, Y.front) := by intro e; simp at e; rw [hfy] at e; cases hx : X.front <;> simp [hx] at e
  simp only [n1, n1.symm, if_true, if_false] at hX hY
  by_cases e1 : key = (X.id, X.front)
  · simp only [e1, if_true]
    have := hc (Y.id, X.front)
    simp only [n2, n3, if_false] at this
    omega
  · simp only [e1, if_false]
    by_cases e2 : key.1 = Y.id
    · simp only [e2, if_true]
      by_cases e3 : key = (Y.id, X.front)
      · simp [e3]
      · simp only [e3, if_false]
        have : key = (Y.id, Y.front) := by
          obtain ⟨k1, k2⟩ := key
          simp only at e2; subst e2
          simp only [Prod.mk.injEq, true_and] at e3 ⊢
          rw [hfy]; cases hx : X.front <;> cases k2 <;> simp [hx] at e3 ⊢
        rw [this]; omega
    · have e3 : key ≠ (Y.id, X.front) := fun h => e2 (by rw [h])
      have e4 : key ≠ (Y.id, Y.front) := fun h => e2 (by rw [h])
      simp only [e3, e2, if_false]
      have := hc key
      simp only [e1, e4, if_false] at this
      omega

/-- the premise under which an open `removePair` does not misbehave: the two edges of the maxima pair are both hot or both cold -/
def MaxPairHot (x : OX) : OOp → Prop
  | .ev (.base (.removePair i) _) => ∀ a b rest, x.ol.drop i = a :: b :: rest → a.e.isOpen = true → b.e.isOpen = true → a.e.hot = b.e.hot
  | _ => True

theorem xinv_oRemovePair (i : Nat) (top : Pt) (x x' : OX) (h : XInv x) (hhot : MaxPairHot x (.ev (.base (.removePair i) top)))
    (hs : oRemovePair i top x = some x') : XInv x' ∧ x'.bad = x.bad := by
  unfold oRemovePair at hs
  split at hs
  · next a b rest hd =>
    have hl := window_split _ _ _ _ _ hd
    have ha : OLocal a := h.loc a (by rw [hl]; simp)
    have hb : OLocal b := h.loc b (by rw [hl]; simp)
    have hpre : ∀ y ∈ x.ol.take i, OLocal y := fun y hy => h.loc y (List.mem_of_mem_take hy)
    have hrest : ∀ y ∈ rest, OLocal y := fun y hy => h.loc y (by rw [hl]; simp [hy])
    have hloc : ∀ y ∈ x.ol.take i ++ rest, OLocal y := by
      intro y hy; rcases List.mem_append.mp hy with hy | hy
      · exact hpre y hy
      · exact hrest y hy
    have hcnt : ∀ key, cnt key x.ol = cnt key (x.ol.take i ++ rest) + kc a.orec key + kc b.orec key := by
      intro key; conv => lhs; rw [hl]
      rw [cnt_append, cnt_cons_kc, cnt_cons_kc, cnt_append]; omega
    have keep : a.orec = none → b.orec = none → RecInv (fun key => cnt key (x.ol.take i ++ rest)) x.oo x.om := by
      intro hna hnb
      have : (fun key => cnt key (x.ol.take i ++ rest)) = (fun key => cnt key x.ol) := by
        funext key; rw [hcnt, hna, hnb, kc_none]; omega
      rw [this]; exact h.recs
    split at hs
    · next hc =>
      split at hs
      · next hao =>
        have hbo : b.e.isOpen = true := by rw [← hc.2.1]; exact hao
        obtain ⟨hda, hha, hfa⟩ := ha.2.2 hao
        obtain ⟨hdb, hhb, hfb⟩ := hb.2.2 hbo
        have hh := hhot a b rest hd hao hbo
        split at hs
        · next hna hnb => cases hs; exact ⟨⟨hloc, keep hna hnb⟩, rfl⟩
        · next ra rb hra hrb =>
          have hfne : ra.front ≠ rb.front := by
            rw [hfa ra hra, hfb rb hrb]
            have : b.e.dx = -a.e.dx := by omega
            rw [this, isFrontDx_neg _ hda]
            cases isFrontDx a.e.dx <;> simp
          split at hs
          · next hfe => exact absurd hfe hfne
          · split at hs
            · cases hs
            · next hid =>
              cases hs
              refine ⟨⟨?_, ?_⟩, rfl⟩
              · intro y hy
                obtain ⟨y0, hy0, rfl⟩ := List.mem_map.mp hy
                exact olocal_relabel _ _ _ _ (hloc y0 hy0)
              · have hA : 1 ≤ cnt (ra.id, ra.front) x.ol := by rw [hcnt, hra, kc_some]; simp <;> omega
                have hB : 1 ≤ cnt (rb.id, rb.front) x.ol := by rw [hcnt, hrb, kc_some]; simp <;> omega
                have hbf : rb.front = !ra.front := by revert hfne; cases ra.front <;> cases rb.front <;> simp
                have haf : ra.front = !rb.front := by rw [hbf]; simp
                have hu : ∀ key, cnt key x.ol ≤ 1 := fun key => (h.recs.uniq key).1
                by_cases hdx : a.e.dx < 0
                · simp only [hdx, if_true]
                  refine recInv_join _ _ x.oo x.om ra rb ra rb top h.recs (Or.inl ⟨rfl, rfl⟩) hfne hid hA hB ?_
                  intro key
                  show cnt key _ = _
                  rw [cnt_relabel rb.id ra.front ra.id hid]
                  exact join_count (fun key => cnt key (x.ol.take i ++ rest)) (fun key => cnt key x.ol) ra rb hid hbf
                    (by intro key; show cnt key x.ol = _; rw [hcnt, hra, hrb]; simp only [kc_some]) hu key
                · simp only [hdx, if_false]
                  refine recInv_join _ _ x.oo x.om ra rb rb ra top h.recs (Or.inr ⟨rfl, rfl⟩) hfne hid hA hB ?_
                  intro key
                  show cnt key _ = _
                  rw [cnt_relabel ra.id rb.front rb.id (Ne.symm hid)]
                  exact join_count (fun key => cnt key (x.ol.take i ++ rest)) (fun key => cnt key x.ol) rb ra (Ne.symm hid) haf
                    (by intro key; show cnt key x.ol = _; rw [hcnt, hra, hrb]; simp only [kc_some]; omega) hu key
        · next hmis =>
          exfalso
          cases hoa : a.orec with
          | none =>
            cases hob : b.orec with
            | none => exact (by assumption : a.orec = none → b.orec = none → False) hoa hob
            | some rb => rw [hoa] at hha; rw [hob] at hhb; simp at hha hhb; rw [hha, hhb] at hh; cases hh
          | some ra =>
            cases hob : b.orec with
            | none => rw [hoa] at hha; rw [hob] at hhb; simp at hha hhb; rw [hha, hhb] at hh; cases hh
            | some rb => exact (by assumption : ∀ ra rb, a.orec = some ra → b.orec = some rb → False) ra rb hoa hob
      · next hao =>
        cases hs
        have hao' : a.e.isOpen = false := by cases ha' : a.e.isOpen <;> simp [ha'] at hao ⊢
        have hbo' : b.e.isOpen = false := by rw [← hc.2.1]; exact hao'
        exact ⟨⟨hloc, keep (ha.2.1 hao') (hb.2.1 hbo')⟩, rfl⟩
    · cases hs
  · cases hs


theorem oIntersect_bad (cfg : Cfg) (i : Nat) (pt : Pt) (lm : Option (Option Nat)) (x x' : OX) (hs : oIntersect cfg i pt lm x = some x') : x'.bad = x.bad := by
  unfold oIntersect at hs
  split at hs
  · simp only at hs
    split at hs
    · cases hs; rfl
    · split at hs
      · split at hs
        · cases hs; rfl
        · cases hs
      · split at hs
        · cases hs; rfl
        · cases hs
  · cases hs

/-- **the open layer's invariant is kept by every event** (for `removePair` under the premise that the maxima pair is both hot or both cold), and `bad` is not set -/
theorem xinv_openStep (cfg : Cfg) (x x' : OX) (op : OOp) (h : XInv x) (hhot : MaxPairHot x op) (hs : openStep cfg x op = some x') : XInv x' ∧ x'.bad = x.bad := by
  cases op with
  | locMinX i p e3 => exact ⟨xinv_oIntersect cfg i p _ x x' h hs, oIntersect_bad cfg i p _ x x' hs⟩
  | ev o =>
    cases o with
    | join i p => simp only [openStep] at hs; cases hs; exact ⟨h, rfl⟩
    | split i p => simp only [openStep] at hs; cases hs; exact ⟨h, rfl⟩
    | update i p =>
      refine ⟨xinv_oUpdate i p x x' h hs, ?_⟩
      simp only [openStep, oUpdate] at hs
      split at hs
      · split at hs
        · split at hs <;> cases hs <;> rfl
        · cases hs; rfl
      · cases hs
    | base b p =>
      cases b with
      | intersect i => exact ⟨xinv_oIntersect cfg i p _ x x' h hs, oIntersect_bad cfg i p _ x x' hs⟩
      | insertPair pos t isOpen dx =>
        refine ⟨xinv_oInsertPair cfg pos t isOpen dx p x x' h hs, ?_⟩
        simp only [openStep, oInsertPair] at hs
        split at hs
        · split at hs <;> cases hs <;> rfl
        · cases hs
      | insertOne pos t dx =>
        refine ⟨xinv_oInsertOne cfg pos t dx p x x' h hs, ?_⟩
        simp only [openStep, oInsertOne] at hs
        split at hs
        · split at hs <;> cases hs <;> rfl
        · cases hs
      | removePair i => exact xinv_oRemovePair i p x x' h hhot hs
      | removeOne i =>
        refine ⟨xinv_oRemoveOne i p x x' h hs, ?_⟩
        simp only [openStep, oRemoveOne] at hs
        split at hs
        · split at hs
          · split at hs <;> cases hs <;> rfl
          · cases hs
        · cases hs

theorem xinv_empty : XInv OX.empty := by
  refine ⟨by intro y hy; simp [OX.empty] at hy, ⟨?_, ?_, ?_, ?_, rfl, ?_⟩⟩
  · intro key; simp [OX.empty, cnt]
  · intro key hk; simp [OX.empty, cnt] at hk
  · intro e he; simp [OX.empty, Out.empty] at he
  · intro g hg; simp [OX.empty, Out.empty] at hg
  · intro k g hg; simp [OX.empty, Out.empty] at hg


/-! ## provenance: which events touch the open records, and where marks come from -/

/-- the event concerns an open edge -/
def IsOpenEv (x : OX) : OOp → Prop
  | .ev (.base (.insertPair _ _ isOpen _) _) => isOpen = true
  | .ev (.base (.insertOne _ _ _) _) => True
  | .ev (.base (.intersect i) _) => ∃ a b rest, x.ol.drop i = a :: b :: rest ∧ a.e.isOpen ≠ b.e.isOpen
  | .locMinX i _ _ => ∃ a b rest, x.ol.drop i = a :: b :: rest ∧ a.e.isOpen ≠ b.e.isOpen
  | .ev (.base (.removePair i) _) => ∃ a rest, x.ol.drop i = a :: rest ∧ a.e.isOpen = true
  | .ev (.base (.removeOne _) _) => True
  | .ev (.update i _) => ∃ a, x.ol[i]? = some a ∧ a.e.isOpen = true
  | .ev (.join _ _) => False
  | .ev (.split _ _) => False

theorem oIntersect_noop (cfg : Cfg) (i : Nat) (pt : Pt) (lm : Option (Option Nat)) (x x' : OX) (hs : oIntersect cfg i pt lm x = some x') :
    (∃ a b rest, x.ol.drop i = a :: b :: rest ∧ a.e.isOpen ≠ b.e.isOpen) ∨ (x'.oo = x.oo ∧ x'.om = x.om) := by
  unfold oIntersect at hs
  split at hs
  · next a b rest hd =>
    simp only at hs
    split at hs
    · cases hs; right; exact ⟨rfl, rfl⟩
    · next hne => left; exact ⟨a, b, rest, hd, hne⟩
  · cases hs

/-- an event that does not concern an open edge leaves the open records and the marks alone -/
theorem openStep_noop (cfg : Cfg) (x x' : OX) (op : OOp) (hs : openStep cfg x op = some x') : IsOpenEv x op ∨ (x'.oo = x.oo ∧ x'.om = x.om) := by
  cases op with
  | locMinX i p e3 => exact oIntersect_noop cfg i p _ x x' hs
  | ev o =>
    cases o with
    | join i p => simp only [openStep] at hs; cases hs; right; exact ⟨rfl, rfl⟩
    | split i p => simp only [openStep] at hs; cases hs; right; exact ⟨rfl, rfl⟩
    | update i p =>
      simp only [openStep, oUpdate] at hs
      split at hs
      · next a ha =>
        split at hs
        · next hao => left; exact ⟨a, ha, hao⟩
        · cases hs; right; exact ⟨rfl, rfl⟩
      · cases hs
    | base b p =>
      cases b with
      | intersect i => exact oIntersect_noop cfg i p _ x x' hs
      | insertPair pos t isOpen dx =>
        simp only [openStep, oInsertPair] at hs
        split at hs
        · split at hs
          · next hc => left; simp only [Bool.and_eq_true] at hc; exact hc.2
          · cases hs; right; exact ⟨rfl, rfl⟩
        · cases hs
      | insertOne pos t dx => left; trivial
      | removePair i =>
        simp only [openStep, oRemovePair] at hs
        split at hs
        · next a b rest hd =>
          split at hs
          · split at hs
            · next hao => left; exact ⟨a, b :: rest, hd, hao⟩
            · cases hs; right; exact ⟨rfl, rfl⟩
          · cases hs
        · cases hs
      | removeOne i => left; trivial

/-- every new log entry carries the event's point, and the event concerns an open edge -/
theorem log_step (cfg : Cfg) (x x' : OX) (op : OOp) (hs : openStep cfg x op = some x') :
    ∀ e ∈ x'.oo.log, e ∈ x.oo.log ∨ (e.pt = op.pt ∧ IsOpenEv x op) := by
  intro e he
  rcases openStep_noop cfg x x' op hs with hop | ⟨h1, _⟩
  · have := pres_openStep cfg x x' op (LogFrom x.oo.log op.pt) (OPrim.of (logFrom_prim x.oo.log op.pt)) (fun e he => Or.inl he) hs e he
    rcases this with h | h
    · exact Or.inl h
    · exact Or.inr ⟨h, hop⟩
  · rw [h1] at he; exact Or.inl he

/-- the open edge of the pair at `i` crosses the closed one and toggles; `wasHot` = it owned a record before -/
def IsCut (cfg : Cfg) (x : OX) (op : OOp) (wasHot : Bool) : Prop :=
  ∃ i, op.erase = .base (.intersect i) op.pt ∧ ∃ a b rest, x.ol.drop i = a :: b :: rest ∧
    ((a.e.isOpen = true ∧ b.e.isOpen = false ∧ openToggles cfg b.e = true ∧ a.orec.isSome = wasHot) ∨
     (a.e.isOpen = false ∧ b.e.isOpen = true ∧ openToggles cfg a.e = true ∧ b.orec.isSome = wasHot))

/-- the event that fixed the end marked `m` -/
def MarkEv (cfg : Cfg) (x : OX) (op : OOp) (m : Mark) : Prop :=
  op.pt = m.pt ∧
  match m.kind with
  | .pathStart => ∃ pos t dx, op = .ev (.base (.insertOne pos t dx) m.pt) ∧ (newLeft cfg (erase (x.ol.take pos)) t true dx).2 = true
  | .pathStop => ∃ i a rest, op = .ev (.base (.removeOne i) m.pt) ∧ x.ol.drop i = a :: rest ∧ a.e.isOpen = true ∧ a.orec.isSome = true
  | .cutStart => IsCut cfg x op false
  | .cutStop => IsCut cfg x op true

theorem markAt_setMark_cases (id : Nat) (f : Bool) (v : Option Mark) (om : List EndMarks) (k : Nat) (f' : Bool) (m : Mark)
    (h : markAt (setMark id f v om) k f' = some m) : v = some m ∨ markAt om k f' = some m := by
  by_cases e : k = id
  · subst e
    by_cases ef : f' = f
    · subst ef
      by_cases hlt : k < om.length
      · rw [markAt_setMark_self _ _ _ _ hlt] at h; exact Or.inl h
      · right
        have : om[k]? = none := List.getElem?_eq_none (by omega)
        simp only [setMark, this] at h; exact h
    · have ef' : f' = !f := by cases f <;> cases f' <;> simp at ef ⊢
      rw [ef', markAt_setMark_other] at h; right; rw [ef']; exact h
  · rw [markAt_setMark_ne _ _ _ _ _ _ e] at h; exact Or.inr h

theorem markAt_append_cases (om : List EndMarks) (em : EndMarks) (k : Nat) (f : Bool) (m : Mark) (h : markAt (om ++ [em]) k f = some m) :
    markAt om k f = some m ∨ em.side f = some m := by
  rcases Nat.lt_or_ge k om.length with hlt | hge
  · rw [markAt_append_left _ _ _ _ hlt] at h; exact Or.inl h
  · unfold markAt at h
    rw [List.getElem?_append_right hge] at h
    rcases Nat.eq_zero_or_pos (k - om.length) with e | e
    · rw [e] at h; simp at h; exact Or.inr h
    · rw [List.getElem?_eq_none (by simp; omega)] at h; simp at h

theorem put_side_cases (f f' : Bool) (v : Option Mark) (m : Mark) (h : (EndMarks.put ⟨none, none⟩ f v).side f' = some m) : v = some m := by
  cases f <;> cases f' <;> simp [EndMarks.put, EndMarks.side] at h <;> exact h

theorem openBranch_marks (cfg : Cfg) (l : List SEdge) (io : Nat) (eo ec : SEdge) (pt : Pt) (lm : Option (Option Nat)) (oo : Out) (om : List EndMarks)
    (r : Option Rec × Out × List EndMarks) (hs : openBranch cfg l io eo ec pt lm oo om = some r) (k : Nat) (f : Bool) (m : Mark)
    (hm : markAt r.2.2 k f = some m) :
    markAt om k f = some m ∨
    (openToggles cfg ec.e = true ∧ m.pt = pt ∧ ((m.kind = .cutStop ∧ eo.orec.isSome = true) ∨ (m.kind = .cutStart ∧ eo.orec.isSome = false))) := by
  unfold openBranch at hs
  split at hs
  · next ht =>
    have start : eo.orec = none → markAt (startOpen eo.e.dx pt .cutStart oo om).2.2 k f = some m →
        markAt om k f = some m ∨ (openToggles cfg ec.e = true ∧ m.pt = pt ∧ ((m.kind = .cutStop ∧ eo.orec.isSome = true) ∨ (m.kind = .cutStart ∧ eo.orec.isSome = false))) := by
      intro hn h
      simp only [startOpen] at h
      rcases markAt_append_cases _ _ _ _ _ h with h | h
      · exact Or.inl h
      · have := put_side_cases _ _ _ _ h
        cases this
        exact Or.inr ⟨ht, rfl, Or.inr ⟨rfl, by rw [hn]; rfl⟩⟩
    split at hs
    · next k' hk' =>
      cases hs
      simp only [stopOpen] at hm
      rcases markAt_setMark_cases _ _ _ _ _ _ _ hm with h | h
      · cases h; exact Or.inr ⟨ht, rfl, Or.inl ⟨rfl, by rw [hk']; rfl⟩⟩
      · exact Or.inl h
    · next hn =>
      split at hs
      · split at hs
        · split at hs
          · split at hs
            · split at hs
              · cases hs
                rcases markAt_setMark_cases _ _ _ _ _ _ _ hm with h | h
                · cases h
                · exact Or.inl h
              · cases hs
            · cases hs; exact start hn hm
          · cases hs
        · cases hs
      · cases hs; exact start hn hm
  · cases hs; exact Or.inl hm

theorem oIntersect_marks (cfg : Cfg) (i : Nat) (pt : Pt) (lm : Option (Option Nat)) (x x' : OX) (hs : oIntersect cfg i pt lm x = some x')
    (k : Nat) (f : Bool) (m : Mark) (hm : markAt x'.om k f = some m) :
    markAt x.om k f = some m ∨ (m.pt = pt ∧ ∃ a b rest, x.ol.drop i = a :: b :: rest ∧
      ((a.e.isOpen = true ∧ b.e.isOpen = false ∧ openToggles cfg b.e = true ∧ ((m.kind = .cutStop ∧ a.orec.isSome = true) ∨ (m.kind = .cutStart ∧ a.orec.isSome = false))) ∨
       (a.e.isOpen = false ∧ b.e.isOpen = true ∧ openToggles cfg a.e = true ∧ ((m.kind = .cutStop ∧ b.orec.isSome = true) ∨ (m.kind = .cutStart ∧ b.orec.isSome = false))))) := by
  unfold oIntersect at hs
  split at hs
  · next a b rest hd =>
    simp only at hs
    split at hs
    · cases hs; exact Or.inl hm
    · next hdiff =>
      split at hs
      · next hao =>
        have hbo : b.e.isOpen = false := by cases hb' : b.e.isOpen <;> simp [hao, hb'] at hdiff ⊢
        split at hs
        · next r hr =>
          cases hs
          rcases openBranch_marks cfg _ _ _ _ _ _ _ _ r hr k f m hm with h | ⟨h1, h2, h3⟩
          · exact Or.inl h
          · exact Or.inr ⟨h2, a, b, rest, hd, Or.inl ⟨hao, hbo, h1, h3⟩⟩
        · cases hs
      · next hao =>
        have hao' : a.e.isOpen = false := by cases ha' : a.e.isOpen <;> simp [ha'] at hao ⊢
        have hbo : b.e.isOpen = true := by cases hb' : b.e.isOpen <;> simp [hao', hb'] at hdiff ⊢
        split at hs
        · next r hr =>
          cases hs
          rcases openBranch_marks cfg _ _ _ _ _ _ _ _ r hr k f m hm with h | ⟨h1, h2, h3⟩
          · exact Or.inl h
          · exact Or.inr ⟨h2, a, b, rest, hd, Or.inr ⟨hao', hbo, h1, h3⟩⟩
        · cases hs
  · cases hs

theorem markEv_of_intersect (cfg : Cfg) (x : OX) (op : OOp) (i : Nat) (pt : Pt) (he : op.erase = .base (.intersect i) pt) (hp : op.pt = pt) (m : Mark)
    (h : m.pt = pt ∧ ∃ a b rest, x.ol.drop i = a :: b :: rest ∧
      ((a.e.isOpen = true ∧ b.e.isOpen = false ∧ openToggles cfg b.e = true ∧ ((m.kind = .cutStop ∧ a.orec.isSome = true) ∨ (m.kind = .cutStart ∧ a.orec.isSome = false))) ∨
       (a.e.isOpen = false ∧ b.e.isOpen = true ∧ openToggles cfg a.e = true ∧ ((m.kind = .cutStop ∧ b.orec.isSome = true) ∨ (m.kind = .cutStart ∧ b.orec.isSome = false))))) :
    MarkEv cfg x op m := by
  obtain ⟨h1, a, b, rest, hd, hc⟩ := h
  refine ⟨by rw [hp, h1], ?_⟩
  have he' : op.erase = .base (.intersect i) op.pt := by rw [hp]; exact he
  rcases hc with ⟨ha, hb, ht, (⟨hk, hh⟩ | ⟨hk, hh⟩)⟩ | ⟨ha, hb, ht, (⟨hk, hh⟩ | ⟨hk, hh⟩)⟩
  · rw [hk]; exact ⟨i, he', a, b, rest, hd, Or.inl ⟨ha, hb, ht, hh⟩⟩
  · rw [hk]; exact ⟨i, he', a, b, rest, hd, Or.inl ⟨ha, hb, ht, hh⟩⟩
  · rw [hk]; exact ⟨i, he', a, b, rest, hd, Or.inr ⟨ha, hb, ht, hh⟩⟩
  · rw [hk]; exact ⟨i, he', a, b, rest, hd, Or.inr ⟨ha, hb, ht, hh⟩⟩

/-- every mark present after an event was present before (possibly on another record: `JoinOutrecPaths` hands it on) or was made by this event -/
theorem mark_step (cfg : Cfg) (x x' : OX) (op : OOp) (hs : openStep cfg x op = some x') (k : Nat) (f : Bool) (m : Mark) (hm : markAt x'.om k f = some m) :
    (∃ k' f', markAt x.om k' f' = some m) ∨ MarkEv cfg x op m := by
  cases op with
  | locMinX i p e3 =>
    rcases oIntersect_marks cfg i p _ x x' hs k f m hm with h | h
    · exact Or.inl ⟨k, f, h⟩
    · exact Or.inr (markEv_of_intersect cfg x _ i p rfl rfl m h)
  | ev o =>
    cases o with
    | join i p => simp only [openStep] at hs; cases hs; exact Or.inl ⟨k, f, hm⟩
    | split i p => simp only [openStep] at hs; cases hs; exact Or.inl ⟨k, f, hm⟩
    | update i p =>
      simp only [openStep, oUpdate] at hs
      split at hs
      · split at hs
        · split at hs <;> cases hs <;> exact Or.inl ⟨k, f, hm⟩
        · cases hs; exact Or.inl ⟨k, f, hm⟩
      · cases hs
    | base b p =>
      cases b with
      | intersect i =>
        rcases oIntersect_marks cfg i p _ x x' hs k f m hm with h | h
        · exact Or.inl ⟨k, f, h⟩
        · exact Or.inr (markEv_of_intersect cfg x _ i p rfl rfl m h)
      | insertPair pos t isOpen dx =>
        simp only [openStep, oInsertPair] at hs
        split at hs
        · split at hs
          · cases hs
            rcases markAt_append_cases _ _ _ _ _ hm with h | h
            · exact Or.inl ⟨k, f, h⟩
            · cases f <;> simp [EndMarks.side] at h
          · cases hs; exact Or.inl ⟨k, f, hm⟩
        · cases hs
      | insertOne pos t dx =>
        simp only [openStep, oInsertOne] at hs
        split at hs
        · split at hs
          · next hr2 =>
            cases hs
            simp only [startOpen] at hm
            rcases markAt_append_cases _ _ _ _ _ hm with h | h
            · exact Or.inl ⟨k, f, h⟩
            · have := put_side_cases _ _ _ _ h
              cases this
              exact Or.inr ⟨rfl, pos, t, dx, rfl, hr2⟩
          · cases hs; exact Or.inl ⟨k, f, hm⟩
        · cases hs
      | removePair i =>
        simp only [openStep, oRemovePair] at hs
        split at hs
        · split at hs
          · split at hs
            · split at hs
              · cases hs; exact Or.inl ⟨k, f, hm⟩
              · split at hs
                · cases hs; exact Or.inl ⟨k, f, hm⟩
                · split at hs
                  · cases hs
                  · cases hs
                    rcases markAt_setMark_cases _ _ _ _ _ _ _ hm with h | h
                    · exact Or.inl ⟨_, _, h⟩
                    · exact Or.inl ⟨k, f, h⟩
              · cases hs; exact Or.inl ⟨k, f, hm⟩
            · cases hs; exact Or.inl ⟨k, f, hm⟩
          · cases hs
        · cases hs
      | removeOne i =>
        simp only [openStep, oRemoveOne] at hs
        split at hs
        · next a rest hd =>
          split at hs
          · next hao =>
            split at hs
            · next k' hk' =>
              cases hs
              simp only [stopOpen] at hm
              rcases markAt_setMark_cases _ _ _ _ _ _ _ hm with h | h
              · cases h
                exact Or.inr ⟨rfl, i, a, rest, rfl, hd, hao, by rw [hk']; rfl⟩
              · exact Or.inl ⟨k, f, h⟩
            · cases hs; exact Or.inl ⟨k, f, hm⟩
          · cases hs
        · cases hs

/-! ## `BuildPath64` on open records -/

theorem linPairs_cons_cons' (a b : Pt) (t : List Pt) : linPairs (a :: b :: t) = (a, b) :: linPairs (b :: t) := by simp [linPairs]

/-- what `dedupFrom` keeps after `last`: every consecutive pair of `last :: dedupFrom last l` is a consecutive pair of `last :: l`, with different points -/
theorem dedupFrom_pairs (l : List Pt) : ∀ (last : Pt) (pq : Pt × Pt), pq ∈ linPairs (last :: dedupFrom last l) → pq ∈ linPairs (last :: l) ∧ pq.1 ≠ pq.2 := by
  induction l with
  | nil => intro last pq h; simp [dedupFrom, linPairs] at h
  | cons p ps ih =>
    intro last pq h
    simp only [dedupFrom] at h
    split at h
    · next e =>
      subst e
      have := ih p pq h
      refine ⟨?_, this.2⟩
      rw [linPairs_cons_cons']
      exact List.mem_cons_of_mem _ this.1
    · next ne =>
      rw [linPairs_cons_cons'] at h ⊢
      rcases List.mem_cons.mp h with rfl | h
      · exact ⟨List.mem_cons_self, fun e => ne e.symm⟩
      · have := ih p pq h
        exact ⟨List.mem_cons_of_mem _ this.1, this.2⟩

theorem dedup_pairs (l : List Pt) (pq : Pt × Pt) (h : pq ∈ linPairs (dedup l)) : pq ∈ linPairs l ∧ pq.1 ≠ pq.2 := by
  cases l with
  | nil => simp [dedup, linPairs] at h
  | cons p ps => exact dedupFrom_pairs ps p pq h

theorem dedupFrom_mem (l : List Pt) : ∀ (last : Pt) (p : Pt), p ∈ dedupFrom last l → p ∈ l := by
  induction l with
  | nil => intro last p h; simp [dedupFrom] at h
  | cons q qs ih =>
    intro last p h
    simp only [dedupFrom] at h
    split at h
    · exact List.mem_cons_of_mem _ (ih _ p h)
    · rcases List.mem_cons.mp h with rfl | h
      · exact List.mem_cons_self
      · exact List.mem_cons_of_mem _ (ih _ p h)

theorem dedup_mem (l : List Pt) (p : Pt) (h : p ∈ dedup l) : p ∈ l := by
  cases l with
  | nil => simp [dedup] at h
  | cons q qs =>
    simp only [dedup] at h
    rcases List.mem_cons.mp h with rfl | h
    · exact List.mem_cons_self
    · exact List.mem_cons_of_mem _ (dedupFrom_mem qs q p h)

theorem dedup_head (l : List Pt) : (dedup l).head? = l.head? := by cases l <;> simp [dedup]

/-- the last point survives: `dedupFrom` drops a point only when it equals the last one kept -/
theorem dedupFrom_getLast (l : List Pt) : ∀ (last : Pt), (last :: dedupFrom last l).getLast? = (last :: l).getLast? := by
  induction l with
  | nil => intro last; simp [dedupFrom]
  | cons p ps ih =>
    intro last
    simp only [dedupFrom]
    split
    · next e =>
      subst e
      rw [ih p]
      simp [List.getLast?_cons_cons]
    · rw [List.getLast?_cons_cons, ih p, List.getLast?_cons_cons]

theorem dedup_getLast (l : List Pt) : (dedup l).getLast? = l.getLast? := by
  cases l with
  | nil => simp [dedup]
  | cons p ps => exact dedupFrom_getLast ps p

theorem mem_linPairs_reverse (l : List Pt) (p q : Pt) : (p, q) ∈ linPairs l.reverse ↔ (q, p) ∈ linPairs l := by
  induction l with
  | nil => simp [linPairs]
  | cons a t ih =>
    rw [List.reverse_cons, mem_linPairs_append]
    cases t with
    | nil => simp [linPairs]
    | cons b t' =>
      rw [linPairs_cons_cons', List.mem_cons, ih]
      constructor
      · rintro (h | h | ⟨x, y, h1, h2, h3⟩)
        · right; exact h
        · simp [linPairs] at h
        · left
          simp only [List.head?_cons, Option.some.injEq] at h2
          have hb : b = x := by simpa using h1
          cases h3; rw [hb, h2]
      · rintro (h | h)
        · right; right
          cases h
          exact ⟨p, q, by simp, by simp, rfl⟩
        · left; exact h

end Clipper.Model
