/-
Helper lemmas for `Props/C01Crown.lean`, part 8: the winding number of the OUTPUT PATHS (the finished rings read as `BuildPath64` reads them for
`ReverseSolution = false`, i.e. reversed) around the rational probe is minus the ray sum `phi` of the output side, once no ring is under
construction any more.  Core Lean only.
-/
import ClipperVerif.Lemmas.C01CrownFinal
namespace Clipper.Lemmas.C01Crown
open Clipper Clipper.Model Clipper.Model.SweepPoints Clipper.Lemmas.C01Output

theorem lin_map (c : Pt → Pt → Int) (f : Pt → Pt) : ∀ (l : List Pt), lin c (l.map f) = lin (fun a b => c (f a) (f b)) l := by
  intro l
  induction l with
  | nil => rfl
  | cons a t ih =>
    cases t with
    | nil => rfl
    | cons b t' =>
      simp only [List.map_cons, lin] at ih ⊢
      rw [ih]

theorem seam_map (c : Pt → Pt → Int) (f : Pt → Pt) (l1 l2 : List Pt) :
    seam c (l1.map f) (l2.map f) = seam (fun a b => c (f a) (f b)) l1 l2 := by
  unfold seam
  rw [List.getLast?_map, List.head?_map]
  cases l1.getLast? <;> cases l2.head? <;> rfl

theorem cyc_map (c : Pt → Pt → Int) (f : Pt → Pt) (l : List Pt) : cyc c (l.map f) = cyc (fun a b => c (f a) (f b)) l := by
  unfold cyc; rw [lin_map, seam_map]

/-- the winding number of one output path, scaled by `yd`, around the probe -/
theorem windPath_output (D xn yn yd : Int) (pts : List Pt) :
    windPath (pts.reverse.map (Pt.scale yd)) (probePt D xn yn) = -cyc (crQ D xn yn yd) pts := by
  rw [windPath_eq_cyc, cyc_map]
  exact cyc_reverse (crQ_wt D xn yn yd) pts

/-- the winding number of the output paths = minus the ray sum of the finished rings -/
theorem wind_rings (D xn yn yd : Int) : ∀ (rings : List Ring), (∀ g ∈ rings, g.stat = .done ∨ g.pts = []) →
    wind ((((rings.filter (fun g => g.stat == .done)).map (·.pts)).map List.reverse).map (fun p => p.map (Pt.scale yd))) (probePt D xn yn) =
      -((rings.map (val (crQ D xn yn yd))).sum) := by
  intro rings
  induction rings with
  | nil => intro _; rfl
  | cons g t ih =>
    intro h
    have iht := ih (fun x hx => h x (by simp [hx]))
    simp only [wind] at iht ⊢
    rcases h g (by simp) with hd | he
    · have : (g.stat == RStat.done) = true := by simp [hd]
      simp only [List.filter_cons, this, if_true, List.map_cons, List.sum_cons, windPath_output]
      rw [iht]
      simp only [val, hd, if_true]
      omega
    · by_cases hd : g.stat = .done
      · have : (g.stat == RStat.done) = true := by simp [hd]
        simp only [List.filter_cons, this, if_true, List.map_cons, List.sum_cons, windPath_output]
        rw [iht]
        simp only [val, hd, if_true]
        omega
      · have : (g.stat == RStat.done) = false := by simp [hd]
        simp only [List.filter_cons, this, Bool.false_eq_true, if_false, List.map_cons, List.sum_cons]
        rw [iht]
        simp only [val, hd, if_false, he, lin]
        omega

theorem wind_output (D xn yn yd : Int) (rs : RState) (h : ∀ g ∈ rs.o.rings, g.stat = .done ∨ g.pts = []) :
    wind ((outputPaths rs).map (fun p => p.map (Pt.scale yd))) (probePt D xn yn) = -phi (crQ D xn yn yd) rs.o :=
  wind_rings D xn yn yd rs.o.rings h

end Clipper.Lemmas.C01Crown
