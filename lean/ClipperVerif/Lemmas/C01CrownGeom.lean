/-
Helper lemmas for `Props/C01Crown.lean`, part 5: THE PROBE.  `Spec.crossing` around the rational point `(xn/yd, yn/yd)`, for points given in
coordinates scaled by `D` (the exact output rings), is a `Probe`: in coordinates scaled once more by `yd` the probe is the integer point
`(D·xn, D·yn)`; a point `p` is below the probe's scanline iff `lv ≤ p.y` for `lv = ⌊D·yn / yd⌋ + 1`; two points of one input edge on
different sides of the scanline have the crossing number of the whole edge (collinearity), which is `−1` if the edge passes strictly RIGHT of
the probe (a side running upwards, towards smaller y) and `0` if it passes left.  Core Lean only.
-/
import ClipperVerif.Lemmas.C01CrownRun
import ClipperVerif.Props.C13Spec
namespace Clipper.Lemmas.C01Crown
open Clipper Clipper.Model Clipper.Model.AelOrder Clipper.Model.SweepOrder Clipper.Model.SweepEvents Clipper.Model.SweepPoints
open Clipper.Lemmas.C01Output

/-- the probe point in coordinates scaled by `D·yd` -/
def probePt (D xn yn : Int) : Pt := ⟨D * xn, D * yn⟩

/-- `Spec.crossing` of the segment `a → b` (coordinates scaled by `D`) around the rational probe `(xn/yd, yn/yd)` -/
def crQ (D xn yn yd : Int) (a b : Pt) : Int := crossing (probePt D xn yn) (Pt.scale yd a) (Pt.scale yd b)

/-- the least height (in coordinates scaled by `D`) strictly below the probe's scanline -/
def levelOf (D yn yd : Int) : Int := D * yn / yd + 1

/-- the crossing number of the whole input edge, read from `bot` to `top` -/
def edgeK (D xn yn yd : Int) (e : GEdge) : Int := crQ D xn yn yd (Pt.scale D e.bot) (Pt.scale D e.top)

theorem level_iff (D yn yd : Int) (hd : 0 < yd) (y : Int) : levelOf D yn yd ≤ y ↔ D * yn < y * yd := by
  unfold levelOf
  rw [Int.add_one_le_iff, Int.ediv_lt_iff_lt_mul hd]

theorem crQ_wt (D xn yn yd : Int) : Wt (crQ D xn yn yd) :=
  ⟨fun _ => Clipper.Props.C13Spec.crossing_self _ _, fun _ _ => Clipper.Props.C13Spec.crossing_swap _ _ _⟩

theorem crQ_same (D xn yn yd : Int) (hd : 0 < yd) (a b : Pt) (h : levelOf D yn yd ≤ a.y ↔ levelOf D yn yd ≤ b.y) :
    crQ D xn yn yd a b = 0 := by
  rw [level_iff D yn yd hd, level_iff D yn yd hd] at h
  unfold crQ crossing probePt Pt.scale
  simp only
  have e1 : yd * a.y = a.y * yd := Int.mul_comm _ _
  have e2 : yd * b.y = b.y * yd := Int.mul_comm _ _
  rw [e1, e2]
  generalize a.y * yd = A at *
  generalize b.y * yd = B at *
  generalize D * yn = Y at *
  split
  · omega
  · split
    · omega
    · rfl

/-- collinear points: `a`, `b` on the line `B T` -/
theorem cross_collinear (B T a b P : Pt) (ha : cross B T a = 0) (hb : cross B T b = 0) :
    (T.y - B.y) * cross a b P = (b.y - a.y) * cross B T P := by
  have key : (T.y - B.y) * cross a b P =
      (b.y - a.y) * cross B T P - (b.y - a.y) * cross B T a - (cross B T b - cross B T a) * (P.y - a.y) := by
    simp only [cross]; grind
  rw [key, ha, hb]; simp

theorem cross_scale3 (k : Int) (X Y Z : Pt) : cross (Pt.scale k X) (Pt.scale k Y) (Pt.scale k Z) = k * k * cross X Y Z := by
  simp only [cross, Pt.scale]; grind

theorem neg_iff_of_mul_eq {u v X Z : Int} (hu : u < 0) (hv : v < 0) (h : u * X = v * Z) : X < 0 ↔ Z < 0 := by
  constructor
  · intro hx
    apply Int.not_le.1
    intro hz
    have h1 : 0 < u * X := Int.mul_pos_of_neg_of_neg hu hx
    have h2 : v * Z ≤ 0 := Int.mul_nonpos_of_nonpos_of_nonneg (Int.le_of_lt hv) hz
    omega
  · intro hz
    apply Int.not_le.1
    intro hx
    have h1 : 0 < v * Z := Int.mul_pos_of_neg_of_neg hv hz
    have h2 : u * X ≤ 0 := Int.mul_nonpos_of_nonpos_of_nonneg (Int.le_of_lt hu) hx
    omega

/-- two points of one input edge on different sides of the probe's scanline: the crossing number of the edge -/
theorem crQ_edge (D xn yn yd : Int) (hD : 0 < D) (hd : 0 < yd) (e : GEdge) (hu : e.Up) (a b : Pt) (ha : OnE D e a) (hb : OnE D e b)
    (hla : levelOf D yn yd ≤ a.y) (hlb : ¬ levelOf D yn yd ≤ b.y) : crQ D xn yn yd a b = edgeK D xn yn yd e := by
  rw [level_iff D yn yd hd] at hla hlb
  obtain ⟨ca, a1, a2⟩ := ha
  obtain ⟨cb, b1, b2⟩ := hb
  -- the end points of the edge are on the same sides
  have hbot : D * yn < (D * e.bot.y) * yd := by
    have := Int.mul_le_mul_of_nonneg_right a2 (Int.le_of_lt hd); omega
  have htop : ¬ D * yn < (D * e.top.y) * yd := by
    have := Int.mul_le_mul_of_nonneg_right b1 (Int.le_of_lt hd); omega
  have hcol := cross_collinear (Pt.scale yd (Pt.scale D e.bot)) (Pt.scale yd (Pt.scale D e.top)) (Pt.scale yd a) (Pt.scale yd b)
    (probePt D xn yn) (by rw [cross_scale3, ca]; simp) (by rw [cross_scale3, cb]; simp)
  have hneg1 : (Pt.scale yd (Pt.scale D e.top)).y - (Pt.scale yd (Pt.scale D e.bot)).y < 0 := by
    simp only [Pt.scale]
    have h1 : D * e.top.y < D * e.bot.y := Int.mul_lt_mul_of_pos_left hu hD
    have h2 := Int.mul_lt_mul_of_pos_left h1 hd
    omega
  have hneg2 : (Pt.scale yd b).y - (Pt.scale yd a).y < 0 := by
    simp only [Pt.scale]
    have e1 : yd * a.y = a.y * yd := Int.mul_comm _ _
    have e2 : yd * b.y = b.y * yd := Int.mul_comm _ _
    omega
  have hsign := neg_iff_of_mul_eq hneg1 hneg2 hcol
  unfold edgeK crQ crossing
  have ea : (Pt.scale yd a).y = a.y * yd := by simp [Pt.scale, Int.mul_comm]
  have eb : (Pt.scale yd b).y = b.y * yd := by simp [Pt.scale, Int.mul_comm]
  have eB : (Pt.scale yd (Pt.scale D e.bot)).y = (D * e.bot.y) * yd := by simp [Pt.scale, Int.mul_comm]
  have eT : (Pt.scale yd (Pt.scale D e.top)).y = (D * e.top.y) * yd := by simp [Pt.scale, Int.mul_comm]
  have eP : (probePt D xn yn).y = D * yn := rfl
  rw [ea, eb, eB, eT, eP]
  have n1 : ¬ (a.y * yd ≤ D * yn ∧ D * yn < b.y * yd) := by omega
  have n2 : (b.y * yd ≤ D * yn ∧ D * yn < a.y * yd) := by omega
  have n3 : ¬ (D * e.bot.y * yd ≤ D * yn ∧ D * yn < D * e.top.y * yd) := by omega
  have n4 : (D * e.top.y * yd ≤ D * yn ∧ D * yn < D * e.bot.y * yd) := by omega
  simp only [n1, n2, n3, n4, if_false, and_self, if_true]
  by_cases hc : cross (Pt.scale yd a) (Pt.scale yd b) (probePt D xn yn) < 0
  · simp only [hc, hsign.1 hc, if_true]
  · have : ¬ cross (Pt.scale yd (Pt.scale D e.bot)) (Pt.scale yd (Pt.scale D e.top)) (probePt D xn yn) < 0 := fun h => hc (hsign.2 h)
    simp only [hc, this, if_false]

/-- **the probe**: `Spec.crossing` around `(xn/yd, yn/yd)`, for input edges that are not horizontal -/
theorem probe_crQ (D xn yn yd : Int) (hD : 0 < D) (hd : 0 < yd) (edges : List GEdge) (hup : AllUp edges) :
    Probe D (· ∈ edges) (crQ D xn yn yd) (levelOf D yn yd) (edgeK D xn yn yd) :=
  ⟨crQ_wt D xn yn yd, crQ_same D xn yn yd hd, fun e a b he ha hb hla hlb => crQ_edge D xn yn yd hD hd e (hup e he) a b ha hb hla hlb⟩

/-- **the crossing number of an input edge that crosses the probe's scanline**: `−1` if it passes strictly right of the probe, `0` if left -/
theorem edgeK_eq (D xn yn yd : Int) (hD : 0 < D) (hd : 0 < yd) (e : GEdge) (hal : aliveAt e yn yd) (hoff : ¬ onEdgeLine e xn yn yd) :
    edgeK D xn yn yd e = if leftOfPt e xn yn yd then 0 else -1 := by
  unfold aliveAt at hal
  have hc : cross (Pt.scale yd (Pt.scale D e.bot)) (Pt.scale yd (Pt.scale D e.top)) (probePt D xn yn) =
      (yd * D * D) * (xn * exD e - xNum e.bot e.top yn yd) := by
    simp only [cross, Pt.scale, probePt, xNum, exD]; grind
  have hpos : 0 < yd * D * D := Int.mul_pos (Int.mul_pos hd hD) hD
  have hs := Clipper.WindSpec.sign_mul (e := xn * exD e - xNum e.bot e.top yn yd) hpos
  unfold edgeK crQ crossing
  have eB : (Pt.scale yd (Pt.scale D e.bot)).y = D * (e.bot.y * yd) := by simp only [Pt.scale]; grind
  have eT : (Pt.scale yd (Pt.scale D e.top)).y = D * (e.top.y * yd) := by simp only [Pt.scale]; grind
  have eP : (probePt D xn yn).y = D * yn := rfl
  have l1 : D * (e.top.y * yd) < D * yn := Int.mul_lt_mul_of_pos_left hal.1 hD
  have l2 : D * yn < D * (e.bot.y * yd) := Int.mul_lt_mul_of_pos_left hal.2 hD
  rw [eB, eT, eP, hc]
  have n3 : ¬ (D * (e.bot.y * yd) ≤ D * yn ∧ D * yn < D * (e.top.y * yd)) := by omega
  have n4 : (D * (e.top.y * yd) ≤ D * yn ∧ D * yn < D * (e.bot.y * yd)) := by omega
  clear hc
  simp only [n3, n4, if_false, leftOfPt, and_self, if_true]
  unfold onEdgeLine at hoff
  generalize yd * D * D * (xn * exD e - xNum e.bot e.top yn yd) = Z at hs ⊢
  by_cases h1 : xNum e.bot e.top yn yd < xn * exD e
  · have : ¬ Z < 0 := by omega
    simp [h1, this]
  · have : Z < 0 := by omega
    simp [h1, this]

end Clipper.Lemmas.C01Crown
