/-
`tree_paths_perm`: `BuildPaths64` as two `filterMap`s over the outrec table, the closed-world hypothesis,
and the proof that the flattened tree is a permutation of the closed solution paths and the open paths are identical.
-/
import ClipperVerif.Lemmas.OwnerBuild
import ClipperVerif.Lemmas.OwnerClosed
namespace Clipper.Model.Owner
open Clipper

/-! ### `buildPaths` is a pair of `filterMap`s -/

/-- the closed path outrec `i` contributes to `BuildPaths64` -/
def closedPathOf (clean : Nat → CleanRes) (T : Table) (i : Nat) : Option Path :=
  match T[i]? with
  | none => none
  | some r =>
    if !r.hasPts then none
    else if r.isOpen then none
    else match clean i with
      | .path p => some p
      | _ => none

/-- the open path outrec `i` contributes to `BuildPaths64` / `BuildTree64` -/
def openPathOf (openPath : Nat → Option Path) (T : Table) (i : Nat) : Option Path :=
  match T[i]? with
  | none => none
  | some r => if !r.hasPts then none else if r.isOpen then openPath i else none

/-- loop body of `BuildPaths64` -/
def bpStep (clean : Nat → CleanRes) (openPath : Nat → Option Path) (T : Table)
    (acc : List Path × List Path) (i : Nat) : List Path × List Path :=
  match T[i]? with
  | none => acc
  | some r =>
    if !r.hasPts then acc
    else if r.isOpen then
      match openPath i with
      | some p => (acc.1, acc.2 ++ [p])
      | none => acc
    else match clean i with
      | .path p => (acc.1 ++ [p], acc.2)
      | _ => acc

theorem buildPaths_eq_fold (clean : Nat → CleanRes) (openPath : Nat → Option Path) (T : Table) :
    buildPaths clean openPath T = (List.range T.size).foldl (bpStep clean openPath T) ([], []) := rfl

theorem bpStep_eq (clean : Nat → CleanRes) (openPath : Nat → Option Path) (T : Table)
    (acc : List Path × List Path) (i : Nat) :
    bpStep clean openPath T acc i =
      (acc.1 ++ (closedPathOf clean T i).toList, acc.2 ++ (openPathOf openPath T i).toList) := by
  unfold bpStep closedPathOf openPathOf
  cases T[i]? with
  | none => simp
  | some r =>
    simp only
    cases r.hasPts with
    | false => simp
    | true =>
      cases r.isOpen with
      | true => cases openPath i <;> simp
      | false => cases clean i <;> simp

theorem bp_fold (clean : Nat → CleanRes) (openPath : Nat → Option Path) (T : Table) :
    ∀ (l : List Nat) (acc : List Path × List Path),
      l.foldl (bpStep clean openPath T) acc =
        (acc.1 ++ l.filterMap (closedPathOf clean T), acc.2 ++ l.filterMap (openPathOf openPath T)) := by
  intro l
  induction l with
  | nil => intro acc; simp
  | cons a l ih =>
    intro acc
    rw [List.foldl_cons, ih, bpStep_eq]
    simp only [List.filterMap_cons, List.append_assoc]
    cases closedPathOf clean T a <;> cases openPathOf openPath T a <;> simp

/-- `BuildPaths64` selects, in outrec order, `clean i` of the live closed outrecs and `openPath i` of the live open ones -/
theorem buildPaths_eq (clean : Nat → CleanRes) (openPath : Nat → Option Path) (T : Table) :
    buildPaths clean openPath T =
      ((List.range T.size).filterMap (closedPathOf clean T), (List.range T.size).filterMap (openPathOf openPath T)) := by
  rw [buildPaths_eq_fold, bp_fold]; simp

/-! ### the closed-world hypothesis (H2) -/

/-- index `k` names a closed outrec of `T` -/
def IsClosedIn (T : Table) (k : Nat) : Prop := ∃ r : OutRec, T[k]? = some r ∧ r.isOpen = false

/-- (H2) `owner` and every entry of `splits` of a closed outrec name closed outrecs of the table -/
def ClosedWorld (T : Table) : Prop :=
  ∀ (j : Nat) (r : OutRec), T[j]? = some r → r.isOpen = false →
    (∀ o : Nat, r.owner = some o → IsClosedIn T o) ∧ (∀ s ∈ r.splits, IsClosedIn T s)

theorem ClosedWorld.ownC {T : Table} (h : ClosedWorld T) : OwnC (IsClosedIn T) T := by
  intro j r hj ⟨r', hr', hcl⟩
  rw [hj] at hr'
  simp only [Option.some.injEq] at hr'
  subst hr'
  exact h j r hj hcl

/-! ### the outer loop -/

/-- second invariant of the outer loop of `BuildTree64` (with `C` = the closed outrecs of the initial table) -/
def LoopX (openPath : Nat → Option Path) (T : Table) (done : List Nat) (S : St) : Prop :=
  NonC (IsClosedIn T) T S.recs ∧ OwnC (IsClosedIn T) S.recs ∧ PlacedC (IsClosedIn T) S.recs ∧
  S.openPaths = done.filterMap (openPathOf openPath T)

theorem LoopX.init {openPath : Nat → Option Path} {T : Table} (hF : Fresh T) (hC : ClosedWorld T) :
    LoopX openPath T [] { recs := T } := by
  refine ⟨fun _ _ => rfl, hC.ownC, fun c r hc hp => ?_, rfl⟩
  rw [(hF c r hc).1] at hp
  simp at hp

theorem LoopX.step {clean : Nat → CleanRes} {inside : Nat → Nat → Bool} {openPath : Nat → Option Path}
    {fuel : Nat} {T : Table} {done : List Nat} {S S' : St} {i : Nat}
    (h : buildTreeStep clean inside openPath fuel S i = some S')
    (hFr : RFrame clean { recs := T } S) (hx : LoopX openPath T done S) :
    LoopX openPath T (done ++ [i]) S' := by
  obtain ⟨hN, hC, hP, hO⟩ := hx
  unfold buildTreeStep at h
  split at h
  · simp at h
  · rename_i r hr
    -- the record of the initial table
    have hlt : i < T.size := by
      have h1 := getElem?_lt hr
      have h2 : S.recs.size = T.size := hFr.1
      omega
    have hT : T[i]? = some T[i] := by simp [hlt]
    obtain ⟨r1, hr1, rs, _⟩ := hFr.2 i T[i] hT
    rw [hr] at hr1
    simp only [Option.some.injEq] at hr1
    subst hr1
    have hopen : r.isOpen = T[i].isOpen := rs.isOpen
    -- an open outrec was never touched
    have huntouched : r.isOpen = true → r = T[i] := by
      intro ho
      have hnc : ¬ IsClosedIn T i := by
        intro ⟨r0, hr0, hcl⟩
        rw [hT] at hr0
        simp only [Option.some.injEq] at hr0
        subst hr0
        rw [← hopen, ho] at hcl
        simp at hcl
      have := hN i hnc
      rw [hr, hT] at this
      simpa using this
    have hfm : ∀ (q : Option Path), openPathOf openPath T i = q →
        (done ++ [i]).filterMap (openPathOf openPath T) = done.filterMap (openPathOf openPath T) ++ q.toList := by
      intro q hq
      rw [List.filterMap_append]
      simp only [List.filterMap_cons, List.filterMap_nil, hq]
      cases q <;> rfl
    split at h
    · -- no points
      rename_i hpts
      simp only [Option.some.injEq] at h
      subst h
      refine ⟨hN, hC, hP, ?_⟩
      rw [hfm none ?_, hO]; · simp
      unfold openPathOf
      rw [hT]
      simp only
      cases ho : r.isOpen with
      | true =>
        have := huntouched ho
        subst this
        simp only [hpts, if_true]
      | false =>
        rw [← hopen, ho]
        simp
    · rename_i hpts
      simp only [Bool.not_eq_true', Bool.not_eq_false] at hpts
      split at h
      · -- open outrec with points
        rename_i ho
        have hrT := huntouched ho
        have hq : openPathOf openPath T i = openPath i := by
          unfold openPathOf
          rw [hT]
          simp only [← hrT, hpts, ho, Bool.not_true, Bool.false_eq_true, if_false, if_true]
        split at h
        · rename_i p hp
          simp only [Option.some.injEq] at h
          subst h
          refine ⟨hN, hC, hP, ?_⟩
          rw [hfm (some p) (hq.trans hp), hO]
          rfl
        · rename_i hp
          simp only [Option.some.injEq] at h
          subst h
          refine ⟨hN, hC, hP, ?_⟩
          rw [hfm none (hq.trans hp), hO]
          simp
      · -- closed outrec with points
        rename_i ho
        simp only [Bool.not_eq_true] at ho
        have hCi : IsClosedIn T i := ⟨T[i], hT, hopen ▸ ho⟩
        have hq : openPathOf openPath T i = none := by
          unfold openPathOf
          rw [hT]
          simp only [← hopen, ho, Bool.false_eq_true, if_false]
          split <;> rfl
        cases hcb : checkBounds clean S.recs i with
        | none => simp [hcb] at h
        | some q =>
          obtain ⟨T1, b⟩ := q
          rw [hcb] at h
          obtain ⟨⟨hn1, _⟩, hC1⟩ := checkBounds_x (i := i) hcb hC hCi
          have hP1 : PlacedC (IsClosedIn T) T1 := hP.step (checkBounds_good hcb).1
          have hN1 : NonC (IsClosedIn T) T T1 := fun j hj => (hn1 j hj).trans (hN j hj)
          cases b with
          | false =>
            simp only [Option.some.injEq] at h
            subst h
            refine ⟨hN1, hC1, hP1, ?_⟩
            show S.openPaths = _
            rw [hfm none hq, hO]
            simp
          | true =>
            simp only at h
            obtain ⟨a, b, c, d⟩ := rco_x _ _ _ _ h hCi hC1 hP1
            refine ⟨fun j hj => (a j hj).trans (hN1 j hj), b, c, ?_⟩
            rw [d, hfm none hq]
            show S.openPaths = _
            rw [hO]
            simp

/-- both invariants of the outer loop -/
theorem buildTree_loopInvX {clean : Nat → CleanRes} {inside : Nat → Nat → Bool} {openPath : Nat → Option Path}
    {fuel : Nat} {T : Table} {S : St} (hF : Fresh T) (hA : Acyclic T) (hC : ClosedWorld T)
    (h : buildTree clean inside openPath fuel T = some S) :
    LoopInv clean inside T (List.range T.size) S ∧ LoopX openPath T (List.range T.size) S := by
  unfold buildTree at h
  have := foldlM_inv_list (I := fun done S => LoopInv clean inside T done S ∧ LoopX openPath T done S)
    (f := fun S i => buildTreeStep clean inside openPath fuel S i)
    (fun done S0 i S1 hstep hI => ⟨LoopInv.step hstep hI.1, LoopX.step hstep hI.1.2.1 hI.2⟩)
    (List.range T.size) [] _ _ h ⟨LoopInv.init hF hA, LoopX.init hF hC⟩
  simpa using this

/-- the placed outrecs are exactly the contributors of closed paths to `BuildPaths64` -/
theorem placedPaths_eq_closed {clean : Nat → CleanRes} {inside : Nat → Nat → Bool} {openPath : Nat → Option Path}
    {T : Table} {S : St}
    (H1 : ∀ (i : Nat) (r : OutRec) (p : Path), T[i]? = some r → r.isOpen = false → r.hasPts = true →
      clean i = .path p → (getBounds p).isEmpty = false)
    (hI : LoopInv clean inside T (List.range T.size) S) (hX : LoopX openPath T (List.range T.size) S) :
    placedPaths S.recs = (List.range T.size).filterMap (closedPathOf clean T) := by
  obtain ⟨⟨_, hB, hT⟩, hFr, _, hdone⟩ := hI
  obtain ⟨_, _, hP, _⟩ := hX
  unfold placedPaths
  have hsz : S.recs.size = T.size := hFr.1
  rw [hsz]
  apply filterMap_range_congr
  intro j hj
  have hTj : T[j]? = some T[j] := by simp [hj]
  obtain ⟨r', hr', rs, _⟩ := hFr.2 j T[j] hTj
  unfold placedPath closedPathOf
  rw [hr', hTj]
  simp only
  cases hp : r'.polypath with
  | some a =>
    obtain ⟨_, hne, _⟩ := hT j r' a hr' hp
    obtain ⟨b1, b2, _⟩ := hB j r' hr' hne
    obtain ⟨r0, hr0, hcl⟩ := hP j r' hr' (by simp [hp])
    rw [hTj] at hr0
    simp only [Option.some.injEq] at hr0
    subst hr0
    simp [rs.hasPts_mono b1, hcl, b2]
  | none =>
    simp only [Option.isSome_none, Bool.false_eq_true, if_false]
    cases hpts : (T[j]).hasPts with
    | false => simp
    | true =>
      cases hop : (T[j]).isOpen with
      | true => simp
      | false =>
        simp only [Bool.not_true, Bool.false_eq_true, if_false]
        cases hc : clean j with
        | disposed => rfl
        | invalid => rfl
        | path p =>
          exfalso
          obtain ⟨r'', hr'', hs⟩ := hdone j (List.mem_range.mpr hj) T[j] p hTj hop hpts hc (H1 j T[j] p hTj hop hpts hc)
          rw [hr'] at hr''
          simp only [Option.some.injEq] at hr''
          subst hr''
          rw [hp] at hs
          simp at hs

/-! ### the root's own polygon stays empty -/

theorem buildTreeStep_root {clean : Nat → CleanRes} {inside : Nat → Nat → Bool} {openPath : Nat → Option Path}
    {fuel : Nat} {S S' : St} {i : Nat} (h : buildTreeStep clean inside openPath fuel S i = some S')
    (hG : GInv clean inside S) : S'.tree.path = S.tree.path := by
  unfold buildTreeStep at h
  split at h
  · simp at h
  · split at h
    · simp only [Option.some.injEq] at h; subst h; rfl
    · split at h
      · split at h
        · simp only [Option.some.injEq] at h; subst h; rfl
        · simp only [Option.some.injEq] at h; subst h; rfl
      · cases hcb : checkBounds clean S.recs i with
        | none => simp [hcb] at h
        | some q =>
          obtain ⟨T1, b⟩ := q
          rw [hcb] at h
          have hG1 := hG.table_step (checkBounds_good hcb)
          cases b with
          | false => simp only [Option.some.injEq] at h; subst h; rfl
          | true =>
            simp only at h
            obtain ⟨hS, _⟩ := rco_spec _ _ _ _ h hG1.1 hG1.2.1 hG1.2.2
            obtain ⟨n', hn', e⟩ := hS.2.2.2 [] S.tree (Tree.at?_nil _)
            rw [Tree.at?_nil] at hn'
            simp only [Option.some.injEq] at hn'
            subst hn'
            exact e

theorem buildTree_root {clean : Nat → CleanRes} {inside : Nat → Nat → Bool} {openPath : Nat → Option Path}
    {fuel : Nat} {T : Table} {S : St} (hF : Fresh T) (hA : Acyclic T)
    (h : buildTree clean inside openPath fuel T = some S) : S.tree.path = [] := by
  unfold buildTree at h
  have := foldlM_inv (P := fun S => GInv clean inside S ∧ S.tree.path = [])
    (f := fun S i => buildTreeStep clean inside openPath fuel S i)
    (fun S i S' hs ⟨hG, hp⟩ => ⟨buildTreeStep_ginv hs hG, (buildTreeStep_root hs hG).trans hp⟩) _ _ _ h
    ⟨hF.ginv hA, rfl⟩
  exact this.2

end Clipper.Model.Owner
