/-
Helper lemmas for Props/C08Tidy.lean, part 2: the well-formedness predicate `RingsWF` of a `RectClip64` heap, the effect of
`SetNewOwner`, and the split / rejoin step of `TidyEdges` (`tidySplice`) on well-formed heaps.
Core Lean only.
-/
import ClipperVerif.Lemmas.RectClipTidy
namespace Clipper.Lemmas.RCT
open Clipper Clipper.Model.RC Clipper.Model.RCT

/-- **Well-formed rings.**  `ring s` lists, in `next` order, the nodes of the ring that `results_[s]` points into
(`[]` for a null or absent slot).  Rings are doubly linked cycles, a slot points into its own ring, every node of ring `s` has
`owner_idx = s` (so different slots have disjoint rings), and all ring nodes are nodes of `op_container_`. -/
structure RingsWF (h : Heap) (ring : Nat → List Nat) : Prop where
  slot_some : ∀ s k, h.results[s]? = some (some k) → k ∈ ring s
  slot_none : ∀ s, (∀ k, h.results[s]? ≠ some (some k)) → ring s = []
  cyc : ∀ s, ring s ≠ [] → Cyc h.next h.prev (ring s)
  nodup : ∀ s, (ring s).Nodup
  owner : ∀ s k, k ∈ ring s → h.owner k = s
  lt : ∀ s k, k ∈ ring s → k < h.n

/-- node `k` is in a ring that `results_` knows -/
def Live (h : Heap) (ring : Nat → List Nat) (k : Nat) : Prop := k ∈ ring (h.owner k)

theorem RingsWF.live_iff {h : Heap} {ring : Nat → List Nat} (w : RingsWF h ring) (k : Nat) :
    Live h ring k ↔ ∃ s, k ∈ ring s := by
  constructor
  · intro hk; exact ⟨_, hk⟩
  · rintro ⟨s, hs⟩; unfold Live; rw [w.owner s k hs]; exact hs

theorem RingsWF.slot_lt {h : Heap} {ring : Nat → List Nat} (w : RingsWF h ring) {s k : Nat} (hk : k ∈ ring s) :
    s < h.results.length := by
  apply Classical.byContradiction
  intro hn
  have : ring s = [] := w.slot_none s (by
    intro k' hk'
    have : h.results[s]? = none := List.getElem?_eq_none (by omega)
    rw [this] at hk'; cases hk')
  rw [this] at hk; cases hk

theorem RingsWF.slot_exists {h : Heap} {ring : Nat → List Nat} (w : RingsWF h ring) {s k : Nat} (hk : k ∈ ring s) :
    ∃ r, h.results[s]? = some (some r) := by
  apply Classical.byContradiction
  intro hn
  have : ring s = [] := w.slot_none s (fun k' hk' => hn ⟨k', hk'⟩)
  rw [this] at hk; cases hk

theorem RingsWF.disjoint {h : Heap} {ring : Nat → List Nat} (w : RingsWF h ring) {s t k : Nat}
    (hs : k ∈ ring s) (ht : k ∈ ring t) : s = t := by
  rw [← w.owner s k hs, w.owner t k ht]

theorem RingsWF.next_mem {h : Heap} {ring : Nat → List Nat} (w : RingsWF h ring) {s k : Nat} (hk : k ∈ ring s) :
    h.next k ∈ ring s ∧ h.prev (h.next k) = k :=
  cyc_next_mem (w.cyc s (List.ne_nil_of_mem hk)) hk

theorem RingsWF.prev_mem {h : Heap} {ring : Nat → List Nat} (w : RingsWF h ring) {s k : Nat} (hk : k ∈ ring s) :
    h.prev k ∈ ring s ∧ h.next (h.prev k) = k :=
  cyc_prev_mem (w.cyc s (List.ne_nil_of_mem hk)) hk

/-- a duplicate-free list of numbers below `n` has at most `n` elements -/
theorem nodup_bound : ∀ (n : Nat) (l : List Nat), l.Nodup → (∀ k ∈ l, k < n) → l.length ≤ n
  | 0, l, _, hl => by
    cases l with
    | nil => simp
    | cons a l => exact absurd (hl a (by simp)) (by omega)
  | n + 1, l, hnd, hl => by
    have h1 : (l.erase n).Nodup := hnd.erase n
    have h2 : ∀ k ∈ l.erase n, k < n := by
      intro k hk
      have := (List.Nodup.mem_erase_iff hnd).mp hk
      have := hl k this.2
      omega
    have := nodup_bound n (l.erase n) h1 h2
    have hlen := List.length_erase (a := n) (l := l)
    split at hlen <;> omega

/-! ### `SetNewOwner` -/

theorem setOwnerLoop_spec (x idx : Nat) : ∀ (L : List Nat) (fuel : Nat) (h : Heap) (op2 : Nat),
    x ∉ L → Linked h.next h.prev (L ++ [x]) → op2 = (L ++ [x]).headD x → L.length < fuel →
    setOwnerLoop x idx fuel h op2 = .ok { h with owner := fun k => if k ∈ L then idx else h.owner k }
  | [], fuel, h, op2, _, _, ho, hf => by
    cases fuel with
    | zero => omega
    | succ f =>
      simp only [List.nil_append, List.headD_cons] at ho
      subst ho
      simp [setOwnerLoop]
  | y :: L, fuel, h, op2, hx, hl, ho, hf => by
    cases fuel with
    | zero => simp at hf
    | succ f =>
      simp only [List.cons_append, List.headD_cons] at ho
      subst ho
      have hne : op2 ≠ x := by
        intro e; exact hx (by simp [e])
      simp only [setOwnerLoop, ne_eq, hne, not_false_eq_true, if_true]
      have hx' : x ∉ L := fun m => hx (List.mem_cons_of_mem _ m)
      have hl' : Linked h.next h.prev (L ++ [x]) := linked_tail hl
      have hnext : h.next op2 = (L ++ [x]).headD x := by
        cases L with
        | nil => simpa using hl.1
        | cons z L => simpa using hl.1
      have := setOwnerLoop_spec x idx L f { h with owner := upd h.owner op2 idx } (h.next op2) hx' hl' hnext
        (by simp at hf; omega)
      rw [this]
      congr 1
      have : (fun k => if k ∈ L then idx else upd h.owner op2 idx k) =
          (fun k => if k ∈ op2 :: L then idx else h.owner k) := by
        funext k
        by_cases hk : k ∈ L
        · simp [hk]
        · by_cases hk2 : k = op2
          · simp [hk2]
          · simp [hk, hk2, upd_ne]
      simp only [this]

/-- `SetNewOwner(x, idx)` on a well-formed cycle `c ∋ x` sets `owner_idx` of exactly the nodes of `c` and terminates -/
theorem setNewOwner_spec (h : Heap) (c : List Nat) (x idx : Nat) (hc : Cyc h.next h.prev c) (hnd : c.Nodup)
    (hlt : ∀ k ∈ c, k < h.n) (hx : x ∈ c) :
    h.setNewOwner x idx = .ok { h with owner := fun k => if k ∈ c then idx else h.owner k } := by
  obtain ⟨W, hW, hp⟩ := cyc_rotate_first hc hx
  have hndW : (x :: W).Nodup := hp.nodup_iff.mpr hnd
  have hlen : (x :: W).length ≤ h.n := nodup_bound h.n _ hndW (fun k hk => hlt k (hp.mem_iff.mp hk))
  unfold Heap.setNewOwner
  have hl : Linked h.next h.prev (x :: (W ++ [x])) := hW
  have hnext : h.next x = (W ++ [x]).headD x := by
    cases W with
    | nil => simpa using hl.1
    | cons z W => simpa using hl.1
  have := setOwnerLoop_spec x idx W (h.n + 1) { h with owner := upd h.owner x idx } (h.next x)
    (List.nodup_cons.mp hndW).1 (linked_tail hl) hnext (by simp at hlen; omega)
  rw [this]
  congr 1
  have : (fun k => if k ∈ W then idx else upd h.owner x idx k) = (fun k => if k ∈ c then idx else h.owner k) := by
    funext k
    have hm : k ∈ c ↔ k = x ∨ k ∈ W := by rw [← hp.mem_iff]; simp
    by_cases hk : k ∈ W
    · simp [hk, hm]
    · by_cases hk2 : k = x
      · subst hk2; simp [hx]
      · simp [hk, hk2, hm, upd_ne]
  simp only [this]

/-! ### the split -/

theorem results_split (res : List (Option Nat)) (s : Nat) (hs : s < res.length) (a b c : Nat) (t : Nat) :
    (((res ++ [some a]).set s (some b)).set res.length (some c))[t]? =
      if t = res.length then some (some c) else if t = s then some (some b) else res[t]? := by
  rw [List.getElem?_set, List.getElem?_set]
  simp only [List.length_set, List.length_append, List.length_cons, List.length_nil]
  by_cases h1 : t = res.length
  · subst h1; simp
  · have e1 : ¬ res.length = t := fun e => h1 e.symm
    simp only [e1, if_false, h1]
    by_cases h2 : t = s
    · subst h2
      have : t < res.length + (0 + 1) := by omega
      simp [this]
    · have e2 : ¬ s = t := fun e => h2 e.symm
      simp only [e2, if_false, h2]
      by_cases h3 : t < res.length
      · exact List.getElem?_append_left h3
      · have : (res ++ [some a])[t]? = none := List.getElem?_eq_none (by simp; omega)
        rw [this, List.getElem?_eq_none (by omega)]

/-- the heap after the four pointer writes of a split / rejoin, in block coordinates (see `split_lists`) -/
def relinked (h : Heap) (α β hU hV : Nat) : Heap :=
  { h with next := upd (upd h.next β hV) α hU, prev := upd (upd h.prev hV β) hU α }

/-- the heap after a split: `U` re-owned by the fresh slot, both slots set -/
def splitHeap (h : Heap) (α β hU hV q1a s : Nat) (U : List Nat) : Heap :=
  { relinked h α β hU hV with
    owner := fun k => if k ∈ U then h.results.length else h.owner k
    results := ((h.results ++ [some q1a]).set s (some hV)).set h.results.length (some hU) }

/-- **Split.**  `α ≠ β` are nodes of one ring `ring s`; the four pointer writes make `next β` follow `α` and `next α`
follow `β`.  The ring falls into the block `U` from `next β` to `α` and the block `V` from `next α` to `β`; `SetNewOwner` on a
node `q1a` of `U` with the fresh index `results_.size()` and the two `results_[…] = …` writes re-establish
well-formedness with `U` in the new slot and `V` in the old one. -/
theorem splice_split (h : Heap) (ring : Nat → List Nat) (w : RingsWF h ring) (α β s : Nat)
    (hα : α ∈ ring s) (hβ : β ∈ ring s) (hne : α ≠ β) (q1a hU hV : Nat) (ehU' : hU = h.next β) (ehV' : hV = h.next α) :
    ∃ U V : List Nat, (U ++ V).Perm (ring s) ∧ hU ∈ U ∧ α ∈ U ∧ hV ∈ V ∧ β ∈ V ∧
      (q1a ∈ U → ∃ h3, splicePost (relinked h α β hU hV) false q1a = .ok h3 ∧
        spliceSlots h3 hV hU = .ok (splitHeap h α β hU hV q1a s U) ∧
        RingsWF (splitHeap h α β hU hV q1a s U) (upd (upd ring s V) h.results.length U)) := by
  have hcyc := w.cyc s (List.ne_nil_of_mem hα)
  obtain ⟨W, hW, hp⟩ := cyc_rotate_last hcyc hβ
  have hαW : α ∈ W := by
    have : α ∈ W ++ [β] := hp.mem_iff.mpr hα
    simp only [List.mem_append, List.mem_singleton] at this
    rcases this with h | h
    · exact h
    · exact absurd h hne
  obtain ⟨U0, V0, rfl⟩ := List.append_of_mem hαW
  have e0 : U0 ++ α :: V0 ++ [β] = U0 ++ [α] ++ (V0 ++ [β]) := by simp
  rw [e0] at hW hp
  have hnd : (U0 ++ [α] ++ (V0 ++ [β])).Nodup := hp.nodup_iff.mpr (w.nodup s)
  have sp := split_lists U0 α V0 β hnd hW
  simp only at sp
  obtain ⟨eV, eU, cU, cV⟩ := sp
  -- the let-bound hU, hV are the heads of the blocks
  have ehU : hU = (U0 ++ [α]).headD α := by rw [ehU']; exact eU
  have ehV : hV = (V0 ++ [β]).headD β := by rw [ehV']; exact eV
  rw [← ehU, ← ehV] at cU cV
  have hUm : hU ∈ U0 ++ [α] := by rw [ehU]; cases U0 <;> simp
  have hVm : hV ∈ V0 ++ [β] := by rw [ehV]; cases V0 <;> simp
  have ndU : (U0 ++ [α]).Nodup := (List.nodup_append.mp hnd).1
  have ndV : (V0 ++ [β]).Nodup := (List.nodup_append.mp hnd).2.1
  have hdis : ∀ x ∈ U0 ++ [α], ∀ y ∈ V0 ++ [β], x ≠ y := (List.nodup_append.mp hnd).2.2
  have memS : ∀ k, k ∈ U0 ++ [α] ∨ k ∈ V0 ++ [β] ↔ k ∈ ring s := by
    intro k; rw [← hp.mem_iff]; exact List.mem_append.symm
  refine ⟨U0 ++ [α], V0 ++ [β], hp, hUm, by simp, hVm, by simp, ?_⟩
  intro hq
  have slt : s < h.results.length := w.slot_lt hα
  -- SetNewOwner(q1a, new_idx)
  have hlt : ∀ k ∈ U0 ++ [α], k < h.n := fun k hk => w.lt s k ((memS k).mp (Or.inl hk))
  have hpost := setNewOwner_spec ({ relinked h α β hU hV with results := h.results ++ [some q1a] } : Heap) (U0 ++ [α]) q1a h.results.length
    cU ndU hlt hq
  refine ⟨_, hpost, ?_, ?_⟩
  · -- the two results_ writes
    have o1 : ¬ hV ∈ U0 ++ [α] := fun m => hdis hV m hV hVm rfl
    have oV : h.owner hV = s := w.owner s hV ((memS hV).mp (Or.inr hVm))
    have l1 : s < h.results.length + (0 + 1) := by omega
    simp only [spliceSlots, Heap.setResult, relinked, o1, if_false, oV, List.length_append, List.length_cons, List.length_nil,
      l1, if_true, hUm, List.length_set, splitHeap]
    simp
  · refine ⟨?_, ?_, ?_, ?_, ?_, ?_⟩
    · -- slot_some
      intro t k ht
      simp only [splitHeap] at ht
      rw [results_split h.results s slt] at ht
      by_cases h1 : t = h.results.length
      · subst h1
        simp only [if_true, Option.some.injEq] at ht
        subst ht
        simp [hUm]
      · simp only [h1, if_false] at ht
        by_cases h2' : t = s
        · subst h2'
          simp only [if_true, Option.some.injEq] at ht
          subst ht
          rw [upd_ne _ _ h1]; simp [hVm]
        · simp only [h2', if_false] at ht
          rw [upd_ne _ _ h1, upd_ne _ _ h2']
          exact w.slot_some t k ht
    · -- slot_none
      intro t ht
      simp only [splitHeap] at ht
      by_cases h1 : t = h.results.length
      · subst h1
        exact absurd (by rw [results_split h.results s slt]; simp) (ht hU)
      · by_cases h2' : t = s
        · subst h2'
          exact absurd (by rw [results_split h.results t slt]; simp [h1]) (ht hV)
        · rw [upd_ne _ _ h1, upd_ne _ _ h2']
          apply w.slot_none
          intro k hk
          apply ht k
          rw [results_split h.results s slt]; simp [h1, h2', hk]
    · -- cyc
      intro t ht
      by_cases h1 : t = h.results.length
      · subst h1
        simp only [upd_same] at ht ⊢
        exact cU
      · rw [upd_ne _ _ h1] at ht ⊢
        by_cases h2' : t = s
        · subst h2'
          simp only [upd_same] at ht ⊢
          exact cV
        · rw [upd_ne _ _ h2'] at ht ⊢
          have hc := w.cyc t ht
          have notS : ∀ x ∈ ring t, x ∉ ring s := fun x hx hs => h2' (w.disjoint hx hs)
          apply cyc_congr hc
          · intro x hx
            have n1 : x ≠ α := fun e => notS x hx (e ▸ hα)
            have n2 : x ≠ β := fun e => notS x hx (e ▸ hβ)
            simp only [splitHeap, relinked, upd_ne _ _ n1, upd_ne _ _ n2]
          · intro x hx
            have n1 : x ≠ hU := fun e => notS x hx (e ▸ (memS hU).mp (Or.inl hUm))
            have n2 : x ≠ hV := fun e => notS x hx (e ▸ (memS hV).mp (Or.inr hVm))
            simp only [splitHeap, relinked, upd_ne _ _ n1, upd_ne _ _ n2]
    · -- nodup
      intro t
      by_cases h1 : t = h.results.length
      · subst h1; simp only [upd_same]; exact ndU
      · rw [upd_ne _ _ h1]
        by_cases h2' : t = s
        · subst h2'; simp only [upd_same]; exact ndV
        · rw [upd_ne _ _ h2']; exact w.nodup t
    · -- owner
      intro t k hk
      by_cases h1 : t = h.results.length
      · subst h1
        simp only [upd_same] at hk
        simp only [splitHeap, hk, if_true]
      · rw [upd_ne _ _ h1] at hk
        by_cases h2' : t = s
        · subst h2'
          simp only [upd_same] at hk
          have : ¬ k ∈ U0 ++ [α] := fun m => hdis k m k hk rfl
          simp only [splitHeap, this, if_false]
          exact w.owner t k ((memS k).mp (Or.inr hk))
        · rw [upd_ne _ _ h2'] at hk
          have : ¬ k ∈ U0 ++ [α] := fun m => h2' (w.disjoint hk ((memS k).mp (Or.inl m)))
          simp only [splitHeap, this, if_false]
          exact w.owner t k hk
    · -- lt
      intro t k hk
      by_cases h1 : t = h.results.length
      · subst h1
        simp only [upd_same] at hk
        exact hlt k hk
      · rw [upd_ne _ _ h1] at hk
        by_cases h2' : t = s
        · subst h2'
          simp only [upd_same] at hk
          exact w.lt t k ((memS k).mp (Or.inr hk))
        · rw [upd_ne _ _ h2'] at hk
          exact w.lt t k hk

/-! ### the rejoin -/

theorem results_rejoin (res : List (Option Nat)) (sk sp : Nat) (hk : sk < res.length) (hp : sp < res.length)
    (b c : Nat) (t : Nat) :
    (((res.set sk none).set sp (some b)).set sp (some c))[t]? =
      if t = sp then some (some c) else if t = sk then some none else res[t]? := by
  rw [List.getElem?_set, List.getElem?_set, List.getElem?_set]
  simp only [List.length_set]
  by_cases h1 : t = sp
  · subst h1; simp [hp]
  · have e1 : ¬ sp = t := fun e => h1 e.symm
    simp only [e1, if_false, h1]
    by_cases h2 : t = sk
    · subst h2; simp [hk]
    · have e2 : ¬ sk = t := fun e => h2 e.symm
      simp only [e2, if_false, h2]

/-- the heap after a rejoin: the ring `Ck` of slot `sk` re-owned by slot `sp`, slot `sk` cleared, slot `sp` set -/
def rejoinHeap (h : Heap) (α β hU hV sk sp : Nat) (Ck : List Nat) : Heap :=
  { relinked h α β hU hV with
    owner := fun k => if k ∈ Ck then sp else h.owner k
    results := ((h.results.set sk none).set sp (some hV)).set sp (some hU) }

/-- **Rejoin.**  `α` and `β` are nodes of two different rings; `q2` is a node of the ring whose slot `sk` is given up, `q1` a
node of the ring whose slot `sp` survives.  `results_[q2->owner_idx] = nullptr; SetNewOwner(q2, q1->owner_idx)`, the four
pointer writes and the two `results_[…] = …` writes re-establish well-formedness with one ring — all nodes of both —
in slot `sp` and nothing in slot `sk`. -/
theorem splice_rejoin (h : Heap) (ring : Nat → List Nat) (w : RingsWF h ring) (α β sa sb : Nat)
    (hα : α ∈ ring sa) (hβ : β ∈ ring sb) (hne : sa ≠ sb) (q1 q2 hU hV sk sp : Nat)
    (ehU' : hU = h.next β) (ehV' : hV = h.next α)
    (hs : (sk = sa ∧ sp = sb) ∨ (sk = sb ∧ sp = sa)) (hq2 : q2 ∈ ring sk) (hq1 : q1 ∈ ring sp) :
    ∃ h1, splicePre h true q1 q2 = .ok h1 ∧
      spliceSlots (relinked h1 α β hU hV) hV hU = .ok (rejoinHeap h α β hU hV sk sp (ring sk)) ∧
      ∃ J : List Nat, J.Perm (ring sb ++ ring sa) ∧ hU ∈ J ∧ hV ∈ J ∧
        RingsWF (rejoinHeap h α β hU hV sk sp (ring sk)) (upd (upd ring sk []) sp J) := by
  have hkp : sk ≠ sp := by rcases hs with ⟨rfl, rfl⟩ | ⟨rfl, rfl⟩; exact hne; exact hne.symm
  have oq2 : h.owner q2 = sk := w.owner sk q2 hq2
  have oq1 : h.owner q1 = sp := w.owner sp q1 hq1
  have lk : sk < h.results.length := w.slot_lt hq2
  have lp : sp < h.results.length := w.slot_lt hq1
  -- SetNewOwner on the ring of q2
  have hpre := setNewOwner_spec ({ h with results := h.results.set sk none } : Heap) (ring sk) q2 sp
    (w.cyc sk (List.ne_nil_of_mem hq2)) (w.nodup sk) (w.lt sk) hq2
  -- the two cycles, rotated
  obtain ⟨A0, hA, pA⟩ := cyc_rotate_last (w.cyc sb (List.ne_nil_of_mem hβ)) hβ
  obtain ⟨B0, hB, pB⟩ := cyc_rotate_last (w.cyc sa (List.ne_nil_of_mem hα)) hα
  have hdisj : ∀ x ∈ A0 ++ [β], ∀ y ∈ B0 ++ [α], x ≠ y := by
    intro x hx y hy e
    subst e
    exact hne (w.disjoint (pB.mem_iff.mp hy) (pA.mem_iff.mp hx))
  have hnd : (A0 ++ [β] ++ (B0 ++ [α])).Nodup :=
    List.nodup_append.mpr ⟨pA.nodup_iff.mpr (w.nodup sb), pB.nodup_iff.mpr (w.nodup sa), hdisj⟩
  have jn := join_lists A0 β B0 α hnd hA hB
  simp only at jn
  obtain ⟨eU, eV, cJ⟩ := jn
  have ehU : hU = (A0 ++ [β]).headD β := by rw [ehU']; exact eU
  have ehV : hV = (B0 ++ [α]).headD α := by rw [ehV']; exact eV
  rw [← ehU, ← ehV] at cJ
  have hUm : hU ∈ A0 ++ [β] := by rw [ehU]; cases A0 <;> simp
  have hVm : hV ∈ B0 ++ [α] := by rw [ehV]; cases B0 <;> simp
  have memJ : ∀ k, k ∈ A0 ++ [β] ++ (B0 ++ [α]) ↔ k ∈ ring sb ∨ k ∈ ring sa := by
    intro k; rw [List.mem_append, pA.mem_iff, pB.mem_iff]
  have memJ' : ∀ k, k ∈ A0 ++ [β] ++ (B0 ++ [α]) ↔ k ∈ ring sk ∨ k ∈ ring sp := by
    intro k; rw [memJ]
    rcases hs with ⟨rfl, rfl⟩ | ⟨rfl, rfl⟩
    · exact Or.comm
    · exact Iff.rfl
  have hUJ : hU ∈ ring sk ∨ hU ∈ ring sp := (memJ' hU).mp (List.mem_append.mpr (Or.inl hUm))
  have hVJ : hV ∈ ring sk ∨ hV ∈ ring sp := (memJ' hV).mp (List.mem_append.mpr (Or.inr hVm))
  have ownAfter : ∀ k, (k ∈ ring sk ∨ k ∈ ring sp) → (if k ∈ ring sk then sp else h.owner k) = sp := by
    intro k hk
    rcases hk with hk | hk
    · simp [hk]
    · split
      · rfl
      · exact w.owner sp k hk
  refine ⟨_, by simpa [splicePre, Heap.setResult, oq2, lk, oq1] using hpre, ?_, A0 ++ [β] ++ (B0 ++ [α]), ?_, ?_, ?_, ?_⟩
  · simp only [spliceSlots, Heap.setResult, relinked, ownAfter hV hVJ, ownAfter hU hUJ, List.length_set, lp, if_true,
      rejoinHeap]
  · exact List.Perm.append pA pB
  · exact List.mem_append.mpr (Or.inl hUm)
  · exact List.mem_append.mpr (Or.inr hVm)
  · refine ⟨?_, ?_, ?_, ?_, ?_, ?_⟩
    · -- slot_some
      intro t k ht
      simp only [rejoinHeap] at ht
      rw [results_rejoin h.results sk sp lk lp] at ht
      by_cases h1 : t = sp
      · subst h1
        simp only [if_true, Option.some.injEq] at ht
        subst ht
        simp only [upd_same]
        exact List.mem_append.mpr (Or.inl hUm)
      · simp only [h1, if_false] at ht
        by_cases h2 : t = sk
        · subst h2
          simp at ht
        · simp only [h2, if_false] at ht
          rw [upd_ne _ _ h1, upd_ne _ _ h2]
          exact w.slot_some t k ht
    · -- slot_none
      intro t ht
      simp only [rejoinHeap] at ht
      by_cases h1 : t = sp
      · subst h1
        exact absurd (by rw [results_rejoin h.results sk t lk lp]; simp) (ht hU)
      · rw [upd_ne _ _ h1]
        by_cases h2 : t = sk
        · subst h2; simp
        · rw [upd_ne _ _ h2]
          apply w.slot_none
          intro k hk
          apply ht k
          rw [results_rejoin h.results sk sp lk lp]; simp [h1, h2, hk]
    · -- cyc
      intro t ht
      by_cases h1 : t = sp
      · subst h1
        simp only [upd_same] at ht ⊢
        exact cJ
      · rw [upd_ne _ _ h1] at ht ⊢
        by_cases h2 : t = sk
        · subst h2; simp at ht
        · rw [upd_ne _ _ h2] at ht ⊢
          have hc := w.cyc t ht
          have notJ : ∀ x ∈ ring t, ¬ (x ∈ ring sk ∨ x ∈ ring sp) := by
            intro x hx hj
            rcases hj with hj | hj
            · exact h2 (w.disjoint hx hj)
            · exact h1 (w.disjoint hx hj)
          have hαJ : α ∈ ring sk ∨ α ∈ ring sp := (memJ' α).mp (by simp)
          have hβJ : β ∈ ring sk ∨ β ∈ ring sp := (memJ' β).mp (by simp)
          apply cyc_congr hc
          · intro x hx
            have n1 : x ≠ α := fun e => notJ x hx (e ▸ hαJ)
            have n2 : x ≠ β := fun e => notJ x hx (e ▸ hβJ)
            simp only [rejoinHeap, relinked, upd_ne _ _ n1, upd_ne _ _ n2]
          · intro x hx
            have n1 : x ≠ hU := fun e => notJ x hx (e ▸ hUJ)
            have n2 : x ≠ hV := fun e => notJ x hx (e ▸ hVJ)
            simp only [rejoinHeap, relinked, upd_ne _ _ n1, upd_ne _ _ n2]
    · -- nodup
      intro t
      by_cases h1 : t = sp
      · subst h1; simp only [upd_same]; exact hnd
      · rw [upd_ne _ _ h1]
        by_cases h2 : t = sk
        · subst h2; simp
        · rw [upd_ne _ _ h2]; exact w.nodup t
    · -- owner
      intro t k hk
      by_cases h1 : t = sp
      · subst h1
        simp only [upd_same] at hk
        exact ownAfter k ((memJ' k).mp hk)
      · rw [upd_ne _ _ h1] at hk
        by_cases h2 : t = sk
        · subst h2; simp at hk
        · rw [upd_ne _ _ h2] at hk
          have : ¬ k ∈ ring sk := fun m => h2 (w.disjoint hk m)
          simp only [rejoinHeap, this, if_false]
          exact w.owner t k hk
    · -- lt
      intro t k hk
      by_cases h1 : t = sp
      · subst h1
        simp only [upd_same] at hk
        rcases (memJ' k).mp hk with m | m
        · exact w.lt sk k m
        · exact w.lt t k m
      · rw [upd_ne _ _ h1] at hk
        by_cases h2 : t = sk
        · subst h2; simp at hk
        · rw [upd_ne _ _ h2] at hk
          exact w.lt t k hk

end Clipper.Lemmas.RCT
