/-
Helper definitions for `Props/Bridges/Horz.lean`: an interpreter for the pointer-assignment log of the generated skeleton
`Gen.DuplicateOp` on the index heap of `Model/HorzJoins.lean`.  Core Lean only.
-/
import ClipperVerif.Lemmas.Bridges
import ClipperVerif.Generated.Engine
import ClipperVerif.Model.HorzJoins
namespace Clipper.Lemmas.Bridges
open Clipper Clipper.Model.HorzJoins

/-- a link field of an `OutPt` -/
inductive Link | next | prev
  deriving DecidableEq, Repr

/-- `node->link = v` -/
def setLink (H : Heap) (node : Nat) (l : Link) (v : Nat) : R Heap :=
  H.updNode node (fun x => match l with | .next => { x with next := v } | .prev => { x with prev := v })

/-- one logged pointer assignment of the skeleton `Gen.DuplicateOp`, with the paths resolved as the translator defines them: the names on
the right (`op`, `op_next`, `op_prev`, `result`) denote the records the paths led to when the function was entered (`n` = `*op` then),
the location on the left is a link field of such a record -/
def dupAssign (op new : Nat) (n : Node) : String → Option (Nat × Link × Nat)
  | "result_next := op_next" => some (new, .next, n.next)
  | "op_next_prev := result" => some (n.next, .prev, new)
  | "result_prev := op" => some (new, .prev, op)
  | "op_next := result" => some (op, .next, new)
  | "result_prev := op_prev" => some (new, .prev, n.prev)
  | "op_prev_next := result" => some (n.prev, .next, new)
  | "result_next := op" => some (new, .next, op)
  | "op_prev := result" => some (op, .prev, new)
  | _ => none

def runAssigns (op new : Nat) (n : Node) : Heap → List (String × List Int) → R Heap
  | H, [] => .ok H
  | H, (s, _) :: rest =>
    match dupAssign op new n s with
    | none => .error .null
    | some (t, l, v) =>
      match setLink H t l v with
      | .error e => .error e
      | .ok H1 => runAssigns op new n H1 rest

/-- execute the log of `Gen.DuplicateOp` on a heap: `result := new OutPt` allocates a node that, as the constructor
`OutPt(pt, outrec) { next = this; prev = this; }` leaves it, links to itself; then the pointer assignments in order -/
def runDupLog (H : Heap) (op : Nat) (log : List (String × List Int)) : R (Heap × Nat) :=
  match H.node op with
  | .error e => .error e
  | .ok n =>
    let new := H.ops.size
    match log with
    | ("result := new OutPt", _) :: rest =>
      match runAssigns op new n { H with ops := H.ops.push { pt := n.pt, next := new, prev := new, orec := n.orec, horz := false } } rest with
      | .error e => .error e
      | .ok H1 => .ok (H1, new)
    | _ => .error .null

end Clipper.Lemmas.Bridges
