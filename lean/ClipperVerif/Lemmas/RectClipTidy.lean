/-
Helper lemmas for Props/C08Tidy.lean, part 1: `upd`, linked lists of node indices (`Linked`, `Cyc`), rotation,
relinking (the list-level content of a split and of a rejoin), `SetNewOwner`.
Core Lean only.
-/
import ClipperVerif.Model.RectClipTidy
namespace Clipper.Lemmas.RCT
open Clipper Clipper.Model.RC Clipper.Model.RCT

/-! ### `upd` -/

@[simp] theorem upd_same {α : Type} (f : Nat → α) (k : Nat) (v : α) : upd f k v k = v := by simp [upd]

theorem upd_ne {α : Type} (f : Nat → α) {k x : Nat} (v : α) (h : x ≠ k) : upd f k v x = f x := by simp [upd, h]

theorem upd_apply {α : Type} (f : Nat → α) (k x : Nat) (v : α) : upd f k v x = if x = k then v else f x := rfl

/-! ### linked lists of nodes -/

/-- consecutive elements `x, y` of the list satisfy `next x = y` and `prev y = x` -/
def Linked (nx pv : Nat → Nat) : List Nat → Prop
  | a :: b :: l => nx a = b ∧ pv b = a ∧ Linked nx pv (b :: l)
  | _ => True

/-- the non-empty list `c` is a cycle of `next` (with `prev` its inverse along it): consecutive elements are linked,
and so are the last and the first -/
def Cyc (nx pv : Nat → Nat) : List Nat → Prop
  | [] => False
  | a :: l => Linked nx pv (a :: l ++ [a])

theorem linked_cons2 {nx pv : Nat → Nat} {a b : Nat} {l : List Nat} :
    Linked nx pv (a :: b :: l) ↔ nx a = b ∧ pv b = a ∧ Linked nx pv (b :: l) := Iff.rfl

/-- splitting at a shared element -/
theorem linked_append {nx pv : Nat → Nat} (l1 : List Nat) (b : Nat) (l2 : List Nat) :
    Linked nx pv (l1 ++ b :: l2) ↔ Linked nx pv (l1 ++ [b]) ∧ Linked nx pv (b :: l2) := by
  induction l1 with
  | nil => simp [Linked]
  | cons a l1 ih =>
    cases l1 with
    | nil =>
      simp only [List.cons_append, List.nil_append, linked_cons2]
      constructor
      · rintro ⟨h1, h2, h3⟩; exact ⟨⟨h1, h2, trivial⟩, h3⟩
      · rintro ⟨⟨h1, h2, _⟩, h3⟩; exact ⟨h1, h2, h3⟩
    | cons c l1 =>
      simp only [List.cons_append, linked_cons2] at ih ⊢
      rw [ih]
      constructor
      · rintro ⟨h1, h2, h3, h4⟩; exact ⟨⟨h1, h2, h3⟩, h4⟩
      · rintro ⟨⟨h1, h2, h3⟩, h4⟩; exact ⟨h1, h2, h3, h4⟩

theorem linked_snoc2 {nx pv : Nat → Nat} (l : List Nat) (x y : Nat) :
    Linked nx pv (l ++ [x, y]) ↔ Linked nx pv (l ++ [x]) ∧ nx x = y ∧ pv y = x := by
  rw [linked_append l x [y]]
  simp [Linked]

theorem linked_tail {nx pv : Nat → Nat} {a : Nat} {l : List Nat} (h : Linked nx pv (a :: l)) : Linked nx pv l := by
  cases l with
  | nil => trivial
  | cons b l => exact h.2.2

theorem linked_left {nx pv : Nat → Nat} {l1 l2 : List Nat} (h : Linked nx pv (l1 ++ l2)) : Linked nx pv l1 := by
  induction l1 with
  | nil => trivial
  | cons a l1 ih =>
    cases l1 with
    | nil => trivial
    | cons b l1 =>
      simp only [List.cons_append, linked_cons2] at h ⊢
      exact ⟨h.1, h.2.1, ih h.2.2⟩

theorem linked_right {nx pv : Nat → Nat} {l1 l2 : List Nat} (h : Linked nx pv (l1 ++ l2)) : Linked nx pv l2 := by
  induction l1 with
  | nil => exact h
  | cons a l1 ih => exact ih (linked_tail h)

/-- `Linked` only looks at `next` of the non-last and at `prev` of the non-first elements -/
theorem linked_congr {nx pv nx' pv' : Nat → Nat} : ∀ (l : List Nat),
    (∀ x ∈ l.dropLast, nx' x = nx x) → (∀ y ∈ l.tail, pv' y = pv y) → Linked nx pv l → Linked nx' pv' l
  | [], _, _, _ => trivial
  | [_], _, _, _ => trivial
  | a :: b :: l, h1, h2, h => by
    simp only [linked_cons2] at h ⊢
    refine ⟨?_, ?_, ?_⟩
    · rw [h1 a (by simp [List.dropLast])]; exact h.1
    · rw [h2 b (by simp)]; exact h.2.1
    · apply linked_congr (b :: l) _ _ h.2.2
      · intro x hx; exact h1 x (by simp only [List.dropLast_cons_cons, List.mem_cons]; exact Or.inr hx)
      · intro y hy; exact h2 y (by simp only [List.tail_cons, List.mem_cons]; exact Or.inr hy)

/-- in a linked list, `next` of an element that is not the last is the element after it -/
theorem linked_next {nx pv : Nat → Nat} {l1 : List Nat} {a b : Nat} {l2 : List Nat}
    (h : Linked nx pv (l1 ++ a :: b :: l2)) : nx a = b ∧ pv b = a := by
  have := linked_right h
  exact ⟨this.1, this.2.1⟩

/-- re-routing the last link of a segment -/
theorem seg_relink {nx pv nx' pv' : Nat → Nat} (U0 : List Nat) (α x y : Nat)
    (h : Linked nx pv (U0 ++ [α, x])) (h1 : ∀ k ∈ U0, nx' k = nx k)
    (h2 : ∀ k ∈ (U0 ++ [α]).tail, pv' k = pv k) (h3 : nx' α = y) (h4 : pv' y = α) :
    Linked nx' pv' (U0 ++ [α, y]) := by
  rw [linked_snoc2] at h ⊢
  refine ⟨linked_congr _ ?_ h2 h.1, h3, h4⟩
  intro k hk
  apply h1
  simpa using hk

/-! ### cycles -/

theorem cyc_ne_nil {nx pv : Nat → Nat} {c : List Nat} (h : Cyc nx pv c) : c ≠ [] := by
  cases c with
  | nil => exact absurd h (by simp [Cyc])
  | cons a l => simp

/-- a cycle cut into two non-empty blocks -/
theorem cyc_append_iff {nx pv : Nat → Nat} (a : Nat) (X : List Nat) (b : Nat) (Y : List Nat) :
    Cyc nx pv ((a :: X) ++ (b :: Y)) ↔ Linked nx pv (a :: X ++ [b]) ∧ Linked nx pv (b :: Y ++ [a]) := by
  show Linked nx pv (a :: (X ++ b :: Y) ++ [a]) ↔ _
  have : a :: (X ++ b :: Y) ++ [a] = (a :: X) ++ b :: (Y ++ [a]) := by simp
  rw [this, linked_append]
  simp

theorem cyc_rotate {nx pv : Nat → Nat} {X Y : List Nat} (hX : X ≠ []) (hY : Y ≠ [])
    (h : Cyc nx pv (X ++ Y)) : Cyc nx pv (Y ++ X) := by
  cases X with
  | nil => exact absurd rfl hX
  | cons a X =>
    cases Y with
    | nil => exact absurd rfl hY
    | cons b Y =>
      rw [cyc_append_iff] at h ⊢
      exact ⟨h.2, h.1⟩

/-- a cycle can be rotated so that a given member comes last -/
theorem cyc_rotate_last {nx pv : Nat → Nat} {c : List Nat} {k : Nat} (h : Cyc nx pv c) (hk : k ∈ c) :
    ∃ W, Cyc nx pv (W ++ [k]) ∧ (W ++ [k]).Perm c := by
  obtain ⟨X, Y, rfl⟩ := List.append_of_mem hk
  cases Y with
  | nil => exact ⟨X, h, List.Perm.refl _⟩
  | cons y Y =>
    refine ⟨(y :: Y) ++ X, ?_, ?_⟩
    · have : X ++ k :: y :: Y = (X ++ [k]) ++ (y :: Y) := by simp
      rw [this] at h
      have := cyc_rotate (by simp) (by simp) h
      simpa using this
    · have : X ++ k :: y :: Y = (X ++ [k]) ++ (y :: Y) := by simp
      rw [this]
      have := (List.perm_append_comm (l₁ := y :: Y) (l₂ := X ++ [k]))
      simpa using this

/-- a cycle can be rotated so that a given member comes first -/
theorem cyc_rotate_first {nx pv : Nat → Nat} {c : List Nat} {k : Nat} (h : Cyc nx pv c) (hk : k ∈ c) :
    ∃ W, Cyc nx pv (k :: W) ∧ (k :: W).Perm c := by
  obtain ⟨X, Y, rfl⟩ := List.append_of_mem hk
  cases X with
  | nil => exact ⟨Y, h, List.Perm.refl _⟩
  | cons x X =>
    refine ⟨Y ++ (x :: X), ?_, ?_⟩
    · have := cyc_rotate (X := x :: X) (Y := k :: Y) (by simp) (by simp) h
      simpa using this
    · have := (List.perm_append_comm (l₁ := k :: Y) (l₂ := x :: X))
      simpa using this

/-- in a cycle written with `k` last, `next k` is the first element -/
theorem cyc_last_next {nx pv : Nat → Nat} {W : List Nat} {k : Nat} (h : Cyc nx pv (W ++ [k])) :
    nx k = (W ++ [k]).headD k ∧ pv ((W ++ [k]).headD k) = k := by
  cases W with
  | nil => simpa [Cyc, Linked] using h
  | cons a W =>
    have h : Linked nx pv (a :: (W ++ [k]) ++ [a]) := h
    have e : a :: (W ++ [k]) ++ [a] = (a :: W) ++ k :: a :: [] := by simp
    rw [e] at h
    have := linked_next h
    simpa using this

/-- `next` maps a cycle into itself, `prev` is its inverse there -/
theorem cyc_next_mem {nx pv : Nat → Nat} {c : List Nat} {k : Nat} (h : Cyc nx pv c) (hk : k ∈ c) :
    nx k ∈ c ∧ pv (nx k) = k := by
  obtain ⟨W, hW, hp⟩ := cyc_rotate_last h hk
  have := cyc_last_next hW
  refine ⟨hp.mem_iff.mp ?_, by rw [this.1]; exact this.2⟩
  rw [this.1]
  cases W with
  | nil => simp
  | cons a W => simp

theorem cyc_prev_mem {nx pv : Nat → Nat} {c : List Nat} {k : Nat} (h : Cyc nx pv c) (hk : k ∈ c) :
    pv k ∈ c ∧ nx (pv k) = k := by
  obtain ⟨W, hW, hp⟩ := cyc_rotate_first h hk
  cases hW' : W.getLast? with
  | none =>
    have : W = [] := List.getLast?_eq_none_iff.mp hW'
    subst this
    have hW : Linked nx pv [k, k] := hW
    have e : pv k = k := hW.2.1
    rw [e]; exact ⟨hk, hW.1⟩
  | some z =>
    obtain ⟨W0, rfl⟩ := List.getLast?_eq_some_iff.mp hW'
    have hW : Linked nx pv (k :: (W0 ++ [z]) ++ [k]) := hW
    have : k :: (W0 ++ [z]) ++ [k] = (k :: W0) ++ z :: k :: [] := by simp
    rw [this] at hW
    have := linked_next hW
    rw [this.2]
    exact ⟨hp.mem_iff.mp (by simp), this.1⟩

/-- `Cyc` only depends on `next`, `prev` at the members -/
theorem cyc_congr {nx pv nx' pv' : Nat → Nat} {c : List Nat} (h : Cyc nx pv c)
    (h1 : ∀ x ∈ c, nx' x = nx x) (h2 : ∀ x ∈ c, pv' x = pv x) : Cyc nx' pv' c := by
  cases c with
  | nil => exact h
  | cons a l =>
    simp only [Cyc] at h ⊢
    apply linked_congr _ _ _ h
    · intro x hx
      apply h1
      have : (a :: l ++ [a]).dropLast = a :: l := by
        have := List.dropLast_concat (l₁ := a :: l) (b := a)
        simpa using this
      rw [this] at hx; exact hx
    · intro y hy
      apply h2
      simp only [List.cons_append, List.tail_cons, List.mem_append, List.mem_singleton] at hy
      rcases hy with hy | hy
      · exact List.mem_cons_of_mem _ hy
      · rw [hy]; simp

/-! ### split and rejoin on lists

`U = U0 ++ [α]` and `V = V0 ++ [β]` with first elements `hU`, `hV`.  A split turns the cycle `U ++ V`
(`next α = hV`, `next β = hU`) into the two cycles `U`, `V` by `next α := hU`, `next β := hV` (and `prev` accordingly);
a rejoin is the converse. -/

theorem split_lists {nx pv : Nat → Nat} (U0 : List Nat) (α : Nat) (V0 : List Nat) (β : Nat)
    (hnd : (U0 ++ [α] ++ (V0 ++ [β])).Nodup)
    (h : Cyc nx pv (U0 ++ [α] ++ (V0 ++ [β]))) :
    let hU := (U0 ++ [α]).headD α
    let hV := (V0 ++ [β]).headD β
    let nx' := upd (upd nx β hV) α hU
    let pv' := upd (upd pv hV β) hU α
    nx α = hV ∧ nx β = hU ∧ Cyc nx' pv' (U0 ++ [α]) ∧ Cyc nx' pv' (V0 ++ [β]) := by
  intro hU hV nx' pv'
  have hαβ : α ≠ β := by
    intro e
    rw [List.nodup_append] at hnd
    exact hnd.2.2 α (by simp) β (by simp) e
  have hUmem : hU ∈ U0 ++ [α] := by cases U0 <;> simp [hU]
  have hVmem : hV ∈ V0 ++ [β] := by cases V0 <;> simp [hV]
  have hUV : hU ≠ hV := by
    rw [List.nodup_append] at hnd
    exact hnd.2.2 hU hUmem hV hVmem
  -- the two segments of the old cycle
  have hseg : Linked nx pv (U0 ++ [α, hV]) ∧ Linked nx pv (V0 ++ [β, hU]) := by
    cases hu : U0 ++ [α] with
    | nil => simp at hu
    | cons a X =>
      cases hv : V0 ++ [β] with
      | nil => simp at hv
      | cons b Y =>
        rw [hu, hv] at h
        rw [cyc_append_iff] at h
        have e1 : hU = a := by simp [hU, hu]
        have e2 : hV = b := by simp [hV, hv]
        have e3 : U0 ++ [α, hV] = a :: X ++ [b] := by
          rw [e2, ← hu]; simp
        have e4 : V0 ++ [β, hU] = b :: Y ++ [a] := by
          rw [e1, ← hv]; simp
        rw [e3, e4]; exact h
  have n1 := (linked_snoc2 _ _ _).mp hseg.1
  have n2 := (linked_snoc2 _ _ _).mp hseg.2
  refine ⟨n1.2.1, n2.2.1, ?_, ?_⟩
  · -- Cyc (U0 ++ [α]) = Linked (U0 ++ [α] ++ [hU])
    have key : Linked nx' pv' (U0 ++ [α, hU]) := by
      apply seg_relink U0 α hV hU hseg.1
      · intro k hk
        have k1 : k ≠ α := by
          intro e; subst e
          have : (U0 ++ [k]).Nodup := by
            rw [List.nodup_append] at hnd; exact hnd.1
          rw [List.nodup_append] at this
          exact this.2.2 k hk k (by simp) rfl
        have k2 : k ≠ β := by
          intro e; subst e
          rw [List.nodup_append] at hnd
          exact hnd.2.2 k (by simp [hk]) k (by simp) rfl
        simp only [nx', upd_ne _ _ k1, upd_ne _ _ k2]
      · intro k hk
        have hkU : k ∈ U0 ++ [α] := List.mem_of_mem_tail hk
        have k1 : k ≠ hU := by
          intro e
          have : (U0 ++ [α]).Nodup := by rw [List.nodup_append] at hnd; exact hnd.1
          cases hu : U0 ++ [α] with
          | nil => simp at hu
          | cons a X =>
            rw [hu] at hk this
            have : hU = a := by simp [hU, hu]
            simp only [List.tail_cons] at hk
            rw [List.nodup_cons] at *
            rename_i t; exact t.1 (by rw [← this, ← e]; exact hk)
        have k2 : k ≠ hV := by
          intro e
          rw [List.nodup_append] at hnd
          exact hnd.2.2 k hkU hV hVmem e
        simp only [pv', upd_ne _ _ k1, upd_ne _ _ k2]
      · simp [nx']
      · simp [pv']
    cases hu : U0 ++ [α] with
    | nil => simp at hu
    | cons a X =>
      have e1 : hU = a := by simp [hU, hu]
      have : U0 ++ [α, hU] = a :: X ++ [a] := by rw [e1, ← hu]; simp
      rw [this] at key
      exact key
  · have key : Linked nx' pv' (V0 ++ [β, hV]) := by
      apply seg_relink V0 β hU hV hseg.2
      · intro k hk
        have k1 : k ≠ β := by
          intro e; subst e
          have : (V0 ++ [k]).Nodup := by
            rw [List.nodup_append] at hnd; exact hnd.2.1
          rw [List.nodup_append] at this
          exact this.2.2 k hk k (by simp) rfl
        have k2 : k ≠ α := by
          intro e; subst e
          rw [List.nodup_append] at hnd
          exact hnd.2.2 k (by simp) k (by simp [hk]) rfl
        simp only [nx', upd_ne _ _ k1, upd_ne _ _ k2]
      · intro k hk
        have hkV : k ∈ V0 ++ [β] := List.mem_of_mem_tail hk
        have k1 : k ≠ hV := by
          intro e
          have : (V0 ++ [β]).Nodup := by rw [List.nodup_append] at hnd; exact hnd.2.1
          cases hv : V0 ++ [β] with
          | nil => simp at hv
          | cons b Y =>
            rw [hv] at hk this
            have : hV = b := by simp [hV, hv]
            simp only [List.tail_cons] at hk
            rw [List.nodup_cons] at *
            rename_i t; exact t.1 (by rw [← this, ← e]; exact hk)
        have k2 : k ≠ hU := by
          intro e
          rw [List.nodup_append] at hnd
          exact hnd.2.2 hU hUmem k hkV e.symm
        simp only [pv', upd_ne _ _ k1, upd_ne _ _ k2]
      · simp [nx', upd_ne _ _ hαβ.symm]
      · simp [pv', upd_ne _ _ hUV.symm]
    cases hv : V0 ++ [β] with
    | nil => simp at hv
    | cons b Y =>
      have e1 : hV = b := by simp [hV, hv]
      have : V0 ++ [β, hV] = b :: Y ++ [b] := by rw [e1, ← hv]; simp
      rw [this] at key
      exact key

/-- rejoin: `A = A0 ++ [β]` (first element `hU`) and `B = B0 ++ [α]` (first element `hV`) are disjoint cycles; the same four
writes as in `split_lists` make `A ++ B` one cycle -/
theorem join_lists {nx pv : Nat → Nat} (A0 : List Nat) (β : Nat) (B0 : List Nat) (α : Nat)
    (hnd : (A0 ++ [β] ++ (B0 ++ [α])).Nodup)
    (hA : Cyc nx pv (A0 ++ [β])) (hB : Cyc nx pv (B0 ++ [α])) :
    let hU := (A0 ++ [β]).headD β
    let hV := (B0 ++ [α]).headD α
    let nx' := upd (upd nx β hV) α hU
    let pv' := upd (upd pv hV β) hU α
    nx β = hU ∧ nx α = hV ∧ Cyc nx' pv' (A0 ++ [β] ++ (B0 ++ [α])) := by
  intro hU hV nx' pv'
  have hαβ : α ≠ β := by
    intro e
    rw [List.nodup_append] at hnd
    exact hnd.2.2 β (by simp) α (by simp) e.symm
  have hUmem : hU ∈ A0 ++ [β] := by cases A0 <;> simp [hU]
  have hVmem : hV ∈ B0 ++ [α] := by cases B0 <;> simp [hV]
  have hUV : hU ≠ hV := by
    rw [List.nodup_append] at hnd
    exact hnd.2.2 hU hUmem hV hVmem
  have ndA : (A0 ++ [β]).Nodup := by rw [List.nodup_append] at hnd; exact hnd.1
  have ndB : (B0 ++ [α]).Nodup := by rw [List.nodup_append] at hnd; exact hnd.2.1
  have hdis : ∀ x ∈ A0 ++ [β], ∀ y ∈ B0 ++ [α], x ≠ y := by
    rw [List.nodup_append] at hnd; exact hnd.2.2
  have segA : Linked nx pv (A0 ++ [β, hU]) := by
    cases hu : A0 ++ [β] with
    | nil => simp at hu
    | cons a X =>
      rw [hu] at hA
      have e1 : hU = a := by simp [hU, hu]
      have : A0 ++ [β, hU] = a :: X ++ [a] := by rw [e1, ← hu]; simp
      rw [this]; exact hA
  have segB : Linked nx pv (B0 ++ [α, hV]) := by
    cases hv : B0 ++ [α] with
    | nil => simp at hv
    | cons b Y =>
      rw [hv] at hB
      have e1 : hV = b := by simp [hV, hv]
      have : B0 ++ [α, hV] = b :: Y ++ [b] := by rw [e1, ← hv]; simp
      rw [this]; exact hB
  have n1 := (linked_snoc2 _ _ _).mp segA
  have n2 := (linked_snoc2 _ _ _).mp segB
  refine ⟨n1.2.1, n2.2.1, ?_⟩
  have keyA : Linked nx' pv' (A0 ++ [β, hV]) := by
    apply seg_relink A0 β hU hV segA
    · intro k hk
      have k1 : k ≠ β := by
        intro e; subst e
        rw [List.nodup_append] at ndA
        exact ndA.2.2 k hk k (by simp) rfl
      have k2 : k ≠ α := by
        intro e; subst e
        exact hdis k (by simp [hk]) k (by simp) rfl
      simp only [nx', upd_ne _ _ k1, upd_ne _ _ k2]
    · intro k hk
      have hkA : k ∈ A0 ++ [β] := List.mem_of_mem_tail hk
      have k1 : k ≠ hU := by
        intro e
        cases hu : A0 ++ [β] with
        | nil => simp at hu
        | cons a X =>
          rw [hu] at hk ndA
          have : hU = a := by simp [hU, hu]
          simp only [List.tail_cons] at hk
          rw [List.nodup_cons] at ndA
          exact ndA.1 (by rw [← this, ← e]; exact hk)
      have k2 : k ≠ hV := fun e => hdis k hkA hV hVmem e
      simp only [pv', upd_ne _ _ k1, upd_ne _ _ k2]
    · simp [nx', upd_ne _ _ hαβ.symm]
    · simp [pv', upd_ne _ _ hUV.symm]
  have keyB : Linked nx' pv' (B0 ++ [α, hU]) := by
    apply seg_relink B0 α hV hU segB
    · intro k hk
      have k1 : k ≠ α := by
        intro e; subst e
        rw [List.nodup_append] at ndB
        exact ndB.2.2 k hk k (by simp) rfl
      have k2 : k ≠ β := by
        intro e; subst e
        exact hdis k (by simp) k (by simp [hk]) rfl
      simp only [nx', upd_ne _ _ k1, upd_ne _ _ k2]
    · intro k hk
      have hkB : k ∈ B0 ++ [α] := List.mem_of_mem_tail hk
      have k1 : k ≠ hV := by
        intro e
        cases hv : B0 ++ [α] with
        | nil => simp at hv
        | cons b Y =>
          rw [hv] at hk ndB
          have : hV = b := by simp [hV, hv]
          simp only [List.tail_cons] at hk
          rw [List.nodup_cons] at ndB
          exact ndB.1 (by rw [← this, ← e]; exact hk)
      have k2 : k ≠ hU := fun e => hdis hU hUmem k hkB e.symm
      simp only [pv', upd_ne _ _ k1, upd_ne _ _ k2]
    · simp [nx']
    · simp [pv']
  cases hu : A0 ++ [β] with
  | nil => simp at hu
  | cons a X =>
    cases hv : B0 ++ [α] with
    | nil => simp at hv
    | cons b Y =>
      rw [cyc_append_iff]
      have e1 : hU = a := by simp [hU, hu]
      have e2 : hV = b := by simp [hV, hv]
      have e3 : A0 ++ [β, hV] = a :: X ++ [b] := by rw [e2, ← hu]; simp
      have e4 : B0 ++ [α, hU] = b :: Y ++ [a] := by rw [e1, ← hv]; simp
      rw [e3] at keyA; rw [e4] at keyB
      exact ⟨keyA, keyB⟩

end Clipper.Lemmas.RCT
