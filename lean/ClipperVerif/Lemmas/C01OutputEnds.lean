/-
Helper lemmas for `Props/C01Output.lean`, part 3: the end points of the rings under construction through the primitives of
`Model/AelRings.lean` (`NewOutRec`, `AddOutPt`, `SwapOutrecs`, `JoinOutrecPaths`, ring closing), and which segments they log.
Core Lean only.
-/
import ClipperVerif.Lemmas.AelRingsRuns
namespace Clipper.Lemmas.C01Output
open Clipper Clipper.Model

/-- the point at the end `f` (`true` = front) of the ring of record `id` -/
def endAt (o : Out) (id : Nat) (f : Bool) : Option Pt := (o.rings[id]?).bind (fun g => endPt f g.pts)

/-- the end point of the ring end `(outrec, IsFront)` an edge holds -/
def endOf (o : Out) (k : Rec) : Option Pt := endAt o k.id k.front

theorem endAt_congr {o o' : Out} (h : o'.rings = o.rings) (id : Nat) (f : Bool) : endAt o' id f = endAt o id f := by
  simp [endAt, h]

theorem lt_of_liveAt {rings : List Ring} {id : Nat} (h : LiveAt rings id) : id < rings.length := by
  obtain ⟨g, hg, _⟩ := h
  rcases Nat.lt_or_ge id rings.length with h | h
  · exact h
  · rw [List.getElem?_eq_none h] at hg; cases hg

theorem endAt_some_of_live {o : Out} {id : Nat} (h : LiveAt o.rings id) (f : Bool) : ∃ p, endAt o id f = some p := by
  obtain ⟨g, hg, _, hne⟩ := h
  obtain ⟨p, hp⟩ := endPt_of_ne f g.pts hne
  exact ⟨p, by simp [endAt, hg, hp]⟩

/-! ### `NewOutRec` -/

theorem endAt_newRec_old (pt : Pt) (o : Out) (id : Nat) (f : Bool) (h : id < o.rings.length) :
    endAt (newRec pt o) id f = endAt o id f := by
  simp only [endAt, newRec]
  rw [List.getElem?_append_left h]

theorem endAt_newRec_new (pt : Pt) (o : Out) (f : Bool) : endAt (newRec pt o) o.rings.length f = some pt := by
  simp only [endAt, newRec]
  rw [List.getElem?_append_right (Nat.le_refl _)]
  cases f <;> simp [endPt]

theorem segs_newRec (pt : Pt) (o : Out) : (newRec pt o).segs = o.segs := rfl

/-! ### `AddOutPt` -/

theorem endAt_addOutPt_self (id : Nat) (f : Bool) (pt : Pt) (o : Out) (h : LiveAt o.rings id) :
    endAt (addOutPt id f pt o) id f = some pt := by
  obtain ⟨g, hg, hl, hne⟩ := h
  have hlt : id < o.rings.length := lt_of_liveAt ⟨g, hg, hl, hne⟩
  simp only [endAt, addOutPt_rings, hg, hl, if_true]
  rw [List.getElem?_set_self hlt]
  simp only [Option.bind_some]
  rcases addPt_spec f pt g with ⟨_, h2, h3⟩ | ⟨_, h2, _⟩
  · rw [h2]; exact h3
  · rw [h2]; cases f <;> simp [endPt]

theorem endAt_addOutPt_other (id : Nat) (f : Bool) (pt : Pt) (o : Out) (id' : Nat) (f' : Bool)
    (hne : id' ≠ id ∨ f' ≠ f) (hlive : LiveAt o.rings id') : endAt (addOutPt id f pt o) id' f' = endAt o id' f' := by
  simp only [endAt, addOutPt_rings]
  cases hg : o.rings[id]? with
  | none => rfl
  | some g =>
    simp only
    by_cases hl : g.stat = .live
    · simp only [hl, if_true]
      by_cases e : id' = id
      · subst e
        have hlt : id' < o.rings.length := lt_of_liveAt hlive
        rw [List.getElem?_set_self hlt, hg]
        simp only [Option.bind_some]
        have hf : f' = !f := by
          rcases hne with h | h
          · exact absurd rfl h
          · revert h; cases f <;> cases f' <;> simp
        obtain ⟨g', hg', _, hpne⟩ := hlive
        rw [hg] at hg'; cases hg'
        rcases addPt_spec f pt g with ⟨_, h2, _⟩ | ⟨_, h2, _⟩
        · rw [h2]
        · rw [h2, hf]
          cases f
          · simp only [Bool.not_false, endPt, if_true, Bool.false_eq_true, if_false]
            cases hp : g.pts with
            | nil => exact absurd hp hpne
            | cons a t => simp
          · simp only [Bool.not_true, endPt, Bool.false_eq_true, if_false, if_true]
            exact getLast?_cons_ne pt g.pts hpne
      · rw [List.getElem?_set_ne (fun h => e h.symm)]
    · simp only [hl, if_false]

/-- the segments `AddOutPt` logs: at most one, from the old end point to the new point, kind `extend` -/
theorem segs_addOutPt (id : Nat) (f : Bool) (pt : Pt) (o : Out) :
    ∀ sg ∈ (addOutPt id f pt o).segs, sg ∈ o.segs ∨ (some sg.p = endAt o id f ∧ sg.q = pt ∧ sg.kind = .extend) := by
  intro sg hsg
  unfold addOutPt at hsg
  cases hg : o.rings[id]? with
  | none => simp only [hg] at hsg; exact Or.inl hsg
  | some g =>
    simp only [hg] at hsg
    by_cases hl : g.stat = .live
    · simp only [hl, if_true, List.mem_append] at hsg
      rcases hsg with hsg | hsg
      · right
        unfold addPt at hsg
        cases he : endPt f g.pts with
        | none => simp [he] at hsg
        | some p =>
          simp only [he] at hsg
          split at hsg
          · simp at hsg
          · simp only [List.mem_singleton] at hsg
            subst hsg
            exact ⟨by simp [endAt, hg, he], rfl, rfl⟩
      · exact Or.inl hsg
    · simp only [hl, if_false] at hsg; exact Or.inl hsg

/-! ### `SwapOutrecs` (ghost), `logSeg`, ring closing -/

theorem endAt_handOver (id : Nat) (f : Bool) (o : Out) (id' : Nat) (f' : Bool) : endAt (handOver id f o) id' f' = endAt o id' f' := by
  unfold handOver
  cases hg : o.rings[id]? with
  | none => rfl
  | some g =>
    simp only [endAt]
    by_cases e : id' = id
    · subst e
      have hlt : id' < o.rings.length := by
        rcases Nat.lt_or_ge id' o.rings.length with h | h
        · exact h
        · rw [List.getElem?_eq_none h] at hg; cases hg
      rw [List.getElem?_set_self hlt, hg]
      cases f <;> rfl
    · rw [List.getElem?_set_ne (fun h => e h.symm)]

theorem endAt_logSeg (kd : SegKind) (i1 : Nat) (f1 : Bool) (i2 : Nat) (f2 : Bool) (o : Out) (id : Nat) (f : Bool) :
    endAt (logSeg kd i1 f1 i2 f2 o) id f = endAt o id f := endAt_congr (logSeg_rings kd i1 f1 i2 f2 o) id f

/-- the segment `logSeg` logs: from the end point of `(i1, f1)` to the end point of `(i2, f2)` -/
theorem segs_logSeg (kd : SegKind) (i1 : Nat) (f1 : Bool) (i2 : Nat) (f2 : Bool) (o : Out) :
    ∀ sg ∈ (logSeg kd i1 f1 i2 f2 o).segs, sg ∈ o.segs ∨ (some sg.p = endAt o i1 f1 ∧ some sg.q = endAt o i2 f2 ∧ sg.kind = kd) := by
  intro sg hsg
  unfold logSeg at hsg
  cases h1 : o.rings[i1]? with
  | none => simp only [h1] at hsg; exact Or.inl hsg
  | some r1 =>
    cases h2 : o.rings[i2]? with
    | none => simp only [h1, h2] at hsg; exact Or.inl hsg
    | some r2 =>
      simp only [h1, h2] at hsg
      cases e1 : endPt f1 r1.pts with
      | none => simp only [e1] at hsg; exact Or.inl hsg
      | some p =>
        cases e2 : endPt f2 r2.pts with
        | none => simp only [e1, e2] at hsg; exact Or.inl hsg
        | some q =>
          simp only [e1, e2, List.mem_cons] at hsg
          rcases hsg with rfl | hsg
          · right; exact ⟨by simp [endAt, h1, e1], by simp [endAt, h2, e2], rfl⟩
          · exact Or.inl hsg

theorem endAt_finish_other (id : Nat) (f : Bool) (o : Out) (id' : Nat) (f' : Bool) (hne : id' ≠ id) :
    endAt (finish id f o) id' f' = endAt o id' f' := by
  unfold finish
  cases hg : o.rings[id]? with
  | none => rfl
  | some g =>
    simp only [endAt]
    rw [List.getElem?_set_ne (fun h => hne h.symm)]

/-! ### `JoinOutrecPaths` -/

theorem endAt_joinPaths_other (A B : Nat) (f : Bool) (o : Out) (id' : Nat) (f' : Bool) (h1 : id' ≠ A) (h2 : id' ≠ B) :
    endAt (joinPaths A B f o) id' f' = endAt o id' f' := by
  unfold joinPaths
  cases hA : o.rings[A]? with
  | none => rfl
  | some ra =>
    cases hB : o.rings[B]? with
    | none => rfl
    | some rb =>
      simp only
      split
      · simp only [endAt]
        rw [List.getElem?_set_ne (fun h => h2 h.symm), List.getElem?_set_ne (fun h => h1 h.symm)]
      · rfl

/-- `JoinOutrecPaths(e1, e2)`, `A = e1.outrec`, `B = e2.outrec`, `f = IsFront(e1)`: the surviving ring `A` keeps its end `!f` and
inherits the end `f` of `B` -/
theorem endAt_joinPaths (A B : Nat) (f : Bool) (o : Out) (hne : A ≠ B) (hA : LiveAt o.rings A) (hB : LiveAt o.rings B) :
    endAt (joinPaths A B f o) A (!f) = endAt o A (!f) ∧ endAt (joinPaths A B f o) A f = endAt o B f := by
  obtain ⟨ra, hra, la, na⟩ := hA
  obtain ⟨rb, hrb, lb, nb⟩ := hB
  have hltA : A < o.rings.length := lt_of_liveAt ⟨ra, hra, la, na⟩
  unfold joinPaths
  simp only [hra, hrb, hne, la, lb, ne_eq, not_false_eq_true, and_self, if_true]
  simp only [endAt]
  rw [List.getElem?_set_ne (Ne.symm hne), List.getElem?_set_self hltA, hra, hrb]
  simp only [Option.bind_some]
  cases f
  · simp only [Bool.not_false, Bool.false_eq_true, if_false, endPt, if_true]
    exact ⟨head?_append_ne _ _ na, getLast?_append_ne _ _ nb⟩
  · simp only [Bool.not_true, if_true, endPt, Bool.false_eq_true, if_false]
    exact ⟨getLast?_append_ne _ _ na, head?_append_ne _ _ nb⟩

end Clipper.Lemmas.C01Output
