/-
Pure integer geometry behind `GetIntersection` called from an outside location, second half:
a segment that starts in the closed half-plane beyond the low side of a rectangle and meets the rectangle hits
the low edge, or (starting before the low end of that edge) the first adjacent edge, or the second adjacent edge —
exactly the three arms `GetIntersection` tries.  Offsets from the first end point as in `RectLinesCore`.
Core Lean only.
-/
import ClipperVerif.Lemmas.RectLinesCore
namespace Clipper.Lemmas.RLC

theorem hitO_start {c lo hi d1 d2 : Int} (h : c = 0 ∧ d1 ≠ c ∧ lo ≤ 0 ∧ 0 ≤ hi) : HitO c lo hi d1 d2 := Or.inl h
theorem hitO_end {c lo hi d1 d2 : Int} (h : c ≠ 0 ∧ d1 = c ∧ lo ≤ d2 ∧ d2 ≤ hi) : HitO c lo hi d1 d2 :=
  Or.inr (Or.inl h)
theorem hitO_cross {c lo hi d1 d2 : Int} (h1 : (0 < c ∧ c < d1) ∨ (d1 < c ∧ c < 0))
    (h2 : WOpp (c * d2 - lo * d1) (c * d2 - hi * d1)) : HitO c lo hi d1 d2 := Or.inr (Or.inr ⟨h1, h2⟩)

/-- `d ≤ u1` from `0 ≤ u1 * a - a * d`, `0 < a` -/
theorem le_of_cross_nonneg {u1 a d : Int} (ha : 0 < a) (h : 0 ≤ u1 * a - a * d) : d ≤ u1 := by
  by_cases hc : d ≤ u1
  · exact hc
  · exfalso
    have f := mlt ha (show u1 < d by omega)
    have c := Int.mul_comm u1 a
    omega

/-- `d ≤ u1` from `u1 * a - a * d ≤ 0`, `a < 0` -/
theorem le_of_cross_nonpos {u1 a d : Int} (ha : a < 0) (h : u1 * a - a * d ≤ 0) : d ≤ u1 := by
  by_cases hc : d ≤ u1
  · exact hc
  · exfalso
    have f := mltn ha (show u1 < d by omega)
    have c := Int.mul_comm u1 a
    omega

theorem mul_le_of_nonpos {u0 u1 d : Int} (hu : u0 < u1) (hd : d ≤ 0) : u1 * d ≤ u0 * d := by
  have := mle' (a := -d) (by omega) (Int.le_of_lt hu)
  simp only [Int.mul_neg] at this
  omega

/-- the first (guarded) adjacent edge, once the line is known to pass the low edge on its low side -/
theorem adj_low {u0 u1 a0 dx dy : Int} (hu0 : 0 ≤ u0) (hdx : u0 < dx) (ha0 : 0 < a0) (hdy : a0 ≤ dy)
    (g00 : u0 * dy - a0 * dx < 0) (g10 : 0 ≤ u1 * dy - a0 * dx) : HitO a0 u0 u1 dy dx := by
  by_cases c2 : dy = a0
  · refine hitO_end ⟨by omega, c2, by omega, ?_⟩
    rw [c2] at g10
    exact le_of_cross_nonneg ha0 g10
  · exact hitO_cross (Or.inl ⟨ha0, by omega⟩) (by unfold WOpp; omega)

/-- the second adjacent edge, once the line is known to pass the low edge on its high side -/
theorem adj_high {u0 u1 a1 dx dy : Int} (hu0 : 0 ≤ u0) (hdx : u0 < dx) (ha1 : a1 < 0) (hdy : dy ≤ a1)
    (g01 : 0 < u0 * dy - a1 * dx) (g11 : u1 * dy - a1 * dx ≤ 0) : HitO a1 u0 u1 dy dx := by
  by_cases c2 : dy = a1
  · refine hitO_end ⟨by omega, c2, by omega, ?_⟩
    rw [c2] at g11
    exact le_of_cross_nonpos ha1 g11
  · exact hitO_cross (Or.inr ⟨by omega, ha1⟩) (by unfold WOpp; omega)

/-- **Core, completeness direction.**  The segment starts at the origin, which is in the closed half-plane
`x ≤ u0` beyond the low side of the rectangle `[u0, u1] × [a0, a1]`, is not contained in the line of that side, and
meets the rectangle.  Then it hits the low edge, or starts below `a0` and hits the edge `y = a0`, or hits the edge
`y = a1`. -/
theorem meets_hitLow {u0 u1 a0 a1 dx dy : Int} (hu : u0 < u1) (ha : a0 < a1) (h0 : 0 ≤ u0)
    (hne : ¬ (u0 = 0 ∧ dx = 0)) (M : MeetsO u0 u1 a0 a1 dx dy) :
    HitO u0 a0 a1 dx dy ∨ (0 < a0 ∧ HitO a0 u0 u1 dy dx) ∨ HitO a1 u0 u1 dy dx := by
  obtain ⟨sL, sR, sT, sB, nA⟩ := M
  unfold AllSame at nA
  rcases Int.lt_trichotomy dx u0 with hd | hd | hd
  · -- the end point is beyond the side as well: the start point must be on the edge
    have hu0 : u0 = 0 := by omega
    have z : u0 * dy = 0 := by rw [hu0]; simp
    have hdx : dx < 0 := by omega
    refine Or.inl (hitO_start ⟨hu0, by omega, ?_, ?_⟩)
    · by_cases hc : 0 < a0
      · exfalso
        have f1 := mpn hc hdx
        have f2 := mpn (show 0 < a1 by omega) hdx
        have f3 := mpp (show 0 < u1 by omega) (show 0 < dy by omega)
        omega
      · omega
    · by_cases hc : a1 < 0
      · exfalso
        have f1 := mnn (show a0 < 0 by omega) hdx
        have f2 := mnn hc hdx
        have f3 := mpn (show 0 < u1 by omega) (show dy < 0 by omega)
        omega
      · omega
  · -- the end point is on the line of the side: it must be on the edge
    have hu0 : 0 < u0 := by omega
    have c0 : a0 * dx = u0 * a0 := by rw [hd, Int.mul_comm]
    have c1 : a1 * dx = u0 * a1 := by rw [hd, Int.mul_comm]
    have f0 := mlt hu0 ha
    refine Or.inl (hitO_end ⟨by omega, hd, ?_, ?_⟩)
    · by_cases hc : dy < a0
      · exfalso
        have f1 := mlt hu0 hc
        have f2 := mltn' (a := dy) (by omega) hu
        omega
      · omega
    · by_cases hc : a1 < dy
      · exfalso
        have f1 := mlt hu0 hc
        have f2 := mlt' (a := dy) (by omega) hu
        omega
      · omega
  · have hdx : 0 < dx := by omega
    have f0 := mlt' hdx ha
    rcases Int.lt_or_eq_of_le h0 with hu0 | hu0
    · -- the segment goes strictly across the line of the side
      by_cases hw : WOpp (u0 * dy - a0 * dx) (u0 * dy - a1 * dx)
      · exact Or.inl (hitO_cross (Or.inl ⟨hu0, hd⟩) hw)
      · rw [not_wopp] at hw
        rcases hw with ⟨w1, w2⟩ | ⟨w1, w2⟩
        · -- passes the side beyond its high end
          have g11 : u1 * dy - a1 * dx ≤ 0 := by omega
          have hdy : dy < 0 := by
            by_cases hc : dy < 0
            · exact hc
            · exfalso
              have := mle' (a := dy) (by omega) (Int.le_of_lt hu)
              omega
          have f1 := mpn hu0 hdy
          have ha1 : a1 < 0 := neg_of_mul_neg_right hdx (by omega)
          exact Or.inr (Or.inr (adj_high h0 hd ha1 (by omega) w2 g11))
        · -- passes the side before its low end
          have g10 : 0 ≤ u1 * dy - a0 * dx := by omega
          have hdy : 0 < dy := by
            by_cases hc : 0 < dy
            · exact hc
            · exfalso
              have := mul_le_of_nonpos hu (show dy ≤ 0 by omega)
              omega
          have f1 := mpp hu0 hdy
          have ha0 : 0 < a0 := pos_of_mul_pos_right hdx (by omega)
          exact Or.inr (Or.inl ⟨ha0, adj_low h0 hd ha0 (by omega) w1 g10⟩)
    · -- the start point is on the line of the side
      have z : u0 * dy = 0 := by rw [← hu0]; simp
      by_cases c1 : 0 < a0
      · have f1 := mpp c1 hdx
        have g10 : 0 ≤ u1 * dy - a0 * dx := by omega
        exact Or.inr (Or.inl ⟨c1, adj_low h0 hd c1 (by omega) (by omega) g10⟩)
      · by_cases c3 : a1 < 0
        · have f1 := mnp c3 hdx
          have g11 : u1 * dy - a1 * dx ≤ 0 := by omega
          exact Or.inr (Or.inr (adj_high h0 hd c3 (by omega) (by omega) g11))
        · exact Or.inl (hitO_start ⟨hu0.symm, by omega, by omega, by omega⟩)

/-- **Core.**  From a start point in the closed half-plane beyond the low side (and not along the line of that
side) the three arms succeed exactly when segment and rectangle meet. -/
theorem low_iff {u0 u1 a0 a1 dx dy : Int} (hu : u0 < u1) (ha : a0 < a1) (h0 : 0 ≤ u0) (hne : ¬ (u0 = 0 ∧ dx = 0)) :
    (HitO u0 a0 a1 dx dy ∨ (0 < a0 ∧ HitO a0 u0 u1 dy dx) ∨ HitO a1 u0 u1 dy dx) ↔ MeetsO u0 u1 a0 a1 dx dy := by
  constructor
  · rintro (h | ⟨_, h⟩ | h)
    · exact hitLow_meets hu ha h
    · exact hitLowT_meets hu ha h
    · exact hitHighT_meets hu ha h
  · exact meets_hitLow hu ha h0 hne

/-- mirror image: start point beyond the high side -/
theorem high_iff {u0 u1 a0 a1 dx dy : Int} (hu : u0 < u1) (ha : a0 < a1) (h0 : u1 ≤ 0) (hne : ¬ (u1 = 0 ∧ dx = 0)) :
    (HitO u1 a0 a1 dx dy ∨ (0 < a0 ∧ HitO a0 u0 u1 dy dx) ∨ HitO a1 u0 u1 dy dx) ↔ MeetsO u0 u1 a0 a1 dx dy := by
  have h := low_iff (u0 := -u1) (u1 := -u0) (a0 := a0) (a1 := a1) (dx := -dx) (dy := dy) (by omega) ha (by omega)
    (by omega)
  rw [hitO_mirror1, hitO_mirror2, hitO_mirror2, meetsO_mirror] at h
  exact h

/-- transposed: start point beyond the low side in the second coordinate -/
theorem lowT_iff {u0 u1 a0 a1 dx dy : Int} (hu : u0 < u1) (ha : a0 < a1) (h0 : 0 ≤ a0) (hne : ¬ (a0 = 0 ∧ dy = 0)) :
    (HitO a0 u0 u1 dy dx ∨ (0 < u0 ∧ HitO u0 a0 a1 dx dy) ∨ HitO u1 a0 a1 dx dy) ↔ MeetsO u0 u1 a0 a1 dx dy := by
  rw [← meetsO_transpose]
  exact low_iff ha hu h0 hne

/-- transposed mirror image: start point beyond the high side in the second coordinate -/
theorem highT_iff {u0 u1 a0 a1 dx dy : Int} (hu : u0 < u1) (ha : a0 < a1) (h0 : a1 ≤ 0) (hne : ¬ (a1 = 0 ∧ dy = 0)) :
    (HitO a1 u0 u1 dy dx ∨ (0 < u0 ∧ HitO u0 a0 a1 dx dy) ∨ HitO u1 a0 a1 dx dy) ↔ MeetsO u0 u1 a0 a1 dx dy := by
  rw [← meetsO_transpose]
  exact high_iff ha hu h0 hne

end Clipper.Lemmas.RLC
