/-
Lemmas about the `AddPaths_` model (Model/AddPathsRings.lean): the duplicate-skipping point loop, the ring, rotations.
Core Lean only.
-/
import ClipperVerif.Model.AddPathsRings
namespace Clipper.Lemmas.AddPathsRings
open Clipper Clipper.Model.AddPathsRings

/-! ### the point loop: `pushPts` removes exactly the consecutive duplicates -/

/-- no two neighbours in the list are equal -/
def NoAdjDup : List Pt → Prop
  | [] => True
  | [_] => True
  | a :: b :: l => a ≠ b ∧ NoAdjDup (b :: l)

instance : (l : List Pt) → Decidable (NoAdjDup l)
  | [] => isTrue trivial
  | [_] => isTrue trivial
  | a :: b :: l =>
    have : Decidable (NoAdjDup (b :: l)) := instDecidableNoAdjDup (b :: l)
    by unfold NoAdjDup; infer_instance

/-- no two cyclic neighbours are equal (for lists of at least two elements) -/
def CycNoAdjDup (l : List Pt) : Prop := NoAdjDup l ∧ (2 ≤ l.length → l.getLast? ≠ l.head?)

/-- `Stutter r l`: `l` is `r` with every element repeated one or more times in place -/
inductive Stutter : List Pt → List Pt → Prop
  | nil : Stutter [] []
  | cons (a : Pt) {r l : List Pt} : Stutter r l → Stutter (a :: r) (a :: l)
  | dup (a : Pt) {r l : List Pt} : Stutter (a :: r) (a :: l) → Stutter (a :: r) (a :: a :: l)

@[simp] theorem pushPts_none_cons (p : Pt) (ps : List Pt) : pushPts none (p :: ps) = p :: pushPts (some p) ps := rfl
@[simp] theorem pushPts_nil (o : Option Pt) : pushPts o [] = [] := by cases o <;> rfl
theorem pushPts_some_cons (q p : Pt) (ps : List Pt) :
    pushPts (some q) (p :: ps) = if q = p then pushPts (some q) ps else p :: pushPts (some p) ps := rfl

theorem pushPts_some_self (q : Pt) (ps : List Pt) : pushPts (some q) (q :: ps) = pushPts (some q) ps := by
  simp [pushPts_some_cons]

theorem pushPts_some_ne {q p : Pt} (h : q ≠ p) (ps : List Pt) : pushPts (some q) (p :: ps) = p :: pushPts (some p) ps := by
  simp [pushPts_some_cons, h]

/-- the written points are a subsequence of the path -/
theorem pushPts_sublist : ∀ (o : Option Pt) (l : List Pt), (pushPts o l).Sublist l
  | o, [] => by simp
  | none, p :: ps => by simpa using (pushPts_sublist (some p) ps)
  | some q, p :: ps => by
    rw [pushPts_some_cons]; split
    · exact (pushPts_sublist (some q) ps).cons p
    · exact (pushPts_sublist (some p) ps).cons_cons p

theorem pushPts_length_le (o : Option Pt) (l : List Pt) : (pushPts o l).length ≤ l.length :=
  (pushPts_sublist o l).length_le

/-- the head of what is written after `q` differs from `q` -/
theorem pushPts_some_head_ne (q : Pt) : ∀ (l : List Pt), (pushPts (some q) l).head? ≠ some q
  | [] => by simp
  | p :: ps => by
    rw [pushPts_some_cons]; split
    · exact pushPts_some_head_ne q ps
    · rename_i h; simp; exact fun e => h e.symm

theorem noAdjDup_cons_of_head_ne {a : Pt} {l : List Pt} (h : l.head? ≠ some a) (hl : NoAdjDup l) : NoAdjDup (a :: l) := by
  cases l with
  | nil => trivial
  | cons b l => exact ⟨fun e => h (by simp [e]), hl⟩

theorem pushPts_some_noAdjDup (q : Pt) : ∀ (l : List Pt), NoAdjDup (pushPts (some q) l)
  | [] => by simp [NoAdjDup]
  | p :: ps => by
    rw [pushPts_some_cons]; split
    · exact pushPts_some_noAdjDup q ps
    · exact noAdjDup_cons_of_head_ne (pushPts_some_head_ne p ps) (pushPts_some_noAdjDup p ps)

/-- no two consecutive written points are equal -/
theorem pushPts_noAdjDup : ∀ (l : List Pt), NoAdjDup (pushPts none l)
  | [] => by simp [NoAdjDup]
  | p :: ps => noAdjDup_cons_of_head_ne (pushPts_some_head_ne p ps) (pushPts_some_noAdjDup p ps)

/-- every skipped point equals the point written before it -/
theorem pushPts_some_stutter (q : Pt) : ∀ (l : List Pt), Stutter (q :: pushPts (some q) l) (q :: l)
  | [] => by simpa using Stutter.cons q Stutter.nil
  | p :: ps => by
    rw [pushPts_some_cons]; split
    · rename_i h; subst h; exact Stutter.dup q (pushPts_some_stutter q ps)
    · exact Stutter.cons q (pushPts_some_stutter p ps)

theorem pushPts_stutter : ∀ (l : List Pt), Stutter (pushPts none l) l
  | [] => by simpa using Stutter.nil
  | p :: ps => pushPts_some_stutter p ps

/-- repeating elements in place does not change what is written -/
theorem pushPts_of_stutter {r l : List Pt} (h : Stutter r l) : pushPts none l = pushPts none r := by
  induction h with
  | nil => rfl
  | cons a h ih =>
    rename_i r l
    simp only [pushPts_none_cons]
    congr 1
    cases h with
    | nil => rfl
    | cons b h' =>
      simp only [pushPts_none_cons] at ih
      by_cases hab : a = b
      · subst hab; simp only [pushPts_some_self]; exact (List.cons.inj ih).2
      · rw [pushPts_some_ne hab, pushPts_some_ne hab, (List.cons.inj ih).2]
    | dup b h' =>
      simp only [pushPts_none_cons] at ih
      by_cases hab : a = b
      · subst hab; simp only [pushPts_some_self] at ih ⊢; exact (List.cons.inj ih).2
      · rw [pushPts_some_ne hab, pushPts_some_ne hab]; exact congrArg _ (List.cons.inj ih).2
  | dup a h ih =>
    simp only [pushPts_none_cons, pushPts_some_self] at ih ⊢
    exact ih

/-- a list without consecutive duplicates is written as it is -/
theorem pushPts_some_of_noAdjDup (q : Pt) : ∀ (l : List Pt), l.head? ≠ some q → NoAdjDup l → pushPts (some q) l = l
  | [], _, _ => rfl
  | p :: ps, h, hl => by
    have hqp : q ≠ p := fun e => h (by simp [e])
    rw [pushPts_some_ne hqp]
    congr 1
    cases ps with
    | nil => rfl
    | cons b ps => exact pushPts_some_of_noAdjDup p (b :: ps) (by simp; exact fun e => hl.1 e.symm) hl.2

theorem pushPts_of_noAdjDup : ∀ (l : List Pt), NoAdjDup l → pushPts none l = l
  | [], _ => rfl
  | [p], _ => rfl
  | p :: b :: ps, hl => by
    simp only [pushPts_none_cons]; congr 1
    exact pushPts_some_of_noAdjDup p (b :: ps) (by simp; exact fun e => hl.1 e.symm) hl.2

/-- inserting a duplicate of a vertex next to it, anywhere in the path, changes nothing that is written -/
theorem pushPts_insert_dup (o : Option Pt) (l₁ : List Pt) (a : Pt) (l₂ : List Pt) :
    pushPts o (l₁ ++ a :: a :: l₂) = pushPts o (l₁ ++ a :: l₂) := by
  induction l₁ generalizing o with
  | nil =>
    cases o with
    | none => simp [pushPts_some_self]
    | some q =>
      simp only [List.nil_append, pushPts_some_cons]
      split <;> simp
  | cons b l₁ ih =>
    cases o with
    | none => simp only [List.cons_append, pushPts_none_cons, ih]
    | some q => simp only [List.cons_append, pushPts_some_cons, ih]


/-! ### the ring -/

theorem NoAdjDup.tail {a : Pt} {l : List Pt} (h : NoAdjDup (a :: l)) : NoAdjDup l := by
  cases l with
  | nil => trivial
  | cons b l => exact h.2

theorem NoAdjDup.append_left : ∀ {l₁ l₂ : List Pt}, NoAdjDup (l₁ ++ l₂) → NoAdjDup l₁
  | [], _, _ => trivial
  | [_], _, _ => trivial
  | _ :: b :: l₁, _, h => ⟨h.1, NoAdjDup.append_left (l₁ := b :: l₁) h.2⟩

theorem NoAdjDup.last_two : ∀ {l : List Pt} {a b : Pt}, NoAdjDup (l ++ [a, b]) → a ≠ b
  | [], _, _, h => h.1
  | [_], _, _, h => h.2.1
  | _ :: y :: l, _, _, h => NoAdjDup.last_two (l := y :: l) h.2

theorem ringOf_open (vs : List Pt) : ringOf true vs = vs := by simp [ringOf]

/-- the ring of a path with at least two written vertices has at least two vertices and no equal (cyclic) neighbours -/
theorem ringOf_closed_spec (vs : List Pt) (hn : NoAdjDup vs) (hl : 2 ≤ vs.length) :
    2 ≤ (ringOf false vs).length ∧ CycNoAdjDup (ringOf false vs) ∧ (ringOf false vs).head? = vs.head? := by
  unfold ringOf
  simp only [Bool.not_false, Bool.true_and]
  split
  · rename_i heq
    have heq : vs.getLast? = vs.head? := by simpa using heq
    -- vs = ys ++ [z]
    match vs, hl with
    | a :: b :: rest, _ =>
      obtain ⟨ys, hys⟩ := List.getLast?_eq_some_iff.mp (show (a :: b :: rest).getLast? = some ((a :: b :: rest).getLast (by simp)) from List.getLast?_eq_some_getLast (by simp))
      generalize (a :: b :: rest).getLast (by simp) = z at hys
      have hz : z = a := by
        rw [hys] at heq; simp only [List.getLast?_concat] at heq
        rw [← hys] at heq; simpa using heq
      subst hz
      rw [hys, List.dropLast_concat]
      -- ys is nonempty with head z, and has a last element y ≠ z
      match ys, hys with
      | [], h => simp at h
      | [y], h =>
        simp at h
        obtain ⟨h1, h2, h3⟩ := h
        subst h1; exact absurd h2.symm hn.1 |> False.elim
      | y1 :: y2 :: ys', h =>
        have hhead : y1 = z := by simp at h; exact h.1.symm
        refine ⟨by simp, ⟨?_, ?_⟩, by simp [hhead]⟩
        · rw [h] at hn; exact NoAdjDup.append_left hn
        · intro _
          -- last of ys ≠ z
          obtain ⟨ws, hws⟩ := List.getLast?_eq_some_iff.mp (show (y1 :: y2 :: ys').getLast? = some ((y1 :: y2 :: ys').getLast (by simp)) from List.getLast?_eq_some_getLast (by simp))
          generalize (y1 :: y2 :: ys').getLast (by simp) = w at hws
          rw [hws, List.getLast?_concat]
          rw [← hws]
          simp only [List.head?_cons, ne_eq, Option.some.injEq]
          rw [hhead]
          have : NoAdjDup (ws ++ [w, z]) := by
            rw [h, hws] at hn; simpa using hn
          exact NoAdjDup.last_two this
  · rename_i hne
    have hne : vs.getLast? ≠ vs.head? := by simpa using hne
    exact ⟨hl, ⟨hn, fun _ => hne⟩, rfl⟩


/-! ### the scan, field by field -/

/-- `going_up` after the edge `prev → c` -/
def stepG (g : Bool) (prev c : Pt) : Bool :=
  if c.y > prev.y && g then false else if c.y < prev.y && !g then true else g

/-- final flags of `prev_v` when `curr_v = c` is visited -/
def stepFlag (g : Bool) (prev : Pt) (pf : VFlags) (c : Pt) : VFlags :=
  if c.y > prev.y && g then { pf with localMax := true } else if c.y < prev.y && !g then (addLocMin pf).1 else pf

/-- did `AddLocMin(prev_v)` append? -/
def stepMin (g : Bool) (prev : Pt) (pf : VFlags) (c : Pt) : Bool :=
  !(c.y > prev.y && g) && (c.y < prev.y && !g) && (addLocMin pf).2

theorem scan_cons_flags (g : Bool) (prev : Pt) (pf : VFlags) (i : Nat) (c : Pt) (cs : List Pt) :
    (scan g prev pf i (c :: cs)).flags = stepFlag g prev pf c :: (scan (stepG g prev c) c VFlags.empty (i + 1) cs).flags := by
  simp only [scan, stepFlag, stepG]
  split
  · rfl
  · split <;> rfl

theorem scan_cons_minima (g : Bool) (prev : Pt) (pf : VFlags) (i : Nat) (c : Pt) (cs : List Pt) :
    (scan g prev pf i (c :: cs)).minima =
      (if stepMin g prev pf c then [i] else []) ++ (scan (stepG g prev c) c VFlags.empty (i + 1) cs).minima := by
  simp only [scan, stepMin, stepG]
  split
  · rename_i h; simp [h]
  · rename_i h
    split
    · rename_i h2; simp [h, h2]
    · rename_i h2; simp [h2]

theorem scan_cons_goingUp (g : Bool) (prev : Pt) (pf : VFlags) (i : Nat) (c : Pt) (cs : List Pt) :
    (scan g prev pf i (c :: cs)).goingUp = (scan (stepG g prev c) c VFlags.empty (i + 1) cs).goingUp := by
  simp only [scan, stepG]
  split
  · rfl
  · split <;> rfl

theorem scan_cons_lastFlags (g : Bool) (prev : Pt) (pf : VFlags) (i : Nat) (c : Pt) (cs : List Pt) :
    (scan g prev pf i (c :: cs)).lastFlags = (scan (stepG g prev c) c VFlags.empty (i + 1) cs).lastFlags := by
  simp only [scan, stepG]
  split
  · rfl
  · split <;> rfl

theorem scan_cons_lastIdx (g : Bool) (prev : Pt) (pf : VFlags) (i : Nat) (c : Pt) (cs : List Pt) :
    (scan g prev pf i (c :: cs)).lastIdx = (scan (stepG g prev c) c VFlags.empty (i + 1) cs).lastIdx := by
  simp only [scan, stepG]
  split
  · rfl
  · split <;> rfl

theorem scan_flags_length (g : Bool) (prev : Pt) (pf : VFlags) (i : Nat) (cs : List Pt) :
    (scan g prev pf i cs).flags.length = cs.length := by
  induction cs generalizing g prev pf i with
  | nil => rfl
  | cons c cs ih => rw [scan_cons_flags]; simp [ih]

theorem scan_lastIdx (g : Bool) (prev : Pt) (pf : VFlags) (i : Nat) (cs : List Pt) :
    (scan g prev pf i cs).lastIdx = i + cs.length := by
  induction cs generalizing g prev pf i with
  | nil => rfl
  | cons c cs ih => rw [scan_cons_lastIdx, ih]; simp; omega

/-- the vertex `prev_v` on loop exit carries untouched flags: its own if the loop body never ran, else `Empty` -/
theorem scan_lastFlags (g : Bool) (prev : Pt) (pf : VFlags) (i : Nat) (cs : List Pt) :
    (scan g prev pf i cs).lastFlags = if cs.isEmpty then pf else VFlags.empty := by
  induction cs generalizing g prev pf i with
  | nil => rfl
  | cons c cs ih => rw [scan_cons_lastFlags, ih]; cases cs <;> rfl

/-- the indices appended by the loop are `≥ i`, `< i + cs.length`, strictly increasing -/
theorem scan_minima_bounds (g : Bool) (prev : Pt) (pf : VFlags) (i : Nat) (cs : List Pt) :
    (∀ m ∈ (scan g prev pf i cs).minima, i ≤ m ∧ m < i + cs.length) ∧
    (scan g prev pf i cs).minima.Pairwise (· < ·) := by
  induction cs generalizing g prev pf i with
  | nil => simp [scan]
  | cons c cs ih =>
    rw [scan_cons_minima]
    have ih' := ih (stepG g prev c) c VFlags.empty (i + 1)
    constructor
    · intro m hm
      rcases List.mem_append.mp hm with h | h
      · split at h
        · simp at h; subst h; simp
        · simp at h
      · have := ih'.1 m h; simp; omega
    · rw [List.pairwise_append]
      refine ⟨by split <;> simp, ih'.2, ?_⟩
      intro a ha b hb
      have := ih'.1 b hb
      split at ha
      · simp at ha; omega
      · simp at ha


/-! ### minima = the vertices flagged `LocalMin`, in ring order -/

/-- ring indices (counted from `i`) of the flags with `LocalMin` -/
def minIdx : Nat → List VFlags → List Nat
  | _, [] => []
  | i, f :: fs => (if f.localMin then [i] else []) ++ minIdx (i + 1) fs

theorem minIdx_append (i : Nat) (a b : List VFlags) : minIdx i (a ++ b) = minIdx i a ++ minIdx (i + a.length) b := by
  induction a generalizing i with
  | nil => simp [minIdx]
  | cons f fs ih => simp [minIdx, ih, Nat.add_assoc, Nat.add_comm 1]

theorem minIdx_all_empty (i : Nat) (l : List VFlags) (h : ∀ f ∈ l, f.localMin = false) : minIdx i l = [] := by
  induction l generalizing i with
  | nil => rfl
  | cons f fs ih =>
    simp only [minIdx, h f (by simp)]
    simpa using ih (i + 1) (fun g hg => h g (by simp [hg]))

theorem minIdx_bounds (i : Nat) (l : List VFlags) : ∀ m ∈ minIdx i l, i ≤ m ∧ m < i + l.length := by
  induction l generalizing i with
  | nil => simp [minIdx]
  | cons f fs ih =>
    intro m hm
    simp only [minIdx, List.mem_append] at hm
    rcases hm with h | h
    · split at h
      · simp at h; subst h; simp
      · simp at h
    · have := ih (i + 1) m h; simp; omega

theorem minIdx_flag (i : Nat) (l : List VFlags) : ∀ m ∈ minIdx i l, ∃ f, l[m - i]? = some f ∧ f.localMin = true := by
  induction l generalizing i with
  | nil => simp [minIdx]
  | cons f fs ih =>
    intro m hm
    simp only [minIdx, List.mem_append] at hm
    rcases hm with h | h
    · split at h
      · rename_i hf; simp at h; subst h; exact ⟨f, by simp, hf⟩
      · simp at h
    · obtain ⟨f', hf', hm'⟩ := ih (i + 1) m h
      have hb := (minIdx_bounds (i + 1) fs m h).1
      refine ⟨f', ?_, hm'⟩
      have : m - i = (m - (i + 1)) + 1 := by omega
      rw [this]; simpa using hf'

/-- the step appends exactly when the vertex ends up flagged (given it is not flagged already unless going up) -/
theorem step_min_flag {i : Nat} (g : Bool) (prev : Pt) (pf : VFlags) (c : Pt) (h : pf.localMin = true → g = true) :
    ((if pf.localMin then [i] else []) ++ (if stepMin g prev pf c then [i] else []) : List Nat) =
      if (stepFlag g prev pf c).localMin then [i] else [] := by
  unfold stepMin stepFlag addLocMin
  cases hg : g <;> cases hl : pf.localMin <;> simp_all <;> (split <;> simp_all)

theorem scan_minima_eq (g : Bool) (prev : Pt) (pf : VFlags) (i : Nat) (cs : List Pt) (h : pf.localMin = true → g = true) :
    (if pf.localMin then [i] else []) ++ (scan g prev pf i cs).minima =
      minIdx i ((scan g prev pf i cs).flags ++ [(scan g prev pf i cs).lastFlags]) := by
  induction cs generalizing g prev pf i with
  | nil => simp [scan, minIdx]
  | cons c cs ih =>
    rw [scan_cons_minima, scan_cons_flags, scan_cons_lastFlags]
    have ih' := ih (stepG g prev c) c VFlags.empty (i + 1) (by simp [VFlags.empty])
    simp only [VFlags.empty, Bool.false_eq_true, if_false, List.nil_append] at ih'
    simp only [List.cons_append, minIdx]
    rw [← step_min_flag g prev pf c h, ← List.append_assoc]
    congr 1


theorem openStart_spec (v0 : Pt) (tl : List Pt) :
    (openStart v0 tl).2.2 = (if (openStart v0 tl).2.1.localMin then [0] else []) ∧
    ((openStart v0 tl).2.1.localMin = true → (openStart v0 tl).1 = true) := by
  unfold openStart
  simp only [addLocMin]
  split
  · simp
  · split <;> simp

theorem openEnd_spec (s : ScanOut) :
    (if s.lastFlags.localMin then [s.lastIdx] else []) ++ (openEnd s).2 =
      if (openEnd s).1.localMin then [s.lastIdx] else [] := by
  unfold openEnd addLocMin
  cases hg : s.goingUp <;> cases hl : s.lastFlags.localMin <;> simp [hl]

theorem closedEnd_spec (g0 : Bool) (s : ScanOut) (h : s.lastFlags.localMin = false) :
    (closedEnd g0 s).2 = if (closedEnd g0 s).1.localMin then [s.lastIdx] else [] := by
  unfold closedEnd addLocMin
  cases hg : s.goingUp <;> cases g0 <;> simp [h]

/-- **the "only once" guard of `AddLocMin` never drops anything**: the minima appended for a ring are exactly the
vertices that end up flagged `LocalMin`, in ring order. -/
theorem findMinima_minima (isOpen : Bool) (r0 : Pt) (rtl : List Pt) :
    (findMinima isOpen r0 rtl).2 = minIdx 0 (findMinima isOpen r0 rtl).1 := by
  unfold findMinima
  cases isOpen with
  | true =>
    simp only [if_true]
    have hst := openStart_spec r0 rtl
    generalize openStart r0 rtl = st at hst
    obtain ⟨g, f0, m0⟩ := st
    simp only at hst ⊢
    have hs := scan_minima_eq g r0 f0 0 rtl hst.2
    have hli : (scan g r0 f0 0 rtl).lastIdx = (scan g r0 f0 0 rtl).flags.length := by
      rw [scan_lastIdx, scan_flags_length]; simp
    rw [minIdx_append] at hs ⊢
    rw [hst.1, hs, List.append_assoc]; congr 1
    simp only [minIdx, List.append_nil, Nat.zero_add]
    rw [← hli]
    exact openEnd_spec _
  | false =>
    simp only [Bool.false_eq_true, if_false]
    split
    · simp only
      rw [minIdx_all_empty]
      intro f hf
      simp only [List.mem_map] at hf
      obtain ⟨_, _, rfl⟩ := hf; rfl
    · rename_i g0 _
      simp only
      have hs := scan_minima_eq g0 r0 VFlags.empty 0 rtl (fun h => absurd h (by decide))
      have h0 : VFlags.empty.localMin = false := rfl
      have hli : (scan g0 r0 VFlags.empty 0 rtl).lastIdx = (scan g0 r0 VFlags.empty 0 rtl).flags.length := by
        rw [scan_lastIdx, scan_flags_length]; simp
      have hlf : (scan g0 r0 VFlags.empty 0 rtl).lastFlags.localMin = false := by
        rw [scan_lastFlags]; split <;> rfl
      rw [h0] at hs
      simp only [Bool.false_eq_true, if_false, List.nil_append] at hs
      rw [minIdx_append] at hs ⊢
      simp only [minIdx, hlf, Bool.false_eq_true, if_false, List.append_nil, Nat.zero_add] at hs ⊢
      rw [← hs, ← hli]
      congr 1
      exact closedEnd_spec g0 _ hlf


/-! ### closed rings: what the flags mean -/

theorem firstDiffY_append_same (y0 : Int) (l : List Pt) (c : Pt) (h : c.y = y0) :
    firstDiffY y0 (l ++ [c]) = firstDiffY y0 l := by
  induction l with
  | nil => simp [firstDiffY, h]
  | cons p ps ih => simp only [List.cons_append, firstDiffY, ih]

theorem firstDiffY_none_iff (y0 : Int) (l : List Pt) : firstDiffY y0 l = none ↔ ∀ p ∈ l, p.y = y0 := by
  induction l with
  | nil => simp [firstDiffY]
  | cons p ps ih =>
    simp only [firstDiffY]
    split
    · rename_i h; simp [ih, h]
    · rename_i h; simp [h]

/-- **the direction in which a ring arrives at a vertex of ordinate `y`**: walk back through `before` (nearest vertex
first) to the first vertex whose `y` differs; `some true` = arriving *upwards* (that vertex is lower on the screen: larger
`y`, the library's y axis points down), `some false` = arriving downwards, `none` = every vertex in `before` has ordinate `y`. -/
def arriveUp (y : Int) (before : List Pt) : Option Bool := (firstDiffY y before).map (fun p => decide (p.y > y))

/-- **closed ring, the flags of one vertex in the code's sense.**  `v` is the vertex, `others` the remaining vertices of
the ring in ring order starting with `v`'s successor.  `v` is a local *maximum* (top of the screen, smallest `y`) iff
the ring arrives at it upwards (horizontal edges skipped backwards) and leaves it downwards (`next.y > v.y`);
it is a local *minimum* iff the ring arrives downwards and leaves upwards (`next.y < v.y`).  Consequently, of a horizontal
run at a local extremum, the *last* vertex in ring order carries the flag. -/
def closedFlagsAt (v : Pt) (others : List Pt) : VFlags :=
  match others.head?, arriveUp v.y others.reverse with
  | some nx, some up => { localMax := up && decide (nx.y > v.y), localMin := !up && decide (nx.y < v.y) }
  | _, _ => {}

/-- `closedFlagsAt` for every vertex of `xs`, where `w` are the vertices that follow `xs` cyclically (up to where `xs` starts) -/
def specW : List Pt → List Pt → List VFlags
  | [], _ => []
  | v :: cs, w => closedFlagsAt v (cs ++ w) :: specW cs (w ++ [v])

theorem specW_length (xs w : List Pt) : (specW xs w).length = xs.length := by
  induction xs generalizing w with
  | nil => rfl
  | cons v cs ih => simp [specW, ih]

theorem specW_append (xs ys w : List Pt) : specW (xs ++ ys) w = specW xs (ys ++ w) ++ specW ys (w ++ xs) := by
  induction xs generalizing w with
  | nil => simp [specW]
  | cons v cs ih => simp [specW, ih, List.append_assoc]

theorem arriveUp_step (g : Bool) (prev c : Pt) (R : List Pt) (h : arriveUp prev.y (R ++ [c]) = some g) :
    arriveUp c.y (prev :: R) = some (stepG g prev c) := by
  unfold arriveUp at h ⊢
  simp only [firstDiffY]
  by_cases hy : prev.y = c.y
  · rw [if_pos hy, ← hy]
    rw [firstDiffY_append_same _ _ _ hy.symm] at h
    rw [h]; congr 1
    simp [stepG, hy]
  · rw [if_neg hy]
    simp only [Option.map_some, stepG]
    congr 1
    have : c.y < prev.y ∨ c.y > prev.y := by omega
    rcases this with h1 | h1
    · have h2 : ¬ (c.y > prev.y) := by omega
      cases g <;> simp [h1, h2]
    · have h2 : ¬ (c.y < prev.y) := by omega
      have h3 : ¬ (prev.y > c.y) := by omega
      cases g <;> simp [h1, h2]

theorem stepFlag_closed (g : Bool) (prev c : Pt) (rest : List Pt) (h : arriveUp prev.y (c :: rest).reverse = some g) :
    stepFlag g prev VFlags.empty c = closedFlagsAt prev (c :: rest) := by
  unfold closedFlagsAt stepFlag addLocMin
  simp only [List.head?_cons, h, VFlags.empty]
  cases g
  · by_cases h2 : c.y < prev.y <;> simp [h2]
  · by_cases h1 : c.y > prev.y <;> simp [h1]

/-- the loop invariant: `going_up` is the direction in which the ring arrives at `prev_v` -/
theorem scan_closed (g : Bool) (prev : Pt) (i : Nat) (cs w : List Pt)
    (h : arriveUp prev.y (cs ++ w).reverse = some g) :
    specW (prev :: cs) w = (scan g prev VFlags.empty i cs).flags ++
        [closedFlagsAt ((prev :: cs).getLast (by simp)) (w ++ (prev :: cs).dropLast)] ∧
    arriveUp ((prev :: cs).getLast (by simp)).y (w ++ (prev :: cs).dropLast).reverse = some (scan g prev VFlags.empty i cs).goingUp := by
  induction cs generalizing g prev i w with
  | nil => simpa [specW, scan] using h
  | cons c cs ih =>
    have hstep : arriveUp c.y (cs ++ (w ++ [prev])).reverse = some (stepG g prev c) := by
      have := arriveUp_step g prev c (cs ++ w).reverse (by simpa using h)
      simpa using this
    have ih' := ih (stepG g prev c) c (i + 1) (w ++ [prev]) hstep
    rw [scan_cons_flags, scan_cons_goingUp]
    constructor
    · rw [specW, ih'.1, stepFlag_closed g prev c (cs ++ w) (by simpa using h)]
      simp [List.getLast_cons, List.dropLast]
    · have := ih'.2
      simpa [List.getLast_cons, List.dropLast] using this


theorem closedFlagsAt_flat (v : Pt) (others : List Pt) (h : ∀ p ∈ others, p.y = v.y) : closedFlagsAt v others = {} := by
  unfold closedFlagsAt arriveUp
  have : firstDiffY v.y others.reverse = none := (firstDiffY_none_iff _ _).mpr (fun p hp => h p (by simpa using hp))
  rw [this]; cases others.head? <;> rfl

theorem specW_flat (y : Int) (xs w : List Pt) (hx : ∀ p ∈ xs, p.y = y) (hw : ∀ p ∈ w, p.y = y) :
    specW xs w = xs.map (fun _ => VFlags.empty) := by
  induction xs generalizing w with
  | nil => rfl
  | cons v cs ih =>
    have hv : v.y = y := hx v (by simp)
    simp only [specW, List.map_cons]
    rw [closedFlagsAt_flat, ih]
    · rfl
    · exact fun p hp => hx p (by simp [hp])
    · intro p hp
      rcases List.mem_append.mp hp with h | h
      · exact hw p h
      · simp at h; rw [h, hv]
    · intro p hp
      rw [hv]
      rcases List.mem_append.mp hp with h | h
      · exact hx p (by simp [h])
      · exact hw p h

/-- the last vertex of a closed ring: `going_up != going_up0` decides like `closedFlagsAt` -/
theorem closedEnd_closed (r0 lastV : Pt) (mid : List Pt) (g0 gN : Bool) (s : ScanOut)
    (hg0 : arriveUp r0.y (lastV :: mid.reverse) = some g0)
    (hgN : arriveUp lastV.y (mid.reverse ++ [r0]) = some gN)
    (hs : s.goingUp = gN) (hf : s.lastFlags = VFlags.empty) :
    (closedEnd g0 s).1 = closedFlagsAt lastV (r0 :: mid) := by
  unfold closedFlagsAt closedEnd addLocMin
  simp only [List.head?_cons, List.reverse_cons, hgN, hs, hf, VFlags.empty]
  unfold arriveUp at hg0 hgN
  simp only [firstDiffY] at hg0
  by_cases hy : lastV.y = r0.y
  · rw [if_pos hy] at hg0
    rw [firstDiffY_append_same _ _ _ hy.symm, hy, hg0] at hgN
    have : g0 = gN := by simpa using hgN
    subst this
    have h1 : ¬ (r0.y > lastV.y) := by omega
    have h2 : ¬ (r0.y < lastV.y) := by omega
    simp [h1, h2]
  · rw [if_neg hy] at hg0
    simp only [Option.map_some, Option.some.injEq] at hg0
    subst hg0
    have : lastV.y < r0.y ∨ lastV.y > r0.y := by omega
    rcases this with h1 | h1
    · have h2 : ¬ (lastV.y > r0.y) := by omega
      cases gN <;> simp [h1, h2]
    · have h2 : ¬ (r0.y > lastV.y) := by omega
      cases gN <;> simp [h1, h2]

/-- **closed rings: the flags the code assigns are `closedFlagsAt` at every vertex** (ring of at least two vertices) -/
theorem closed_flags_spec (r0 : Pt) (rtl : List Pt) (hne : rtl ≠ []) :
    (findMinima false r0 rtl).1 = specW (r0 :: rtl) [] := by
  unfold findMinima
  simp only [Bool.false_eq_true, if_false]
  unfold closedStart
  split
  · -- flat
    rename_i hflat
    split at hflat
    · rename_i hnone
      have hall := (firstDiffY_none_iff _ _).mp hnone
      simp only
      rw [specW_flat r0.y (r0 :: rtl) [] ?_ (by simp)]
      intro p hp
      rcases List.mem_cons.mp hp with h | h
      · rw [h]
      · exact hall p (by simpa using h)
    · simp at hflat
  · rename_i g0 hsome
    split at hsome
    · simp at hsome
    · rename_i p hp
      simp only [Option.some.injEq] at hsome
      have hg0 : arriveUp r0.y rtl.reverse = some g0 := by unfold arriveUp; rw [hp]; simp [hsome]
      have hsc := scan_closed g0 r0 0 rtl [] (by simpa using hg0)
      simp only
      rw [hsc.1]
      congr 1
      -- rtl = mid ++ [lastV]
      obtain ⟨mid, lastV, hrtl⟩ : ∃ mid lastV, rtl = mid ++ [lastV] := by
        refine ⟨rtl.dropLast, rtl.getLast hne, ?_⟩
        exact (List.dropLast_concat_getLast hne).symm
      subst hrtl
      have hlast : (r0 :: (mid ++ [lastV])).getLast (by simp) = lastV := by simp [List.getLast_cons]
      have hdrop : (r0 :: (mid ++ [lastV])).dropLast = r0 :: mid := by
        rw [← List.cons_append, List.dropLast_concat]
      have h2 := hsc.2
      rw [hlast, hdrop] at h2 ⊢
      simp only [List.nil_append, List.reverse_cons] at h2 ⊢
      congr 1
      refine closedEnd_closed r0 lastV mid g0 _ _ (by simpa using hg0) h2 rfl ?_
      rw [scan_lastFlags]; simp


/-! ### `addPath` in closed form -/

theorem addPath_congr (isOpen : Bool) {p q : List Pt} (h : pushPts none p = pushPts none q) :
    addPath isOpen p = addPath isOpen q := by
  unfold addPath; rw [h]

theorem addPath_short (isOpen : Bool) (path : List Pt) (h : (pushPts none path).length < 2) :
    addPath isOpen path = { cnt := (pushPts none path).length } := by
  unfold addPath
  match hp : pushPts none path, h with
  | [], _ => rfl
  | [_], _ => rfl
  | _ :: _ :: _, h => simp at h; omega

/-- the case distinction of line 651 -/
def noMinimaCase (isOpen : Bool) (cnt : Nat) : Bool := cnt < 2 || (cnt == 2 && !isOpen)

theorem noMinimaCase_of_three (isOpen : Bool) (n : Nat) (h : 3 ≤ n) : noMinimaCase isOpen n = false := by
  unfold noMinimaCase
  have h1 : ¬ n < 2 := by omega
  have h2 : (n == 2) = false := by simp; omega
  simp [h1, h2]

theorem addPath_long (isOpen : Bool) (path : List Pt) (h : 2 ≤ (pushPts none path).length) :
    ∃ r0 rtl, ringOf isOpen (pushPts none path) = r0 :: rtl ∧ rtl ≠ [] ∧
      addPath isOpen path =
        if noMinimaCase isOpen (pushPts none path).length then
          { cnt := (pushPts none path).length, pts := r0 :: rtl, flags := (r0 :: rtl).map (fun _ => VFlags.empty) }
        else
          { cnt := (pushPts none path).length, pts := r0 :: rtl,
            flags := (findMinima isOpen r0 rtl).1, minima := (findMinima isOpen r0 rtl).2 } := by
  unfold addPath
  match hp : pushPts none path, h with
  | v0 :: v1 :: rest, _ =>
    have hn : NoAdjDup (v0 :: v1 :: rest) := hp ▸ pushPts_noAdjDup path
    have hlen : 2 ≤ (ringOf isOpen (v0 :: v1 :: rest)).length := by
      cases isOpen
      · exact (ringOf_closed_spec _ hn (by simp)).1
      · rw [ringOf_open]; simp
    match hr : ringOf isOpen (v0 :: v1 :: rest), hlen with
    | r0 :: r1 :: rtl', _ =>
      refine ⟨r0, r1 :: rtl', rfl, by simp, ?_⟩
      simp only [noMinimaCase, hr]
      split
      · rename_i hh; simp only [hh, if_true]
      · rename_i hh; simp only [hh]; rfl


/-! ### rotating the start vertex of a closed path -/

/-- `b` is `a` read from another start: `a = x ++ y`, `b = y ++ x` -/
def IsRot {α : Type} (a b : List α) : Prop := ∃ x y, a = x ++ y ∧ b = y ++ x

theorem IsRot.refl {α : Type} (a : List α) : IsRot a a := ⟨[], a, by simp, by simp⟩

theorem IsRot.trans {α : Type} {a b c : List α} (h₁ : IsRot a b) (h₂ : IsRot b c) : IsRot a c := by
  obtain ⟨x, y, ha, hb⟩ := h₁
  obtain ⟨u, v, hb', hc⟩ := h₂
  rw [hb] at hb'
  rcases List.append_eq_append_iff.mp hb' with ⟨m, hu, hx⟩ | ⟨m, hy, hv⟩
  · -- u = y ++ m, x = m ++ v
    exact ⟨m, v ++ y, by rw [ha, hx]; simp, by rw [hc, hu]; simp⟩
  · -- y = u ++ m, v = m ++ x
    exact ⟨x ++ u, m, by rw [ha, hy]; simp, by rw [hc, hv]; simp⟩

theorem IsRot.length_eq {α : Type} {a b : List α} (h : IsRot a b) : a.length = b.length := by
  obtain ⟨x, y, ha, hb⟩ := h; rw [ha, hb]; simp; omega

/-- the cyclically de-duplicated vertex sequence of a closed path: what the point loop writes, minus an explicit closing vertex -/
def cdedup (path : List Pt) : List Pt := ringOf false (pushPts none path)

theorem ringOf_false_concat_eq (M : List Pt) (z : Pt) (h : (M ++ [z]).head? = some z) : ringOf false (M ++ [z]) = M := by
  unfold ringOf; simp [h]

theorem ringOf_false_concat_ne (M : List Pt) (z hd : Pt) (h : (M ++ [z]).head? = some hd) (hne : z ≠ hd) :
    ringOf false (M ++ [z]) = M ++ [z] := by
  unfold ringOf; simp [h, hne]

theorem ringOf_length_le (isOpen : Bool) (vs : List Pt) : (ringOf isOpen vs).length ≤ vs.length := by
  unfold ringOf; split <;> simp

/-- `prev_v->pt` after the point loop has consumed `l` (entered with `prev_v->pt = o`): the last point consumed -/
def lastKept : Option Pt → List Pt → Option Pt
  | o, [] => o
  | _, p :: ps => lastKept (some p) ps

theorem lastKept_some_skip (q : Pt) (ps : List Pt) : lastKept (some q) (q :: ps) = lastKept (some q) ps := rfl

/-- what is written when one more point is appended to the path -/
theorem pushPts_concat (o : Option Pt) (l : List Pt) (a : Pt) :
    pushPts o (l ++ [a]) = pushPts o l ++ (if lastKept o l == some a then [] else [a]) := by
  induction l generalizing o with
  | nil =>
    cases o with
    | none => simp [lastKept, pushPts]
    | some q =>
      simp only [List.nil_append, pushPts_some_cons, pushPts_nil, lastKept]
      by_cases h : q = a <;> simp [h]
  | cons p ps ih =>
    cases o with
    | none => simp only [List.cons_append, pushPts_none_cons, ih]; rfl
    | some q =>
      simp only [List.cons_append, pushPts_some_cons]
      split
      · rename_i h; subst h; rw [ih]; rfl
      · rw [ih]; rfl

/-- the last written point is the last point of the path -/
theorem pushPts_getLast (o : Option Pt) (l : List Pt) : ((pushPts o l).getLast?).or o = lastKept o l := by
  induction l generalizing o with
  | nil => simp [lastKept]
  | cons p ps ih =>
    have hk : ((p :: pushPts (some p) ps).getLast?).or o = lastKept (some p) ps := by
      rw [← ih (some p)]
      cases h : pushPts (some p) ps with
      | nil => simp
      | cons c cs =>
        simp only [List.getLast?_cons_cons]
        cases hl : (c :: cs).getLast? with
        | none => simp at hl
        | some z => simp
    cases o with
    | none => simpa [lastKept] using hk
    | some q =>
      simp only [pushPts_some_cons, lastKept]
      split
      · rename_i h; subst h; exact ih (some q)
      · exact hk


theorem list_nil_or_concat {α : Type} (l : List α) : l = [] ∨ ∃ M z, l = M ++ [z] := by
  cases l with
  | nil => exact Or.inl rfl
  | cons a t => exact Or.inr ⟨(a :: t).dropLast, (a :: t).getLast (by simp), (List.dropLast_concat_getLast (by simp)).symm⟩

/-- moving the first point of a closed path to its end rotates the ring by zero or one places -/
theorem cdedup_rotate_one (a : Pt) (l : List Pt) : IsRot (cdedup (a :: l)) (cdedup (l ++ [a])) := by
  unfold cdedup
  cases l with
  | nil => exact IsRot.refl _
  | cons b t =>
    rw [pushPts_concat]
    have hlk : lastKept none (b :: t) = ((pushPts (some a) (b :: t)).getLast?).or (some a) := by
      rw [pushPts_getLast]; rfl
    rw [hlk]
    simp only [pushPts_none_cons]
    generalize hR : pushPts (some a) (b :: t) = R
    by_cases hab : a = b
    · subst hab
      have hR' : pushPts (some a) t = R := by rw [← hR, pushPts_some_self]
      rw [hR']
      rcases list_nil_or_concat R with rfl | ⟨M, z, rfl⟩
      · simp; exact IsRot.refl _
      · by_cases hz : z = a
        · subst hz; simp; exact IsRot.refl _
        · have h1 : ringOf false (a :: (M ++ [z])) = a :: (M ++ [z]) := by
            rw [← List.cons_append]; exact ringOf_false_concat_ne _ z a (by simp) hz
          have h2 : ringOf false (a :: (M ++ [z]) ++ [a]) = a :: (M ++ [z]) :=
            ringOf_false_concat_eq _ a (by simp)
          have hc : (((M ++ [z]).getLast?).or (some a) == some a) = false := by simp [hz]
          simp only [hc, Bool.false_eq_true, if_false]
          rw [h1, h2]; exact IsRot.refl _
    · have hRb : pushPts (some b) t = R.tail ∧ R.head? = some b := by
        rw [← hR, pushPts_some_ne hab]; simp
      have hnone : pushPts none (b :: t) = R := by rw [← hR, pushPts_some_ne hab]; rfl
      rw [← pushPts_none_cons, hnone]
      rcases list_nil_or_concat R with rfl | ⟨M, z, rfl⟩
      · simp at hRb
      · have hhd : (M ++ [z]).head? = some b := hRb.2
        have hba : b ≠ a := fun e => hab e.symm
        by_cases hz : z = a
        · subst hz
          have h1 : ringOf false (z :: (M ++ [z])) = z :: M := by
            rw [← List.cons_append]; exact ringOf_false_concat_eq _ z (by simp)
          have h2 : ringOf false (M ++ [z]) = M ++ [z] := ringOf_false_concat_ne _ z b hhd (fun e => hab e)
          have hc : (((M ++ [z]).getLast?).or (some z) == some z) = true := by simp
          simp only [hc, if_true, List.append_nil]
          rw [h1, h2]; exact ⟨[z], M, by simp, rfl⟩
        · have h1 : ringOf false (a :: (M ++ [z])) = a :: (M ++ [z]) := by
            rw [← List.cons_append]; exact ringOf_false_concat_ne _ z a (by simp) hz
          have h2 : ringOf false (M ++ [z] ++ [a]) = M ++ [z] ++ [a] :=
            ringOf_false_concat_ne _ a b (by rw [List.head?_append, hhd]; rfl) hab
          have hc : (((M ++ [z]).getLast?).or (some a) == some a) = false := by simp [hz]
          simp only [hc, Bool.false_eq_true, if_false]
          rw [h1, h2]; exact ⟨[a], M ++ [z], by simp, rfl⟩

/-- **rotating the start vertex of a closed path rotates its ring** -/
theorem cdedup_rotate (l₁ l₂ : List Pt) : IsRot (cdedup (l₁ ++ l₂)) (cdedup (l₂ ++ l₁)) := by
  induction l₁ generalizing l₂ with
  | nil => simpa using IsRot.refl _
  | cons a l₁ ih =>
    have h1 := cdedup_rotate_one a (l₁ ++ l₂)
    have h2 := ih (l₂ ++ [a])
    simp only [List.append_assoc, List.cons_append, List.nil_append] at h1 h2 ⊢
    exact h1.trans h2


/-! ### sizes and index bounds -/

theorem findMinima_flags_length (isOpen : Bool) (r0 : Pt) (rtl : List Pt) :
    (findMinima isOpen r0 rtl).1.length = (r0 :: rtl).length := by
  unfold findMinima
  cases isOpen with
  | true =>
    simp only [if_true]
    generalize openStart r0 rtl = st
    obtain ⟨g, f0, m0⟩ := st
    simp [scan_flags_length]
  | false =>
    simp only [Bool.false_eq_true, if_false]
    split <;> simp [scan_flags_length]

theorem findMinima_minima_lt (isOpen : Bool) (r0 : Pt) (rtl : List Pt) :
    ∀ m ∈ (findMinima isOpen r0 rtl).2, m < (r0 :: rtl).length := by
  intro m hm
  rw [findMinima_minima] at hm
  have := (minIdx_bounds 0 _ m hm).2
  rw [findMinima_flags_length] at this
  simpa using this

theorem findMinima_minima_sorted (isOpen : Bool) (r0 : Pt) (rtl : List Pt) :
    (findMinima isOpen r0 rtl).2.Pairwise (· < ·) := by
  rw [findMinima_minima]
  generalize (findMinima isOpen r0 rtl).1 = fl
  generalize 0 = i
  induction fl generalizing i with
  | nil => simp [minIdx]
  | cons f fs ih =>
    simp only [minIdx]
    rw [List.pairwise_append]
    refine ⟨by split <;> simp, ih (i + 1), ?_⟩
    intro a ha b hb
    have := (minIdx_bounds (i + 1) fs b hb).1
    split at ha
    · simp at ha; omega
    · simp at ha

/-- everything one needs to know about the sizes of what a path leaves behind -/
theorem addPath_sizes (isOpen : Bool) (path : List Pt) :
    (addPath isOpen path).cnt = (pushPts none path).length ∧
    (addPath isOpen path).flags.length = (addPath isOpen path).pts.length ∧
    (addPath isOpen path).pts.length ≤ (addPath isOpen path).cnt ∧
    (∀ m ∈ (addPath isOpen path).minima, m < (addPath isOpen path).pts.length) ∧
    (addPath isOpen path).minima.Pairwise (· < ·) := by
  by_cases h : (pushPts none path).length < 2
  · rw [addPath_short isOpen path h]; simp
  · obtain ⟨r0, rtl, hr, hne, heq⟩ := addPath_long isOpen path (by omega)
    have hle := ringOf_length_le isOpen (pushPts none path)
    rw [hr] at hle
    rw [heq]
    split
    · simp; simpa using hle
    · refine ⟨rfl, findMinima_flags_length _ _ _, hle, findMinima_minima_lt _ _ _, findMinima_minima_sorted _ _ _⟩

theorem filterMap_length_of_isSome {α β : Type} (f : α → Option β) (l : List α) (h : ∀ x ∈ l, (f x).isSome) :
    (l.filterMap f).length = l.length := by
  induction l with
  | nil => rfl
  | cons a t ih =>
    have ha := h a (by simp)
    cases hfa : f a with
    | none => simp [hfa] at ha
    | some b => simp [hfa, ih (fun x hx => h x (by simp [hx]))]

theorem locMinsOf_length (pt : PathType) (isOpen : Bool) (k b : Nat) (path : List Pt) :
    (locMinsOf pt isOpen k b (addPath isOpen path)).length = (addPath isOpen path).minima.length := by
  unfold locMinsOf
  apply filterMap_length_of_isSome
  intro i hi
  have := (addPath_sizes isOpen path).2.2.2.1 i hi
  simp [List.getElem?_eq_getElem this]

theorem locMinsOf_slot (pt : PathType) (isOpen : Bool) (k b : Nat) (o : PathOut) :
    ∀ m ∈ locMinsOf pt isOpen k b o, m.path = k ∧ m.slot = b + m.idx ∧ m.idx ∈ o.minima ∧ o.pts[m.idx]? = some m.pt ∧
      m.polytype = pt ∧ m.isOpen = isOpen := by
  intro m hm
  unfold locMinsOf at hm
  simp only [List.mem_filterMap, Option.map_eq_some_iff] at hm
  obtain ⟨i, hi, p, hp, rfl⟩ := hm
  exact ⟨rfl, rfl, hi, hp, rfl, rfl⟩

theorem used_le_cnt (o : PathOut) : o.used ≤ o.cnt := by unfold PathOut.used; split <;> omega

/-- the slots of every path lie inside the part of the array reserved for the paths from this one on -/
theorem addPathsFrom_bounds (pt : PathType) (isOpen : Bool) (k b : Nat) (ps : List (List Pt)) :
    ∀ r ∈ addPathsFrom pt isOpen k b ps, b ≤ r.base ∧ r.base + r.out.cnt ≤ b + (ps.map List.length).sum := by
  induction ps generalizing k b with
  | nil => simp [addPathsFrom]
  | cons p ps ih =>
    intro r hr
    simp only [addPathsFrom, List.mem_cons] at hr
    have hcnt : (addPath isOpen p).cnt ≤ p.length := by
      rw [(addPath_sizes isOpen p).1]; exact pushPts_length_le none p
    have hused := used_le_cnt (addPath isOpen p)
    rcases hr with rfl | hr
    · simp; omega
    · have := ih (k + 1) (b + (addPath isOpen p).used) r hr
      simp; omega

theorem addPathsFrom_length (pt : PathType) (isOpen : Bool) (k b : Nat) (ps : List (List Pt)) :
    (addPathsFrom pt isOpen k b ps).length = ps.length := by
  induction ps generalizing k b with
  | nil => rfl
  | cons p ps ih => simp [addPathsFrom, ih]

/-- every record is `addPath` of its path, with the minima rendered by `locMinsOf` -/
theorem addPathsFrom_recs (pt : PathType) (isOpen : Bool) (k b : Nat) (ps : List (List Pt)) :
    ∀ r ∈ addPathsFrom pt isOpen k b ps, ∃ p ∈ ps, r.out = addPath isOpen p ∧ r.minima = locMinsOf pt isOpen r.no r.base r.out := by
  induction ps generalizing k b with
  | nil => simp [addPathsFrom]
  | cons p ps ih =>
    intro r hr
    simp only [addPathsFrom, List.mem_cons] at hr
    rcases hr with rfl | hr
    · exact ⟨p, by simp, rfl, rfl⟩
    · obtain ⟨q, hq, h1, h2⟩ := ih _ _ r hr
      exact ⟨q, by simp [hq], h1, h2⟩


/-! ### the minima of a call as a function of the multiset of paths -/

/-- a local minimum together with everything the sweep can reach through its vertex pointer: the ring with its flags and
the vertex's position in it (slot numbers and path numbers are *not* part of it) -/
structure MinV where
  pt : Pt
  polytype : PathType
  isOpen : Bool
  ring : List (Pt × VFlags)
  idx : Nat
  deriving DecidableEq, Repr

/-- the minima of one path, position-free -/
def minVOf (pt : PathType) (isOpen : Bool) (o : PathOut) : List MinV :=
  o.minima.filterMap (fun i => (o.pts[i]?).map (fun p => ⟨p, pt, isOpen, o.ring, i⟩))

/-- the minima list of a call, each minimum with its ring -/
def minimaV (out : Out) : List MinV :=
  out.recs.flatMap (fun r => r.minima.map (fun m => ⟨m.pt, m.polytype, m.isOpen, r.out.ring, m.idx⟩))

theorem locMinsOf_map_minV (pt : PathType) (isOpen : Bool) (k b : Nat) (o : PathOut) :
    (locMinsOf pt isOpen k b o).map (fun m => (⟨m.pt, m.polytype, m.isOpen, o.ring, m.idx⟩ : MinV)) = minVOf pt isOpen o := by
  unfold locMinsOf minVOf
  rw [List.map_filterMap]
  congr 1
  funext i
  cases o.pts[i]? <;> rfl

theorem addPathsFrom_minimaV (pt : PathType) (isOpen : Bool) (k b : Nat) (ps : List (List Pt)) :
    (addPathsFrom pt isOpen k b ps).flatMap (fun r => r.minima.map (fun m => (⟨m.pt, m.polytype, m.isOpen, r.out.ring, m.idx⟩ : MinV)))
      = ps.flatMap (fun p => minVOf pt isOpen (addPath isOpen p)) := by
  induction ps generalizing k b with
  | nil => rfl
  | cons p ps ih =>
    simp only [addPathsFrom, List.flatMap_cons, ih]
    rw [locMinsOf_map_minV]

theorem sum_length_eq_zero (ps : List (List Pt)) (h : (ps.map List.length).sum = 0) : ∀ p ∈ ps, p = [] := by
  induction ps with
  | nil => simp
  | cons p ps ih =>
    simp only [List.map_cons, List.sum_cons] at h
    intro q hq
    rcases List.mem_cons.mp hq with rfl | hq
    · exact List.eq_nil_of_length_eq_zero (by omega)
    · exact ih (by omega) q hq

/-- **the minima of a call are the concatenation, in path order, of the minima of each path taken alone** -/
theorem minimaV_addPaths (pt : PathType) (isOpen : Bool) (ps : List (List Pt)) :
    minimaV (addPaths pt isOpen ps) = ps.flatMap (fun p => minVOf pt isOpen (addPath isOpen p)) := by
  unfold addPaths minimaV
  by_cases h0 : (ps.map List.length).sum = 0
  · simp only [h0, if_true, List.flatMap_nil]
    have hall := sum_length_eq_zero ps h0
    symm
    rw [List.flatMap_eq_nil_iff]
    intro p hp
    rw [hall p hp]; rfl
  · simp only [h0, if_false]
    exact addPathsFrom_minimaV pt isOpen 0 0 ps


/-! ### open paths: what the flags mean -/

theorem stepG_flat (g : Bool) (prev c : Pt) (h : c.y = prev.y) : stepG g prev c = g := by
  unfold stepG; simp [h]

theorem stepG_nonflat (g : Bool) (prev c : Pt) (h : c.y ≠ prev.y) : stepG g prev c = decide (prev.y > c.y) := by
  unfold stepG
  have : c.y < prev.y ∨ c.y > prev.y := by omega
  rcases this with h1 | h1
  · have h2 : ¬ (c.y > prev.y) := by omega
    cases g <;> simp [h1, h2]
  · have h2 : ¬ (c.y < prev.y) := by omega
    cases g <;> simp [h1, h2]

/-- looking *forward* from a vertex of ordinate `y` through `post`: does the path next move upwards (or never leave `y`)? -/
def upFwd (y : Int) (post : List Pt) : Bool :=
  match firstDiffY y post with
  | none => true
  | some c => decide (c.y ≤ y)

/-- `going_up` when an open path is at vertex `v` (`pre` before it, `post` after it, both in path order): the direction of
the last non-horizontal edge before `v`; if there is none (everything so far is level with `v`), the direction of the first
non-horizontal edge after it, and "up" if the whole path is flat. -/
def dirAt (pre : List Pt) (v : Pt) (post : List Pt) : Bool :=
  match arriveUp v.y pre.reverse with
  | some up => up
  | none => upFwd v.y post

/-- **open path, the flags of one vertex in the code's sense** -/
def openFlagsAt (pre : List Pt) (v : Pt) (post : List Pt) : VFlags :=
  match pre, post with
  | [], _ => { openStart := true, localMin := upFwd v.y post, localMax := !upFwd v.y post }
  | _ :: _, [] => { openEnd := true, localMax := dirAt pre v [], localMin := !dirAt pre v [] }
  | _ :: _, nx :: _ => { localMax := dirAt pre v post && decide (nx.y > v.y), localMin := !dirAt pre v post && decide (nx.y < v.y) }

def specOpen : List Pt → List Pt → List VFlags
  | _, [] => []
  | pre, v :: cs => openFlagsAt pre v cs :: specOpen (pre ++ [v]) cs

/-- all flags of an open ring from the scan state on -/
def openAll (g : Bool) (prev : Pt) (pf : VFlags) (i : Nat) (cs : List Pt) : List VFlags :=
  (scan g prev pf i cs).flags ++ [(openEnd (scan g prev pf i cs)).1]

theorem openAll_cons (g : Bool) (prev : Pt) (pf : VFlags) (i : Nat) (c : Pt) (cs : List Pt) :
    openAll g prev pf i (c :: cs) = stepFlag g prev pf c :: openAll (stepG g prev c) c VFlags.empty (i + 1) cs := by
  unfold openAll openEnd
  rw [scan_cons_flags, scan_cons_goingUp, scan_cons_lastFlags, scan_cons_lastIdx]
  rfl

theorem dirAt_step (pre : List Pt) (prev c : Pt) (cs : List Pt) :
    stepG (dirAt pre prev (c :: cs)) prev c = dirAt (pre ++ [prev]) c cs := by
  by_cases hy : c.y = prev.y
  · rw [stepG_flat _ _ _ hy]
    unfold dirAt arriveUp upFwd
    simp only [List.reverse_append, List.reverse_cons, List.reverse_nil, List.nil_append, List.cons_append, firstDiffY,
      hy, if_true]
  · rw [stepG_nonflat _ _ _ hy]
    unfold dirAt arriveUp
    have hy' : ¬ prev.y = c.y := fun e => hy e.symm
    simp only [List.reverse_append, List.reverse_cons, List.reverse_nil, List.nil_append, List.cons_append, firstDiffY,
      hy', if_false, Option.map_some]

theorem open_interior (cs pre : List Pt) (prev : Pt) (i : Nat) (hpre : pre ≠ []) :
    openAll (dirAt pre prev cs) prev VFlags.empty i cs = specOpen pre (prev :: cs) := by
  induction cs generalizing pre prev i with
  | nil =>
    obtain ⟨p0, pre', rfl⟩ := List.exists_cons_of_ne_nil hpre
    unfold openAll openEnd addLocMin
    simp only [scan, specOpen, openFlagsAt, VFlags.empty, List.nil_append]
    cases dirAt (p0 :: pre') prev [] <;> rfl
  | cons c cs ih =>
    rw [openAll_cons, dirAt_step, ih (pre ++ [prev]) c (i + 1) (by simp)]
    obtain ⟨p0, pre', rfl⟩ := List.exists_cons_of_ne_nil hpre
    simp only [specOpen]
    congr 1
    unfold stepFlag addLocMin openFlagsAt
    simp only [VFlags.empty]
    cases dirAt (p0 :: pre') prev (c :: cs)
    · by_cases h2 : c.y < prev.y <;> simp [h2]
    · by_cases h1 : c.y > prev.y <;> simp [h1]

theorem upFwd_cons_ne (r0 c : Pt) (cs : List Pt) (h : c.y ≠ r0.y) : upFwd r0.y (c :: cs) = decide (c.y ≤ r0.y) := by
  unfold upFwd; simp [firstDiffY, h]

/-- the first edge of an open path never changes `going_up` (it was computed by looking ahead) -/
theorem stepG_start (r0 c : Pt) (cs : List Pt) : stepG (upFwd r0.y (c :: cs)) r0 c = upFwd r0.y (c :: cs) := by
  by_cases hy : c.y = r0.y
  · exact stepG_flat _ _ _ hy
  · rw [stepG_nonflat _ _ _ hy, upFwd_cons_ne r0 c cs hy]
    have : (r0.y > c.y) ↔ (c.y ≤ r0.y) := by omega
    simp [this]

/-- an open ring's flags: the start vertex, then the scan from the second vertex on with untouched `going_up` -/
theorem open_flags_unfold (r0 c : Pt) (cs : List Pt) :
    (findMinima true r0 (c :: cs)).1 =
      ({ openStart := true, localMin := upFwd r0.y (c :: cs), localMax := !upFwd r0.y (c :: cs) } : VFlags) ::
        openAll (upFwd r0.y (c :: cs)) c VFlags.empty 1 cs := by
  unfold findMinima
  simp only [if_true]
  have hst : openStart r0 (c :: cs) = (upFwd r0.y (c :: cs),
      ({ openStart := true, localMin := upFwd r0.y (c :: cs), localMax := !upFwd r0.y (c :: cs) } : VFlags),
      if upFwd r0.y (c :: cs) then [0] else []) := by
    unfold openStart upFwd addLocMin
    simp only
    split
    · simp_all
    · rename_i c' heq
      by_cases hc : c'.y ≤ r0.y <;> simp [hc, heq]
  rw [hst]
  simp only
  show openAll _ _ _ _ _ = _
  rw [openAll_cons, stepG_start]
  have hflag : stepFlag (upFwd r0.y (c :: cs)) r0
      { openStart := true, localMin := upFwd r0.y (c :: cs), localMax := !upFwd r0.y (c :: cs) } c =
      { openStart := true, localMin := upFwd r0.y (c :: cs), localMax := !upFwd r0.y (c :: cs) } := by
    unfold stepFlag addLocMin
    by_cases hy : c.y = r0.y
    · have h1 : ¬ c.y > r0.y := by omega
      have h2 : ¬ c.y < r0.y := by omega
      simp [h1, h2]
    · rw [upFwd_cons_ne r0 c cs hy]
      have : c.y < r0.y ∨ c.y > r0.y := by omega
      rcases this with h1 | h1
      · have h2 : ¬ (c.y > r0.y) := by omega
        have h3 : c.y ≤ r0.y := by omega
        simp [h1, h2, h3]
      · have h2 : ¬ (c.y < r0.y) := by omega
        have h3 : ¬ c.y ≤ r0.y := by omega
        simp [h1, h2, h3]
  rw [hflag]

/-- **open paths: the flags the code assigns are `openFlagsAt` at every vertex** -/
theorem open_flags_spec (r0 : Pt) (rtl : List Pt) (hne : rtl ≠ []) :
    (findMinima true r0 rtl).1 = specOpen [] (r0 :: rtl) := by
  obtain ⟨c, cs, rfl⟩ := List.exists_cons_of_ne_nil hne
  rw [open_flags_unfold]
  simp only [specOpen, openFlagsAt]
  congr 1
  have hg : upFwd r0.y (c :: cs) = dirAt ([] ++ [r0]) c cs := by
    rw [← stepG_start]
    by_cases hy : c.y = r0.y
    · rw [stepG_flat _ _ _ hy]
      unfold dirAt arriveUp upFwd
      simp [firstDiffY, hy]
    · rw [stepG_nonflat _ _ _ hy]
      unfold dirAt arriveUp
      have hy' : ¬ r0.y = c.y := fun e => hy e.symm
      simp [firstDiffY, hy']
  rw [hg]
  exact open_interior cs ([] ++ [r0]) c 1 (by simp)

/-! ### maxima and minima alternate -/

/-- the sequence of extremum flags along a ring: `true` = `LocalMax`, `false` = `LocalMin` -/
def events (fl : List VFlags) : List Bool :=
  fl.filterMap (fun f => if f.localMax then some true else if f.localMin then some false else none)

/-- run the toggle: from `going_up = g`, an event must be a maximum iff going up, and flips the direction; `none` = the
sequence does not alternate like that -/
def altEnd : Bool → List Bool → Option Bool
  | g, [] => some g
  | g, e :: es => if e = g then altEnd (!g) es else none

/-- neighbours differ -/
def Alt : List Bool → Prop
  | [] => True
  | [_] => True
  | a :: b :: l => a ≠ b ∧ Alt (b :: l)

theorem events_append (a b : List VFlags) : events (a ++ b) = events a ++ events b := by
  unfold events; rw [List.filterMap_append]

theorem altEnd_append (g : Bool) (a b : List Bool) : altEnd g (a ++ b) = (altEnd g a).bind (fun g' => altEnd g' b) := by
  induction a generalizing g with
  | nil => simp [altEnd]
  | cons e es ih =>
    simp only [List.cons_append, altEnd]
    split
    · exact ih _
    · rfl

/-- consequences of a successful toggle run -/
theorem altEnd_spec (g g' : Bool) (evs : List Bool) (h : altEnd g evs = some g') :
    Alt evs ∧
    (evs.count true + (if g' then 1 else 0) = evs.count false + (if g then 1 else 0)) ∧
    (evs ≠ [] → evs.head? = some g ∧ evs.getLast? = some (!g')) := by
  induction evs generalizing g with
  | nil =>
    simp only [altEnd, Option.some.injEq] at h; subst h
    exact ⟨trivial, by simp, fun h => absurd rfl h⟩
  | cons e es ih =>
    simp only [altEnd] at h
    split at h
    · rename_i he; subst he
      obtain ⟨ha, hc, hl⟩ := ih (!e) h
      refine ⟨?_, ?_, fun _ => ⟨rfl, ?_⟩⟩
      · cases es with
        | nil => trivial
        | cons b l =>
          have := (hl (by simp)).1
          simp only [List.head?_cons, Option.some.injEq] at this
          exact ⟨by rw [this]; cases e <;> simp, ha⟩
      · cases e <;> cases g' <;> simp_all <;> omega
      · cases es with
        | nil => simp only [altEnd, Option.some.injEq] at h; subst h; simp
        | cons b l => rw [List.getLast?_cons_cons]; exact (hl (by simp)).2
    · simp at h

theorem events_stepFlag (g : Bool) (prev c : Pt) :
    events [stepFlag g prev VFlags.empty c] = (if stepG g prev c = g then [] else [g]) := by
  unfold events stepFlag stepG addLocMin
  simp only [VFlags.empty]
  cases g
  · by_cases h2 : c.y < prev.y <;> simp [h2]
  · by_cases h1 : c.y > prev.y <;> simp [h1]

/-- the loop toggles: the extremum flags it leaves alternate, starting with a maximum iff `going_up` -/
theorem scan_alt (g : Bool) (prev : Pt) (i : Nat) (cs : List Pt) :
    altEnd g (events (scan g prev VFlags.empty i cs).flags) = some (scan g prev VFlags.empty i cs).goingUp := by
  induction cs generalizing g prev i with
  | nil => rfl
  | cons c cs ih =>
    rw [scan_cons_flags, scan_cons_goingUp]
    have : stepFlag g prev VFlags.empty c :: (scan (stepG g prev c) c VFlags.empty (i + 1) cs).flags =
        [stepFlag g prev VFlags.empty c] ++ (scan (stepG g prev c) c VFlags.empty (i + 1) cs).flags := rfl
    rw [this, events_append, altEnd_append, events_stepFlag]
    by_cases hs : stepG g prev c = g
    · simp only [hs, if_true, altEnd, Option.bind_some]; rw [← hs]; rw [hs]; exact hs ▸ ih (stepG g prev c) c (i + 1)
    · have hng : stepG g prev c = !g := by cases g <;> cases h : stepG _ prev c <;> simp_all
      simp only [hs, if_false, altEnd, if_true, Option.bind_some]
      rw [← hng]; exact ih _ c (i + 1)


theorem events_empty_list (l : List VFlags) (h : ∀ f ∈ l, f = VFlags.empty) : events l = [] := by
  unfold events
  rw [List.filterMap_eq_nil_iff]
  intro f hf; rw [h f hf]; rfl

theorem closedEnd_events (g0 : Bool) (s : ScanOut) (h : s.lastFlags = VFlags.empty) :
    altEnd s.goingUp (events [(closedEnd g0 s).1]) = some g0 := by
  obtain ⟨fl, ms, gu, lf, li⟩ := s
  simp only at h; subst h
  unfold closedEnd addLocMin events
  cases gu <;> cases g0 <;> simp [altEnd, VFlags.empty]

theorem openEnd_events (s : ScanOut) (h : s.lastFlags = VFlags.empty) :
    altEnd s.goingUp (events [(openEnd s).1]) = some (!s.goingUp) := by
  obtain ⟨fl, ms, gu, lf, li⟩ := s
  simp only at h; subst h
  unfold openEnd addLocMin events
  cases gu <;> simp [altEnd, VFlags.empty]

/-- **closed ring: maxima and minima alternate all the way round** -/
theorem closed_flags_alt (r0 : Pt) (rtl : List Pt) :
    ∃ g, altEnd g (events (findMinima false r0 rtl).1) = some g := by
  unfold findMinima
  simp only [Bool.false_eq_true, if_false]
  split
  · refine ⟨true, ?_⟩
    rw [events_empty_list]; rfl
    intro f hf
    simp only [List.mem_map] at hf
    obtain ⟨_, _, rfl⟩ := hf; rfl
  · rename_i g0 _
    refine ⟨g0, ?_⟩
    simp only
    rw [events_append, altEnd_append, scan_alt]
    simp only [Option.bind_some]
    have hlf : (scan g0 r0 VFlags.empty 0 rtl).lastFlags = VFlags.empty := by
      rw [scan_lastFlags]; simp
    exact closedEnd_events g0 _ hlf

/-- **open path: start, interior extrema and end alternate** -/
theorem open_flags_alt (r0 : Pt) (rtl : List Pt) (hne : rtl ≠ []) :
    ∃ gEnd, altEnd (!(upFwd r0.y rtl)) (events (findMinima true r0 rtl).1) = some gEnd := by
  obtain ⟨c, cs, rfl⟩ := List.exists_cons_of_ne_nil hne
  rw [open_flags_unfold]
  generalize upFwd r0.y (c :: cs) = g
  refine ⟨!(scan g c VFlags.empty 1 cs).goingUp, ?_⟩
  have h1 : events (({ openStart := true, localMin := g, localMax := !g } : VFlags) :: openAll g c VFlags.empty 1 cs) =
      [!g] ++ events (openAll g c VFlags.empty 1 cs) := by
    unfold events
    cases g <;> simp
  rw [h1]
  simp only [List.cons_append, List.nil_append, altEnd, if_true, Bool.not_not]
  unfold openAll
  rw [events_append, altEnd_append, scan_alt]
  simp only [Option.bind_some]
  have hlf : (scan g c VFlags.empty 1 cs).lastFlags = VFlags.empty := by
    rw [scan_lastFlags]; split <;> rfl
  exact openEnd_events _ hlf

/-- no vertex of a closed ring is both a maximum and a minimum -/
theorem closedFlagsAt_excl (v : Pt) (others : List Pt) :
    ¬ ((closedFlagsAt v others).localMax = true ∧ (closedFlagsAt v others).localMin = true) := by
  unfold closedFlagsAt
  split
  · rename_i up _ _; cases up <;> simp
  · simp

theorem specW_excl (xs w : List Pt) : ∀ f ∈ specW xs w, ¬ (f.localMax = true ∧ f.localMin = true) := by
  induction xs generalizing w with
  | nil => simp [specW]
  | cons v cs ih =>
    intro f hf
    simp only [specW, List.mem_cons] at hf
    rcases hf with rfl | hf
    · exact closedFlagsAt_excl _ _
    · exact ih _ f hf

theorem openFlagsAt_excl (pre : List Pt) (v : Pt) (post : List Pt) :
    ¬ ((openFlagsAt pre v post).localMax = true ∧ (openFlagsAt pre v post).localMin = true) := by
  unfold openFlagsAt
  split
  · cases upFwd v.y post <;> simp
  · rename_i p0 pre'; cases dirAt (p0 :: pre') v [] <;> simp
  · rename_i p0 pre' nx post'; cases dirAt (p0 :: pre') v (nx :: post') <;> simp

theorem specOpen_excl (pre xs : List Pt) : ∀ f ∈ specOpen pre xs, ¬ (f.localMax = true ∧ f.localMin = true) := by
  induction xs generalizing pre with
  | nil => simp [specOpen]
  | cons v cs ih =>
    intro f hf
    simp only [specOpen, List.mem_cons] at hf
    rcases hf with rfl | hf
    · exact openFlagsAt_excl _ _ _
    · exact ih _ f hf

/-- counting events is counting flags when no vertex carries both -/
theorem events_count (fl : List VFlags) (h : ∀ f ∈ fl, ¬ (f.localMax = true ∧ f.localMin = true)) :
    (events fl).count true = (fl.filter (·.localMax)).length ∧ (events fl).count false = (fl.filter (·.localMin)).length := by
  induction fl with
  | nil => exact ⟨rfl, rfl⟩
  | cons f fs ih =>
    have ih' := ih (fun g hg => h g (by simp [hg]))
    have hf := h f (by simp)
    have : events (f :: fs) = events [f] ++ events fs := events_append [f] fs
    rw [this, List.count_append, List.count_append, ih'.1, ih'.2]
    unfold events
    cases hmx : f.localMax <;> cases hmn : f.localMin <;> simp_all <;> omega


/-! ### the minima points of a path -/

/-- the points of the local minima appended for a path, in order -/
def minimaPts (o : PathOut) : List Pt := o.minima.filterMap (fun i => o.pts[i]?)

theorem minIdx_filterMap_get (pre pts : List Pt) (flags : List VFlags) (hlen : pts.length = flags.length) :
    (minIdx pre.length flags).filterMap (fun i => (pre ++ pts)[i]?) =
      ((pts.zip flags).filter (fun pf => pf.2.localMin)).map (·.1) := by
  induction flags generalizing pre pts with
  | nil => simp [minIdx]
  | cons f fs ih =>
    match pts, hlen with
    | p :: ps, hlen =>
      simp only [minIdx, List.filterMap_append, List.zip_cons_cons, List.filter_cons]
      have hrest := ih (pre ++ [p]) ps (by simpa using hlen)
      simp only [List.length_append, List.length_singleton, List.append_assoc, List.singleton_append] at hrest
      rw [hrest]
      cases hf : f.localMin
      · simp
      · simp

end Clipper.Lemmas.AddPathsRings
