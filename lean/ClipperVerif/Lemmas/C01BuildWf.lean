/-
Helper lemmas for `Props/C01Build.lean`, part 1: the STRUCTURAL hypotheses of the C01 sweep theorems (`Built.Hyp` minus general position,
`Built.HypR`) derived from an abstract description of the event data of closed paths — the CORNER LIST.

A corner `((eIn, eOut), v)` is a vertex `v` of a closed path with the edge arriving at it and the edge leaving it (in path direction).
`Wf ES CS lab` says: the corners' vertices are pairwise different (all input vertices are), edge identities are pairwise different, both
edges of a corner are non-horizontal input edges with `v` as an end point, every input edge arrives at one corner and leaves one corner,
the labelling gives both edges of a corner the same path type and `wind_dx = +1` iff the edge is traversed upwards, and the two edges
leaving a local minimum are not collinear.  `Model.SweepOrder.buildFrom` computes `nextTbl` / `allMins` as `filterMap`s of the corner list;
everything the sweep theorems assume about `next`, `mins`, the labels and the local maxima follows (no index arithmetic here — that is in
`Lemmas/C01BuildIdx.lean`, which proves `Wf` of `build`).  Core Lean only.
-/
import ClipperVerif.Model.SweepEvents
namespace Clipper.Lemmas.C01Build
open Clipper Clipper.Model Clipper.Model.SweepOrder Clipper.Model.SweepEvents

abbrev Corner := (SEdge × SEdge) × Pt

/-- the abstract description of the event data of closed paths in general position (see the file header) -/
structure Wf (ES : List SEdge) (CS : List Corner) (lab : Lab) : Prop where
  ids : (ES.map (·.id)).Nodup
  vs : (CS.map (·.2)).Nodup
  corner : ∀ c ∈ CS, c.1.1 ∈ ES ∧ c.1.2 ∈ ES ∧ c.1.1 ≠ c.1.2 ∧ c.1.1.Up ∧ c.1.2.Up ∧
    (c.1.1.top = c.2 ∨ c.1.1.bot = c.2) ∧ (c.1.2.top = c.2 ∨ c.1.2.bot = c.2) ∧
    (lab c.1.1).1 = (lab c.1.2).1 ∧ (lab c.1.1).2 = (if c.1.1.top = c.2 then 1 else -1) ∧
    (lab c.1.2).2 = (if c.1.2.bot = c.2 then 1 else -1)
  spike : ∀ c ∈ CS, c.1.1.bot = c.2 → c.1.2.bot = c.2 → ¬ (run c.1.1 * exD c.1.2 = run c.1.2 * exD c.1.1)
  inC : ∀ e ∈ ES, ∃ c ∈ CS, c.1.1 = e
  outC : ∀ e ∈ ES, ∃ c ∈ CS, c.1.2 = e

/-! ## generic list facts -/

theorem inj_of_nodup_map {α β : Type} (f : α → β) : ∀ (l : List α), (l.map f).Nodup → ∀ a ∈ l, ∀ b ∈ l, f a = f b → a = b := by
  intro l
  induction l with
  | nil => intro _ a ha; cases ha
  | cons x l ih =>
    intro h a ha b hb hab
    simp only [List.map_cons, List.nodup_cons] at h
    rcases List.mem_cons.1 ha with rfl | ha' <;> rcases List.mem_cons.1 hb with rfl | hb'
    · rfl
    · exact absurd (hab ▸ List.mem_map_of_mem (f := f) hb') h.1
    · exact absurd (hab ▸ List.mem_map_of_mem (f := f) ha') h.1
    · exact ih h.2 a ha' b hb' hab

theorem nodup_of_nodup_map {α β : Type} (f : α → β) (l : List α) (h : (l.map f).Nodup) : l.Nodup := by
  unfold List.Nodup at h ⊢
  rw [List.pairwise_map] at h
  exact h.imp (fun hne hab => hne (by rw [hab]))

/-- `filterMap` followed by a projection that the partial map preserves: a sublist of the projected list -/
theorem filterMap_map_sublist {α β γ : Type} (f : α → Option β) (g : β → γ) (k : α → γ) (hf : ∀ a b, f a = some b → g b = k a) :
    ∀ l : List α, ((l.filterMap f).map g).Sublist (l.map k) := by
  intro l
  induction l with
  | nil => simp
  | cons a l ih =>
    cases h : f a with
    | none => rw [List.filterMap_cons_none h]; exact List.Sublist.cons _ ih
    | some b =>
      rw [List.filterMap_cons_some h, List.map_cons, List.map_cons, hf a b h]
      exact List.Sublist.cons_cons _ ih

theorem mem_boundsOf' {ms : List (SEdge × SEdge)} {e : SEdge} : e ∈ boundsOf ms ↔ ∃ p ∈ ms, e = p.1 ∨ e = p.2 := by
  simp [boundsOf, List.mem_flatMap]

/-- pairs with pairwise different keys, the two members of a pair different and both carrying the pair's key: no edge twice -/
theorem boundsOf_nodup (key : SEdge → Pt) : ∀ ms : List (SEdge × SEdge), (ms.map (fun p => key p.1)).Nodup →
    (∀ p ∈ ms, p.1 ≠ p.2 ∧ key p.2 = key p.1) → (boundsOf ms).Nodup := by
  intro ms
  induction ms with
  | nil => intro _ _; simp [boundsOf]
  | cons p ms ih =>
    intro hnd hp
    simp only [List.map_cons, List.nodup_cons] at hnd
    have ih' := ih hnd.2 (fun q hq => hp q (List.mem_cons_of_mem _ hq))
    have hb : boundsOf (p :: ms) = p.1 :: p.2 :: boundsOf ms := by simp [boundsOf]
    rw [hb]
    have hnot : ∀ e, key e = key p.1 → e ∉ boundsOf ms := by
      intro e hk he
      obtain ⟨q, hq, hor⟩ := mem_boundsOf'.1 he
      have hkq : key e = key q.1 := by
        rcases hor with h | h
        · rw [h]
        · rw [h]; exact (hp q (List.mem_cons_of_mem _ hq)).2
      exact hnd.1 (by rw [← hk, hkq]; exact List.mem_map_of_mem (f := fun p : SEdge × SEdge => key p.1) hq)
    have h0 := hp p (List.mem_cons_self ..)
    refine List.nodup_cons.2 ⟨?_, List.nodup_cons.2 ⟨hnot _ h0.2, ih'⟩⟩
    intro hm
    rcases List.mem_cons.1 hm with h | h
    · exact h0.1 h
    · exact hnot _ rfl h

/-! ## the two partial maps on corners -/

theorem cornerNext_some {c : Corner} {a b : SEdge} (h : cornerNext c = some (a, b)) :
    (a = c.1.1 ∧ b = c.1.2 ∧ c.1.1.top = c.2 ∧ c.1.2.bot = c.2) ∨ (a = c.1.2 ∧ b = c.1.1 ∧ c.1.1.bot = c.2 ∧ c.1.2.top = c.2) := by
  unfold cornerNext at h
  split at h
  · rename_i h1
    simp only [Option.some.injEq, Prod.mk.injEq] at h
    exact Or.inl ⟨h.1.symm, h.2.symm, h1.1, h1.2⟩
  · split at h
    · rename_i h1
      simp only [Option.some.injEq, Prod.mk.injEq] at h
      exact Or.inr ⟨h.1.symm, h.2.symm, h1.1, h1.2⟩
    · cases h

theorem cornerMin_some {c : Corner} {p : SEdge × SEdge} (h : cornerMin c = some p) :
    c.1.1.bot = c.2 ∧ c.1.2.bot = c.2 ∧ ((p = (c.1.1, c.1.2) ∧ slt c.1.1 c.1.2) ∨ (p = (c.1.2, c.1.1) ∧ ¬ slt c.1.1 c.1.2)) := by
  unfold cornerMin at h
  split at h
  · rename_i h1
    simp only [Option.some.injEq] at h
    by_cases hs : slt c.1.1 c.1.2
    · rw [if_pos hs] at h; exact ⟨h1.1, h1.2, Or.inl ⟨h.symm, hs⟩⟩
    · rw [if_neg hs] at h; exact ⟨h1.1, h1.2, Or.inr ⟨h.symm, hs⟩⟩
  · cases h

/-! ## consequences of `Wf` -/

section
variable {ES : List SEdge} {CS : List Corner} {lab : Lab}

theorem corner_unique (hw : Wf ES CS lab) {c c' : Corner} (hc : c ∈ CS) (hc' : c' ∈ CS) (h : c.2 = c'.2) : c = c' :=
  inj_of_nodup_map (·.2) CS hw.vs c hc c' hc' h

theorem Up_ne {e : SEdge} (h : e.Up) : e.top ≠ e.bot := by
  intro h'; unfold SEdge.Up at h; rw [h'] at h; omega

/-- an input edge arrives at one of its end points and leaves the other -/
theorem endpoints (hw : Wf ES CS lab) {e : SEdge} (he : e ∈ ES) :
    ∃ c ∈ CS, ∃ c' ∈ CS, c.1.1 = e ∧ c'.1.2 = e ∧ ((c.2 = e.top ∧ c'.2 = e.bot) ∨ (c.2 = e.bot ∧ c'.2 = e.top)) := by
  obtain ⟨c, hc, rfl⟩ := hw.inC e he
  obtain ⟨c', hc', he'⟩ := hw.outC _ he
  obtain ⟨_, _, hne, _, _, h6, _⟩ := hw.corner c hc
  obtain ⟨_, _, hne', _, _, _, h7', _⟩ := hw.corner c' hc'
  refine ⟨c, hc, c', hc', rfl, he', ?_⟩
  have hd : c.2 ≠ c'.2 := by
    intro h
    have := corner_unique hw hc hc' h
    subst this
    exact hne he'.symm
  rw [he'] at h7'
  rcases h6 with h | h <;> rcases h7' with h' | h'
  · exact absurd (h.symm.trans h') hd
  · exact Or.inl ⟨h.symm, h'.symm⟩
  · exact Or.inr ⟨h.symm, h'.symm⟩
  · exact absurd (h.symm.trans h') hd

/-- the input edges with an end point in the vertex of a corner are the two edges of the corner -/
theorem corner_at (hw : Wf ES CS lab) {e : SEdge} (he : e ∈ ES) {c : Corner} (hc : c ∈ CS) (h : e.top = c.2 ∨ e.bot = c.2) :
    e = c.1.1 ∨ e = c.1.2 := by
  obtain ⟨c1, hc1, c2, hc2, e1, e2, hor⟩ := endpoints hw he
  rcases hor with ⟨h1, h2⟩ | ⟨h1, h2⟩ <;> rcases h with h | h
  · have := corner_unique hw hc1 hc (h1.trans h); subst this; exact Or.inl e1.symm
  · have := corner_unique hw hc2 hc (h2.trans h); subst this; exact Or.inr e2.symm
  · have := corner_unique hw hc2 hc (h2.trans h); subst this; exact Or.inr e2.symm
  · have := corner_unique hw hc1 hc (h1.trans h); subst this; exact Or.inl e1.symm

/-- every input edge has a corner at its top and one at its bottom -/
theorem corner_of_top (hw : Wf ES CS lab) {e : SEdge} (he : e ∈ ES) : ∃ c ∈ CS, c.2 = e.top ∧ (e = c.1.1 ∨ e = c.1.2) := by
  obtain ⟨c1, hc1, c2, hc2, e1, e2, hor⟩ := endpoints hw he
  rcases hor with ⟨h1, _⟩ | ⟨_, h2⟩
  · exact ⟨c1, hc1, h1, Or.inl e1.symm⟩
  · exact ⟨c2, hc2, h2, Or.inr e2.symm⟩

theorem corner_of_bot (hw : Wf ES CS lab) {e : SEdge} (he : e ∈ ES) : ∃ c ∈ CS, c.2 = e.bot ∧ (e = c.1.1 ∨ e = c.1.2) := by
  obtain ⟨c1, hc1, c2, hc2, e1, e2, hor⟩ := endpoints hw he
  rcases hor with ⟨_, h2⟩ | ⟨h1, _⟩
  · exact ⟨c2, hc2, h2, Or.inr e2.symm⟩
  · exact ⟨c1, hc1, h1, Or.inl e1.symm⟩

theorem wf_allUp (hw : Wf ES CS lab) : AllUp ES := by
  intro e he
  obtain ⟨c, hc, rfl⟩ := hw.inC e he
  exact (hw.corner c hc).2.2.2.1

theorem wf_idsInj (hw : Wf ES CS lab) : IdsInj ES := fun a ha b hb h => inj_of_nodup_map (·.id) ES hw.ids a ha b hb h

theorem wf_nodup (hw : Wf ES CS lab) : ES.Nodup := nodup_of_nodup_map (·.id) ES hw.ids

theorem wf_dxOK (hw : Wf ES CS lab) : DxOK ES lab := by
  intro e he
  obtain ⟨c, hc, rfl⟩ := hw.inC e he
  obtain ⟨_, _, _, _, _, _, _, _, h9, _⟩ := hw.corner c hc
  rw [h9]; split <;> simp

end

/-! ## a built input whose tables are the `filterMap`s of a corner list -/

/-- `b`'s tables come from the corner list `CS` -/
structure FromCorners (b : Built) (CS : List Corner) : Prop where
  nextTbl : b.nextTbl = CS.filterMap cornerNext
  allMins : b.allMins = CS.filterMap cornerMin

section
variable {b : Built} {CS : List Corner} {lab : Lab}

theorem mem_nextTbl (hf : FromCorners b CS) {a e : SEdge} : (a, e) ∈ b.nextTbl ↔ ∃ c ∈ CS, cornerNext c = some (a, e) := by
  rw [hf.nextTbl, List.mem_filterMap]

theorem mem_allMins (hf : FromCorners b CS) {p : SEdge × SEdge} : p ∈ b.allMins ↔ ∃ c ∈ CS, cornerMin c = some p := by
  rw [hf.allMins, List.mem_filterMap]

theorem mem_mins {p : SEdge × SEdge} {y : Int} : p ∈ b.mins y ↔ p ∈ b.allMins ∧ p.1.bot.y = y := by
  simp [Built.mins, List.mem_filter]

theorem next_mem {a e : SEdge} (h : b.next a = some e) : (a, e) ∈ b.nextTbl := by
  unfold Built.next at h
  cases hq : b.nextTbl.find? (fun p => p.1 == a) with
  | none => simp [hq] at h
  | some q =>
    simp only [hq, Option.map_some, Option.some.injEq] at h
    have h1 := List.find?_some hq
    have h2 := List.mem_of_find?_eq_some hq
    simp only [beq_iff_eq] at h1
    rw [← h1, ← h]
    exact h2

/-- the continuation table is functional: the corner is determined by the top of the first edge -/
theorem nextTbl_fun (hw : Wf b.edges CS lab) (hf : FromCorners b CS) {a x y : SEdge} (hx : (a, x) ∈ b.nextTbl) (hy : (a, y) ∈ b.nextTbl) :
    x = y := by
  obtain ⟨c, hc, hcx⟩ := (mem_nextTbl hf).1 hx
  obtain ⟨c', hc', hcy⟩ := (mem_nextTbl hf).1 hy
  have t1 : a.top = c.2 := by rcases cornerNext_some hcx with ⟨rfl, _, h, _⟩ | ⟨rfl, _, _, h⟩ <;> exact h
  have t2 : a.top = c'.2 := by rcases cornerNext_some hcy with ⟨rfl, _, h, _⟩ | ⟨rfl, _, _, h⟩ <;> exact h
  have := corner_unique hw hc hc' (t1.symm.trans t2)
  subst this
  rw [hcx] at hcy
  simp only [Option.some.injEq, Prod.mk.injEq] at hcy
  exact hcy.2

theorem next_of_mem (hw : Wf b.edges CS lab) (hf : FromCorners b CS) {a e : SEdge} (h : (a, e) ∈ b.nextTbl) : b.next a = some e := by
  unfold Built.next
  cases hq : b.nextTbl.find? (fun p => p.1 == a) with
  | none =>
    rw [List.find?_eq_none] at hq
    have := hq _ h
    simp at this
  | some q =>
    have h1 := List.find?_some hq
    have h2 := List.mem_of_find?_eq_some hq
    simp only [beq_iff_eq] at h1
    have h3 : (a, q.2) ∈ b.nextTbl := by rw [← h1]; exact h2
    simp only [Option.map_some, Option.some.injEq]
    exact nextTbl_fun hw hf h3 h

theorem next_iff (hw : Wf b.edges CS lab) (hf : FromCorners b CS) {a e : SEdge} :
    b.next a = some e ↔ ∃ c ∈ CS, cornerNext c = some (a, e) :=
  ⟨fun h => (mem_nextTbl hf).1 (next_mem h), fun h => next_of_mem hw hf ((mem_nextTbl hf).2 h)⟩

/-- the bounds of the local minima on a scanline, in terms of corners -/
theorem mem_bounds_mins (hf : FromCorners b CS) {e : SEdge} {y : Int} (h : e ∈ boundsOf (b.mins y)) :
    ∃ c ∈ CS, c.1.1.bot = c.2 ∧ c.1.2.bot = c.2 ∧ (e = c.1.1 ∨ e = c.1.2) := by
  obtain ⟨p, hp, hor⟩ := mem_boundsOf'.1 h
  obtain ⟨c, hc, hm⟩ := (mem_allMins hf).1 (mem_mins.1 hp).1
  obtain ⟨h1, h2, h3⟩ := cornerMin_some hm
  refine ⟨c, hc, h1, h2, ?_⟩
  rcases h3 with ⟨rfl, _⟩ | ⟨rfl, _⟩ <;> rcases hor with h | h
  · exact Or.inl h
  · exact Or.inr h
  · exact Or.inr h
  · exact Or.inl h

/-- a corner where both edges start is a local minimum of its scanline -/
theorem bounds_of_corner (hf : FromCorners b CS) {c : Corner} (hc : c ∈ CS) (h1 : c.1.1.bot = c.2) (h2 : c.1.2.bot = c.2) :
    c.1.1 ∈ boundsOf (b.mins c.2.y) ∧ c.1.2 ∈ boundsOf (b.mins c.2.y) := by
  have hm : cornerMin c = some (if slt c.1.1 c.1.2 then (c.1.1, c.1.2) else (c.1.2, c.1.1)) := by
    unfold cornerMin; rw [if_pos ⟨h1, h2⟩]
  have hmem := (mem_allMins hf).2 ⟨c, hc, hm⟩
  by_cases hs : slt c.1.1 c.1.2
  · rw [if_pos hs] at hmem
    have : (c.1.1, c.1.2) ∈ b.mins c.2.y := mem_mins.2 ⟨hmem, by rw [h1]⟩
    exact ⟨mem_boundsOf'.2 ⟨_, this, Or.inl rfl⟩, mem_boundsOf'.2 ⟨_, this, Or.inr rfl⟩⟩
  · rw [if_neg hs] at hmem
    have : (c.1.2, c.1.1) ∈ b.mins c.2.y := mem_mins.2 ⟨hmem, by rw [h2]⟩
    exact ⟨mem_boundsOf'.2 ⟨_, this, Or.inr rfl⟩, mem_boundsOf'.2 ⟨_, this, Or.inl rfl⟩⟩

/-- **NextOK** -/
theorem wf_nextOK (hw : Wf b.edges CS lab) (hf : FromCorners b CS) : NextOK b.edges b.next b.mins := by
  intro e _ e' hn
  obtain ⟨c, hc, hcn⟩ := (next_iff hw hf).1 hn
  obtain ⟨m1, m2, _, u1, u2, _⟩ := hw.corner c hc
  have key : e' ∈ b.edges ∧ e'.bot = c.2 ∧ e.top = c.2 ∧
      ¬ (c.1.1.bot = c.2 ∧ c.1.2.bot = c.2) := by
    rcases cornerNext_some hcn with ⟨rfl, rfl, h1, h2⟩ | ⟨rfl, rfl, h1, h2⟩
    · exact ⟨m2, h2, h1, fun h => Up_ne u1 (h1.trans h.1.symm)⟩
    · exact ⟨m1, h1, h2, fun h => Up_ne u2 (h2.trans h.2.symm)⟩
  refine ⟨key.1, key.2.1.trans key.2.2.1.symm, ?_⟩
  intro hb
  obtain ⟨c', hc', g1, g2, hor⟩ := mem_bounds_mins hf hb
  have : c'.2 = c.2 := by
    rcases hor with h | h
    · rw [← g1, ← h]; exact key.2.1
    · rw [← g2, ← h]; exact key.2.1
  have := corner_unique hw hc' hc this
  subst this
  exact key.2.2.2 ⟨g1, g2⟩

/-- **MinsOK** at every height -/
theorem wf_minsOK (hw : Wf b.edges CS lab) (hf : FromCorners b CS) (y : Int) : MinsOK b.edges (b.mins y) y := by
  constructor
  · intro p hp
    obtain ⟨hpa, hpy⟩ := mem_mins.1 hp
    obtain ⟨c, hc, hm⟩ := (mem_allMins hf).1 hpa
    obtain ⟨h1, h2, h3⟩ := cornerMin_some hm
    obtain ⟨m1, m2, _⟩ := hw.corner c hc
    rcases h3 with ⟨rfl, hs⟩ | ⟨rfl, hs⟩
    · exact ⟨m1, m2, h1.trans h2.symm, hpy, hs⟩
    · refine ⟨m2, m1, h2.trans h1.symm, hpy, ?_⟩
      have := hw.spike c hc h1 h2
      have hs' : ¬ (run c.1.1 * exD c.1.2 < run c.1.2 * exD c.1.1) := hs
      show run c.1.2 * exD c.1.1 < run c.1.1 * exD c.1.2
      omega
  · refine boundsOf_nodup (·.bot) _ ?_ ?_
    · have hsub : ((b.mins y).map (fun p => p.1.bot)).Sublist (b.allMins.map (fun p => p.1.bot)) :=
        (List.filter_sublist (l := b.allMins) (p := fun p => p.1.bot.y == y)).map _
      have hsub2 : (b.allMins.map (fun p => p.1.bot)).Sublist (CS.map (·.2)) := by
        rw [hf.allMins]
        refine filterMap_map_sublist cornerMin (fun p => p.1.bot) (·.2) ?_ CS
        intro c p hm
        obtain ⟨h1, h2, h3⟩ := cornerMin_some hm
        rcases h3 with ⟨rfl, _⟩ | ⟨rfl, _⟩
        · exact h1
        · exact h2
      exact (hw.vs.sublist hsub2).sublist hsub
    · intro p hp
      obtain ⟨c, hc, hm⟩ := (mem_allMins hf).1 (mem_mins.1 hp).1
      obtain ⟨h1, h2, h3⟩ := cornerMin_some hm
      obtain ⟨_, _, hne, _⟩ := hw.corner c hc
      rcases h3 with ⟨rfl, _⟩ | ⟨rfl, _⟩
      · exact ⟨hne, h2.trans h1.symm⟩
      · exact ⟨fun h => hne h.symm, h1.trans h2.symm⟩

/-- **Starts** -/
theorem wf_starts (hw : Wf b.edges CS lab) (hf : FromCorners b CS) : Starts b.edges b.next b.mins := by
  intro e he
  obtain ⟨c, hc, hcb, hor⟩ := corner_of_bot hw he
  obtain ⟨m1, m2, _, u1, u2, _, h7, _⟩ := hw.corner c hc
  have h6 := (hw.corner c hc).2.2.2.2.2.1
  rcases hor with rfl | rfl
  · -- e arrives at its bottom
    rcases h7 with h | h
    · right
      refine ⟨c.1.2, m2, (next_iff hw hf).2 ⟨c, hc, ?_⟩⟩
      unfold cornerNext
      rw [if_neg (fun hh => Up_ne u1 (hh.1.trans hcb)), if_pos ⟨hcb.symm, h⟩]
    · left
      have := (bounds_of_corner hf hc hcb.symm h).1
      rw [hcb] at this; exact this
  · rcases h6 with h | h
    · right
      refine ⟨c.1.1, m1, (next_iff hw hf).2 ⟨c, hc, ?_⟩⟩
      unfold cornerNext
      rw [if_pos ⟨h, hcb.symm⟩]
    · left
      have := (bounds_of_corner hf hc h hcb.symm).2
      rw [hcb] at this; exact this

/-- **NextLab** -/
theorem wf_nextLab (hw : Wf b.edges CS lab) (hf : FromCorners b CS) : NextLab b.edges b.next lab := by
  intro e _ e' hn
  obtain ⟨c, hc, hcn⟩ := (next_iff hw hf).1 hn
  obtain ⟨_, _, _, u1, u2, _, _, l1, l2, l3⟩ := hw.corner c hc
  rcases cornerNext_some hcn with ⟨rfl, rfl, h1, h2⟩ | ⟨rfl, rfl, h1, h2⟩
  · rw [if_pos h1] at l2; rw [if_pos h2] at l3
    exact Prod.ext l1.symm (by rw [l2, l3])
  · rw [if_neg (fun h => Up_ne u1 (h.trans h1.symm))] at l2
    rw [if_neg (fun h => Up_ne u2 (h2.trans h.symm))] at l3
    exact Prod.ext l1 (by rw [l2, l3])

/-- **MinLab** at every height -/
theorem wf_minLab (hw : Wf b.edges CS lab) (hf : FromCorners b CS) (y : Int) : MinLab lab (b.mins y) := by
  intro p hp
  obtain ⟨c, hc, hm⟩ := (mem_allMins hf).1 (mem_mins.1 hp).1
  obtain ⟨h1, h2, h3⟩ := cornerMin_some hm
  obtain ⟨_, _, _, u1, u2, _, _, l1, l2, l3⟩ := hw.corner c hc
  rw [if_neg (fun h => Up_ne u1 (h.trans h1.symm))] at l2
  rw [if_pos h2] at l3
  rcases h3 with ⟨rfl, _⟩ | ⟨rfl, _⟩
  · exact ⟨l1.symm, by rw [l2, l3] <;> rfl⟩
  · exact ⟨l1, by rw [l2, l3] <;> rfl⟩

/-- **MaxOK** at every height: exactly two edges end in each local maximum, same path type, opposite directions -/
theorem wf_maxOK (hw : Wf b.edges CS lab) (hf : FromCorners b CS) (y : Int) : MaxOK b.edges b.next lab y := by
  intro a ha _ hay hna
  obtain ⟨c, hc, hct, hor⟩ := corner_of_top hw ha
  obtain ⟨m1, m2, hne, u1, u2, h6, h7, l1, l2, l3⟩ := hw.corner c hc
  -- the corner is a local maximum: both edges end there
  have hmax : c.1.1.top = c.2 ∧ c.1.2.top = c.2 := by
    rcases hor with rfl | rfl
    · refine ⟨hct.symm, ?_⟩
      rcases h7 with h | h
      · exact h
      · exfalso
        have : b.next c.1.1 = some c.1.2 := (next_iff hw hf).2 ⟨c, hc, by unfold cornerNext; rw [if_pos ⟨hct.symm, h⟩]⟩
        rw [hna] at this; cases this
    · refine ⟨?_, hct.symm⟩
      rcases h6 with h | h
      · exact h
      · exfalso
        have : b.next c.1.2 = some c.1.1 := (next_iff hw hf).2 ⟨c, hc, by
          unfold cornerNext
          rw [if_neg (fun hh => Up_ne u1 (hh.1.trans h.symm)), if_pos ⟨h, hct.symm⟩]⟩
        rw [hna] at this; cases this
  have hnone : cornerNext c = none := by
    unfold cornerNext
    rw [if_neg (fun hh => Up_ne u2 (hmax.2.trans hh.2.symm)), if_neg (fun hh => Up_ne u1 (hmax.1.trans hh.1.symm))]
  have nextNone : ∀ e, e.top = c.2 → b.next e = none := by
    intro e het
    cases hn : b.next e with
    | none => rfl
    | some e' =>
      obtain ⟨c', hc', hcn⟩ := (next_iff hw hf).1 hn
      have : e.top = c'.2 := by rcases cornerNext_some hcn with ⟨rfl, _, h, _⟩ | ⟨rfl, _, _, h⟩ <;> exact h
      have := corner_unique hw hc' hc (this.symm.trans het)
      subst this
      rw [hnone] at hcn; cases hcn
  have alive : ∀ e, e.Up → e.top = c.2 → AliveBelow y e := by
    intro e ue het
    have : e.top.y = y := by rw [het, hct]; exact hay
    unfold AliveBelow; unfold SEdge.Up at ue; omega
  rw [if_pos hmax.1] at l2
  rw [if_neg (fun h => Up_ne u2 (hmax.2.trans h.symm))] at l3
  have uniq : ∀ e ∈ b.edges, AliveBelow y e → e.top = a.top → e = c.1.1 ∨ e = c.1.2 := by
    intro e he _ het
    exact corner_at hw he hc (Or.inl (het.trans hct.symm))
  rcases hor with rfl | rfl
  · refine ⟨c.1.2, m2, fun h => hne h.symm, alive _ u2 hmax.2, hmax.2.trans hmax.1.symm, nextNone _ hmax.2, l1.symm, by rw [l2, l3] <;> rfl, ?_⟩
    intro e he hae het
    exact uniq e he hae het
  · refine ⟨c.1.1, m1, hne, alive _ u1 hmax.1, hmax.1.trans hmax.2.symm, nextNone _ hmax.1, l1, by rw [l2, l3] <;> rfl, ?_⟩
    intro e he hae het
    exact (uniq e he hae het).symm

end

/-! ## the sweep: the per-scanbeam predicates along a strictly descending scanline list that contains every vertex height -/

section
variable {b : Built} {CS : List Corner} {lab : Lab}

/-- every end point of an input edge is the vertex of a corner -/
theorem heights_mem (hw : Wf b.edges CS lab) {ys : List Int} (hv : ∀ c ∈ CS, c.2.y ∈ ys) {e : SEdge} (he : e ∈ b.edges) :
    e.top.y ∈ ys ∧ e.bot.y ∈ ys := by
  obtain ⟨c, hc, h1, _⟩ := corner_of_top hw he
  obtain ⟨c', hc', h2, _⟩ := corner_of_bot hw he
  exact ⟨h1 ▸ hv c hc, h2 ▸ hv c' hc'⟩

/-- **SweepOK** along a suffix of the scanline list; what remains assumed is general position at the scanlines -/
theorem wf_sweepOK (hw : Wf b.edges CS lab) (hf : FromCorners b CS) (valid : Int → SEdge → SEdge → Bool)
    (hvalid : ∀ y, ValidOK b.edges (valid y) y) (ys : List Int) (hv : ∀ c ∈ CS, c.2.y ∈ ys)
    (hbtw : ∀ pre y0 y1 rest, ys = pre ++ y0 :: y1 :: rest → y1 < y0 ∧ ∀ t ∈ ys, ¬ (y1 < t ∧ t < y0))
    (hgp : ∀ y ∈ ys, GPmin b.edges (b.mins y) y ∧ GPtop b.edges b.next y) :
    ∀ (l pre : List Int), ys = pre ++ l → SweepOK b.edges valid b.next b.mins l := by
  intro l
  induction l with
  | nil => intro _ _; trivial
  | cons y0 t ih =>
    intro pre hpre
    cases t with
    | nil => trivial
    | cons y1 rest =>
      obtain ⟨hlt, hno⟩ := hbtw pre y0 y1 rest hpre
      have m0 : y0 ∈ ys := by rw [hpre]; simp
      have m1 : y1 ∈ ys := by rw [hpre]; simp
      refine ⟨⟨hlt, wf_minsOK hw hf y0, (hgp y0 m0).1, hvalid y0, ?_, (hgp y1 m1).2⟩, ih (pre ++ [y0]) (by rw [hpre]; simp)⟩
      intro e he
      exact hno _ (heights_mem hw hv he).1

/-- **SweepR** along a suffix of the scanline list -/
theorem wf_sweepR (hw : Wf b.edges CS lab) (hf : FromCorners b CS) (ys : List Int) (hv : ∀ c ∈ CS, c.2.y ∈ ys)
    (hbtw : ∀ pre y0 y1 rest, ys = pre ++ y0 :: y1 :: rest → y1 < y0 ∧ ∀ t ∈ ys, ¬ (y1 < t ∧ t < y0)) :
    ∀ (l pre : List Int), ys = pre ++ l → SweepR b.edges b.next b.mins lab l := by
  intro l
  induction l with
  | nil => intro _ _; trivial
  | cons y0 t ih =>
    intro pre hpre
    cases t with
    | nil => trivial
    | cons y1 rest =>
      obtain ⟨_, hno⟩ := hbtw pre y0 y1 rest hpre
      refine ⟨⟨?_, wf_minLab hw hf y0, wf_maxOK hw hf y1⟩, ih (pre ++ [y0]) (by rw [hpre]; simp)⟩
      intro e he
      exact hno _ (heights_mem hw hv he).2

end

end Clipper.Lemmas.C01Build
