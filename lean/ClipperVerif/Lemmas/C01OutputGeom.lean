/-
Helper lemmas for `Props/C01Output.lean`, part 1: the exact crossing point (`Model/SweepPoints.crossQ`) lies on both edges; points in
coordinates scaled by `D`; `OnE` is `Spec.onSeg`.  Core Lean only.
-/
import ClipperVerif.Model.SweepPoints
import ClipperVerif.Lemmas.SweepOrder
namespace Clipper.Lemmas.C01Output
open Clipper Clipper.Model Clipper.Model.AelOrder Clipper.Model.SweepOrder Clipper.Model.SweepEvents Clipper.Model.SweepPoints
open Clipper.Lemmas.SweepOrder

theorem det_eq_sigma (a b : GEdge) : det a b = sigma a b := rfl

/-- the height of the crossing point is where `delta` vanishes: `yn · 1 = −delta 0 / −sigma` -/
theorem crossQ_neg (a b : GEdge) (h : det a b < 0) :
    (crossQ a b).d = -(det a b) ∧ (crossQ a b).yn = -(a.bot.y * det a b - sNum a b * exD a) ∧
      (crossQ a b).xn = -(a.bot.x * det a b + sNum a b * SweepOrder.run a) := by
  simp [crossQ, h]

/-- `yn` in terms of `delta`: `yn = −delta 0 a b` when `det < 0` -/
theorem crossQ_yn_delta (a b : GEdge) (h : det a b < 0) : (crossQ a b).yn = -(delta 0 a b) := by
  rw [(crossQ_neg a b h).2.1]
  simp only [det, sNum, delta, exN, exD, SweepOrder.run]
  grind

/-- the crossing point is on the line of `a` … -/
theorem crossQ_line_a (a b : GEdge) :
    SweepOrder.run a * ((crossQ a b).yn - (crossQ a b).d * a.bot.y) + exD a * ((crossQ a b).xn - (crossQ a b).d * a.bot.x) = 0 := by
  unfold crossQ
  split <;> simp only <;> grind

/-- … and on the line of `b` (Cramer) -/
theorem crossQ_line_b (a b : GEdge) :
    SweepOrder.run b * ((crossQ a b).yn - (crossQ a b).d * b.bot.y) + exD b * ((crossQ a b).xn - (crossQ a b).d * b.bot.x) = 0 := by
  unfold crossQ
  split <;> simp only [det, sNum, exD, SweepOrder.run] <;> grind

/-- **two edges that are in the order `a`, `b` (not strictly reversed) at `y0` and strictly reversed at `y1 < y0`, both spanning the
scanbeam `[y1, y0]`: the crossing point `crossQ a b` has a positive denominator and lies on both closed segments**, at a height
in `(y1, y0]`. -/
theorem crossQ_on (a b : GEdge) (y0 y1 : Int) (hy : y1 < y0) (h0 : 0 ≤ delta y0 a b) (h1 : delta y1 a b < 0)
    (ha : a.top.y ≤ y1 ∧ y0 ≤ a.bot.y) (hb : b.top.y ≤ y1 ∧ y0 ≤ b.bot.y) :
    0 < (crossQ a b).d ∧ OnQ a (crossQ a b) ∧ OnQ b (crossQ a b) ∧
      (crossQ a b).d * y1 < (crossQ a b).yn ∧ (crossQ a b).yn ≤ (crossQ a b).d * y0 := by
  have hs : sigma a b < 0 := by
    have e := delta_affine y0 y1 a b
    have hpos : 0 < y0 - y1 := by omega
    by_cases h : sigma a b < 0
    · exact h
    · have : 0 ≤ (y0 - y1) * sigma a b := Int.mul_nonneg (by omega) (by omega)
      omega
  have hd : det a b < 0 := hs
  obtain ⟨e1, _, _⟩ := crossQ_neg a b hd
  have eyn := crossQ_yn_delta a b hd
  have k1 := delta_affine 0 y1 a b
  have k0 := delta_affine 0 y0 a b
  have lo : (crossQ a b).d * y1 < (crossQ a b).yn := by
    rw [e1, eyn]
    have : -(det a b) * y1 = (0 - y1) * sigma a b := by rw [det_eq_sigma]; grind
    omega
  have hi : (crossQ a b).yn ≤ (crossQ a b).d * y0 := by
    rw [e1, eyn]
    have : -(det a b) * y0 = (0 - y0) * sigma a b := by rw [det_eq_sigma]; grind
    omega
  have dpos : 0 < (crossQ a b).d := by rw [e1]; omega
  have mono : ∀ {u v : Int}, u ≤ v → (crossQ a b).d * u ≤ (crossQ a b).d * v :=
    fun h => Int.mul_le_mul_of_nonneg_left h (Int.le_of_lt dpos)
  refine ⟨dpos, ⟨crossQ_line_a a b, ?_, ?_⟩, ⟨crossQ_line_b a b, ?_, ?_⟩, lo, hi⟩
  · have := mono ha.1; omega
  · have := mono ha.2; omega
  · have := mono hb.1; omega
  · have := mono hb.2; omega

/-! ## scaled coordinates -/

/-- a rational point on an edge, written in coordinates scaled by a multiple `D` of its denominator, is on the scaled edge -/
theorem onE_of_onQ (D : Int) (e : GEdge) (q : QPt) (hd : 0 < q.d) (hD : 0 < D) (hdiv : q.d ∣ D) (h : OnQ e q) : OnE D e (q.toPt D) := by
  obtain ⟨k, hk⟩ := hdiv
  have hkpos : 0 < k := by
    rcases Int.lt_trichotomy k 0 with h' | h' | h'
    · have : q.d * k < 0 := Int.mul_neg_of_pos_of_neg hd h'
      omega
    · subst h'; simp at hk; omega
    · exact h'
  have hdk : D / q.d = k := by
    rw [hk, Int.mul_ediv_cancel_left _ (by omega)]
  obtain ⟨h1, h2, h3⟩ := h
  unfold OnE QPt.toPt
  rw [hdk]
  refine ⟨?_, ?_, ?_⟩
  · simp only [cross, Pt.scale, hk]
    simp only [exD, SweepOrder.run] at h1
    have : (q.d * k * e.top.x - q.d * k * e.bot.x) * (q.yn * k - q.d * k * e.bot.y) -
        (q.d * k * e.top.y - q.d * k * e.bot.y) * (q.xn * k - q.d * k * e.bot.x) =
        q.d * k * k * ((e.top.x - e.bot.x) * (q.yn - q.d * e.bot.y) + (e.bot.y - e.top.y) * (q.xn - q.d * e.bot.x)) := by grind
    rw [this, h1]; simp
  · simp only [hk]
    have := Int.mul_le_mul_of_nonneg_right h2 (Int.le_of_lt hkpos)
    have e1 : q.d * k * e.top.y = q.d * e.top.y * k := by grind
    omega
  · simp only [hk]
    have := Int.mul_le_mul_of_nonneg_right h3 (Int.le_of_lt hkpos)
    have e1 : q.d * k * e.bot.y = q.d * e.bot.y * k := by grind
    omega

/-- the height of the scaled crossing point -/
theorem toPt_y (D : Int) (q : QPt) (hd : 0 < q.d) (hdiv : q.d ∣ D) : (q.toPt D).y * q.d = q.yn * D := by
  obtain ⟨k, hk⟩ := hdiv
  have hdk : D / q.d = k := by rw [hk, Int.mul_ediv_cancel_left _ (by omega)]
  simp only [QPt.toPt]; rw [hdk, hk]; grind

/-- a vertex is on its edge: bottom … -/
theorem onE_bot (D : Int) (e : GEdge) (hD : 0 < D) (hu : e.Up) : OnE D e (Pt.scale D e.bot) := by
  unfold SEdge.Up at hu
  refine ⟨by simp [cross, Pt.scale], ?_, by simp [Pt.scale]⟩
  simp only [Pt.scale]
  exact Int.mul_le_mul_of_nonneg_left (by omega) (Int.le_of_lt hD)

/-- … and top -/
theorem onE_top (D : Int) (e : GEdge) (hD : 0 < D) (hu : e.Up) : OnE D e (Pt.scale D e.top) := by
  unfold SEdge.Up at hu
  refine ⟨by simp only [cross, Pt.scale]; grind, by simp [Pt.scale], ?_⟩
  simp only [Pt.scale]
  exact Int.mul_le_mul_of_nonneg_left (by omega) (Int.le_of_lt hD)

/-- **`OnE` is the specification's `onSeg`** on the scaled end points (non-horizontal edge, `D > 0`) -/
theorem onE_iff_onSeg (D : Int) (e : GEdge) (p : Pt) (hD : 0 < D) (hu : e.Up) :
    OnE D e p ↔ onSeg p (Pt.scale D e.bot) (Pt.scale D e.top) = true := by
  unfold SEdge.Up at hu
  have hlt : D * e.top.y < D * e.bot.y := Int.mul_lt_mul_of_pos_left hu hD
  simp only [OnE, onSeg, Bool.and_eq_true, beq_iff_eq, decide_eq_true_eq]
  simp only [Pt.scale]
  constructor
  · rintro ⟨hc, h1, h2⟩
    refine ⟨⟨⟨⟨hc, ?_⟩, ?_⟩, by omega⟩, by omega⟩
    · -- x-range from collinearity: (p.x - bx) * (ty - by) = (p.y - by) * (tx - bx)
      simp only [cross] at hc
      have e1 : (p.x - D * e.bot.x) * (D * e.bot.y - D * e.top.y) = (D * e.bot.y - p.y) * (D * e.top.x - D * e.bot.x) := by grind
      rcases Int.le_total (D * e.bot.x) (D * e.top.x) with hx | hx
      · rw [Int.min_eq_left hx]
        have : 0 ≤ (D * e.bot.y - p.y) * (D * e.top.x - D * e.bot.x) := Int.mul_nonneg (by omega) (by omega)
        rw [← e1] at this
        have hpos : 0 < D * e.bot.y - D * e.top.y := by omega
        by_cases hneg : p.x - D * e.bot.x < 0
        · have := Int.mul_neg_of_neg_of_pos hneg hpos; omega
        · omega
      · rw [Int.min_eq_right hx]
        -- (p.x - tx) * (by - ty) = (p.y - ty) * (bx - tx) ≥ 0
        have e2 : (p.x - D * e.top.x) * (D * e.bot.y - D * e.top.y) = (p.y - D * e.top.y) * (D * e.bot.x - D * e.top.x) := by grind
        have : 0 ≤ (p.y - D * e.top.y) * (D * e.bot.x - D * e.top.x) := Int.mul_nonneg (by omega) (by omega)
        rw [← e2] at this
        have hpos : 0 < D * e.bot.y - D * e.top.y := by omega
        by_cases hneg : p.x - D * e.top.x < 0
        · have := Int.mul_neg_of_neg_of_pos hneg hpos; omega
        · omega
    · simp only [cross] at hc
      have hpos : 0 < D * e.bot.y - D * e.top.y := by omega
      rcases Int.le_total (D * e.bot.x) (D * e.top.x) with hx | hx
      · rw [Int.max_eq_right hx]
        have e2 : (D * e.top.x - p.x) * (D * e.bot.y - D * e.top.y) = (p.y - D * e.top.y) * (D * e.top.x - D * e.bot.x) := by grind
        have : 0 ≤ (p.y - D * e.top.y) * (D * e.top.x - D * e.bot.x) := Int.mul_nonneg (by omega) (by omega)
        rw [← e2] at this
        by_cases hneg : D * e.top.x - p.x < 0
        · have := Int.mul_neg_of_neg_of_pos hneg hpos; omega
        · omega
      · rw [Int.max_eq_left hx]
        have e2 : (D * e.bot.x - p.x) * (D * e.bot.y - D * e.top.y) = (D * e.bot.y - p.y) * (D * e.bot.x - D * e.top.x) := by grind
        have : 0 ≤ (D * e.bot.y - p.y) * (D * e.bot.x - D * e.top.x) := Int.mul_nonneg (by omega) (by omega)
        rw [← e2] at this
        by_cases hneg : D * e.bot.x - p.x < 0
        · have := Int.mul_neg_of_neg_of_pos hneg hpos; omega
        · omega
  · rintro ⟨⟨⟨⟨hc, _⟩, _⟩, h3⟩, h4⟩
    refine ⟨hc, ?_, ?_⟩
    · rw [Int.min_eq_right (Int.le_of_lt hlt)] at h3; exact h3
    · rw [Int.max_eq_left (Int.le_of_lt hlt)] at h4; exact h4

end Clipper.Lemmas.C01Output
