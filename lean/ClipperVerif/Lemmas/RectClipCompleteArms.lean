/- Completeness of the arm lists of `GetIntersection` for sign-exact arithmetic: integer lemmas about `HitR`
(Lemmas/RectClipCompleteGeom.lean), then one lemma per side.  Core Lean only. -/
import ClipperVerif.Lemmas.RectClipCompleteGeom
namespace Clipper.Lemmas.RCG
open Clipper Clipper.Model.RC Clipper.Lemmas.RC Clipper.Lemmas.RCA Clipper.Lemmas.RCE

/-! ### integer lemmas about `HitR`: the order of the arms is complete -/

theorem sgn_mul (x y : Int) :
    (0 < x * y ↔ (0 < x ∧ 0 < y) ∨ (x < 0 ∧ y < 0)) ∧ (x * y < 0 ↔ (0 < x ∧ y < 0) ∨ (x < 0 ∧ 0 < y)) ∧
    (x * y = 0 ↔ x = 0 ∨ y = 0) := by
  rcases Int.lt_trichotomy x 0 with hx | hx | hx <;> rcases Int.lt_trichotomy y 0 with hy | hy | hy
  · have := Int.mul_pos_of_neg_of_neg hx hy; omega
  · subst hy; simp
  · have := Int.mul_neg_of_neg_of_pos hx hy; omega
  · subst hx; simp
  · subst hx; simp
  · subst hx; simp
  · have := Int.mul_neg_of_pos_of_neg hx hy; omega
  · subst hy; simp
  · have := Int.mul_pos hx hy; omega

theorem hitR_neg1 (a p q dx dy : Int) : HitR (-a) p q (-dx) dy ↔ HitR a p q dx dy := by
  unfold HitR
  rw [Int.mul_neg, Int.mul_neg, Int.mul_neg]
  generalize dy * a = m
  generalize p * dx = mp
  generalize q * dx = mq
  omega

theorem hitR_neg2 (a p q dx dy : Int) : HitR a (-q) (-p) dx (-dy) ↔ HitR a p q dx dy := by
  unfold HitR
  rw [Int.neg_mul, Int.neg_mul, Int.neg_mul]
  generalize dy * a = m
  generalize p * dx = mp
  generalize q * dx = mq
  omega

/-- **exit completeness**: a segment from a point strictly beyond the first edge's line to a point of the rectangle
is caught by the first arm, by the (guarded) second arm or by the third arm -/
theorem exit_arms (A B P Q dx dy : Int) (hA : 0 < A) (hd1 : A ≤ dx) (hd2 : dx ≤ B) (h1 : P ≤ dy) (h2 : dy ≤ Q) :
    HitR A P Q dx dy ∨ (0 < P ∧ HitR P A B dy dx) ∨ HitR Q A B dy dx := by
  unfold HitR
  rw [Int.mul_comm dy A, Int.mul_comm P dx, Int.mul_comm Q dx]
  by_cases hdx : dx = A
  · exact Or.inl (Or.inr (Or.inl ⟨by omega, hdx, h1, h2⟩))
  · by_cases c1 : A * dy < dx * P
    · right; left
      have e1 : A * P ≤ A * dy := Int.mul_le_mul_of_nonneg_left h1 (by omega)
      have f2 := (sgn_mul (dx - A) P).1; rw [Int.sub_mul] at f2
      have hP : 0 < P := by omega
      refine ⟨hP, ?_⟩
      by_cases hdy : dy = P
      · exact Or.inr (Or.inl ⟨by omega, hdy, hd1, hd2⟩)
      · have e3 : dx * P ≤ B * P := Int.mul_le_mul_of_nonneg_right hd2 (by omega)
        have e4 : B * P < B * dy := Int.mul_lt_mul_of_pos_left (by omega) (by omega)
        exact Or.inr (Or.inr ⟨Or.inl ⟨hP, by omega⟩, Or.inl ⟨by omega, by omega⟩⟩)
    · by_cases c2 : dx * Q < A * dy
      · right; right
        have e1 : A * dy ≤ A * Q := Int.mul_le_mul_of_nonneg_left h2 (by omega)
        have f2 := (sgn_mul (A - dx) Q).1; rw [Int.sub_mul] at f2
        have hQ : Q < 0 := by omega
        by_cases hdy : dy = Q
        · exact Or.inr (Or.inl ⟨by omega, hdy, hd1, hd2⟩)
        · have e3 : B * Q ≤ dx * Q := Int.mul_le_mul_of_nonpos_right hd2 (by omega)
          have e4 : B * dy < B * Q := Int.mul_lt_mul_of_pos_left (by omega) (by omega)
          exact Or.inr (Or.inr ⟨Or.inr ⟨by omega, hQ⟩, Or.inr ⟨by omega, by omega⟩⟩)
      · exact Or.inl (Or.inr (Or.inr ⟨Or.inl ⟨hA, by omega⟩, Or.inl ⟨by omega, by omega⟩⟩))

/-- **the third arm is reached only in one configuration**: `cur` at or beyond the first edge's line (`0 ≤ A`) and not
beyond the third edge's line (`0 < Q`); if the third arm succeeds then the first arm or the guarded second arm succeeds
as well — except when `cur` and `prv` both lie on the first edge's line, `cur` on the edge and `prv` at or beyond its
far end. -/
theorem third_arm (A B P Q dx dy : Int) (hA : 0 ≤ A) (hAB : A < B) (hPQ : P < Q) (hQ : 0 < Q)
    (h3 : HitR Q A B dy dx) :
    HitR A P Q dx dy ∨ (0 < P ∧ HitR P A B dy dx) ∨ (A = 0 ∧ dx = 0 ∧ P ≤ 0 ∧ Q ≤ dy) := by
  have key : Q ≤ dy ∧ A * dy ≤ dx * Q ∧ dx * Q ≤ B * dy := by
    unfold HitR at h3
    rcases h3 with ⟨h, _⟩ | ⟨_, hdy, h1, h2⟩ | ⟨ho, hs⟩
    · omega
    · subst hdy
      exact ⟨by omega, Int.mul_le_mul_of_nonneg_right h1 (by omega), Int.mul_le_mul_of_nonneg_right h2 (by omega)⟩
    · have hdy : Q < dy := by omega
      have e : A * dy < B * dy := Int.mul_lt_mul_of_pos_right hAB (by omega)
      omega
  obtain ⟨k1, k2, k3⟩ := key
  clear h3
  have hAdx : A ≤ dx := by
    have e1 : A * Q ≤ A * dy := Int.mul_le_mul_of_nonneg_left k1 hA
    exact Int.le_of_mul_le_mul_right (a := Q) (by omega) hQ
  have hBdy : 0 < B * dy := Int.mul_pos (by omega) (by omega)
  unfold HitR
  rw [Int.mul_comm dy A, Int.mul_comm P dx, Int.mul_comm Q dx]
  by_cases hdx0 : dx = 0
  · have hA0 : A = 0 := by omega
    subst hdx0; subst hA0
    by_cases hP : P ≤ 0
    · exact Or.inr (Or.inr ⟨rfl, rfl, hP, k1⟩)
    · right; left
      refine ⟨by omega, Or.inr (Or.inr ⟨Or.inl ⟨by omega, by omega⟩, Or.inl ⟨?_, ?_⟩⟩)⟩
      · rw [Int.zero_mul, Int.zero_mul]; omega
      · rw [Int.zero_mul]; omega
  · have hdxpos : 0 < dx := by omega
    have e5 : dx * P < dx * Q := Int.mul_lt_mul_of_pos_left hPQ hdxpos
    have hAdy : 0 ≤ A * dy := Int.mul_nonneg hA (by omega)
    by_cases c1 : A * dy < dx * P
    · have f := (sgn_mul dx P).1
      have hP : 0 < P := by omega
      right; left
      exact ⟨hP, Or.inr (Or.inr ⟨Or.inl ⟨hP, by omega⟩, Or.inl ⟨by omega, by omega⟩⟩)⟩
    · left
      by_cases hA0 : A = 0
      · have f := (sgn_mul dx P).1
        have z : A * dy = 0 := by rw [hA0]; exact Int.zero_mul dy
        exact Or.inl ⟨hA0, by omega, by omega, by omega⟩
      · by_cases hd : dx = A
        · have e6 : A * dy ≤ A * Q := by rw [hd] at k2; exact k2
          have : dy ≤ Q := Int.le_of_mul_le_mul_left e6 (by omega)
          exact Or.inr (Or.inl ⟨hA0, hd, by omega, this⟩)
        · exact Or.inr (Or.inr ⟨Or.inl ⟨by omega, by omega⟩, Or.inl ⟨by omega, by omega⟩⟩)

/-! ### three-arm chains -/

theorem tryArms3 {Z : Arith} {p p2 : Pt} {a1 a2 a3 : Arm} {H1 H2 H3 : Prop} (g1 : a1.guard = true)
    (g3 : a3.guard = true)
    (h1 : ∀ ip, (segIntersection Z p p2 a1.a a1.b ip).1 = true ↔ H1)
    (h2 : ∀ ip, (segIntersection Z p p2 a2.a a2.b ip).1 = true ↔ H2)
    (h3 : ∀ ip, (segIntersection Z p p2 a3.a a3.b ip).1 = true ↔ H3) (loc : Location) (ip : Pt) :
    ((tryArms Z p p2 [a1, a2, a3] loc ip).1 = true →
      (H1 ∧ (tryArms Z p p2 [a1, a2, a3] loc ip).2.1 = a1.loc ∧
        (tryArms Z p p2 [a1, a2, a3] loc ip).2.2 = (segIntersection Z p p2 a1.a a1.b ip).2) ∨
      (¬ H1 ∧ a2.guard = true ∧ H2 ∧ (tryArms Z p p2 [a1, a2, a3] loc ip).2.1 = a2.loc) ∨
      (¬ H1 ∧ ¬ (a2.guard = true ∧ H2) ∧ H3 ∧ (tryArms Z p p2 [a1, a2, a3] loc ip).2.1 = a3.loc ∧
        ∃ ip', (tryArms Z p p2 [a1, a2, a3] loc ip).2.2 = (segIntersection Z p p2 a3.a a3.b ip').2)) ∧
    ((tryArms Z p p2 [a1, a2, a3] loc ip).1 = false → ¬ H1 ∧ ¬ (a2.guard = true ∧ H2) ∧ ¬ H3) := by
  have last : ∀ ip1, ¬ H1 → ¬ (a2.guard = true ∧ H2) →
      ((tryArms Z p p2 [a3] loc ip1).1 = true →
        (H3 ∧ (tryArms Z p p2 [a3] loc ip1).2.1 = a3.loc ∧
          ∃ ip', (tryArms Z p p2 [a3] loc ip1).2.2 = (segIntersection Z p p2 a3.a a3.b ip').2)) ∧
      ((tryArms Z p p2 [a3] loc ip1).1 = false → ¬ H3) := by
    intro ip1 _ _
    unfold tryArms
    rw [if_pos g3]
    simp only
    split
    · rename_i s3
      exact ⟨fun _ => ⟨(h3 _).mp s3, rfl, ⟨ip1, rfl⟩⟩, fun h => by simp at h⟩
    · rename_i s3
      exact ⟨fun h => by simp [tryArms] at h, fun _ h => s3 ((h3 _).mpr h)⟩
  unfold tryArms
  rw [if_pos g1]
  simp only
  split
  · rename_i s1
    exact ⟨fun _ => Or.inl ⟨(h1 _).mp s1, rfl, rfl⟩, fun h => by simp at h⟩
  · rename_i s1
    have n1 : ¬ H1 := fun h => s1 ((h1 _).mpr h)
    unfold tryArms
    split
    · rename_i g2
      simp only
      split
      · rename_i s2
        exact ⟨fun _ => Or.inr (Or.inl ⟨n1, g2, (h2 _).mp s2, rfl⟩), fun h => by simp at h⟩
      · rename_i s2
        have n2 : ¬ (a2.guard = true ∧ H2) := fun h => s2 ((h2 _).mpr h.2)
        have := last (segIntersection Z p p2 a2.a a2.b (segIntersection Z p p2 a1.a a1.b ip).2).2 n1 n2
        exact ⟨fun h => Or.inr (Or.inr ⟨n1, n2, this.1 h⟩), fun h => ⟨n1, n2, this.2 h⟩⟩
    · rename_i g2
      have n2 : ¬ (a2.guard = true ∧ H2) := fun h => g2 h.1
      have := last (segIntersection Z p p2 a1.a a1.b ip).2 n1 n2
      exact ⟨fun h => Or.inr (Or.inr ⟨n1, n2, this.1 h⟩), fun h => ⟨n1, n2, this.2 h⟩⟩

theorem hitR_congr {a a' p p' q q' dx dx' dy dy' : Int} (h1 : a = a') (h2 : p = p') (h3 : q = q') (h4 : dx = dx')
    (h5 : dy = dy') : HitR a p q dx dy ↔ HitR a' p' q' dx' dy' := by
  subst h1 h2 h3 h4 h5; rfl

/-! ### swapping the end points of the segment -/

theorem crossZ_swap (e p1 p2 : Pt) : crossZ e p2 p1 = -crossZ e p1 p2 := by
  simp only [crossZ]; grind

/-- if `GetSegmentIntersection` succeeds without computing an intersection point (some cross product vanishes), it
reports the same point for the reversed segment -/
theorem seg_swap {A : Arith} (p1 p2 p3 p4 ip ip' : Pt)
    (hz : crossZ p1 p3 p4 = 0 ∨ crossZ p2 p3 p4 = 0 ∨ crossZ p3 p1 p2 = 0 ∨ crossZ p4 p1 p2 = 0)
    (h : (segIntersection (exactOf A) p1 p2 p3 p4 ip).1 = true) :
    (segIntersection (exactOf A) p2 p1 p3 p4 ip').2 = (segIntersection (exactOf A) p1 p2 p3 p4 ip).2 := by
  have n3 := crossZ_swap p3 p1 p2
  have n4 := crossZ_swap p4 p1 p2
  unfold segIntersection exactOf at *
  simp only at *
  by_cases h1 : crossZ p1 p3 p4 = 0
  · by_cases h2 : crossZ p2 p3 p4 = 0
    · rw [if_pos h1, if_pos h2] at h; simp at h
    · rw [if_neg h2, if_pos h1, if_pos h1, if_neg h2]
      repeat' split
      all_goals rfl
  · by_cases h2 : crossZ p2 p3 p4 = 0
    · rw [if_pos h2, if_neg h1, if_neg h1, if_pos h2]
      repeat' split
      all_goals rfl
    · rw [if_neg h1, if_neg h2] at h
      rw [if_neg h2, if_neg h1, if_neg h1, if_neg h2]
      by_cases hs : decide (crossZ p1 p3 p4 > 0) = decide (crossZ p2 p3 p4 > 0)
      · rw [if_pos hs] at h; simp at h
      · rw [if_neg hs] at h
        rw [if_neg hs, if_neg (fun e => hs e.symm)]
        by_cases h3 : crossZ p3 p1 p2 = 0
        · rw [if_pos h3, if_pos (by omega : crossZ p3 p2 p1 = 0)]
          repeat' split
          all_goals rfl
        · rw [if_neg h3, if_neg (by omega : ¬ crossZ p3 p2 p1 = 0)]
          by_cases h4 : crossZ p4 p1 p2 = 0
          · rw [if_pos h4, if_pos (by omega : crossZ p4 p2 p1 = 0)]
            repeat' split
            all_goals rfl
          · exfalso; omega

theorem hitR_back (a q dx : Int) (ha : a ≤ 0) (hdx : dx < a) (hq : 0 < q) : HitR a 0 q dx 0 := by
  unfold HitR
  rw [Int.zero_mul, Int.zero_mul]
  have := Int.mul_neg_of_pos_of_neg hq (by omega : dx < 0)
  omega

theorem hitR_back' (a p dx : Int) (ha : a ≤ 0) (hdx : dx < a) (hp : p < 0) : HitR a p 0 dx 0 := by
  unfold HitR
  rw [Int.zero_mul, Int.zero_mul]
  have := Int.mul_pos_of_neg_of_neg hp (by omega : dx < 0)
  omega

theorem tryArms_first {Z : Arith} {p p2 : Pt} {arm : Arm} {rest : List Arm} {loc : Location} {ip : Pt}
    (g : arm.guard = true) (h : (segIntersection Z p p2 arm.a arm.b ip).1 = true) :
    tryArms Z p p2 (arm :: rest) loc ip = (true, arm.loc, (segIntersection Z p p2 arm.a arm.b ip).2) := by
  unfold tryArms
  rw [if_pos g]
  simp only
  rw [if_pos h]

/-! ### one lemma per side -/

/-- the one configuration in which the third arm of `GetIntersection(cur, prv, L)` answers although `cur` is not
beyond that arm's edge: `cur` on the first arm's edge, `prv` on the same line at or beyond the edge's far end -/
def Special (r : Rect) : Location → Pt → Pt → Prop
  | .left, cur, prv => cur.x = r.left ∧ prv.x = r.left ∧ r.top ≤ cur.y ∧ cur.y < r.bottom ∧ r.bottom ≤ prv.y
  | .top, cur, prv => cur.y = r.top ∧ prv.y = r.top ∧ r.left ≤ cur.x ∧ cur.x < r.right ∧ r.right ≤ prv.x
  | .right, cur, prv => cur.x = r.right ∧ prv.x = r.right ∧ r.top ≤ cur.y ∧ cur.y < r.bottom ∧ r.bottom ≤ prv.y
  | .bottom, cur, prv => cur.y = r.bottom ∧ prv.y = r.bottom ∧ r.left ≤ cur.x ∧ cur.x < r.right ∧ r.right ≤ prv.x
  | .inside, _, _ => False

/-- the location the automaton is in when it meets the special configuration -/
def specialFrom : Location → Location
  | .left => .bottom | .top => .right | .right => .bottom | .bottom => .right | .inside => .inside

theorem side_left {A : Arith} (ht : IsectTotal A) (r : Rect) (hw : r.left < r.right) (hh : r.top < r.bottom)
    (cur prv ip : Pt) :
    ((getIntersection (exactOf A) r cur prv .left ip).1 = true → cur.x ≤ r.left →
      Ready r (getIntersection (exactOf A) r cur prv .left ip).2.1 cur ∨
      (Special r .left cur prv ∧ ∀ ip', (getIntersection (exactOf A) r cur prv .left ip).2.2 =
        (getIntersection (exactOf A) r prv cur .bottom ip').2.2)) ∧
    (cur.x < r.left → inRect r prv = true → (getIntersection (exactOf A) r cur prv .left ip).1 = true) := by
  have T := tryArms3 (Z := exactOf A) (p := cur) (p2 := prv) (a1 := ⟨true, r.c0, r.c3, .left⟩)
    (a2 := ⟨decide (cur.y < r.c0.y), r.c0, r.c1, .top⟩) (a3 := ⟨true, r.c2, r.c3, .bottom⟩) rfl rfl
    (fun ip => hit_left ht r hh cur prv ip) (fun ip => hit_top ht r hw cur prv ip)
    (fun ip => hit_bottom ht r hw cur prv ip) .left ip
  have e : getIntersection (exactOf A) r cur prv .left ip = tryArms (exactOf A) cur prv
      [⟨true, r.c0, r.c3, .left⟩, ⟨decide (cur.y < r.c0.y), r.c0, r.c1, .top⟩, ⟨true, r.c2, r.c3, .bottom⟩] .left ip := rfl
  rw [e]
  constructor
  · intro hx hready
    rcases T.1 hx with ⟨_, hl, _⟩ | ⟨_, g, _, hl⟩ | ⟨n1, n2, h3, hl, ip1, hpt⟩
    · left; rw [hl]; exact hready
    · left; rw [hl]
      have : cur.y < r.top := of_decide_eq_true g
      simp only [Ready]; omega
    · rw [hl]
      by_cases hb : cur.y ≥ r.bottom
      · left; exact hb
      · right
        rcases third_arm (r.left - cur.x) (r.right - cur.x) (r.top - cur.y) (r.bottom - cur.y) (prv.x - cur.x)
          (prv.y - cur.y) (by omega) (by omega) (by omega) (by omega) h3 with h | ⟨hp, h⟩ | h
        · exact absurd h n1
        · exact absurd ⟨decide_eq_true (show cur.y < r.top by omega), h⟩ n2
        · have hsp : Special r .left cur prv := by simp only [Special]; omega
          refine ⟨hsp, fun ip' => ?_⟩
          rw [hpt]
          have hback : (segIntersection (exactOf A) prv cur r.c2 r.c3 ip').1 = true :=
            (hit_bottom ht r hw prv cur ip').mpr
              ((hitR_congr rfl (by omega) (by omega) rfl (by omega)).mpr
                (hitR_back (r.bottom - prv.y) (r.right - r.left) (cur.y - prv.y) (by omega) (by omega) (by omega)))
          have e2 : getIntersection (exactOf A) r prv cur .bottom ip' = tryArms (exactOf A) prv cur
              (⟨true, r.c2, r.c3, .bottom⟩ :: [⟨decide (prv.x < r.c3.x), r.c0, r.c3, .left⟩, ⟨true, r.c1, r.c2, .right⟩])
              .bottom ip' := rfl
          rw [e2, tryArms_first rfl hback]
          refine (seg_swap cur prv r.c2 r.c3 ip1 ip' (Or.inr (Or.inr (Or.inr ?_))) ((hit_bottom ht r hw cur prv ip1).mpr h3)).symm
          simp only [crossZ, Rect.c3]
          rw [show cur.x - r.left = 0 by omega, show prv.x - cur.x = 0 by omega]
          simp
  · intro hlt hin
    rw [inRect_iff] at hin
    cases hx : (tryArms (exactOf A) cur prv
      [⟨true, r.c0, r.c3, .left⟩, ⟨decide (cur.y < r.c0.y), r.c0, r.c1, .top⟩, ⟨true, r.c2, r.c3, .bottom⟩] .left ip).1
    · exfalso
      obtain ⟨n1, n2, n3⟩ := T.2 hx
      rcases exit_arms (r.left - cur.x) (r.right - cur.x) (r.top - cur.y) (r.bottom - cur.y) (prv.x - cur.x)
        (prv.y - cur.y) (by omega) (by omega) (by omega) (by omega) (by omega) with h | ⟨hp, h⟩ | h
      · exact n1 h
      · exact n2 ⟨decide_eq_true (show cur.y < r.top by omega), h⟩
      · exact n3 h
    · rfl

theorem side_top {A : Arith} (ht : IsectTotal A) (r : Rect) (hw : r.left < r.right) (hh : r.top < r.bottom)
    (cur prv ip : Pt) :
    ((getIntersection (exactOf A) r cur prv .top ip).1 = true → cur.y ≤ r.top →
      Ready r (getIntersection (exactOf A) r cur prv .top ip).2.1 cur ∨
      (Special r .top cur prv ∧ ∀ ip', (getIntersection (exactOf A) r cur prv .top ip).2.2 =
        (getIntersection (exactOf A) r prv cur .right ip').2.2)) ∧
    (cur.y < r.top → inRect r prv = true → (getIntersection (exactOf A) r cur prv .top ip).1 = true) := by
  have T := tryArms3 (Z := exactOf A) (p := cur) (p2 := prv) (a1 := ⟨true, r.c0, r.c1, .top⟩)
    (a2 := ⟨decide (cur.x < r.c0.x), r.c0, r.c3, .left⟩) (a3 := ⟨true, r.c1, r.c2, .right⟩) rfl rfl
    (fun ip => hit_top ht r hw cur prv ip) (fun ip => hit_left ht r hh cur prv ip)
    (fun ip => hit_right ht r hh cur prv ip) .top ip
  have e : getIntersection (exactOf A) r cur prv .top ip = tryArms (exactOf A) cur prv
      [⟨true, r.c0, r.c1, .top⟩, ⟨decide (cur.x < r.c0.x), r.c0, r.c3, .left⟩, ⟨true, r.c1, r.c2, .right⟩] .top ip := rfl
  rw [e]
  constructor
  · intro hx hready
    rcases T.1 hx with ⟨_, hl, _⟩ | ⟨_, g, _, hl⟩ | ⟨n1, n2, h3, hl, ip1, hpt⟩
    · left; rw [hl]; exact hready
    · left; rw [hl]
      have : cur.x < r.left := of_decide_eq_true g
      simp only [Ready]; omega
    · rw [hl]
      by_cases hb : cur.x ≥ r.right
      · left; exact hb
      · right
        rcases third_arm (r.top - cur.y) (r.bottom - cur.y) (r.left - cur.x) (r.right - cur.x) (prv.y - cur.y)
          (prv.x - cur.x) (by omega) (by omega) (by omega) (by omega) h3 with h | ⟨hp, h⟩ | h
        · exact absurd h n1
        · exact absurd ⟨decide_eq_true (show cur.x < r.left by omega), h⟩ n2
        · have hsp : Special r .top cur prv := by simp only [Special]; omega
          refine ⟨hsp, fun ip' => ?_⟩
          rw [hpt]
          have hback : (segIntersection (exactOf A) prv cur r.c1 r.c2 ip').1 = true :=
            (hit_right ht r hh prv cur ip').mpr
              ((hitR_congr rfl (by omega) (by omega) rfl (by omega)).mpr
                (hitR_back (r.right - prv.x) (r.bottom - r.top) (cur.x - prv.x) (by omega) (by omega) (by omega)))
          have e2 : getIntersection (exactOf A) r prv cur .right ip' = tryArms (exactOf A) prv cur
              (⟨true, r.c1, r.c2, .right⟩ :: [⟨decide (prv.y < r.c1.y), r.c0, r.c1, .top⟩, ⟨true, r.c2, r.c3, .bottom⟩])
              .right ip' := rfl
          rw [e2, tryArms_first rfl hback]
          refine (seg_swap cur prv r.c1 r.c2 ip1 ip' (Or.inr (Or.inr (Or.inl ?_))) ((hit_right ht r hh cur prv ip1).mpr h3)).symm
          simp only [crossZ, Rect.c1]
          rw [show prv.y - cur.y = 0 by omega, show cur.y - r.top = 0 by omega]
          simp
  · intro hlt hin
    rw [inRect_iff] at hin
    cases hx : (tryArms (exactOf A) cur prv
      [⟨true, r.c0, r.c1, .top⟩, ⟨decide (cur.x < r.c0.x), r.c0, r.c3, .left⟩, ⟨true, r.c1, r.c2, .right⟩] .top ip).1
    · exfalso
      obtain ⟨n1, n2, n3⟩ := T.2 hx
      rcases exit_arms (r.top - cur.y) (r.bottom - cur.y) (r.left - cur.x) (r.right - cur.x) (prv.y - cur.y)
        (prv.x - cur.x) (by omega) (by omega) (by omega) (by omega) (by omega) with h | ⟨hp, h⟩ | h
      · exact n1 h
      · exact n2 ⟨decide_eq_true (show cur.x < r.left by omega), h⟩
      · exact n3 h
    · rfl

theorem side_right {A : Arith} (ht : IsectTotal A) (r : Rect) (hw : r.left < r.right) (hh : r.top < r.bottom)
    (cur prv ip : Pt) :
    ((getIntersection (exactOf A) r cur prv .right ip).1 = true → cur.x ≥ r.right →
      Ready r (getIntersection (exactOf A) r cur prv .right ip).2.1 cur ∨
      (Special r .right cur prv ∧ ∀ ip', (getIntersection (exactOf A) r cur prv .right ip).2.2 =
        (getIntersection (exactOf A) r prv cur .bottom ip').2.2)) ∧
    (cur.x > r.right → inRect r prv = true → (getIntersection (exactOf A) r cur prv .right ip).1 = true) := by
  have T := tryArms3 (Z := exactOf A) (p := cur) (p2 := prv) (a1 := ⟨true, r.c1, r.c2, .right⟩)
    (a2 := ⟨decide (cur.y < r.c1.y), r.c0, r.c1, .top⟩) (a3 := ⟨true, r.c2, r.c3, .bottom⟩) rfl rfl
    (fun ip => hit_right ht r hh cur prv ip) (fun ip => hit_top ht r hw cur prv ip)
    (fun ip => hit_bottom ht r hw cur prv ip) .right ip
  have e : getIntersection (exactOf A) r cur prv .right ip = tryArms (exactOf A) cur prv
      [⟨true, r.c1, r.c2, .right⟩, ⟨decide (cur.y < r.c1.y), r.c0, r.c1, .top⟩, ⟨true, r.c2, r.c3, .bottom⟩] .right ip := rfl
  -- mirror image: first axis = -x
  have c1 : HitR (r.right - cur.x) (r.top - cur.y) (r.bottom - cur.y) (prv.x - cur.x) (prv.y - cur.y) ↔
      HitR (cur.x - r.right) (r.top - cur.y) (r.bottom - cur.y) (cur.x - prv.x) (prv.y - cur.y) :=
    (hitR_congr (by omega) rfl rfl (by omega) rfl).trans (hitR_neg1 _ _ _ _ _)
  have c2 : HitR (r.top - cur.y) (r.left - cur.x) (r.right - cur.x) (prv.y - cur.y) (prv.x - cur.x) ↔
      HitR (r.top - cur.y) (cur.x - r.right) (cur.x - r.left) (prv.y - cur.y) (cur.x - prv.x) :=
    (hitR_congr rfl (by omega) (by omega) rfl (by omega)).trans (hitR_neg2 _ _ _ _ _)
  have c3 : HitR (r.bottom - cur.y) (r.left - cur.x) (r.right - cur.x) (prv.y - cur.y) (prv.x - cur.x) ↔
      HitR (r.bottom - cur.y) (cur.x - r.right) (cur.x - r.left) (prv.y - cur.y) (cur.x - prv.x) :=
    (hitR_congr rfl (by omega) (by omega) rfl (by omega)).trans (hitR_neg2 _ _ _ _ _)
  rw [e]
  constructor
  · intro hx hready
    rcases T.1 hx with ⟨_, hl, _⟩ | ⟨_, g, _, hl⟩ | ⟨n1, n2, h3, hl, ip1, hpt⟩
    · left; rw [hl]; exact hready
    · left; rw [hl]
      have : cur.y < r.top := of_decide_eq_true g
      simp only [Ready]; omega
    · rw [hl]
      by_cases hb : cur.y ≥ r.bottom
      · left; exact hb
      · right
        rcases third_arm (cur.x - r.right) (cur.x - r.left) (r.top - cur.y) (r.bottom - cur.y) (cur.x - prv.x)
          (prv.y - cur.y) (by omega) (by omega) (by omega) (by omega) (c3.mp h3) with h | ⟨hp, h⟩ | h
        · exact absurd (c1.mpr h) n1
        · exact absurd ⟨decide_eq_true (show cur.y < r.top by omega), c2.mpr h⟩ n2
        · have hsp : Special r .right cur prv := by simp only [Special]; omega
          refine ⟨hsp, fun ip' => ?_⟩
          rw [hpt]
          have hback : (segIntersection (exactOf A) prv cur r.c2 r.c3 ip').1 = true :=
            (hit_bottom ht r hw prv cur ip').mpr
              ((hitR_congr rfl (by omega) (by omega) rfl (by omega)).mpr
                (hitR_back' (r.bottom - prv.y) (r.left - r.right) (cur.y - prv.y) (by omega) (by omega) (by omega)))
          have e2 : getIntersection (exactOf A) r prv cur .bottom ip' = tryArms (exactOf A) prv cur
              (⟨true, r.c2, r.c3, .bottom⟩ :: [⟨decide (prv.x < r.c3.x), r.c0, r.c3, .left⟩, ⟨true, r.c1, r.c2, .right⟩])
              .bottom ip' := rfl
          rw [e2, tryArms_first rfl hback]
          refine (seg_swap cur prv r.c2 r.c3 ip1 ip' (Or.inr (Or.inr (Or.inl ?_))) ((hit_bottom ht r hw cur prv ip1).mpr h3)).symm
          simp only [crossZ, Rect.c2]
          rw [show cur.x - r.right = 0 by omega, show prv.x - cur.x = 0 by omega]
          simp
  · intro hlt hin
    rw [inRect_iff] at hin
    cases hx : (tryArms (exactOf A) cur prv
      [⟨true, r.c1, r.c2, .right⟩, ⟨decide (cur.y < r.c1.y), r.c0, r.c1, .top⟩, ⟨true, r.c2, r.c3, .bottom⟩] .right ip).1
    · exfalso
      obtain ⟨n1, n2, n3⟩ := T.2 hx
      rcases exit_arms (cur.x - r.right) (cur.x - r.left) (r.top - cur.y) (r.bottom - cur.y) (cur.x - prv.x)
        (prv.y - cur.y) (by omega) (by omega) (by omega) (by omega) (by omega) with h | ⟨hp, h⟩ | h
      · exact n1 (c1.mpr h)
      · exact n2 ⟨decide_eq_true (show cur.y < r.top by omega), c2.mpr h⟩
      · exact n3 (c3.mpr h)
    · rfl

theorem side_bottom {A : Arith} (ht : IsectTotal A) (r : Rect) (hw : r.left < r.right) (hh : r.top < r.bottom)
    (cur prv ip : Pt) :
    ((getIntersection (exactOf A) r cur prv .bottom ip).1 = true → cur.y ≥ r.bottom →
      Ready r (getIntersection (exactOf A) r cur prv .bottom ip).2.1 cur ∨
      (Special r .bottom cur prv ∧ ∀ ip', (getIntersection (exactOf A) r cur prv .bottom ip).2.2 =
        (getIntersection (exactOf A) r prv cur .right ip').2.2)) ∧
    (cur.y > r.bottom → inRect r prv = true → (getIntersection (exactOf A) r cur prv .bottom ip).1 = true) := by
  have T := tryArms3 (Z := exactOf A) (p := cur) (p2 := prv) (a1 := ⟨true, r.c2, r.c3, .bottom⟩)
    (a2 := ⟨decide (cur.x < r.c3.x), r.c0, r.c3, .left⟩) (a3 := ⟨true, r.c1, r.c2, .right⟩) rfl rfl
    (fun ip => hit_bottom ht r hw cur prv ip) (fun ip => hit_left ht r hh cur prv ip)
    (fun ip => hit_right ht r hh cur prv ip) .bottom ip
  have e : getIntersection (exactOf A) r cur prv .bottom ip = tryArms (exactOf A) cur prv
      [⟨true, r.c2, r.c3, .bottom⟩, ⟨decide (cur.x < r.c3.x), r.c0, r.c3, .left⟩, ⟨true, r.c1, r.c2, .right⟩] .bottom ip := rfl
  -- mirror image: first axis = -y
  have c1 : HitR (r.bottom - cur.y) (r.left - cur.x) (r.right - cur.x) (prv.y - cur.y) (prv.x - cur.x) ↔
      HitR (cur.y - r.bottom) (r.left - cur.x) (r.right - cur.x) (cur.y - prv.y) (prv.x - cur.x) :=
    (hitR_congr (by omega) rfl rfl (by omega) rfl).trans (hitR_neg1 _ _ _ _ _)
  have c2 : HitR (r.left - cur.x) (r.top - cur.y) (r.bottom - cur.y) (prv.x - cur.x) (prv.y - cur.y) ↔
      HitR (r.left - cur.x) (cur.y - r.bottom) (cur.y - r.top) (prv.x - cur.x) (cur.y - prv.y) :=
    (hitR_congr rfl (by omega) (by omega) rfl (by omega)).trans (hitR_neg2 _ _ _ _ _)
  have c3 : HitR (r.right - cur.x) (r.top - cur.y) (r.bottom - cur.y) (prv.x - cur.x) (prv.y - cur.y) ↔
      HitR (r.right - cur.x) (cur.y - r.bottom) (cur.y - r.top) (prv.x - cur.x) (cur.y - prv.y) :=
    (hitR_congr rfl (by omega) (by omega) rfl (by omega)).trans (hitR_neg2 _ _ _ _ _)
  rw [e]
  constructor
  · intro hx hready
    rcases T.1 hx with ⟨_, hl, _⟩ | ⟨_, g, _, hl⟩ | ⟨n1, n2, h3, hl, ip1, hpt⟩
    · left; rw [hl]; exact hready
    · left; rw [hl]
      have : cur.x < r.left := of_decide_eq_true g
      simp only [Ready]; omega
    · rw [hl]
      by_cases hb : cur.x ≥ r.right
      · left; exact hb
      · right
        rcases third_arm (cur.y - r.bottom) (cur.y - r.top) (r.left - cur.x) (r.right - cur.x) (cur.y - prv.y)
          (prv.x - cur.x) (by omega) (by omega) (by omega) (by omega) (c3.mp h3) with h | ⟨hp, h⟩ | h
        · exact absurd (c1.mpr h) n1
        · exact absurd ⟨decide_eq_true (show cur.x < r.left by omega), c2.mpr h⟩ n2
        · have hsp : Special r .bottom cur prv := by simp only [Special]; omega
          refine ⟨hsp, fun ip' => ?_⟩
          rw [hpt]
          have hback : (segIntersection (exactOf A) prv cur r.c1 r.c2 ip').1 = true :=
            (hit_right ht r hh prv cur ip').mpr
              ((hitR_congr rfl (by omega) (by omega) rfl (by omega)).mpr
                (hitR_back' (r.right - prv.x) (r.top - r.bottom) (cur.x - prv.x) (by omega) (by omega) (by omega)))
          have e2 : getIntersection (exactOf A) r prv cur .right ip' = tryArms (exactOf A) prv cur
              (⟨true, r.c1, r.c2, .right⟩ :: [⟨decide (prv.y < r.c1.y), r.c0, r.c1, .top⟩, ⟨true, r.c2, r.c3, .bottom⟩])
              .right ip' := rfl
          rw [e2, tryArms_first rfl hback]
          refine (seg_swap cur prv r.c1 r.c2 ip1 ip' (Or.inr (Or.inr (Or.inr ?_))) ((hit_right ht r hh cur prv ip1).mpr h3)).symm
          simp only [crossZ, Rect.c2]
          rw [show prv.y - cur.y = 0 by omega, show cur.y - r.bottom = 0 by omega]
          simp
  · intro hlt hin
    rw [inRect_iff] at hin
    cases hx : (tryArms (exactOf A) cur prv
      [⟨true, r.c2, r.c3, .bottom⟩, ⟨decide (cur.x < r.c3.x), r.c0, r.c3, .left⟩, ⟨true, r.c1, r.c2, .right⟩] .bottom ip).1
    · exfalso
      obtain ⟨n1, n2, n3⟩ := T.2 hx
      rcases exit_arms (cur.y - r.bottom) (cur.y - r.top) (r.left - cur.x) (r.right - cur.x) (cur.y - prv.y)
        (prv.x - cur.x) (by omega) (by omega) (by omega) (by omega) (by omega) with h | ⟨hp, h⟩ | h
      · exact n1 (c1.mpr h)
      · exact n2 ⟨decide_eq_true (show cur.x < r.left by omega), c2.mpr h⟩
      · exact n3 (c3.mpr h)
    · rfl

/-! ### entry completeness: a segment that meets the rectangle is caught from the side it comes from -/

/-- the success condition does not depend on the direction of the segment -/
theorem hitR_swap (a p q dx dy : Int) : HitR a p q dx dy ↔ HitR (a - dx) (p - dy) (q - dy) (-dx) (-dy) := by
  unfold HitR
  have e1 : (-dy) * (a - dx) - (p - dy) * (-dx) = -(dy * a - p * dx) := by grind
  have e2 : (-dy) * (a - dx) - (q - dy) * (-dx) = -(dy * a - q * dx) := by grind
  rw [e1, e2]
  generalize dy * a - p * dx = f1
  generalize dy * a - q * dx = f2
  omega

/-- first arm, from a point at or beyond the edge's line to a point strictly on the inner side of it -/
theorem firstArm_of (A P Q s dy : Int) (hA : 0 ≤ A) (hs : A < s) (h1 : s * P ≤ A * dy) (h2 : A * dy ≤ s * Q) :
    HitR A P Q s dy := by
  unfold HitR
  rw [Int.mul_comm dy A, Int.mul_comm P s, Int.mul_comm Q s]
  by_cases hA0 : A = 0
  · have z : A * dy = 0 := by rw [hA0]; exact Int.zero_mul dy
    have f1 := (sgn_mul s P).1
    have f2 := (sgn_mul s Q).2.1
    exact Or.inl ⟨hA0, by omega, by omega, by omega⟩
  · exact Or.inr (Or.inr ⟨Or.inl ⟨by omega, hs⟩, Or.inl ⟨by omega, by omega⟩⟩)

/-- what a hit of the far edge (at distance `B > 0`) means -/
theorem farArm_to (B P Q s dy : Int) (hB : 0 < B) (hPQ : P < Q) (h : HitR B P Q s dy) :
    B ≤ s ∧ s * P ≤ B * dy ∧ B * dy ≤ s * Q := by
  unfold HitR at h
  rw [Int.mul_comm dy B, Int.mul_comm P s, Int.mul_comm Q s] at h
  rcases h with ⟨h, _⟩ | ⟨_, hsB, h1, h2⟩ | ⟨ho, hc⟩
  · omega
  · subst hsB
    exact ⟨Int.le_refl _, Int.mul_le_mul_of_nonneg_left h1 (Int.le_of_lt hB),
      Int.mul_le_mul_of_nonneg_left h2 (Int.le_of_lt hB)⟩
  · have hs : 0 < s := by omega
    have : s * P < s * Q := Int.mul_lt_mul_of_pos_left hPQ hs
    omega

/-- what a hit of a lateral edge (level `P` along the second axis, spanning `[A, B]` along the first) means -/
theorem sideArm_to (P A B dy s : Int) (h : HitR P A B dy s) :
    dy ≠ 0 ∧ ((0 ≤ P ∧ P ≤ dy) ∨ (dy ≤ P ∧ P ≤ 0)) ∧
    ((A * dy ≤ s * P ∧ s * P ≤ B * dy) ∨ (B * dy ≤ s * P ∧ s * P ≤ A * dy)) := by
  unfold HitR at h
  rcases h with ⟨hP, hdy, h1, h2⟩ | ⟨hP, hdy, h1, h2⟩ | ⟨ho, hc⟩
  · subst hP
    rw [Int.mul_zero]
    have f1 := sgn_mul A dy
    have f2 := sgn_mul B dy
    omega
  · subst hdy
    refine ⟨hP, by omega, ?_⟩
    rcases Int.lt_or_gt_of_ne hP with hn | hp
    · right
      exact ⟨Int.mul_le_mul_of_nonpos_right (c := dy) h2 (by omega),
        Int.mul_le_mul_of_nonpos_right (c := dy) h1 (by omega)⟩
    · left
      exact ⟨Int.mul_le_mul_of_nonneg_right (c := dy) h1 (by omega),
        Int.mul_le_mul_of_nonneg_right (c := dy) h2 (by omega)⟩
  · omega

/-- a lateral arm succeeds if the level is reached and the crossing lies within the edge's span -/
theorem sideArm_of (P A B dy s : Int) (hAB : A < B) (hdy : dy ≠ 0)
    (hb : (0 ≤ P ∧ P ≤ dy) ∨ (dy ≤ P ∧ P ≤ 0))
    (hc : (A * dy ≤ s * P ∧ s * P ≤ B * dy) ∨ (B * dy ≤ s * P ∧ s * P ≤ A * dy)) : HitR P A B dy s := by
  unfold HitR
  by_cases hP0 : P = 0
  · subst hP0
    rw [Int.mul_zero] at hc
    have f1 := sgn_mul A dy
    have f2 := sgn_mul B dy
    exact Or.inl ⟨rfl, hdy, by omega, by omega⟩
  · by_cases hPd : dy = P
    · subst hPd
      have f1 := sgn_mul (A - s) dy; rw [Int.sub_mul] at f1
      have f2 := sgn_mul (B - s) dy; rw [Int.sub_mul] at f2
      exact Or.inr (Or.inl ⟨hP0, rfl, by omega, by omega⟩)
    · exact Or.inr (Or.inr ⟨by omega, by omega⟩)

/-- **entry completeness**: `prv` at or beyond the first edge's line (`0 ≤ A`), `cur` strictly on the inner side of
it (`A < s`); if the segment meets any of the four edges, it is caught by the first arm, the guarded second arm or the
third arm of the side `prv` is seen from -/
theorem entry_arms (A B P Q s dy : Int) (hA : 0 ≤ A) (hAB : A < B) (hPQ : P < Q) (hs : A < s)
    (h : HitR A P Q s dy ∨ HitR P A B dy s ∨ HitR B P Q s dy ∨ HitR Q A B dy s) :
    HitR A P Q s dy ∨ (0 < P ∧ HitR P A B dy s) ∨ HitR Q A B dy s := by
  have hs0 : 0 < s := by omega
  have hpk : s * P < s * Q := Int.mul_lt_mul_of_pos_left hPQ hs0
  have fab := sgn_mul (B - A) dy; rw [Int.sub_mul] at fab
  have fa := sgn_mul A dy
  rcases h with h | h | h | h
  · exact Or.inl h
  · by_cases hP : 0 < P
    · exact Or.inr (Or.inl ⟨hP, h⟩)
    · obtain ⟨hdy, hb, hc⟩ := sideArm_to P A B dy s h
      rcases Int.lt_or_gt_of_ne hdy with hn | hp
      · -- dy < 0
        by_cases c : A * dy ≤ s * Q
        · exact Or.inl (firstArm_of A P Q s dy hA hs (by omega) c)
        · have fq := (sgn_mul s Q).2.1
          exact Or.inr (Or.inr (sideArm_of Q A B dy s hAB hdy (Or.inr ⟨by omega, by omega⟩)
            (Or.inr ⟨by omega, by omega⟩)))
      · -- dy > 0, hence P = 0
        have hP0 : P = 0 := by omega
        subst hP0
        rw [Int.mul_zero] at hc hpk
        exact Or.inl (firstArm_of A 0 Q s dy hA hs (by rw [Int.mul_zero]; omega) (by omega))
  · obtain ⟨hBs, h1, h2⟩ := farArm_to B P Q s dy (by omega) hPQ h
    by_cases c1 : s * P ≤ A * dy
    · by_cases c2 : A * dy ≤ s * Q
      · exact Or.inl (firstArm_of A P Q s dy hA hs c1 c2)
      · -- the line passes beyond the third edge: dy < 0
        have hdy : dy < 0 := by omega
        have fq := (sgn_mul s Q).2.1
        have e : s * dy ≤ B * dy := Int.mul_le_mul_of_nonpos_right hBs (by omega)
        have hQ : dy ≤ Q := Int.le_of_mul_le_mul_left (a := s) (by omega) hs0
        exact Or.inr (Or.inr (sideArm_of Q A B dy s hAB (by omega) (Or.inr ⟨hQ, by omega⟩)
          (Or.inr ⟨h2, by omega⟩)))
    · have hdy : 0 < dy := by omega
      have fp := (sgn_mul s P).1
      have e : B * dy ≤ s * dy := Int.mul_le_mul_of_nonneg_right hBs (by omega)
      have hPd : P ≤ dy := Int.le_of_mul_le_mul_left (a := s) (by omega) hs0
      exact Or.inr (Or.inl ⟨by omega, sideArm_of P A B dy s hAB (by omega) (Or.inl ⟨by omega, hPd⟩)
        (Or.inl ⟨by omega, h1⟩)⟩)
  · exact Or.inr (Or.inr h)

/-- the segment `p1 p2` meets (non-collinearly) the left, top, right or bottom edge, relative to `p1` -/
def Hits (r : Rect) (p1 p2 : Pt) : Prop :=
  HitR (r.left - p1.x) (r.top - p1.y) (r.bottom - p1.y) (p2.x - p1.x) (p2.y - p1.y) ∨
  HitR (r.top - p1.y) (r.left - p1.x) (r.right - p1.x) (p2.y - p1.y) (p2.x - p1.x) ∨
  HitR (r.right - p1.x) (r.top - p1.y) (r.bottom - p1.y) (p2.x - p1.x) (p2.y - p1.y) ∨
  HitR (r.bottom - p1.y) (r.left - p1.x) (r.right - p1.x) (p2.y - p1.y) (p2.x - p1.x)

theorem hitR_swap' {a p q dx dy a' p' q' dx' dy' : Int} (h1 : a' = a - dx) (h2 : p' = p - dy) (h3 : q' = q - dy)
    (h4 : dx' = -dx) (h5 : dy' = -dy) : HitR a p q dx dy → HitR a' p' q' dx' dy' := by
  subst h1 h2 h3 h4 h5
  exact (hitR_swap a p q dx dy).mp

theorem hits_swap {r : Rect} {p1 p2 : Pt} (h : Hits r p1 p2) : Hits r p2 p1 := by
  unfold Hits at *
  rcases h with h | h | h | h
  · exact Or.inl (hitR_swap' (by omega) (by omega) (by omega) (by omega) (by omega) h)
  · exact Or.inr (Or.inl (hitR_swap' (by omega) (by omega) (by omega) (by omega) (by omega) h))
  · exact Or.inr (Or.inr (Or.inl (hitR_swap' (by omega) (by omega) (by omega) (by omega) (by omega) h)))
  · exact Or.inr (Or.inr (Or.inr (hitR_swap' (by omega) (by omega) (by omega) (by omega) (by omega) h)))

theorem tryArms_true_mem {Z : Arith} (p p2 : Pt) (l : List Arm) (loc : Location) (ip : Pt)
    (h : (tryArms Z p p2 l loc ip).1 = true) :
    ∃ arm ∈ l, ∃ ip', (segIntersection Z p p2 arm.a arm.b ip').1 = true := by
  induction l generalizing ip with
  | nil => simp [tryArms] at h
  | cons arm rest ih =>
    unfold tryArms at h
    split at h
    · simp only at h
      split at h
      · rename_i hs
        exact ⟨arm, by simp, ip, hs⟩
      · obtain ⟨a, ha, ip', h'⟩ := ih _ h
        exact ⟨a, by simp [ha], ip', h'⟩
    · obtain ⟨a, ha, ip', h'⟩ := ih _ h
      exact ⟨a, by simp [ha], ip', h'⟩

/-- a successful `GetIntersection` call means the segment meets one of the four edges -/
theorem hits_of_getIntersection {A : Arith} (ht : IsectTotal A) (r : Rect) (hw : r.left < r.right)
    (hh : r.top < r.bottom) (p1 p2 : Pt) (L : Location) (ip : Pt)
    (h : (getIntersection (exactOf A) r p1 p2 L ip).1 = true) : Hits r p1 p2 := by
  obtain ⟨arm, hm, ip', hs⟩ := tryArms_true_mem p1 p2 _ L ip h
  unfold Hits
  rcases arms_edges r p1 L arm hm with ⟨ha, hb⟩ | ⟨ha, hb⟩ | ⟨ha, hb⟩ | ⟨ha, hb⟩ <;> rw [ha, hb] at hs
  · exact Or.inl ((hit_left ht r hh p1 p2 ip').mp hs)
  · exact Or.inr (Or.inl ((hit_top ht r hw p1 p2 ip').mp hs))
  · exact Or.inr (Or.inr (Or.inl ((hit_right ht r hh p1 p2 ip').mp hs)))
  · exact Or.inr (Or.inr (Or.inr ((hit_bottom ht r hw p1 p2 ip').mp hs)))

theorem through_left {A : Arith} (ht : IsectTotal A) (r : Rect) (hw : r.left < r.right) (hh : r.top < r.bottom)
    (prv cur ip : Pt) (hp : prv.x ≤ r.left) (hc : r.left < cur.x) (h : Hits r prv cur) :
    (getIntersection (exactOf A) r prv cur .left ip).1 = true := by
  have T := tryArms3 (Z := exactOf A) (p := prv) (p2 := cur) (a1 := ⟨true, r.c0, r.c3, .left⟩)
    (a2 := ⟨decide (prv.y < r.c0.y), r.c0, r.c1, .top⟩) (a3 := ⟨true, r.c2, r.c3, .bottom⟩) rfl rfl
    (fun ip => hit_left ht r hh prv cur ip) (fun ip => hit_top ht r hw prv cur ip)
    (fun ip => hit_bottom ht r hw prv cur ip) .left ip
  have e : getIntersection (exactOf A) r prv cur .left ip = tryArms (exactOf A) prv cur
      [⟨true, r.c0, r.c3, .left⟩, ⟨decide (prv.y < r.c0.y), r.c0, r.c1, .top⟩, ⟨true, r.c2, r.c3, .bottom⟩] .left ip := rfl
  rw [e]
  cases hx : (tryArms (exactOf A) prv cur
      [⟨true, r.c0, r.c3, .left⟩, ⟨decide (prv.y < r.c0.y), r.c0, r.c1, .top⟩, ⟨true, r.c2, r.c3, .bottom⟩] .left ip).1
  · exfalso
    obtain ⟨n1, n2, n3⟩ := T.2 hx
    rcases entry_arms (r.left - prv.x) (r.right - prv.x) (r.top - prv.y) (r.bottom - prv.y) (cur.x - prv.x)
      (cur.y - prv.y) (by omega) (by omega) (by omega) (by omega) h with h | ⟨hp', h⟩ | h
    · exact n1 h
    · exact n2 ⟨decide_eq_true (show prv.y < r.top by omega), h⟩
    · exact n3 h
  · rfl

theorem through_top {A : Arith} (ht : IsectTotal A) (r : Rect) (hw : r.left < r.right) (hh : r.top < r.bottom)
    (prv cur ip : Pt) (hp : prv.y ≤ r.top) (hc : r.top < cur.y) (h : Hits r prv cur) :
    (getIntersection (exactOf A) r prv cur .top ip).1 = true := by
  have T := tryArms3 (Z := exactOf A) (p := prv) (p2 := cur) (a1 := ⟨true, r.c0, r.c1, .top⟩)
    (a2 := ⟨decide (prv.x < r.c0.x), r.c0, r.c3, .left⟩) (a3 := ⟨true, r.c1, r.c2, .right⟩) rfl rfl
    (fun ip => hit_top ht r hw prv cur ip) (fun ip => hit_left ht r hh prv cur ip)
    (fun ip => hit_right ht r hh prv cur ip) .top ip
  have e : getIntersection (exactOf A) r prv cur .top ip = tryArms (exactOf A) prv cur
      [⟨true, r.c0, r.c1, .top⟩, ⟨decide (prv.x < r.c0.x), r.c0, r.c3, .left⟩, ⟨true, r.c1, r.c2, .right⟩] .top ip := rfl
  rw [e]
  cases hx : (tryArms (exactOf A) prv cur
      [⟨true, r.c0, r.c1, .top⟩, ⟨decide (prv.x < r.c0.x), r.c0, r.c3, .left⟩, ⟨true, r.c1, r.c2, .right⟩] .top ip).1
  · exfalso
    obtain ⟨n1, n2, n3⟩ := T.2 hx
    rcases entry_arms (r.top - prv.y) (r.bottom - prv.y) (r.left - prv.x) (r.right - prv.x) (cur.y - prv.y)
      (cur.x - prv.x) (by omega) (by omega) (by omega) (by omega) (by
          unfold Hits at h
          rcases h with h | h | h | h
          · exact Or.inr (Or.inl h)
          · exact Or.inl h
          · exact Or.inr (Or.inr (Or.inr h))
          · exact Or.inr (Or.inr (Or.inl h))) with h | ⟨hp', h⟩ | h
    · exact n1 h
    · exact n2 ⟨decide_eq_true (show prv.x < r.left by omega), h⟩
    · exact n3 h
  · rfl

theorem through_right {A : Arith} (ht : IsectTotal A) (r : Rect) (hw : r.left < r.right) (hh : r.top < r.bottom)
    (prv cur ip : Pt) (hp : prv.x ≥ r.right) (hc : cur.x < r.right) (h : Hits r prv cur) :
    (getIntersection (exactOf A) r prv cur .right ip).1 = true := by
  have T := tryArms3 (Z := exactOf A) (p := prv) (p2 := cur) (a1 := ⟨true, r.c1, r.c2, .right⟩)
    (a2 := ⟨decide (prv.y < r.c1.y), r.c0, r.c1, .top⟩) (a3 := ⟨true, r.c2, r.c3, .bottom⟩) rfl rfl
    (fun ip => hit_right ht r hh prv cur ip) (fun ip => hit_top ht r hw prv cur ip)
    (fun ip => hit_bottom ht r hw prv cur ip) .right ip
  have e : getIntersection (exactOf A) r prv cur .right ip = tryArms (exactOf A) prv cur
      [⟨true, r.c1, r.c2, .right⟩, ⟨decide (prv.y < r.c1.y), r.c0, r.c1, .top⟩, ⟨true, r.c2, r.c3, .bottom⟩] .right ip := rfl
  -- mirror image: first axis = -x
  have cR : HitR (r.right - prv.x) (r.top - prv.y) (r.bottom - prv.y) (cur.x - prv.x) (cur.y - prv.y) ↔
      HitR (prv.x - r.right) (r.top - prv.y) (r.bottom - prv.y) (prv.x - cur.x) (cur.y - prv.y) :=
    (hitR_congr (by omega) rfl rfl (by omega) rfl).trans (hitR_neg1 _ _ _ _ _)
  have cL : HitR (r.left - prv.x) (r.top - prv.y) (r.bottom - prv.y) (cur.x - prv.x) (cur.y - prv.y) ↔
      HitR (prv.x - r.left) (r.top - prv.y) (r.bottom - prv.y) (prv.x - cur.x) (cur.y - prv.y) :=
    (hitR_congr (by omega) rfl rfl (by omega) rfl).trans (hitR_neg1 _ _ _ _ _)
  have cT : HitR (r.top - prv.y) (r.left - prv.x) (r.right - prv.x) (cur.y - prv.y) (cur.x - prv.x) ↔
      HitR (r.top - prv.y) (prv.x - r.right) (prv.x - r.left) (cur.y - prv.y) (prv.x - cur.x) :=
    (hitR_congr rfl (by omega) (by omega) rfl (by omega)).trans (hitR_neg2 _ _ _ _ _)
  have cB : HitR (r.bottom - prv.y) (r.left - prv.x) (r.right - prv.x) (cur.y - prv.y) (cur.x - prv.x) ↔
      HitR (r.bottom - prv.y) (prv.x - r.right) (prv.x - r.left) (cur.y - prv.y) (prv.x - cur.x) :=
    (hitR_congr rfl (by omega) (by omega) rfl (by omega)).trans (hitR_neg2 _ _ _ _ _)
  rw [e]
  cases hx : (tryArms (exactOf A) prv cur
      [⟨true, r.c1, r.c2, .right⟩, ⟨decide (prv.y < r.c1.y), r.c0, r.c1, .top⟩, ⟨true, r.c2, r.c3, .bottom⟩] .right ip).1
  · exfalso
    obtain ⟨n1, n2, n3⟩ := T.2 hx
    rcases entry_arms (prv.x - r.right) (prv.x - r.left) (r.top - prv.y) (r.bottom - prv.y) (prv.x - cur.x)
      (cur.y - prv.y) (by omega) (by omega) (by omega) (by omega) (by
          unfold Hits at h
          rcases h with h | h | h | h
          · exact Or.inr (Or.inr (Or.inl (cL.mp h)))
          · exact Or.inr (Or.inl (cT.mp h))
          · exact Or.inl (cR.mp h)
          · exact Or.inr (Or.inr (Or.inr (cB.mp h)))) with h | ⟨hp', h⟩ | h
    · exact n1 (cR.mpr h)
    · exact n2 ⟨decide_eq_true (show prv.y < r.top by omega), cT.mpr h⟩
    · exact n3 (cB.mpr h)
  · rfl

theorem through_bottom {A : Arith} (ht : IsectTotal A) (r : Rect) (hw : r.left < r.right) (hh : r.top < r.bottom)
    (prv cur ip : Pt) (hp : prv.y ≥ r.bottom) (hc : cur.y < r.bottom) (h : Hits r prv cur) :
    (getIntersection (exactOf A) r prv cur .bottom ip).1 = true := by
  have T := tryArms3 (Z := exactOf A) (p := prv) (p2 := cur) (a1 := ⟨true, r.c2, r.c3, .bottom⟩)
    (a2 := ⟨decide (prv.x < r.c3.x), r.c0, r.c3, .left⟩) (a3 := ⟨true, r.c1, r.c2, .right⟩) rfl rfl
    (fun ip => hit_bottom ht r hw prv cur ip) (fun ip => hit_left ht r hh prv cur ip)
    (fun ip => hit_right ht r hh prv cur ip) .bottom ip
  have e : getIntersection (exactOf A) r prv cur .bottom ip = tryArms (exactOf A) prv cur
      [⟨true, r.c2, r.c3, .bottom⟩, ⟨decide (prv.x < r.c3.x), r.c0, r.c3, .left⟩, ⟨true, r.c1, r.c2, .right⟩] .bottom ip := rfl
  -- mirror image: first axis = -y
  have cB : HitR (r.bottom - prv.y) (r.left - prv.x) (r.right - prv.x) (cur.y - prv.y) (cur.x - prv.x) ↔
      HitR (prv.y - r.bottom) (r.left - prv.x) (r.right - prv.x) (prv.y - cur.y) (cur.x - prv.x) :=
    (hitR_congr (by omega) rfl rfl (by omega) rfl).trans (hitR_neg1 _ _ _ _ _)
  have cT : HitR (r.top - prv.y) (r.left - prv.x) (r.right - prv.x) (cur.y - prv.y) (cur.x - prv.x) ↔
      HitR (prv.y - r.top) (r.left - prv.x) (r.right - prv.x) (prv.y - cur.y) (cur.x - prv.x) :=
    (hitR_congr (by omega) rfl rfl (by omega) rfl).trans (hitR_neg1 _ _ _ _ _)
  have cL : HitR (r.left - prv.x) (r.top - prv.y) (r.bottom - prv.y) (cur.x - prv.x) (cur.y - prv.y) ↔
      HitR (r.left - prv.x) (prv.y - r.bottom) (prv.y - r.top) (cur.x - prv.x) (prv.y - cur.y) :=
    (hitR_congr rfl (by omega) (by omega) rfl (by omega)).trans (hitR_neg2 _ _ _ _ _)
  have cR : HitR (r.right - prv.x) (r.top - prv.y) (r.bottom - prv.y) (cur.x - prv.x) (cur.y - prv.y) ↔
      HitR (r.right - prv.x) (prv.y - r.bottom) (prv.y - r.top) (cur.x - prv.x) (prv.y - cur.y) :=
    (hitR_congr rfl (by omega) (by omega) rfl (by omega)).trans (hitR_neg2 _ _ _ _ _)
  rw [e]
  cases hx : (tryArms (exactOf A) prv cur
      [⟨true, r.c2, r.c3, .bottom⟩, ⟨decide (prv.x < r.c3.x), r.c0, r.c3, .left⟩, ⟨true, r.c1, r.c2, .right⟩] .bottom ip).1
  · exfalso
    obtain ⟨n1, n2, n3⟩ := T.2 hx
    rcases entry_arms (prv.y - r.bottom) (prv.y - r.top) (r.left - prv.x) (r.right - prv.x) (prv.y - cur.y)
      (cur.x - prv.x) (by omega) (by omega) (by omega) (by omega) (by
          unfold Hits at h
          rcases h with h | h | h | h
          · exact Or.inr (Or.inl (cL.mp h))
          · exact Or.inr (Or.inr (Or.inl (cT.mp h)))
          · exact Or.inr (Or.inr (Or.inr (cR.mp h)))
          · exact Or.inl (cB.mp h)) with h | ⟨hp', h⟩ | h
    · exact n1 (cB.mpr h)
    · exact n2 ⟨decide_eq_true (show prv.x < r.left by omega), cL.mpr h⟩
    · exact n3 (cR.mpr h)
  · rfl

end Clipper.Lemmas.RCG
