/-
Soundness of the Boolean checker `coverB` (Model/RectLinesCover.lean) that the driver command `LINESCOVER` runs on
every generated input: `coverB A r path es = true → Cover A r path es`.  Core Lean only.
-/
import ClipperVerif.Lemmas.RectLinesCover
namespace Clipper.Lemmas.RLV
open Clipper Clipper.Model.RC Clipper.Lemmas.RC Clipper.Lemmas.RCA

theorem mem_outerLocs {loc : Location} (h : loc ∈ outerLocs) : loc ≠ .inside := by
  unfold outerLocs at h
  simp only [List.mem_cons, List.not_mem_nil, or_false] at h
  rcases h with rfl | rfl | rfl | rfl <;> simp

theorem segPartB_sound {A : Arith} {r : Rect} {k : Nat} {prv cur : Pt} {ip ic : Bool} {es : List Emit}
    (h : segPartB A r k prv cur ip ic es = true) : SegPart A r k prv cur ip ic es := by
  cases ip <;> cases ic <;> simp only [segPartB] at h <;> simp only [SegPart]
  · simp only [Bool.or_eq_true, Bool.and_eq_true, List.any_eq_true, beq_iff_eq, Bool.not_eq_true'] at h
    rcases h with ⟨he, h | h⟩ | ⟨loc, hl, loc2, hl2, ⟨⟨⟨⟨h1, h2⟩, h3⟩, h4⟩, he⟩⟩
    · obtain ⟨loc, hl, h1, h2⟩ := h
      exact Or.inl ⟨he, Or.inl ⟨loc, mem_outerLocs hl, (readyB_iff r loc prv).mp h1, (readyB_iff r loc cur).mp h2⟩⟩
    · obtain ⟨loc, hl, h1, h2⟩ := h
      exact Or.inl ⟨he, Or.inr ⟨loc, mem_outerLocs hl, (readyB_iff r loc cur).mp h1, h2⟩⟩
    · refine Or.inr ⟨loc, loc2, mem_outerLocs hl, (readyB_iff r loc cur).mp h1, h2, mem_outerLocs hl2,
        (readyB_iff r loc2 prv).mp h3, ?_, he⟩
      intro hc
      rw [(readyB_iff r loc2 cur).mpr hc] at h4
      cases h4
  · simp only [Bool.and_eq_true, beq_iff_eq] at h
    exact h
  · split at h
    · rename_i loc ho
      simp only [Bool.and_eq_true, beq_iff_eq] at h
      exact ⟨loc, ho, h.1, h.2⟩
    · cases h
  · simpa using h

theorem take_length_takeWhile' {α : Type} (c : α → Bool) (l : List α) : l.take (l.takeWhile c).length = l.takeWhile c := by
  induction l with
  | nil => simp
  | cons a l ih =>
    rw [List.takeWhile_cons]
    split
    · simp [ih]
    · simp

theorem tailB_sound {A : Arith} {r : Rect} : ∀ (l : List Pt) (k : Nat) (ip : Bool) (es : List Emit),
    tailB A r k ip l es = true → Tail A r k ip l es
  | [], _, _, es, h => by
    unfold Tail; simp only [TailP]; simpa [tailB] using h
  | [_], _, _, es, h => by
    unfold Tail; simp only [TailP]; simpa [tailB] using h
  | prv :: cur :: rest, k, ip, es, h => by
    simp only [tailB, Bool.and_eq_true] at h
    have hsplit : es = es.takeWhile (fun e => e.k == k) ++ es.drop (es.takeWhile (fun e => e.k == k)).length := by
      conv => lhs; rw [← List.take_append_drop (es.takeWhile (fun e => e.k == k)).length es]
      rw [take_length_takeWhile']
    rw [hsplit]
    exact tail_cons A r k ip prv cur rest _ _ (segPartB_sound h.1) (tailB_sound (cur :: rest) (k + 1) _ _ h.2)

/-- **Soundness of the checker run by `LINESCOVER`.** -/
theorem coverB_sound {A : Arith} {r : Rect} {path : Path} {es : List Emit} (h : coverB A r path es = true) :
    Cover A r path es := by
  unfold Cover CoverP
  match path, h with
  | [], h => simpa [coverB] using h
  | p0 :: rest, h =>
    simp only [coverB, Bool.and_eq_true, beq_iff_eq] at h
    refine ⟨es.drop (if cls0 r (p0 :: rest) = true then [V 0 p0] else []).length, ?_, tailB_sound _ _ _ _ h.2⟩
    conv => lhs; rw [← List.take_append_drop (if cls0 r (p0 :: rest) = true then [V 0 p0] else []).length es]
    rw [h.1]

end Clipper.Lemmas.RLV
