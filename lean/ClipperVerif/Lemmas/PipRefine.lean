/- PointInPolygon, refinement part: the index/fuel model `pointInPolygonX` (Model/Geom.lean) equals the cyclic fold
`pipCyc` over the rotation of the polygon that starts at `first`; in particular it never faults and the fuel
`2·n + 4` suffices.  Core Lean only. -/
import ClipperVerif.Lemmas.PipScan
namespace Clipper.Lemmas.Geom
open Clipper Clipper.Model

/-- the vertices with indices `i ≤ · < j` -/
def seg (poly : List Pt) (i j : Nat) : List Pt := (poly.take j).drop i

theorem seg_self (poly : List Pt) (i : Nat) : seg poly i i = [] := by
  simp [seg]

theorem seg_cons {poly : List Pt} {k j : Nat} {c : Pt} (hk : k < j) (hc : poly[k]? = some c) :
    seg poly k j = c :: seg poly (k + 1) j := by
  obtain ⟨hlt, hget⟩ := List.getElem?_eq_some_iff.mp hc
  have h1 : k < (poly.take j).length := by simp [List.length_take]; omega
  simp only [seg]
  rw [List.drop_eq_getElem_cons h1, List.getElem_take, hget]

theorem seg_split (poly : List Pt) {i k j : Nat} (h1 : i ≤ k) (h2 : k ≤ j) (h3 : j ≤ poly.length) :
    seg poly i j = seg poly i k ++ seg poly k j := by
  simp only [seg]
  have e : poly.take k = (poly.take j).take k := by rw [List.take_take]; congr 1; omega
  rw [e]
  generalize hl : poly.take j = l
  have hlen : l.length = j := by rw [← hl, List.length_take]; omega
  have : i ≤ (l.take k).length := by rw [List.length_take]; omega
  rw [← List.drop_append_of_le_length this, List.take_append_drop]

theorem seg_snoc {poly : List Pt} {i k : Nat} {c : Pt} (h1 : i ≤ k) (h3 : k < poly.length) (hc : poly[k]? = some c) :
    seg poly i (k + 1) = seg poly i k ++ [c] := by
  rw [seg_split poly h1 (Nat.le_succ k) h3, seg_cons (Nat.lt_succ_self k) hc, seg_self]

theorem mem_seg {poly : List Pt} {i j : Nat} {x : Pt} (h : x ∈ seg poly i j) :
    ∃ idx, i ≤ idx ∧ idx < j ∧ poly[idx]? = some x := by
  simp only [seg] at h
  obtain ⟨n, hn, rfl⟩ := List.mem_iff_getElem.mp h
  simp only [List.length_drop, List.length_take] at hn
  refine ⟨i + n, by omega, by omega, ?_⟩
  rw [List.getElem_drop, List.getElem_take]
  exact List.getElem?_eq_getElem _

theorem seg_full (poly : List Pt) : seg poly 0 poly.length = poly := by simp [seg]




theorem skipSide_spec (poly : List Pt) (py : Int) (above : Bool) (cend : Nat) (hc : cend ≤ poly.length) :
    ∀ (m curr : Nat), cend - curr = m → curr ≤ cend →
    ∃ k, skipSide poly py above cend curr = some k ∧ curr ≤ k ∧ k ≤ cend ∧
      (∀ x ∈ seg poly curr k, (if above then x.y < py else x.y > py)) ∧
      (k < cend → ∃ c, poly[k]? = some c ∧ ¬ (if above then c.y < py else c.y > py)) := by
  intro m
  induction m with
  | zero =>
    intro curr hm hle
    have : curr = cend := by omega
    subst this
    refine ⟨curr, by rw [skipSide]; simp, Nat.le_refl _, Nat.le_refl _, ?_, fun h => absurd h (Nat.lt_irrefl _)⟩
    intro x hx; rw [seg_self] at hx; cases hx
  | succ m ih =>
    intro curr hm hle
    have hne : curr ≠ cend := by omega
    have hlt : curr < poly.length := by omega
    have hget : poly[curr]? = some poly[curr] := List.getElem?_eq_getElem hlt
    by_cases hside : (if above then poly[curr].y < py else poly[curr].y > py)
    · obtain ⟨k, hk, h1, h2, h3, h4⟩ := ih (curr + 1) (by omega) (by omega)
      refine ⟨k, ?_, by omega, h2, ?_, h4⟩
      · rw [skipSide, if_neg hne]
        split
        · rename_i h; rw [hget] at h; cases h
        · rename_i v h
          rw [hget] at h; cases h
          rw [if_pos hside]; exact hk
      · intro x hx
        rw [seg_cons (by omega) hget] at hx
        rcases List.mem_cons.mp hx with rfl | hx
        · exact hside
        · exact h3 x hx
    · refine ⟨curr, ?_, Nat.le_refl _, hle, ?_, fun _ => ⟨_, hget, hside⟩⟩
      · rw [skipSide, if_neg hne]
        split
        · rename_i h; rw [hget] at h; cases h
        · rename_i v h
          rw [hget] at h; cases h
          rw [if_neg hside]
      · intro x hx; rw [seg_self] at hx; cases hx

theorem pipScan_skip (cp : Pt → Pt → Pt → Int) (p : Pt) (ia : Bool) (val : Int) (rest : List Pt) :
    ∀ (xs : List Pt) (pr : Pt), (∀ x ∈ xs, if ia then x.y < p.y else x.y > p.y) →
      pipScan cp p pr ia val (xs ++ rest) = pipScan cp p (lastOf pr xs) ia val rest
  | [], pr, _ => rfl
  | x :: xs, pr, h => by
    have hx := h x (by simp)
    simp only [List.cons_append, pipScan, scanStep_same hx, lastOf_cons]
    exact pipScan_skip cp p ia val rest xs x (fun y hy => h y (by simp [hy]))

theorem lastOf_seg {poly : List Pt} {curr k : Nat} {pr pr' : Pt} (h1 : curr ≤ k) (h2 : k ≤ poly.length)
    (hpr : poly[prevIdx poly.length curr]? = some pr) (hpr' : poly[prevIdx poly.length k]? = some pr') :
    lastOf pr (seg poly curr k) = pr' := by
  by_cases hk : k = curr
  · subst hk; rw [seg_self, lastOf_nil]; rw [hpr] at hpr'; cases hpr'; rfl
  · have hk1 : prevIdx poly.length k = k - 1 := by simp [prevIdx]; omega
    rw [hk1] at hpr'
    have : seg poly curr (k - 1 + 1) = seg poly curr (k - 1) ++ [pr'] := seg_snoc (by omega) (by omega) hpr'
    have e : k - 1 + 1 = k := by omega
    rw [e] at this
    rw [this, lastOf_append]; rfl




/-- what the loop does from `curr` up to `cend`, given what it does once `curr = cend` (`C`) -/
theorem phase_lemma (cp : Pt → Pt → Pt → Int) (p : Pt) (poly : List Pt) (first cend K : Nat)
    (C : Bool → Int → LoopOut) (hn : cend ≤ poly.length)
    (hC : ∀ fuel, K ≤ fuel → ∀ ia val, pipLoop cp p poly first fuel cend cend ia val = C ia val)
    (hbreak : cend = first → ∀ ia val, C ia val = .exit first ia val) :
    ∀ (m curr : Nat) (ia : Bool) (val : Int) (pr : Pt), cend - curr = m → curr ≤ cend →
      (first < curr ∨ cend = first) → poly[prevIdx poly.length curr]? = some pr →
      ∀ fuel, m + K ≤ fuel → pipLoop cp p poly first fuel curr cend ia val =
        match pipScan cp p pr ia val (seg poly curr cend) with
        | none => .on
        | some (_, ia', val') => C ia' val' := by
  intro m
  induction m using Nat.strongRecOn with
  | _ m ih =>
    intro curr ia val pr hm hle hfirst hpr fuel hfuel
    by_cases hcc : curr = cend
    · subst hcc
      rw [seg_self]
      exact hC fuel (by omega) ia val
    · obtain ⟨fuel', rfl⟩ : ∃ f', fuel = f' + 1 := ⟨fuel - 1, by omega⟩
      obtain ⟨k, hskip, hk1, hk2, hk3, hk4⟩ := skipSide_spec poly p.y ia cend hn (cend - curr) curr rfl hle
      have hsplit : seg poly curr cend = seg poly curr k ++ seg poly k cend := seg_split poly hk1 hk2 hn
      rw [pipLoop, if_neg (fun h => hcc h.1)]
      simp only [if_neg hcc, hskip]
      rw [hsplit, pipScan_skip cp p ia val _ _ pr hk3]
      by_cases hkc : k = cend
      · subst hkc
        rw [if_pos rfl, seg_self]
        exact hC fuel' (by omega) ia val
      · rw [if_neg hkc]
        obtain ⟨c, hc, hcside⟩ := hk4 (by omega)
        have hpk : prevIdx poly.length k < poly.length := by simp [prevIdx]; split <;> omega
        have hprk : poly[prevIdx poly.length k]? = some poly[prevIdx poly.length k] := List.getElem?_eq_getElem hpk
        have hlast := lastOf_seg hk1 (by omega) hpr hprk
        rw [hlast, seg_cons (by omega) hc, hc, hprk]
        simp only [pipScan, scanStep, if_neg hcside]
        have hprev' : poly[prevIdx poly.length (k + 1)]? = some c := by simpa [prevIdx] using hc
        cases hvs : vertexStep cp p poly[prevIdx poly.length k] c ia val with
        | on => rfl
        | onLine =>
          simp only
          by_cases hkf : k + 1 = first
          · rw [if_pos hkf]
            have hce : cend = first := by omega
            have : k + 1 = cend := by omega
            rw [this, seg_self]; simp only [pipScan]
            rw [hbreak hce, ← hce, ← this]
          · rw [if_neg hkf]
            exact ih (cend - (k + 1)) (by omega) (k + 1) ia val c rfl (by omega) (by omega) hprev' fuel' (by omega)
        | cross v =>
          simp only
          exact ih (cend - (k + 1)) (by omega) (k + 1) (!ia) v c rfl (by omega) (by omega) hprev' fuel' (by omega)




theorem findFirst_le (py : Int) (poly : List Pt) : findFirst py poly ≤ poly.length := by
  induction poly with
  | nil => simp [findFirst]
  | cons v r ih => simp only [findFirst]; split <;> simp <;> omega

theorem findFirst_before (py : Int) (poly : List Pt) :
    ∀ i x, i < findFirst py poly → poly[i]? = some x → x.y = py := by
  induction poly with
  | nil => intro i x h; simp [findFirst] at h
  | cons v r ih =>
    intro i x h hx
    simp only [findFirst] at h
    split at h
    · cases i with
      | zero => simp at hx; subst hx; assumption
      | succ j => simp at hx; exact ih j x (by omega) hx
    · omega

theorem findFirst_at (py : Int) (poly : List Pt) (x : Pt) :
    poly[findFirst py poly]? = some x → x.y ≠ py := by
  induction poly with
  | nil => intro h; simp at h
  | cons v r ih =>
    intro hx
    simp only [findFirst] at hx
    split at hx
    · simp at hx; exact ih hx
    · simp at hx; subst hx; assumption

theorem pipScan_append (cp : Pt → Pt → Pt → Int) (p : Pt) (ys : List Pt) :
    ∀ (xs : List Pt) (pr : Pt) (ia : Bool) (val : Int),
      pipScan cp p pr ia val (xs ++ ys) =
        match pipScan cp p pr ia val xs with
        | none => none
        | some (_, ia', val') => pipScan cp p (lastOf pr xs) ia' val' ys
  | [], pr, ia, val => rfl
  | x :: xs, pr, ia, val => by
    simp only [List.cons_append, pipScan, lastOf_cons]
    cases scanStep cp p pr x ia val with
    | none => rfl
    | some st => exact pipScan_append cp p ys xs x st.1 st.2

theorem pipFinish_eq (cp : Pt → Pt → Pt → Int) (p : Pt) (poly : List Pt) (sa : Bool) (curr : Nat) (ia : Bool)
    (val : Int) (f pr : Pt)
    (h1 : poly[if curr = poly.length then 0 else curr]? = some f)
    (h2 : poly[prevIdx poly.length (if curr = poly.length then 0 else curr)]? = some pr) :
    pipFinish cp p poly sa curr ia val = some (pipClose cp p pr f sa ia val) := by
  simp only [pipFinish, pipClose, h1, h2]
  by_cases c : (ia != sa) = true
  · simp only [c, if_true]
    by_cases d : cp pr f p = 0
    · simp [d]
    · simp only [d, if_false]
  · simp only [c]
    rfl



theorem scan_last (cp : Pt → Pt → Pt → Int) (p : Pt) :
    ∀ (xs : List Pt) (pr : Pt) (ia : Bool) (val : Int) (r : Pt × Bool × Int),
      pipScan cp p pr ia val xs = some r → r.1 = lastOf pr xs
  | [], pr, ia, val, r, h => by simp only [pipScan] at h; cases h; rfl
  | x :: xs, pr, ia, val, r, h => by
    simp only [pipScan] at h
    cases hst : scanStep cp p pr x ia val with
    | none => rw [hst] at h; cases h
    | some st => rw [hst] at h; exact scan_last cp p xs x st.1 st.2 r h

theorem pipLoop_at_first (cp : Pt → Pt → Pt → Int) (p : Pt) (poly : List Pt) (first : Nat) :
    ∀ fuel, 1 ≤ fuel → ∀ ia val, pipLoop cp p poly first fuel first first ia val = .exit first ia val := by
  intro fuel hf ia val
  obtain ⟨f', rfl⟩ : ∃ f', fuel = f' + 1 := ⟨fuel - 1, by omega⟩
  rw [pipLoop, if_pos ⟨rfl, Or.inl rfl⟩]

theorem pipLoop_wrap (cp : Pt → Pt → Pt → Int) (p : Pt) (poly : List Pt) (first n : Nat)
    (h0 : first ≠ 0) (hn : first ≠ n) (fuel : Nat) (ia : Bool) (val : Int) :
    pipLoop cp p poly first (fuel + 1) n n ia val = pipLoop cp p poly first (fuel + 1) 0 first ia val := by
  have e1 : ¬ (n = n ∧ (n = first ∨ first = 0)) := by omega
  have e2 : ¬ (0 = first ∧ (first = first ∨ first = 0)) := by omega
  have e3 : ¬ (0 = first) := by omega
  rw [pipLoop, pipLoop, if_neg e1, if_neg e2]
  simp only [if_true, if_neg e3]

/-- the index/fuel model is the cyclic fold over the rotation starting at `first` -/
theorem pointInPolygonG_eq_cyc (cp : Pt → Pt → Pt → Int) (p : Pt) (poly : List Pt) (f : Pt)
    (hn : 3 ≤ poly.length) (hf : poly[findFirst p.y poly]? = some f) :
    pointInPolygonG cp p poly =
      some (pipCyc cp p f (seg poly (findFirst p.y poly + 1) poly.length ++ seg poly 0 (findFirst p.y poly))) := by
  generalize hfirst : findFirst p.y poly = first at *
  have hlt : first < poly.length := (List.getElem?_eq_some_iff.mp hf).1
  have hlast : poly[poly.length - 1]? = some poly[poly.length - 1] := List.getElem?_eq_getElem (by omega)
  generalize hlastv : poly[poly.length - 1] = last at hlast
  -- phase 2
  have ph2 := phase_lemma cp p poly first first 1 (fun ia val => .exit first ia val) (by omega)
    (pipLoop_at_first cp p poly first) (fun _ _ _ => rfl)
  have ph2' : ∀ fuel, first + 1 ≤ fuel → ∀ ia val, pipLoop cp p poly first fuel 0 first ia val =
      match pipScan cp p last ia val (seg poly 0 first) with
      | none => .on
      | some (_, ia', val') => .exit first ia' val' := by
    intro fuel hfuel ia val
    exact ph2 first 0 ia val last (by omega) (by omega) (Or.inr rfl) (by simpa [prevIdx] using hlast) fuel (by omega)
  -- phase 1
  let C : Bool → Int → LoopOut := fun ia val =>
    if first = 0 then .exit poly.length ia val
    else match pipScan cp p last ia val (seg poly 0 first) with
      | none => .on
      | some (_, ia', val') => .exit first ia' val'
  have hC : ∀ fuel, first + 2 ≤ fuel → ∀ ia val,
      pipLoop cp p poly first fuel poly.length poly.length ia val = C ia val := by
    intro fuel hfuel ia val
    obtain ⟨f', rfl⟩ : ∃ f', fuel = f' + 1 := ⟨fuel - 1, by omega⟩
    by_cases h0 : first = 0
    · simp only [C, if_pos h0]
      rw [pipLoop, if_pos ⟨rfl, Or.inr h0⟩]
    · simp only [C, if_neg h0]
      rw [pipLoop_wrap cp p poly first poly.length h0 (by omega)]
      exact ph2' (f' + 1) (by omega) ia val
  have ph1 := phase_lemma cp p poly first poly.length (first + 2) C (Nat.le_refl _) hC
    (fun h => absurd h (by omega))
  have hrun := ph1 (poly.length - (first + 1)) (first + 1) (decide (f.y < p.y)) 0 f rfl (by omega)
    (Or.inl (by omega)) (by simpa [prevIdx] using hf) (2 * poly.length + 4) (by omega)
  -- assemble
  have hl1 : lastOf f (seg poly (first + 1) poly.length) = last :=
    lastOf_seg (by omega) (Nat.le_refl _) (by simpa [prevIdx] using hf)
      (by have : prevIdx poly.length poly.length = poly.length - 1 := by simp only [prevIdx]; split <;> omega
          rw [this]; exact hlast)
  rw [pointInPolygonG, if_neg (by omega), hfirst]
  simp only [if_neg (by omega : ¬ first = poly.length), hf, hrun]
  rw [pipCyc, pipScan_append, hl1]
  cases hs1 : pipScan cp p f (decide (f.y < p.y)) 0 (seg poly (first + 1) poly.length) with
  | none => rfl
  | some r1 =>
    obtain ⟨l1, ia1, val1⟩ := r1
    simp only [C]
    by_cases h0 : first = 0
    · simp only [if_pos h0]
      subst h0
      simp only [seg_self, pipScan]
      exact pipFinish_eq cp p poly _ _ ia1 val1 f last (by simpa using hf) (by simpa [prevIdx] using hlast)
    · simp only [if_neg h0]
      cases hs2 : pipScan cp p last ia1 val1 (seg poly 0 first) with
      | none => rfl
      | some r2 =>
        obtain ⟨l2, ia2, val2⟩ := r2
        simp only
        have hb : prevIdx poly.length first < poly.length := by simp only [prevIdx]; split <;> omega
        obtain ⟨prf, hprf⟩ : ∃ x, poly[prevIdx poly.length first]? = some x := ⟨_, List.getElem?_eq_getElem hb⟩
        have hl2 : l2 = prf := by
          have h := scan_last cp p _ _ _ _ _ hs2
          simp only at h
          rw [h]
          exact lastOf_seg (Nat.zero_le _) (by omega) (by simpa [prevIdx] using hlast) hprf
        rw [hl2]
        exact pipFinish_eq cp p poly _ _ ia2 val2 f _ (by rw [if_neg (by omega)]; exact hf)
          (by rw [if_neg (by omega)]; exact hprf)


theorem findFirst_eq_length {py : Int} {poly : List Pt} (h : findFirst py poly = poly.length) :
    ∀ v ∈ poly, v.y = py := by
  induction poly with
  | nil => intro v hv; cases hv
  | cons a r ih =>
    simp only [findFirst] at h
    split at h
    · intro v hv
      rcases List.mem_cons.mp hv with rfl | hv
      · assumption
      · exact ih (by simpa using h) v hv
    · simp at h


end Clipper.Lemmas.Geom
