/-
Helper definitions and lemmas for property C04 (PolyTree construction).  The material is split over
`OwnerTree` (rose-tree layer), `OwnerAcyclic` (owner graph), `OwnerStep` (table-level frame and function
specifications), `OwnerInv` (state-level invariants, `recursiveCheckOwners`), `OwnerBuild` (outer loop).
-/
import ClipperVerif.Lemmas.OwnerTree
import ClipperVerif.Lemmas.OwnerAcyclic
import ClipperVerif.Lemmas.OwnerStep
import ClipperVerif.Lemmas.OwnerInv
import ClipperVerif.Lemmas.OwnerBuild
import ClipperVerif.Lemmas.OwnerSetOwner
