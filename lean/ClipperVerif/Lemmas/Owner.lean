/-
Helper definitions and lemmas for property C04 (PolyTree construction).  The material is split over
`OwnerTree` (rose-tree layer), `OwnerAcyclic` (owner graph), `OwnerStep` (table-level frame and function
specifications), `OwnerInv` (state-level invariants, `recursiveCheckOwners`), `OwnerBuild` (outer loop),
`OwnerClosed` (second frame: closure under owner/splits, `recursive_split` marks), `OwnerPerm` (`buildPaths` as
`filterMap`, the permutation theorem), `OwnerFuel` / `OwnerTerm` / `OwnerTermTree` (termination measures and fuel
sufficiency), `OwnerHyp` (soundness of the decidable hypothesis checks of `Model/OwnerHyp.lean`).
-/
import ClipperVerif.Lemmas.OwnerTree
import ClipperVerif.Lemmas.OwnerAcyclic
import ClipperVerif.Lemmas.OwnerStep
import ClipperVerif.Lemmas.OwnerInv
import ClipperVerif.Lemmas.OwnerBuild
import ClipperVerif.Lemmas.OwnerSetOwner
import ClipperVerif.Lemmas.OwnerClosed
import ClipperVerif.Lemmas.OwnerPerm
import ClipperVerif.Lemmas.OwnerFuel
import ClipperVerif.Lemmas.OwnerTerm
import ClipperVerif.Lemmas.OwnerTermTree
import ClipperVerif.Lemmas.OwnerHyp
import ClipperVerif.Lemmas.OwnerDepth
